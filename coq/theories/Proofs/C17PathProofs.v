(* Proofs/C17PathProofs.v — C17: lemmas about the text of a path (Model/C17Path.v). *)
From Coq Require Import String Ascii.
Require Import Hdl21.Base.PyInt Hdl21.Model.C17Path.
Open Scope string_scope.

Fixpoint noslash (s : string) : bool :=
  match s with EmptyString => true | String c s' => negb (is_slash c) && noslash s' end.
(* a segment as pathlib holds it: no slash inside, not empty, not "." *)
Definition seg_ok (s : string) : bool := noslash s && keep_seg s.
Definition path_wf (p : ppath) : bool := forallb seg_ok (p_parts p).

Lemma split_noslash : forall x, noslash x = true -> split_slash x = [x].
Proof.
  induction x as [|c x IH]; cbn; intros H; [reflexivity|].
  apply andb_true_iff in H. destruct H as [Hc Hx]. apply negb_true_iff in Hc. rewrite Hc, (IH Hx). reflexivity.
Qed.

Lemma split_app : forall x rest, noslash x = true ->
  split_slash (String.append x (String "/" rest)) = x :: split_slash rest.
Proof.
  induction x as [|c x IH]; cbn; intros rest H; [reflexivity|].
  apply andb_true_iff in H. destruct H as [Hc Hx]. apply negb_true_iff in Hc. rewrite Hc, (IH rest Hx). reflexivity.
Qed.

Lemma split_all_noslash : forall s, forallb noslash (split_slash s) = true.
Proof.
  induction s as [|c s IH]; cbn; [reflexivity|].
  destruct (is_slash c) eqn:Hc; cbn; [exact IH|].
  destruct (split_slash s) as [|x r]; cbn in *; rewrite Hc; cbn; [reflexivity|exact IH].
Qed.

Lemma split_join : forall ps, ps <> [] -> forallb noslash ps = true -> split_slash (join_slash ps) = ps.
Proof.
  induction ps as [|x ps IH]; intros Hne H; [congruence|].
  cbn in H. apply andb_true_iff in H. destruct H as [Hx Hps].
  destruct ps as [|y r]; [cbn; apply split_noslash; exact Hx|].
  change (join_slash (x :: y :: r)) with (String.append x (String "/" (join_slash (y :: r)))).
  rewrite split_app by exact Hx. rewrite IH; [reflexivity|discriminate|exact Hps].
Qed.

Lemma filter_keep_id : forall ps, forallb seg_ok ps = true -> filter keep_seg ps = ps.
Proof.
  induction ps as [|x ps IH]; cbn; intros H; [reflexivity|].
  apply andb_true_iff in H. destruct H as [Hx Hps]. unfold seg_ok in Hx. apply andb_true_iff in Hx.
  destruct Hx as [_ Hk]. rewrite Hk, (IH Hps). reflexivity.
Qed.

Lemma seg_ok_noslash : forall ps, forallb seg_ok ps = true -> forallb noslash ps = true.
Proof.
  induction ps as [|x ps IH]; cbn; intros H; [reflexivity|].
  apply andb_true_iff in H. destruct H as [Hx Hps]. unfold seg_ok in Hx. apply andb_true_iff in Hx.
  destruct Hx as [Hn _]. rewrite Hn, (IH Hps). reflexivity.
Qed.

Lemma parts_join : forall ps, forallb seg_ok ps = true -> parts_of (join_slash ps) = ps.
Proof.
  intros ps H. unfold parts_of. destruct ps as [|x r]; [reflexivity|].
  rewrite split_join; [apply filter_keep_id; exact H|discriminate|apply seg_ok_noslash; exact H].
Qed.

Lemma parts_slash : forall s, parts_of (String "/" s) = parts_of s.
Proof. intros s. reflexivity. Qed.

Lemma parts_wf : forall w, forallb seg_ok (parts_of w) = true.
Proof.
  intros w. apply forallb_forall. intros x Hx. unfold parts_of in Hx. apply filter_In in Hx. destruct Hx as [Hin Hk].
  unfold seg_ok. rewrite Hk, andb_true_r.
  pose proof (split_all_noslash w) as Hall. rewrite forallb_forall in Hall. apply Hall. exact Hin.
Qed.

(* a kept segment starts with a character that is not a slash *)
Lemma seg_ok_head : forall x, seg_ok x = true -> exists c t, x = String c t /\ is_slash c = false.
Proof.
  intros x H. unfold seg_ok in H. apply andb_true_iff in H. destruct H as [Hn Hk].
  destruct x as [|c t]; [discriminate Hk|].
  cbn in Hn. apply andb_true_iff in Hn. destruct Hn as [Hc _]. apply negb_true_iff in Hc. exists c, t. split; [reflexivity|exact Hc].
Qed.

Lemma join_head : forall c t r, exists u, join_slash (String c t :: r) = String c u.
Proof. intros c t r. destruct r; cbn; eauto. Qed.

Lemma lead_nonslash : forall c s, is_slash c = false -> lead_slashes (String c s) = 0%nat.
Proof. intros c s H. destruct s as [|b [|d s]]; cbn; rewrite H; reflexivity. Qed.
Lemma lead_one : forall c s, is_slash c = false -> lead_slashes (String "/" (String c s)) = 1%nat.
Proof. intros c s H. destruct s as [|d s]; cbn; rewrite H; reflexivity. Qed.
Lemma lead_two : forall c s, is_slash c = false -> lead_slashes (String "/" (String "/" (String c s))) = 2%nat.
Proof. intros c s H. cbn. rewrite H. reflexivity. Qed.

(* parsing the text of a path gives the path back *)
Lemma parse_render : forall p, path_wf p = true -> parse_path (render_path p) = p.
Proof.
  intros [r ps] H. unfold path_wf in H. cbn [p_parts] in H.
  unfold parse_path, render_path. cbn [p_root p_parts].
  destruct ps as [|x rest].
  - destruct r; reflexivity.
  - assert (Hx : seg_ok x = true) by (cbn in H; apply andb_true_iff in H; tauto).
    destruct (seg_ok_head x Hx) as [c [t [-> Hc]]].
    destruct (join_head c t rest) as [u Hu].
    pose proof (parts_join (String c t :: rest) H) as Hp.
    destruct r; cbn [root_str String.append].
    + rewrite Hp. f_equal. unfold root_of. rewrite Hu, lead_nonslash by exact Hc. reflexivity.
    + rewrite parts_slash, Hp. f_equal. unfold root_of. rewrite Hu, lead_one by exact Hc. reflexivity.
    + rewrite !parts_slash, Hp. f_equal. unfold root_of. rewrite Hu, lead_two by exact Hc. reflexivity.
Qed.

Lemma parse_wf : forall w, path_wf (parse_path w) = true.
Proof. intros w. unfold path_wf, parse_path. cbn [p_parts]. apply parts_wf. Qed.

Lemma parse_path_str : forall w, parse_path (path_str w) = parse_path w.
Proof. intros w. unfold path_str. apply parse_render, parse_wf. Qed.

Lemma path_str_idem : forall w, path_str (path_str w) = path_str w.
Proof. intros w. unfold path_str at 1. rewrite parse_path_str. reflexivity. Qed.

(* ---- normpath agrees with the text of the path exactly where it has nothing to strike out ---- *)
Lemma norm_no_dotdot : forall rooted l acc, existsb is_dotdot l = false -> norm_loop rooted acc l = (rev acc ++ l)%list.
Proof.
  induction l as [|c l IH]; intros acc H; cbn; [rewrite app_nil_r; reflexivity|].
  cbn in H. apply orb_false_iff in H. destruct H as [Hc Hl]. rewrite Hc. cbn.
  rewrite IH by exact Hl. cbn. rewrite <- app_assoc. reflexivity.
Qed.

Lemma strikes_named : forall rooted l p, is_dotdot p = false -> strikes rooted (Some p) l = false -> existsb is_dotdot l = false.
Proof.
  induction l as [|c l IH]; intros p Hp H; [reflexivity|].
  cbn in H. apply orb_false_iff in H. destruct H as [H1 H2]. rewrite Hp in H1. cbn in H1. rewrite andb_true_r in H1.
  cbn. rewrite H1. cbn. apply (IH c); assumption.
Qed.

Lemma norm_nothing_struck : forall rooted l acc,
  forallb is_dotdot acc = true -> (rooted = true -> acc = []) ->
  strikes rooted (hd_error acc) l = false -> norm_loop rooted acc l = (rev acc ++ l)%list.
Proof.
  induction l as [|c l IH]; intros acc Hacc Hr H; cbn; [rewrite app_nil_r; reflexivity|].
  cbn in H. apply orb_false_iff in H. destruct H as [H1 H2].
  destruct (is_dotdot c) eqn:Hc; cbn.
  - cbn in H1. destruct acc as [|top acc'].
    + cbn in H1. destruct rooted; [discriminate H1|].
      rewrite IH; [reflexivity|cbn; rewrite Hc; reflexivity|intros E; discriminate E|exact H2].
    + cbn in H1. apply negb_false_iff in H1. rewrite H1.
      rewrite IH; [cbn; rewrite <- app_assoc; reflexivity|cbn; rewrite Hc; exact Hacc|intros E; specialize (Hr E); discriminate|exact H2].
  - rewrite norm_no_dotdot by (apply (strikes_named rooted l c); assumption).
    cbn. rewrite <- app_assoc. reflexivity.
Qed.

Lemma normpath_agrees : forall w,
  strikes (negb (proot_eqb (root_of w) RNone)) None (parts_of w) = false -> normpath w = path_str w.
Proof.
  intros w H. unfold normpath, path_str, parse_path.
  rewrite norm_nothing_struck; [reflexivity|reflexivity|reflexivity|exact H].
Qed.

(* ... and differs from it wherever it strikes something out: the result has fewer segments *)
Lemma norm_loop_length : forall rooted l acc, (List.length (norm_loop rooted acc l) <= List.length acc + List.length l)%nat.
Proof.
  induction l as [|c l IH]; intros acc; cbn; [rewrite rev_length; lia|].
  destruct (is_dotdot c); cbn.
  - destruct acc as [|top acc']; [destruct rooted|destruct (is_dotdot top)].
    + specialize (IH []). cbn in *. lia.
    + specialize (IH [c]). cbn in *. lia.
    + specialize (IH (c :: top :: acc')). cbn in *. lia.
    + specialize (IH acc'). cbn in *. lia.
  - specialize (IH (c :: acc)). cbn in *. lia.
Qed.

Lemma norm_struck_shorter : forall rooted l acc,
  strikes rooted (hd_error acc) l = true ->
  (List.length (norm_loop rooted acc l) < List.length acc + List.length l)%nat.
Proof.
  induction l as [|c l IH]; intros acc H; [discriminate|].
  cbn in H. cbn [norm_loop]. destruct (is_dotdot c) eqn:Hc; cbn [negb].
  - destruct acc as [|top acc'].
    + cbn in H. destruct rooted; cbn in H.
      * pose proof (norm_loop_length true l []). cbn in *. lia.
      * specialize (IH [c] H). cbn in *. lia.
    + cbn in H. destruct (is_dotdot top); cbn in H.
      * specialize (IH (c :: top :: acc') H). cbn in *. lia.
      * pose proof (norm_loop_length rooted l acc'). cbn in *. lia.
  - cbn in H. specialize (IH (c :: acc) H). cbn in *. lia.
Qed.

Lemma norm_loop_wf : forall rooted l acc, forallb seg_ok l = true -> forallb seg_ok acc = true ->
  forallb seg_ok (norm_loop rooted acc l) = true.
Proof.
  induction l as [|c l IH]; intros acc Hl Ha; cbn.
  - rewrite forallb_forall in *. intros x Hx. apply Ha. apply in_rev. exact Hx.
  - cbn in Hl. apply andb_true_iff in Hl. destruct Hl as [Hc Hl].
    destruct (is_dotdot c); cbn.
    + destruct acc as [|top acc']; [destruct rooted|destruct (is_dotdot top)].
      * apply IH; [exact Hl|reflexivity].
      * apply IH; [exact Hl|cbn; rewrite Hc; reflexivity].
      * apply IH; [exact Hl|cbn; rewrite Hc; exact Ha].
      * apply IH; [exact Hl|]. cbn in Ha. apply andb_true_iff in Ha. tauto.
    + apply IH; [exact Hl|cbn; rewrite Hc; exact Ha].
Qed.

(* where normpath strikes something out its result is the text of ANOTHER path (one with fewer segments) *)
Lemma normpath_differs : forall w,
  strikes (negb (proot_eqb (root_of w) RNone)) None (parts_of w) = true -> normpath w <> path_str w.
Proof.
  intros w H E. unfold normpath, path_str in E.
  set (rooted := negb (proot_eqb (root_of w) RNone)) in *.
  apply (f_equal parse_path) in E.
  rewrite (parse_render (parse_path w) (parse_wf w)) in E.
  rewrite parse_render in E.
  - apply (f_equal p_parts) in E. cbn [p_parts parse_path] in E.
    pose proof (norm_struck_shorter rooted (parts_of w) [] H) as L. rewrite E in L. cbn in L. lia.
  - unfold path_wf. cbn [p_parts]. apply norm_loop_wf; [apply parts_wf|reflexivity].
Qed.
