(* Proofs/C07Proofs.v — invariants of the pass-manager machine (Model/C07PassMgr.v), for EVERY design DAG, EVERY history
   and EVERY pass body obeying the read discipline and the two frame conditions. *)
Require Import Hdl21.Base.PyInt Hdl21.Model.C07PassMgr.
Local Open Scope nat_scope.
Local Open Scope list_scope.

(* ------------------------------------------------------------------ designs *)
Definition WF (d : design) : Prop := forall m c, In c (kids d m) -> c < m.

Lemma wf_from_spec d : forall i, wf_from i d = true -> forall m c, In c (nth m d []) -> c < i + m.
Proof.
  induction d as [|ks d IH]; intros i H m c Hin.
  - destruct m; simpl in Hin; contradiction.
  - simpl in H. apply andb_true_iff in H. destruct H as [H1 H2]. destruct m; simpl in Hin.
    + rewrite forallb_forall in H1. apply H1 in Hin. apply Nat.ltb_lt in Hin. lia.
    + apply (IH (S i) H2) in Hin. lia.
Qed.

Lemma wf_design_WF d : wf_design d = true -> WF d.
Proof. intros H m c Hin. apply (wf_from_spec d 0 H m c Hin). Qed.

Lemma kids_app_old d l m : m < length d -> kids (d ++ l) m = kids d m.
Proof. intros H. unfold kids. apply app_nth1. exact H. Qed.

Lemma kids_app_new d ks : kids (d ++ [ks]) (length d) = ks.
Proof. unfold kids. rewrite app_nth2 by lia. rewrite Nat.sub_diag. reflexivity. Qed.

Lemma kids_overflow d m : length d <= m -> kids d m = [].
Proof. intros H. unfold kids. apply nth_overflow. exact H. Qed.

Lemma all_below_spec n l : all_below n l = true -> forall t, In t l -> t < n.
Proof. unfold all_below. rewrite forallb_forall. intros H t Ht. apply Nat.ltb_lt. apply H. exact Ht. Qed.

Lemma WF_app d ks : WF d -> (forall c, In c ks -> c < length d) -> WF (d ++ [ks]).
Proof.
  intros W H m c Hin. destruct (Nat.lt_trichotomy m (length d)) as [L|[E|G]].
  - rewrite kids_app_old in Hin by exact L. apply W. exact Hin.
  - subst m. rewrite kids_app_new in Hin. apply H. exact Hin.
  - rewrite kids_overflow in Hin; [contradiction|]. rewrite app_length. simpl. lia.
Qed.

(* reflexive-transitive instantiation *)
Inductive desc (d : design) : mid -> mid -> Prop :=
| desc_refl m : desc d m m
| desc_step m c x : In c (kids d m) -> desc d c x -> desc d m x.

Lemma nat_mem_In x l : nat_mem x l = true <-> In x l.
Proof.
  induction l as [|y l IH]; simpl; [split; [discriminate|tauto]|].
  rewrite orb_true_iff, IH, Nat.eqb_eq. split; intros [H|H]; auto.
Qed.

Lemma caches_distinct_NoDup l : caches_distinct l = true -> NoDup l.
Proof.
  induction l as [|x l IH]; simpl; intros H; [constructor|].
  apply andb_true_iff in H. destruct H as [H1 H2]. constructor; [|apply IH; exact H2].
  intros Hin. apply nat_mem_In in Hin. rewrite Hin in H1. discriminate.
Qed.

Lemma dfs_desc d : forall fuel m acc x, In x (dfs d fuel m acc) -> In x acc \/ desc d m x.
Proof.
  induction fuel as [|f IH]; intros m acc x; simpl; destruct (nat_mem m acc); auto.
  intros [<-|Hin]; [right; constructor|].
  assert (G : forall ks a, In x (fold_left (fun a c => dfs d f c a) ks a) -> In x a \/ exists c, In c ks /\ desc d c x).
  { induction ks as [|c ks IHks]; intros a Hx; simpl in Hx; [left; exact Hx|].
    apply IHks in Hx. destruct Hx as [Hx|[c' [Hc' Dc']]].
    - apply IH in Hx. destruct Hx as [Hx|Hx]; [left; exact Hx|right; exists c; split; [left; reflexivity|exact Hx]].
    - right. exists c'. split; [right; exact Hc'|exact Dc']. }
  apply G in Hin. destruct Hin as [Hin|[c [Hc Dc]]]; [left; exact Hin|right; econstructor; eassumption].
Qed.

Lemma export_order_desc d tops x : In x (export_order d tops) -> exists t, In t tops /\ desc d t x.
Proof.
  unfold export_order. rewrite <- in_rev.
  assert (G : forall l a, In x (fold_left (fun a t => dfs d (S t) t a) l a) -> In x a \/ exists t, In t l /\ desc d t x).
  { induction l as [|t l IHl]; intros a Hx; cbn [fold_left] in Hx; [left; exact Hx|].
    apply IHl in Hx. destruct Hx as [Hx|[t' [Ht' Dt']]].
    - apply dfs_desc in Hx. destruct Hx as [Hx|Hx]; [left; exact Hx|right; exists t; split; [left; reflexivity|exact Hx]].
    - right. exists t'. split; [right; exact Ht'|exact Dt']. }
  intros Hx. apply G in Hx. destruct Hx as [[]|Hx]. exact Hx.
Qed.

Lemma desc_below d t x : WF d -> desc d t x -> x <= t.
Proof. intros W D. induction D as [m|m c x Hc _ IH]; [lia|]. pose proof (W m c Hc). lia. Qed.

Lemma desc_ext d d' t x : WF d -> (forall m, m <= t -> kids d' m = kids d m) -> desc d t x -> desc d' t x.
Proof.
  intros W K D. induction D as [m|m c x Hc D IH]; [constructor|].
  apply (desc_step d' m c x); [rewrite K by lia; exact Hc|]. apply IH. intros y Hy. apply K. pose proof (W m c Hc). lia.
Qed.


(* ------------------------------------------------------------------ effective entries of a pass list *)
Lemma in_firstn_nth (l : list nat) : forall k x, In x (firstn k l) -> exists j, j < k /\ j < length l /\ nth j l 0 = x.
Proof.
  induction l as [|y l IH]; intros k x H; destruct k; simpl in H; try contradiction.
  destruct H as [<-|H].
  - exists 0. simpl. repeat split; lia.
  - apply IH in H. destruct H as [j [A [B E]]]. exists (S j). simpl. repeat split; try lia; exact E.
Qed.

Lemma nth_in_firstn (l : list nat) : forall k j, j < k -> j < length l -> In (nth j l 0) (firstn k l).
Proof.
  induction l as [|y l IH]; intros k j A B; simpl in B; [lia|]. destruct k; [lia|]. simpl.
  destruct j; [left; reflexivity|right]. apply IH; lia.
Qed.

Lemma eff_inj caches k k' : k < length caches -> k' < length caches -> eff caches k = true -> eff caches k' = true ->
  nth k caches 0 = nth k' caches 0 -> k = k'.
Proof.
  intros A B E E' H. unfold eff in *. apply negb_true_iff in E. apply negb_true_iff in E'.
  destruct (Nat.lt_trichotomy k k') as [L|[L|L]]; [|exact L|]; exfalso.
  - assert (X : nat_mem (nth k' caches 0) (firstn k' caches) = true).
    { apply nat_mem_In. rewrite <- H. apply nth_in_firstn; assumption. } congruence.
  - assert (X : nat_mem (nth k caches 0) (firstn k caches) = true).
    { apply nat_mem_In. rewrite H. apply nth_in_firstn; assumption. } congruence.
Qed.

(* a repeated entry has an earlier effective entry of the same class *)
Lemma eff_first caches : forall k, k < length caches -> eff caches k = false ->
  exists j, j < k /\ eff caches j = true /\ nth j caches 0 = nth k caches 0.
Proof.
  induction k as [k IH] using lt_wf_ind. intros A E.
  unfold eff in E. apply negb_false_iff in E. apply nat_mem_In in E. apply in_firstn_nth in E.
  destruct E as [j [L [B H]]]. destruct (eff caches j) eqn:Ej.
  - exists j. repeat split; assumption.
  - destruct (IH j L B Ej) as [j' [L' [E' H']]]. exists j'. repeat split; [lia|exact E'|congruence].
Qed.

Lemma next_eff_aux_spec caches : forall n j, j + n = length caches ->
  j <= next_eff_aux caches n j <= length caches /\
  (forall i, j <= i < next_eff_aux caches n j -> eff caches i = false) /\
  (next_eff_aux caches n j < length caches -> eff caches (next_eff_aux caches n j) = true).
Proof.
  induction n as [|n IH]; intros j H; simpl.
  - repeat split; intros; lia.
  - destruct (eff caches j) eqn:E.
    + repeat split; intros; try lia. exact E.
    + destruct (IH (S j)) as (A & B & Cc); [lia|]. repeat split; try lia.
      * intros i Hi. destruct (Nat.eq_dec i j) as [->|N]; [exact E|apply B; lia].
      * exact Cc.
Qed.

Lemma next_eff_spec caches j : j <= length caches ->
  j <= next_eff caches j <= length caches /\
  (forall i, j <= i < next_eff caches j -> eff caches i = false) /\
  (next_eff caches j < length caches -> eff caches (next_eff caches j) = true).
Proof. intros H. unfold next_eff. apply next_eff_aux_spec. lia. Qed.

(* a later position that is effective (or the end) is not skipped *)
Lemma next_eff_le caches k s : S k <= s -> s <= length caches -> (s < length caches -> eff caches s = true) ->
  next_eff caches (S k) <= s.
Proof.
  intros A B E. destruct (next_eff_spec caches (S k)) as (L & G & _); [lia|].
  destruct (Nat.le_gt_cases (next_eff caches (S k)) s) as [X|X]; [exact X|].
  assert (eff caches s = false) by (apply G; lia). rewrite E in H; [discriminate|lia].
Qed.

Lemma eff_0 caches : eff caches 0 = true.
Proof. reflexivity. Qed.

Ltac splits := lazymatch goal with |- _ /\ _ => split; [|splits] | _ => idtac end.

Section Proofs.
  Variables C IO FIO : Type.
  Variable init : mid -> C.
  Variable bio : C -> IO.
  Variable fio : C -> FIO.
  Variable body : nat -> mid -> list (view IO FIO) -> C -> C.
  Variable addc : nat -> C -> C.
  Variable caches : list nat.
  Variables bf mk : nat.

  Notation P := (length caches).
  Notation state := (state C IO FIO).
  Notation cache_of := (cache_of caches).
  Notation view_of := (view_of C IO FIO bio fio bf).
  Notation run_body := (run_body C IO FIO bio fio body caches bf mk).
  Notation visit := (visit C IO FIO bio fio body caches bf mk).
  Notation pass_loop := (pass_loop C IO FIO bio fio body caches bf mk).
  Notation elab_call := (elab_call C IO FIO bio fio body caches bf mk).
  Notation step := (step C IO FIO bio fio body addc caches bf mk).
  Notation run := (run C IO FIO bio fio body addc caches bf mk).
  Notation init_state := (init_state C IO FIO init).
  Notation package := (package C IO FIO).
  Notation log_keys := (log_keys IO FIO).

  (* the flattening entry and the marking entry are not repeats of an earlier entry of the same class *)
  Hypothesis bf_eff : eff caches bf = true.
  Hypothesis mk_eff : eff caches mk = true.
  (* frame conditions: bundle-level io is not changed before the flattening entry, flattened io not after it *)
  Hypothesis frame_bundle : forall k m vs c, k < bf -> bio (body k m vs c) = bio c.
  Hypothesis frame_flat : forall k m vs c, bf < k -> fio (body k m vs c) = fio c.

  Notation effb := (eff caches).
  Notation nexte := (next_eff caches).

  Lemma cache_of_inj k k' : k < P -> k' < P -> effb k = true -> effb k' = true -> cache_of k = cache_of k' -> k = k'.
  Proof. intros H1 H2 E1 E2 E. unfold C07PassMgr.cache_of in E. apply (eff_inj caches k k' H1 H2 E1 E2 E). Qed.

  (* ---------------------------------------------------------------- the canonical content: a function of the design *)
  Definition cv (F : mid -> C) (k : nat) (c : mid) : view IO FIO :=
    View c (bio (init c)) (if bf <=? k then Some (fio (F c)) else None).

  Fixpoint iter_passes (views : nat -> list (view IO FIO)) (m : mid) (k : nat) : C :=
    match k with
    | 0 => init m
    | S k' => if effb k' then body k' m (views k') (iter_passes views m k') else iter_passes views m k'
    end.

  Fixpoint canon_f (d : design) (fuel : nat) (k : nat) (m : mid) : C :=
    match fuel with
    | 0 => init m
    | S f => iter_passes (fun k' => map (cv (fun c => canon_f d f (S bf) c) k') (kids d m)) m k
    end.

  (* content of module m after its first k pass bodies *)
  Definition canon (d : design) (k : nat) (m : mid) : C := canon_f d (S m) k m.
  Definition cview (d : design) (k : nat) (c : mid) : view IO FIO := cv (fun c => canon d (S bf) c) k c.

  Lemma iter_passes_ext v1 v2 m k : (forall k', k' < k -> v1 k' = v2 k') -> iter_passes v1 m k = iter_passes v2 m k.
  Proof.
    induction k as [|k IH]; intros H; simpl; [reflexivity|].
    rewrite (H k) by lia. rewrite IH; [reflexivity|]. intros k' Hk. apply H. lia.
  Qed.

  Lemma cv_ext F G k c : (bf <= k -> F c = G c) -> cv F k c = cv G k c.
  Proof.
    intros H. unfold cv. destruct (bf <=? k) eqn:E; [|reflexivity].
    apply Nat.leb_le in E. rewrite (H E). reflexivity.
  Qed.

  (* the canonical content of m depends on the design only through the modules up to m *)
  Lemma canon_f_agree d d' n : WF d -> (forall m, m < n -> kids d' m = kids d m) ->
    forall f f' k m, m < n -> m < f -> m < f' -> canon_f d' f' k m = canon_f d f k m.
  Proof.
    intros W K. induction f as [|f IH]; intros f' k m Hn Hf Hf'; [lia|].
    destruct f' as [|f']; [lia|]. simpl. rewrite (K m Hn). apply iter_passes_ext. intros k' _.
    apply map_ext_in. intros c Hc. apply cv_ext. intros _. pose proof (W m c Hc). apply IH; lia.
  Qed.

  Lemma canon_0 d m : canon d 0 m = init m.
  Proof. reflexivity. Qed.

  Lemma canon_skip d k m : effb k = false -> canon d (S k) m = canon d k m.
  Proof. intros E. unfold canon. simpl. rewrite E. reflexivity. Qed.

  Lemma canon_skip_range d m a : forall b, a <= b -> (forall i, a <= i < b -> effb i = false) -> canon d b m = canon d a m.
  Proof.
    induction b as [|b IH]; intros L H.
    - replace a with 0 by lia. reflexivity.
    - destruct (Nat.eq_dec a (S b)) as [->|N]; [reflexivity|].
      rewrite canon_skip by (apply H; lia). apply IH; [lia|]. intros i Hi. apply H. lia.
  Qed.

  Lemma canon_S d k m : WF d -> effb k = true -> canon d (S k) m = body k m (map (cview d k) (kids d m)) (canon d k m).
  Proof.
    intros W E. unfold canon. simpl. rewrite E. f_equal. apply map_ext_in. intros c Hc. unfold cview. apply cv_ext. intros _.
    unfold canon. pose proof (W m c Hc). apply (canon_f_agree d d (S m) W); [reflexivity|lia|lia|lia].
  Qed.

  Lemma canon_ext d d' k m : WF d -> (forall x, x <= m -> kids d' x = kids d x) -> canon d' k m = canon d k m.
  Proof.
    intros W K. unfold canon. apply (canon_f_agree d d' (S m) W); [|lia|lia|lia]. intros x Hx. apply K. lia.
  Qed.

  Lemma canon_bio d k m : WF d -> k <= bf -> bio (canon d k m) = bio (init m).
  Proof.
    intros W. induction k as [|k IH]; intros H; [reflexivity|].
    destruct (effb k) eqn:E; [|rewrite canon_skip by exact E; apply IH; lia].
    rewrite canon_S by assumption. rewrite frame_bundle by lia. apply IH. lia.
  Qed.

  Lemma canon_fio d k m : WF d -> bf < k -> fio (canon d k m) = fio (canon d (S bf) m).
  Proof.
    intros W. induction k as [|k IH]; intros H; [lia|].
    destruct (Nat.eq_dec k bf) as [->|N]; [reflexivity|].
    destruct (effb k) eqn:E; [|rewrite canon_skip by exact E; apply IH; lia].
    rewrite canon_S by assumption. rewrite frame_flat by lia. apply IH. lia.
  Qed.

  (* ---------------------------------------------------------------- the visit log *)
  Definition keyed := (nat * mid * list (view IO FIO))%type.

  Inductive LogOK (d : design) : list keyed -> Prop :=
  | LogNil : LogOK d []
  | LogCons k m vs l :
      LogOK d l ->
      ~ In (k, m) (log_keys l) ->                              (* a body runs at most once per (entry, module) *)
      (forall c, In c (kids d m) -> In (k, c) (log_keys l)) -> (* children before parents *)
      (forall k', k' < k -> effb k' = true -> In (k', m) (log_keys l)) ->   (* in pass order *)
      LogOK d ((k, m, vs) :: l).

  (* ---------------------------------------------------------------- the invariant *)
  Record Inv (st : state) : Prop := {
    i_wf : WF (s_design st);
    i_done : forall k m, k < P -> effb k = true -> (s_done st (cache_of k) m = true <-> k < s_stage st m);
    i_content : forall m, s_content st m = canon (s_design st) (s_stage st m) m;
    i_snap : forall m, s_snap st m = if bf <? s_stage st m then Some (bio (init m)) else None;
    i_kids : forall m c, In c (kids (s_design st) m) -> s_stage st m <= s_stage st c;
    i_err : s_err st = false;
    i_le : forall m, s_stage st m <= P;
    i_new : forall m, length (s_design st) <= m -> s_stage st m = 0;
    i_marked : forall m, s_marked st m = (mk <? s_stage st m);
    i_login : forall k m, In (k, m) (log_keys (s_log st)) <-> (effb k = true /\ k < s_stage st m);
    i_seff : forall m, s_stage st m < P -> effb (s_stage st m) = true;
    i_log : LogOK (s_design st) (s_log st);
    i_reads : forall k m vs, In (k, m, vs) (s_log st) -> vs = map (cview (s_design st) k) (kids (s_design st) m)
  }.

  Lemma inv_init d : WF d -> Inv (init_state d).
  Proof.
    intros W. constructor; simpl; auto; try (intros; lia); try (intros k m; split; [contradiction|intros [_ H]; lia]).
    constructor.
  Qed.

  (* what a body reads from its children is the canonical view, whatever the history *)
  Lemma views_canonical st k m : Inv st -> (forall c, In c (kids (s_design st) m) -> k < s_stage st c) ->
    map (view_of k st) (kids (s_design st) m) = map (cview (s_design st) k) (kids (s_design st) m).
  Proof.
    intros I H. apply map_ext_in. intros c Hc. pose proof (H c Hc) as Hs. pose proof (i_wf st I) as W.
    unfold C07PassMgr.view_of, cview, cv. f_equal.
    - rewrite (i_snap st I c). destruct (bf <? s_stage st c) eqn:E; [reflexivity|].
      apply Nat.ltb_ge in E. rewrite (i_content st I c). apply canon_bio; assumption.
    - destruct (bf <=? k) eqn:E; [|reflexivity]. apply Nat.leb_le in E. f_equal.
      rewrite (i_content st I c). apply canon_fio; [exact W|lia].
  Qed.

  Lemma upd_same {A} (f : mid -> A) m a : upd f m a m = a.
  Proof. unfold upd. rewrite Nat.eqb_refl. reflexivity. Qed.
  Lemma upd_other {A} (f : mid -> A) m a x : x <> m -> upd f m a x = f x.
  Proof. intros H. unfold upd. destruct (x =? m) eqn:E; [apply Nat.eqb_eq in E; contradiction|reflexivity]. Qed.

  Lemma log_keys_cons k m vs l : log_keys ((k, m, vs) :: l) = (k, m) :: log_keys l.
  Proof. reflexivity. Qed.

  (* the pass body of entry k on module m, when m has had exactly k bodies and its children more than k *)
  Lemma run_body_ok st k m :
    Inv st -> k < P -> effb k = true -> m < length (s_design st) -> s_stage st m = k ->
    (forall c, In c (kids (s_design st) m) -> k < s_stage st c) ->
    Inv (run_body (s_design st) k m st).
  Proof.
    intros I Hk Ek Hm Hs Hkids. pose proof (i_wf st I) as W.
    pose proof (views_canonical st k m I Hkids) as HV.
    assert (Hcm : forall c, In c (kids (s_design st) m) -> c <> m) by (intros c Hc; pose proof (W m c Hc); lia).
    destruct (next_eff_spec caches (S k)) as (N1 & N2 & N3); [lia|]. set (k2 := nexte (S k)) in *.
    (* an effective entry is not inside the skipped range *)
    assert (Gap : forall j, effb j = true -> (j < k2 <-> j <= k)).
    { intros j Ej. split; [|lia]. intros L. destruct (Nat.le_gt_cases j k) as [X|X]; [exact X|].
      rewrite N2 in Ej by lia. discriminate. }
    constructor; cbn [C07PassMgr.run_body s_design s_done s_content s_snap s_marked s_stage s_log s_err]; fold k2.
    - exact W.
    - intros k' x Hk' Ek'. unfold upd2.
      destruct (Nat.eq_dec x m) as [->|Nx].
      + rewrite upd_same, Nat.eqb_refl, andb_true_r.
        destruct (cache_of k' =? cache_of k) eqn:E.
        * apply Nat.eqb_eq in E. apply cache_of_inj in E; try assumption. subst k'. split; [lia|reflexivity].
        * rewrite (i_done st I k' m Hk' Ek'). rewrite Hs. rewrite (Gap k' Ek').
          assert (k' <> k) by (intros ->; rewrite Nat.eqb_refl in E; discriminate). lia.
      + rewrite upd_other by exact Nx.
        replace (x =? m) with false by (symmetry; apply Nat.eqb_neq; exact Nx). rewrite andb_false_r.
        apply (i_done st I k' x Hk' Ek').
    - intros x. destruct (Nat.eq_dec x m) as [->|Nx].
      + rewrite !upd_same. rewrite (canon_skip_range (s_design st) m (S k) k2) by (try lia; exact N2).
        rewrite canon_S by assumption. rewrite HV. rewrite (i_content st I m), Hs. reflexivity.
      + rewrite !upd_other by exact Nx. apply (i_content st I x).
    - intros x. destruct (k =? bf) eqn:E.
      + apply Nat.eqb_eq in E. destruct (Nat.eq_dec x m) as [->|Nx].
        * rewrite !upd_same. replace (bf <? k2) with true by (symmetry; apply Nat.ltb_lt; lia).
          rewrite (i_content st I m), Hs. rewrite canon_bio; [reflexivity|exact W|lia].
        * rewrite !upd_other by exact Nx. apply (i_snap st I x).
      + apply Nat.eqb_neq in E. destruct (Nat.eq_dec x m) as [->|Nx].
        * rewrite upd_same. rewrite (i_snap st I m). rewrite Hs. pose proof (Gap bf bf_eff) as Gb.
          destruct (bf <? k) eqn:E1; destruct (bf <? k2) eqn:E2; try reflexivity;
            [apply Nat.ltb_lt in E1; apply Nat.ltb_ge in E2; lia | apply Nat.ltb_ge in E1; apply Nat.ltb_lt in E2; lia].
        * rewrite upd_other by exact Nx. apply (i_snap st I x).
    - intros x c Hc. destruct (Nat.eq_dec x m) as [->|Nx].
      + rewrite upd_same. rewrite upd_other by (apply Hcm; exact Hc). pose proof (Hkids c Hc).
        apply next_eff_le; [lia|apply (i_le st I c)|apply (i_seff st I c)].
      + rewrite (upd_other _ m _ x Nx). destruct (Nat.eq_dec c m) as [->|Nc].
        * rewrite upd_same. pose proof (i_kids st I x m Hc). lia.
        * rewrite upd_other by exact Nc. apply (i_kids st I x c Hc).
    - apply (i_err st I).
    - intros x. destruct (Nat.eq_dec x m) as [->|Nx]; [rewrite upd_same; lia|rewrite upd_other by exact Nx; apply (i_le st I)].
    - intros x Hx. rewrite upd_other by lia. apply (i_new st I x Hx).
    - intros x. destruct (k =? mk) eqn:E.
      + apply Nat.eqb_eq in E. destruct (Nat.eq_dec x m) as [->|Nx].
        * rewrite !upd_same. symmetry. apply Nat.ltb_lt. lia.
        * rewrite !upd_other by exact Nx. apply (i_marked st I x).
      + apply Nat.eqb_neq in E. destruct (Nat.eq_dec x m) as [->|Nx].
        * rewrite upd_same. rewrite (i_marked st I m). rewrite Hs. pose proof (Gap mk mk_eff) as Gm.
          destruct (mk <? k) eqn:E1; destruct (mk <? k2) eqn:E2; try reflexivity;
            [apply Nat.ltb_lt in E1; apply Nat.ltb_ge in E2; lia | apply Nat.ltb_ge in E1; apply Nat.ltb_lt in E2; lia].
        * rewrite upd_other by exact Nx. apply (i_marked st I x).
    - intros k' x. rewrite log_keys_cons. simpl. rewrite (i_login st I k' x).
      destruct (Nat.eq_dec x m) as [->|Nx].
      + rewrite upd_same. rewrite Hs. split.
        * intros [E|[E L]]; [inversion E; subst k'; split; [exact Ek|lia]|split; [exact E|lia]].
        * intros [E L]. destruct (Nat.eq_dec k' k) as [->|N]; [left; reflexivity|right]. split; [exact E|].
          apply (Gap k' E) in L. lia.
      + rewrite upd_other by exact Nx. split; [intros [E|L]; [inversion E; congruence|exact L]|intros L; right; exact L].
    - intros x. destruct (Nat.eq_dec x m) as [->|Nx]; [rewrite upd_same; exact N3|rewrite upd_other by exact Nx; apply (i_seff st I x)].
    - constructor.
      + apply (i_log st I).
      + rewrite (i_login st I k m). lia.
      + intros c Hc. rewrite (i_login st I k c). split; [exact Ek|apply Hkids; exact Hc].
      + intros k' L E'. rewrite (i_login st I k' m). split; [exact E'|lia].
    - intros k' x vs [E|Hin].
      + inversion E. subst k' x vs. exact HV.
      + apply (i_reads st I k' x vs Hin).
  Qed.

  (* elaborate_module_base on a module that has had at least k bodies *)
  Definition visit_post (k m : nat) (st st' : state) : Prop :=
    Inv st' /\ s_design st' = s_design st /\ k < s_stage st' m /\
    (forall x, s_stage st x <= s_stage st' x) /\ (forall x, m < x -> s_stage st' x = s_stage st x).

  Lemma visit_ok : forall fuel k m st,
    Inv st -> k < P -> effb k = true -> m < fuel -> m < length (s_design st) -> k <= s_stage st m ->
    visit_post k m st (visit (s_design st) fuel k m st).
  Proof.
    unfold visit_post. induction fuel as [|f IH]; intros k m st I Hk Ek Hf Hm Hs; [lia|].
    cbn [C07PassMgr.visit]. destruct (s_done st (cache_of k) m) eqn:D.
    - splits; auto. apply (i_done st I k m Hk Ek). exact D.
    - assert (Hsk : s_stage st m = k).
      { destruct (Nat.eq_dec (s_stage st m) k) as [E|N]; [exact E|].
        assert (L : k < s_stage st m) by lia. apply (i_done st I k m Hk Ek) in L. congruence. }
      pose proof (i_wf st I) as W.
      (* the children, in instance order *)
      assert (HK : forall ks st0, Inv st0 -> s_design st0 = s_design st ->
                 (forall c, In c ks -> c < m /\ k <= s_stage st0 c) ->
                 let st1 := fold_left (fun s c => visit (s_design st) f k c s) ks st0 in
                 Inv st1 /\ s_design st1 = s_design st /\ (forall c, In c ks -> k < s_stage st1 c) /\
                 (forall x, s_stage st0 x <= s_stage st1 x) /\ (forall x, m <= x -> s_stage st1 x = s_stage st0 x)).
      { induction ks as [|c ks IHks]; intros st0 I0 D0 H0; cbn [fold_left].
        - splits; auto. intros c [].
        - destruct (H0 c (or_introl eq_refl)) as [Hc1 Hc2].
          assert (V : visit_post k c st0 (visit (s_design st0) f k c st0)).
          { apply IH; [exact I0|exact Hk|exact Ek|lia|rewrite D0; lia|exact Hc2]. }
          rewrite D0 in V. destruct V as (I1 & D1 & S1 & M1 & F1).
          set (st1 := visit (s_design st) f k c st0) in *.
          destruct (IHks st1 I1 (eq_trans D1 D0)) as (I2 & D2 & S2 & M2 & F2).
          { intros c' Hc'. destruct (H0 c' (or_intror Hc')) as [A B]. split; [exact A|]. pose proof (M1 c'). lia. }
          splits; auto.
          + intros c' [<-|Hc']; [pose proof (M2 c); lia|apply S2; exact Hc'].
          + intros x. pose proof (M1 x). pose proof (M2 x). lia.
          + intros x Hx. rewrite F2 by exact Hx. apply F1. lia. }
      destruct (HK (kids (s_design st) m) st I eq_refl) as (I1 & D1 & S1 & M1 & F1).
      { intros c Hc. split; [apply W; exact Hc|]. pose proof (i_kids st I m c Hc). lia. }
      set (st1 := fold_left (fun s c => visit (s_design st) f k c s) (kids (s_design st) m) st) in *.
      assert (R : Inv (run_body (s_design st1) k m st1)).
      { apply run_body_ok; [exact I1|exact Hk|exact Ek|rewrite D1; exact Hm|rewrite F1 by lia; exact Hsk|].
        rewrite D1. exact S1. }
      rewrite D1 in R. destruct (next_eff_spec caches (S k)) as (N1 & _ & _); [lia|]. splits.
      + exact R.
      + cbn [C07PassMgr.run_body s_design]. exact D1.
      + cbn [C07PassMgr.run_body s_stage]. rewrite upd_same. lia.
      + intros x. cbn [C07PassMgr.run_body s_stage]. destruct (Nat.eq_dec x m) as [->|N].
        * rewrite upd_same. pose proof (M1 m). lia.
        * rewrite upd_other by exact N. apply M1.
      + intros x Hx. cbn [C07PassMgr.run_body s_stage]. rewrite upd_other by lia. apply F1. lia.
  Qed.

  Definition call_post (tops : list mid) (k : nat) (st st' : state) : Prop :=
    Inv st' /\ s_design st' = s_design st /\ (forall t, In t tops -> k <= s_stage st' t) /\
    (forall x, s_stage st x <= s_stage st' x).

  Lemma pass_loop_ok tops k st :
    Inv st -> k < P -> effb k = true -> (forall t, In t tops -> t < length (s_design st) /\ k <= s_stage st t) ->
    call_post tops (S k) st (pass_loop (s_design st) tops st k).
  Proof.
    intros I Hk Ek. unfold C07PassMgr.pass_loop, call_post.
    assert (G : forall l st0, Inv st0 -> s_design st0 = s_design st ->
               (forall t, In t l -> t < length (s_design st) /\ k <= s_stage st0 t) ->
               let st1 := fold_left (fun s t => visit (s_design st) (S t) k t s) l st0 in
               Inv st1 /\ s_design st1 = s_design st /\ (forall t, In t l -> S k <= s_stage st1 t) /\
               (forall x, s_stage st0 x <= s_stage st1 x)).
    { induction l as [|t l IHl]; intros st0 I0 D0 H0; cbn [fold_left].
      - splits; auto. intros t [].
      - destruct (H0 t (or_introl eq_refl)) as [A B].
        assert (V : visit_post k t st0 (visit (s_design st0) (S t) k t st0)).
        { apply visit_ok; [exact I0|exact Hk|exact Ek|lia|rewrite D0; exact A|exact B]. }
        rewrite D0 in V. destruct V as (I1 & D1 & S1 & M1 & _).
        set (st1 := visit (s_design st) (S t) k t st0) in *.
        destruct (IHl st1 I1 (eq_trans D1 D0)) as (I2 & D2 & S2 & M2).
        { intros t' Ht'. destruct (H0 t' (or_intror Ht')) as [A' B']. split; [exact A'|]. pose proof (M1 t'). lia. }
        splits; auto.
        + intros t' [<-|Ht']; [pose proof (M2 t); lia|apply S2; exact Ht'].
        + intros x. pose proof (M1 x). pose proof (M2 x). lia. }
    intros H. destruct (G tops st I eq_refl H) as (A & B & Cc & D). splits; auto.
  Qed.

  (* a module that had every body keeps it: the call returns the state it was given *)
  Lemma visit_done d fuel k m st : s_done st (cache_of k) m = true -> visit d fuel k m st = st.
  Proof. intros H. destruct fuel; simpl; rewrite H; reflexivity. Qed.


  (* every cache holds a module that is past the first entry of that cache's class *)
  Lemma done_past st k t : Inv st -> k < P -> k < s_stage st t -> s_done st (cache_of k) t = true.
  Proof.
    intros I Hk L. destruct (effb k) eqn:E; [apply (i_done st I k t Hk E); exact L|].
    destruct (eff_first caches k Hk E) as [j [Lj [Ej Hj]]].
    unfold C07PassMgr.cache_of. rewrite <- Hj. apply (i_done st I j t); [lia|exact Ej|lia].
  Qed.

  (* a repeated entry finds every top in its class's cache: nothing happens *)
  Lemma pass_loop_skip tops k st :
    Inv st -> k < P -> effb k = false -> (forall t, In t tops -> k <= s_stage st t) ->
    pass_loop (s_design st) tops st k = st /\ (forall t, In t tops -> S k <= s_stage st t).
  Proof.
    intros I Hk E H.
    assert (S' : forall t, In t tops -> S k <= s_stage st t).
    { intros t Ht. pose proof (H t Ht). destruct (Nat.eq_dec (s_stage st t) k) as [X|X]; [|lia].
      pose proof (i_seff st I t) as Y. rewrite X in Y. rewrite Y in E; [discriminate|exact Hk]. }
    split; [|exact S']. unfold C07PassMgr.pass_loop. clear H.
    induction tops as [|t l IHl]; cbn [fold_left]; [reflexivity|].
    rewrite visit_done.
    - apply IHl. intros t' Ht'. apply S'. right. exact Ht'.
    - apply done_past; [exact I|exact Hk|]. pose proof (S' t (or_introl eq_refl)). lia.
  Qed.

  Lemma elab_call_ok tops st :
    Inv st -> (forall t, In t tops -> t < length (s_design st)) ->
    call_post tops P st (elab_call tops st).
  Proof.
    intros I Ht. unfold C07PassMgr.elab_call, call_post. fold P.
    assert (G : forall n a st0, a + n = P -> Inv st0 -> s_design st0 = s_design st ->
               (forall t, In t tops -> a <= s_stage st0 t) ->
               call_post tops P st0 (fold_left (pass_loop (s_design st) tops) (seq a n) st0)).
    { induction n as [|n IHn]; intros a st0 Ha I0 D0 H0; cbn [seq fold_left]; unfold call_post.
      - splits; auto. intros t Hin. pose proof (H0 t Hin). lia.
      - assert (V : call_post tops (S a) st0 (pass_loop (s_design st0) tops st0 a)).
        { destruct (effb a) eqn:Ea.
          - apply pass_loop_ok; [exact I0|lia|exact Ea|]. intros t Hin. split; [rewrite D0; apply Ht; exact Hin|apply H0; exact Hin].
          - destruct (pass_loop_skip tops a st0 I0) as [X Y]; [lia|exact Ea|exact H0|]. rewrite X.
            unfold call_post. splits; auto. }
        rewrite D0 in V. destruct V as (I1 & D1 & S1 & M1).
        set (st1 := pass_loop (s_design st) tops st0 a) in *.
        destruct (IHn (S a) st1) as (I2 & D2 & S2 & M2); [lia|exact I1|exact (eq_trans D1 D0)|exact S1|].
        splits; auto; [congruence|]. intros x. pose proof (M1 x). pose proof (M2 x). lia. }
    apply (G P 0 st); [lia|exact I|reflexivity|intros; lia].
  Qed.

  Lemma elab_call_noop tops st :
    Inv st -> (forall t, In t tops -> s_stage st t = P) -> elab_call tops st = st.
  Proof.
    intros I H. unfold C07PassMgr.elab_call. fold P.
    assert (G : forall n a, a + n = P -> fold_left (pass_loop (s_design st) tops) (seq a n) st = st).
    { induction n as [|n IHn]; intros a Ha; cbn [seq fold_left]; [reflexivity|].
      assert (E : pass_loop (s_design st) tops st a = st).
      { unfold C07PassMgr.pass_loop. clear IHn. induction tops as [|t l IHl]; cbn [fold_left]; [reflexivity|].
        rewrite visit_done.
        - apply IHl. intros t' Ht'. apply H. right. exact Ht'.
        - apply done_past; [exact I|lia|]. rewrite (H t (or_introl eq_refl)). lia. }
      rewrite E. apply IHn. lia. }
    apply G. reflexivity.
  Qed.

  (* ---------------------------------------------------------------- descendants and the export order *)
  Lemma desc_stage st t x : Inv st -> desc (s_design st) t x -> s_stage st t <= s_stage st x.
  Proof.
    intros I D. induction D as [m|m c x Hc _ IH]; [lia|]. pose proof (i_kids st I m c Hc). lia.
  Qed.



  (* after a call, the package of its tops is the canonical one *)
  Lemma package_canonical st tops : Inv st -> (forall t, In t tops -> s_stage st t = P) ->
    package st tops = map (fun m => (m, canon (s_design st) P m)) (export_order (s_design st) tops).
  Proof.
    intros I H. unfold C07PassMgr.package. apply map_ext_in. intros x Hx.
    apply export_order_desc in Hx. destruct Hx as [t [Ht D]].
    pose proof (desc_stage st t x I D) as L. rewrite (H t Ht) in L. pose proof (i_le st I x).
    rewrite (i_content st I x). replace (s_stage st x) with P by lia. reflexivity.
  Qed.

  (* ---------------------------------------------------------------- steps and histories *)
  Lemma LogOK_ext d d' l : (forall k m, In (k, m) (log_keys l) -> kids d' m = kids d m) -> LogOK d l -> LogOK d' l.
  Proof.
    intros H L. induction L as [|k m vs l L IH N K O]; [constructor|].
    constructor; auto.
    - apply IH. intros k' m' Hin. apply (H k' m'). rewrite log_keys_cons. right. exact Hin.
    - intros c Hc. apply K. rewrite <- (H k m); [exact Hc|]. rewrite log_keys_cons. left. reflexivity.
  Qed.

  Lemma in_log_keys k m vs (l : list keyed) : In (k, m, vs) l -> In (k, m) (log_keys l).
  Proof. intros H. unfold C07PassMgr.log_keys. apply (in_map fst) in H. exact H. Qed.

  Definition no_edit (r : resp C) : Prop := r <> RAccepted C.

  Lemma inv_new_parent st ks : Inv st -> (forall c, In c ks -> c < length (s_design st)) ->
    Inv (State C IO FIO (s_design st ++ [ks]) (s_done st) (s_content st) (s_snap st) (s_marked st) (s_stage st) (s_log st) (s_err st)).
  Proof.
    intros I H. pose proof (i_wf st I) as W. set (d := s_design st) in *.
    assert (Hold : forall m, 0 < s_stage st m -> m < length d).
    { intros m Hm. destruct (Nat.lt_ge_cases m (length d)) as [L|G]; [exact L|]. rewrite (i_new st I m G) in Hm. lia. }
    assert (KA : forall m x, m < length d -> x <= m -> kids (d ++ [ks]) x = kids d x).
    { intros m x Hm Hx. apply kids_app_old. lia. }
    assert (CA : forall k m, m < length d -> canon (d ++ [ks]) k m = canon d k m).
    { intros k m Hm. apply canon_ext; [exact W|]. intros x Hx. apply (KA m x Hm Hx). }
    constructor; cbn [s_design s_done s_content s_snap s_marked s_stage s_log s_err].
    - apply WF_app; assumption.
    - apply (i_done st I).
    - intros m. rewrite (i_content st I m). fold d. destruct (Nat.lt_ge_cases m (length d)) as [L|G].
      + symmetry. apply CA. exact L.
      + rewrite (i_new st I m G). reflexivity.
    - apply (i_snap st I).
    - intros m c Hc. destruct (Nat.lt_trichotomy m (length d)) as [L|[E|G]].
      + rewrite kids_app_old in Hc by exact L. apply (i_kids st I m c Hc).
      + rewrite (i_new st I m) by (fold d; lia). lia.
      + rewrite kids_overflow in Hc; [contradiction|]. rewrite app_length. simpl. lia.
    - apply (i_err st I).
    - apply (i_le st I).
    - intros m Hm. rewrite app_length in Hm. simpl in Hm. apply (i_new st I). fold d. lia.
    - apply (i_marked st I).
    - apply (i_login st I).
    - apply (i_seff st I).
    - apply (LogOK_ext d); [|apply (i_log st I)]. intros k m Hin. apply kids_app_old. apply Hold.
      apply (i_login st I) in Hin. lia.
    - intros k m vs Hin. pose proof (i_reads st I k m vs Hin) as E. fold d in E.
      assert (Hm : m < length d). { apply Hold. apply in_log_keys in Hin. apply (i_login st I) in Hin. lia. }
      rewrite kids_app_old by exact Hm. rewrite E. apply map_ext_in. intros c Hc.
      unfold cview. apply cv_ext. intros _. symmetry. apply CA. pose proof (W m c Hc). lia.
  Qed.

  Lemma step_ok st o : Inv st -> no_edit (snd (step st o)) ->
    Inv (fst (step st o)) /\ (forall x, s_stage st x <= s_stage (fst (step st o)) x) /\
    (forall m, m < length (s_design st) -> kids (s_design (fst (step st o))) m = kids (s_design st) m) /\
    length (s_design st) <= length (s_design (fst (step st o))).
  Proof.
    intros I NE. destruct o as [tops|tops|tops|ks|m a]; cbn [C07PassMgr.step] in *.
    1-3: destruct (all_below (length (s_design st)) tops) eqn:A; cbn [fst snd]; [|splits; auto];
         destruct (elab_call_ok tops st I (all_below_spec _ _ A)) as (I1 & D1 & _ & M1);
         splits; auto; rewrite D1; auto.
    - destruct (all_below (length (s_design st)) ks) eqn:A; cbn [fst snd s_design s_stage]; [|splits; auto].
      splits; auto.
      + apply inv_new_parent; [exact I|apply all_below_spec; exact A].
      + intros x Hx. apply kids_app_old. exact Hx.
      + rewrite app_length. lia.
    - destruct (s_marked st m); cbn [fst snd] in *; [splits; auto|].
      destruct (m <? length (s_design st)); cbn [fst snd] in *; [exfalso; apply NE; reflexivity|splits; auto].
  Qed.

  Fixpoint no_edits (rs : list (resp C)) : Prop :=
    match rs with [] => True | r :: rs' => no_edit r /\ no_edits rs' end.

  Lemma run_ok : forall h st, Inv st -> no_edits (snd (run st h)) ->
    Inv (fst (run st h)) /\ (forall x, s_stage st x <= s_stage (fst (run st h)) x) /\
    (forall m, m < length (s_design st) -> kids (s_design (fst (run st h))) m = kids (s_design st) m) /\
    length (s_design st) <= length (s_design (fst (run st h))).
  Proof.
    induction h as [|o h IH]; intros st I NE; cbn [C07PassMgr.run] in *; [splits; auto|].
    destruct (step st o) as [st1 r] eqn:E1. destruct (run st1 h) as [st2 rs] eqn:E2. cbn [fst snd] in *.
    destruct NE as [NE1 NE2].
    assert (S1 := step_ok st o I). rewrite E1 in S1. cbn [fst snd] in S1. destruct (S1 NE1) as (I1 & M1 & K1 & L1).
    assert (S2 := IH st1 I1). rewrite E2 in S2. cbn [fst snd] in S2. destruct (S2 NE2) as (I2 & M2 & K2 & L2).
    splits; auto.
    - intros x. pose proof (M1 x). pose proof (M2 x). lia.
    - intros m Hm. rewrite K2 by lia. apply K1. exact Hm.
    - lia.
  Qed.

  (* ---------------------------------------------------------------- reachable states: any history without accepted edits *)
  Inductive reachable (d : design) : state -> Prop :=
  | r_init : reachable d (init_state d)
  | r_step st o : reachable d st -> no_edit (snd (step st o)) -> reachable d (fst (step st o)).

  Lemma run_reachable d : forall h st, reachable d st -> no_edits (snd (run st h)) -> reachable d (fst (run st h)).
  Proof.
    induction h as [|o h IH]; intros st R NE; cbn [C07PassMgr.run] in *; [exact R|].
    destruct (step st o) as [st1 r] eqn:E1. destruct (run st1 h) as [st2 rs] eqn:E2. cbn [fst snd] in *.
    destruct NE as [NE1 NE2].
    assert (R1 : reachable d st1).
    { replace st1 with (fst (step st o)) by (rewrite E1; reflexivity). constructor; [exact R|]. rewrite E1. exact NE1. }
    specialize (IH st1 R1). rewrite E2 in IH. apply IH. exact NE2.
  Qed.

  Lemma reachable_inv d st : WF d -> reachable d st -> Inv st.
  Proof.
    intros W R. induction R as [|st o R IH NE]; [apply inv_init; exact W|].
    apply (step_ok st o IH NE).
  Qed.

  Lemma LogOK_nodup d l : LogOK d l -> NoDup (log_keys l).
  Proof. intros L. induction L; [constructor|]. rewrite log_keys_cons. constructor; assumption. Qed.

  (* a call brings its tops, hence everything below them, to the end of the pass list *)
  Lemma call_completes st tops t x : Inv st -> all_below (length (s_design st)) tops = true ->
    In t tops -> desc (s_design st) t x ->
    Inv (elab_call tops st) /\ s_design (elab_call tops st) = s_design st /\ s_stage (elab_call tops st) x = P.
  Proof.
    intros I A Ht D. destruct (elab_call_ok tops st I (all_below_spec _ _ A)) as (I1 & D1 & S1 & _).
    splits; auto. rewrite <- D1 in D. pose proof (desc_stage _ t x I1 D). pose proof (S1 t Ht). pose proof (i_le _ I1 x). lia.
  Qed.



  Lemma in_log_exists k m (l : list keyed) : In (k, m) (log_keys l) -> exists vs, In (k, m, vs) l.
  Proof.
    unfold C07PassMgr.log_keys. intros H. apply in_map_iff in H. destruct H as [[[k' m'] vs] [E Hin]].
    simpl in E. inversion E. subst. exists vs. exact Hin.
  Qed.
End Proofs.
