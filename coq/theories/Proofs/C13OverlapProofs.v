(* Proofs/C13OverlapProofs.v — objects with several facets: whichever isinstance test comes first, the exported value
   shows the agreed reading (or the object is refused where the specification admits refusal). *)
From Coq Require Import String Ascii.
Require Import Hdl21.Base.PyInt Hdl21.Base.Dec Hdl21.Model.Prefixed Hdl21.Model.C13Params Hdl21.Spec.C13Spec.
Require Import Hdl21.Model.C13Dispatch Hdl21.Spec.C13Overlap Hdl21.Proofs.C13Proofs.
Open Scope list_scope.
Open Scope Z_scope.
Notation length := List.length.

(* ------------------------------------------------------------------ equality of expectations *)
Lemma dec_same_eq a b : dec_same a b = true -> a = b.
Proof.
  unfold dec_same, dec_identical. destruct a as [s c e], b as [s' c' e']. cbn [dsign dcoef dexp]. intros H.
  apply andb_prop in H. destruct H as [H H3]. apply andb_prop in H. destruct H as [H1 H2].
  apply Bool.eqb_prop in H1. apply N.eqb_eq in H2. apply Z.eqb_eq in H3. subst. reflexivity.
Qed.

Lemma expect_eqb_eq a b : expect_eqb a b = true -> a = b.
Proof.
  destruct a, b; cbn [expect_eqb]; intros H; try discriminate; try reflexivity.
  - apply str_eqb_eq in H. subst. reflexivity.
  - apply andb_prop in H. destruct H as [H1 H2]. apply dec_same_eq in H1. apply Z.eqb_eq in H2. subst. reflexivity.
  - apply dec_same_eq in H. subst. reflexivity.
  - apply Z.eqb_eq in H. subst. reflexivity.
  - apply Z.eqb_eq in H. subst. reflexivity.
  - apply dec_same_eq in H. subst. reflexivity.
Qed.

(* a non-free agreement is every reading *)
Lemma agree_all l x : agree l = x -> is_free x = false -> l <> [] /\ forall y, In y l -> y = x.
Proof.
  destruct l as [|h r]; cbn [agree]; intros A F.
  - subst x. discriminate.
  - destruct (forallb (expect_eqb h) r) eqn:E; [|subst x; discriminate]. subst x. split; [discriminate|].
    intros y [->|Hy]; [reflexivity|]. rewrite forallb_forall in E. symmetry. apply expect_eqb_eq. apply E. exact Hy.
Qed.

Lemma agree_head h r : agree (h :: r) = h \/ agree (h :: r) = XFree.
Proof. cbn [agree]. destruct (forallb (expect_eqb h) r); [left|right]; reflexivity. Qed.

Lemma in_readings kind v vs : In v vs -> is_free (expected kind v) = false -> In (expected kind v) (readings kind vs).
Proof.
  intros I F. unfold readings. apply filter_In. split; [apply in_map; exact I|]. rewrite F. reflexivity.
Qed.

(* ------------------------------------------------------------------ the isinstance chain *)
Lemma first_match_spec bs o :
  (exists b, In b bs /\ b o = Some (first_match bs o)) \/ ((forall b, In b bs -> b o = None) /\ first_match bs o = VOther).
Proof.
  induction bs as [|b r IH]; cbn [first_match].
  - right. split; [intros b []|reflexivity].
  - destruct (b o) as [v|] eqn:E.
    + left. exists b. split; [left; reflexivity|exact E].
    + destruct IH as [[b' [I H]]|[N V]].
      * left. exists b'. split; [right; exact I|exact H].
      * right. split; [|exact V]. intros b' [<-|I]; [exact E|apply N; exact I].
Qed.

(* what a branch of export_param_value's chain hands on is a facet *)
Lemma branch_facet b o v : In b export_order -> b o = Some v -> In v (facets o).
Proof.
  unfold export_order, facets. intros I H.
  repeat (destruct I as [<-|I]); try contradiction;
    [ unfold br_none in H; destruct (o_none o); [|discriminate]; inversion H; apply in_or_app; left; left; reflexivity
    | .. ];
    rewrite H; repeat (apply in_or_app; first [left; left; reflexivity | right]).
  left. reflexivity.
Qed.

(* ... and every facet is handed on by some branch *)
Lemma facet_branch o v : In v (facets o) -> exists b, In b export_order /\ b o = Some v.
Proof.
  unfold facets. intros I.
  apply in_app_or in I. destruct I as [I|I].
  { exists br_none. split; [left; reflexivity|]. unfold br_none. destruct (o_none o); [|destruct I].
    destruct I as [<-|[]]. reflexivity. }
  apply in_app_or in I. destruct I as [I|I].
  { exists br_str. split; [right; left; reflexivity|]. destruct (br_str o); [destruct I as [<-|[]]; reflexivity|destruct I]. }
  apply in_app_or in I. destruct I as [I|I].
  { exists br_enum. split; [do 2 right; left; reflexivity|]. destruct (br_enum o); [destruct I as [<-|[]]; reflexivity|destruct I]. }
  apply in_app_or in I. destruct I as [I|I].
  { exists br_lit. split; [do 3 right; left; reflexivity|]. destruct (br_lit o); [destruct I as [<-|[]]; reflexivity|destruct I]. }
  apply in_app_or in I. destruct I as [I|I].
  { exists br_pre. split; [do 4 right; left; reflexivity|]. destruct (br_pre o); [destruct I as [<-|[]]; reflexivity|destruct I]. }
  apply in_app_or in I. destruct I as [I|I].
  { exists br_dec. split; [do 5 right; left; reflexivity|]. destruct (br_dec o); [destruct I as [<-|[]]; reflexivity|destruct I]. }
  apply in_app_or in I. destruct I as [I|I].
  { exists br_int. split; [do 6 right; left; reflexivity|]. destruct (br_int o); [destruct I as [<-|[]]; reflexivity|destruct I]. }
  exists br_flt. split; [do 7 right; left; reflexivity|]. destruct (br_flt o); [destruct I as [<-|[]]; reflexivity|destruct I].
Qed.

Lemma facet_wf o v : obj_wf o = true -> In v (facets o) -> value_wf v = true.
Proof.
  intros W I. destruct (facet_branch o v I) as [b [Ib H]]. unfold export_order in Ib.
  repeat (destruct Ib as [<-|Ib]); try contradiction;
    try (unfold br_none in H; destruct (o_none o); inversion H; reflexivity);
    try (unfold br_str, br_enum, br_lit, br_dec, br_int, br_flt in H;
         match type of H with option_map _ ?x = _ => destruct x; inversion H; reflexivity end).
  unfold br_pre in H. unfold obj_wf in W. destruct (o_pre o) as [p|]; inversion H. exact W.
Qed.

(* the only facet without a reading *)
Lemma facet_free o v : In v (facets o) -> is_free (expected 4 v) = true -> v = VEnum None /\ refusable_given o = true.
Proof.
  intros I F. destruct (facet_branch o v I) as [b [Ib H]]. unfold export_order in Ib.
  repeat (destruct Ib as [<-|Ib]); try contradiction.
  - unfold br_none in H. destruct (o_none o); inversion H. subst v. discriminate.
  - unfold br_str in H. destruct (o_str o); inversion H. subst v. discriminate.
  - unfold br_enum in H. unfold refusable_given. destruct (o_enum o) as [[s|]|]; inversion H; subst v; [discriminate|].
    split; reflexivity.
  - unfold br_lit in H. destruct (o_lit o); inversion H. subst v. discriminate.
  - unfold br_pre in H. destruct (o_pre o); inversion H. subst v. discriminate.
  - unfold br_dec in H. destruct (o_dec o); inversion H. subst v. discriminate.
  - unfold br_int in H. destruct (o_int o); inversion H. subst v. discriminate.
  - unfold br_flt in H. destruct (o_flt o) as [[b r]|]; inversion H. subst v. discriminate.
Qed.

(* ------------------------------------------------------------------ as given: ANY order of the eight tests *)
Definition reordering (bs : list branch) : Prop := incl bs export_order /\ incl export_order bs.

Lemma given_preserved_any_order bs o x : reordering bs -> obj_wf o = true ->
  agree (readings 4 (facets o)) = x -> is_free x = false -> unrepresentable x = false ->
  (exists ov, export_param_value (first_match bs o) = Ok ov /\
              match ov with None => x = XOmit | Some pv => shows x pv = true end)
  \/ (refusable_given o = true /\ first_match bs o = VEnum None).
Proof.
  intros [Sub Sup] W A F U. destruct (agree_all _ _ A F) as [NE All].
  destruct (first_match_spec bs o) as [[b [Ib H]]|[N V]].
  - pose proof (branch_facet b o _ (Sub b Ib) H) as IF.
    destruct (is_free (expected 4 (first_match bs o))) eqn:FV.
    + right. destruct (facet_free o _ IF FV) as [E R]. split; assumption.
    + left. pose proof (All _ (in_readings 4 _ _ IF FV)) as EX.
      pose proof (facet_wf o _ W IF) as WV. rewrite <- EX in U.
      destruct (export_value_shows _ WV FV U) as [ov [E S]]. exists ov. split; [exact E|]. rewrite <- EX. exact S.
  - exfalso. destruct (readings 4 (facets o)) as [|y r] eqn:R; [apply NE; reflexivity|].
    assert (In y (readings 4 (facets o))) as Iy by (rewrite R; left; reflexivity).
    unfold readings in Iy. apply filter_In in Iy. destruct Iy as [Iy _]. apply in_map_iff in Iy. destruct Iy as [v [_ Iv]].
    destruct (facet_branch o v Iv) as [b [Ib H]]. rewrite (N b (Sup b Ib)) in H. discriminate.
Qed.

Lemma export_order_reordering : reordering export_order.
Proof. split; apply incl_refl. Qed.

Lemma given_preserved o x : obj_wf o = true -> agree (readings 4 (facets o)) = x -> is_free x = false -> unrepresentable x = false ->
  (exists ov, export_param_value_obj o = Ok ov /\ match ov with None => x = XOmit | Some pv => shows x pv = true end)
  \/ (refusable_given o = true /\ export_param_value_obj o = Error EBadKind).
Proof.
  intros W A F U. destruct (given_preserved_any_order export_order o x export_order_reordering W A F U) as [H|[R V]].
  - left. exact H.
  - right. split; [exact R|]. unfold export_param_value_obj, export_view. rewrite V. reflexivity.
Qed.

(* an agreed reading the format cannot hold: the object is refused *)
Lemma given_refuses o x : agree (readings 4 (facets o)) = x -> unrepresentable x = true ->
  exists e, export_param_value_obj o = Error e.
Proof.
  intros A U. assert (is_free x = false) as F by (destruct x; try discriminate; reflexivity).
  destruct (agree_all _ _ A F) as [NE All].
  unfold export_param_value_obj, export_view.
  destruct (first_match_spec export_order o) as [[b [Ib H]]|[N V]].
  - pose proof (branch_facet b o _ Ib H) as IF.
    destruct (is_free (expected 4 (first_match export_order o))) eqn:FV.
    + destruct (facet_free o _ IF FV) as [E _]. rewrite E. eexists. reflexivity.
    + pose proof (All _ (in_readings 4 _ _ IF FV)) as EX. apply export_value_refuses. rewrite EX. exact U.
  - rewrite V. eexists. reflexivity.
Qed.

(* ------------------------------------------------------------------ plain values are the one-facet objects *)
Lemma export_view_plain v : export_view (as_obj v) = v.
Proof. destruct v; reflexivity. Qed.

Lemma export_obj_plain v : export_param_value_obj (as_obj v) = export_param_value v.
Proof. unfold export_param_value_obj. rewrite export_view_plain. reflexivity. Qed.

Lemma agree_one x : agree [x] = x.
Proof. reflexivity. Qed.

Lemma expected_obj_plain kind v : snd (expected_obj kind (as_obj v)) = expected kind v.
Proof.
  unfold expected_obj, expected. destruct (scalar_kind kind) eqn:SK.
  - unfold scalar_kind in SK. destruct (kind =? 0) eqn:K0.
    + apply Z.eqb_eq in K0. subst kind. destruct v as [|s|e|s|p|d|z|b r|]; try reflexivity.
      * cbn. unfold numeric. destruct (parse_numeric s); reflexivity.
      * cbn. destruct (float_finite b); [|reflexivity]. unfold numeric. destruct (parse_numeric r); reflexivity.
    + cbn [orb] in SK. apply Z.eqb_eq in SK. subst kind. destruct v as [|s|e|s|p|d|z|b r|]; try reflexivity.
      * cbn. unfold numeric. destruct (parse_numeric s); reflexivity.
      * cbn. destruct (float_finite b); [|reflexivity]. unfold numeric. destruct (parse_numeric r); reflexivity.
  - destruct v as [|s|[s|]|s|p|d|z|b r|]; reflexivity.
Qed.

(* ------------------------------------------------------------------ Scalar-typed parameters *)
Lemma fresh_preserved v : value_wf v = true -> v <> VNone -> is_free (expected 0 v) = false ->
  exists st ov, fresh v = Ok st /\ export_param_value_obj st = Ok ov /\
                match ov with None => False | Some pv => shows (expected 0 v) pv = true end.
Proof.
  intros W NN F. rewrite expected_0 in *. destruct (scalar_preserved false v W F) as [x [ov [S [E R]]]].
  assert (store_sc false v = to_scalar v) as ST by (destruct v; reflexivity). rewrite ST in S.
  exists (as_obj x), ov. unfold fresh. rewrite S. cbn [bind]. rewrite export_obj_plain. repeat split; [exact E|].
  destruct ov as [pv|]; [exact R|]. destruct v; cbn [expected_sc] in R; try discriminate; try contradiction.
  - unfold numeric in R. destruct (parse_numeric s); discriminate.
  - destruct (float_finite bits); [|discriminate]. destruct (numeric frepr); discriminate.
Qed.

(* the conversion reads the first of the str / Decimal / int / float facets, whose reading heads the list *)
Lemma agree_readings_head kind v r x : is_free (expected kind v) = false -> agree (readings kind (v :: r)) = x -> is_free x = false ->
  expected kind v = x.
Proof.
  intros FV A F. unfold readings in A. cbn [map filter] in A. rewrite FV in A. cbn [negb] in A.
  destruct (agree_head (expected kind v) (filter (fun x0 => negb (is_free x0)) (map (expected kind) r))) as [E|E];
    rewrite E in A; [exact A|]. subst x. discriminate.
Qed.

Lemma conv_preserved o x : has_scalar o = false ->
  agree (readings 0 (conv_facets o)) = x -> is_free x = false ->
  (exists st ov, to_scalar_obj o = Ok st /\ export_param_value_obj st = Ok ov /\
                 match ov with None => False | Some pv => shows x pv = true end)
  \/ (refusable_conv o = true /\ exists e, to_scalar_obj o = Error e).
Proof.
  intros HS A F. unfold to_scalar_obj. rewrite HS. unfold conv_facets, br_str, br_dec, br_int, br_flt, refusable_conv in *.
  destruct (o_str o) as [s|]; cbn [option_map opt_list app] in A.
  { left. assert (is_free (expected 0 (VStr s)) = false) as FV by (cbn; unfold numeric; destruct (parse_numeric s); reflexivity).
    rewrite <- (agree_readings_head 0 _ _ _ FV A F). apply fresh_preserved; [reflexivity|discriminate|exact FV]. }
  destruct (o_dec o) as [d|]; cbn [option_map opt_list app] in A.
  { left. assert (is_free (expected 0 (VDecimal d)) = false) as FV by reflexivity.
    rewrite <- (agree_readings_head 0 _ _ _ FV A F). apply fresh_preserved; [reflexivity|discriminate|exact FV]. }
  destruct (o_int o) as [[z [|]]|]; cbn [option_map opt_list app fst] in A.
  { right. split; [reflexivity|]. eexists. reflexivity. }
  { left. assert (is_free (expected 0 (VInt z)) = false) as FV by reflexivity.
    rewrite <- (agree_readings_head 0 _ _ _ FV A F). apply fresh_preserved; [reflexivity|discriminate|exact FV]. }
  destruct (o_flt o) as [[b r]|]; cbn [option_map opt_list app fst snd] in A.
  - left. destruct (is_free (expected 0 (VFloat b r))) eqn:FV.
    + exfalso. unfold readings in A. cbn [map filter] in A. rewrite FV in A. cbn [negb agree] in A. subst x. discriminate.
    + rewrite <- (agree_readings_head 0 _ _ _ FV A F). apply fresh_preserved; [reflexivity|discriminate|exact FV].
  - exfalso. cbn in A. subst x. discriminate.
Qed.

(* one parameter, construction + export, for an object of any combination of facets *)
Lemma store_obj_given kind o : kind <> 0 -> kind <> 1 -> kind <> 2 -> kind <> 3 -> store_obj kind o = Ok o.
Proof.
  intros K0 K1 K2 K3. unfold store_obj. apply Z.eqb_neq in K0. apply Z.eqb_neq in K1. apply Z.eqb_neq in K2. apply Z.eqb_neq in K3.
  rewrite K0, K1, K2, K3. reflexivity.
Qed.

Definition obj_outcome (kind : Z) (o : pyobj) (may : bool) (x : expect) : Prop :=
  (exists st ov, store_obj kind o = Ok st /\ export_param_value_obj st = Ok ov /\
                 match ov with None => x = XOmit | Some pv => shows x pv = true end)
  \/ (may = true /\ ((exists e, store_obj kind o = Error e) \/
                      exists st e, store_obj kind o = Ok st /\ export_param_value_obj st = Error e)).

Lemma given_outcome kind o x : store_obj kind o = Ok o -> obj_wf o = true ->
  agree (readings 4 (facets o)) = x -> is_free x = false -> unrepresentable x = false ->
  obj_outcome kind o (refusable_given o) x.
Proof.
  intros S W A F U. destruct (given_preserved o x W A F U) as [[ov [E R]]|[M E]].
  - left. exists o, ov. repeat split; assumption.
  - right. split; [exact M|]. right. exists o, EBadKind. split; assumption.
Qed.

Lemma obj_preserved kind o : obj_wf o = true -> kind <> 2 -> kind <> 3 ->
  is_free (snd (expected_obj kind o)) = false -> unrepresentable (snd (expected_obj kind o)) = false ->
  obj_outcome kind o (fst (expected_obj kind o)) (snd (expected_obj kind o)).
Proof.
  intros W K2 K3. unfold expected_obj. destruct (scalar_kind kind) eqn:SK.
  - assert (kind = 0 \/ kind = 1) as K.
    { unfold scalar_kind in SK. apply orb_prop in SK. destruct SK as [H|H]; apply Z.eqb_eq in H; [left|right]; exact H. }
    destruct (o_none o) eqn:ON.
    + destruct K as [-> | ->]; cbn [Z.eqb fst snd]; [discriminate|]. unfold given. cbn [fst snd]. intros F U.
      apply given_outcome; try assumption; try reflexivity. unfold store_obj. cbn [Z.eqb]. rewrite ON. reflexivity.
    + destruct (has_scalar o) eqn:HS.
      * unfold given. cbn [fst snd]. intros F U. apply given_outcome; try assumption; try reflexivity.
        unfold store_obj, to_scalar_obj. rewrite ON, HS. destruct K as [-> | ->]; reflexivity.
      * cbn [fst snd]. intros F _.
        assert (store_obj kind o = to_scalar_obj o) as ST by (unfold store_obj; rewrite ON; destruct K as [-> | ->]; reflexivity).
        destruct (conv_preserved o _ HS eq_refl F) as [[st [ov [S [E R]]]]|[M [e S]]].
        -- left. exists st, ov. rewrite ST. repeat split; try assumption. destruct ov; [exact R|contradiction].
        -- right. split; [exact M|]. left. exists e. rewrite ST. exact S.
  - unfold given. cbn [fst snd]. intros F U.
    assert (kind <> 0 /\ kind <> 1) as [K0 K1].
    { unfold scalar_kind in SK. apply orb_false_elim in SK. destruct SK as [A B]. apply Z.eqb_neq in A. apply Z.eqb_neq in B. split; assumption. }
    apply given_outcome; try assumption; try reflexivity. apply store_obj_given; assumption.
Qed.

(* an enum-typed field (kind 3): a member whose value is a string is stored as it is *)
Lemma enum_field_preserved o s : obj_wf o = true -> o_enum o = Some (Some s) ->
  is_free (snd (expected_obj 3 o)) = false -> unrepresentable (snd (expected_obj 3 o)) = false ->
  exists ov, store_obj 3 o = Ok o /\ export_param_value_obj o = Ok ov /\
             match ov with None => snd (expected_obj 3 o) = XOmit | Some pv => shows (snd (expected_obj 3 o)) pv = true end.
Proof.
  intros W E F U. assert (store_obj 3 o = Ok o) as S by (unfold store_obj; cbn [Z.eqb]; rewrite E; reflexivity).
  change (expected_obj 3 o) with (given o) in *. unfold given in *. cbn [snd] in *.
  destruct (given_preserved o _ W eq_refl F U) as [[ov [X R]]|[M _]].
  - exists ov. repeat split; assumption.
  - unfold refusable_given in M. rewrite E in M. discriminate.
Qed.
