(* Proofs/C13Proofs.v — lemmas behind Props/C13.v.
   1. decimal digit strings: digits_of is total, denotes its argument, consists of ASCII digits
   2. str(Decimal) is total and the numeric-string reader reads it back as exactly the same Decimal
      (sign, every digit of the coefficient, exponent), for every coefficient length and every exponent
   3. export_prefixed / export_param_value / export_params show what Spec/C13Spec.v expects *)
From Coq Require Import String Ascii.
Require Import Hdl21.Base.PyInt Hdl21.Base.Dec Hdl21.Model.Prefixed Hdl21.Model.C13Params Hdl21.Spec.C13Spec.
Require Import Hdl21Gen.PrefixTable Hdl21Gen.PrefixMaps Hdl21Gen.C13Tables.
Open Scope list_scope.
Open Scope Z_scope.
Notation length := List.length.

Definition all_dig (l : str) : bool := forallb is_dig l.
Definition zl (l : str) : Z := Z.of_nat (length l).

(* ------------------------------------------------------------------ 1. digit strings *)
Lemma dval_app x : forall a y, dval a (x ++ y) = dval (dval a x) y.
Proof. induction x as [|c x IH]; intros a y; simpl; [reflexivity|apply IH]. Qed.

Lemma dval_zeros k : forall a, a = 0 -> dval a (repeat 48 k) = 0.
Proof. induction k as [|k IH]; intros a ->; simpl; [reflexivity|]. apply IH. reflexivity. Qed.

Lemma all_dig_app a b : all_dig (a ++ b) = all_dig a && all_dig b.
Proof. apply forallb_app. Qed.

Lemma all_dig_zeros k : all_dig (repeat 48 k) = true.
Proof. induction k; simpl; [reflexivity|exact IHk]. Qed.

Lemma digs_app fuel : forall n acc,
  digs fuel n acc = match digs fuel n [] with Some r => Some (r ++ acc) | None => None end.
Proof.
  induction fuel as [|f IH]; intros n acc; cbn [digs]; [reflexivity|].
  destruct (n <? 10); [reflexivity|].
  rewrite (IH (n / 10) ((48 + n mod 10) :: acc)), (IH (n / 10) [48 + n mod 10]).
  destruct (digs f (n / 10) []); [|reflexivity]. rewrite <- app_assoc. reflexivity.
Qed.

Lemma digs_ok fuel : forall n, 0 <= n < 2 ^ Z.of_nat fuel -> fuel <> O ->
  exists r, digs fuel n [] = Some r /\ dval 0 r = n /\ all_dig r = true /\ r <> [].
Proof.
  induction fuel as [|f IH]; intros n Hn Hf.
  - contradiction.
  - cbn [digs]. destruct (n <? 10) eqn:E.
    + exists [48 + n]. repeat split.
      * cbn [dval]. lia.
      * unfold all_dig, is_dig. cbn [forallb]. lia.
      * discriminate.
    + assert (0 <= n / 10 < 2 ^ Z.of_nat f) as H'.
      { rewrite Nat2Z.inj_succ, Z.pow_succ_r in Hn by lia. split; [apply Z.div_pos; lia|].
        apply Z.div_lt_upper_bound; lia. }
      assert (f <> O) as Hf'.
      { intros ->. simpl in H'. assert (1 <= n / 10) by (apply Z.div_le_lower_bound; lia). lia. }
      destruct (IH (n / 10) H' Hf') as [r [D [V [A N]]]].
      rewrite digs_app, D. exists (r ++ [48 + n mod 10]). repeat split.
      * rewrite dval_app, V. cbn [dval]. pose proof (Z.div_mod n 10). lia.
      * rewrite all_dig_app, A. unfold all_dig, is_dig. cbn [forallb]. pose proof (Z.mod_pos_bound n 10). lia.
      * destruct r; discriminate.
Qed.

Lemma digits_of_ok n : 0 <= n ->
  exists r, digits_of n = Some r /\ dval 0 r = n /\ all_dig r = true /\ r <> [].
Proof.
  intros Hn. unfold digits_of. apply digs_ok; [|lia]. split; [exact Hn|].
  destruct (Z.eq_dec n 0) as [->|Nz]; [simpl; lia|].
  pose proof (Z.log2_spec n ltac:(lia)) as [_ U]. pose proof (Z.log2_nonneg n) as L.
  rewrite Nat2Z.inj_add, Z2Nat.id by lia. change (Z.of_nat 1) with 1.
  replace (Z.log2 n + 1) with (Z.succ (Z.log2 n)) by lia. exact U.
Qed.

(* ------------------------------------------------------------------ 2. reading back a canonical numeric string *)
Definition no_dig_head (r : str) : Prop := match r with [] => True | c :: _ => is_dig c = false end.

Lemma span_dig_app ds : forall r, all_dig ds = true -> no_dig_head r -> span_dig (ds ++ r) = (ds, r).
Proof.
  induction ds as [|c ds IH]; intros r A H.
  - simpl. destruct r as [|c r]; [reflexivity|]. simpl in H. simpl. rewrite H. reflexivity.
  - simpl in A. apply andb_prop in A. destruct A as [A1 A2]. simpl. rewrite A1. rewrite (IH r A2 H). reflexivity.
Qed.

Lemma span_dig_all ds : all_dig ds = true -> span_dig ds = (ds, []).
Proof. intros A. rewrite <- (app_nil_r ds) at 1. apply span_dig_app; [exact A|exact I]. Qed.

(* exponent suffixes as str(Decimal) writes them *)
Definition exp_suffix (ex : str) (e : Z) : Prop :=
  (ex = [] /\ e = 0) \/
  (exists ds, all_dig ds = true /\ ds <> [] /\
     ((ex = 69 :: 45 :: ds /\ e = - dval 0 ds) \/ (ex = 69 :: 43 :: ds /\ e = dval 0 ds))).

Lemma exp_suffix_parse ex e : exp_suffix ex e -> parse_exp ex = Some e /\ no_dig_head ex /\ (forall c t, ex = c :: t -> c <> 46).
Proof.
  intros [[-> ->]|[ds [A [N [[-> ->]|[-> ->]]]]]].
  - split; [reflexivity|split; [exact I|discriminate]].
  - split; [|split; [reflexivity|intros c t H; inversion H; lia]].
    cbn [parse_exp take_sign]. change (69 =? 101) with false. change (69 =? 69) with true. cbn [orb].
    change (45 =? 45) with true. cbv iota. rewrite (span_dig_all ds A). destruct ds; [contradiction|reflexivity].
  - split; [|split; [reflexivity|intros c t H; inversion H; lia]].
    cbn [parse_exp take_sign]. change (69 =? 101) with false. change (69 =? 69) with true. cbn [orb].
    change (43 =? 45) with false. change (43 =? 43) with true. cbv iota. rewrite (span_dig_all ds A). destruct ds; [contradiction|reflexivity].
Qed.

Lemma fmt_signed_suffix z : exists ex, fmt_signed z = Some ex /\ exp_suffix (69 :: ex) z.
Proof.
  unfold fmt_signed. destruct (digits_of_ok (Z.abs z) ltac:(lia)) as [r [D [V [A N]]]]. rewrite D.
  eexists. split; [reflexivity|]. right. exists r. repeat split; [exact A|exact N|].
  destruct (z <? 0) eqn:E; [left|right]; split; try reflexivity; lia.
Qed.

Lemma is_dig_head ip : all_dig ip = true -> ip <> [] -> exists c t, ip = c :: t /\ is_dig c = true.
Proof.
  destruct ip as [|c t]; intros A N; [contradiction|]. simpl in A. apply andb_prop in A. exists c, t. tauto.
Qed.

Lemma take_sign_neg (neg : bool) ip r : all_dig ip = true -> ip <> [] ->
  take_sign ((if neg then [45] else []) ++ ip ++ r) = (neg, ip ++ r).
Proof.
  intros A N. destruct (is_dig_head ip A N) as [c [t [-> Hc]]]. destruct neg.
  - reflexivity.
  - simpl. unfold is_dig in Hc. destruct (c =? 45) eqn:E1; [lia|]. destruct (c =? 43) eqn:E2; [lia|]. reflexivity.
Qed.

(* the general shape:  [-] ip [. fp] [E+-ds] *)
Lemma parse_shape (neg : bool) ip (dot : bool) fp ex e :
  all_dig ip = true -> ip <> [] -> all_dig fp = true -> (dot = false -> fp = []) -> exp_suffix ex e ->
  parse_ascii ((if neg then [45] else []) ++ ip ++ (if dot then 46 :: fp else []) ++ ex)
  = Some (mkDec neg (Z.to_N (dval 0 (ip ++ fp))) (e - zl fp)).
Proof.
  intros Ai Ni Af Hd Hex. destruct (exp_suffix_parse ex e Hex) as [Pe [Nh N46]].
  unfold parse_ascii. rewrite take_sign_neg by assumption.
  assert (span_dig (ip ++ (if dot then 46 :: fp else []) ++ ex) = (ip, (if dot then 46 :: fp else []) ++ ex)) as S1.
  { apply span_dig_app; [exact Ai|]. destruct dot; [reflexivity|exact Nh]. }
  rewrite S1. destruct dot.
  - cbn [app]. change (46 =? 46) with true. cbv iota. rewrite (span_dig_app fp ex Af Nh).
    destruct ip as [|c ip']; [contradiction|]. cbn [app]. rewrite Pe. reflexivity.
  - rewrite (Hd eq_refl). cbn [app]. rewrite app_nil_r.
    assert ((match ex with c :: t => if c =? 46 then span_dig t else ([], ex) | [] => ([], []) end) = ([], ex)) as S2.
    { destruct ex as [|c t]; [reflexivity|]. specialize (N46 c t eq_refl). destruct (c =? 46) eqn:E; [lia|reflexivity]. }
    rewrite S2. destruct ip as [|c ip']; [contradiction|]. cbn [app]. rewrite ?app_nil_r. rewrite Pe. unfold zl. simpl. reflexivity.
Qed.

(* canonical strings are plain ASCII without white space or underscores: the first two stages are the identity *)
Definition plain (c : Z) : bool := (32 <? c) && (c <=? 127) && negb (c =? 95).
Lemma lstrip_plain l : (match l with c :: _ => plain c = true | [] => True end) -> lstrip l = l.
Proof.
  destruct l as [|c t]; intros H; [reflexivity|]. simpl.
  assert (is_ws c = false) as ->; [|reflexivity].
  unfold plain in H. unfold is_ws. apply not_true_is_false. intros W. apply existsb_exists in W.
  destruct W as [x [Hin Hx]]. apply Z.eqb_eq in Hx. subst x.
  assert (forallb (fun w => (w <=? 32) || (127 <? w)) c13_ws = true) as T by (vm_compute; reflexivity).
  rewrite forallb_forall in T. specialize (T c Hin). lia.
Qed.

Lemma to_ascii_plain l : forallb plain l = true -> to_ascii l = Some l.
Proof.
  induction l as [|c t IH]; intros H; [reflexivity|]. simpl in H. apply andb_prop in H. destruct H as [Hc Ht].
  cbn [to_ascii]. unfold plain in Hc. destruct (c =? 95) eqn:E; [lia|].
  assert ((0 <? c) && (c <=? 127) = true) as -> by lia. rewrite (IH Ht). reflexivity.
Qed.

Lemma strip_plain l : forallb plain l = true -> strip l = l.
Proof.
  intros H. unfold strip. rewrite (lstrip_plain l).
  - rewrite (lstrip_plain (rev l)); [apply rev_involutive|].
    destruct (rev l) as [|c t] eqn:E; [exact I|].
    rewrite forallb_forall in H. apply H. apply in_rev. rewrite E. left. reflexivity.
  - destruct l as [|c t]; [exact I|]. simpl in H. apply andb_prop in H. tauto.
Qed.

Lemma dig_plain c : is_dig c = true -> plain c = true.
Proof. unfold is_dig, plain. lia. Qed.
Lemma all_dig_plain l : all_dig l = true -> forallb plain l = true.
Proof.
  unfold all_dig. rewrite !forallb_forall. intros H x Hx. apply dig_plain. apply H. exact Hx.
Qed.

Lemma exp_suffix_plain ex e : exp_suffix ex e -> forallb plain ex = true.
Proof.
  intros [[-> _]|[ds [A [_ [[-> _]|[-> _]]]]]]; [reflexivity| |]; simpl; apply all_dig_plain; exact A.
Qed.

Lemma parse_numeric_shape (neg : bool) ip (dot : bool) fp ex e :
  all_dig ip = true -> ip <> [] -> all_dig fp = true -> (dot = false -> fp = []) -> exp_suffix ex e ->
  parse_numeric ((if neg then [45] else []) ++ ip ++ (if dot then 46 :: fp else []) ++ ex)
  = Some (mkDec neg (Z.to_N (dval 0 (ip ++ fp))) (e - zl fp)).
Proof.
  intros Ai Ni Af Hd Hex. unfold parse_numeric.
  assert (forallb plain ((if neg then [45] else []) ++ ip ++ (if dot then 46 :: fp else []) ++ ex) = true) as P.
  { rewrite !forallb_app. rewrite (all_dig_plain ip Ai), (exp_suffix_plain ex e Hex).
    destruct neg, dot; simpl; rewrite ?(all_dig_plain fp Af); reflexivity. }
  rewrite (strip_plain _ P), (to_ascii_plain _ P). apply parse_shape; assumption.
Qed.

(* str(Decimal) never runs out of fuel, and Decimal(str(d)) = d : sign, coefficient and exponent *)
Theorem dec_roundtrip d : exists s, dec_to_string d = Some s /\ parse_numeric s = Some d.
Proof.
  destruct d as [sg co ex]. unfold dec_to_string. cbn [dcoef dexp dsign].
  destruct (digits_of_ok (Z.of_N co) ltac:(lia)) as [ds [D [V [A N]]]]. rewrite D.
  set (n := Z.of_nat (length ds)).
  assert (1 <= n) as Hn by (destruct ds; [contradiction|unfold n; simpl length; lia]).
  assert (forall x, Z.to_N (dval 0 x) = co -> dval 0 x = dval 0 ds -> True) as _ by auto.
  assert (Z.to_N (dval 0 ds) = co) as CO by (rewrite V; apply N2Z.id).
  set (dotplace := if (ex <=? 0) && (-6 <? ex + n) then ex + n else 1).
  destruct (dotplace <=? 0) eqn:E1.
  - (* 0.000ddd *)
    assert (dotplace = ex + n) as DP by (unfold dotplace in *; destruct ((ex <=? 0) && (-6 <? ex + n)); lia).
    rewrite DP. rewrite Z.eqb_refl. eexists. split; [reflexivity|].
    pose proof (parse_numeric_shape sg [48] true (repeat 48 (Z.to_nat (- (ex + n))) ++ ds) [] 0) as P.
    cbn [app] in P. rewrite app_nil_r in P. rewrite P; clear P.
    + f_equal. f_equal.
      * change (48 :: repeat 48 (Z.to_nat (- (ex + n))) ++ ds) with (repeat 48 (S (Z.to_nat (- (ex + n)))) ++ ds).
        rewrite dval_app, dval_zeros by reflexivity. exact CO.
      * unfold zl. rewrite app_length, repeat_length. fold n. lia.
    + reflexivity.
    + discriminate.
    + rewrite all_dig_app, all_dig_zeros, A. reflexivity.
    + discriminate.
    + left. split; reflexivity.
  - destruct (n <=? dotplace) eqn:E2.
    + (* ddd with no fraction: the padding is empty *)
      assert (dotplace - n = 0 /\ (ex + n =? dotplace) = (ex =? 0) /\ (ex =? 0 = false -> ex + n - dotplace = ex)) as [K [EQ EX]].
      { unfold dotplace in *. destruct ((ex <=? 0) && (-6 <? ex + n)) eqn:C; lia. }
      rewrite K. cbn [Z.to_nat repeat]. rewrite app_nil_r. rewrite EQ. destruct (ex =? 0) eqn:E0.
      * eexists. split; [reflexivity|].
        pose proof (parse_numeric_shape sg ds false [] [] 0) as P. cbn [app] in P. rewrite !app_nil_r in P.
        rewrite P; clear P; [|exact A|exact N|reflexivity|reflexivity|left; split; reflexivity].
        rewrite CO. do 2 f_equal. unfold zl. cbn [length]. lia.
      * rewrite (EX eq_refl). destruct (fmt_signed_suffix ex) as [x [F S]]. rewrite F.
        eexists. split; [reflexivity|].
        pose proof (parse_numeric_shape sg ds false [] (69 :: x) ex) as P. cbn [app] in P. rewrite !app_nil_r in P.
        rewrite P; clear P; [|exact A|exact N|reflexivity|reflexivity|exact S].
        rewrite CO. do 2 f_equal. unfold zl. cbn [length]. lia.
    + (* dd.ddd *)
      set (k := Z.to_nat dotplace).
      assert (0 < dotplace < n) as Hk by lia.
      assert (length (firstn k ds) = k) as L1 by (apply firstn_length_le; unfold k, n in *; lia).
      assert (length (skipn k ds) = (length ds - k)%nat) as L2 by apply skipn_length.
      assert (all_dig (firstn k ds) = true /\ all_dig (skipn k ds) = true) as [A1 A2].
      { rewrite <- (firstn_skipn k ds) in A. rewrite all_dig_app in A. apply andb_prop in A. exact A. }
      assert (firstn k ds <> []) as N1.
      { intros H. rewrite H in L1. simpl in L1. unfold k in L1. lia. }
      assert (exists x e', (if ex + n =? dotplace then Some [] else match fmt_signed (ex + n - dotplace) with Some q => Some (69 :: q) | None => None end) = Some x
                           /\ exp_suffix x e' /\ e' = ex + n - dotplace) as [x [e' [F [S Ee]]]].
      { destruct (ex + n =? dotplace) eqn:E3.
        - exists [], 0. repeat split; [left; split; reflexivity|lia].
        - destruct (fmt_signed_suffix (ex + n - dotplace)) as [q [F S]]. rewrite F. exists (69 :: q), (ex + n - dotplace).
          repeat split. exact S. }
      pose proof (parse_numeric_shape sg (firstn k ds) true (skipn k ds) x e' A1 N1 A2 ltac:(discriminate) S) as P.
      rewrite (firstn_skipn k ds) in P.
      assert (mkDec sg (Z.to_N (dval 0 ds)) (e' - zl (skipn k ds)) = mkDec sg co ex) as R.
      { rewrite CO. f_equal. unfold zl. rewrite L2. unfold k, n in *. lia. }
      rewrite R in P. clear R.
      destruct (ex + n =? dotplace) eqn:E3.
      * inversion F; subst x. eexists. split; [reflexivity|]. rewrite <- P. f_equal. rewrite ?app_nil_r, <- ?app_assoc. reflexivity.
      * destruct (fmt_signed (ex + n - dotplace)) as [q|]; [|discriminate]. inversion F; subst x.
        eexists. split; [reflexivity|]. rewrite <- P. f_equal. rewrite ?app_nil_r, <- ?app_assoc. reflexivity.
Qed.
