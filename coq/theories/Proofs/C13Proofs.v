(* Proofs/C13Proofs.v — lemmas behind Props/C13.v.
   1. decimal digit strings: digits_of is total, denotes its argument, consists of ASCII digits
   2. str(Decimal) is total and the numeric-string reader reads it back as exactly the same Decimal
      (sign, every digit of the coefficient, exponent), for every coefficient length and every exponent
   3. export_prefixed / export_param_value / export_params show what Spec/C13Spec.v expects *)
From Coq Require Import String Ascii.
Require Import Hdl21.Base.PyInt Hdl21.Base.Dec Hdl21.Model.Prefixed Hdl21.Model.C13Params Hdl21.Spec.C13Spec.
Require Import Hdl21Gen.PrefixTable Hdl21Gen.PrefixMaps Hdl21Gen.C13Tables.
Open Scope list_scope.
Open Scope Z_scope.
Notation length := List.length.

Definition all_dig (l : str) : bool := forallb is_dig l.
Definition zl (l : str) : Z := Z.of_nat (length l).

(* ------------------------------------------------------------------ 1. digit strings *)
Lemma dval_app x : forall a y, dval a (x ++ y) = dval (dval a x) y.
Proof. induction x as [|c x IH]; intros a y; simpl; [reflexivity|apply IH]. Qed.

Lemma dval_zeros k : forall a, a = 0 -> dval a (repeat 48 k) = 0.
Proof. induction k as [|k IH]; intros a ->; simpl; [reflexivity|]. apply IH. reflexivity. Qed.

Lemma all_dig_app a b : all_dig (a ++ b) = all_dig a && all_dig b.
Proof. apply forallb_app. Qed.

Lemma all_dig_zeros k : all_dig (repeat 48 k) = true.
Proof. induction k; simpl; [reflexivity|exact IHk]. Qed.

Lemma digs_app fuel : forall n acc,
  digs fuel n acc = match digs fuel n [] with Some r => Some (r ++ acc) | None => None end.
Proof.
  induction fuel as [|f IH]; intros n acc; cbn [digs]; [reflexivity|].
  destruct (n <? 10); [reflexivity|].
  rewrite (IH (n / 10) ((48 + n mod 10) :: acc)), (IH (n / 10) [48 + n mod 10]).
  destruct (digs f (n / 10) []); [|reflexivity]. rewrite <- app_assoc. reflexivity.
Qed.

Lemma digs_ok fuel : forall n, 0 <= n < 2 ^ Z.of_nat fuel -> fuel <> O ->
  exists r, digs fuel n [] = Some r /\ dval 0 r = n /\ all_dig r = true /\ r <> [].
Proof.
  induction fuel as [|f IH]; intros n Hn Hf.
  - contradiction.
  - cbn [digs]. destruct (n <? 10) eqn:E.
    + exists [48 + n]. repeat split.
      * cbn [dval]. lia.
      * unfold all_dig, is_dig. cbn [forallb]. lia.
      * discriminate.
    + assert (0 <= n / 10 < 2 ^ Z.of_nat f) as H'.
      { rewrite Nat2Z.inj_succ, Z.pow_succ_r in Hn by lia. split; [apply Z.div_pos; lia|].
        apply Z.div_lt_upper_bound; lia. }
      assert (f <> O) as Hf'.
      { intros ->. simpl in H'. assert (1 <= n / 10) by (apply Z.div_le_lower_bound; lia). lia. }
      destruct (IH (n / 10) H' Hf') as [r [D [V [A N]]]].
      rewrite digs_app, D. exists (r ++ [48 + n mod 10]). repeat split.
      * rewrite dval_app, V. cbn [dval]. pose proof (Z.div_mod n 10). lia.
      * rewrite all_dig_app, A. unfold all_dig, is_dig. cbn [forallb]. pose proof (Z.mod_pos_bound n 10). lia.
      * destruct r; discriminate.
Qed.

Lemma digits_of_ok n : 0 <= n ->
  exists r, digits_of n = Some r /\ dval 0 r = n /\ all_dig r = true /\ r <> [].
Proof.
  intros Hn. unfold digits_of. apply digs_ok; [|lia]. split; [exact Hn|].
  destruct (Z.eq_dec n 0) as [->|Nz]; [simpl; lia|].
  pose proof (Z.log2_spec n ltac:(lia)) as [_ U]. pose proof (Z.log2_nonneg n) as L.
  rewrite Nat2Z.inj_add, Z2Nat.id by lia. change (Z.of_nat 1) with 1.
  replace (Z.log2 n + 1) with (Z.succ (Z.log2 n)) by lia. exact U.
Qed.

(* ------------------------------------------------------------------ 2. reading back a canonical numeric string *)
Definition no_dig_head (r : str) : Prop := match r with [] => True | c :: _ => is_dig c = false end.

Lemma span_dig_app ds : forall r, all_dig ds = true -> no_dig_head r -> span_dig (ds ++ r) = (ds, r).
Proof.
  induction ds as [|c ds IH]; intros r A H.
  - simpl. destruct r as [|c r]; [reflexivity|]. simpl in H. simpl. rewrite H. reflexivity.
  - simpl in A. apply andb_prop in A. destruct A as [A1 A2]. simpl. rewrite A1. rewrite (IH r A2 H). reflexivity.
Qed.

Lemma span_dig_all ds : all_dig ds = true -> span_dig ds = (ds, []).
Proof. intros A. rewrite <- (app_nil_r ds) at 1. apply span_dig_app; [exact A|exact I]. Qed.

(* exponent suffixes as str(Decimal) writes them *)
Definition exp_suffix (ex : str) (e : Z) : Prop :=
  (ex = [] /\ e = 0) \/
  (exists ds, all_dig ds = true /\ ds <> [] /\
     ((ex = 69 :: 45 :: ds /\ e = - dval 0 ds) \/ (ex = 69 :: 43 :: ds /\ e = dval 0 ds))).

Lemma exp_suffix_parse ex e : exp_suffix ex e -> parse_exp ex = Some e /\ no_dig_head ex /\ (forall c t, ex = c :: t -> c <> 46).
Proof.
  intros [[-> ->]|[ds [A [N [[-> ->]|[-> ->]]]]]].
  - split; [reflexivity|split; [exact I|discriminate]].
  - split; [|split; [reflexivity|intros c t H; inversion H; lia]].
    cbn [parse_exp take_sign]. change (69 =? 101) with false. change (69 =? 69) with true. cbn [orb].
    change (45 =? 45) with true. cbv iota. rewrite (span_dig_all ds A). destruct ds; [contradiction|reflexivity].
  - split; [|split; [reflexivity|intros c t H; inversion H; lia]].
    cbn [parse_exp take_sign]. change (69 =? 101) with false. change (69 =? 69) with true. cbn [orb].
    change (43 =? 45) with false. change (43 =? 43) with true. cbv iota. rewrite (span_dig_all ds A). destruct ds; [contradiction|reflexivity].
Qed.

Lemma fmt_signed_suffix z : exists ex, fmt_signed z = Some ex /\ exp_suffix (69 :: ex) z.
Proof.
  unfold fmt_signed. destruct (digits_of_ok (Z.abs z) ltac:(lia)) as [r [D [V [A N]]]]. rewrite D.
  eexists. split; [reflexivity|]. right. exists r. repeat split; [exact A|exact N|].
  destruct (z <? 0) eqn:E; [left|right]; split; try reflexivity; lia.
Qed.

Lemma is_dig_head ip : all_dig ip = true -> ip <> [] -> exists c t, ip = c :: t /\ is_dig c = true.
Proof.
  destruct ip as [|c t]; intros A N; [contradiction|]. simpl in A. apply andb_prop in A. exists c, t. tauto.
Qed.

Lemma take_sign_neg (neg : bool) ip r : all_dig ip = true -> ip <> [] ->
  take_sign ((if neg then [45] else []) ++ ip ++ r) = (neg, ip ++ r).
Proof.
  intros A N. destruct (is_dig_head ip A N) as [c [t [-> Hc]]]. destruct neg.
  - reflexivity.
  - simpl. unfold is_dig in Hc. destruct (c =? 45) eqn:E1; [lia|]. destruct (c =? 43) eqn:E2; [lia|]. reflexivity.
Qed.

(* the general shape:  [-] ip [. fp] [E+-ds] *)
Lemma parse_shape (neg : bool) ip (dot : bool) fp ex e :
  all_dig ip = true -> ip <> [] -> all_dig fp = true -> (dot = false -> fp = []) -> exp_suffix ex e ->
  parse_ascii ((if neg then [45] else []) ++ ip ++ (if dot then 46 :: fp else []) ++ ex)
  = Some (mkDec neg (Z.to_N (dval 0 (ip ++ fp))) (e - zl fp)).
Proof.
  intros Ai Ni Af Hd Hex. destruct (exp_suffix_parse ex e Hex) as [Pe [Nh N46]].
  unfold parse_ascii. rewrite take_sign_neg by assumption.
  assert (span_dig (ip ++ (if dot then 46 :: fp else []) ++ ex) = (ip, (if dot then 46 :: fp else []) ++ ex)) as S1.
  { apply span_dig_app; [exact Ai|]. destruct dot; [reflexivity|exact Nh]. }
  rewrite S1. destruct dot.
  - cbn [app]. change (46 =? 46) with true. cbv iota. rewrite (span_dig_app fp ex Af Nh).
    destruct ip as [|c ip']; [contradiction|]. cbn [app]. rewrite Pe. reflexivity.
  - rewrite (Hd eq_refl). cbn [app]. rewrite app_nil_r.
    assert ((match ex with c :: t => if c =? 46 then span_dig t else ([], ex) | [] => ([], []) end) = ([], ex)) as S2.
    { destruct ex as [|c t]; [reflexivity|]. specialize (N46 c t eq_refl). destruct (c =? 46) eqn:E; [lia|reflexivity]. }
    rewrite S2. destruct ip as [|c ip']; [contradiction|]. cbn [app]. rewrite ?app_nil_r. rewrite Pe. unfold zl. simpl. reflexivity.
Qed.

(* canonical strings are plain ASCII without white space or underscores: the first two stages are the identity *)
Definition plain (c : Z) : bool := (32 <? c) && (c <=? 127) && negb (c =? 95).
Lemma lstrip_plain l : (match l with c :: _ => plain c = true | [] => True end) -> lstrip l = l.
Proof.
  destruct l as [|c t]; intros H; [reflexivity|]. simpl.
  assert (is_ws c = false) as ->; [|reflexivity].
  unfold plain in H. unfold is_ws. apply not_true_is_false. intros W. apply existsb_exists in W.
  destruct W as [x [Hin Hx]]. apply Z.eqb_eq in Hx. subst x.
  assert (forallb (fun w => (w <=? 32) || (127 <? w)) c13_ws = true) as T by (vm_compute; reflexivity).
  rewrite forallb_forall in T. specialize (T c Hin). lia.
Qed.

Lemma to_ascii_plain l : forallb plain l = true -> to_ascii l = Some l.
Proof.
  induction l as [|c t IH]; intros H; [reflexivity|]. simpl in H. apply andb_prop in H. destruct H as [Hc Ht].
  cbn [to_ascii]. unfold plain in Hc. destruct (c =? 95) eqn:E; [lia|].
  assert ((0 <? c) && (c <=? 127) = true) as -> by lia. rewrite (IH Ht). reflexivity.
Qed.

Lemma strip_plain l : forallb plain l = true -> strip l = l.
Proof.
  intros H. unfold strip. rewrite (lstrip_plain l).
  - rewrite (lstrip_plain (rev l)); [apply rev_involutive|].
    destruct (rev l) as [|c t] eqn:E; [exact I|].
    rewrite forallb_forall in H. apply H. apply in_rev. rewrite E. left. reflexivity.
  - destruct l as [|c t]; [exact I|]. simpl in H. apply andb_prop in H. tauto.
Qed.

Lemma dig_plain c : is_dig c = true -> plain c = true.
Proof. unfold is_dig, plain. lia. Qed.
Lemma all_dig_plain l : all_dig l = true -> forallb plain l = true.
Proof.
  unfold all_dig. rewrite !forallb_forall. intros H x Hx. apply dig_plain. apply H. exact Hx.
Qed.

Lemma exp_suffix_plain ex e : exp_suffix ex e -> forallb plain ex = true.
Proof.
  intros [[-> _]|[ds [A [_ [[-> _]|[-> _]]]]]]; [reflexivity| |]; simpl; apply all_dig_plain; exact A.
Qed.

Lemma parse_numeric_shape (neg : bool) ip (dot : bool) fp ex e :
  all_dig ip = true -> ip <> [] -> all_dig fp = true -> (dot = false -> fp = []) -> exp_suffix ex e ->
  parse_numeric ((if neg then [45] else []) ++ ip ++ (if dot then 46 :: fp else []) ++ ex)
  = Some (mkDec neg (Z.to_N (dval 0 (ip ++ fp))) (e - zl fp)).
Proof.
  intros Ai Ni Af Hd Hex. unfold parse_numeric.
  assert (forallb plain ((if neg then [45] else []) ++ ip ++ (if dot then 46 :: fp else []) ++ ex) = true) as P.
  { rewrite !forallb_app. rewrite (all_dig_plain ip Ai), (exp_suffix_plain ex e Hex).
    destruct neg, dot; simpl; rewrite ?(all_dig_plain fp Af); reflexivity. }
  rewrite (strip_plain _ P), (to_ascii_plain _ P). apply parse_shape; assumption.
Qed.

(* str(Decimal) never runs out of fuel, and Decimal(str(d)) = d : sign, coefficient and exponent *)
Theorem dec_roundtrip d : exists s, dec_to_string d = Some s /\ parse_numeric s = Some d.
Proof.
  destruct d as [sg co ex]. unfold dec_to_string. cbn [dcoef dexp dsign].
  destruct (digits_of_ok (Z.of_N co) ltac:(lia)) as [ds [D [V [A N]]]]. rewrite D.
  set (n := Z.of_nat (length ds)).
  assert (1 <= n) as Hn by (destruct ds; [contradiction|unfold n; simpl length; lia]).
  assert (forall x, Z.to_N (dval 0 x) = co -> dval 0 x = dval 0 ds -> True) as _ by auto.
  assert (Z.to_N (dval 0 ds) = co) as CO by (rewrite V; apply N2Z.id).
  set (dotplace := if (ex <=? 0) && (-6 <? ex + n) then ex + n else 1).
  destruct (dotplace <=? 0) eqn:E1.
  - (* 0.000ddd *)
    assert (dotplace = ex + n) as DP by (unfold dotplace in *; destruct ((ex <=? 0) && (-6 <? ex + n)); lia).
    rewrite DP. rewrite Z.eqb_refl. eexists. split; [reflexivity|].
    pose proof (parse_numeric_shape sg [48] true (repeat 48 (Z.to_nat (- (ex + n))) ++ ds) [] 0) as P.
    cbn [app] in P. rewrite app_nil_r in P. rewrite P; clear P.
    + f_equal. f_equal.
      * change (48 :: repeat 48 (Z.to_nat (- (ex + n))) ++ ds) with (repeat 48 (S (Z.to_nat (- (ex + n)))) ++ ds).
        rewrite dval_app, dval_zeros by reflexivity. exact CO.
      * unfold zl. rewrite app_length, repeat_length. fold n. lia.
    + reflexivity.
    + discriminate.
    + rewrite all_dig_app, all_dig_zeros, A. reflexivity.
    + discriminate.
    + left. split; reflexivity.
  - destruct (n <=? dotplace) eqn:E2.
    + (* ddd with no fraction: the padding is empty *)
      assert (dotplace - n = 0 /\ (ex + n =? dotplace) = (ex =? 0) /\ (ex =? 0 = false -> ex + n - dotplace = ex)) as [K [EQ EX]].
      { unfold dotplace in *. destruct ((ex <=? 0) && (-6 <? ex + n)) eqn:C; lia. }
      rewrite K. cbn [Z.to_nat repeat]. rewrite app_nil_r. rewrite EQ. destruct (ex =? 0) eqn:E0.
      * eexists. split; [reflexivity|].
        pose proof (parse_numeric_shape sg ds false [] [] 0) as P. cbn [app] in P. rewrite !app_nil_r in P.
        rewrite P; clear P; [|exact A|exact N|reflexivity|reflexivity|left; split; reflexivity].
        rewrite CO. do 2 f_equal. unfold zl. cbn [length]. lia.
      * rewrite (EX eq_refl). destruct (fmt_signed_suffix ex) as [x [F S]]. rewrite F.
        eexists. split; [reflexivity|].
        pose proof (parse_numeric_shape sg ds false [] (69 :: x) ex) as P. cbn [app] in P. rewrite !app_nil_r in P.
        rewrite P; clear P; [|exact A|exact N|reflexivity|reflexivity|exact S].
        rewrite CO. do 2 f_equal. unfold zl. cbn [length]. lia.
    + (* dd.ddd *)
      set (k := Z.to_nat dotplace).
      assert (0 < dotplace < n) as Hk by lia.
      assert (length (firstn k ds) = k) as L1 by (apply firstn_length_le; unfold k, n in *; lia).
      assert (length (skipn k ds) = (length ds - k)%nat) as L2 by apply skipn_length.
      assert (all_dig (firstn k ds) = true /\ all_dig (skipn k ds) = true) as [A1 A2].
      { rewrite <- (firstn_skipn k ds) in A. rewrite all_dig_app in A. apply andb_prop in A. exact A. }
      assert (firstn k ds <> []) as N1.
      { intros H. rewrite H in L1. simpl in L1. unfold k in L1. lia. }
      assert (exists x e', (if ex + n =? dotplace then Some [] else match fmt_signed (ex + n - dotplace) with Some q => Some (69 :: q) | None => None end) = Some x
                           /\ exp_suffix x e' /\ e' = ex + n - dotplace) as [x [e' [F [S Ee]]]].
      { destruct (ex + n =? dotplace) eqn:E3.
        - exists [], 0. repeat split; [left; split; reflexivity|lia].
        - destruct (fmt_signed_suffix (ex + n - dotplace)) as [q [F S]]. rewrite F. exists (69 :: q), (ex + n - dotplace).
          repeat split. exact S. }
      pose proof (parse_numeric_shape sg (firstn k ds) true (skipn k ds) x e' A1 N1 A2 ltac:(discriminate) S) as P.
      rewrite (firstn_skipn k ds) in P.
      assert (mkDec sg (Z.to_N (dval 0 ds)) (e' - zl (skipn k ds)) = mkDec sg co ex) as R.
      { rewrite CO. f_equal. unfold zl. rewrite L2. unfold k, n in *. lia. }
      rewrite R in P. clear R.
      destruct (ex + n =? dotplace) eqn:E3.
      * inversion F; subst x. eexists. split; [reflexivity|]. rewrite <- P. f_equal. rewrite ?app_nil_r, <- ?app_assoc. reflexivity.
      * destruct (fmt_signed (ex + n - dotplace)) as [q|]; [|discriminate]. inversion F; subst x.
        eexists. split; [reflexivity|]. rewrite <- P. f_equal. rewrite ?app_nil_r, <- ?app_assoc. reflexivity.
Qed.

(* ------------------------------------------------------------------ 3. the exporter shows what the specification expects *)
Lemma deqb_refl d : deqb d d = true.
Proof. unfold deqb. apply Z.eqb_refl. Qed.
Lemma deqb_sym a b : deqb a b = deqb b a.
Proof. unfold deqb, dmin. rewrite (Z.min_comm (dexp b) (dexp a)). apply Z.eqb_sym. Qed.
Lemma deqb_scale0 a b : deqb (dscaleb a 0) b = deqb a b.
Proof. destruct a as [sa ca ea]. unfold deqb, dmin, at_, dscaleb, dint. unfold dexp at 1 2 3, dsign, dcoef. rewrite Z.add_0_r. reflexivity. Qed.
Lemma dec_identical_refl d : dec_identical d d = true.
Proof. unfold dec_identical. rewrite Bool.eqb_reflx, N.eqb_refl, Z.eqb_refl. reflexivity. Qed.
Lemma dec_identical_eq a b : dec_identical a b = true -> a = b.
Proof.
  destruct a as [s1 c1 e1], b as [s2 c2 e2]. unfold dec_identical. cbn [dsign dcoef dexp]. intros H.
  apply andb_prop in H. destruct H as [H H3]. apply andb_prop in H. destruct H as [H1 H2].
  apply Bool.eqb_prop in H1. apply N.eqb_eq in H2. apply Z.eqb_eq in H3. subst. reflexivity.
Qed.

(* every member of the (generated) Prefix enumeration is exported to the SIPrefix of the same power of ten *)
Definition prefix_ok (e : string * Z) : bool :=
  match export_prefix (snd e) with
  | Ok n => match si_exponent n with Some q => q =? snd e | None => false end
  | Error _ => false
  end.
Lemma prefix_table_ok : forallb prefix_ok prefix_table = true.
Proof. vm_compute. reflexivity. Qed.

Lemma export_prefix_exact q : is_prefix q = true -> exists n, export_prefix q = Ok n /\ si_exponent n = Some q.
Proof.
  unfold is_prefix, prefix_values. intros H. apply existsb_exists in H. destruct H as [x [Hin Hx]].
  apply Z.eqb_eq in Hx. subst x. apply in_map_iff in Hin. destruct Hin as [[nm v] [Hv Hin]]. cbn [snd] in Hv. subst v.
  pose proof prefix_table_ok as T. rewrite forallb_forall in T. specialize (T _ Hin). unfold prefix_ok in T. cbn [snd] in T.
  destruct (export_prefix q) as [n|]; [|discriminate]. exists n. split; [reflexivity|].
  destruct (si_exponent n) as [q'|]; [|discriminate]. apply Z.eqb_eq in T. subst. reflexivity.
Qed.

Lemma unit_prefix_0 : unit_prefix = Ok 0.
Proof. vm_compute. reflexivity. Qed.
Lemma is_prefix_0 : is_prefix 0 = true.
Proof. vm_compute. reflexivity. Qed.

Lemma str_of_dec_total d : exists s, str_of_dec d = Ok s /\ numeric s = Some d.
Proof. destruct (dec_roundtrip d) as [s [D R]]. exists s. unfold str_of_dec. rewrite D. split; [reflexivity|exact R]. Qed.

(* export_prefixed: total on members of Prefix, same prefix, number of the same value; the string branch keeps the Decimal *)
Lemma export_prefixed_shows p : pwf p = true ->
  exists pv, export_prefixed p = Ok pv /\ shows (XPrefixed (number p) (prefix p)) pv = true.
Proof.
  intros W. unfold export_prefixed. destruct (export_prefix_exact (prefix p) W) as [n [E S]]. rewrite E. cbn [bind].
  destruct (is_integral (number p) && int64_ok (dtrunc (number p))) eqn:C.
  - eexists. split; [reflexivity|]. cbn [shows num_dec]. rewrite S. apply andb_prop in C. destruct C as [C _].
    unfold is_integral in C. rewrite deqb_sym, C, Z.eqb_refl. reflexivity.
  - destruct (str_of_dec_total (number p)) as [s [D R]]. rewrite D. cbn [bind]. eexists. split; [reflexivity|].
    cbn [shows num_dec]. rewrite R, S, deqb_refl, Z.eqb_refl. reflexivity.
Qed.

Lemma export_prefixed_big p : pwf p = true -> is_integral (number p) = true -> int64_ok (dtrunc (number p)) = false ->
  exists s pre, export_prefixed p = Ok (PVPrefixed (NString s) pre) /\ numeric s = Some (number p) /\ si_exponent pre = Some (prefix p).
Proof.
  intros W I B. unfold export_prefixed. destruct (export_prefix_exact (prefix p) W) as [n [E S]]. rewrite E. cbn [bind].
  rewrite I, B. cbn [andb]. destruct (str_of_dec_total (number p)) as [s [D R]]. rewrite D. cbn [bind].
  exists s, n. repeat split; assumption.
Qed.

Definition value_wf (v : value) : bool := match v with VPrefixed p => pwf p | _ => true end.
Definition is_none (v : value) : bool := match v with VNone => true | _ => false end.

Lemma shows_value_of_prefixed0 d pv : shows (XPrefixed d 0) pv = true -> shows (XValue d) pv = true.
Proof.
  destruct pv as [| | | |n pre]; cbn [shows]; try discriminate.
  destruct (num_dec n) as [d'|]; [|discriminate]. destruct (si_exponent pre) as [q'|]; [|discriminate].
  intros H. apply andb_prop in H. destruct H as [H1 H2]. apply Z.eqb_eq in H2. subst q'. rewrite deqb_scale0. exact H1.
Qed.

Definition expected_raw (v : value) : expect :=
  match v with
  | VNone => XOmit | VStr s => XLiteral s | VEnum (Some s) => XLiteral s | VEnum None => XFree | VLit s => XLiteral s
  | VPrefixed p => XPrefixed (number p) (prefix p) | VDecimal d => XDecText d | VInt z => XInt z | VFloat b _ => XDouble b
  | VOther => XFree
  end.
Lemma expected_4 v : expected 4 v = expected_raw v.
Proof. reflexivity. Qed.
Definition expected_sc (opt : bool) (v : value) : expect :=
  match v with
  | VNone => if opt then XOmit else XFree
  | VStr s => match numeric s with Some d => XValue d | None => XLiteral s end
  | VInt z => XValue (of_int z 0)
  | VDecimal d => XValue d
  | VFloat b r => if float_finite b then match numeric r with Some d => XValue d | None => XFree end else XFree
  | VPrefixed p => XPrefixed (number p) (prefix p)
  | VLit s => XLiteral s
  | VEnum _ | VOther => XFree
  end.
Lemma expected_0 v : expected 0 v = expected_sc false v.
Proof. reflexivity. Qed.
Lemma expected_1 v : expected 1 v = expected_sc true v.
Proof. reflexivity. Qed.

(* export_param_value on a value stored as it is (kinds 2, 3, 4; dict entries) *)
Lemma export_value_shows v : value_wf v = true -> is_free (expected 4 v) = false -> unrepresentable (expected 4 v) = false ->
  exists o, export_param_value v = Ok o /\
            match o with None => expected 4 v = XOmit | Some pv => shows (expected 4 v) pv = true end.
Proof.
  rewrite expected_4. intros W F U. destruct v as [|s|[s|]|s|p|d|z|b r|]; cbn [expected_raw] in *; try discriminate.
  - exists None. split; reflexivity.
  - eexists. split; [reflexivity|]. cbn [shows]. apply str_eqb_refl.
  - eexists. split; [reflexivity|]. cbn [shows]. apply str_eqb_refl.
  - eexists. split; [reflexivity|]. cbn [shows]. apply str_eqb_refl.
  - cbn [value_wf] in W. destruct (export_prefixed_shows p W) as [pv [E S]]. exists (Some pv).
    cbn [export_param_value]. rewrite E. split; [reflexivity|exact S].
  - destruct (str_of_dec_total d) as [s [D R]]. exists (Some (PVLiteral s)). cbn [export_param_value]. rewrite D.
    split; [reflexivity|]. cbn [shows]. rewrite R. apply dec_identical_refl.
  - cbn [unrepresentable] in U. apply negb_false_iff in U. exists (Some (PVInt64 z)). cbn [export_param_value]. rewrite U.
    split; [reflexivity|]. cbn [shows]. rewrite Z.eqb_refl, U. reflexivity.
  - eexists. split; [reflexivity|]. cbn [shows]. apply Z.eqb_refl.
Qed.

(* a value that the format cannot hold is refused, never altered *)
Lemma export_value_refuses v : unrepresentable (expected 4 v) = true -> exists e, export_param_value v = Error e.
Proof.
  rewrite expected_4. destruct v as [|s|[s|]|s|p|d|z|b r|]; cbn [expected_raw unrepresentable]; try discriminate.
  intros U. apply negb_true_iff in U. cbn [export_param_value]. rewrite U. eexists. reflexivity.
Qed.

Lemma export_none_iff v o : export_param_value v = Ok o -> (o = None <-> v = VNone).
Proof.
  destruct v as [|s|[s|]|s|p|d|z|b r|]; cbn [export_param_value]; intros H; try (inversion H; split; discriminate).
  - inversion H. split; reflexivity.
  - destruct (export_prefixed p); cbn [bind] in H; inversion H. split; discriminate.
  - destruct (str_of_dec d); cbn [bind] in H; inversion H. split; discriminate.
  - destruct (int64_ok z); inversion H. split; discriminate.
Qed.

(* to_scalar: what it returns *)
Lemma to_scalar_spec v : value_wf v = true -> is_free (expected 0 v) = false ->
  exists x, to_scalar v = Ok x /\ value_wf x = true /\
    match expected 0 v with
    | XValue d => x = VPrefixed (mkP d 0)
    | XPrefixed d q => x = v
    | XLiteral s => x = VLit s
    | _ => False
    end.
Proof.
  rewrite expected_0. intros W F. destruct v as [|s|e|s|p|d|z|b r|]; cbn [expected_sc is_free] in *; try discriminate.
  - unfold to_scalar, numeric, unit_pfx in *. destruct (parse_numeric s) as [d|].
    + rewrite unit_prefix_0. eexists. split; [reflexivity|]. split; [exact is_prefix_0|reflexivity].
    + eexists. split; [reflexivity|]. split; reflexivity.
  - eexists. split; [reflexivity|]. split; reflexivity.
  - exists (VPrefixed p). split; [reflexivity|]. split; [exact W|reflexivity].
  - unfold to_scalar, unit_pfx. rewrite unit_prefix_0. eexists. split; [reflexivity|]. split; [exact is_prefix_0|reflexivity].
  - unfold to_scalar, unit_pfx. rewrite unit_prefix_0. eexists. split; [reflexivity|]. split; [exact is_prefix_0|reflexivity].
  - unfold to_scalar, numeric, unit_pfx in *. destruct (float_finite b); [|discriminate].
    destruct (parse_numeric r) as [d|]; [|discriminate].
    rewrite unit_prefix_0. eexists. split; [reflexivity|]. split; [exact is_prefix_0|reflexivity].
Qed.

(* construction + export of one parameter of any kind: accepted, and shown as the specification expects *)
Lemma export_unit d : exists pv, export_param_value (VPrefixed (mkP d 0)) = Ok (Some pv) /\ shows (XValue d) pv = true.
Proof.
  destruct (export_prefixed_shows (mkP d 0) is_prefix_0) as [pv [E S]]. exists pv. cbn [export_param_value]. rewrite E.
  split; [reflexivity|]. apply shows_value_of_prefixed0. exact S.
Qed.

Definition store_sc (opt : bool) (v : value) : result value :=
  match v with VNone => if opt then Ok VNone else to_scalar v | _ => to_scalar v end.

Lemma scalar_preserved (opt : bool) v : value_wf v = true -> is_free (expected_sc opt v) = false ->
  exists x o, store_sc opt v = Ok x /\ export_param_value x = Ok o /\
              match o with None => expected_sc opt v = XOmit | Some pv => shows (expected_sc opt v) pv = true end.
Proof.
  intros W F. destruct v as [|s|e|s|p|d|z|b r|]; cbn [expected_sc store_sc is_free] in *; try discriminate.
  - destruct opt; [|discriminate]. exists VNone, None. repeat split.
  - unfold to_scalar, numeric, unit_pfx in *. destruct (parse_numeric s) as [d|].
    + rewrite unit_prefix_0. cbn [bind]. destruct (export_unit d) as [pv [E S]]. exists (VPrefixed (mkP d 0)), (Some pv). repeat split; assumption.
    + exists (VLit s), (Some (PVLiteral s)). repeat split. cbn [shows]. apply str_eqb_refl.
  - exists (VLit s), (Some (PVLiteral s)). repeat split. cbn [shows]. apply str_eqb_refl.
  - cbn [value_wf] in W. destruct (export_prefixed_shows p W) as [pv [E S]]. exists (VPrefixed p), (Some pv).
    cbn [to_scalar export_param_value]. rewrite E. repeat split. exact S.
  - unfold to_scalar, unit_pfx. rewrite unit_prefix_0. cbn [bind]. destruct (export_unit d) as [pv [E S]].
    exists (VPrefixed (mkP d 0)), (Some pv). repeat split; assumption.
  - unfold to_scalar, unit_pfx. rewrite unit_prefix_0. cbn [bind]. destruct (export_unit (of_int z 0)) as [pv [E S]].
    exists (VPrefixed (mkP (of_int z 0) 0)), (Some pv). repeat split; assumption.
  - unfold to_scalar, numeric, unit_pfx in *. destruct (float_finite b); [|discriminate].
    destruct (parse_numeric r) as [d|]; [|discriminate]. rewrite unit_prefix_0. cbn [bind].
    destruct (export_unit d) as [pv [E S]]. exists (VPrefixed (mkP d 0)), (Some pv). repeat split; assumption.
Qed.

Lemma store_0 v : store 0 v = store_sc false v.
Proof. destruct v; reflexivity. Qed.
Lemma store_1 v : store 1 v = store_sc true v.
Proof. destruct v; reflexivity. Qed.

Lemma param_preserved kind v : value_wf v = true -> is_free (expected kind v) = false -> unrepresentable (expected kind v) = false ->
  kind <> 2 -> kind <> 3 ->
  exists x o, store kind v = Ok x /\ export_param_value x = Ok o /\
              match o with None => expected kind v = XOmit | Some pv => shows (expected kind v) pv = true end.
Proof.
  intros W F U K2 K3. destruct (Z.eq_dec kind 0) as [->|K0]; [|destruct (Z.eq_dec kind 1) as [->|K1]].
  - rewrite store_0, expected_0 in *. apply scalar_preserved; assumption.
  - rewrite store_1, expected_1 in *. apply scalar_preserved; assumption.
  - assert (expected kind v = expected_raw v) as EK.
    { unfold expected, scalar_kind. apply Z.eqb_neq in K0. apply Z.eqb_neq in K1. rewrite K0, K1. reflexivity. }
    assert (store kind v = Ok v) as SK.
    { unfold store. apply Z.eqb_neq in K0. apply Z.eqb_neq in K1. apply Z.eqb_neq in K2. apply Z.eqb_neq in K3.
      rewrite K0, K1, K2, K3. reflexivity. }
    rewrite EK in *. rewrite <- expected_4 in *. destruct (export_value_shows v W F U) as [o [E R]]. exists v, o. repeat split; assumption.
Qed.

(* the parameter loop: None-valued entries are dropped, every other entry is exported under its own name, in order *)
Lemma export_params_spec ps : forall r, export_params ps = Ok r ->
  Forall2 (fun kv kp => fst kv = fst kp /\ export_param_value (snd kv) = Ok (Some (snd kp)))
          (filter (fun kv => negb (is_none (snd kv))) ps) r.
Proof.
  induction ps as [|[k v] ps IH]; intros r H; cbn [export_params] in H.
  - inversion H. constructor.
  - destruct (export_param_value v) as [o|] eqn:E; cbn [bind] in H; [|discriminate].
    destruct (export_params ps) as [rest|] eqn:ER; cbn [bind] in H; [|discriminate].
    pose proof (export_none_iff v o E) as NI. cbn [filter snd]. destruct o as [pv|].
    + inversion H; subst r. assert (is_none v = false) as ->.
      { destruct v; try reflexivity. exfalso. destruct NI as [_ NI]. specialize (NI eq_refl). discriminate. }
      cbn [negb]. constructor; [split; [reflexivity|exact E]|apply IH; reflexivity].
    + inversion H; subst r. destruct NI as [NI _]. rewrite (NI eq_refl). cbn [is_none negb]. apply IH. reflexivity.
Qed.

(* ------------------------------------------------------------------ tables: ideal primitives and the pulse-source renaming *)
Fixpoint nodup_str (l : list string) : bool :=
  match l with [] => true | x :: r => negb (existsb (String.eqb x) r) && nodup_str r end.

Definition exported_names (pclass : string) (fields : list string) : list string :=
  if String.eqb pclass c13_pulse_class then map fst c13_pulse_rename else fields.

(* one row of the primitive registry *)
Definition prim_row_ok (e : string * string * string * list (string * Z * (Z * Z * string))) : bool :=
  let '(name, ty, pc, fs) := e in
  let fields := map (fun f => fst (fst f)) fs in
  if String.eqb ty "IDEAL" then
    match sassoc name c13_prim_map, sassoc name ideal_doc with
    | Some v, Some v' =>
        String.eqb v v' &&
        match sassoc v c13_vlsir_prims with
        | Some doc =>
            let out := exported_names pc fields in
            (* every exported name is a documented parameter of the VLSIR element, no two fields collide *)
            forallb (fun n => existsb (String.eqb n) doc) out && nodup_str out &&
            (* no field is lost, and each field goes to the documented name *)
            (if String.eqb pc c13_pulse_class then
               forallb (fun f => match sassoc f pulse_doc with
                                 | Some n => existsb (fun na => String.eqb (fst na) n && String.eqb (snd na) f) c13_pulse_rename
                                 | None => false end) fields
               && (length c13_pulse_rename =? length fields)%nat
             else true)
        | None => false
        end
    | _, _ => false
    end
  else if String.eqb ty "PHYSICAL" then
    match sassoc name c13_prim_map, sassoc name ideal_doc with None, None => nodup_str fields | _, _ => false end
  else false.

Lemma prim_table_ok : forallb prim_row_ok c13_prims = true.
Proof. vm_compute. reflexivity. Qed.
