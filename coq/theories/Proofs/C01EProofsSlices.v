(* Proofs/C01EProofsSlices.v — SliceResolver (Model/C01EElab.v:slices_design) keeps the bits of every connection,
   mentions only signals the connection mentioned, never fails on a valid design, and therefore keeps wfs and same_net. *)
Require Import Hdl21.Base.PyInt Hdl21.Spec.PySlice Hdl21.Model.Slice Hdl21.Model.Resolve Hdl21.Base.Design
               Hdl21.Spec.Nets Hdl21.Spec.WfDesign Hdl21.Spec.C01ENets Hdl21.Model.Arrays Hdl21.Model.C01EElab
               Hdl21.Proofs.SliceProofs Hdl21.Proofs.ResolveProofs Hdl21.Proofs.ArraysProofs Hdl21.Proofs.ExportProofs
               Hdl21.Proofs.C01EProofsGraph Hdl21.Proofs.C01EProofsBase Hdl21.Proofs.C01EProofsSim Hdl21.Proofs.C01EProofsWfs
               Hdl21.Proofs.C01EProofsPass.

Definition flat_leaf (f : flat) : N * Z := match f with FSig id w => (id, w) | FSl id w _ _ => (id, w) end.

(* ---- bits of the resolved form ---- *)
Lemma xbits_flat_sx f : flat_wf f = true -> xbits (flat_sx f) = Ok (fbits f).
Proof.
  destruct f as [id w|id w b t]; cbn [flat_wf flat_sx xbits fbits]; intros H.
  - destruct (w <? 1) eqn:E; [lia|reflexivity].
  - assert (1 <= w) by lia. destruct (w <? 1) eqn:E; [lia|]. cbn [bind]. rewrite sig_bits_len by lia.
    rewrite sel_unit_range by lia. cbn [bind]. unfold sig_bits.
    apply select_iota_gen; lia.
Qed.

Lemma xbits_resolved r : Forall (fun f => flat_wf f = true) (resolved_flats r) ->
  xbits (resolved_sx r) = Ok (flats_bits (resolved_flats r)).
Proof.
  destruct r as [f|fs]; cbn [resolved_flats resolved_sx]; intros H.
  - inversion H; subst. rewrite xbits_flat_sx by assumption. unfold flats_bits. cbn [map concat]. rewrite app_nil_r. reflexivity.
  - cbn [xbits]. rewrite map_map. unfold flats_bits.
    induction H as [|f l Hf _ IH]; cbn [map cat_results concat]; [reflexivity|].
    rewrite (xbits_flat_sx f Hf). cbn [bind]. rewrite IH. reflexivity.
Qed.

(* ---- the signals a resolved connection mentions are among those of the written one ---- *)
Lemma sig_bit_flats_leaf id w : Forall (fun f => flat_leaf f = (id, w)) (sig_bit_flats id w).
Proof.
  unfold sig_bit_flats. destruct (w =? 1) eqn:E.
  - constructor; [|constructor]. cbn. f_equal. lia.
  - apply Forall_forall. intros f Hf. apply in_map_iff in Hf. destruct Hf as [k [<- _]]. reflexivity.
Qed.

Lemma cat_results_Forall {A B} (P : B -> Prop) (f : A -> result (list B)) (l : list A) r :
  cat_results (map f l) = Ok r -> (forall x y, In x l -> f x = Ok y -> Forall P y) -> Forall P r.
Proof.
  revert r. induction l as [|x xs IH]; cbn [map cat_results]; intros r H HP.
  - inversion H. constructor.
  - destruct (f x) as [a|] eqn:Ea; cbn [bind] in H; [|discriminate].
    destruct (cat_results (map f xs)) as [b|] eqn:Eb; cbn [bind] in H; [|discriminate]. inversion H; subst.
    apply Forall_app. split; [apply (HP x a); [left; reflexivity|exact Ea]|].
    apply IH; [reflexivity|]. intros y z Hy. apply HP. right. exact Hy.
Qed.

Lemma list_bits_leaves x : forall l, list_bits x = Ok l -> Forall (fun f => In (flat_leaf f) (sx_leaves x)) l.
Proof.
  induction x as [id w|p ix IH|ps IH] using sx_ind'; cbn [list_bits sx_leaves]; intros l H.
  - destruct (w <? 1); [discriminate|]. inversion H; subst. eapply Forall_impl; [|apply sig_bit_flats_leaf].
    intros f Hf. cbv beta in Hf. rewrite Hf. left. reflexivity.
  - binv H. eapply select_Forall; [|exact H]. apply IH. reflexivity.
  - eapply cat_results_Forall; [exact H|]. intros y ly Hy Hly. rewrite Forall_forall in IH. specialize (IH y Hy ly Hly).
    eapply Forall_impl; [|exact IH]. intros f Hf. cbv beta in *. apply in_concat. exists (sx_leaves y). split; [apply in_map; exact Hy|exact Hf].
Qed.

Lemma list_flat_leaves x : forall l, list_flat x = Ok l -> Forall (fun f => In (flat_leaf f) (sx_leaves x)) l.
Proof.
  induction x as [id w|p ix IH|ps IH] using sx_ind'; cbn [list_flat sx_leaves]; intros l H.
  - destruct (w <? 1); [discriminate|]. inversion H; subst. constructor; [left; reflexivity|constructor].
  - binv H. destruct ((Slice.step a0 =? 1) && (width a0 =? a)); [apply IH; exact H|].
    destruct (is_sig p) as [[id w]|] eqn:Es.
    + destruct p as [id' w'| |]; try discriminate. cbn [is_sig] in Es. inversion Es; subst.
      destruct (Slice.step a0 =? 1).
      * inversion H; subst. constructor; [left; reflexivity|constructor].
      * binv H. eapply select_Forall; [|exact H]. apply (list_bits_leaves (XSig id w)). exact E1.
    + binv H. eapply select_Forall; [|exact H]. apply list_bits_leaves. exact E1.
  - eapply cat_results_Forall; [exact H|]. intros y ly Hy Hly. rewrite Forall_forall in IH. specialize (IH y Hy ly Hly).
    eapply Forall_impl; [|exact IH]. intros f Hf. cbv beta in *. apply in_concat. exists (sx_leaves y). split; [apply in_map; exact Hy|exact Hf].
Qed.

Lemma sx_leaves_flat_sx f : sx_leaves (flat_sx f) = [flat_leaf f].
Proof. destruct f; reflexivity. Qed.

Lemma sx_leaves_resolved r : sx_leaves (resolved_sx r) = map flat_leaf (resolved_flats r).
Proof.
  destruct r as [f|fs]; cbn [resolved_sx resolved_flats sx_leaves map]; [apply sx_leaves_flat_sx|].
  rewrite map_map. induction fs as [|f fs IH]; cbn [map concat]; [reflexivity|]. rewrite sx_leaves_flat_sx, IH. reflexivity.
Qed.

(* ---- _resolve_sliceable succeeds on every connection with at least one bit and keeps its bits ---- *)
Lemma resolve_spec cx bits : xbits cx = Ok bits -> bits <> [] ->
  exists r, resolve cx = Ok r /\ flats_bits (resolved_flats r) = bits /\
            Forall (fun f => flat_wf f = true) (resolved_flats r) /\
            Forall (fun f => In (flat_leaf f) (sx_leaves cx)) (resolved_flats r).
Proof.
  intros Hb Hne. pose proof (list_flat_spec cx) as S. rewrite Hb in S. destruct S as [l [Hl [Hfb Hwf]]].
  pose proof (list_flat_leaves cx l Hl) as Hlv.
  destruct cx as [id w|p ix|ps]; cbn [resolve].
  - cbn [xbits] in Hb. destruct (w <? 1) eqn:E; [discriminate|]. cbn [list_flat] in Hl. rewrite E in Hl. inversion Hl; subst l.
    exists (RSingle (FSig id w)). cbn [resolved_flats]. auto.
  - rewrite Hl. cbn [bind]. destruct l as [|f [|f2 l]].
    + unfold flats_bits in Hfb. cbn in Hfb. congruence.
    + exists (RSingle f). cbn [resolved_flats]. auto.
    + exists (RConcat (f :: f2 :: l)). cbn [resolved_flats]. auto.
  - destruct ps as [|p0 ps].
    + cbn [xbits map cat_results] in Hb. inversion Hb. congruence.
    + rewrite Hl. cbn [bind]. exists (RConcat l). cbn [resolved_flats]. auto.
Qed.

(* what the pass does to one connection *)
Lemma slices_conn_spec c bits : xbits (snd c) = Ok bits -> bits <> [] ->
  exists c', slices_conn c = Ok c' /\ fst c' = fst c /\ xbits (snd c') = Ok bits /\
             (forall lw, In lw (sx_leaves (snd c')) -> In lw (sx_leaves (snd c))) /\
             exists r, snd c' = resolved_sx r /\ Forall (fun f => flat_wf f = true) (resolved_flats r).
Proof.
  intros Hb Hne. destruct (resolve_spec _ _ Hb Hne) as [r [Hr [Hfb [Hwf Hlv]]]].
  unfold slices_conn. destruct (snd c) as [id w|p ix|ps] eqn:Ec.
  - exists c. rewrite Ec. split; [reflexivity|]. split; [reflexivity|]. split; [exact Hb|]. split; [auto|].
    cbn [resolve] in Hr. destruct (w <? 1); [discriminate|]. inversion Hr; subst r. exists (RSingle (FSig id w)). auto.
  - rewrite Hr. cbn [bind]. exists (fst c, resolved_sx r). cbn [fst snd]. split; [reflexivity|]. split; [reflexivity|].
    split; [rewrite xbits_resolved by assumption; congruence|]. split; [|eauto].
    intros lw Hin. rewrite sx_leaves_resolved in Hin. apply in_map_iff in Hin. destruct Hin as [f [<- Hf]].
    rewrite Forall_forall in Hlv. apply Hlv. exact Hf.
  - rewrite Hr. cbn [bind]. exists (fst c, resolved_sx r). cbn [fst snd]. split; [reflexivity|]. split; [reflexivity|].
    split; [rewrite xbits_resolved by assumption; congruence|]. split; [|eauto].
    intros lw Hin. rewrite sx_leaves_resolved in Hin. apply in_map_iff in Hin. destruct Hin as [f [<- Hf]].
    rewrite Forall_forall in Hlv. apply Hlv. exact Hf.
Qed.

(* ------------------------------------------------------------------------------------------ the pass *)
Definition no_arrays (d : design) : Prop :=
  forall k m, nth_error (d_mods d) k = Some m -> forallb single (m_insts m) = true.

Definition conn_resolved (cx : sx) : Prop :=
  exists r, cx = resolved_sx r /\ Forall (fun f => flat_wf f = true) (resolved_flats r).

Definition resolved_design (d : design) : Prop :=
  forall k m x c, nth_error (d_mods d) k = Some m -> In x (m_insts m) -> In c (i_conns x) -> conn_resolved (snd c).

Lemma slices_conn_fst c c' : slices_conn c = Ok c' -> fst c' = fst c.
Proof.
  unfold slices_conn. destruct (snd c); [intros H; inversion H; reflexivity| |];
    (destruct (resolve _); cbn [bind]; [|discriminate]; intros H; inversion H; reflexivity).
Qed.

Lemma slices_inst_inv x x' : slices_inst x = Ok x' ->
  i_name x' = i_name x /\ i_n x' = i_n x /\ i_of x' = i_of x /\
  Forall2 (fun c c' => slices_conn c = Ok c') (i_conns x) (i_conns x').
Proof.
  unfold slices_inst. intros H. apply bind_ok in H. destruct H as [cs [Hcs H]]. inversion H; subst. cbn.
  repeat split. apply traverse_Forall2. exact Hcs.
Qed.

Lemma slices_module_inv m m' : slices_module m = Ok m' ->
  forallb single (m_insts m) = true /\ m_name m' = m_name m /\ m_ports m' = m_ports m /\ m_sigs m' = m_sigs m /\
  m_leaves m' = m_leaves m /\ Forall2 (fun x x' => slices_inst x = Ok x') (m_insts m) (m_insts m').
Proof.
  unfold slices_module. intros H. apply bind_ok in H. destruct H as [[] [Hc H]]. apply check_ok in Hc.
  apply bind_ok in H. destruct H as [is [His H]]. inversion H; subst. cbn. repeat split; try assumption.
  apply traverse_Forall2. exact His.
Qed.

Lemma sig_width_keep m m' s : m_ports m' = m_ports m -> m_sigs m' = m_sigs m -> sig_width m' s = sig_width m s.
Proof. intros Hp Hs. unfold sig_width. rewrite Hp, Hs. reflexivity. Qed.

Lemma nonempty_of_width {A} (bits : list A) w : 1 <= w -> zlen bits = w \/ (exists n, 0 < n /\ zlen bits = n * w) -> bits <> [].
Proof. intros Hw H E. subst bits. unfold zlen in H. cbn in H. destruct H as [H|[n [Hn H]]]; nia. Qed.

Section SlicesPass.
Variables d d' : design.
Hypothesis Hwfs : wfs d.
Hypothesis Hpass : slices_design d = Ok d'.

Let MR (m m' : module) : Prop := (exists k, nth_mod d k = Ok m) /\ slices_module m = Ok m'.

Lemma slices_ports_keep : forall m m', slices_module m = Ok m' -> m_ports m' = m_ports m.
Proof. intros m m' H. apply slices_module_inv in H. tauto. Qed.

Lemma slices_find m m' i x : MR m m' -> find_inst (m_insts m) i = Some x ->
  exists x', find_inst (m_insts m') i = Some x' /\ slices_inst x = Ok x'.
Proof.
  intros [_ H] Hf. apply slices_module_inv in H. destruct H as [_ [_ [_ [_ [_ F]]]]].
  apply (find_inst_Forall2 (fun x x' => slices_inst x = Ok x') _ _ i x F); [|exact Hf].
  intros a b Hab. apply slices_inst_inv in Hab. symmetry. tauto.
Qed.

Lemma slices_loc m m' i e x x' port k w t : MR m m' ->
  find_inst (m_insts m) i = Some x -> elem_ok x e = true -> find_inst (m_insts m') i = Some x' ->
  port_width d x port = Ok w -> 0 <= k < w -> local_tgt d m x e port k = Ok t ->
  local_tgt d' m' x' e port k = Ok t.
Proof.
  intros R Hf He Hf' Hw Hk Ht. destruct (slices_find _ _ _ _ R Hf) as [x2 [Hf2 Hx2]]. rewrite Hf' in Hf2. inversion Hf2; subst x2.
  destruct R as [[km Hkm] Hm]. destruct Hwfs as [_ [_ Hmods]]. pose proof (Hmods km m (proj1 (nth_mod_nth _ _ _) Hkm)) as Hok.
  destruct (find_inst_In _ _ _ Hf) as [Hxin _].
  destruct (wfs_local_tgt d km m x e port k w Hok Hxin He Hw Hk) as [cx [bits [id [j [s [ws [Ha [Hb [Hc [Hp [Hl [_ [_ Hlt]]]]]]]]]]]]].
  rewrite Hlt in Ht. inversion Ht; subst t.
  apply slices_inst_inv in Hx2. destruct Hx2 as [_ [Hn [Ho F]]].
  destruct (assoc_Forall2 _ _ _ port cx F (fun a b H => eq_sym (slices_conn_fst a b H)) Ha) as [cx' [Ha' Hsc]].
  assert (bits <> []) as Hne.
  { apply (nonempty_of_width bits w); [lia|]. destruct Hc as [Hc|[Hc1 Hc2]]; [left; exact Hc|right; eauto]. }
  destruct (slices_conn_spec (port, cx) bits Hb Hne) as [c2 [Hc2 [_ [Hb2 _]]]]. rewrite Hsc in Hc2. inversion Hc2; subst c2. cbn [snd] in Hb2.
  apply slices_module_inv in Hm. destruct Hm as [_ [_ [_ [_ [Hlv _]]]]].
  eapply local_tgt_intro; try eassumption.
  - eapply port_width_keep; [exact Hpass|exact slices_ports_keep|exact Ho|exact Hw].
  - unfold elem_ok in *. rewrite Hn. exact He.
  - rewrite Hn. exact Hc.
  - rewrite Hlv. exact Hl.
Qed.

Lemma slices_desc k m : nth_mod d k = Ok m -> exists m', nth_mod d' k = Ok m' /\ MR m m'.
Proof.
  intros Hk. destruct (map_modules_nth _ _ _ _ _ Hpass Hk) as [m' [Hk' Hf]]. exists m'. split; [exact Hk'|]. split; [eauto|exact Hf].
Qed.

Let rho (m : module) (ie : pelem) : pelem := ie.
Let mu (k : nat) : option nat := Some k.

Lemma sl_top : mu (d_top d) = Some (d_top d').
Proof. unfold mu. f_equal. symmetry. apply (map_modules_inv _ _ _ Hpass). Qed.
Lemma sl_desc : forall k k' m, mu k = Some k' -> nth_mod d k = Ok m -> exists m', nth_mod d' k' = Ok m' /\ MR m m'.
Proof. intros k k' m Hk. inversion Hk; subst k'. apply slices_desc. Qed.
Lemma sl_ports : forall m m', MR m m' -> m_ports m = m_ports m'.
Proof. intros m m' [_ R]. symmetry. apply slices_ports_keep. exact R. Qed.
Lemma sl_sigs : forall m m' s w, MR m m' -> sig_width m s = Some w -> sig_width m' s = Some w.
Proof. intros m m' s w [_ R] Hs. apply slices_module_inv in R. rewrite (sig_width_keep m m' s); tauto. Qed.
Lemma sl_inst : forall m m' i e x, MR m m' -> find_inst (m_insts m) i = Some x -> elem_ok x e = true ->
  exists x', find_inst (m_insts m') (fst (rho m (i, e))) = Some x' /\ elem_ok x' (snd (rho m (i, e))) = true /\
             tgt_rel mu (i_of x) (i_of x').
Proof.
  intros m m' i e x0 R Hf He. destruct (slices_find _ _ _ _ R Hf) as [x' [Hf' Hx']]. exists x'. cbn [rho fst snd].
  apply slices_inst_inv in Hx'. destruct Hx' as [_ [Hn [Ho _]]]. split; [exact Hf'|]. split.
  - unfold elem_ok in *. rewrite Hn. exact He.
  - rewrite Ho. destruct (i_of x0); cbn [tgt_rel]; auto.
Qed.
Lemma sl_single : forall m m' i x, MR m m' -> find_inst (m_insts m) i = Some x -> i_n x <= 0 -> snd (rho m (i, 0)) = 0.
Proof. reflexivity. Qed.
Lemma sl_inj : forall m m' i e x j f y, MR m m' -> find_inst (m_insts m) i = Some x -> elem_ok x e = true ->
  find_inst (m_insts m) j = Some y -> elem_ok y f = true -> rho m (i, e) = rho m (j, f) -> i = j /\ e = f.
Proof. intros m m' i e x0 j f y0 _ _ _ _ _ E. inversion E. auto. Qed.
Lemma sl_loc : forall m m' i e x x' port k w t, MR m m' ->
  find_inst (m_insts m) i = Some x -> elem_ok x e = true ->
  find_inst (m_insts m') (fst (rho m (i, e))) = Some x' ->
  port_width d x port = Ok w -> 0 <= k < w ->
  local_tgt d m x e port k = Ok t -> ltgt_valid d m t ->
  local_tgt d' m' x' (snd (rho m (i, e))) port k = Ok (map_lt rho m t).
Proof.
  intros m m' i e x0 x' port k w t R Hf He Hf' Hw Hk Ht Hval. cbn [rho fst snd] in *.
  rewrite (slices_loc _ _ _ _ _ _ _ _ _ _ R Hf He Hf' Hw Hk Ht). f_equal. destruct t; reflexivity.
Qed.
Lemma sl_val : forall p m i e x port k w t, vmod_at d p = Ok m -> find_inst (m_insts m) i = Some x ->
  elem_ok x e = true -> port_width d x port = Ok w -> 0 <= k < w -> local_tgt d m x e port k = Ok t -> ltgt_valid d m t.
Proof.
  intros p m i e x0 port k w t Hm Hf He Hw Hk Ht.
  destruct (wfs_module _ _ _ Hwfs Hm) as [km [Hkm Hok]]. destruct (find_inst_In _ _ _ Hf) as [Hxin _].
  destruct (wfs_local_tgt d km m x0 e port k w Hok Hxin He Hw Hk) as [cx [bits [id [j [s [ws [_ [_ [_ [_ [_ [Hs [Hj Hlt]]]]]]]]]]]]].
  rewrite Hlt in Ht. inversion Ht; subst t. cbn. eauto.
Qed.

Theorem slices_valid x : valid d x -> valid d' x.
Proof.
  intros H. rewrite <- (phi_id d rho (fun _ _ => eq_refl) x).
  exact (valid_tr d d' mu rho MR sl_top sl_desc sl_ports sl_sigs sl_inst sl_single sl_inj sl_loc sl_val
           (wfs_step_total d Hwfs) x H).
Qed.

Theorem slices_same_net x y : valid d x -> valid d y -> (same_net d x y <-> same_net d' x y).
Proof.
  intros Hx Hy.
  rewrite <- (phi_id d rho (fun _ _ => eq_refl) x) at 2. rewrite <- (phi_id d rho (fun _ _ => eq_refl) y) at 2.
  exact (sim_same_net d d' mu rho MR sl_top sl_desc sl_ports sl_sigs sl_inst sl_single sl_inj sl_loc sl_val
           (wfs_step_total d Hwfs) x y Hx Hy).
Qed.
Theorem slices_dev x dev : valid d x -> dev_at d x = Ok dev -> dev_at d' x = Ok dev.
Proof.
  intros Hv Hd. rewrite <- (phi_id d rho (fun _ _ => eq_refl) x).
  exact (sim_dev d d' mu rho MR sl_top sl_desc sl_ports sl_sigs sl_inst sl_single sl_inj sl_loc sl_val (wfs_step_total d Hwfs) x dev Hv Hd).
Qed.
End SlicesPass.

Theorem slices_wfs d d' : wfs d -> slices_design d = Ok d' -> wfs d' /\ no_arrays d' /\ resolved_design d'.
Proof.
  intros Hwfs Hpass. pose proof Hwfs as [Ht [Hnd Hmods]].
  assert (forall k m', nth_error (d_mods d') k = Some m' ->
            exists m, nth_error (d_mods d) k = Some m /\ slices_module m = Ok m') as Hback.
  { intros k m' Hk. apply (map_modules_nth_rev _ _ _ _ _ Hpass Hk). }
  assert (forall m m', slices_module m = Ok m' -> m_ports m' = m_ports m) as Hports by (intros m m' H; apply slices_module_inv in H; tauto).
  split; [|split].
  - split; [|split].
    + rewrite (map_modules_length _ _ _ Hpass). rewrite (proj1 (map_modules_inv _ _ _ Hpass)). exact Ht.
    + rewrite (map_modules_names _ _ _ Hpass); [exact Hnd|]. intros m m' H. apply slices_module_inv in H. tauto.
    + intros k m' Hk. destruct (Hback k m' Hk) as [m [Hkm Hm]]. destruct (Hmods k m Hkm) as [Hn [Hnd' [Hw Hi]]].
      destruct (slices_module_inv _ _ Hm) as [_ [En [Ep [Es [El F]]]]].
      split; [rewrite En; exact Hn|]. split.
      { unfold mod_names in *. rewrite Ep, Es.
        rewrite <- (Forall2_map_eq _ i_name i_name _ _ F); [exact Hnd'|]. intros a b Hab. apply slices_inst_inv in Hab. symmetry. tauto. }
      split; [rewrite Ep, Es; exact Hw|].
      apply Forall_forall. intros x' Hx'. destruct (Forall2_In_r _ _ _ x' F Hx') as [x [Hx Hxx]].
      rewrite Forall_forall in Hi. destruct (Hi x Hx) as [Ho [ports [Hp [Hcnd [Hc Hall]]]]].
      destruct (slices_inst_inv _ _ Hxx) as [_ [Hn' [Ho' Fc]]].
      split; [rewrite Ho'; exact Ho|]. exists ports. split; [rewrite Ho'; apply (target_ports_keep _ _ _ _ Hpass Hports); exact Hp|].
      split.
      { rewrite <- (Forall2_map_eq _ fst fst _ _ Fc); [exact Hcnd|]. intros a b Hab. symmetry. apply slices_conn_fst. exact Hab. }
      split.
      { apply Forall_forall. intros c' Hc'. destruct (Forall2_In_r _ _ _ c' Fc Hc') as [c [Hcin Hcc]].
        rewrite Forall_forall in Hc. destruct (Hc c Hcin) as [w [cw [Hpw [Hw1 [Hl [Hcw Hcase]]]]]].
        destruct (conn_width_bits _ _ _ _ Hcw Hw1 Hcase) as [bits [Hb [Hlen Hne]]].
        destruct (slices_conn_spec c bits Hb Hne) as [c2 [Hc2 [Hfst [Hb2 [Hlv _]]]]]. rewrite Hcc in Hc2. inversion Hc2; subst c2.
        exists w, cw. split; [rewrite Hfst; exact Hpw|]. split; [exact Hw1|]. split.
        - apply Forall_forall. intros lw Hlw. apply (leaf_ok_keep m m' lw El Ep Es). rewrite Forall_forall in Hl. apply Hl. apply Hlv. exact Hlw.
        - split; [|rewrite Hn'; exact Hcase]. pose proof (xwidth_xbits (snd c')) as W. rewrite Hb2 in W. rewrite W, Hlen. reflexivity. }
      intros pw Hpwin E. apply (Hall pw Hpwin).
      apply (assoc_Forall2_none (fun c c' => slices_conn c = Ok c') _ _ (fst pw) Fc); [|exact E].
      intros a b Hab. symmetry. apply slices_conn_fst. exact Hab.
  - intros k m' Hk. destruct (Hback k m' Hk) as [m [Hkm Hm]]. destruct (slices_module_inv _ _ Hm) as [Hs [_ [_ [_ [_ F]]]]].
    apply forallb_forall. intros x' Hx'. destruct (Forall2_In_r _ _ _ x' F Hx') as [x [Hx Hxx]].
    rewrite forallb_forall in Hs. specialize (Hs x Hx). apply slices_inst_inv in Hxx. unfold single in *. destruct Hxx as [_ [-> _]]. exact Hs.
  - intros k m' x' c' Hk Hx' Hc'. destruct (Hback k m' Hk) as [m [Hkm Hm]]. destruct (Hmods k m Hkm) as [_ [_ [_ Hi]]].
    destruct (slices_module_inv _ _ Hm) as [_ [_ [_ [_ [_ F]]]]].
    destruct (Forall2_In_r _ _ _ x' F Hx') as [x [Hx Hxx]]. rewrite Forall_forall in Hi. destruct (Hi x Hx) as [_ [ports [_ [_ [Hc _]]]]].
    destruct (slices_inst_inv _ _ Hxx) as [_ [_ [_ Fc]]]. destruct (Forall2_In_r _ _ _ c' Fc Hc') as [c [Hcin Hcc]].
    rewrite Forall_forall in Hc. destruct (Hc c Hcin) as [w [cw [_ [Hw1 [_ [Hcw Hcase]]]]]].
    destruct (conn_width_bits _ _ _ _ Hcw Hw1 Hcase) as [bits [Hb [_ Hne]]].
    destruct (slices_conn_spec c bits Hb Hne) as [c2 [Hc2 [_ [_ [_ Hr]]]]]. rewrite Hcc in Hc2. inversion Hc2; subst c2. exact Hr.
Qed.

Theorem slices_total d : wfs d -> no_arrays d -> exists d', slices_design d = Ok d'.
Proof.
  intros [_ [_ Hmods]] Hna. apply map_modules_total. intros k m Hk. unfold slices_module.
  rewrite (Hna k m Hk). cbn [check bind]. destruct (Hmods k m Hk) as [_ [_ [_ Hi]]].
  destruct (traverse_total slices_inst (m_insts m)) as [is ->]; [|cbn [bind]; eauto].
  intros x Hx. rewrite Forall_forall in Hi. destruct (Hi x Hx) as [_ [ports [_ [_ [Hc _]]]]]. unfold slices_inst.
  destruct (traverse_total slices_conn (i_conns x)) as [cs ->]; [|cbn [bind]; eauto].
  intros c Hcin. rewrite Forall_forall in Hc. destruct (Hc c Hcin) as [w [cw [_ [Hw1 [_ [Hcw Hcase]]]]]].
  destruct (conn_width_bits _ _ _ _ Hcw Hw1 Hcase) as [bits [Hb [_ Hne]]].
  destruct (slices_conn_spec c bits Hb Hne) as [c2 [Hc2 _]]. eauto.
Qed.
