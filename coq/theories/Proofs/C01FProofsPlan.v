(* Proofs/C01FProofsPlan.v — copy of Proofs/C01EProofsPlan.v without the hypothesis frag_ok.  What ResolvePortRefs allocates (Model/C01EElab.v:plan / alloc_names / number_allocs):
   one implicit signal per source-less group that a reference was taken from, owned by a member of the group and of the
   group's width; one private signal per no-connected port; fresh, pairwise distinct names; new leaf ids. *)
From Coq Require Import String.
Require Import Hdl21.Base.PyInt Hdl21.Spec.PySlice Hdl21.Model.Slice Hdl21.Model.Resolve Hdl21.Base.Design
               Hdl21.Spec.Nets Hdl21.Spec.WfDesign Hdl21.Spec.C01ENets Hdl21.Model.C01EElab Hdl21.Proofs.FunGraph
               Hdl21.Proofs.ResolveProofs Hdl21.Proofs.C01EProofsGraph Hdl21.Proofs.C01EProofsBase Hdl21.Proofs.C01EProofsPass
               Hdl21.Proofs.C01EProofsNames Hdl21.Proofs.C01FProofsGroups.
Open Scope Z_scope.

(* ---- names ---- *)
Lemma alloc_names_spec : forall bases avoid names, alloc_names bases avoid = Ok names ->
  Datatypes.length names = Datatypes.length bases /\ NoDup names /\ forall nm, In nm names -> ~ In nm avoid.
Proof.
  induction bases as [|b r IH]; intros avoid names H; cbn [alloc_names] in H.
  - inversion H; subst. split; [reflexivity|]. split; [constructor|]. intros nm [].
  - binv H. inversion H; subst. destruct (IH _ _ E0) as [Hl [Hnd Hav]]. pose proof (flatname_fresh _ _ _ E) as Hf.
    split; [cbn; congruence|]. split.
    + constructor; [|exact Hnd]. intros Hin. apply (Hav _ Hin). apply in_or_app. right. left. reflexivity.
    + intros nm [<-|Hin]; [exact Hf|]. intros Hin2. apply (Hav _ Hin). apply in_or_app. left. exact Hin2.
Qed.

Lemma alloc_names_err : forall bases avoid e, alloc_names bases avoid = Error e -> e = EName.
Proof.
  induction bases as [|b r IH]; intros avoid e H; cbn [alloc_names] in H; [discriminate|].
  destruct (flatname [b] avoid maxlen) as [nm|e'] eqn:E; cbn [bind] in H.
  - destruct (alloc_names r (avoid ++ [nm])) as [ns|e'] eqn:E2; cbn [bind] in H; [discriminate|]. inversion H; subst. eapply IH. exact E2.
  - inversion H; subst. eapply flatname_err. exact E.
Qed.

(* ---- leaf ids ---- *)
Lemma next_leaf_above m : forall id lf, In (id, lf) (m_leaves m) -> (id < next_leaf m)%N.
Proof.
  unfold next_leaf. induction (m_leaves m) as [|[id' lf'] l IH]; intros id lf Hin; [destruct Hin|]. cbn [fold_right fst].
  destruct Hin as [E|Hin]; [inversion E; subst; lia|]. specialize (IH id lf Hin). lia.
Qed.

Lemma assocN_In {A} k (l : list (N * A)) v : assocN k l = Some v -> In (k, v) l.
Proof.
  induction l as [|[k' v'] l IH]; cbn [assocN]; [discriminate|]. destruct (N.eqb k k') eqn:E.
  - apply N.eqb_eq in E. subst. intros H; inversion H. left. reflexivity.
  - intros H. right. apply IH. exact H.
Qed.

Lemma number_allocs_spec : forall l id0 id a nm, In (id, a, nm) (number_allocs l id0) ->
  (id0 <= id)%N /\ In (a, nm) l.
Proof.
  induction l as [|[a0 n0] l IH]; intros id0 id a nm Hin; cbn [number_allocs] in Hin; [destruct Hin|].
  destruct Hin as [E|Hin]; [inversion E; subst; split; [lia|left; reflexivity]|].
  destruct (IH _ _ _ _ Hin) as [H1 H2]. split; [lia|right; exact H2].
Qed.

Lemma number_allocs_ids_NoDup : forall l id0, NoDup (map (fun e : N * alloc * name => fst (fst e)) (number_allocs l id0)).
Proof.
  induction l as [|[a0 n0] l IH]; intros id0; cbn [number_allocs map]; [constructor|]. constructor; [|apply IH].
  cbn [fst]. intros Hin. apply in_map_iff in Hin. destruct Hin as [[[id a] nm] [E Hin]]. cbn [fst] in E. subst id.
  apply number_allocs_spec in Hin. lia.
Qed.

Lemma number_allocs_map : forall l id0, map (fun e : N * alloc * name => (snd (fst e), snd e)) (number_allocs l id0) = l.
Proof. induction l as [|[a0 n0] l IH]; intros id0; cbn [number_allocs map fst snd]; [reflexivity|]. rewrite IH. reflexivity. Qed.

Lemma assocN_map_unique {A B} (f : A -> N) (g : A -> B) l x : NoDup (map f l) -> In x l -> assocN (f x) (map (fun e => (f e, g e)) l) = Some (g x).
Proof.
  induction l as [|y l IH]; cbn [map assocN]; intros Hnd Hin; [destruct Hin|]. inversion Hnd as [|? ? Hn Hnd']; subst.
  destruct Hin as [->|Hin]; [rewrite N.eqb_refl; reflexivity|].
  destruct (N.eqb (f x) (f y)) eqn:E; [|apply IH; assumption]. apply N.eqb_eq in E. exfalso. apply Hn. rewrite <- E. apply in_map. exact Hin.
Qed.

Lemma assoc_map_unique {A B} (f : A -> name) (g : A -> B) l x : NoDup (map f l) -> In x l -> assoc (f x) (map (fun e => (f e, g e)) l) = Some (g x).
Proof.
  induction l as [|y l IH]; cbn [map assoc]; intros Hnd Hin; [destruct Hin|]. inversion Hnd as [|? ? Hn Hnd']; subst.
  destruct Hin as [->|Hin]; [rewrite String.eqb_refl; reflexivity|].
  destruct (String.eqb (f x) (f y)) eqn:E; [|apply IH; assumption]. apply String.eqb_eq in E. exfalso. apply Hn. rewrite <- E. apply in_map. exact Hin.
Qed.

Lemma assoc_nodup_In' {A} k (v : A) l : NoDup (map fst l) -> In (k, v) l -> assoc k l = Some v.
Proof.
  induction l as [|[k' v'] l IH]; cbn [map fst assoc]; intros Hnd Hin; [destruct Hin|]. inversion Hnd as [|? ? Hn Hnd']; subst.
  destruct Hin as [E|Hin]; [inversion E; subst; rewrite String.eqb_refl; reflexivity|].
  destruct (String.eqb k k') eqn:E; [|apply IH; assumption]. apply String.eqb_eq in E. subst. exfalso. apply Hn.
  apply (in_map fst) in Hin. exact Hin.
Qed.

(* ---- kdedupe / first_min ---- *)
Lemma kdedupe_In q : forall l seen, In q (kdedupe l seen) <-> In q l /\ ~ In q seen.
Proof.
  induction l as [|x l IH]; intros seen; cbn [kdedupe]; [tauto|].
  destruct (kmem x seen) eqn:E.
  - rewrite IH. apply kmem_In in E. split; [intros [H1 H2]; split; [right; exact H1|exact H2]|].
    intros [[->|H1] H2]; [contradiction|auto].
  - assert (~ In x seen) as Hx by (intros H; apply kmem_In in H; congruence). cbn [In]. rewrite IH. cbn [In]. split.
    + intros [->|[H1 H2]]; [split; [left; reflexivity|exact Hx]|split; [right; exact H1|intros H; apply H2; right; exact H]].
    + intros [[->|H1] H2]; [left; reflexivity|]. destruct (key_eqb x q) eqn:Eq; [apply key_eqb_eq in Eq; left; exact Eq|].
      right. split; [exact H1|]. intros [->|H]; [rewrite (proj2 (key_eqb_eq q q) eq_refl) in Eq; discriminate|contradiction].
Qed.

Lemma first_min_In x t : In (first_min x t) (x :: t).
Proof.
  unfold first_min. revert x. induction t as [|y t IH]; intros x; cbn [fold_left]; [left; reflexivity|].
  destruct (key_ltb y x); [destruct (IH y) as [H|H]; [right; left; exact H|right; right; exact H]|].
  destruct (IH x) as [H|H]; [left; exact H|right; right; exact H].
Qed.

Definition alloc_groups (allocs : list alloc) : list key :=
  flat_map (fun a => match a_kind a with AGroup g _ => [g] | ANc _ _ => [] end) allocs.

Section PlanInv.
Variables (d : design) (ncn : list (N * name)) (km : nat) (m : module) (keys : list key).
Hypothesis Hwm : wf_module d km m = Ok tt.
Hypothesis Hkeys : all_keys d m = Ok keys.

Definition alloc_good (a : alloc) : Prop :=
  match a_kind a with
  | AGroup g o => In g keys /\ gid m keys g = Some g /\
                  exists namer, group_res m keys g = Ok (GFresh o namer) /\ key_width d m namer = Ok (a_width a)
  | ANc i p => exists x w cx site, find_inst (m_insts m) i = Some x /\ port_width d x p = Ok w /\
                  assoc p (i_conns x) = Some cx /\ as_nc m cx = Some site /\
                  a_width a = (if single x then w else w * i_n x)
  end.

Definition seed_ok (s : seed) : Prop :=
  match s with
  | SRef q => In q keys
  | SNc x p site => In x (m_insts m) /\ exists cx, In (p, cx) (i_conns x) /\ as_nc m cx = Some site
  end.

Lemma plan_spec : forall ss done allocs, plan d ncn m keys ss done = Ok allocs -> Forall seed_ok ss ->
  Forall alloc_good allocs /\
  (forall g, In g (alloc_groups allocs) -> ~ In g done) /\
  NoDup (alloc_groups allocs) /\
  (forall q g, In (SRef q) ss -> gid m keys q = Some g ->
     In g done \/ (exists cx, group_res m keys g = Ok (GSrc cx)) \/ In g (alloc_groups allocs)) /\
  (forall x p site, In (SNc x p site) ss -> exists a, In a allocs /\ a_kind a = ANc (i_name x) p).
Proof.
  induction ss as [|s r IH]; intros done allocs H Hok; cbn [plan] in H.
  - inversion H; subst. split; [constructor|]. split; [intros g []|]. split; [constructor|]. split; [intros q g []|intros x p site []].
  - inversion Hok as [|? ? Hs Hr]; subst. destruct s as [q|x p site].
    + cbn [seed_ok] in Hs. apply bind_ok in H. destruct H as [g [Hg H]]. apply ofopt_ok in Hg.
      destruct (gid_spec d km m keys Hwm Hkeys q g Hs Hg) as [Hgk _].
      pose proof (gid_idem d km m keys Hwm Hkeys q g Hs Hg) as Hgg.
      destruct (kmem g done) eqn:Ek.
      * destruct (IH _ _ H Hr) as [I1 [I2 [I3 [I4 I5]]]]. split; [exact I1|]. split; [exact I2|]. split; [exact I3|]. split.
        -- intros q' g' [E|Hin] Hg'; [inversion E; subst q'; rewrite Hg in Hg'; inversion Hg'; subst g'; left; apply kmem_In; exact Ek|].
           apply (I4 q' g' Hin Hg').
        -- intros x p site [E|Hin]; [discriminate|apply (I5 x p site Hin)].
      * assert (~ In g done) as Hnd by (intros Hin; apply kmem_In in Hin; congruence).
        apply bind_ok in H. destruct H as [gr [Hgr H]]. destruct gr as [cx|o namer].
        -- destruct (IH _ _ H Hr) as [I1 [I2 [I3 [I4 I5]]]]. split; [exact I1|]. split; [intros g' Hg' Hin; apply (I2 g' Hg'); right; exact Hin|].
           split; [exact I3|]. split.
           ++ intros q' g' [E|Hin] Hg'.
              ** inversion E; subst q'. rewrite Hg in Hg'. inversion Hg'; subst g'. right. left. eauto.
              ** destruct (I4 q' g' Hin Hg') as [[<-|Hd]|Hrest]; [right; left; eauto|left; exact Hd|right; exact Hrest].
           ++ intros x p site [E|Hin]; [discriminate|apply (I5 x p site Hin)].
        -- apply bind_ok in H. destruct H as [w [Hw H]]. apply bind_ok in H. destruct H as [rest [Hrest H]]. inversion H; subst allocs.
           destruct (IH _ _ Hrest Hr) as [I1 [I2 [I3 [I4 I5]]]]. split; [|split; [|split; [|split]]].
           ++ constructor; [|exact I1]. unfold alloc_good. cbn [a_kind a_width]. split; [exact Hgk|]. split; [exact Hgg|]. eauto.
           ++ cbn [alloc_groups flat_map a_kind app]. intros g' [<-|Hg']; [exact Hnd|]. intros Hin. apply (I2 g' Hg'). right. exact Hin.
           ++ cbn [alloc_groups flat_map a_kind app]. constructor; [|exact I3]. intros Hin. apply (I2 g Hin). left. reflexivity.
           ++ cbn [alloc_groups flat_map a_kind app]. intros q' g' [E|Hin] Hg'.
              ** inversion E; subst q'. rewrite Hg in Hg'. inversion Hg'; subst g'. right. right. left. reflexivity.
              ** destruct (I4 q' g' Hin Hg') as [[<-|Hd]|[Hsrc|Hal]]; [right; right; left; reflexivity|left; exact Hd|right; left; exact Hsrc|right; right; right; exact Hal].
           ++ intros x p site [E|Hin]; [discriminate|]. destruct (I5 x p site Hin) as [a [Ha Hk]]. exists a. split; [right; exact Ha|exact Hk].
    + cbn [seed_ok] in Hs. destruct Hs as [Hx [cx [Hc Hnc]]]. apply bind_ok in H. destruct H as [w [Hw H]]. apply bind_ok in H. destruct H as [rest [Hrest H]].
      inversion H; subst allocs. destruct (IH _ _ Hrest Hr) as [I1 [I2 [I3 [I4 I5]]]]. split; [|split; [|split; [|split]]].
      * constructor; [|exact I1]. unfold alloc_good. cbn [a_kind a_width]. exists x, w, cx, site.
        split; [apply find_inst_unique; [apply (g_insts_NoDup d km m Hwm)|exact Hx]|]. split; [exact Hw|]. split; [|split; [exact Hnc|reflexivity]].
        destruct (wf_module_inv _ _ _ Hwm) as [_ [_ [_ Hi]]]. destruct (wf_inst_inv _ _ _ _ (Hi x Hx)) as [_ [ports [_ [Hnd _]]]].
        apply assoc_nodup_In'; assumption.
      * exact I2.
      * exact I3.
      * intros q' g' [E|Hin] Hg'; [discriminate|apply (I4 q' g' Hin Hg')].
      * intros x' p' site' [E|Hin]; [inversion E; subst; eexists; split; [left; reflexivity|reflexivity]|].
        destruct (I5 x' p' site' Hin) as [a [Ha Hk]]. exists a. split; [right; exact Ha|exact Hk].
Qed.
End PlanInv.
