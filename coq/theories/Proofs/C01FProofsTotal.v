(* Proofs/C01FProofsTotal.v — the re-parenting step (Model/C01FElab.v:reparent_module) ends, with the fuel the model gives it,
   on every module whose reference groups do not depend on one another in a loop (Spec/C01FNets.v:acyc).
   rdepth m1 f q : following the connection of port q in the module after step 1, references are met at most f levels deep. *)
From Coq Require Import String.
Require Import Hdl21.Base.PyInt Hdl21.Spec.PySlice Hdl21.Model.Slice Hdl21.Model.Resolve Hdl21.Base.Design
               Hdl21.Spec.Nets Hdl21.Spec.WfDesign Hdl21.Spec.C01ENets Hdl21.Model.C01EElab Hdl21.Model.C01FElab Hdl21.Spec.C01FNets Hdl21.Proofs.FunGraph
               Hdl21.Proofs.ResolveProofs Hdl21.Proofs.C01EProofsGraph Hdl21.Proofs.C01EProofsBase Hdl21.Proofs.C01EProofsPass
               Hdl21.Proofs.C01EProofsWfs Hdl21.Proofs.C01EProofsNames Hdl21.Proofs.C01FProofsGroups Hdl21.Proofs.C01FProofsPlan
               Hdl21.Proofs.C01FProofsWfs1 Hdl21.Proofs.C01FProofsPortRefs Hdl21.Proofs.C01FProofsReparent.
Open Scope Z_scope.

Fixpoint rdepth (m1 : module) (fuel : nat) (q : key) : Prop :=
  match fuel with
  | O => False
  | S f => exists cx, pconn m1 q = Some cx /\ forall q', In q' (refs_in m1 cx) -> rdepth m1 f q'
  end.

Lemma ref_leaf_refs_in m1 e id w q : In (id, w) (sx_leaves e) -> ref_leaf m1 id = Some q -> In q (refs_in m1 e).
Proof.
  intros Hin Hr. unfold refs_in. apply in_flat_map. exists (id, w). split; [exact Hin|]. unfold leaf_ref, ref_leaf in *. cbn [fst].
  destruct (assocN id (m_leaves m1)) as [[s|i p|s]|]; try discriminate. inversion Hr. left. reflexivity.
Qed.

Lemma reparent_ok m1 : forall fuel e, (forall q, In q (refs_in m1 e) -> rdepth m1 fuel q) -> exists e', reparent m1 fuel e = Ok e'.
Proof.
  induction fuel as [|f IH]; intros e Hd; rewrite reparent_unfold; apply sx_subst_total; intros id w Hin; unfold rp_leaf.
  - destruct (ref_leaf m1 id) as [q|] eqn:E; [|eauto]. exfalso. apply (Hd q). eapply ref_leaf_refs_in; eassumption.
  - destruct (ref_leaf m1 id) as [q|] eqn:E; [|eauto].
    destruct (Hd q (ref_leaf_refs_in m1 e id w q Hin E)) as [cx [Hp Hq']]. rewrite Hp. cbn [ofopt bind]. apply IH. exact Hq'.
Qed.

Lemma acyc_mono m keys : forall f q, acyc m keys f q = true -> acyc m keys (S f) q = true.
Proof.
  induction f as [|f IH]; intros q H; [discriminate|]. cbn [acyc] in *. destruct (src m keys q) as [cx|]; [|reflexivity].
  rewrite forallb_forall in *. intros q' Hq'. apply IH. apply H. exact Hq'.
Qed.

Section TotalModule.
Variables (d : design) (ncn : list (N * name)) (km : nat) (m : module).
Hypothesis Hwm : wf_module d km m = Ok tt.
Hypothesis Hfrag : forall x c, In x (m_insts m) -> In c (i_conns x) -> conn_frag2 d m x c = true.
Hypothesis Hpw : forall x ports pw, In x (m_insts m) -> target_ports d (i_of x) = Ok ports -> In pw ports -> 1 <= snd pw.
Variables (keys : list key) (allocs : list alloc) (names : list name).
Hypothesis Hkeys : all_keys d m = Ok keys.
Hypothesis Hplan : plan d ncn m keys (seeds2 m) [] = Ok allocs.
Hypothesis Hnames : alloc_names (map a_base allocs) (namespace m) = Ok names.
Variable insts1 : list inst.
Hypothesis Hins : Forall2 (fun x x1 => rewrite_inst m keys (number_allocs (combine allocs names) (next_leaf m)) x = Ok x1) (m_insts m) insts1.

Let table := number_allocs (combine allocs names) (next_leaf m).
Let mm1 := m1 m allocs names insts1.

(* the references of an expression whose leaves are leaves of the old module are the same before and after step 1 *)
Lemma refs_in_old e : (forall lw, In lw (sx_leaves e) -> exists lf, assocN (fst lw) (m_leaves m) = Some lf) -> refs_in mm1 e = refs_in m e.
Proof.
  intros H. unfold refs_in. induction (sx_leaves e) as [|lw l IH]; cbn [flat_map]; [reflexivity|].
  rewrite IH by (intros lw' Hin; apply H; right; exact Hin). f_equal. unfold leaf_ref.
  destruct (H lw (or_introl eq_refl)) as [lf Hlf]. cbn [mm1 m1 m_leaves]. rewrite (leaves1_old m allocs names _ _ Hlf), Hlf. reflexivity.
Qed.

Lemma conn_leaves_old x c : In x (m_insts m) -> In c (i_conns x) -> forall lw, In lw (sx_leaves (snd c)) -> exists lf, assocN (fst lw) (m_leaves m) = Some lf.
Proof.
  intros Hx Hc lw Hin. destruct (wf_module_inv _ _ _ Hwm) as [_ [_ [_ Hi]]]. destruct (wf_inst_inv _ _ _ _ (Hi x Hx)) as [_ [ports [_ [_ [Hwc _]]]]].
  destruct (wf_conn_inv _ _ _ _ _ (Hwc c Hc)) as [w [_ [Hlv _]]]. destruct (wf_leaf_inv _ _ _ (Hlv lw Hin)) as [lf [Hlf _]]. eauto.
Qed.

Lemma fresh_no_refs id a nm : In (id, a, nm) table -> refs_in mm1 (XSig id (a_width a)) = [].
Proof.
  intros Ht. unfold refs_in. cbn [sx_leaves flat_map]. unfold leaf_ref. cbn [fst mm1 m1 m_leaves].
  rewrite (leaves1_new m allocs names id a nm Ht). reflexivity.
Qed.

(* what a mentioned port is connected to after step 1, and the references in it *)
Lemma mentioned_conn1 q : In q (mentioned2 m) ->
  exists e, pconn mm1 q = Some e /\
    ( (src m keys q = Some e /\ refs_in mm1 e = refs_in m e /\ forall q', In q' (refs_in m e) -> In q' (mentioned2 m))
      \/ refs_in mm1 e = [] ).
Proof.
  intros Hq. destruct (pr_res d ncn km m Hwm Hfrag Hpw keys allocs names Hkeys Hplan Hnames q Hq) as [g [e [Hqk [Hg [Hgk [Cg [Hres Hi]]]]]]].
  pose proof Hqk as Hqk2. apply (keys_In d km m keys Hwm Hkeys) in Hqk2. destruct Hqk2 as [xq [wq [Hfq _]]].
  destruct (find_inst_In _ _ _ Hfq) as [Hxq _]. destruct (Forall2_In_l _ _ _ xq Hins Hxq) as [xq1 [_ Hrq1]].
  destruct (pr_target_conn d ncn km m Hwm Hfrag Hpw keys allocs names Hkeys Hplan Hnames q xq xq1 Hq Hfq Hrq1) as [e2 [He2 Hres2]].
  rewrite Hres in Hres2. inversion Hres2; subst e2.
  destruct (find_inst1 m keys allocs names insts1 Hins (fst q) xq Hfq) as [xq1' [Hf1 [Hr1' _]]].
  rewrite Hrq1 in Hr1'. inversion Hr1'; subst xq1'.
  exists e. split; [unfold pconn; cbn [mm1 m1 m_insts]; rewrite Hf1; exact He2|].
  destruct Hi as [Hsrc Hre Hne|id a nm o He Ht Hk Hok Co Hw].
  - left. split; [|split].
    + unfold src. rewrite Hg. unfold group_res. rewrite Hsrc, Hre, Hne. reflexivity.
    + (* e is the connection of the root of the group *)
      destruct (attr_spec d km m keys Hwm Hkeys g Hgk) as [Hrk _]. set (r := attr m keys g) in *.
      apply (keys_In d km m keys Hwm Hkeys) in Hrk. destruct Hrk as [xr [wr [Hfr _]]]. destruct (find_inst_In _ _ _ Hfr) as [Hxr _].
      unfold pconn in Hsrc. rewrite Hfr in Hsrc. apply refs_in_old. apply (conn_leaves_old xr (snd r, e) Hxr (assoc_In _ _ _ Hsrc)).
    + intros q' Hq'. destruct (attr_spec d km m keys Hwm Hkeys g Hgk) as [Hrk _]. set (r := attr m keys g) in *.
      apply (keys_In d km m keys Hwm Hkeys) in Hrk. destruct Hrk as [xr [wr [Hfr _]]]. destruct (find_inst_In _ _ _ Hfr) as [Hxr _].
      unfold pconn in Hsrc. rewrite Hfr in Hsrc.
      apply (pr_mentioned m). exists xr, (snd r, e). split; [exact Hxr|]. split; [apply assoc_In; exact Hsrc|exact Hq'].
  - right. subst e. apply (fresh_no_refs id a nm Ht).
Qed.

Lemma acyc_rdepth : forall f q, In q (mentioned2 m) -> acyc m keys f q = true -> rdepth mm1 f q.
Proof.
  induction f as [|f IH]; intros q Hq Ha; [discriminate|]. cbn [acyc] in Ha. cbn [rdepth].
  destruct (mentioned_conn1 q Hq) as [e [Hp [[Hs [Hr Hm]]|Hr]]].
  - exists e. split; [exact Hp|]. rewrite Hs in Ha. rewrite forallb_forall in Ha. intros q' Hq'. rewrite Hr in Hq'. apply IH; [apply Hm; exact Hq'|apply Ha; exact Hq'].
  - exists e. split; [exact Hp|]. rewrite Hr. intros q' [].
Qed.

Hypothesis Hacyc : forallb (acyc m keys (ref_fuel keys)) (mentioned2 m) = true.

(* every connection after step 1 mentions ports of bounded depth only *)
Lemma conn1_rdepth x c e : In x (m_insts m) -> In c (i_conns x) -> conn1_is d m keys allocs names x c e ->
  forall q, In q (refs_in mm1 e) -> rdepth mm1 (ref_fuel keys) q.
Proof.
  intros Hx Hc Hi q Hq. rewrite forallb_forall in Hacyc.
  assert (forall e0, (forall lw, In lw (sx_leaves e0) -> exists lf, assocN (fst lw) (m_leaves m) = Some lf) ->
            (forall q', In q' (refs_in m e0) -> In q' (mentioned2 m)) -> In q (refs_in mm1 e0) -> rdepth mm1 (ref_fuel keys) q) as Hold.
  { intros e0 Hl Hm Hin. rewrite (refs_in_old e0 Hl) in Hin. apply acyc_rdepth; [apply Hm; exact Hin|apply Hacyc; apply Hm; exact Hin]. }
  destruct Hi as [q0 g Hr Hq0 Hq0k Hg Hgk Cg Hres Hri|site id a nm w Hr Hn He Ht Hk Hw Hwd|Hr Hn He].
  - destruct Hri as [Hsrc Hre Hne|id a nm o He Ht Hk Hok Co Hw].
    + destruct (attr_spec d km m keys Hwm Hkeys g Hgk) as [Hrk _]. set (r := attr m keys g) in *.
      apply (keys_In d km m keys Hwm Hkeys) in Hrk. destruct Hrk as [xr [wr [Hfr _]]]. destruct (find_inst_In _ _ _ Hfr) as [Hxr _].
      unfold pconn in Hsrc. rewrite Hfr in Hsrc. apply (Hold e); [apply (conn_leaves_old xr (snd r, e) Hxr (assoc_In _ _ _ Hsrc))| |exact Hq].
      intros q' Hq'. apply (pr_mentioned m). exists xr, (snd r, e). split; [exact Hxr|]. split; [apply assoc_In; exact Hsrc|exact Hq'].
    + subst e. rewrite (fresh_no_refs id a nm Ht) in Hq. destruct Hq.
  - subst e. rewrite (fresh_no_refs id a nm Ht) in Hq. destruct Hq.
  - subst e. apply (Hold (snd c)); [apply (conn_leaves_old x c Hx Hc)| |exact Hq].
    intros q' Hq'. apply (pr_mentioned m). exists x, c. auto.
Qed.

Theorem reparent_module_total : exists m2, reparent_module (ref_fuel keys) mm1 = Ok m2.
Proof.
  unfold reparent_module. cbn [mm1 m1 m_insts].
  destruct (traverse_total (reparent_inst mm1 (ref_fuel keys)) insts1) as [is His]; [|fold mm1 in His; rewrite His; cbn [bind]; eauto].
  intros x1 Hx1. destruct (Forall2_In_r _ _ _ x1 Hins Hx1) as [x [Hx Hr]]. unfold reparent_inst.
  destruct (traverse_total (fun c : name * sx => e <- reparent mm1 (ref_fuel keys) (snd c) ;; Ok (fst c, e)) (i_conns x1)) as [cs ->]; [|cbn [bind]; eauto].
  intros c1 Hc1. assert (exists e', reparent mm1 (ref_fuel keys) (snd c1) = Ok e') as [e' ->]; [|cbn [bind]; eauto].
  apply reparent_ok. intros q Hq.
  destruct (rewrite_inst_inv m keys allocs names x x1 Hr) as [_ [_ [_ [cs [Hcs Fc]]]]]. rewrite Hcs in Hc1. apply in_app_or in Hc1.
  destruct Hc1 as [Hc1|Hc1].
  - destruct (Forall2_In_r _ _ _ c1 Fc Hc1) as [c [Hc Hrc]].
    destruct (pr_rewrite_conn d ncn km m Hwm Hfrag Hpw keys allocs names Hkeys Hplan Hnames x c Hx Hc) as [e [Hre Hci]].
    rewrite Hrc in Hre. inversion Hre; subst c1. cbn [snd] in Hq. apply (conn1_rdepth x c e Hx Hc Hci q Hq).
  - destruct c1 as [p e]. destruct (pr_added_inv d ncn km m Hwm Hfrag Hpw keys allocs names Hkeys Hplan x p e Hx Hc1)
      as [id [a [nm [g [w [Ht [_ [-> _]]]]]]]]. cbn [snd] in Hq. rewrite (fresh_no_refs id a nm Ht) in Hq. destruct Hq.
Qed.
End TotalModule.
