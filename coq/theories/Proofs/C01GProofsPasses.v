(* Proofs/C01GProofsPasses.v — BundleFlattener's model IS the path-based lowering:
     bp_wf d = true -> flat_design d = Ok d' -> d' = lower_m fl_impl d            (flat_design_is_lower)
   i.e. pairing the child's flattened ports with the parent side BY PATH (replace_bundle_conn_checked), resolving sub-bundle
   references in flattened scopes (resolve_ref), and flattening anonymous bundles (to_anon, flatten_anon) compute, for every
   member path q of a bundle-valued port, exactly what Base/C01BDesign.member says member q of the written connection is -
   under the names the passes themselves compute (fl_impl). *)
From Coq Require Import String.
Require Import Hdl21.Base.PyInt Hdl21.Spec.PySlice Hdl21.Model.Slice Hdl21.Model.Resolve Hdl21.Base.Design
               Hdl21.Spec.Nets Hdl21.Spec.WfDesign Hdl21.Base.C01BDesign Hdl21.Spec.C01BNets Hdl21.Spec.C01BWf Hdl21.Spec.C01BLower
               Hdl21.Spec.C01GLower Hdl21.Model.C01GBundlePasses
               Hdl21.Proofs.C01BProofs Hdl21.Proofs.C01BLowerProofs Hdl21.Proofs.C01EProofsBase
               Hdl21.Proofs.C01GProofsLower Hdl21.Proofs.C01GProofsAnon Hdl21.Proofs.C01GProofsScopes.
Require Hdl21.Spec.BundleSpec Hdl21.Model.BundleFlat Hdl21.Proofs.BundleProofs.
Open Scope Z_scope.

Notation scope := BundleSpec.scope.
Notation passoc := BundleSpec.passoc.
Notation fname := BundleSpec.fname.
Notation fwidth := BundleSpec.fwidth.
Notation bname := BundleSpec.bname.

(* ------------------------------------------------------------------------------------------------ *)
(* 0. general                                                                                        *)
(* ------------------------------------------------------------------------------------------------ *)
Section bexpr_ind'.
  Variable P : bexpr -> Prop.
  Hypothesis HSx : forall x, P (BXSx x).
  Hypothesis HInst : forall b pre, P (BXInst b pre).
  Hypothesis HAnon : forall ms, Forall (fun nb => P (snd nb)) ms -> P (BXAnon ms).
  Hypothesis HRef : forall i p, P (BXRef i p).
  Hypothesis HNc : forall s, P (BXNc s).
  Fixpoint bexpr_ind' (bx : bexpr) : P bx :=
    match bx with
    | BXSx x => HSx x
    | BXInst b pre => HInst b pre
    | BXAnon ms => HAnon ms ((fix go (l : list (name * bexpr)) : Forall (fun nb => P (snd nb)) l :=
                                match l with [] => Forall_nil _ | nb :: l' => Forall_cons _ (bexpr_ind' (snd nb)) (go l') end) ms)
    | BXRef i p => HRef i p
    | BXNc s => HNc s
    end.
End bexpr_ind'.

Lemma traverse_is_map {A B} (f : A -> result B) (g : A -> B) l r :
  traverse f l = Ok r -> (forall x y, In x l -> f x = Ok y -> y = g x) -> r = map g l.
Proof.
  revert r. induction l as [|x l IH]; intros r H Hg; cbn [traverse] in H; [inversion H; reflexivity|].
  destruct (f x) as [y|] eqn:E; cbn [bind] in H; [|discriminate]. destruct (traverse f l) as [ys|] eqn:E2; cbn [bind] in H; [|discriminate].
  inversion H; subst. cbn [map]. f_equal; [apply Hg; [left; reflexivity|exact E]|].
  apply IH; [reflexivity|]. intros x' y' Hin. apply Hg. right. exact Hin.
Qed.

Lemma traverse_concat_flat_map {A B} (f : A -> result (list B)) (g : A -> list B) l r :
  traverse f l = Ok r -> (forall x y, In x l -> f x = Ok y -> y = g x) -> concat r = flat_map g l.
Proof. intros H Hg. rewrite (traverse_is_map f g l r H Hg). rewrite flat_map_concat_map. reflexivity. Qed.

Lemma filter_all {A} (f : A -> bool) l : (forall x, In x l -> f x = true) -> filter f l = l.
Proof.
  induction l as [|x l IH]; intros H; [reflexivity|]. cbn [filter]. rewrite (H x) by (left; reflexivity). f_equal. apply IH.
  intros y Hy. apply H. right. exact Hy.
Qed.

Lemma filter_none {A} (f : A -> bool) l : (forall x, In x l -> f x = false) -> filter f l = [].
Proof.
  induction l as [|x l IH]; intros H; [reflexivity|]. cbn [filter]. rewrite (H x) by (left; reflexivity). apply IH.
  intros y Hy. apply H. right. exact Hy.
Qed.

Lemma all_ok_in {A} (f : A -> result unit) l x : all_ok f l = Ok tt -> In x l -> f x = Ok tt.
Proof.
  unfold all_ok. intros H Hin. apply bind_ok in H. destruct H as [r [Hr _]].
  destruct (traverse_In f l r x Hr Hin) as [[] [Hy _]]. exact Hy.
Qed.

Definition port_is (port : name) (it : sitem) : bool := String.eqb (fst (fst it)) port.

(* ------------------------------------------------------------------------------------------------ *)
(* 1. the scalar items of one port                                                                   *)
(* ------------------------------------------------------------------------------------------------ *)
Lemma scalar_items_cons n v ps : scalar_items ((n, v) :: ps) = (n, [], v) :: scalar_items ps.
Proof. reflexivity. Qed.

Lemma filter_scalar_items port w ps : NoDup (map fst ps) -> assoc port ps = Some w ->
  filter (port_is port) (scalar_items ps) = [(port, [], w)].
Proof.
  induction ps as [|[n v] ps IH]; intros ND H; [discriminate|]. cbn [map fst] in ND. inversion ND as [|? ? Hn ND']; subst.
  cbn [assoc] in H. rewrite scalar_items_cons. cbn [filter]. unfold port_is at 1. cbn [fst]. rewrite (String.eqb_sym n port).
  destruct (String.eqb port n) eqn:E.
  - apply String.eqb_eq in E. subst n. inversion H; subst. f_equal.
    apply filter_none. intros [[s q] v'] Hin. apply scalar_items_In in Hin. destruct Hin as [_ Hin]. unfold port_is. cbn [fst].
    destruct (String.eqb s port) eqn:E; [|reflexivity]. apply String.eqb_eq in E. subst s. exfalso. apply Hn.
    apply (in_map fst) in Hin. exact Hin.
  - apply IH; assumption.
Qed.

Lemma filter_scalar_none port ps : ~ In port (map fst ps) -> filter (port_is port) (scalar_items ps) = [].
Proof.
  intros Hn. apply filter_none. intros [[s q] v] Hin. apply scalar_items_In in Hin. destruct Hin as [_ Hin]. unfold port_is. cbn [fst].
  destruct (String.eqb s port) eqn:E; [|reflexivity]. apply String.eqb_eq in E. subst s. exfalso. apply Hn. apply (in_map fst) in Hin. exact Hin.
Qed.

Definition tree_items (port : name) (t : btree) : list sitem := map (fun qw : mpath * Z => (port, fst qw, snd qw)) (tree_members t).

Lemma filter_bundle_members port flag t l : NoDup (map (fun pt : bool * btree => bname (snd pt)) l) -> In (flag, t) l -> bname t = port ->
  filter (port_is port) (bundle_members flag l) = tree_items port t.
Proof.
  intros ND Hin Hb. subst port. unfold bundle_members. induction l as [|pt l IH]; [destruct Hin|].
  cbn [map] in ND. inversion ND as [|? ? Hn ND']; subst. cbn [map concat]. rewrite filter_app.
  destruct Hin as [->|Hin].
  - cbn [fst snd]. rewrite Bool.eqb_reflx. rewrite filter_all.
    2:{ intros it Hit. apply in_map_iff in Hit. destruct Hit as [qw [<- _]]. unfold port_is. cbn [fst]. apply String.eqb_refl. }
    match goal with |- _ ++ ?X = _ => assert (E0 : X = []); [apply filter_none|rewrite E0, app_nil_r; reflexivity] end.
    intros [[s q] v] Hit. change (In (s, q, v) (bundle_members flag l)) in Hit. apply bundle_members_In in Hit.
    destruct Hit as [t' [Ht' [Hs _]]]. unfold port_is. cbn [fst]. destruct (String.eqb s (bname t)) eqn:E; [|reflexivity].
    apply String.eqb_eq in E. exfalso. apply Hn. cbn [snd]. rewrite <- E, <- Hs.
    apply (in_map (fun pt : bool * btree => bname (snd pt))) in Ht'. exact Ht'.
  - match goal with |- ?X ++ _ = _ => assert (E0 : X = []); [apply filter_none|rewrite E0; apply IH; assumption] end.
    intros it Hit. destruct (Bool.eqb (fst pt) flag); [|destruct Hit]. apply in_map_iff in Hit. destruct Hit as [qw [<- _]].
    unfold port_is. cbn [fst]. destruct (String.eqb (bname (snd pt)) (bname t)) eqn:E; [|reflexivity]. apply String.eqb_eq in E.
    exfalso. apply Hn. rewrite E. apply (in_map (fun pt : bool * btree => bname (snd pt))) in Hin. exact Hin.
Qed.

Lemma filter_bundle_members_none port flag l : ~ In port (map (fun pt : bool * btree => bname (snd pt)) l) ->
  filter (port_is port) (bundle_members flag l) = [].
Proof.
  intros Hn. apply filter_none. intros [[s q] v] Hit. apply bundle_members_In in Hit. destruct Hit as [t' [Ht' [Hs _]]].
  unfold port_is. cbn [fst]. destruct (String.eqb s port) eqn:E; [|reflexivity]. apply String.eqb_eq in E. exfalso. apply Hn.
  rewrite <- E, <- Hs. apply (in_map (fun pt : bool * btree => bname (snd pt))) in Ht'. exact Ht'.
Qed.

(* ------------------------------------------------------------------------------------------------ *)
(* 2. well-formedness, unpacked                                                                      *)
(* ------------------------------------------------------------------------------------------------ *)
Lemma bp_wf_mod d c : bp_wf d = true -> In c (bd_mods d) ->
  NoDup (map fst (bm_ports c) ++ map (fun pt : bool * btree => bname (snd pt)) (bm_bundles c)) /\
  (forall pt, In pt (bm_bundles c) -> BundleSpec.wf_tree (snd pt) = true) /\
  (forall x, In x (bm_insts c) -> dev_names_ok x = true /\ forall cn, In cn (bi_conns x) -> bexpr_nodup (snd cn) = true).
Proof.
  unfold bp_wf. intros H Hin. rewrite forallb_forall in H. specialize (H c Hin). unfold bp_wf_module in H.
  apply andb_prop in H. destruct H as [H _]. apply andb_prop in H. destruct H as [H H3]. apply andb_prop in H. destruct H as [H1 H2]. split; [apply nodup_names_NoDup; exact H1|].
  split.
  - rewrite forallb_forall in H2. exact H2.
  - rewrite forallb_forall in H3. intros x Hx. specialize (H3 x Hx). apply andb_prop in H3. destruct H3 as [A B]. split; [exact A|].
    rewrite forallb_forall in B. exact B.
Qed.

Lemma NoDup_app_r {A} (a b : list A) : NoDup (a ++ b) -> NoDup b.
Proof. induction a as [|x a IH]; intros H; [exact H|]. inversion H; subst. apply IH. assumption. Qed.

Section Design.
Variable d : bdesign.
Hypothesis Hwf : bp_wf d = true.

Lemma nth_In k c : nth_error (bd_mods d) k = Some c -> In c (bd_mods d).
Proof. apply nth_error_In. Qed.

(* the items of a bundle-valued port of a child *)
Lemma port_items_bundle k c port tr : nth_error (bd_mods d) k = Some c -> find_bundle (bm_bundles c) port = Some (true, tr) ->
  port_items d (TMod k) port = tree_items port tr.
Proof.
  intros Hk Hf. destruct (bp_wf_mod d c Hwf (nth_In k c Hk)) as [ND _].
  destruct (find_bundle_In _ _ _ Hf) as [Hin Hn]. cbn [snd] in Hn.
  unfold port_items. cbn [target_sports_r]. rewrite Hk. unfold mod_sports_r. change (fun it : sitem => String.eqb (fst (fst it)) port) with (port_is port).
  rewrite filter_app. rewrite filter_scalar_none.
  - cbn [app]. apply (filter_bundle_members port true tr); [|apply in_rev in Hin; exact Hin|exact Hn].
    rewrite map_rev. apply NoDup_rev. eapply NoDup_app_r; eauto.
  - intros G. eapply (NoDup_app_disj _ _ port ND G). rewrite <- Hn. apply (in_map (fun pt : bool * btree => bname (snd pt))) in Hin. exact Hin.
Qed.

Lemma port_items_scalar_mod k c port w : nth_error (bd_mods d) k = Some c -> assoc port (bm_ports c) = Some w ->
  port_items d (TMod k) port = [(port, [], w)].
Proof.
  intros Hk Ha. destruct (bp_wf_mod d c Hwf (nth_In k c Hk)) as [ND _].
  unfold port_items. cbn [target_sports_r]. rewrite Hk. unfold mod_sports_r. change (fun it : sitem => String.eqb (fst (fst it)) port) with (port_is port).
  rewrite filter_app. rewrite (filter_scalar_items port w) by (eauto using NoDup_app_l).
  rewrite filter_bundle_members_none; [reflexivity|]. rewrite map_rev. intros G. apply in_rev in G.
  apply assoc_In_some in Ha. apply (in_map fst) in Ha. exact (NoDup_app_disj _ _ port ND Ha G).
Qed.

Lemma port_items_scalar_dev dev ps port w : nodup_names (map fst ps) = true -> assoc port ps = Some w ->
  port_items d (TDev dev ps) port = [(port, [], w)].
Proof.
  intros ND Ha. unfold port_items. cbn [target_sports_r]. change (fun it : sitem => String.eqb (fst (fst it)) port) with (port_is port).
  apply filter_scalar_items; [apply nodup_names_NoDup; exact ND|exact Ha].
Qed.

(* flat_bundle_ports of a child, unpacked *)
Lemma port_scope_spec t port (csc : scope) : port_scope d t port = Ok csc ->
  exists k c tr cscs, t = TMod k /\ nth_error (bd_mods d) k = Some c /\ find_bundle (bm_bundles c) port = Some (true, tr) /\
                      mscopes c = Ok cscs /\ assoc port cscs = Some csc /\ scope_for tr csc /\ BundleSpec.wf_tree tr = true /\
                      NoDup (map (fun pt : bool * btree => bname (snd pt)) (bm_bundles c)).
Proof.
  unfold port_scope. destruct t as [k|]; [|discriminate]. unfold nth_bmod. destruct (nth_error (bd_mods d) k) as [c|] eqn:Hk; cbn [ofopt bind]; [|discriminate].
  destruct (find_bundle (bm_bundles c) port) as [[[|] tr]|] eqn:Hf; try discriminate.
  destruct (mscopes c) as [cscs|] eqn:Hs; cbn [bind]; [|discriminate].
  destruct (assoc port cscs) as [sc|] eqn:Ha; cbn [ofopt]; [|discriminate]. intros H. inversion H; subst sc.
  destruct (bp_wf_mod d c Hwf (nth_In k c Hk)) as [ND [W _]]. apply NoDup_app_r in ND.
  destruct (own_find c cscs Hs W ND port (true, tr) csc Hf Ha) as [S Wt]. cbn [snd] in *.
  exists k, c, tr, cscs. repeat split; auto; apply S.
Qed.

(* the flat name of member q of a bundle-valued port, as the child names it *)
Lemma child_name k c port tr cscs (csc : scope) q f :
  nth_error (bd_mods d) k = Some c -> mscopes c = Ok cscs -> assoc port cscs = Some csc -> scope_for tr csc -> BundleSpec.wf_tree tr = true ->
  In (q, f) csc -> lname (tnm fl_impl d (TMod k)) port q = fname f.
Proof.
  intros Hk Hs Ha S Wt Hin. cbn [tnm]. rewrite Hk. rewrite (fl_impl_at c cscs Hs).
  pose proof (scope_for_nonempty _ _ _ _ S Hin) as Hq. destruct q as [|x q]; [exfalso; apply Hq; reflexivity|]. cbn [lname].
  apply (scope_name_at cscs port csc); [exact Ha|]. eapply scope_for_passoc; eauto.
Qed.

(* ------------------------------------------------------------------------------------------------ *)
(* 3. the parent side, by path                                                                       *)
(* ------------------------------------------------------------------------------------------------ *)
Section Module.
Variable m : bmodule.
Variable own : list (string * scope).
Hypothesis Hm : In m (bd_mods d).
Hypothesis Hown : mscopes m = Ok own.

Let W := proj1 (proj2 (bp_wf_mod d m Hwf Hm)).
Let ND := NoDup_app_r _ _ (proj1 (bp_wf_mod d m Hwf Hm)).

Definition pv_ok (t : mtarget) (v : pval) : Prop := exists w, v = mt_pval fl_impl d m (Ok t) w.

Lemma passoc_scope_pvals mk (sc : scope) q : passoc q (scope_pvals mk sc) = option_map (fun f => PLeaf (mk f) (fwidth f)) (passoc q sc).
Proof. induction sc as [|[p f] sc IH]; [reflexivity|]. cbn [scope_pvals map BundleSpec.passoc fst snd]. destruct (BundleSpec.path_eqb p q); [reflexivity|exact IH]. Qed.

Lemma passoc_subscope_nil {A} pre (sc : list (mpath * A)) : passoc [] (BundleFlat.subscope pre sc) = None.
Proof.
  induction sc as [|[p a] sc IH]; [reflexivity|]. cbn [BundleFlat.subscope]. destruct (BundleFlat.strip_prefix pre p) as [[|x r]|]; [exact IH| |exact IH].
  cbn [BundleSpec.passoc BundleSpec.path_eqb]. exact IH.
Qed.

Lemma own_name b (sc : scope) bt q f : find_bundle (bm_bundles m) b = Some bt -> assoc b own = Some sc -> passoc q sc = Some f ->
  q <> [] /\ lname (fl_impl m) b q = fname f.
Proof.
  intros Hf Ha Hp. destruct (own_find m own Hown W ND b bt sc Hf Ha) as [S _].
  pose proof (scope_for_passoc_in _ _ _ _ S Hp) as Hq. split; [exact Hq|]. destruct q as [|x q]; [exfalso; apply Hq; reflexivity|]. cbn [lname].
  rewrite (fl_impl_at m own Hown). apply (scope_name_at own b sc); assumption.
Qed.

(* resolve_ref: a Signal, or the scope below the reference *)
Lemma resolve_ref_sig b pre v : resolve_ref m own b pre = Ok (inl v) -> pv_ok (MTSig b (pre ++ [])) v.
Proof.
  unfold resolve_ref. destruct (find_bundle (bm_bundles m) b) as [bt|] eqn:Hf; cbn [ofopt bind]; [|discriminate].
  destruct (assoc b own) as [sc|] eqn:Ha; cbn [ofopt bind]; [|discriminate]. destruct pre as [|x pre]; [discriminate|].
  destruct (passoc (x :: pre) sc) as [f|] eqn:Hp; [|destruct (subtree (x :: pre) (snd bt)); discriminate].
  intros H. inversion H; subst v. exists (fwidth f). cbn [mt_pval mt_leaf_m]. unfold sig_leaf. rewrite app_nil_r.
  destruct (own_name b sc bt _ f Hf Ha Hp) as [_ En]. f_equal. f_equal. symmetry. exact En.
Qed.

Lemma resolve_ref_scope b pre sc q v : resolve_ref m own b pre = Ok (inr sc) -> passoc q sc = Some v -> pv_ok (MTSig b (pre ++ q)) v.
Proof.
  unfold resolve_ref. destruct (find_bundle (bm_bundles m) b) as [bt|] eqn:Hf; cbn [ofopt bind]; [|discriminate].
  destruct (assoc b own) as [sc0|] eqn:Ha; cbn [ofopt bind]; [|discriminate]. destruct pre as [|x pre].
  - intros H. inversion H; subst sc. rewrite passoc_scope_pvals. destruct (passoc q sc0) as [f|] eqn:Hp; [|discriminate].
    cbn [option_map]. intros E. inversion E; subst v. exists (fwidth f). cbn [mt_pval mt_leaf_m app]. unfold sig_leaf.
    destruct (own_name b sc0 bt q f Hf Ha Hp) as [_ En]. f_equal. f_equal. symmetry. exact En.
  - destruct (passoc (x :: pre) sc0) as [f|] eqn:Hp0; [discriminate|]. destruct (subtree (x :: pre) (snd bt)); [|discriminate].
    intros H. inversion H; subst sc. rewrite passoc_scope_pvals.
    destruct q as [|y q]; [rewrite passoc_subscope_nil; discriminate|].
    rewrite BundleProofs.subscope_passoc by discriminate.
    match goal with |- context [passoc ?pp sc0] => destruct (passoc pp sc0) as [f|] eqn:Hp; [|discriminate] end.
    cbn [option_map]. intros E. inversion E; subst v. exists (fwidth f). cbn [mt_pval mt_leaf_m]. unfold sig_leaf.
    destruct (own_name b sc0 bt _ f Hf Ha Hp) as [_ En]. f_equal. f_equal. symmetry. exact En.
Qed.

Lemma sibling_member i p sc q v : sibling_pvals d m i p = Ok sc -> passoc q sc = Some v -> pv_ok (MTRef i p q) v.
Proof.
  unfold sibling_pvals. destruct (find_binst (bm_insts m) i) as [y|] eqn:Hy; cbn [ofopt bind]; [|discriminate].
  destruct (port_scope d (bi_of y) p) as [csc|] eqn:Hps; cbn [bind]; [|discriminate].
  intros H. inversion H; subst sc. rewrite passoc_scope_pvals. destruct (passoc q csc) as [f|] eqn:Hp; [|discriminate].
  cbn [option_map]. intros E. inversion E; subst v. exists (fwidth f). cbn [mt_pval mt_leaf_m]. unfold inst_nm. rewrite Hy.
  destruct (port_scope_spec _ _ _ Hps) as [k [c [tr [cscs [Ht [Hk [Hf [Hs [Ha [S [Wt _]]]]]]]]]]]. rewrite Ht.
  rewrite (child_name k c p tr cscs csc q f Hk Hs Ha S Wt (BundleProofs.passoc_In _ _ _ Hp)). reflexivity.
Qed.

Definition to_anon_list : list (name * bexpr) -> result (list (string * BundleFlat.anon pval)) :=
  fix go (l : list (name * bexpr)) : result (list (string * BundleFlat.anon pval)) :=
    match l with
    | [] => Ok []
    | (n, sub) :: r => a <- to_anon d m own sub ;; r' <- go r ;; Ok ((n, a) :: r')
    end.

Lemma to_anon_BXAnon ms : to_anon d m own (BXAnon ms) = (ms' <- to_anon_list ms ;; Ok (BundleFlat.AAnon ms')).
Proof. reflexivity. Qed.

Definition member_go (n : name) (rest : mpath) : list (name * bexpr) -> result mtarget :=
  fix go (l : list (name * bexpr)) : result mtarget :=
    match l with
    | [] => Error EMissing
    | (n', sub) :: l' => if String.eqb n n' then member sub rest else go l'
    end.

Lemma member_BXAnon ms n rest : member (BXAnon ms) (n :: rest) = member_go n rest ms.
Proof. reflexivity. Qed.

(* navigating the flattened anonymous bundle = navigating the written one *)
Lemma to_anon_member bx : forall a, to_anon d m own bx = Ok a ->
  forall q v, anon_lookup a q = Some v -> exists t, member bx q = Ok t /\ pv_ok t v.
Proof.
  induction bx as [cx|b pre|ms IH|i p|s] using bexpr_ind'; intros a H q v Hl.
  - cbn [to_anon] in H. destruct (bis_nc m cx); [discriminate|]. inversion H; subst a. destruct q; [|discriminate]. cbn [anon_lookup] in Hl. inversion Hl; subst v.
    exists (MTSx cx). split; [reflexivity|]. exists 0. reflexivity.
  - cbn [to_anon] in H. destruct (resolve_ref m own b pre) as [[v0|sc]|] eqn:Hr; cbn [bind] in H; [| |discriminate]; inversion H; subst a.
    + destruct q; [|discriminate]. cbn [anon_lookup] in Hl. inversion Hl; subst v. exists (MTSig b (pre ++ [])). split; [reflexivity|].
      apply resolve_ref_sig. exact Hr.
    + cbn [anon_lookup] in Hl. exists (MTSig b (pre ++ q)). split; [reflexivity|]. eapply resolve_ref_scope; eauto.
  - rewrite to_anon_BXAnon in H. destruct (to_anon_list ms) as [ms'|] eqn:Hms; cbn [bind] in H; [|discriminate]. inversion H; subst a.
    destruct q as [|n rest]; [discriminate|]. rewrite anon_lookup_AAnon in Hl. rewrite member_BXAnon.
    clear H. revert ms' Hms Hl. induction IH as [|[n' sub] l Hsub _ IHl]; intros ms' Hms Hl; cbn [to_anon_list] in Hms.
    + inversion Hms; subst ms'. discriminate.
    + destruct (to_anon d m own sub) as [asub|] eqn:Ea; cbn [bind] in Hms; [|discriminate].
      destruct (to_anon_list l) as [r'|] eqn:Er; cbn [bind] in Hms; [|discriminate]. inversion Hms; subst ms'.
      cbn [al_go member_go] in *. destruct (String.eqb n n'); [apply (Hsub asub Ea rest v Hl)|apply (IHl r' eq_refl Hl)].
  - cbn [to_anon] in H. destruct (sibling_pvals d m i p) as [sc|] eqn:Hs; cbn [bind] in H; [|discriminate]. inversion H; subst a.
    cbn [anon_lookup] in Hl. exists (MTRef i p q). split; [reflexivity|]. eapply sibling_member; eauto.
  - discriminate.
Qed.

Lemma to_anon_nodup bx : bexpr_nodup bx = true -> forall a, to_anon d m own bx = Ok a -> anon_nodup a = true.
Proof.
  induction bx as [cx|b pre|ms IH|i p|s] using bexpr_ind'; intros N a H.
  - cbn [to_anon] in H. destruct (bis_nc m cx); [discriminate|]. inversion H. reflexivity.
  - cbn [to_anon] in H. destruct (resolve_ref m own b pre) as [[v0|sc]|]; cbn [bind] in H; [| |discriminate]; inversion H; reflexivity.
  - rewrite to_anon_BXAnon in H. destruct (to_anon_list ms) as [ms'|] eqn:Hms; cbn [bind] in H; [|discriminate]. inversion H; subst a.
    cbn [bexpr_nodup] in N. apply andb_prop in N. destruct N as [N1 N2]. cbn [anon_nodup]. apply andb_true_intro. split.
    + assert (E : map fst ms' = map fst ms).
      { clear N1 N2 IH H. revert ms' Hms. induction ms as [|[n sub] l IHl]; intros ms' Hms; cbn [to_anon_list] in Hms; [inversion Hms; reflexivity|].
        destruct (to_anon d m own sub); cbn [bind] in Hms; [|discriminate]. destruct (to_anon_list l) as [r'|]; cbn [bind] in Hms; [|discriminate].
        inversion Hms. cbn [map fst]. f_equal. apply IHl. reflexivity. }
      refine (eq_trans _ N1). f_equal. exact E.
    + clear N1 H. revert ms' Hms N2. induction IH as [|[n sub] l Hsub _ IHl]; intros ms' Hms N2; cbn [to_anon_list] in Hms.
      * inversion Hms. reflexivity.
      * destruct (to_anon d m own sub) as [asub|] eqn:Ea; cbn [bind] in Hms; [|discriminate].
        destruct (to_anon_list l) as [r'|] eqn:Er; cbn [bind] in Hms; [|discriminate]. inversion Hms; subst ms'.
        apply andb_prop in N2. destruct N2 as [Na Nb]. apply andb_true_intro. split; [apply (Hsub Na asub Ea)|apply (IHl r' eq_refl Nb)].
  - cbn [to_anon] in H. destruct (sibling_pvals d m i p); cbn [bind] in H; [|discriminate]. inversion H. reflexivity.
  - discriminate.
Qed.

(* the parent side of a connection to a bundle-valued port: member q of the written connection *)
Lemma parent_map_member (csc : scope) bx pm q v : bexpr_nodup bx = true -> parent_map d m own csc bx = Ok pm -> passoc q pm = Some v ->
  exists t, member bx q = Ok t /\ pv_ok t v.
Proof.
  intros N H Hp.
  assert (G : forall a, to_anon d m own bx = Ok a -> BundleFlat.flatten_anon a = Ok pm -> exists t, member bx q = Ok t /\ pv_ok t v).
  { intros a Ha Hfl. rewrite (flatten_anon_lookup pval a (to_anon_nodup bx N a Ha) pm Hfl q) in Hp. eapply to_anon_member; eauto. }
  destruct bx as [cx|b pre|ms|i p|s]; cbn [parent_map] in H;
    try (apply bind_ok in H; destruct H as [a [Ha Hfl]]; exact (G a Ha Hfl)).
  inversion H; subst pm. rewrite passoc_scope_pvals in Hp. destruct (passoc q csc) as [f|]; [|discriminate]. cbn [option_map] in Hp.
  inversion Hp; subst v. exists MTNc. split; [reflexivity|]. exists (fwidth f). reflexivity.
Qed.

(* ------------------------------------------------------------------------------------------------ *)
(* 4. one connection, one instance                                                                   *)
(* ------------------------------------------------------------------------------------------------ *)
Lemma pv_ok_width t v w : pv_ok t v -> (forall lf w', v = PLeaf lf w' -> w' = w) -> v = mt_pval fl_impl d m (Ok t) w.
Proof.
  intros [w0 ->] Hw. destruct t as [b q|cx|i p q|]; cbn [mt_pval] in *; try reflexivity; f_equal; eapply Hw; reflexivity.
Qed.

Lemma flat_conn_is_lower x c cs : dev_names_ok x = true -> bexpr_nodup (snd c) = true ->
  flat_conn d m own x c = Ok cs -> cs = lower_conn fl_impl d m x c.
Proof.
  intros Hdev N H. destruct c as [port bx]. cbn [fst snd] in *. unfold flat_conn in H. cbn [fst snd] in H.
  destruct (port_kind_of d (bi_of x) port) as [[w|tp]|] eqn:Hpk; cbn [bind] in H; [| |discriminate].
  - (* a scalar port *)
    assert (Hitems : port_items d (bi_of x) port = [(port, [], w)]).
    { unfold port_kind_of in Hpk. destruct (bi_of x) as [k|dev ps] eqn:Hof.
      - unfold nth_bmod in Hpk. destruct (nth_error (bd_mods d) k) as [c|] eqn:Hk; cbn [ofopt bind] in Hpk; [|discriminate].
        destruct (assoc port (bm_ports c)) as [w'|] eqn:Ha.
        + inversion Hpk; subst w'. eapply port_items_scalar_mod; eauto.
        + destruct (find_bundle (bm_bundles c) port) as [[[|] t]|]; discriminate.
      - destruct (assoc port ps) as [w'|] eqn:Ha; cbn [ofopt bind] in Hpk; [|discriminate]. inversion Hpk; subst w'.
        unfold dev_names_ok in Hdev. rewrite Hof in Hdev. apply port_items_scalar_dev; assumption. }
    unfold lower_conn. cbn [fst snd]. rewrite Hitems. cbn [map skey fst snd lname].
    destruct bx as [cx|b pre|ms|i p|s]; try discriminate.
    + inversion H. reflexivity.
    + destruct (resolve_ref m own b pre) as [[[cx|lf w']|sc]|] eqn:Hr; cbn [bind] in H; try discriminate.
      destruct (w' =? w) eqn:Ew; cbn [check bind] in H; [|discriminate]. inversion H; subst cs. apply Z.eqb_eq in Ew. subst w'.
      cbn [member]. f_equal. f_equal. apply pv_ok_width; [apply resolve_ref_sig; exact Hr|]. intros lf' w'' E. inversion E. reflexivity.
  - (* a bundle-valued port *)
    destruct (port_scope d (bi_of x) port) as [csc|] eqn:Hps; cbn [bind] in H; [|discriminate].
    destruct (parent_map d m own csc bx) as [pm|] eqn:Hpm; cbn [bind] in H; [|discriminate].
    destruct (BundleFlat.replace_bundle_conn_checked csc pm) as [cs0|] eqn:Hrc; cbn [bind] in H; [|discriminate].
    destruct (conn_widths csc pm) as [[]|] eqn:Hcw; cbn [bind] in H; [|discriminate]. inversion H; subst cs0.
    destruct (port_scope_spec _ _ _ Hps) as [k [c [tr [cscs [Ht [Hk [Hf [Hs [Ha [S [Wt _]]]]]]]]]]].
    unfold lower_conn. cbn [fst snd]. rewrite Ht. rewrite (port_items_bundle k c port tr Hk Hf). unfold tree_items.
    rewrite (scope_for_members tr csc S), !map_map. cbn [fst snd skey].
    apply BundleProofs.replace_bundle_conn_checked_ok in Hrc. destruct Hrc as [Hrc _].
    apply BundleProofs.replace_bundle_conn_spec in Hrc.
    clear H.
    assert (G : forall (l : scope) (cs' : list (name * pval)), (forall e, In e l -> In e csc) ->
                Forall2 (fun (e : BundleSpec.path * fsig) (c : String.string * pval) => fst c = fname (snd e) /\ passoc (fst e) pm = Some (snd c)) l cs' ->
                cs' = map (fun x0 : mpath * fsig => (skey (tnm fl_impl d (TMod k)) (port, fst x0, fwidth (snd x0)),
                                                     mt_pval fl_impl d m (member bx (fst x0)) (fwidth (snd x0)))) l).
    { induction l as [|[q f] l IHl]; intros cs' Hsub F2; inversion F2 as [|? [n v] ? cs'' [Hn Hp] Hrest]; subst; [reflexivity|].
      cbn [map fst snd skey] in *. f_equal; [|apply IHl; auto; intros e He; apply Hsub; right; exact He].
      subst n. assert (Hin : In (q, f) csc) by (apply Hsub; left; reflexivity). f_equal.
      - symmetry. eapply child_name; eauto.
      - destruct (parent_map_member csc bx pm q v N Hpm Hp) as [t [Hmem Hpv]]. rewrite Hmem. apply pv_ok_width; [exact Hpv|].
        intros lf w' E. subst v. pose proof (all_ok_in _ _ (q, f) Hcw Hin) as Hc. cbn [fst snd] in Hc. rewrite Hp in Hc.
        unfold check in Hc. destruct (w' =? fwidth f) eqn:Ew; [|discriminate]. apply Z.eqb_eq in Ew. exact Ew. }
    apply (G csc cs (fun e He => He) Hrc).
Qed.

Lemma flat_xinst_is_lower x xi : In x (bm_insts m) -> flat_xinst d m own x = Ok xi -> xi = lower_xinst fl_impl d m x.
Proof.
  intros Hx H. unfold flat_xinst in H. apply bind_ok in H. destruct H as [css [Hc H]]. inversion H; subst xi. unfold lower_xinst. f_equal.
  destruct (proj2 (proj2 (bp_wf_mod d m Hwf Hm)) x Hx) as [Hdev Hnd].
  apply (traverse_concat_flat_map _ _ _ _ Hc). intros c cs Hin Hfc. apply flat_conn_is_lower; auto.
Qed.
End Module.

(* ------------------------------------------------------------------------------------------------ *)
(* 5. modules, the design                                                                            *)
(* ------------------------------------------------------------------------------------------------ *)
Lemma flat_module_is_lower m lm : In m (bd_mods d) -> flat_module d m = Ok lm -> lm = lower_m_module fl_impl d m.
Proof.
  intros Hm H. unfold flat_module in H. apply bind_ok in H. destruct H as [own [Hown H]]. apply bind_ok in H. destruct H as [xs [Hxs H]].
  inversion H; subst lm. unfold lower_m_module. rewrite (fl_impl_at m own Hown).
  destruct (bp_wf_mod d m Hwf Hm) as [ND [W _]]. pose proof (NoDup_app_r _ _ ND) as NDb.
  rewrite (traverse_is_map _ (lower_xinst fl_impl d m) _ _ Hxs) by (intros x xi Hx Hfx; eapply flat_xinst_is_lower; eauto).
  unfold mod_sports_r, mod_ssigs_r, lower_sigs. rewrite !map_app. fold (lower_sigs (scope_name own) (scalar_items (bm_ports m))).
  fold (lower_sigs (scope_name own) (scalar_items (bm_sigs m))). rewrite !(lower_sigs_scalar (scope_name own)).
  fold (lower_sigs (scope_name own) (bundle_members true (rev (bm_bundles m)))). fold (lower_sigs (scope_name own) (bundle_members false (rev (bm_bundles m)))).
  rewrite <- !(flat_sigs_lower m own Hown W NDb). reflexivity.
Qed.
End Design.

Theorem flat_design_is_lower d d' : bp_wf d = true -> flat_design d = Ok d' -> d' = lower_m fl_impl d.
Proof.
  intros Hwf H. unfold flat_design in H. apply bind_ok in H. destruct H as [ms [Hms H]]. inversion H; subst d'. unfold lower_m. f_equal.
  apply (traverse_is_map _ _ _ _ Hms). intros m lm Hm Hfm. eapply flat_module_is_lower; eauto.
Qed.
