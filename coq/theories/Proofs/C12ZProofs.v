(* Proofs/C12ZProofs.v — lemmas of the C12 strengthening round (Model/C12ZCanon.v). *)
Require Import Hdl21.Base.PyInt Hdl21.Spec.BundleSpec Hdl21.Model.BundleFlat Hdl21.Model.C12ZCanon Hdl21.Proofs.C12Proofs.
From Coq Require Import String Ascii Permutation Sorting.Sorted.
Open Scope string_scope.
Open Scope list_scope.
Open Scope Z_scope.

Definition sle (a b : string) : Prop := String.leb a b = true.

(* ---------------------------------------------------------------- sorting strings *)
Lemma sins_perm x l : Permutation (sins x l) (x :: l).
Proof.
  induction l as [|y t IH]; cbn [sins]; [apply Permutation_refl|].
  destruct (String.leb x y); [apply Permutation_refl|].
  eapply Permutation_trans; [apply perm_skip, IH | apply perm_swap].
Qed.

Lemma ssort_perm l : Permutation (ssort l) l.
Proof.
  induction l as [|x t IH]; cbn [ssort]; [constructor|].
  eapply Permutation_trans; [apply sins_perm | apply perm_skip, IH].
Qed.

Lemma sins_sorted x l : StronglySorted sle l -> StronglySorted sle (sins x l).
Proof.
  induction l as [|y t IH]; intros H; cbn [sins].
  - constructor; constructor.
  - inversion H as [|? ? Ht Hy]; subst.
    destruct (String.leb x y) eqn:E.
    + constructor; [exact H|]. constructor; [exact E|].
      eapply Forall_impl; [|exact Hy]. intros z Hz. exact (sleb_trans _ _ _ E Hz).
    + constructor; [exact (IH Ht)|].
      assert (Hyx : sle y x).
      { destruct (String.leb_total x y) as [H1|H1]; [rewrite H1 in E; discriminate | exact H1]. }
      apply (Permutation_Forall (Permutation_sym (sins_perm x t))). constructor; assumption.
Qed.

Lemma ssort_sorted l : StronglySorted sle (ssort l).
Proof. induction l as [|x t IH]; cbn [ssort]; [constructor | apply sins_sorted, IH]. Qed.

Lemma sorted_perm_eq : forall l1 l2,
  StronglySorted sle l1 -> StronglySorted sle l2 -> Permutation l1 l2 -> l1 = l2.
Proof.
  induction l1 as [|a t1 IH]; intros l2 S1 S2 P.
  - apply Permutation_nil in P. symmetry. exact P.
  - destruct l2 as [|b t2]; [apply Permutation_sym, Permutation_nil in P; discriminate|].
    inversion S1 as [|? ? St1 Ha]; subst. inversion S2 as [|? ? St2 Hb]; subst.
    assert (Hab : a = b).
    { assert (Ia : In a (b :: t2)) by (apply (Permutation_in _ P); left; reflexivity).
      assert (Ib : In b (a :: t1)) by (apply (Permutation_in _ (Permutation_sym P)); left; reflexivity).
      destruct Ia as [->|Ia]; [reflexivity|]. destruct Ib as [->|Ib]; [reflexivity|].
      rewrite Forall_forall in Ha, Hb.
      exact (String.leb_antisym _ _ (Ha _ Ib) (Hb _ Ia)). }
    subst b. f_equal. apply IH; try assumption. exact (Permutation_cons_inv P).
Qed.

Lemma ssort_perm_eq l1 l2 : Permutation l1 l2 -> ssort l1 = ssort l2.
Proof.
  intros P. apply sorted_perm_eq; try apply ssort_sorted.
  eapply Permutation_trans; [apply ssort_perm|]. eapply Permutation_trans; [exact P|]. apply Permutation_sym, ssort_perm.
Qed.

(* ---------------------------------------------------------------- naming text *)
Lemma jtext_set_perm l1 l2 : Permutation (map jtext l1) (map jtext l2) -> jtext (PSet l1) = jtext (PSet l2).
Proof. intros P. cbn [jtext]. rewrite (ssort_perm_eq _ _ P). reflexivity. Qed.

Lemma jtext_peq : forall v w, peq v w -> jtext v = jtext w.
Proof.
  apply (peq_mut (fun v w _ => jtext v = jtext w) (fun l1 l2 _ => map jtext l1 = map jtext l2)).
  - reflexivity.
  - reflexivity.
  - intros l1 l2 _ H. cbn [jtext]. rewrite H. reflexivity.
  - intros l1 l2 l3 _ H P. apply jtext_set_perm. rewrite H. apply Permutation_map. exact P.
  - reflexivity.
  - intros v w l1 l2 _ Hv _ Hl. cbn [map]. rewrite Hv, Hl. reflexivity.
Qed.

Lemma peq_refl_all : forall v, peq v v.
Proof.
  fix IH 1. intros [t|s|l|l].
  - constructor.
  - constructor.
  - constructor. induction l as [|x t IHl]; constructor; [apply IH | exact IHl].
  - apply (pe_set l l l); [|apply Permutation_refl]. induction l as [|x t IHl]; constructor; [apply IH | exact IHl].
Qed.

(* ---------------------------------------------------------------- the PDK registry *)
Lemma smem_In x l : smem x l = true <-> In x l.
Proof.
  induction l as [|y t IH]; cbn [smem]; [split; [discriminate | intros []]|].
  rewrite Bool.orb_true_iff, IH, String.eqb_eq. split; (intros [H|H]; [left; exact H | right; exact H]).
Qed.

Lemma smem_perm x l1 l2 : Permutation l1 l2 -> smem x l1 = smem x l2.
Proof.
  intros P. destruct (smem x l1) eqn:E1, (smem x l2) eqn:E2; try reflexivity.
  - apply smem_In in E1. apply (Permutation_in _ P), smem_In in E1. congruence.
  - apply smem_In in E2. apply (Permutation_in _ (Permutation_sym P)), smem_In in E2. congruence.
Qed.

Lemma default_of_sim a b : reg_sim a b -> default_of a = default_of b.
Proof.
  intros [Hd Hp]. unfold default_of. rewrite Hd. destruct (rdefault b); [reflexivity|].
  destruct (rmods a) as [|x [|y t]] eqn:Ea.
  - apply Permutation_nil in Hp. rewrite Hp. reflexivity.
  - apply Permutation_length_1_inv in Hp. rewrite Hp. reflexivity.
  - pose proof (Permutation_length Hp) as L. destruct (rmods b) as [|x' [|y' t']]; try discriminate. reflexivity.
Qed.

Lemma reg_op_sim a b o : reg_sim a b ->
  snd (reg_op default_of a o) = snd (reg_op default_of b o) /\
  reg_sim (fst (reg_op default_of a o)) (fst (reg_op default_of b o)).
Proof.
  intros S. pose proof S as [Hd Hp]. destruct o as [m|m|[m|]|m]; cbn [reg_op].
  - rewrite (smem_perm m _ _ Hp). destruct (smem m (rmods b)); cbn [fst snd]; [split; [reflexivity | exact S]|].
    split; [reflexivity|]. split; cbn [rdefault rmods]; [exact Hd | apply Permutation_app_tail; exact Hp].
  - rewrite (smem_perm m _ _ Hp). destruct (smem m (rmods b)); cbn [fst snd]; split; try reflexivity; try exact S.
    split; cbn [rdefault rmods]; [reflexivity | exact Hp].
  - rewrite (smem_perm m _ _ Hp). destruct (smem m (rmods b)); cbn [fst snd]; split; try reflexivity; exact S.
  - rewrite (default_of_sim _ _ S). destruct (default_of b); cbn [fst snd]; split; try reflexivity; exact S.
  - rewrite (smem_perm m _ _ Hp). destruct (smem m (rmods b)); cbn [fst snd]; [split; [reflexivity | exact S]|].
    split; [reflexivity|]. split; cbn [rdefault rmods]; [exact Hd | apply Permutation_app_tail; exact Hp].
Qed.

Lemma reg_run_sim ops : forall a b, reg_sim a b -> reg_run default_of a ops = reg_run default_of b ops.
Proof.
  induction ops as [|o t IH]; intros a b S; cbn [reg_run]; [reflexivity|].
  destruct (reg_op_sim a b o S) as [Ho Hs].
  destruct (reg_op default_of a o) as [ra oa], (reg_op default_of b o) as [rb ob]. cbn [fst snd] in Ho, Hs.
  rewrite Ho, (IH _ _ Hs). reflexivity.
Qed.

(* ---------------------------------------------------------------- flatname: a function of the avoided names as a set *)
Lemma smem_ext name a1 a2 : (forall x, In x a1 <-> In x a2) -> smem name a1 = smem name a2.
Proof.
  intros H. destruct (smem name a1) eqn:E1, (smem name a2) eqn:E2; try reflexivity.
  - apply smem_In, H, smem_In in E1. congruence.
  - apply smem_In, H, smem_In in E2. congruence.
Qed.

Lemma flatname_loop_ext fuel : forall name a1 a2 maxlen, (forall x, In x a1 <-> In x a2) ->
  flatname_loop fuel name a1 maxlen = flatname_loop fuel name a2 maxlen.
Proof.
  induction fuel as [|f IH]; intros name a1 a2 maxlen H; cbn [flatname_loop]; [reflexivity|].
  rewrite (smem_ext name a1 a2 H), (IH _ a1 a2 maxlen H). reflexivity.
Qed.
