(* Proofs/C08Sweep.v — the sweep of fix C08-4 (ElabPass.modules_below, Model/C08PassFail.v `below`):
   the depth-first walk reaches, within the model's recursion bound, every module below the tops; a call that succeeds has
   therefore completed every pass of its list on every module of its design, and what the exporter lists lies inside it. *)
Require Import Hdl21.Base.PyInt Hdl21.Model.C08PassFail Hdl21.Proofs.C08Proofs Hdl21.Proofs.C08Fuel.
Open Scope list_scope.
Local Open Scope nat_scope.

Lemma memn_In x l : memn x l = true <-> In x l.
Proof.
  unfold memn. rewrite existsb_exists. split.
  - intros (y & Hy & E). apply Nat.eqb_eq in E. subst. exact Hy.
  - intros H. exists x. split; [exact H | apply Nat.eqb_refl].
Qed.

Lemma filter_drop (g h : nat -> bool) m : forall l, NoDup l -> In m l -> g m = true -> h m = false ->
  (forall x, h x = true -> g x = true) -> length (filter h l) < length (filter g l).
Proof.
  induction l as [|y l IH]; intros ND Hin Hg Hh Hsub; [destruct Hin|]. inversion ND as [|? ? Hny ND']; subst.
  assert (Hle : forall l', length (filter h l') <= length (filter g l')).
  { induction l' as [|z l' IH']; cbn; [lia|]. destruct (h z) eqn:E1.
    - rewrite (Hsub z E1). cbn. lia.
    - destruct (g z); cbn; lia. }
  destruct Hin as [->|Hin].
  - cbn. rewrite Hg, Hh. cbn. specialize (Hle l). lia.
  - specialize (IH ND' Hin Hg Hh Hsub). cbn. destruct (h y) eqn:E1.
    + rewrite (Hsub y E1). cbn. lia.
    + destruct (g y); cbn; lia.
Qed.

Section Dfs.
Variable kids : nat -> option (list nat).
Variable U : list nat.
Hypothesis HU : NoDup U.
Hypothesis HK : forall m cs, kids m = Some cs -> In m U.

Definition unseen (seen : list nat) : nat := length (filter (fun x => negb (memn x seen)) U).

Lemma filter_le (g h : nat -> bool) : (forall x, h x = true -> g x = true) ->
  forall l, length (filter h l) <= length (filter g l).
Proof.
  intros Hs. induction l as [|z l IH]; cbn; [lia|]. destruct (h z) eqn:E1.
  - rewrite (Hs z E1). cbn. lia.
  - destruct (g z); cbn; lia.
Qed.

Lemma unseen_mono a b : incl a b -> unseen b <= unseen a.
Proof.
  intros H. apply filter_le. intros x Hx. apply negb_true_iff in Hx. apply negb_true_iff.
  destruct (memn x a) eqn:E; [|reflexivity]. apply memn_In in E. apply H in E. apply memn_In in E. congruence.
Qed.

Lemma unseen_cons m seen : memn m seen = false -> In m U -> unseen (m :: seen) < unseen seen.
Proof.
  intros H1 H2. apply (filter_drop _ _ m U HU H2).
  - rewrite H1. reflexivity.
  - unfold memn. cbn [existsb]. rewrite Nat.eqb_refl. reflexivity.
  - intros x Hx. apply negb_true_iff in Hx. apply negb_true_iff. unfold memn in *. cbn [existsb] in Hx.
    apply orb_false_iff in Hx. apply Hx.
Qed.

(* x has all its children inside seen *)
Definition closed_in (seen : list nat) (x : nat) : Prop := forall cs c, kids x = Some cs -> In c cs -> In c seen.
(* every walked module is either still being walked (in A) or has all its children walked *)
Definition dinv (A seen : list nat) : Prop := forall x, In x seen -> In x A \/ closed_in seen x.

Lemma closed_in_mono a b x : incl a b -> closed_in a x -> closed_in b x.
Proof. intros H C cs c E Hc. apply H. apply (C cs c E Hc). Qed.

Lemma dinv_mono_step A seen m : dinv A seen -> dinv (m :: A) (m :: seen).
Proof.
  intros D x [<-|Hx]; [left; left; reflexivity|]. destruct (D x Hx) as [H|H]; [left; right; exact H|].
  right. apply (closed_in_mono seen); [intros z Hz; right; exact Hz | exact H].
Qed.

Definition Post (seen : list nat) (m : nat) (seen' : list nat) : Prop :=
  incl seen seen' /\ In m seen' /\ forall A, dinv A seen -> dinv A seen'.

Lemma fold_post k :
  (forall seen m, unseen seen < k -> Post seen m (reach_step kids k seen m)) ->
  forall cs seen, unseen seen < k ->
    incl seen (fold_left (reach_step kids k) cs seen) /\ (forall c, In c cs -> In c (fold_left (reach_step kids k) cs seen)) /\
    forall A, dinv A seen -> dinv A (fold_left (reach_step kids k) cs seen).
Proof.
  intros Hv. induction cs as [|c cs IH]; intros seen Hs; cbn [fold_left].
  - split; [apply incl_refl|]. split; [intros c []|]. intros A D. exact D.
  - destruct (Hv seen c Hs) as (P1 & P2 & P3).
    assert (Hs1 : unseen (reach_step kids k seen c) < k) by (pose proof (unseen_mono _ _ P1); lia).
    destruct (IH _ Hs1) as (Q1 & Q2 & Q3).
    split; [intros z Hz; apply Q1, P1, Hz|]. split.
    + intros c' [<-|Hc']; [apply Q1; exact P2 | apply Q2; exact Hc'].
    + intros A D. apply Q3, P3, D.
Qed.

Lemma reach_step_post : forall k seen m, unseen seen < k -> Post seen m (reach_step kids k seen m).
Proof.
  induction k as [|k IH]; intros seen m Hs; [lia|]. cbn [reach_step].
  destruct (memn m seen) eqn:EM.
  { split; [apply incl_refl|]. split; [apply memn_In; exact EM|]. intros A D. exact D. }
  destruct (kids m) as [cs|] eqn:EK.
  - pose proof (unseen_cons m seen EM (HK m cs EK)) as Hlt.
    assert (Hs1 : unseen (m :: seen) < k) by lia.
    destruct (fold_post k IH cs (m :: seen) Hs1) as (Q1 & Q2 & Q3).
    split; [intros z Hz; apply Q1; right; exact Hz|]. split; [apply Q1; left; reflexivity|].
    intros A D x Hx. destruct (Q3 (m :: A) (dinv_mono_step A seen m D) x Hx) as [[<-|H]|H].
    + right. intros cs' c E Hc. rewrite EK in E. inversion E; subst cs'. apply Q2. exact Hc.
    + left. exact H.
    + right. exact H.
  - split; [intros z Hz; right; exact Hz|]. split; [left; reflexivity|].
    intros A D x [<-|Hx].
    + right. intros cs' c E. rewrite EK in E. discriminate.
    + destruct (D x Hx) as [H|H]; [left; exact H|]. right.
      apply (closed_in_mono seen); [intros z Hz; right; exact Hz | exact H].
Qed.

(* the whole walk: from the empty set over all tops *)
Lemma walk_closed k tops : length U < k ->
  let r := fold_left (reach_step kids k) tops [] in
  (forall t, In t tops -> In t r) /\ forall x, In x r -> closed_in r x.
Proof.
  intros Hk r.
  assert (Hs : unseen [] < k).
  { unfold unseen. pose proof (filter_le (fun _ => true) (fun x => negb (memn x [])) (fun _ _ => eq_refl) U) as H.
    assert (E : length (filter (fun _ : nat => true) U) = length U).
    { clear. induction U as [|y l IH]; cbn; [reflexivity | rewrite IH; reflexivity]. }
    lia. }
  destruct (fold_post k (reach_step_post k) tops [] Hs) as (_ & Q2 & Q3).
  split; [exact Q2|]. intros x Hx.
  destruct (Q3 [] (fun z (F : In z []) => match F with end) x Hx) as [[]|H]. exact H.
Qed.
End Dfs.

(* ------------------------------------------------------------------ for a call *)
Lemma reach_closed c :
  (forall t, In t (c_tops c) -> In t (reach c)) /\
  forall x cs ch, In x (reach c) -> assoc_kids (c_kids c) x = Some cs -> In ch cs -> In ch (reach c).
Proof.
  set (l := c_kids c). set (U := nodup Nat.eq_dec (map fst l)).
  assert (HU : NoDup U) by apply NoDup_nodup.
  assert (HK : forall m cs, assoc_kids l m = Some cs -> In m U).
  { intros m cs H. apply nodup_In. apply (assoc_kids_in _ _ _ H). }
  assert (HL : length U < call_fuel c).
  { unfold call_fuel. fold l. pose proof (nodup_length (map fst l)). rewrite map_length in *. unfold U. lia. }
  destruct (walk_closed (assoc_kids l) U HU HK (call_fuel c) (c_tops c) HL) as [W1 W2].
  split; [exact W1|]. intros x cs ch Hx E Hc. apply (W2 x Hx cs ch E Hc).
Qed.

Lemma reach_in_starts c m : In m (reach c) ->
  In m (starts repaired (assoc_kids (c_kids c)) (call_fuel c) (c_tops c)).
Proof.
  intros H. unfold starts. cbn [repaired sweep]. apply in_or_app. right. unfold below. apply in_rev in H. exact H.
Qed.

(* a call that succeeds has completed every pass of its list on every module of its design *)
Lemma success_completes s c : snd (fst (do_call repaired s c)) = None ->
  forall p m, In p (c_passes c) -> In m (reach c) ->
    memp (pid p, m) (done (fst (fst (do_call repaired s c)))) = true /\
    rec_of m (failed (fst (fst (do_call repaired s c)))) = None.
Proof.
  intros H p m Hp Hm. rewrite do_call_state. unfold run_passes.
  destruct (run_passes_on repaired (assoc_kids (c_kids c)) (assoc_fail (c_fail c)) (call_fuel c) (c_passes c)
              (starts repaired (assoc_kids (c_kids c)) (call_fuel c) (c_tops c)) s) as [s1 r1] eqn:E.
  assert (R : r1 = None).
  { unfold do_call, export, run_passes in H. rewrite E in H. destruct (c_export c); destruct r1; cbn in H; congruence. }
  subst r1. cbn [fst]. apply (run_passes_ok _ _ _ _ _ _ _ E p m Hp (reach_in_starts c m Hm)).
Qed.

(* what the exporter lists lies inside the design *)
Lemma xvisit_in_reach c s : forall fuel acc m acc' r,
  xvisit repaired (assoc_kids (c_kids c)) s fuel acc m = (acc', r) ->
  incl acc (reach c) -> In m (reach c) -> incl acc' (reach c).
Proof.
  destruct (reach_closed c) as [_ RC].
  induction fuel as [|k IH]; intros acc m acc' r H Ha Hm; cbn [xvisit] in H.
  - inversion H; subst. exact Ha.
  - destruct (memn m acc). { inversion H; subst. exact Ha. }
    cbn [repaired sticky] in H. destruct (rec_of m (failed s)). { inversion H; subst. exact Ha. }
    destruct (assoc_kids (c_kids c) m) as [cs|] eqn:EK. 2:{ inversion H; subst. exact Ha. }
    assert (HF : forall cs0 acc0 acc1 r1, (forall ch, In ch cs0 -> In ch (reach c)) ->
                 fold_x (xvisit repaired (assoc_kids (c_kids c)) s k) acc0 cs0 = (acc1, r1) -> incl acc0 (reach c) -> incl acc1 (reach c)).
    { induction cs0 as [|ch cs0 IHc]; intros acc0 acc1 r1 Hcs HX Ha0; cbn [fold_x] in HX.
      - inversion HX; subst. exact Ha0.
      - destruct (xvisit repaired (assoc_kids (c_kids c)) s k acc0 ch) as [a1 r2] eqn:EX.
        pose proof (IH _ _ _ _ EX Ha0 (Hcs ch (or_introl eq_refl))) as H1.
        destruct r2; [inversion HX; subst; exact H1|].
        apply (IHc _ _ _ (fun z Hz => Hcs z (or_intror Hz)) HX H1). }
    destruct (fold_x (xvisit repaired (assoc_kids (c_kids c)) s k) acc cs) as [a1 r1] eqn:EF.
    pose proof (HF cs acc a1 r1 (fun ch Hc => RC m cs ch Hm EK Hc) EF Ha) as H1.
    destruct r1; inversion H; subst; [exact H1|].
    intros z Hz. apply in_app_or in Hz. destruct Hz as [Hz|[<-|[]]]; [apply H1; exact Hz | exact Hm].
Qed.

Lemma exported_in_reach s c m : In m (snd (do_call repaired s c)) -> In m (reach c).
Proof.
  destruct (reach_closed c) as [RT _]. unfold do_call. destruct (c_export c); [|intros []]. unfold export.
  destruct (run_passes repaired (assoc_kids (c_kids c)) (assoc_fail (c_fail c)) (call_fuel c) (c_passes c) (c_tops c) s) as [s1 [e|]];
    [intros []|].
  assert (HF : forall ts acc acc1 r1, (forall t, In t ts -> In t (reach c)) ->
               fold_x (xvisit repaired (assoc_kids (c_kids c)) s1 (call_fuel c)) acc ts = (acc1, r1) -> incl acc (reach c) -> incl acc1 (reach c)).
  { induction ts as [|t ts IHt]; intros acc acc1 r1 Hts HX Ha; cbn [fold_x] in HX.
    - inversion HX; subst. exact Ha.
    - destruct (xvisit repaired (assoc_kids (c_kids c)) s1 (call_fuel c) acc t) as [a1 r2] eqn:EX.
      pose proof (xvisit_in_reach c s1 _ _ _ _ _ EX Ha (Hts t (or_introl eq_refl))) as H1.
      destruct r2; [inversion HX; subst; exact H1|].
      apply (IHt _ _ _ (fun z Hz => Hts z (or_intror Hz)) HX H1). }
  destruct (fold_x (xvisit repaired (assoc_kids (c_kids c)) s1 (call_fuel c)) [] (c_tops c)) as [a [e|]] eqn:EF; cbn [snd]; [intros []|].
  intros Hm. apply (HF _ _ _ _ RT EF (fun z (F : In z []) => match F with end) m Hm).
Qed.

(* every module of a returned package has been completed by every pass of the call's list and carries no record *)
Lemma exported_completed s c m p : In m (snd (do_call repaired s c)) -> In p (c_passes c) ->
  memp (pid p, m) (done (fst (fst (do_call repaired s c)))) = true /\
  rec_of m (failed (fst (fst (do_call repaired s c)))) = None.
Proof.
  intros Hm Hp. apply success_completes; [|exact Hp | apply (exported_in_reach s c m Hm)].
  unfold do_call in *. destruct (c_export c); [|destruct Hm]. unfold export in *.
  destruct (run_passes repaired (assoc_kids (c_kids c)) (assoc_fail (c_fail c)) (call_fuel c) (c_passes c) (c_tops c) s) as [s1 [e|]];
    [destruct Hm|].
  destruct (fold_x (xvisit repaired (assoc_kids (c_kids c)) s1 (call_fuel c)) [] (c_tops c)) as [a [e|]]; [destruct Hm | reflexivity].
Qed.
