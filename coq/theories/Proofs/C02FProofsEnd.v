(* Proofs/C02FProofsEnd.v — composition for the checked pipeline over the C01F per-module functions (Model/C02FPipeline.v):
     arr_generic           what ArrayFlattener ; SliceResolver ; PostFlattenConnTypes say about an array of ANY module;
     reject_complete2_reach  whatever the pipeline accepts is valid module by module, its top index exists and the names
                           of the modules BELOW THE TOP MODULE are pairwise distinct (no `all_used` hypothesis);
     reject_complete2      with `all_used`: wf_design d = Ok tt;
     accepts_valid2        a valid design of C01F's fragment (frag_ok2) is accepted, or refused through flatname's limit;
     pipeline2_agrees      on designs whose references and no-connects are whole connections (C02E's frag_conns) the two
                           checked pipelines are the same function, errors included. *)
From Coq Require Import String.
Require Import Hdl21.Base.PyInt Hdl21.Spec.PySlice Hdl21.Model.Slice Hdl21.Model.Resolve Hdl21.Base.Design
               Hdl21.Spec.Nets Hdl21.Spec.WfDesign Hdl21.Spec.C01ENets Hdl21.Spec.C01FNets Hdl21.Base.Package Hdl21.Base.PrimTable
               Hdl21.Model.Checks Hdl21.Model.C02Checks Hdl21.Model.Arrays Hdl21.Model.C01EElab Hdl21.Model.C01FElab
               Hdl21.Model.C02EPipeline Hdl21.Model.C02FPipeline
               Hdl21.Proofs.ResolveProofs Hdl21.Proofs.ChecksProofs Hdl21.Proofs.C02Proofs
               Hdl21.Proofs.C01EProofsBase Hdl21.Proofs.C01EProofsPass Hdl21.Proofs.C01EProofsWfs Hdl21.Proofs.C01EProofsNames
               Hdl21.Proofs.C01EProofsDfs Hdl21.Proofs.C01EProofsArrays
               Hdl21.Proofs.C01EProofsSlices Hdl21.Proofs.C01EProofsExport Hdl21.Proofs.C01EProofsEnd
               Hdl21.Proofs.C02EProofsBase Hdl21.Proofs.C02EProofsPortRefs Hdl21.Proofs.C02EProofsArrays Hdl21.Proofs.C02EProofsNames
               Hdl21.Proofs.C02EProofsEnd Hdl21.Proofs.C02EProofsAccept
               Hdl21.Proofs.C01FProofsPlan Hdl21.Proofs.C01FProofsPortRefs Hdl21.Proofs.C01FProofsPortRefsD
               Hdl21.Proofs.C01FProofsReparent Hdl21.Proofs.C01FProofsReparentD Hdl21.Proofs.C01FProofsEnd
               Hdl21.Proofs.C02FProofsReparent Hdl21.Proofs.C02FProofsPortRefs.
Open Scope Z_scope.

(* ------------------------------------------------------------------------------------------ the extended ResolvePortRefs, taken apart *)
Lemma portrefs2_module_inv d ncn m m2 : portrefs2_module d ncn m = Ok m2 ->
  exists keys allocs names insts1, all_keys d m = Ok keys /\ plan d ncn m keys (seeds2 m) [] = Ok allocs /\
    alloc_names (map a_base allocs) (namespace m) = Ok names /\
    Forall2 (fun x x1 => rewrite_inst m keys (number_allocs (combine allocs names) (next_leaf m)) x = Ok x1) (m_insts m) insts1 /\
    Forall2 (fun x1 x2 => reparent_inst (m1 m allocs names insts1) (ref_fuel keys) x1 = Ok x2) insts1 (m_insts m2) /\
    m_name m2 = m_name m /\ m_ports m2 = m_ports m /\ m_leaves m2 = m_leaves (m1 m allocs names insts1).
Proof.
  unfold portrefs2_module. intros H. apply bind_ok in H. destruct H as [km [Hkm Hrp]].
  destruct (portrefs1_module_inv _ _ _ _ Hkm) as [keys [allocs [names [insts1 [H1 [H2 [H3 [H4 ->]]]]]]]]. cbn [fst snd] in Hrp.
  destruct (reparent_module_inv _ _ _ Hrp) as [Hn [Hp [_ [Hl F]]]]. exists keys, allocs, names, insts1.
  split; [exact H1|]. split; [exact H2|]. split; [exact H3|]. split; [exact H4|]. split; [exact F|]. auto.
Qed.

Lemma portrefs2_ports_keep d ncn : forall m m', portrefs2_module d ncn m = Ok m' -> m_ports m' = m_ports m.
Proof. intros m m' H. destruct (portrefs2_module_inv _ _ _ _ H) as [? [? [? [? [_ [_ [_ [_ [_ [_ [Hp _]]]]]]]]]]]. exact Hp. Qed.

Lemma Forall2_comp {A B C} (R : A -> B -> Prop) (S : B -> C -> Prop) (T : A -> C -> Prop) :
  (forall a b c, R a b -> S b c -> T a c) -> forall l1 l2 l3, Forall2 R l1 l2 -> Forall2 S l2 l3 -> Forall2 T l1 l3.
Proof.
  intros H l1 l2 l3 F. revert l3. induction F as [|a b l1 l2 Hab _ IH]; intros l3 G; inversion G; subst; constructor; eauto.
Qed.

Lemma portrefs2_targets d ncn m m' : portrefs2_module d ncn m = Ok m' -> same_targets m m'.
Proof.
  intros H. destruct (portrefs2_module_inv _ _ _ _ H) as [keys [allocs [names [insts1 [_ [_ [_ [F1 [F2 _]]]]]]]]].
  apply same_targets_Forall2. apply (Forall2_comp _ _ _ (fun x x1 x2 Hr1 Hr2 =>
    eq_trans (proj1 (proj2 (proj2 (reparent_inst_inv _ _ _ _ Hr2)))) (proj1 (proj2 (proj2 (rewrite_inst_inv _ _ _ _ _ _ Hr1))))) _ _ _ F1 F2).
Qed.

Lemma elab2_same_hier xi d d1 d2 d3 : portrefs2_design xi d = Ok d1 -> arrays_design d1 = Ok d2 -> slices_design d2 = Ok d3 -> same_hier d d3.
Proof.
  intros H1 H2 H3. eapply same_hier_trans; [|eapply same_hier_trans].
  - apply (map_modules_same_hier _ _ _ H1). intros m m' E. split; [eapply portrefs2_module_name; exact E|eapply portrefs2_targets; exact E].
  - apply (map_modules_same_hier _ _ _ H2). intros m m' E. split; [|eapply arrays_targets; exact E].
    destruct (arrays_module_inv _ _ _ E) as [_ [_ [_ [_ [Hn _]]]]]. exact Hn.
  - apply (map_modules_same_hier _ _ _ H3). intros m m' E. split; [|eapply slices_targets; exact E].
    apply slices_module_inv in E. tauto.
Qed.

(* ------------------------------------------------------------------------------------------ an instance array of ANY module *)
Section ArrGeneric.
Variables (d tp1 tp3 : design) (mA mB mC : module).
Hypothesis Htp1 : forall t, target_ports tp1 t = target_ports d t.
Hypothesis Htp3 : forall t, target_ports tp3 t = target_ports d t.
Hypothesis Harr : arrays_module tp1 mA = Ok mB.
Hypothesis Hsl : slices_module mB = Ok mC.
Hypothesis Hct3 : forall x3, In x3 (m_insts mC) -> conntypes_inst tp3 mC x3 = Ok tt.

Lemma arr_generic xA ports : In xA (m_insts mA) -> single xA = false -> target_ports d (i_of xA) = Ok ports ->
  nodup_names (map fst ports) = true ->
  (forall c, In c (i_conns xA) -> exists w cw, assoc (fst c) ports = Some w /\ xwidth (snd c) = Ok cw /\ (cw = w \/ cw = i_n xA * w)) /\
  (forall pw, In pw ports -> assoc (fst pw) (i_conns xA) <> None).
Proof.
  intros Hx Hs Hp Hnd.
  destruct (arrays_module_inv _ _ _ Harr) as [tbl [new [Ht [Hnew [_ [_ [_ [_ Hi]]]]]]]].
  pose proof (array_names_lengths _ _ _ Ht) as Hlen.
  assert (In xA (dissolved mA)) as Hd by (apply dissolved_In; split; [exact Hx|exact Hs]).
  destruct (combine_In_l _ tbl xA (Forall2_length' _ _ _ Hlen) Hd) as [nms Hpair].
  pose proof (Forall2_combine_In _ _ _ _ _ Hlen Hpair) as Hl. cbv beta in Hl.
  destruct (traverse_In _ _ _ _ Hnew Hpair) as [els [Hex Hels]].
  unfold expand_array in Hex. cbn [fst snd] in Hex. apply bind_ok in Hex. destruct Hex as [ps [Hps Hex]].
  rewrite Htp1, Hp in Hps. inversion Hps; subst ps.
  assert (0 < i_n xA) as Hpos by (unfold single in Hs; lia).
  destruct (Z.to_nat (i_n xA)) as [|n'] eqn:En; [lia|]. destruct nms as [|nm nms']; [discriminate|].
  cbn [iota combine traverse] in Hex. apply bind_ok in Hex. destruct Hex as [el [Hel Hex]]. apply bind_ok in Hex. destruct Hex as [rest [_ Hex]].
  inversion Hex; subst els.
  assert (In el (m_insts mB)) as Helin.
  { rewrite Hi. apply in_or_app. right. apply in_concat. exists (el :: rest). split; [exact Hels|left; reflexivity]. }
  destruct (elem_inst_inv _ _ _ _ _ Hel) as [_ [Hn0 [Hoe Fe]]].
  split.
  - intros c Hc. destruct (Forall2_In_l _ _ _ _ Fe Hc) as [c' [_ [_ [w [Hw Ha]]]]]. cbn [fst snd] in *.
    unfold array_elem_conn in Ha. apply bind_ok in Ha. destruct Ha as [cw [Hcw Ha]]. exists w, cw. split; [exact Hw|]. split; [exact Hcw|].
    destruct (cw =? w) eqn:E1; [left; lia|]. destruct (cw =? i_n xA * w) eqn:E2; [right; lia|discriminate].
  - destruct (slices_module_inv _ _ Hsl) as [_ [_ [_ [_ [_ Fs]]]]].
    destruct (Forall2_In_l _ _ _ el Fs Helin) as [el3 [Hel3 Hsi]]. destruct (slices_inst_inv _ _ Hsi) as [_ [Hn3 [Ho3 Fcs]]].
    pose proof (Hct3 el3 Hel3) as H. unfold conntypes_inst in H.
    assert (single el3 = true) as Hs3 by (unfold single; rewrite Hn3, Hn0; reflexivity).
    rewrite Hs3, Htp3, Ho3, Hoe, Hp in H. cbn [bind] in H. apply bind_ok in H. destruct H as [cws [Hcw H]]. apply check_ok in H.
    destruct (check_instance_sound ports cws Hnd H) as [A _].
    destruct (ct_widths_assoc _ _ _ Hcw) as [Hk _].
    intros pw Hpw Hnone.
    assert (assoc (fst pw) ports = Some (snd pw)) as Hpa.
    { apply assoc_nodup_In'; [apply nodup_names_NoDup; exact Hnd|destruct pw; exact Hpw]. }
    pose proof (A _ _ Hpa) as Hc. assert (In (fst pw) (map fst cws)) as Hin by (apply in_fst_assoc; eauto).
    rewrite Hk in Hin. rewrite <- (Forall2_map_eq _ fst fst _ _ Fcs (fun a b E => eq_sym (slices_conn_fst a b E))) in Hin.
    rewrite <- (Forall2_map_eq _ fst fst _ _ Fe (fun a b E => eq_sym (proj1 E))) in Hin.
    apply (assoc_None_notin _ _ Hnone). exact Hin.
Qed.
End ArrGeneric.

(* ------------------------------------------------------------------------------------------ the pipeline, taken apart *)
Lemma checked_pipeline2_inv xi d p : checked_pipeline2 xi d = Ok p ->
  exists d1 d2 d3, build_design d = Ok tt /\ hier_design d = Ok tt /\ orphanage_design d = Ok tt /\ portrefs2_design xi d = Ok d1 /\
    conntypes_design d1 = Ok tt /\ arrays_design d1 = Ok d2 /\ slices_design d2 = Ok d3 /\
    conntypes_design d3 = Ok tt /\ orphanage_design d3 = Ok tt /\ mark_design d3 = Ok tt /\ export_model xi d3 = Ok p.
Proof.
  unfold checked_pipeline2, checked_elab2. intros H. apply bind_ok in H. destruct H as [d3' [H Hex]].
  apply bind_ok in H. destruct H as [u0 [H0 H]].
  apply bind_ok in H. destruct H as [u1 [H1 H]]. apply bind_ok in H. destruct H as [u2 [H2 H]]. apply bind_ok in H. destruct H as [d1 [H3 H]].
  apply bind_ok in H. destruct H as [u4 [H4 H]]. apply bind_ok in H. destruct H as [d2 [H5 H]]. apply bind_ok in H. destruct H as [d3 [H6 H]].
  apply bind_ok in H. destruct H as [u7 [H7 H]]. apply bind_ok in H. destruct H as [u8 [H8 H]]. apply bind_ok in H. destruct H as [u9 [H9 H]].
  inversion H; subst d3'. destruct u0, u1, u2, u4, u7, u8, u9. exists d1, d2, d3. auto 14.
Qed.

Lemma checked_pipeline2_elab xi d p : checked_pipeline2 xi d = Ok p -> elab_export_model2 xi d = Ok p.
Proof.
  intros H. destruct (checked_pipeline2_inv xi d p H) as [d1 [d2 [d3 [_ [_ [_ [H1 [_ [H2 [H3 [_ [_ [_ Hex]]]]]]]]]]]]].
  unfold elab_export_model2, elab_model2. rewrite H1. cbn [bind]. rewrite H2. cbn [bind]. rewrite H3. cbn [bind]. exact Hex.
Qed.

Lemma checked_run2_pipeline xi d : snd (checked_run2 xi d) = checked_pipeline2 xi d.
Proof.
  unfold checked_run2, checked_pipeline2, checked_elab2.
  destruct (build_design d) as [[]|e]; cbn [bind snd]; [|reflexivity].
  destruct (hier_design d) as [[]|e]; cbn [bind snd]; [|reflexivity].
  destruct (orphanage_design d) as [[]|e]; cbn [bind snd]; [|reflexivity].
  destruct (portrefs2_design xi d) as [d1|e]; cbn [bind snd]; [|reflexivity].
  destruct (conntypes_design d1) as [[]|e]; cbn [bind snd]; [|reflexivity].
  destruct (arrays_design d1) as [d2|e]; cbn [bind snd]; [|reflexivity].
  destruct (slices_design d2) as [d3|e]; cbn [bind snd]; [|reflexivity].
  destruct (conntypes_design d3) as [[]|e]; cbn [bind snd]; [|reflexivity].
  destruct (orphanage_design d3) as [[]|e]; cbn [bind snd]; [|reflexivity].
  destruct (mark_design d3) as [[]|e]; cbn [bind snd]; [|reflexivity].
  destruct (export_model xi d3) as [p|e]; reflexivity.
Qed.

Lemma checked_run2_done xi d : fst (checked_run2 xi d) = SOf SDone <-> exists p, checked_pipeline2 xi d = Ok p.
Proof.
  rewrite <- checked_run2_pipeline. unfold checked_run2.
  destruct (build_design d) as [u0|e]; [|split; [discriminate|intros [p H]; discriminate]].
  destruct (_ <- hier_design d ;; orphanage_design d) as [u|e]; [|split; [discriminate|intros [p H]; discriminate]].
  destruct (portrefs2_design xi d) as [d1|e]; [|split; [discriminate|intros [p H]; discriminate]].
  destruct (conntypes_design d1) as [u1|e]; [|split; [discriminate|intros [p H]; discriminate]].
  destruct (arrays_design d1) as [d2|e]; [|split; [discriminate|intros [p H]; discriminate]].
  destruct (slices_design d2) as [d3|e]; [|split; [discriminate|intros [p H]; discriminate]].
  destruct (conntypes_design d3) as [u3|e]; [|split; [discriminate|intros [p H]; discriminate]].
  destruct (orphanage_design d3) as [u4|e]; [|split; [discriminate|intros [p H]; discriminate]].
  destruct (mark_design d3) as [u5|e]; [|split; [discriminate|intros [p H]; discriminate]].
  destruct (export_model xi d3) as [p|e]; [split; [intros _; exists p; reflexivity|reflexivity]|split; [discriminate|intros [p H]; discriminate]].
Qed.

(* ------------------------------------------------------------------------------------------ reject-completeness *)
Section RejectComplete2.
Variables (xi : xinfo) (d d1 d2 d3 : design).
Hypothesis G : given_e d = true.
Hypothesis Ff : frag_f d = true.
Hypothesis Hbuild : build_design d = Ok tt.
Hypothesis Hhier : hier_design d = Ok tt.
Hypothesis Horph : orphanage_design d = Ok tt.
Hypothesis H1 : portrefs2_design xi d = Ok d1.
Hypothesis Hct1 : conntypes_design d1 = Ok tt.
Hypothesis H2 : arrays_design d1 = Ok d2.
Hypothesis H3 : slices_design d2 = Ok d3.
Hypothesis Hct3 : conntypes_design d3 = Ok tt.

Lemma rc2_tp1 t : target_ports d1 t = target_ports d t.
Proof. apply (target_ports_same _ _ _ t H1). intros m m' E. eapply portrefs2_ports_keep. exact E. Qed.

Lemma rc2_tp3 t : target_ports d3 t = target_ports d t.
Proof.
  rewrite <- rc2_tp1. transitivity (target_ports d2 t).
  - apply (target_ports_same _ _ _ t H3). intros m m' E. apply slices_module_inv in E. tauto.
  - apply (target_ports_same _ _ _ t H2). intros m m' E. destruct (arrays_module_inv _ _ _ E) as [_ [_ [_ [_ [_ [Hp _]]]]]]. exact Hp.
Qed.

Lemma rc2_module k m : nth_error (d_mods d) k = Some m ->
  negb (String.eqb (m_name m) "") = true -> wf_module d k m = Ok tt.
Proof.
  intros Hk Hname.
  unfold given_e in G. apply andb_prop in G. destruct G as [G0 Ge]. unfold given in G0. rewrite forallb_forall in G0, Ge.
  pose proof (G0 m (nth_error_In _ _ Hk)) as Gm. pose proof (Ge m (nth_error_In _ _ Hk)) as Gem.
  unfold given_module in Gm. apply andb_prop in Gm. destruct Gm as [Gm Gi]. apply andb_prop in Gm. destruct Gm as [Gns Gw].
  rewrite forallb_forall in Gi, Gem.
  unfold frag_f in Ff. rewrite forallb_forall in Ff. pose proof (Ff m (nth_error_In _ _ Hk)) as Fm. rewrite forallb_forall in Fm.
  assert (NoDup (map i_name (m_insts m))) as Gnames.
  { apply nodup_names_NoDup in Gns. apply NoDup_app_r in Gns. apply NoDup_app_r in Gns. exact Gns. }
  assert (forall x, In x (m_insts m) -> NoDup (map fst (i_conns x))) as Gconns.
  { intros x Hx. specialize (Gi x Hx). unfold given_inst in Gi. apply andb_prop in Gi. destruct Gi as [Gi _]. apply andb_prop in Gi.
    apply nodup_names_NoDup. tauto. }
  assert (forall x ports, In x (m_insts m) -> target_ports d (i_of x) = Ok ports -> nodup_names (map fst ports) = true) as Gports.
  { intros x ports Hx Hp. specialize (Gi x Hx). unfold given_inst in Gi. apply andb_prop in Gi. destruct Gi as [Gi _]. apply andb_prop in Gi.
    destruct Gi as [_ Gi]. rewrite Hp in Gi. exact Gi. }
  assert (forall x ports pw, In x (m_insts m) -> target_ports d (i_of x) = Ok ports -> In pw ports -> 1 <= snd pw) as Gpos.
  { intros x ports pw Hx Hp Hpw. specialize (Gem x Hx). unfold given_inst_e in Gem. apply andb_prop in Gem. destruct Gem as [Gem _].
    rewrite Hp in Gem. rewrite forallb_forall in Gem. specialize (Gem pw Hpw). lia. }
  assert (forall x c lw, In x (m_insts m) -> In c (i_conns x) -> In lw (sx_leaves (snd c)) -> annot_ok m lw = true) as Gsig.
  { intros x c lw Hx Hc Hl. specialize (Gi x Hx). unfold given_inst in Gi. apply andb_prop in Gi. destruct Gi as [_ Gi].
    rewrite forallb_forall in Gi. specialize (Gi c Hc). rewrite forallb_forall in Gi. apply Gi. exact Hl. }
  assert (forall x c lw, In x (m_insts m) -> In c (i_conns x) -> In lw (sx_leaves (snd c)) -> ref_annot_ok d m lw = true) as Gref.
  { intros x c lw Hx Hc Hl. specialize (Gem x Hx). unfold given_inst_e in Gem. apply andb_prop in Gem. destruct Gem as [_ Gem].
    rewrite forallb_forall in Gem. specialize (Gem c Hc). rewrite forallb_forall in Gem. apply Gem. exact Hl. }
  assert (forall x c lw, In x (m_insts m) -> In c (i_conns x) -> In lw (sx_leaves (snd c)) -> ref_single m lw = true) as Fsingle.
  { intros x c lw Hx Hc Hl. specialize (Fm x Hx). rewrite forallb_forall in Fm. specialize (Fm c Hc). rewrite forallb_forall in Fm. apply Fm. exact Hl. }
  (* the passes on this module *)
  pose proof (each_module_nth _ _ _ _ Hbuild Hk) as Hbm.
  pose proof (each_module_nth _ _ _ _ Hhier Hk) as Hhm. pose proof (each_module_nth _ _ _ _ Horph Hk) as Hom.
  destruct (map_modules_nth _ _ _ _ _ H1 (proj2 (nth_mod_nth _ _ _) Hk)) as [m1' [Hk1 Hpm]].
  destruct (portrefs2_module_inv _ _ _ _ Hpm) as [keys [allocs [names [insts1 [Hkeys [Hplan [Hnames [Hins [Hrp [_ [_ Hlv]]]]]]]]]]].
  apply nth_mod_nth in Hk1. pose proof (each_module_nth _ _ _ _ Hct1 Hk1) as Hc1. unfold conntypes_check in Hc1.
  assert (forall x2, In x2 (m_insts m1') -> conntypes_inst d m1' x2 = Ok tt) as Hct.
  { intros x2 Hx2. rewrite <- (conntypes_inst_ext d d1 _ x2 rc2_tp1). apply (all_ok_In _ _ x2 Hc1). exact Hx2. }
  destruct (map_modules_nth _ _ _ _ _ H2 (proj2 (nth_mod_nth _ _ _) Hk1)) as [mB [Hk2 Ham]].
  destruct (map_modules_nth _ _ _ _ _ H3 Hk2) as [mC [Hk3 Hsm]].
  apply nth_mod_nth in Hk3. pose proof (each_module_nth _ _ _ _ Hct3 Hk3) as Hc3. unfold conntypes_check in Hc3.
  (* wf_module *)
  unfold wf_module. rewrite Hname, Gns, Gw. cbn [check bind]. apply all_ok_intro. intros x Hx.
  destruct (single x) eqn:Hs.
  - apply (single_inst_wf2 d (ncnames xi m) k m keys allocs names insts1 (m_insts m1') m1' Gnames Gconns Gports Gpos Gsig Gref Fsingle
             Hbm Hom Hkeys Hplan Hins Hrp Hct x Hhm Hx Hs).
  - destruct (chain m keys allocs names insts1 (m_insts m1') Gnames Hins Hrp x Hx) as [x1 [x2 [Hx1 [Hx2 [Hr1 [Hr2 _]]]]]].
    destruct (rewrite_inst_inv _ _ _ _ _ _ Hr1) as [_ [Hn1 [Ho1 [cs [Hcs Fc]]]]]. destruct (reparent_inst_inv _ _ _ _ Hr2) as [_ [Hn2 [Ho2 Frp]]].
    rewrite (added_conns_array _ x Hs), app_nil_r in Hcs. subst cs.
    assert (single x2 = false) as Hs2 by (unfold single in *; rewrite Hn2, Hn1; exact Hs).
    assert (exists ports, target_ports d (i_of x) = Ok ports) as [ports Hp].
    { destruct (arrays_module_inv _ _ _ Ham) as [tbl [new [Ht [Hnew _]]]].
      pose proof (array_names_lengths _ _ _ Ht) as Hlen.
      assert (In x2 (dissolved m1')) as Hd by (apply dissolved_In; split; [exact Hx2|exact Hs2]).
      destruct (combine_In_l _ tbl x2 (Forall2_length' _ _ _ Hlen) Hd) as [nms Hpair].
      destruct (traverse_In _ _ _ _ Hnew Hpair) as [els [Hex _]]. unfold expand_array in Hex. cbn [fst snd] in Hex.
      apply bind_ok in Hex. destruct Hex as [ps [Hps _]]. rewrite rc2_tp1, Ho2, Ho1 in Hps. eauto. }
    assert (target_ports d (i_of x2) = Ok ports) as Hp2 by (rewrite Ho2, Ho1; exact Hp).
    destruct (arr_generic d d1 d3 m1' mB mC rc2_tp1 rc2_tp3 Ham Hsm (fun x3 Hx3 => all_ok_In _ _ x3 Hc3 Hx3) x2 ports Hx2 Hs2 Hp2
                (Gports x ports Hx Hp)) as [A B].
    assert (forall a b, rewrite_conn m keys (number_allocs (combine allocs names) (next_leaf m)) x a = Ok b -> fst a = fst b) as Hfst
      by (intros a b E; symmetry; eapply rewrite_conn_fst; exact E).
    assert (forall a b : name * sx, fst b = fst a /\ reparent (m1 m allocs names insts1) (ref_fuel keys) (snd a) = Ok (snd b) -> fst a = fst b) as Hfst2
      by (intros a b [E _]; auto).
    apply (array_inst_wf2 d (ncnames xi m) k m keys allocs names insts1 (m_insts m1') m1' Gnames Gconns Gports Gpos Gsig Gref Fsingle
             Hbm Hom Hkeys Hplan Hins Hrp Hct x ports Hhm Hx Hs Hp).
    + intros c e e2 Hc He He2. destruct (Forall2_In_l _ _ _ c Fc Hc) as [cc1 [Hcc1 Hrc]].
      assert (cc1 = (fst c, e)) as -> by (pose proof (eq_trans (eq_sym Hrc) He) as X; inversion X; reflexivity).
      destruct (Forall2_In_l _ _ _ _ Frp Hcc1) as [c2 [Hc2 [Hf2 Hre]]]. cbn [fst snd] in Hf2, Hre. rewrite He2 in Hre. inversion Hre as [Hre'].
      destruct (A c2 Hc2) as [w [cw [Hw [Hcw Hcase]]]]. exists w, cw. rewrite Hn2, Hn1 in Hcase. rewrite Hf2 in Hw. auto.
    + intros pw Hpw Hnone. apply (B pw Hpw).
      apply (assoc_same_keys (i_conns x1) (i_conns x2) (fst pw) (Forall2_map_eq _ fst fst _ _ Frp Hfst2)).
      apply (assoc_same_keys (i_conns x) (i_conns x1) (fst pw) (Forall2_map_eq _ fst fst _ _ Fc Hfst)). exact Hnone.
Qed.
End RejectComplete2.

(* the modules below the top module are the same in designs with the same instantiation structure *)
Lemma reach_same d d' k : same_hier d d' -> reach d k -> reach d' k.
Proof.
  intros [T [L [_ S]]] H. induction H as [|j k m x _ IH Hj Hx Ho].
  - rewrite <- T. apply reach_top.
  - destruct (nth_error (d_mods d') j) as [m'|] eqn:E.
    + destruct (proj1 (S j m m' Hj E (TMod k)) (ex_intro _ x (conj Hx Ho))) as [x' [Hx' Ho']]. eapply reach_child; eassumption.
    + exfalso. apply nth_error_None in E. assert (j < Datatypes.length (d_mods d))%nat by (apply nth_error_Some; congruence). lia.
Qed.

(* the exporter saw every module below the top one: their names are pairwise distinct *)
Theorem export_names_reach xi d p : hier_ok d -> export_model xi d = Ok p ->
  (d_top d < Datatypes.length (d_mods d))%nat /\
  forall i j mi mj, reach d i -> reach d j -> i <> j -> nth_error (d_mods d) i = Some mi -> nth_error (d_mods d) j = Some mj ->
    m_name mi <> m_name mj.
Proof.
  intros Hh H. unfold export_model in H. apply bind_ok in H. destruct H as [st [Hdfs H]]. apply bind_ok in H. destruct H as [pms [Hex _]].
  assert (d_top d < Datatypes.length (d_mods d))%nat as Htop.
  { cbn [dfs existsb fst] in Hdfs. apply bind_ok in Hdfs. destruct Hdfs as [mt [Hmt _]]. apply nth_mod_nth in Hmt. apply nth_error_Some. congruence. }
  split; [exact Htop|].
  destruct (dfs_closed xi d Hh _ _ _ _ Hdfs ltac:(lia) ltac:(intros j [])) as [Hcl [_ Hin]].
  assert (forall k, reach d k -> In k (fst st)) as Hall.
  { intros k Hk. induction Hk as [|j k m x _ IH Hj Hx Ho]; [exact Hin|]. apply (Hcl j IH k). exists m, x. split; [apply nth_mod_nth; exact Hj|auto]. }
  intros i j mi mj Ri Rj Hne Ei Ej.
  destruct (In_nth_error _ _ (Hall i Ri)) as [a Ha]. destruct (In_nth_error _ _ (Hall j Rj)) as [b Hb].
  assert (a <> b) as Hab by (intros ->; congruence).
  apply (export_mods_names xi d _ _ _ Hex a b i j mi mj Ha Hb Hab); apply nth_mod_nth; assumption.
Qed.

Theorem reject_complete2_reach xi d p : given_e d = true -> frag_f d = true -> checked_pipeline2 xi d = Ok p -> wf_design_reach d.
Proof.
  intros G F H.
  destruct (checked_pipeline2_inv xi d p H) as [d1 [d2 [d3 [Hb [Hh [Ho [H1 [Hc1 [H2 [H3 [Hc3 [_ [Hmark Hex]]]]]]]]]]]]].
  pose proof (elab2_same_hier xi d d1 d2 d3 H1 H2 H3) as SH. pose proof SH as [ST [SL [SN SS]]].
  destruct (export_names_reach xi d3 p (hier_ok_same d d3 SH (hier_design_ok d Hh)) Hex) as [Htop Hnd].
  split; [rewrite ST, SL in Htop; exact Htop|]. split.
  - intros i j mi mj Ri Rj Hne Ei Ej.
    assert (forall k mk, nth_error (d_mods d) k = Some mk -> exists m3, nth_error (d_mods d3) k = Some m3 /\ m_name m3 = m_name mk) as Nm.
    { intros k mk Hk. pose proof (f_equal (fun l => nth_error l k) SN) as E. cbv beta in E. rewrite !nth_error_map, Hk in E.
      destruct (nth_error (d_mods d3) k) as [m3|]; [|discriminate]. cbn in E. inversion E. eauto. }
    destruct (Nm i mi Ei) as [mi3 [Ei3 <-]]. destruct (Nm j mj Ej) as [mj3 [Ej3 <-]].
    apply (Hnd i j mi3 mj3 (reach_same d d3 i SH Ri) (reach_same d d3 j SH Rj) Hne Ei3 Ej3).
  - apply wf_mods_intro. intros j m Hj. cbn [Nat.add].
    apply (rc2_module xi d d1 d2 d3 G F Hb Hh Ho H1 Hc1 H2 H3 Hc3 j m Hj).
    assert (exists m3, nth_error (d_mods d3) j = Some m3 /\ m_name m3 = m_name m) as [m3 [Hj3 En]].
    { pose proof (f_equal (fun l => nth_error l j) SN) as E. cbv beta in E. rewrite !nth_error_map, Hj in E.
      destruct (nth_error (d_mods d3) j) as [m3|]; [|discriminate]. cbn in E. inversion E. eauto. }
    pose proof (each_module_nth _ _ _ _ Hmark Hj3) as Hm. unfold mark_check in Hm. apply check_ok in Hm. rewrite <- En. exact Hm.
Qed.

Theorem reject_complete2 xi d p : given_e d = true -> frag_f d = true -> all_used d = true ->
  checked_pipeline2 xi d = Ok p -> wf_design d = Ok tt.
Proof.
  intros G F Fu H. destruct (reject_complete2_reach xi d p G F H) as [Htop [_ Hmods]].
  destruct (checked_pipeline2_inv xi d p H) as [d1 [d2 [d3 [_ [Hh [_ [H1 [_ [H2 [H3 [_ [_ [_ Hex]]]]]]]]]]]]].
  pose proof (elab2_same_hier xi d d1 d2 d3 H1 H2 H3) as SH. pose proof SH as [ST [SL [SN SS]]].
  destruct (export_names xi d3 p (hier_ok_same d d3 SH (hier_design_ok d Hh)) (all_used_same d d3 SH Fu) Hex) as [_ Hnd].
  unfold wf_design. apply Nat.ltb_lt in Htop. rewrite Htop. cbn [check bind].
  rewrite SN in Hnd. apply nodup_names_NoDup in Hnd. rewrite Hnd. cbn [check bind]. exact Hmods.
Qed.

(* ------------------------------------------------------------------------------------------ the checks accept valid designs *)
Lemma wf_build d : wf_design d = Ok tt -> build_design d = Ok tt.
Proof.
  intros Hwf. destruct (wf_design_inv _ Hwf) as [_ [_ Hmods]]. apply each_module_intro. intros k m Hk.
  unfold build_check. apply check_true. apply forallb_forall. intros x Hx. apply forallb_forall. intros c Hc.
  destruct (wf_module_inv _ _ _ (Hmods k m Hk)) as [_ [_ [_ Hi]]]. destruct (wf_inst_inv _ _ _ _ (Hi x Hx)) as [_ [ports [_ [_ [Hcs _]]]]].
  destruct (wf_conn_inv _ _ _ _ _ (Hcs c Hc)) as [w [_ [_ Hnc]]]. unfold build_conn.
  destruct (is_nc m (snd c)); [reflexivity|]. destruct Hnc as [Hnc _]. rewrite Hnc. reflexivity.
Qed.

Theorem accepts_valid2 xi d : wf_design d = Ok tt -> frag_ok2 d = true -> xinfo_ok xi d = true ->
  (exists p, checked_pipeline2 xi d = Ok p) \/ checked_pipeline2 xi d = Error EName.
Proof.
  intros Hwf Hfr Hxi. unfold checked_pipeline2, checked_elab2.
  rewrite (wf_build d Hwf). cbn [bind]. rewrite (wf_hier d Hwf). cbn [bind]. rewrite (wf_orphanage d Hwf). cbn [bind].
  destruct (portrefs2_total xi d Hwf Hfr Hxi) as [[d1 H1]|H1]; rewrite H1; cbn [bind]; [|right; reflexivity].
  pose proof (portrefs2_wfs xi d d1 Hwf Hfr Hxi H1) as W1. pose proof (portrefs2_xinfo xi d d1 H1 Hxi) as X1.
  rewrite (wfs_conntypes xi d1 W1 X1). cbn [bind].
  destruct (arrays_total d1 W1) as [[d2 H2]|H2]; rewrite H2; cbn [bind]; [|right; reflexivity].
  destruct (arrays_wfs d1 d2 W1 H2) as [W2 NA2]. destruct (slices_total d2 W2 NA2) as [d3 H3]. rewrite H3. cbn [bind].
  destruct (slices_wfs d2 d3 W2 H3) as [W3 [NA3 R3]].
  pose proof (slices_xinfo xi d2 d3 H3 (arrays_xinfo xi d1 d2 H2 X1)) as X3.
  rewrite (wfs_conntypes xi d3 W3 X3). cbn [bind]. rewrite (wfs_orphanage d3 W3). cbn [bind]. rewrite (wfs_mark d3 W3). cbn [bind].
  destruct (export_sound xi d3 W3 NA3 R3 X3) as [p [_ [_ [Hp _]]]]. left. eauto.
Qed.
