Require Import Hdl21.Base.PyInt Hdl21.Spec.PySlice Hdl21.Model.Slice Hdl21.Model.Resolve Hdl21.Base.Design
               Hdl21.Base.Package Hdl21.Model.Export.

Definition named (nm : N -> name) (b : bit) : sbit := (nm (fst b), snd b).

(* the flat refers to a declared signal of the width it assumes, and lies inside it *)
Definition flat_declared (sigs : list (name * Z)) (nm : N -> name) (f : flat) : Prop :=
  flat_wf f = true /\
  match f with FSig id w => assoc (nm id) sigs = Some w | FSl id w _ _ => assoc (nm id) sigs = Some w end.

Lemma read_flat sigs nm f : flat_declared sigs nm f ->
  read_target sigs (flat_ptarget nm f) = Ok (map (named nm) (fbits f)).
Proof.
  intros [Hwf Hd]. destruct f as [id w|id w b t]; unfold read_target; cbn [flat_ptarget read_target_msb flat_wf fbits] in *.
  - rewrite Hd. cbn [ofopt bind]. destruct (w <? 1) eqn:E; [lia|]. cbn [bind]. rewrite rev_involutive.
    unfold sig_bits. rewrite map_map. reflexivity.
  - rewrite Hd. cbn [ofopt bind].
    assert ((0 <=? b) && (b <=? t - 1) && (t - 1 <? w) = true) as -> by lia. cbn [bind]. rewrite rev_involutive.
    replace (t - 1 - b + 1) with (t - b) by lia. rewrite map_map. reflexivity.
Qed.

Lemma rev_concat_map {A B} (g : A -> list B) (l : list A) : rev (concat (map g (rev l))) = concat (map (fun x => rev (g x)) l).
Proof.
  induction l as [|x l IH]; cbn [rev map concat]; [reflexivity|].
  rewrite map_app, concat_app, rev_app_distr. cbn [map concat]. rewrite app_nil_r, IH. reflexivity.
Qed.

Lemma cat_results_ok {A} (l : list (list A)) : cat_results (map Ok l) = Ok (concat l).
Proof. induction l as [|x l IH]; cbn [map cat_results concat]; [reflexivity|]. rewrite IH. reflexivity. Qed.

Lemma read_msb_flat sigs nm f : flat_declared sigs nm f ->
  read_target_msb sigs (flat_ptarget nm f) = Ok (rev (map (named nm) (fbits f))).
Proof.
  intros H. pose proof (read_flat sigs nm f H) as R. unfold read_target in R.
  destruct (read_target_msb sigs (flat_ptarget nm f)) as [r|e]; cbn [bind] in R; [|discriminate].
  inversion R as [R']. rewrite rev_involutive. reflexivity.
Qed.

(* reading an exported connection as the netlisters do gives back exactly its bits, in order:
   inclusive top, index 0 least significant, concatenation parts most significant first *)
Theorem export_read sigs nm r : Forall (flat_declared sigs nm) (resolved_flats r) ->
  read_target sigs (export_resolved nm r) = Ok (map (named nm) (flats_bits (resolved_flats r))).
Proof.
  destruct r as [f|fs]; cbn [resolved_flats export_resolved]; intros H.
  - inversion H; subst. rewrite read_flat by assumption. unfold flats_bits. cbn [map concat]. rewrite app_nil_r. reflexivity.
  - unfold read_target. cbn [read_target_msb].
    assert (E : map (read_target_msb sigs) (rev (map (flat_ptarget nm) fs)) =
                map Ok (map (fun f => rev (map (named nm) (fbits f))) (rev fs))).
    { rewrite <- map_rev, !map_map. apply map_ext_in. intros f Hf. apply read_msb_flat.
      rewrite Forall_forall in H. apply H. apply in_rev. exact Hf. }
    rewrite E, cat_results_ok. cbn [bind]. f_equal.
    rewrite (rev_concat_map (fun f => rev (map (named nm) (fbits f))) fs).
    unfold flats_bits. rewrite concat_map, map_map. f_equal. apply map_ext. intros f. apply rev_involutive.
Qed.
