(* Proofs/C04EEnd.v — composition: operation histories (Props/C04.v) ; dictionary (Proofs/C04EProofs.v) ;
   pipeline model (Props/C01F.v). *)
From Coq Require Import String.
Require Import Hdl21.Base.PyInt Hdl21.Spec.PySlice Hdl21.Model.Slice Hdl21.Model.Resolve Hdl21.Base.Design
               Hdl21.Spec.Nets Hdl21.Spec.WfDesign Hdl21.Base.Package Hdl21.Spec.C01ENets
               Hdl21.Model.C04ConnOps Hdl21.Spec.C04LastWrite Hdl21.Proofs.C04Proofs
               Hdl21.Model.C04Groups Hdl21.Proofs.C04GroupProofs Hdl21.Proofs.C04GroupComplete
               Hdl21.Proofs.FunGraph Hdl21.Model.C01EElab Hdl21.Model.C01FElab Hdl21.Spec.C01FNets
               Hdl21.Proofs.C01EProofsBase Hdl21.Proofs.C01FProofsGroups Hdl21.Proofs.C01FProofsEnd
               Hdl21.Model.C04EBridge Hdl21.Model.C04EPipe Hdl21.Proofs.C04EProofs.
Require Hdl21.Props.C04 Hdl21.Props.C01F.
Open Scope Z_scope.

(* ---- the books: with every connected port in the module, a group of `follow` is the component of its seed ---- *)
Lemma closed_inmod u s inmod q c : closed_ok u s = true -> (forall x, In x (u_insts u) -> inmod (ui_id x) = true) ->
  lookup q (st_conns s) = Some c -> inmod (fst q) = true.
Proof.
  intros Hc Hi Hl. apply lookup_Some_keys in Hl. unfold keys in Hl. apply in_map_iff in Hl. destruct Hl as [e [Ee He]].
  unfold closed_ok in Hc. pose proof (proj1 (forallb_forall _ _) Hc e He) as Hm. cbv beta in Hm. rewrite Ee in Hm.
  apply mem_In in Hm. unfold upids in Hm. apply in_flat_map in Hm. destruct Hm as [x [Hx Hq]].
  apply in_map_iff in Hq. destruct Hq as [sl [<- _]]. cbn [fst]. apply Hi. exact Hx.
Qed.

Lemma component_inmod u ops inmod fuel q g r :
  closed_ok u (run ops) = true -> (forall x, In x (u_insts u) -> inmod (ui_id x) = true) ->
  follow (run ops) inmod fuel q [] = Some g -> (In (GRef r) g <-> reach (run ops) q r).
Proof.
  intros Hc Hi H. split.
  - intros Hr. destruct (Hdl21.Props.C04.C04_groups_follow_final_mapping ops _ fuel q g _ H Hr) as [[r' [E R]]|[r' [c [E _]]]];
      [inversion E; subst; exact R | discriminate].
  - intros R. induction R as [|b c R IH [A|A]].
    + destruct (follow_closed (run ops) inmod fuel q [] g H) as [_ Q]. exact Q.
    + destruct (Hdl21.Props.C04.C04_groups_closed ops _ fuel q g b H IH) as [_ [F _]].
      rewrite Hdl21.Props.C04.C04_final_mapping_only in A. specialize (F _ _ A). destruct c; exact F.
    + destruct (Hdl21.Props.C04.C04_groups_closed ops _ fuel q g b H IH) as [_ [_ [_ F]]].
      pose proof (closed_inmod u _ inmod c _ Hc Hi A) as M.
      rewrite Hdl21.Props.C04.C04_final_mapping_only in A. exact (F c A M).
Qed.

(* ---- the design: the identifier of a group is the same for two ports exactly when they are connected ---- *)
Lemma top_nth u m : nth_error (d_mods (design_of u m)) (Datatypes.length (u_lib u)) = Some (top_of u m).
Proof. unfold design_of. cbn [d_mods]. rewrite nth_error_app2 by apply Nat.le_refl. rewrite Nat.sub_diag. reflexivity. Qed.

Lemma gid_eq_conn d km m keys a b : wf_module d km m = Ok tt -> all_keys d m = Ok keys -> In a keys -> In b keys ->
  (gid m keys a = gid m keys b <-> FunGraph.conn key (nxt m) a b).
Proof.
  intros Hw Hk Ha Hb. split.
  - intros E. destruct (gid_total d km m keys Hw Hk a Ha) as [g Hg].
    pose proof (gid_spec d km m keys Hw Hk a g Ha Hg) as [_ C1]. rewrite E in Hg.
    pose proof (gid_spec d km m keys Hw Hk b g Hb Hg) as [_ C2].
    eapply c_trans; [apply c_sym; exact C1|exact C2].
  - apply (gid_conn d km m keys Hw Hk a b Ha Hb).
Qed.

(* ---- the groups agree ---- *)
Theorem groups_agree u ops inmod fuel q r g k a b keys :
  u_ok u = true -> shape_ok u (fun x => final x ops) = true -> closed_ok u (run ops) = true ->
  (forall x, In x (u_insts u) -> inmod (ui_id x) = true) ->
  wf_design (design_of u (fun x => final x ops)) = Ok tt ->
  all_keys (design_of u (fun x => final x ops)) (top_of u (fun x => final x ops)) = Ok keys ->
  follow (run ops) inmod fuel q [] = Some g ->
  key_of u q k = Some a -> key_of u r k = Some b -> In a keys -> In b keys ->
  (In (GRef r) g <-> gid (top_of u (fun x => final x ops)) keys a = gid (top_of u (fun x => final x ops)) keys b).
Proof.
  intros Hu Hs Hc Hi Hwf Hk Hf Ha Hb Ia Ib.
  rewrite (component_inmod u ops inmod fuel q g r Hc Hi Hf).
  rewrite (reach_conn (run ops) (fun x => final x ops) q r (fun x => Hdl21.Props.C04.C04_final_mapping_only ops x)).
  rewrite (conn_key u _ Hu Hs q r k a b Ha Hb).
  destruct (wf_design_inv _ Hwf) as [_ [_ Hm]]. pose proof (Hm _ _ (top_nth u _)) as Hw.
  symmetry. apply (gid_eq_conn _ _ _ keys a b Hw Hk Ia Ib).
Qed.

(* ---- the design handed to the pipeline is the design of the final mapping ---- *)
Lemma state_design_final u ops : state_design u (run ops) = design_of u (fun q => final q ops).
Proof. unfold state_design. apply design_of_ext. intros q _. apply Hdl21.Props.C04.C04_final_mapping_only. Qed.

Theorem end_to_end xi u ops p ts :
  wf_design (design_of u (fun q => final q ops)) = Ok tt -> frag_ok2 (design_of u (fun q => final q ops)) = true ->
  xinfo_ok xi (design_of u (fun q => final q ops)) = true ->
  pkg_of_state xi u (run ops) = Ok p -> terminals (design_of u (fun q => final q ops)) = Ok ts ->
  let d := design_of u (fun q => final q ops) in
  exists tn, top_name d = Ok tn /\
    (forall t1 t2 dev1 dev2, In (t1, dev1) ts -> In (t2, dev2) ts ->
       (same_net_pkg p tn (term_map2 xi d t1) (term_map2 xi d t2) <-> same_net d t1 t2)) /\
    (forall t dev, In (t, dev) ts ->
       exists pd, design_of_pkg Hdl21.Base.PrimTable.prims_ext p tn = Ok pd /\ valid pd (term_map2 xi d t) /\ dev_at pd (term_map2 xi d t) = Ok dev).
Proof.
  intros Hwf Hfr Hxi Hp Hts. unfold pkg_of_state in Hp. rewrite state_design_final in Hp.
  exact (Hdl21.Props.C01F.C01F_end_to_end_partial xi _ p ts Hwf Hfr Hxi Hp Hts).
Qed.

Theorem state_total xi u ops :
  wf_design (design_of u (fun q => final q ops)) = Ok tt -> frag_ok2 (design_of u (fun q => final q ops)) = true ->
  xinfo_ok xi (design_of u (fun q => final q ops)) = true ->
  (exists p, pkg_of_state xi u (run ops) = Ok p) \/ pkg_of_state xi u (run ops) = Error EName.
Proof.
  intros Hwf Hfr Hxi. unfold pkg_of_state. rewrite state_design_final.
  exact (Hdl21.Props.C01F.C01F_total_partial xi _ Hwf Hfr Hxi).
Qed.

Theorem no_trace xi u ops1 ops2 :
  (forall q, In q (upids u) -> final q ops1 = final q ops2) ->
  state_design u (run ops1) = state_design u (run ops2) /\ pkg_of_state xi u (run ops1) = pkg_of_state xi u (run ops2).
Proof.
  intros H. assert (state_design u (run ops1) = state_design u (run ops2)) as E.
  { rewrite !state_design_final. apply design_of_ext. exact H. }
  split; [exact E|]. unfold pkg_of_state. rewrite E. reflexivity.
Qed.
