(* Proofs/C04EShape.v — a valid design of a mapping is spelled by the tables: wf_design (design_of u m) = Ok tt implies
   shape_ok u m (whatever the tables do not spell became the orphan leaf, which Spec/WfDesign.v rejects; a reference to a
   port of an InstanceArray is rejected as EBadKind). *)
From Coq Require Import String.
Require Import Hdl21.Base.PyInt Hdl21.Spec.PySlice Hdl21.Model.Slice Hdl21.Model.Resolve Hdl21.Base.Design
               Hdl21.Spec.WfDesign Hdl21.Model.C04ConnOps Hdl21.Spec.C04LastWrite
               Hdl21.Model.C04Groups Hdl21.Model.C01EElab Hdl21.Proofs.C01EProofsBase Hdl21.Model.C04EBridge Hdl21.Proofs.C04EProofs Hdl21.Proofs.C04EEnd.
Open Scope Z_scope.

Lemma next_id_gt l : forall id, In id (map fst l) ->
  (id < fold_right (fun (e : N * leaf) acc => N.max (N.succ (fst e)) acc) 0%N l)%N.
Proof.
  induction l as [|e l IH]; cbn [map fold_right]; intros id H; [destruct H|].
  destruct H as [<-|H]; [lia|]. specialize (IH id H). lia.
Qed.

Lemma assocN_notin {A} id (l : list (N * A)) : ~ In id (map fst l) -> assocN id l = None.
Proof.
  induction l as [|[k v] l IH]; cbn [map fst assocN]; intros H; [reflexivity|].
  destruct (N.eqb id k) eqn:E; [apply N.eqb_eq in E; subst; exfalso; apply H; left; reflexivity|].
  apply IH. intros Hin. apply H. right. exact Hin.
Qed.

Lemma orphan_unknown u : assocN (next_id u) (u_leaves u) = None.
Proof.
  apply assocN_notin. intros H. pose proof (next_id_gt (u_leaves u) _ H) as L. unfold next_id in L. lia.
Qed.

Lemma orphan_not_wf u m : wf_leaf (design_of u m) (top_of u m) (next_id u, 1) = Ok tt -> False.
Proof.
  unfold wf_leaf. cbn [fst top_of m_leaves]. rewrite orphan_unknown. cbn [ofopt bind]. discriminate.
Qed.

Theorem wf_shape u m : u_ok u = true -> wf_design (design_of u m) = Ok tt -> shape_ok u m = true.
Proof.
  intros Hu Hwf. destruct (wf_design_inv _ Hwf) as [_ [_ Hm]].
  assert (nth_error (d_mods (design_of u m)) (Datatypes.length (u_lib u)) = Some (top_of u m)) as Hn.
  { unfold design_of. cbn [d_mods]. rewrite nth_error_app2 by apply Nat.le_refl. rewrite Nat.sub_diag. reflexivity. }
  pose proof (Hm _ _ Hn) as Hw. destruct (wf_module_inv _ _ _ Hw) as [_ [_ [_ Hi]]].
  unfold shape_ok. apply forallb_forall. intros x Hx. apply forallb_forall. intros s Hsl.
  destruct (m (ui_id x, us_port s)) as [c|] eqn:Hc; [|reflexivity].
  assert (In (inst_of u m x) (m_insts (top_of u m))) as Hix by (unfold top_of; cbn [m_insts]; apply in_map; exact Hx).
  destruct (wf_inst_inv _ _ _ _ (Hi _ Hix)) as [_ [ports [_ [_ [Hcs _]]]]].
  assert (In (us_name s, conn_sx u c s) (i_conns (inst_of u m x))) as Hin.
  { cbn [inst_of i_conns]. apply in_flat_map. exists s. split; [exact Hsl|]. unfold slot_conn. rewrite Hc. left. reflexivity. }
  destruct (wf_conn_inv _ _ _ _ _ (Hcs _ Hin)) as [_ [_ [Hl _]]]. cbn [snd] in Hl.
  assert (conn_sx u c s = orphan u -> False) as Horph.
  { intros E. rewrite E in Hl. apply (orphan_not_wf u m). apply Hl. left. reflexivity. }
  destruct c as [kd id|j p].
  - destruct kd; cbn [conn_sx conn_ok] in *;
    try (unfold obj_sx in Horph; destruct (find_obj _ (u_objs u)) as [es|]; [|exfalso; apply Horph; reflexivity];
         destruct (Nat.ltb (us_lane s) (Datatypes.length es)) eqn:L; [reflexivity|];
         exfalso; apply Horph; apply nth_overflow; apply Nat.ltb_ge in L; exact L).
    unfold nc_sx in Horph. destruct (find_leaf u (LNc (nc_site id (us_lane s)))); [reflexivity|exfalso; apply Horph; reflexivity].
  - cbn [conn_sx conn_ok] in *. unfold ref_sx in *.
    destruct (find_ui u j) as [y|] eqn:Hy; [|exfalso; apply Horph; reflexivity].
    destruct (find_slot y p (us_lane s)) as [t|] eqn:Ht; [|exfalso; apply Horph; reflexivity].
    destruct (find_leaf u (LRef (ui_name y) (us_name t))) as [lid|] eqn:Hlf; [|exfalso; apply Horph; reflexivity].
    rewrite andb_true_r.
    assert (wf_leaf (design_of u m) (top_of u m) (lid, us_w t) = Ok tt) as Hwl by (apply Hl; left; reflexivity).
    unfold wf_leaf in Hwl. cbn [fst snd] in Hwl. unfold top_of at 1 in Hwl. cbn [m_leaves] in Hwl.
    rewrite (find_leaf_spec u Hu _ _ Hlf) in Hwl. cbn [ofopt bind] in Hwl.
    destruct (find_ui_spec u _ _ Hy) as [Iy _]. rewrite (find_inst_top u m Hu y Iy) in Hwl. cbn [ofopt bind] in Hwl.
    apply bind_ok in Hwl. destruct Hwl as [w [_ Hwl]]. apply bind_ok in Hwl. destruct Hwl as [[] [Hk _]].
    apply check_ok in Hk. exact Hk.
Qed.

(* the groups agree, with validity as the only hypothesis on the mapping *)
Theorem groups_agree_valid u ops inmod fuel q r g k a b keys :
  u_ok u = true -> closed_ok u (run ops) = true ->
  (forall x, In x (u_insts u) -> inmod (ui_id x) = true) ->
  wf_design (design_of u (fun x => final x ops)) = Ok tt ->
  all_keys (design_of u (fun x => final x ops)) (top_of u (fun x => final x ops)) = Ok keys ->
  follow (run ops) inmod fuel q [] = Some g ->
  key_of u q k = Some a -> key_of u r k = Some b -> In a keys -> In b keys ->
  (In (GRef r) g <-> gid (top_of u (fun x => final x ops)) keys a = gid (top_of u (fun x => final x ops)) keys b).
Proof.
  intros Hu Hc Hi Hwf. apply (groups_agree u ops inmod fuel q r g k a b keys Hu (wf_shape u _ Hu Hwf) Hc Hi Hwf).
Qed.
