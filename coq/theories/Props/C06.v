(* Props/C06.v — every exported package is closed and self-consistent.
   wf_pkg (Spec/PkgWf.v) is the executable statement; it is evaluated inside Coq on every package the
   implementation returns in the C06 streams.  Proved here: what acceptance by wf_pkg guarantees,
   declaratively, for every package (soundness of the checker against the sentence of the property). *)
Require Import Hdl21.Base.PyInt Hdl21.Base.Design Hdl21.Base.Package Hdl21.Spec.PkgWf Hdl21.Proofs.PkgWfProofs
               Hdl21.Base.PrimTable.

Theorem C06_wf_pkg_closed prims p : wf_pkg prims p = Ok tt ->
  forall pre m post, pk_mods p = pre ++ m :: post ->
    (forall m', In m' pre -> pm_name m' <> pm_name m) /\
    (forall pd, In pd (pm_ports m) -> exists w, assoc (fst pd) (pm_sigs m) = Some w) /\
    (forall i, In i (pm_insts m) -> exists ports, ref_ports prims p pre (pi_ref i) = Ok ports /\
        (forall c, In c (pi_conns i) -> conn_closed m ports c) /\
        (forall pw, In pw ports -> exists t, assoc (fst pw) (pi_conns i) = Some t)).
Proof. exact (wf_pkg_closed prims p). Qed.
Print Assumptions C06_wf_pkg_closed.

(* a strict reading of any connection target never names a bit outside a declared signal *)
Theorem C06_read_inside sigs t bits : read_target sigs t = Ok bits ->
  forall s k, In (s, k) bits -> exists sw, assoc s sigs = Some sw /\ 0 <= k < sw.
Proof. exact (read_inside sigs t bits). Qed.
Print Assumptions C06_read_inside.

(* non-vacuity: a two-module package with a slice and a concatenation is accepted; a dangling bit is not *)
Example C06_ex_accept :
  wf_pkg prims_ext {| pk_domain := ""; pk_exts := [];
    pk_mods := [ {| pm_name := "A"; pm_sigs := [("p", 2)]; pm_ports := [("p", 3)]; pm_insts := []; pm_literals := [] |};
                 {| pm_name := "B"; pm_sigs := [("s", 3); ("t", 1)]; pm_ports := [];
                    pm_insts := [ {| pi_name := "i"; pi_ref := PLocal "A"; pi_params := [];
                                     pi_conns := [("p", PConcat [PSig "t"; PSlice "s" 2 2])] |} ]; pm_literals := [] |} ] |} = Ok tt.
Proof. reflexivity. Qed.
Example C06_ex_reject :
  wf_pkg prims_ext {| pk_domain := ""; pk_exts := [];
    pk_mods := [ {| pm_name := "A"; pm_sigs := [("p", 1)]; pm_ports := [("p", 3)]; pm_insts := []; pm_literals := [] |};
                 {| pm_name := "B"; pm_sigs := [("s", 4)]; pm_ports := [];
                    pm_insts := [ {| pi_name := "i"; pi_ref := PLocal "A"; pi_params := [];
                                     pi_conns := [("p", PSlice "s" 4 4)] |} ]; pm_literals := [] |} ] |} = Error EOutOfBounds.
Proof. reflexivity. Qed.
