(* Props/C06.v — every exported package is closed and self-consistent.
   wf_pkg (Spec/PkgWf.v) is the executable statement; it is evaluated inside Coq on every package the
   implementation returns in the C06 streams.  Proved here: what acceptance by wf_pkg guarantees,
   declaratively, for every package (soundness of the checker against the sentence of the property). *)
Require Import Hdl21.Base.PyInt Hdl21.Base.Design Hdl21.Base.Package Hdl21.Spec.PkgWf Hdl21.Proofs.PkgWfProofs
               Hdl21.Base.PrimTable.

Theorem C06_wf_pkg_closed prims p : wf_pkg prims p = Ok tt ->
  forall pre m post, pk_mods p = pre ++ m :: post ->
    (forall m', In m' pre -> pm_name m' <> pm_name m) /\
    (forall pd, In pd (pm_ports m) -> exists w, assoc (fst pd) (pm_sigs m) = Some w) /\
    (forall i, In i (pm_insts m) -> exists ports, ref_ports prims p pre (pi_ref i) = Ok ports /\
        (forall c, In c (pi_conns i) -> conn_closed m ports c) /\
        (forall pw, In pw ports -> exists t, assoc (fst pw) (pi_conns i) = Some t)).
Proof. exact (wf_pkg_closed prims p). Qed.
Print Assumptions C06_wf_pkg_closed.

(* a strict reading of any connection target never names a bit outside a declared signal *)
Theorem C06_read_inside sigs t bits : read_target sigs t = Ok bits ->
  forall s k, In (s, k) bits -> exists sw, assoc s sigs = Some sw /\ 0 <= k < sw.
Proof. exact (read_inside sigs t bits). Qed.
Print Assumptions C06_read_inside.

(* non-vacuity: a two-module package with a slice and a concatenation is accepted; a dangling bit is not *)
Example C06_ex_accept :
  wf_pkg prims_ext {| pk_domain := ""; pk_exts := [];
    pk_mods := [ {| pm_name := "A"; pm_sigs := [("p", 2)]; pm_ports := [("p", 3)]; pm_insts := []; pm_literals := [] |};
                 {| pm_name := "B"; pm_sigs := [("s", 3); ("t", 1)]; pm_ports := [];
                    pm_insts := [ {| pi_name := "i"; pi_ref := PLocal "A"; pi_params := [];
                                     pi_conns := [("p", PConcat [PSig "t"; PSlice "s" 2 2])] |} ]; pm_literals := [] |} ] |} = Ok tt.
Proof. reflexivity. Qed.
Example C06_ex_reject :
  wf_pkg prims_ext {| pk_domain := ""; pk_exts := [];
    pk_mods := [ {| pm_name := "A"; pm_sigs := [("p", 1)]; pm_ports := [("p", 3)]; pm_insts := []; pm_literals := [] |};
                 {| pm_name := "B"; pm_sigs := [("s", 4)]; pm_ports := [];
                    pm_insts := [ {| pi_name := "i"; pi_ref := PLocal "A"; pi_params := [];
                                     pi_conns := [("p", PSlice "s" 4 4)] |} ]; pm_literals := [] |} ] |} = Error EOutOfBounds.
Proof. reflexivity. Qed.

(* =================================================================================================================
   Strengthening round (C06x).
   (a) instance parameters are part of the executable statement (wf_pkg_full = wf_pkg + wf_pkg_params);
   (b) a model of the exporter's walk (Model/C06Export.v: by-id / by-name maps, depth-first definition-before-use,
       the table of declared ExternalModules as repaired by fixes/C06-1, the parameter loop of export_instance) with,
       for ALL object graphs: unique module names, definition before use, unique external declarations, every
       external reference declared; fuel never exhausted on ordered designs;
   (c) what stays outside the package: the flat name spaces of the netlisters (recorded findings). *)
Require Import Hdl21.Spec.WfDesign Hdl21.Spec.C06Accept Hdl21.Model.C06Export Hdl21.Proofs.C06ExportProofs.
From Coq Require String.

Lemma c06_nodup_names_NoDup (l : list name) : nodup_names l = true -> NoDup l.
Proof.
  induction l as [|a l IH]; intros H1; [constructor|]. cbn [nodup_names] in H1.
  apply andb_prop in H1. destruct H1 as [Ha Hl]. constructor; [|exact (IH Hl)].
  intros Hin. apply negb_true_iff in Ha. assert (X : existsb (String.eqb a) l = true).
  { apply existsb_exists. exists a. split; [exact Hin|apply String.eqb_refl]. } congruence.
Qed.

(* (a) acceptance by wf_pkg_params: every instance parameter has a name, a value that is set, and names do not repeat *)
Theorem C06_params_closed p : wf_pkg_params p = true ->
  forall m i, In m (pk_mods p) -> In i (pm_insts m) ->
    NoDup (map fst (pi_params i)) /\
    forall k v, In (k, v) (pi_params i) -> k <> String.EmptyString /\ pvalue_set v = true.
Proof.
  unfold wf_pkg_params. intros H m i Hm Hi. rewrite forallb_forall in H. specialize (H m Hm).
  rewrite forallb_forall in H. specialize (H i Hi). unfold wf_params in H. apply andb_prop in H. destruct H as [H1 H2].
  split.
  - apply c06_nodup_names_NoDup. exact H1.
  - intros k v Hkv. rewrite forallb_forall in H2. specialize (H2 _ Hkv). cbn [fst snd] in H2.
    apply andb_prop in H2. destruct H2 as [Hk Hv]. split; [|exact Hv].
    intros ->. cbn in Hk. discriminate.
Qed.
Print Assumptions C06_params_closed.

(* (b1) THE WALK. Whatever the object graph (sharing, any depth, any order of tops, arrays, external objects with equal
   or clashing declarations): if the exporter model returns a package then
     - module names are unique,
     - every local reference of a module names a module that stands EARLIER in the package,
     - no (domain, name) is declared twice among the external modules,
     - every reference to an ExternalModule object is declared in the package. *)
Theorem C06_export_closed hp xh tops st : export hp xh tops = Ok st ->
  NoDup (map fst (xs_out st)) /\
  (forall pre m post, xs_out st = pre ++ m :: post ->
     forall nm, In (OLocal nm) (snd m) -> In nm (map fst pre)) /\
  nodup_exts (xs_exts st) = true /\
  (forall m d n, In m (xs_out st) -> In (OExt d n) (snd m) -> exists x, find_ext (xs_exts st) d n = Some x).
Proof.
  unfold export. intros H. pose proof (export_tops_inv xh hp _ _ _ _ (inv_init xh) H) as I.
  destruct I as [I1 I2 I3 I4 I5 I6 I7]. auto.
Qed.
Print Assumptions C06_export_closed.

(* ... in the terms of the checks wf_pmodule makes: the name of a module does not occur before it *)
Theorem C06_export_names_checked hp xh tops st : export hp xh tops = Ok st ->
  forall pre m post, xs_out st = pre ++ m :: post ->
    existsb (fun m' => String.eqb (fst m') (fst m)) pre = false.
Proof.
  intros H pre m post E. destruct (C06_export_closed _ _ _ _ H) as [Hn _]. rewrite E, map_app in Hn. cbn [map] in Hn.
  apply NoDup_remove_2 in Hn. destruct (existsb (fun m' : name * list oref => String.eqb (fst m') (fst m)) pre) eqn:X; [|exact X]. exfalso.
  apply existsb_exists in X. destruct X as [m' [Hin Heq]]. apply String.eqb_eq in Heq. apply Hn.
  apply in_or_app. left. rewrite <- Heq. apply in_map. exact Hin.
Qed.
Print Assumptions C06_export_names_checked.

(* (b2) the external-module table: after export_external_module of object j, the (domain, name) of j's own declaration
   is declared in the package by a declaration EQUAL to j's - whether j was seen before, is the first of its name, or
   shares its name with an earlier object of identical interface; a differing interface is refused (EName) *)
Theorem C06_ext_declared xh st j st' : inv xh st -> export_ext xh st j = Ok st' ->
  exists d x, nth_error xh j = Some d /\ find_ext (xs_exts st') (px_domain d) (px_name d) = Some x /\ pext_eqb x d = true.
Proof. intros I H. destruct (export_ext_inv xh st j st' I H) as [_ [_ [_ X]]]. exact X. Qed.
Print Assumptions C06_ext_declared.

(* the table as it was before fixes/C06-1 (keyed by id() only): two ExternalModule objects of one (domain, name)
   are both declared - the package is then rejected by from_proto and by the netlisters *)
Definition res2 : pext := {| px_domain := "lib"; px_name := "res"; px_ports := [("p", 1, 3); ("n", 1, 3)]; px_spicetype := "SUBCKT" |}.
Theorem C06_ext_table_by_id_refuted : exists xh j1 j2 st1 st2,
  export_ext_by_id_only xh xs_init j1 = Ok st1 /\ export_ext_by_id_only xh st1 j2 = Ok st2 /\ nodup_exts (xs_exts st2) = false.
Proof. exists [res2; res2], 0%nat, 1%nat. eexists. eexists. split; [reflexivity|]. split; [reflexivity|]. reflexivity. Qed.
Print Assumptions C06_ext_table_by_id_refuted.
(* ... the repaired table declares it once *)
Example C06_ex_ext_table_repaired : exists st1 st2,
  export_ext [res2; res2] xs_init 0 = Ok st1 /\ export_ext [res2; res2] st1 1 = Ok st2 /\ xs_exts st2 = [res2].
Proof. eexists. eexists. split; [reflexivity|]. split; reflexivity. Qed.

(* (b3) fuel is never exhausted on a design whose modules instantiate only modules created before them *)
Theorem C06_export_no_fuel hp xh tops : heap_ordered hp -> (forall k, In k tops -> (k < S (List.length hp))%nat) ->
  export hp xh tops <> Error EFuel.
Proof. intros Ho Ht. unfold export. apply export_tops_no_fuel; assumption. Qed.
Print Assumptions C06_export_no_fuel.

(* (b4) the parameter loop of export_instance: un-set (None) values are skipped, so every exported parameter carries a value
   (given that every value the exporter can print is non-empty and does not read as un-set) and names stay unique *)
Theorem C06_export_params_set ps :
  nodup_names (map fst ps) = true ->
  (forall k v, In (k, Some v) ps -> k <> String.EmptyString /\ pvalue_set v = true) ->
  wf_params (export_params ps) = true.
Proof.
  intros Hn Hv. unfold wf_params. rewrite (nodup_names_export_params _ Hn). cbn [andb]. apply forallb_forall.
  intros [k v] Hin. apply export_params_in in Hin. destruct (Hv _ _ Hin) as [Hk Hs]. cbn [fst snd]. rewrite Hs, andb_true_r.
  apply negb_true_iff. apply String.eqb_neq. exact Hk.
Qed.
Print Assumptions C06_export_params_set.
(* exporting the un-set values too (what moving the `is None` test out of the loop does for dict-typed parameters)
   yields a parameter that wf_params rejects *)
Example C06_ex_params_unset_rejected :
  wf_params (export_params [("w", Some "pre:MICRO:i1"); ("l", None)]) = true /\
  wf_params [("w", "pre:MICRO:i1"); ("l", "?None")] = false.
Proof. split; reflexivity. Qed.

(* (c) outside the package: the netlisters' flat name spaces. A package can be closed and self-consistent and still be
   refused by the spice and spectre netlisters - to_proto returns it (model: the walk succeeds). Recorded findings. *)
Definition pm_inv (nm : name) : pmodule :=
  {| pm_name := nm; pm_sigs := [("a", 1)]; pm_ports := [("a", 3)]; pm_insts := []; pm_literals := [] |}.
Definition pk_two_invs : package :=
  {| pk_domain := ""; pk_exts := [];
     pk_mods := [pm_inv "liba.Inv"; pm_inv "libb.Inv";
                 {| pm_name := "top.T"; pm_sigs := [("x", 1)]; pm_ports := [];
                    pm_insts := [ {| pi_name := "i1"; pi_ref := PLocal "liba.Inv"; pi_params := []; pi_conns := [("a", PSig "x")] |};
                                  {| pi_name := "i2"; pi_ref := PLocal "libb.Inv"; pi_params := []; pi_conns := [("a", PSig "x")] |} ];
                    pm_literals := [] |}] |}.
Theorem C06_netlist_flat_names_refuted : exists p,
  wf_pkg_full prims_ext p = Ok tt /\ netlist_flat_ok p = false /\
  exists st, export [ {| hm_name := "liba.Inv"; hm_insts := [] |}; {| hm_name := "libb.Inv"; hm_insts := [] |};
                      {| hm_name := "top.T"; hm_insts := [(HMod 0, 0); (HMod 1, 0)] |} ] [] [2%nat] = Ok st /\
             map fst (xs_out st) = map pm_name (pk_mods p).
Proof. exists pk_two_invs. split; [reflexivity|]. split; [reflexivity|]. eexists. split; reflexivity. Qed.
Print Assumptions C06_netlist_flat_names_refuted.

(* non-vacuity of the walk: a shared sub-module below two parents, an array declared before a single instance
   (its elements are exported after it), two external objects of one interface and a same-named one in another domain *)
Definition resA : pext := {| px_domain := "libA"; px_name := "res"; px_ports := [("p", 1, 3); ("n", 1, 3)]; px_spicetype := "RESISTOR" |}.
Definition walk_view (r : result xstate) : option (list name * list pext * option (name * list oref)) :=
  match r with Ok st => Some (map fst (xs_out st), xs_exts st, nth_error (xs_out st) 3) | Error _ => None end.
Example C06_ex_walk :
  walk_view (export [ {| hm_name := "d.Leaf"; hm_insts := [(HExt 0, 0); (HExt 1, 0); (HExt 2, 0)] |};
                      {| hm_name := "d.Mid"; hm_insts := [(HMod 0, 2); (HPrim "vlsir.primitives" "resistor", 0)] |};
                      {| hm_name := "d.Other"; hm_insts := [(HMod 0, 0)] |};
                      {| hm_name := "d.Top"; hm_insts := [(HMod 2, 2); (HMod 1, 0); (HMod 0, 0)] |} ]
                    [res2; res2; resA] [3%nat])
  = Some (["d.Leaf"; "d.Mid"; "d.Other"; "d.Top"], [res2; resA],
          Some ("d.Top", [OLocal "d.Mid"; OLocal "d.Leaf"; OLocal "d.Other"; OLocal "d.Other"])).
Proof. vm_compute. reflexivity. Qed.
(* ... a clash of qualified names below the top is refused, also when the child takes the parent's name *)
Example C06_ex_walk_clash :
  export [ {| hm_name := "d.A"; hm_insts := [] |}; {| hm_name := "d.A"; hm_insts := [(HMod 0, 0)] |} ] [] [1%nat] = Error EName.
Proof. reflexivity. Qed.

(* ===============================================================================================================
   Strengthening round 2: what reaches a RETURNED package.
   (a) held names vs. carried names (Model/C06Held.v): the exporter writes the name each attribute CARRIES, the Module's containers
       are keyed by the name it is HELD under; Orphanage's name check is what makes the exported names unique.
   (b) histories (Model/C06Hist.v): after ANY history of creations, elaborations, exports and re-targetings, every module of a
       returned package was completed by the call and passes the checks of elaboration. *)
Require Import Hdl21.Model.C06Held Hdl21.Proofs.C06HeldProofs Hdl21.Model.C06Hist Hdl21.Proofs.C06HistProofs.
From Coq Require Import String.

(* for every history of setattr / add / re-naming operations on a Module, and every container (`sel`): if Orphanage accepts the
   Module, the names the exporter writes are exactly the keys of the container, and no name is written twice *)
Theorem C06_held_names_unique (ops : list hop) (sel : objid -> bool) : orphanage_ok (hrun ops) = true ->
  export_names sel (hrun ops) = map Some (map fst (filter (fun ko => sel (snd ko)) (h_ns (hrun ops)))) /\
  NoDup (export_names sel (hrun ops)).
Proof. intros H. split; [exact (held_export_keys sel ops H)|exact (held_export_nodup sel ops H)]. Qed.
Print Assumptions C06_held_names_unique.

(* the dict invariant the above rests on: one entry per key, whatever was set, replaced or re-named *)
Theorem C06_held_keys_unique (ops : list hop) : NoDup (map fst (h_ns (hrun ops))).
Proof. exact (hrun_keys_nodup ops). Qed.
Print Assumptions C06_held_keys_unique.

(* without the name check (the seeded change C06r4-C for Instances): `inv1 = inv2 = Inv(..)` is written as two instances `inv2` *)
Theorem C06_held_names_refuted_without_check :
  exists ops sel, ~ NoDup (export_names sel (hrun ops)) /\ orphanage_ok (hrun ops) = false.
Proof.
  exists [HSet "a" 0%nat; HSet "inv1" 1%nat; HSet "inv2" 1%nat], (fun o => Nat.eqb o 1). split; [|vm_compute; reflexivity].
  vm_compute. intros H. inversion H as [|? ? Hn _]. apply Hn. left. reflexivity.
Qed.
Print Assumptions C06_held_names_refuted_without_check.

(* non-vacuity: an instance replaced under its own key, and an attribute re-named and then set again under that name, are accepted *)
Example C06_ex_held_accepted :
  orphanage_ok (hrun [HSet "a" 0%nat; HSet "i" 1%nat; HSet "i" 2%nat; HRename 0%nat "b"; HSet "a" 0%nat]) = true /\
  export_names (fun _ => true) (hrun [HSet "a" 0%nat; HSet "i" 1%nat; HSet "i" 2%nat; HRename 0%nat "b"; HSet "a" 0%nat]) = [Some "a"; Some "i"].
Proof. split; vm_compute; reflexivity. Qed.
Example C06_ex_held_renamed_refused : orphanage_ok (hrun [HSet "first" 0%nat; HSet "second" 1%nat; HRename 0%nat "second"]) = false.
Proof. vm_compute. reflexivity. Qed.

(* for every history and every tops: every module of a returned package was completed by the call and passes the checks of
   elaboration - also a module that was hung below an already completed module after the last call *)
Theorem C06_hist_package_checked (ops : list eop) (tops : list nat) st' pk :
  C06Hist.export (erun ops) tops = Some (st', pk) ->
  forall m, In m pk -> In m (e_done st') /\ ok_at (e_heap st') m = true.
Proof. intros H. exact (export_checked _ tops st' pk (erun_inv ops) H). Qed.
Print Assumptions C06_hist_package_checked.

(* the seeded change C06r4-B (tops carrying the mark of an earlier elaboration are not walked again): a module that fails its checks,
   hung below an exported top, is returned in the next package *)
Theorem C06_hist_refuted_skipping_marked :
  exists ops tops st' pk m, export_skipping_marked (erun ops) tops = Some (st', pk) /\ In m pk /\ ok_at (e_heap st') m = false.
Proof.
  exists [ONew {| hm_kids := []; hm_ok := true |}; ONew {| hm_kids := [0%nat]; hm_ok := true |}; OExport [1%nat];
          ONew {| hm_kids := []; hm_ok := false |}; ORetarget 1 0 2], [1%nat].
  eexists. eexists. exists 2%nat. vm_compute. split; [reflexivity|]. split; [|reflexivity]. left. reflexivity.
Qed.
Print Assumptions C06_hist_refuted_skipping_marked.

(* the same history on the model of the code as it is: refused; with a revised child that passes its checks: exported, child included *)
Example C06_ex_hist_refused :
  C06Hist.export (erun [ONew {| hm_kids := []; hm_ok := true |}; ONew {| hm_kids := [0%nat]; hm_ok := true |}; OExport [1%nat];
                        ONew {| hm_kids := []; hm_ok := false |}; ORetarget 1 0 2]) [1%nat] = None.
Proof. vm_compute. reflexivity. Qed.
Example C06_ex_hist_exported :
  option_map snd (C06Hist.export (erun [ONew {| hm_kids := []; hm_ok := true |}; ONew {| hm_kids := [0%nat]; hm_ok := true |}; OExport [1%nat];
                        ONew {| hm_kids := [0%nat]; hm_ok := true |}; ORetarget 1 0 2]) [1%nat]) = Some [0%nat; 2%nat; 1%nat].
Proof. vm_compute. reflexivity. Qed.
