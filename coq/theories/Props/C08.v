(* Props/C08.v — stub, filled below *)
Require Import Hdl21.Base.PyInt Hdl21.Model.C08PassFail Hdl21.Model.C08GenFail.
