(* Props/C08.v — a failed elaboration, export or generator call does not poison later ones.
   Statements only; each is closed by a lemma of Proofs/C08Proofs.v.  The machine is Model/C08PassFail.v with the
   `repaired` policy (the code after fixes C08-1, C08-3, C08-4) resp. Model/C08GenFail.v with policy GFinally (fix C08-2).
   Neither policy tells an `Exception` from any other `BaseException` (error identities c < 0, failure kinds >= 2): every
   theorem below holds whatever ends a pass body or a generator body; the variants that do tell them apart are refuted.
   Quantification: ANY state reachable by ANY history of calls; a call is ANY pass list (custom lists included), ANY tops,
   ANY design graph (cyclic ones included), ANY failure oracle — which pass body raises in which module. *)
Require Import Hdl21.Base.PyInt Hdl21.Model.C08PassFail Hdl21.Model.C08GenFail Hdl21.Proofs.C08Proofs Hdl21.Proofs.C08Fuel
               Hdl21.Proofs.C08Sweep.
Require Import Hdl21Gen.C08Passes.
From Coq Require Import String.
Open Scope list_scope.

(* 0. the regenerated pass table is adequate: the tree has the failure record (consulted by elaborate_module_base and by
      the exporter), every default pass in which the source scan finds an in-place change of a Module is declared
      rewriting, and a pass that sets _elaborated is not one of those; the exception handling has the shape the policy
      `repaired` / GFinally stands for (removal from `pending` and `stack.pop` in `finally` clauses that directly follow the
      insertion, the record made by a bare / BaseException handler) and elaborate_tops sweeps `modules_below(tops)` *)
Definition c08_table_ok : bool :=
  c08_has_failure_record && c08_pass_pending_finally && c08_pass_record_base && c08_pass_sweep &&
  c08_gen_pending_finally && c08_gen_stack_finally &&
  forallb (fun e : string * nat * bool * bool * bool * string =>
             let '(_, _, rw, mk, mut, _) := e in implb mut rw && implb mk (negb mut)) c08_passes &&
  existsb (fun e : string * nat * bool * bool * bool * string => let '(_, _, _, mk, _, _) := e in mk) c08_passes.
Theorem C08_tables_adequate : c08_table_ok = true.
Proof. vm_compute. reflexivity. Qed.
Print Assumptions C08_tables_adequate.

(* 1. after ANY call, failing or not, every pending set is what it was before; between the calls of any history it is empty *)
Theorem C08_pending_restored_by_call s c : pend (fst (fst (do_call repaired s c))) = pend s.
Proof. exact (do_call_pend s c). Qed.
Print Assumptions C08_pending_restored_by_call.

Theorem C08_pending_empty_between_calls cs : pend (run_hist repaired init cs) = [].
Proof. exact (run_hist_pend cs init). Qed.
Print Assumptions C08_pending_empty_between_calls.

(* the pinned bookkeeping, literally (pending.remove only on the success path, no record): refuted.  One design
   Top(1) -> Bad(0), one pass, its body raises error 7 in Bad: Top and Bad stay pending, and the repeated call reports a
   circular dependency in Top instead of error 7 *)
Definition wit_call (fl : list (nat * nat * Z)) : call :=
  {| c_kids := [(0, []); (1, [0])]%nat; c_passes := [{| pid := 0; prw := true; pmk := false |}];
     c_tops := [1%nat]; c_fail := fl; c_export := true |}.
Theorem C08_pending_empty_refuted_on_pinned :
  exists c, pend (fst (fst (do_call pinned init c))) <> [] /\
            snd (fst (do_call pinned init c)) = Some (CE 7) /\
            snd (fst (do_call pinned (fst (fst (do_call pinned init c))) c)) = Some (CCycle 1).
Proof. exists (wit_call [(0%nat, 0%nat, 7)]). vm_compute. repeat split. discriminate. Qed.
Print Assumptions C08_pending_empty_refuted_on_pinned.

(* 2. a module half-rewritten by a failed pass is never marked done by any pass again, never (newly) marked elaborated,
      and never exported — by any later call, under any continuation *)
Theorem C08_half_rewritten_is_recorded cs : Inv (run_hist repaired init cs).
Proof. exact (run_hist_inv cs init inv_init). Qed.
Print Assumptions C08_half_rewritten_is_recorded.

Theorem C08_failure_is_sticky cs0 cs m :
  let s := run_hist repaired init cs0 in
  In m (half s) ->
  (forall q, memp (q, m) (done (run_hist repaired s cs)) = memp (q, m) (done s)) /\
  memn m (elab (run_hist repaired s cs)) = memn m (elab s) /\
  (forall sc, In sc (calls_from s cs) -> ~ In m (snd (do_call repaired (fst sc) (snd sc)))).
Proof. intros s Hm. exact (hist_sticky cs s m (run_hist_inv cs0 init inv_init) Hm). Qed.
Print Assumptions C08_failure_is_sticky.

(* the obvious repair (forget the pending entry, keep no record): refuted.  The body of the rewriting pass raises in
   Bad; the designer removes the cause and retries: Bad, half-rewritten, is exported *)
Theorem C08_failure_is_sticky_refuted_on_naive :
  exists c1 c2 m, let s1 := fst (fst (do_call naive init c1)) in
    In m (half s1) /\ snd (fst (do_call naive s1 c2)) = None /\ In m (snd (do_call naive s1 c2)).
Proof. exists (wit_call [(0%nat, 0%nat, 7)]), (wit_call []), 0%nat. vm_compute. repeat split; auto. Qed.
Print Assumptions C08_failure_is_sticky_refuted_on_naive.

(* 3. repeating a failed call — same design, same pass list, same tops; every fault that was there is still there
      (c' may have more) — reports the original error again and changes nothing *)
Theorem C08_same_error_again s c c' e : more_faults c c' ->
  snd (fst (do_call repaired s c)) = Some e ->
  do_call repaired (fst (fst (do_call repaired s c))) c' = (fst (fst (do_call repaired s c)), Some e, []).
Proof. exact (do_call_retry s c c' e). Qed.
Print Assumptions C08_same_error_again.

(* ... and a module carrying a record reports that error to any pass of any later call that reaches it, whatever the
   designer changed in between (no oracle, no pass list, no design graph in the hypothesis) *)
Theorem C08_recorded_error_again kids f p k s m c : rec_of m (failed s) = Some c ->
  visit repaired kids f p (S k) s m = (s, Some (CE c)).
Proof. exact (visit_recorded kids f p k s m c). Qed.
Print Assumptions C08_recorded_error_again.

(* 4. frame: a call depends on, and changes, only the state of the modules of its own design *)
Theorem C08_frame kids f p R k s1 s2 m :
  closed kids R -> agree R s1 s2 -> R m = true ->
  snd (visit repaired kids f p k s1 m) = snd (visit repaired kids f p k s2 m) /\
  agree R (fst (visit repaired kids f p k s1 m)) (fst (visit repaired kids f p k s2 m)).
Proof. intros HC. exact (frame_visit kids f p R HC k s1 s2 m). Qed.
Print Assumptions C08_frame.

Theorem C08_frame_call R s1 s2 c :
  closed (assoc_kids (c_kids c)) R -> agree R s1 s2 -> (forall t, In t (c_tops c) -> R t = true) ->
  snd (do_call repaired s1 c) = snd (do_call repaired s2 c) /\
  snd (fst (do_call repaired s1 c)) = snd (fst (do_call repaired s2 c)) /\
  agree R (fst (fst (do_call repaired s1 c))) (fst (fst (do_call repaired s2 c))).
Proof. exact (frame_call R s1 s2 c). Qed.
Print Assumptions C08_frame_call.

(* 4b. (fix C08-4) a call that succeeds has completed EVERY pass of its list on EVERY module of its design, whatever the
       history — earlier failures, modules re-targeted since, passes that some earlier call already completed on the parents —
       and every module of a returned package has been completed by every pass and carries no failure record:
       no module is exported that some pass of the list has not (or only half) rewritten *)
Theorem C08_success_completes_design s c :
  snd (fst (do_call repaired s c)) = None ->
  forall p m, In p (c_passes c) -> In m (reach c) ->
    memp (pid p, m) (done (fst (fst (do_call repaired s c)))) = true /\
    rec_of m (failed (fst (fst (do_call repaired s c)))) = None.
Proof. exact (success_completes s c). Qed.
Print Assumptions C08_success_completes_design.

Theorem C08_exported_were_completed s c m p :
  In m (snd (do_call repaired s c)) -> In p (c_passes c) ->
  memp (pid p, m) (done (fst (fst (do_call repaired s c)))) = true /\
  rec_of m (failed (fst (fst (do_call repaired s c)))) = None.
Proof. exact (exported_completed s c m p). Qed.
Print Assumptions C08_exported_were_completed.

(* `reach c`, the design of a call, is what the statement above says it is: it contains the tops and is closed under
   instantiation (the depth-first walk of the model never runs out of its recursion bound) *)
Theorem C08_design_is_closed c :
  (forall t, In t (c_tops c) -> In t (reach c)) /\
  forall x cs ch, In x (reach c) -> assoc_kids (c_kids c) x = Some cs -> In ch cs -> In ch (reach c).
Proof. exact (reach_closed c). Qed.
Print Assumptions C08_design_is_closed.

(* without the sweep (the code after C08-1 .. C08-3): refuted, by the "repair and retry" continuation itself.  Top(1) ->
   Bad(0); pass 0 completes on both, the rewriting pass 1 fails in Bad.  Bad is refused for good, so the designer
   re-creates it as New(2) and points Top's instance at it.  The next call succeeds and returns a package with New
   although pass 0 never ran on it (in the code: its port references were never resolved, and the checking pass reports a
   spurious "Missing connection"); with the sweep pass 0 does run on New *)
Definition retarget_c1 : call :=
  {| c_kids := [(0, []); (1, [0])]%nat;
     c_passes := [{| pid := 0; prw := true; pmk := false |}; {| pid := 1; prw := true; pmk := false |}];
     c_tops := [1%nat]; c_fail := [(1%nat, 0%nat, 7)]; c_export := true |}.
Definition retarget_c2 : call :=
  {| c_kids := [(0, []); (2, []); (1, [2])]%nat;
     c_passes := [{| pid := 0; prw := true; pmk := false |}; {| pid := 1; prw := true; pmk := false |}];
     c_tops := [1%nat]; c_fail := []; c_export := true |}.
Theorem C08_success_completes_design_refuted_without_sweep :
  let s1 := fst (fst (do_call no_sweep init retarget_c1)) in
  let r2 := do_call no_sweep s1 retarget_c2 in
  snd (fst (do_call no_sweep init retarget_c1)) = Some (CE 7) /\
  snd (fst r2) = None /\ snd r2 = [2; 1]%nat /\ In 2%nat (reach retarget_c2) /\
  memp (0, 2)%nat (done (fst (fst r2))) = false /\
  (* the repaired bookkeeping on the same history *)
  memp (0, 2)%nat (done (fst (fst (do_call repaired (fst (fst (do_call repaired init retarget_c1))) retarget_c2)))) = true.
Proof. vm_compute. repeat split; auto. Qed.
Print Assumptions C08_success_completes_design_refuted_without_sweep.

(* 4c. a module that instantiates a module carrying a failure record is never completed by any pass, never recorded
       itself and never marked elaborated, by any call: a parent built around a failed module AFTER the failure stays as it
       was built (the record is looked at before the done-set), so that pointing its instances at a re-created module later
       meets no half-way state (with C08_frame_call: it is elaborated as from a fresh state) *)
Theorem C08_parent_of_failed_untouched s c x b cs :
  assoc_kids (c_kids c) x = Some cs -> In b cs -> rec_of b (failed s) <> None ->
  let s' := fst (fst (do_call repaired s c)) in
  (forall q, memp (q, x) (done s') = memp (q, x) (done s)) /\ rec_of x (failed s') = rec_of x (failed s) /\
  memn x (elab s') = memn x (elab s).
Proof. intros Hk Hb HB. exact (do_call_untouched s c x b cs Hk Hb HB). Qed.
Print Assumptions C08_parent_of_failed_untouched.

(* 2b. the record made by `except Exception` only (the code after C08-1 alone): refuted.  A KeyboardInterrupt (error
       identity -1) ends the rewriting pass in Bad: Bad is half-rewritten and unrecorded, and the retry exports it.
       The removal from `pending` by `except Exception` instead of `finally`: refuted as well — Top and Bad stay pending and
       the retry reports a circular dependency in Top *)
Theorem C08_interrupt_refuted_on_except_exception :
  (let s1 := fst (fst (do_call record_exc_only init (wit_call [(0%nat, 0%nat, -1)]))) in
   snd (fst (do_call record_exc_only init (wit_call [(0%nat, 0%nat, -1)]))) = Some (CE (-1)) /\
   In 0%nat (half s1) /\ failed s1 = [] /\
   snd (fst (do_call record_exc_only s1 (wit_call []))) = None /\ In 0%nat (snd (do_call record_exc_only s1 (wit_call [])))) /\
  (let s1 := fst (fst (do_call cleanup_exc_only init (wit_call [(0%nat, 0%nat, -1)]))) in
   pend s1 = [(0, 0); (0, 1)]%nat /\
   snd (fst (do_call cleanup_exc_only s1 (wit_call [(0%nat, 0%nat, -1)]))) = Some (CCycle 1)) /\
  (* an Exception (identity 7) is handled by both variants as by the repaired code *)
  (let s1 := fst (fst (do_call record_exc_only init (wit_call [(0%nat, 0%nat, 7)]))) in failed s1 = [(0%nat, 7)] /\ pend s1 = []) /\
  (let s1 := fst (fst (do_call cleanup_exc_only init (wit_call [(0%nat, 0%nat, 7)]))) in failed s1 = [(0%nat, 7)] /\ pend s1 = []) /\
  (* the repaired code on the interrupted history: recorded, nothing pending, the retry reports the interrupt again *)
  (let s1 := fst (fst (do_call repaired init (wit_call [(0%nat, 0%nat, -1)]))) in
   failed s1 = [(0%nat, -1)] /\ pend s1 = [] /\ do_call repaired s1 (wit_call []) = (s1, Some (CE (-1)), [])).
Proof. vm_compute. repeat split; auto. Qed.
Print Assumptions C08_interrupt_refuted_on_except_exception.

(* KNOWN FINDING (tools/findings/C08.json; not repaired).  What the sweep does not reach is the CONTENT of a healthy module
   of a failed design: the passes before the failing one have completed it, and - unlike a module whose elaboration
   succeeded, which refuses additions - it still accepts them; no completed pass runs its body on it again, whatever
   that body would do with the additions.  Top(2) -> [Sib(0); Bad(1)]; the rewriting pass 1 fails in Bad after pass 0
   completed all three; then Sib alone: for EVERY behaviour of pass 0 on Sib (even raising `code`) the call succeeds
   without running it.  (In the code: port references added to Sib are never resolved, and the call reports a spurious
   "Missing connection" where a fresh process returns a package.) *)
Theorem C08_completed_pass_never_sees_later_additions code :
  let c1 := {| c_kids := [(0, []); (1, []); (2, [0; 1])]%nat;
               c_passes := [{| pid := 0; prw := true; pmk := false |}; {| pid := 1; prw := true; pmk := false |}];
               c_tops := [2%nat]; c_fail := [(1%nat, 1%nat, 7)]; c_export := true |} in
  let c2 := {| c_kids := [(0, []); (1, []); (2, [0; 1])]%nat;
               c_passes := [{| pid := 0; prw := true; pmk := false |}; {| pid := 1; prw := true; pmk := false |}];
               c_tops := [0%nat]; c_fail := [(0%nat, 0%nat, code)]; c_export := true |} in
  let s1 := fst (fst (do_call repaired init c1)) in
  snd (fst (do_call repaired init c1)) = Some (CE 7) /\ memp (0, 0)%nat (done s1) = true /\ memn 0%nat (elab s1) = false /\
  snd (fst (do_call repaired s1 c2)) = None /\ snd (do_call repaired s1 c2) = [0%nat].
Proof. vm_compute. repeat split. Qed.
Print Assumptions C08_completed_pass_never_sees_later_additions.

(* the model's recursion bound (number of modules of the design + 1) is never the reason an elaboration fails: CFuel is
   unreachable for every pass list, tops, design graph (cyclic ones included), oracle and starting state.
   (The EXPORT walk of a cyclic graph that no pass has looked at - an empty pass list - does exhaust it, as the code
   exhausts Python's recursion limit there.) *)
Theorem C08_fuel_suffices s c :
  snd (run_passes repaired (assoc_kids (c_kids c)) (assoc_fail (c_fail c)) (call_fuel c) (c_passes c) (c_tops c) s) <> Some CFuel.
Proof. exact (fuel_passes (c_kids c) (assoc_fail (c_fail c)) _ (c_passes c) s). Qed.
Print Assumptions C08_fuel_suffices.

(* 5. generators: a call that ends with ANY failure — an Exception or any other BaseException raised by its own body, a
      body that returns no Module, a failing nested call, a genuine cycle — of a cached or an uncached generator leaves
      nothing pending and nothing on the stack; it is not cached, and the next call runs the body again *)
Theorem C08_generator_cache_restored cached calls gf fuel s k :
  gpend (fst (grun GFinally cached calls gf fuel s k)) = gpend s /\ gstack (fst (grun GFinally cached calls gf fuel s k)) = gstack s.
Proof.
  destruct (grun GFinally cached calls gf fuel s k) as [s' o] eqn:E. destruct (grun_good cached calls gf fuel _ _ _ _ E) as (A1 & A2 & _). split; assumption.
Qed.
Print Assumptions C08_generator_cache_restored.

Theorem C08_generator_rerun cached calls gf fuel n s k e :
  gpend s = [] ->
  snd (grun GFinally cached calls gf (S fuel) s k) = Some e ->
  let s' := fst (grun GFinally cached calls gf (S fuel) s k) in
  gpend s' = [] /\ gstack s' = gstack s /\ cached k && gmem k (gdone s') = false /\
  exists l, gruns (fst (grun GFinally cached calls gf (S n) s' k)) = l ++ k :: gruns s'.
Proof. exact (gen_rerun cached calls gf fuel n s k e). Qed.
Print Assumptions C08_generator_rerun.

Theorem C08_generator_pending_refuted_on_pinned :
  exists gf, let s1 := fst (grun GNever (fun _ => true) (fun _ => []) gf 3 ginit 0%nat) in
    snd (grun GNever (fun _ => true) (fun _ => []) gf 3 ginit 0%nat) = Some (GE 0 0) /\ gpend s1 <> [] /\
    snd (grun GNever (fun _ => true) (fun _ => []) (fun _ _ => None) 3 s1 0%nat) = Some (GCycle 0).
Proof. exists (fun _ _ => Some (0%nat, 0%nat)). vm_compute. repeat split. discriminate. Qed.
Print Assumptions C08_generator_pending_refuted_on_pinned.

(* `except Exception: pending.remove(call); raise` in place of `finally` (a seeded change): refuted.  Outer(1) calls
   Inner(0) whose body is ended by a KeyboardInterrupt (kind 2): both stay pending although the stack is unwound, and
   calling either again reports a circular dependency without running the body; an Exception (kind 0) is handled *)
Theorem C08_generator_refuted_on_except_exception :
  let calls := fun k => match k with 1%nat => [0%nat] | _ => [] end in
  let interrupted := fun k (_ : nat) => match k with 0%nat => Some (0%nat, 2%nat) | _ => None end in
  let s1 := fst (grun GExcOnly (fun _ => true) calls interrupted 4 ginit 1%nat) in
  snd (grun GExcOnly (fun _ => true) calls interrupted 4 ginit 1%nat) = Some (GE 0 2) /\
  gpend s1 = [0; 1]%nat /\ gstack s1 = [] /\
  snd (grun GExcOnly (fun _ => true) calls (fun _ _ => None) 4 s1 1%nat) = Some (GCycle 1) /\
  snd (grun GExcOnly (fun _ => true) calls (fun _ _ => None) 4 s1 0%nat) = Some (GCycle 0) /\
  gruns (fst (grun GExcOnly (fun _ => true) calls (fun _ _ => None) 4 s1 0%nat)) = gruns s1 /\
  gpend (fst (grun GExcOnly (fun _ => true) calls (fun k _ => match k with 0%nat => Some (0%nat, 0%nat) | _ => None end) 4 ginit 1%nat)) = [].
Proof. vm_compute. repeat split. Qed.
Print Assumptions C08_generator_refuted_on_except_exception.

(* ---- non-vacuity *)
(* Top(2) -> [Leaf(0); Bad(1)], two passes: a checking pass 0 and a rewriting pass 1 whose body raises 7 in Bad *)
Definition ex_call (fl : list (nat * nat * Z)) (tops : list nat) : call :=
  {| c_kids := [(0, []); (1, [0]); (2, [0; 1]); (3, [0])]%nat;
     c_passes := [{| pid := 0; prw := false; pmk := false |}; {| pid := 1; prw := true; pmk := false |}; {| pid := 2; prw := false; pmk := true |}];
     c_tops := tops; c_fail := fl; c_export := true |}.

Example C08_ex_sticky :
  let s1 := fst (fst (do_call repaired init (ex_call [(1%nat, 1%nat, 7)] [2%nat]))) in
  snd (fst (do_call repaired init (ex_call [(1%nat, 1%nat, 7)] [2%nat]))) = Some (CE 7) /\
  half s1 = [1%nat] /\ failed s1 = [(1%nat, 7)] /\ pend s1 = [] /\
  memp (1, 0)%nat (done s1) = true /\ memp (1, 2)%nat (done s1) = false /\
  (* the designer removes the fault and retries: still error 7, nothing exported *)
  do_call repaired s1 (ex_call [] [2%nat]) = (s1, Some (CE 7), []) /\
  (* a design sharing Leaf but not Bad is exported as from a fresh state *)
  snd (do_call repaired s1 (ex_call [] [3%nat])) = [0; 3]%nat /\
  snd (do_call repaired init (ex_call [] [3%nat])) = [0; 3]%nat.
Proof. vm_compute. repeat split. Qed.

(* "repair and retry" by re-creating the failed module: Top(2) -> [Leaf(0); Bad(1)], Bad fails in the rewriting pass 1 after
   the checking pass 0 completed on everything.  New(4) replaces Bad in Top: the retry succeeds, exports New, and every
   pass has run on New; a new parent NP(5) built around Bad is refused untouched, and accepted once re-targeted *)
Definition ex_kids2 (bad : nat) : list (nat * list nat) := [(0, []); (1, [0]); (4, [0]); (2, [0; bad]); (5, [bad; 0])]%nat.
Definition ex_call2 (bad : nat) (fl : list (nat * nat * Z)) (tops : list nat) : call :=
  {| c_kids := ex_kids2 bad;
     c_passes := [{| pid := 0; prw := false; pmk := false |}; {| pid := 1; prw := true; pmk := false |}; {| pid := 2; prw := false; pmk := true |}];
     c_tops := tops; c_fail := fl; c_export := true |}.
Example C08_ex_retarget :
  let s1 := fst (fst (do_call repaired init (ex_call2 1 [(1%nat, 1%nat, 7)] [2%nat]))) in
  snd (fst (do_call repaired init (ex_call2 1 [(1%nat, 1%nat, 7)] [2%nat]))) = Some (CE 7) /\
  memp (0, 2)%nat (done s1) = true /\                                        (* pass 0 is done with Top *)
  let r2 := do_call repaired s1 (ex_call2 4 [] [2%nat]) in
  snd (fst r2) = None /\ snd r2 = [0; 4; 2]%nat /\ snd r2 = snd (do_call repaired init (ex_call2 4 [] [2%nat])) /\
  memp (0, 4)%nat (done (fst (fst r2))) = true /\
  let r3 := do_call repaired s1 (ex_call2 1 [] [5%nat]) in                  (* a new parent of Bad *)
  snd (fst r3) = Some (CE 7) /\ memp (0, 5)%nat (done (fst (fst r3))) = false /\
  snd (do_call repaired (fst (fst r3)) (ex_call2 4 [] [5%nat])) = [0; 4; 5]%nat.
Proof. vm_compute. repeat split. Qed.

(* generality of the model: a pass whose failures are NOT recorded (prw = false; no default pass is declared so by the final
   repair, a tree could): same error on retry, success once the fault is gone *)
Example C08_ex_check_pass :
  let s1 := fst (fst (do_call repaired init (ex_call [(0%nat, 1%nat, 5)] [2%nat]))) in
  snd (fst (do_call repaired s1 (ex_call [(0%nat, 1%nat, 5)] [2%nat]))) = Some (CE 5) /\ failed s1 = [] /\
  snd (do_call repaired s1 (ex_call [] [2%nat])) = [0; 1; 2]%nat /\ elab (fst (fst (do_call repaired s1 (ex_call [] [2%nat])))) = [2; 1; 0]%nat.
Proof. vm_compute. repeat split. Qed.

(* a genuine cycle is reported as such, again and again, and leaves nothing pending *)
Example C08_ex_cycle :
  let c := {| c_kids := [(0, [1]); (1, [0])]%nat; c_passes := [{| pid := 0; prw := true; pmk := false |}];
              c_tops := [0%nat]; c_fail := []; c_export := false |} in
  do_call repaired init c = (init, Some (CCycle 0), []) /\ more_faults c c.
Proof. vm_compute. repeat split; auto. Qed.

Example C08_ex_generator :
  let calls := fun k => match k with 2%nat => [1; 0]%nat | 1%nat => [0%nat] | _ => [] end in
  let cached := fun k => negb (Nat.eqb k 1) in                       (* generator 1 has enable_cache=False *)
  let boom := fun k (_ : nat) => match k with 0%nat => Some (0%nat, 3%nat) | _ => None end in      (* SystemExit in the body of 0 *)
  let s1 := fst (grun GFinally cached calls boom 4 ginit 2%nat) in
  snd (grun GFinally cached calls boom 4 ginit 2%nat) = Some (GE 0 3) /\
  gpend s1 = [] /\ gstack s1 = [] /\ gdone s1 = [] /\
  snd (grun GFinally cached calls (fun _ _ => None) 4 s1 2%nat) = None /\
  gdone (fst (grun GFinally cached calls (fun _ _ => None) 4 s1 2%nat)) = [2; 0]%nat /\
  gruns (fst (grun GFinally cached calls (fun _ _ => None) 4 s1 2%nat)) = [0; 1; 2; 0; 1; 2]%nat.
Proof. vm_compute. repeat split. Qed.
