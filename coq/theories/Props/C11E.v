(* Props/C11E.v — C11 for every DESIGN, not for every package that happens to be normal.

   Props/C11.v proves  rt_pkg P = Ok P  (rt_pkg = the model of to_proto(from_proto(P).<tops>)) under normal-form hypotheses on
   the package P.  Here: the packages the exporter WRITES are in that normal form.

     to_c11 : package -> c11pkg          the package type of the exporter / pipeline models (Base/Package.v) read in the types of
                                         the round-trip model (Model/C11EConv.v; what Base/Package.v does not carry is listed there)
     c11_normal : c11pkg -> bool         ALL hypotheses of C11_pkg_roundtrip_partial / C11_mod_roundtrip as one boolean
     elab_export_model2 xi d             the pipeline model of Props/C01F.v: ResolvePortRefs (with update_ref_deps) ; ArrayFlattener ;
                                         SliceResolver ; ProtoExporter (depth first, definition before use)

   The hypotheses of the end-to-end theorems (all boolean, all evaluated by the correspondence run on every design, Corr/C11E.v):
     wf_design d = Ok tt, frag_ok2 d = true, xinfo_ok xi d = true      as in Props/C01F.v
     xinfo_c11_ok xi = true                                            the side table that spells leaf devices in VLSIR:
        - a device with its own ExternalModule: not in a primitive domain; the declaration has distinct port names, vlsir
          directions, a schema spice type; its parameters have distinct names and exportable values (dict_params_normal);
        - a PRIMITIVE device: (reference, parameter list) is a fixed point of rt_ref BY COMPUTATION, and the ports the design
          uses are ports of the primitive the importer finds;
        - every direction code is a member of vlsir.circuit.Port.Direction.

   Why _partial.  The full statement is  forall d xi p, wf_design d = Ok tt -> xinfo_ok xi d = true ->
   elab_export_model2 xi d = Ok p -> rt_pkg (to_c11 p) = Ok (to_c11 p).  Missing:
     (1) for primitive devices the parameter-list round trip is a decidable HYPOTHESIS on the side table, not a theorem - it is
         exactly the part of C11 that Props/C11.v leaves unproved (forall sc ps in the image of export_prim_params,
         rt_prim_params sc ps = Ok ps); everything else in xinfo_c11_ok is a genuine input condition (a table with an unknown
         direction code or spice type is not what any exporter writes);
     (2) parameter texts that are not what harness/impl/designlib.py:pval_str prints for a value the exporter writes (e.g. a
         prefixed decimal text that is not the canonical str(Decimal)): xinfo_c11_ok is false on them;
     (3) frag_ok2 (acyclic dependency between reference groups), inherited from the pipeline model (Props/C01F.v).
   Not a gap: the order of modules and external modules IS covered here (the walk is part of export_model), unlike in Props/C11.v. *)
Require Import Hdl21.Base.PyInt Hdl21.Spec.PySlice Hdl21.Model.Slice Hdl21.Model.Resolve Hdl21.Base.Design
               Hdl21.Spec.WfDesign Hdl21.Base.Package Hdl21.Base.PrimTable Hdl21.Spec.C01ENets Hdl21.Spec.C01FNets
               Hdl21.Model.C01EElab Hdl21.Model.C01FElab Hdl21.Proofs.C01EProofsWfs Hdl21.Proofs.C01EProofsSlices
               Hdl21.Model.C11RoundTrip Hdl21.Proofs.C11Proofs Hdl21.Model.C11EConv Hdl21.Proofs.C11ENormal Hdl21.Proofs.C11EResolve
               Hdl21.Proofs.C11EExport.
Require Hdl21.Props.C01E Hdl21.Props.C01F.
From Coq Require Import String.
Open Scope string_scope.
Open Scope Z_scope.

(* 1. The normal form, as ONE decidable predicate, is sufficient for the round trip (for every package). *)
Theorem C11E_normal_roundtrip : forall p, c11_normal p = true -> rt_pkg p = Ok p.
Proof. exact normal_roundtrip. Qed.
Print Assumptions C11E_normal_roundtrip.

(* 2. The slice resolver never emits a full-width slice: whatever _resolve_sliceable returns consists of signals of width >= 1
      and unit-step slices  b .. t-1  of a w-bit signal with 0 <= b < t <= w and NOT (b = 0 and t = w).
      (C11_full_width_slice_not_fixed is the non-fixed-point this excludes.)  For every expression - no hypothesis. *)
Theorem C11E_resolver_never_full_width : forall cx r, resolve cx = Ok r ->
  Forall (fun f => flat_proper f = true) (resolved_flats r).
Proof. exact resolve_proper. Qed.
Print Assumptions C11E_resolver_never_full_width.

(* ... and so every connection SliceResolver leaves in a design is such a resolved form, non-empty *)
Theorem C11E_slices_proper : forall d d', wfs d -> slices_design d = Ok d' -> proper_design d'.
Proof. exact slices_proper. Qed.
Print Assumptions C11E_slices_proper.

(* 3. The export step alone: the package export_model writes for ANY elaborated design (invariant of the passes: wfs, no
      arrays, connections resolved and proper) is in normal form. *)
Theorem C11E_export_step_normal : forall xi d p,
  wfs d -> no_arrays d -> resolved_design d -> proper_design d -> xinfo_ok xi d = true -> xinfo_c11_ok xi = true ->
  export_model xi d = Ok p -> c11_normal (to_c11 p) = true.
Proof. exact export_model_normal. Qed.
Print Assumptions C11E_export_step_normal.

(* 4. C11E_export_normal: every package the pipeline model produces for a valid design is in the round trip's normal form:
      distinct external declarations, each normal; module names unique and definition before use, so that find_c11mod finds the
      EARLIER module; internal signals first, then the ports in port order; distinct instance names; every connection names a port
      of its target once; every target is a signal of width >= 1, a proper in-range slice, or a flat non-empty concatenation of
      those; parameters as the side table spells them. *)
Theorem C11E_export_normal_partial : forall xi d p,
  wf_design d = Ok tt -> frag_ok2 d = true -> xinfo_ok xi d = true -> xinfo_c11_ok xi = true ->
  elab_export_model2 xi d = Ok p -> c11_normal (to_c11 p) = true.
Proof. exact pipeline_pkg_normal. Qed.
Print Assumptions C11E_export_normal_partial.

(* 5. C11 end to end: the package exported for a design survives the round trip. *)
Theorem C11E_round_trip_end_to_end_partial : forall xi d p,
  wf_design d = Ok tt -> frag_ok2 d = true -> xinfo_ok xi d = true -> xinfo_c11_ok xi = true ->
  elab_export_model2 xi d = Ok p -> rt_pkg (to_c11 p) = Ok (to_c11 p).
Proof. exact pipeline_round_trip. Qed.
Print Assumptions C11E_round_trip_end_to_end_partial.

(* ------------------------------------------------------------------------------------------ non-vacuity *)
(* the three-level design of Props/C01E.v (shared sub-module, reference chain and cycle, shared no-connect, an array wired per
   element and by broadcast, a nested negative-step slice, an external module) and the nested-reference design of Props/C01F.v
   satisfy every hypothesis; the model exports them; the packages are normal and fixed points of rt_pkg by computation too *)
Example C11E_ex_hypotheses :
  wf_design C01E.ex_design = Ok tt /\ frag_ok2 C01E.ex_design = true /\ xinfo_ok C01E.ex_xinfo C01E.ex_design = true /\
  xinfo_c11_ok C01E.ex_xinfo = true /\
  wf_design C01F.ex2_design = Ok tt /\ frag_ok2 C01F.ex2_design = true /\ xinfo_ok C01F.ex2_xinfo C01F.ex2_design = true /\
  xinfo_c11_ok C01F.ex2_xinfo = true.
Proof. vm_compute. repeat split; reflexivity. Qed.

Example C11E_ex_round_trip :
  (exists p, elab_export_model2 C01E.ex_xinfo C01E.ex_design = Ok p /\ c11_normal (to_c11 p) = true /\
             rt_pkg (to_c11 p) = Ok (to_c11 p) /\ List.length (ck_mods (to_c11 p)) = 3%nat /\ List.length (ck_exts (to_c11 p)) = 1%nat) /\
  (exists p, elab_export_model2 C01F.ex2_xinfo C01F.ex2_design = Ok p /\ c11_normal (to_c11 p) = true /\
             rt_pkg (to_c11 p) = Ok (to_c11 p) /\ List.length (ck_mods (to_c11 p)) = 4%nat).
Proof. split; (eexists; split; [vm_compute; reflexivity|]; vm_compute; repeat split; reflexivity). Qed.

(* a full-width slice written by the designer - s[0:2] of a 2-bit signal, and the one-element array that takes all of b - leaves
   the pipeline as the SIGNAL; the package is normal and survives *)
Definition exfw_design : design :=
  {| d_mods := [{| m_name := "W2"; m_ports := [("a", 2)]; m_sigs := [];
                   m_insts := [{| i_name := "r0"; i_n := 0; i_of := TDev "vlsir.primitives/resistor{r=pre:UNIT:i1;}" [("p", 1); ("n", 1)];
                                  i_conns := [("p", XSlice (XSig 0%N 2) (Idx 0)); ("n", XSlice (XSig 0%N 2) (Idx 1))] |}];
                   m_leaves := [(0%N, LSig "a")] |};
                {| m_name := "Top"; m_ports := []; m_sigs := [("s", 2); ("b", 2)];
                   m_insts := [{| i_name := "i1"; i_n := 0; i_of := TMod 0%nat;
                                  i_conns := [("a", XSlice (XSig 0%N 2) (Sl (Some 0) (Some 2) None))] |};
                               {| i_name := "arr"; i_n := 1; i_of := TMod 0%nat; i_conns := [("a", XSig 1%N 2)] |}];
                   m_leaves := [(0%N, LSig "s"); (1%N, LSig "b")] |}]; d_top := 1%nat |}.
Definition exfw_xinfo : xinfo :=
  {| x_devs := [("vlsir.primitives/resistor{r=pre:UNIT:i1;}",
                 {| dv_dom := "vlsir.primitives"; dv_name := "resistor"; dv_params := [("r", "pre:UNIT:i1")]; dv_ext := None |})];
     x_ncnames := [("W2", []); ("Top", [])]; x_dirs := [("W2", [("a", 2)]); ("Top", [])] |}.

Example C11E_ex_full_width :
  wf_design exfw_design = Ok tt /\ frag_ok2 exfw_design = true /\ xinfo_ok exfw_xinfo exfw_design = true /\ xinfo_c11_ok exfw_xinfo = true /\
  exists p top, elab_export_model2 exfw_xinfo exfw_design = Ok p /\ nth_error (pk_mods p) 1 = Some top /\
    map (fun i => (pi_name i, assoc "a" (pi_conns i))) (pm_insts top) = [("i1", Some (PSig "s")); ("arr_0", Some (PSig "b"))] /\
    rt_pkg (to_c11 p) = Ok (to_c11 p).
Proof.
  split; [vm_compute; reflexivity|]. split; [vm_compute; reflexivity|]. split; [vm_compute; reflexivity|]. split; [vm_compute; reflexivity|].
  eexists. eexists. split; [vm_compute; reflexivity|]. split; [vm_compute; reflexivity|]. vm_compute. split; reflexivity.
Qed.

(* the hypothesis on the side table is not vacuous the other way either: an unknown direction code, a primitive parameter the
   importer would change (a numeric STRING for a scalar field comes back as a literal), a prefixed decimal text that is not what
   its Decimal prints as (1.5E+0) are refused; the literal and the canonical decimal are accepted *)
Example C11E_ex_side_table_refused :
  xinfo_c11_ok {| x_devs := []; x_ncnames := []; x_dirs := [("M", [("a", 7)])] |} = false /\
  dev_c11_ok {| dv_dom := "vlsir.primitives"; dv_name := "resistor"; dv_params := [("r", "str:1e3")]; dv_ext := None |} = false /\
  dev_c11_ok {| dv_dom := "vlsir.primitives"; dv_name := "resistor"; dv_params := [("r", "pre:KILO:s1.5E+0")]; dv_ext := None |} = false /\
  dev_c11_ok {| dv_dom := "vlsir.primitives"; dv_name := "resistor"; dv_params := [("r", "pre:KILO:s1.5")]; dv_ext := None |} = true /\
  dev_c11_ok {| dv_dom := "vlsir.primitives"; dv_name := "resistor"; dv_params := [("r", "lit:1e3")]; dv_ext := None |} = true.
Proof. vm_compute. repeat split; reflexivity. Qed.

(* the parameter text reader on every kind of value pval_str prints *)
Example C11E_ex_parse :
  map parse_pvalue ["int:-12"; "int:012"; "dbl:0x1.8p+1"; "str:a:b"; "lit:"; "pre:MILLI:i5"; "pre:UNIT:s1.50"; "pre:UNIT:s-2.5E-7";
                    "pre:UNIT:s15E-1"; "pre:UNIT:d0x1p+0"; "?None"] =
  [VInt (-12); VUnset; VDbl "0x1.8p+1"; VStr "a:b"; VLit ""; VPre "MILLI" (NInt 5); VPre "UNIT" (NDec (Dec.mkDec false 150 (-2)));
   VPre "UNIT" (NDec (Dec.mkDec true 25 (-8))); VPre "UNIT" (NRaw "15E-1"); VPre "UNIT" (NDbl "0x1p+0"); VUnset].
Proof. vm_compute. reflexivity. Qed.
