(* Props/C04E.v — property C04 END TO END for the core fragment: operation histories on the connection books
   (Model/C04ConnOps.v, Props/C04.v)  ;  the dictionary books -> written design (Model/C04EBridge.v)  ;  the pipeline model
   ResolvePortRefs incl. nested references ; ArrayFlattener ; SliceResolver ; proto export (Model/C01FElab.v, Props/C01F.v).
   Statements only; proofs in Proofs/C04EProofs.v (dictionary) and Proofs/C04EEnd.v (composition).

   `run ops` is the state of the model of hdl21/instance.py after ANY finite list of call / assignment / connect /
   replace / disconnect / reference-fetching operations (Props/C04.v).  A `universe` u says what the integers of that model
   stand for in one parent module (instances with their targets and port lanes, signals, what each connectable object is).
     design_of u m        the Base/Design.v design in which the ports of u are connected as the mapping m says,
     state_design u s     = design_of u (the `conns` of the state s): what the elaborator is handed,
     pkg_of_state xi u s  = the pipeline model's exported package for state_design u s.
   Boolean hypotheses (all evaluated per case by the correspondence run, Corr/C04E.v):
     u_ok u               the tables of u are tables (unique instance identities / names, unique lane names per instance,
                          unique leaf identifiers, no object expression is a bare reference / no-connect leaf),
     shape_ok u m         m is spelled by the tables (references go to the same lane of a port of a single instance of the
                          module; every no-connect and object has its entry),
     closed_ok u s        every connected port of s is a port of u (nothing on a name that is no port, nothing on an
                          instance that is not part of the module),
     wf_design / frag_ok2 / xinfo_ok of design_of u (final . ops): the final mapping is complete and valid (Spec/WfDesign.v),
                          the dependency between reference groups is acyclic (Spec/C01FNets.v), xi spells the devices.
   Connectable kinds: port references, no-connects, and - through the expression table u_objs - signals, slices,
   concatenations (also of port references).  Bundle instances / anonymous bundles enter only through their member-wise
   lowering in u_objs and bundle-valued ports through one lane per member: that lowering is the modelling assumption of
   Props/C01F.v (C01F_bundles_end_to_end_partial), not a theorem; a universe with single-lane ports does not use it. *)
From Coq Require Import String.
Require Import Hdl21.Base.PyInt Hdl21.Spec.PySlice Hdl21.Model.Slice Hdl21.Model.Resolve Hdl21.Base.Design
               Hdl21.Spec.Nets Hdl21.Spec.WfDesign Hdl21.Base.Package Hdl21.Base.PrimTable Hdl21.Spec.PkgWf Hdl21.Spec.C01ENets
               Hdl21.Model.C04ConnOps Hdl21.Spec.C04LastWrite Hdl21.Model.C04Groups
               Hdl21.Proofs.FunGraph Hdl21.Model.C01EElab Hdl21.Model.C01FElab Hdl21.Spec.C01FNets Hdl21.Proofs.C01FProofsEnd
               Hdl21.Model.C04EBridge Hdl21.Model.C04EPipe Hdl21.Proofs.C04EProofs Hdl21.Proofs.C04EEnd Hdl21.Proofs.C04EShape Hdl21.Model.C04EOrd Hdl21.Proofs.C04EOrd Hdl21.Proofs.C04EGroups2.
Open Scope Z_scope.

(* 1. What the elaborator is handed after ANY history is the design of the FINAL mapping: state_design reads `conns`,
      and `conns` is Spec/C04LastWrite.v:final (Props/C04.v:C04_final_mapping_only); design_of looks at the mapping only
      on the ports of the universe. *)
Theorem C04E_state_design_is_final u ops : state_design u (run ops) = design_of u (fun q => final q ops).
Proof. exact (state_design_final u ops). Qed.
Print Assumptions C04E_state_design_is_final.

Theorem C04E_design_of_mapping_only u m1 m2 : (forall q, In q (upids u) -> m1 q = m2 q) -> design_of u m1 = design_of u m2.
Proof. exact (design_of_ext u m1 m2). Qed.
Print Assumptions C04E_design_of_mapping_only.

(* 2. THE GROUPS AGREE.  portrefs.py:follow, run on the BOOKS of `run ops` (it walks `conns` forwards and the back-reference
      sets `_connected_ports` backwards, restricted to instances of the module: Model/C04Groups.v), and the group discovery
      of the pipeline model, which reads only the design of the FINAL mapping (Model/C01EElab.v:gid over nxt), find the same
      groups: for the group g of ANY seed q, after ANY history, a port r is a member of g exactly when the pipeline model
      gives lane k of q and lane k of r the same group identifier.  (q, r: ports of single instances known to the design:
      In a keys, In b keys.)  A stale back-reference - a port still listed by something it was once connected to -
      would make the left side larger than the right. *)
Theorem C04E_groups_agree u ops inmod fuel q r g k a b keys :
  u_ok u = true -> shape_ok u (fun x => final x ops) = true -> closed_ok u (run ops) = true ->
  (forall x, In x (u_insts u) -> inmod (ui_id x) = true) ->
  wf_design (design_of u (fun x => final x ops)) = Ok tt ->
  all_keys (design_of u (fun x => final x ops)) (top_of u (fun x => final x ops)) = Ok keys ->
  follow (run ops) inmod fuel q [] = Some g ->
  key_of u q k = Some a -> key_of u r k = Some b -> In a keys -> In b keys ->
  (In (GRef r) g <-> gid (top_of u (fun x => final x ops)) keys a = gid (top_of u (fun x => final x ops)) keys b).
Proof. exact (groups_agree u ops inmod fuel q r g k a b keys). Qed.
Print Assumptions C04E_groups_agree.

(* ... shape_ok is no extra assumption on a VALID final mapping: what the tables do not spell becomes the orphan leaf, which
   Spec/WfDesign.v rejects (EOrphan), and a reference to a port of an InstanceArray is rejected as EBadKind *)
Theorem C04E_valid_is_spelled u m : u_ok u = true -> wf_design (design_of u m) = Ok tt -> shape_ok u m = true.
Proof. exact (wf_shape u m). Qed.
Print Assumptions C04E_valid_is_spelled.

Theorem C04E_groups_agree_valid u ops inmod fuel q r g k a b keys :
  u_ok u = true -> closed_ok u (run ops) = true ->
  (forall x, In x (u_insts u) -> inmod (ui_id x) = true) ->
  wf_design (design_of u (fun x => final x ops)) = Ok tt ->
  all_keys (design_of u (fun x => final x ops)) (top_of u (fun x => final x ops)) = Ok keys ->
  follow (run ops) inmod fuel q [] = Some g ->
  key_of u q k = Some a -> key_of u r k = Some b -> In a keys -> In b keys ->
  (In (GRef r) g <-> gid (top_of u (fun x => final x ops)) keys a = gid (top_of u (fun x => final x ops)) keys b).
Proof. exact (groups_agree_valid u ops inmod fuel q r g k a b keys). Qed.
Print Assumptions C04E_groups_agree_valid.

(* ... and closed_ok is not needed either: instances that are NOT part of the module - the template consumed by `n * Instance`
   stays connected to whatever it was connected to, also to references to ports of the module - may hold any connections.
   `follow` filters them out of the back-reference sets (repair C04-2: inmod), the design does not contain them: the groups
   still agree.  Hypotheses left: the tables are tables, the module filter accepts the instances of the module, the final
   mapping is valid, q and r are ports of single instances of the design. *)
Theorem C04E_groups_agree_open u ops inmod fuel q r g k a b keys :
  u_ok u = true -> (forall x, In x (u_insts u) -> inmod (ui_id x) = true) ->
  wf_design (design_of u (fun x => final x ops)) = Ok tt ->
  all_keys (design_of u (fun x => final x ops)) (top_of u (fun x => final x ops)) = Ok keys ->
  follow (run ops) inmod fuel q [] = Some g ->
  key_of u q k = Some a -> key_of u r k = Some b -> In a keys -> In b keys ->
  (In (GRef r) g <-> gid (top_of u (fun x => final x ops)) keys a = gid (top_of u (fun x => final x ops)) keys b).
Proof. exact (groups_agree_open u ops inmod fuel q r g k a b keys). Qed.
Print Assumptions C04E_groups_agree_open.

(* ... because the dictionary commutes with "the port my connection refers to" and is injective: the two functional
   graphs have the same weak components (any mapping, not only reachable ones) *)
Theorem C04E_same_components u m q r k a b : u_ok u = true -> shape_ok u m = true ->
  key_of u q k = Some a -> key_of u r k = Some b ->
  (FunGraph.conn pid (nxtP m) q r <-> FunGraph.conn key (nxt (top_of u m)) a b).
Proof. intros Hu Hs. exact (conn_key u m Hu Hs q r k a b). Qed.
Print Assumptions C04E_same_components.

(* ... and on the books a group of `follow` is exactly the component of its seed (Props/C04.v:C04_group_is_component, here
   with the module filter of the repaired code) *)
Theorem C04E_group_is_component u ops inmod fuel q g r :
  closed_ok u (run ops) = true -> (forall x, In x (u_insts u) -> inmod (ui_id x) = true) ->
  follow (run ops) inmod fuel q [] = Some g -> (In (GRef r) g <-> reach (run ops) q r).
Proof. exact (component_inmod u ops inmod fuel q g r). Qed.
Print Assumptions C04E_group_is_component.

(* 3. END TO END.  For EVERY operation history whose final mapping is complete and valid, the package the pipeline model
      exports from the state `run ops` has - on the terminals (bits of top-level ports, port bits of every leaf device), read
      as the VLSIR netlisters read it - exactly the nets Spec/Nets.v gives the design of the FINAL mapping, and every leaf
      device is there with its identity.
      _partial: (i) frag_ok2 (no loop between the sources of reference groups; see Props/C01F.v); (ii) bundle kinds only
      through the lowering tables of u (assumption, see the header); (iii) the pipeline model is tied to the code by the
      correspondence run, and reads `conns` only - that the code's own group discovery, which also reads the back-reference
      sets, sees the same groups is theorem 2; what the code does with `_refs.portrefs` entries that are no longer used
      (Props/C04.v:C04_stale_ref_harmless) and the ORDER of `conns` / of reference fetching (they decide only the order and
      the names of invented signals, which the property does not fix) are not carried by state_design. *)
Theorem C04E_end_to_end_partial xi u ops p ts :
  wf_design (design_of u (fun q => final q ops)) = Ok tt -> frag_ok2 (design_of u (fun q => final q ops)) = true ->
  xinfo_ok xi (design_of u (fun q => final q ops)) = true ->
  pkg_of_state xi u (run ops) = Ok p -> terminals (design_of u (fun q => final q ops)) = Ok ts ->
  let d := design_of u (fun q => final q ops) in
  exists tn, top_name d = Ok tn /\
    (forall t1 t2 dev1 dev2, In (t1, dev1) ts -> In (t2, dev2) ts ->
       (same_net_pkg p tn (term_map2 xi d t1) (term_map2 xi d t2) <-> same_net d t1 t2)) /\
    (forall t dev, In (t, dev) ts ->
       exists pd, design_of_pkg prims_ext p tn = Ok pd /\ valid pd (term_map2 xi d t) /\ dev_at pd (term_map2 xi d t) = Ok dev).
Proof. exact (end_to_end xi u ops p ts). Qed.
Print Assumptions C04E_end_to_end_partial.

(* ... and the pipeline model accepts every such state (except through flatname's length limit, as the code) *)
Theorem C04E_total_partial xi u ops :
  wf_design (design_of u (fun q => final q ops)) = Ok tt -> frag_ok2 (design_of u (fun q => final q ops)) = true ->
  xinfo_ok xi (design_of u (fun q => final q ops)) = true ->
  (exists p, pkg_of_state xi u (run ops) = Ok p) \/ pkg_of_state xi u (run ops) = Error EName.
Proof. exact (state_total xi u ops). Qed.
Print Assumptions C04E_total_partial.

(* 4. NO TRACE.  Two histories with the same final mapping on the ports of the module give the SAME design and the SAME
      exported package (equal as data: every module, signal, instance, connection target), whatever was connected and
      later replaced or disconnected on the way, whatever was refused, whichever references were fetched: no net merges
      or splits because of it.  No hypothesis on validity: an invalid final mapping is rejected with the same error. *)
Theorem C04E_no_trace xi u ops1 ops2 :
  (forall q, In q (upids u) -> final q ops1 = final q ops2) ->
  state_design u (run ops1) = state_design u (run ops2) /\ pkg_of_state xi u (run ops1) = pkg_of_state xi u (run ops2).
Proof. exact (no_trace xi u ops1 ops2). Qed.
Print Assumptions C04E_no_trace.

(* 5. THE ORDER OF `conns` LEAVES NO ELECTRICAL TRACE EITHER.  design_of lists an instance's connections in slot order; the
      elaborator is handed them in the order of the `conns` dict, which depends on the history (a new key goes last, a replaced
      key keeps its place).  Model/C04EOrd.v:state_design_ord is the design in THAT order (what `conns` literally holds), and
      pkg_of_state_ord the pipeline model's package for it: order and names of invented signals, and the order of an instance's
      connections in the package, follow the history.  The one-step map of Spec/Nets.v is the same on ALL nodes ... *)
Theorem C04E_order_free_nets u l x y : u_ok u = true -> wf_design (design_ord u l) = Ok tt ->
  (same_net (design_ord u l) x y <-> same_net (design_of u (fun q => lookup q l)) x y).
Proof. exact (same_net_ord u l x y). Qed.
Print Assumptions C04E_order_free_nets.

(* ... so END TO END holds for the design in dict order as well: for EVERY history whose state gives a complete valid
   design, the nets of the package exported from state_design_ord u (run ops) are the nets Spec/Nets.v gives the design of the
   FINAL mapping.  (_partial as theorem 3; the order in which references were FETCHED is still not carried: Base/Design.v
   derives it from the order of the connections.) *)
Theorem C04E_end_to_end_ordered_partial xi u ops p ts :
  u_ok u = true ->
  wf_design (state_design_ord u (run ops)) = Ok tt -> frag_ok2 (state_design_ord u (run ops)) = true ->
  xinfo_ok xi (state_design_ord u (run ops)) = true ->
  pkg_of_state_ord xi u (run ops) = Ok p -> terminals (state_design_ord u (run ops)) = Ok ts ->
  let dord := state_design_ord u (run ops) in
  exists tn, top_name dord = Ok tn /\
    (forall t1 t2 dev1 dev2, In (t1, dev1) ts -> In (t2, dev2) ts ->
       (same_net_pkg p tn (term_map2 xi dord t1) (term_map2 xi dord t2) <-> same_net (design_of u (fun q => final q ops)) t1 t2)) /\
    (forall t dev, In (t, dev) ts ->
       exists pd, design_of_pkg prims_ext p tn = Ok pd /\ valid pd (term_map2 xi dord t) /\ dev_at pd (term_map2 xi dord t) = Ok dev).
Proof. exact (end_to_end_ord xi u ops p ts). Qed.
Print Assumptions C04E_end_to_end_ordered_partial.

(* ... and NO TRACE at the level of nets: two histories with the same final mapping may export packages that differ in the
   order / names of what the passes invent, but on every pair of common terminals the two packages have the same nets *)
Theorem C04E_no_trace_ordered_partial xi u ops1 ops2 p1 p2 ts1 ts2 :
  u_ok u = true -> (forall q, In q (upids u) -> final q ops1 = final q ops2) ->
  wf_design (state_design_ord u (run ops1)) = Ok tt -> frag_ok2 (state_design_ord u (run ops1)) = true ->
  xinfo_ok xi (state_design_ord u (run ops1)) = true ->
  wf_design (state_design_ord u (run ops2)) = Ok tt -> frag_ok2 (state_design_ord u (run ops2)) = true ->
  xinfo_ok xi (state_design_ord u (run ops2)) = true ->
  pkg_of_state_ord xi u (run ops1) = Ok p1 -> pkg_of_state_ord xi u (run ops2) = Ok p2 ->
  terminals (state_design_ord u (run ops1)) = Ok ts1 -> terminals (state_design_ord u (run ops2)) = Ok ts2 ->
  exists tn1 tn2, top_name (state_design_ord u (run ops1)) = Ok tn1 /\ top_name (state_design_ord u (run ops2)) = Ok tn2 /\
    forall t1 t2 dev1 dev2 dev1' dev2', In (t1, dev1) ts1 -> In (t2, dev2) ts1 -> In (t1, dev1') ts2 -> In (t2, dev2') ts2 ->
      (same_net_pkg p1 tn1 (term_map2 xi (state_design_ord u (run ops1)) t1) (term_map2 xi (state_design_ord u (run ops1)) t2) <->
       same_net_pkg p2 tn2 (term_map2 xi (state_design_ord u (run ops2)) t1) (term_map2 xi (state_design_ord u (run ops2)) t2)).
Proof. exact (no_trace_ord xi u ops1 ops2 p1 p2 ts1 ts2). Qed.
Print Assumptions C04E_no_trace_ordered_partial.

(* ------------------------------------------------------------------------------------------------ non-vacuity
   Leaf(a, b: 2 bits, a resistor across the bits of each); Top with s0, s1 (2), wide (4) and three Leaf instances. *)
Definition ex_res : target := TDev "vlsir.primitives/resistor{r=pre:UNIT:i1;}" [("p", 1); ("n", 1)].
Definition ex_leaf : module :=
  {| m_name := "Leaf"; m_ports := [("a", 2); ("b", 2)]; m_sigs := [];
     m_insts := [{| i_name := "r0"; i_n := 0; i_of := ex_res;
                    i_conns := [("p", XSlice (XSig 0%N 2) (Idx 0)); ("n", XSlice (XSig 0%N 2) (Idx 1))] |};
                 {| i_name := "r1"; i_n := 0; i_of := ex_res;
                    i_conns := [("p", XSlice (XSig 1%N 2) (Idx 0)); ("n", XSlice (XSig 1%N 2) (Idx 1))] |}];
     m_leaves := [(0%N, LSig "a"); (1%N, LSig "b")] |}.
Definition ex_slots : list uslot :=
  [{| us_port := 0; us_lane := 0; us_name := "a"; us_w := 2 |}; {| us_port := 1; us_lane := 0; us_name := "b"; us_w := 2 |}].
Definition ex_inst (k : Z) (n : name) : uinst := {| ui_id := k; ui_name := n; ui_n := 0; ui_of := TMod 0; ui_slots := ex_slots |}.
Definition ex_s0 := CObj KSig 0.
Definition ex_s1 := CObj KSig 1.
Definition ex_sl := CObj KSlice 10.
Definition ex_cat := CObj KConcat 20.
Definition ex_nc := CObj KNoConn 30.
Definition ex_u : universe :=
  {| u_lib := [ex_leaf]; u_name := "Top"; u_ports := []; u_sigs := [("s0", 2); ("s1", 2); ("wide", 4)];
     u_insts := [ex_inst 0 "i0"; ex_inst 1 "i1"; ex_inst 2 "i2"];
     u_leaves := [(0%N, LSig "s0"); (1%N, LSig "s1"); (2%N, LSig "wide");
                  (10%N, LRef "i0" "a"); (11%N, LRef "i0" "b"); (12%N, LRef "i1" "a"); (13%N, LRef "i1" "b");
                  (14%N, LRef "i2" "a"); (15%N, LRef "i2" "b"); (20%N, LNc (nc_site 30 0))];
     u_objs := [(ex_s0, [XSig 0%N 2]); (ex_s1, [XSig 1%N 2]);
                (ex_sl, [XSlice (XSig 2%N 4) (Sl (Some 0) (Some 2) None)]);                       (* wide[0:2] *)
                (ex_cat, [XConcat [XSlice (XSig 0%N 2) (Idx 0); XSlice (XSig 2%N 4) (Idx 3)]])] |}.    (* Concat(s0[0], wide[3]) *)
Definition ex_xi : xinfo :=
  {| x_devs := [("vlsir.primitives/resistor{r=pre:UNIT:i1;}",
                 {| dv_dom := "vlsir.primitives"; dv_name := "resistor"; dv_params := [("r", "pre:UNIT:i1")]; dv_ext := None |})];
     x_ncnames := [("Leaf", []); ("Top", [])];
     x_dirs := [("Leaf", [("a", 2); ("b", 2)]); ("Top", [])] |}.

(* the straightforward history: every port connected once *)
Definition ex_ops1 : list op :=
  [SetAttr 0 0 (AConn ex_s0); SetAttr 0 1 (AConn ex_sl); GetRef 0 0; SetAttr 1 0 (AConn (CRef 0 0)); SetAttr 1 1 (AConn ex_s1);
   GetRef 1 0; SetAttr 2 0 (AConn (CRef 1 0)); SetAttr 2 1 (AConn ex_nc)].
(* a really different one with the same final mapping:
   i0.b: a port reference (i1.a) REPLACED by a slice;   i1.b: connected, DISCONNECTED, re-connected;
   i0.a: a NO-CONNECT replaced by a signal;              i2.a: a concatenation replaced by a port reference;
   i2.b: a signal, then a reference to i0.b (which made i0.b the member of a group), then the no-connect;
   two refused operations (replace of an unconnected port, a non-connectable) *)
Definition ex_ops2 : list op :=
  [GetRef 1 0; Connect 0 1 (AConn (CRef 1 0)); Replace 2 0 (AConn ex_s0); SetAttr 1 1 (AConn ex_s1); SetAttr 0 0 (AConn ex_nc);
   Replace 0 1 (AConn ex_sl); Disconnect 1 1; Call 2 [(0, AConn ex_cat); (1, AConn ex_s1)]; GetRef 0 1;
   SetAttr 2 1 (AConn (CRef 0 1)); SetAttr 0 0 ABad; Connect 1 1 (AConn ex_s1); SetAttr 0 0 (AConn ex_s0); GetRef 0 0;
   Connect 1 0 (AConn (CRef 0 0)); Replace 2 0 (AConn (CRef 1 0)); Replace 2 1 (AConn ex_nc)].

Example C04E_ex_hypotheses :
  let d := design_of ex_u (fun q => final q ex_ops2) in
  u_ok ex_u = true /\ shape_ok ex_u (fun q => final q ex_ops2) = true /\ closed_ok ex_u (run ex_ops2) = true /\
  wf_design d = Ok tt /\ frag_ok2 d = true /\ xinfo_ok ex_xi d = true /\
  (exists ts, terminals d = Ok ts /\ Datatypes.length ts = 12%nat) /\
  all_keys d (top_of ex_u (fun q => final q ex_ops2)) = Ok [("i0", "a"); ("i0", "b"); ("i1", "a"); ("i1", "b"); ("i2", "a"); ("i2", "b")].
Proof.
  cbv zeta. repeat split; try (vm_compute; reflexivity).
  eexists. split; vm_compute; reflexivity.
Qed.

(* the two histories are different in every respect the books record, except `conns` as a mapping *)
Example C04E_ex_histories_differ :
  forallb (fun q => match final q ex_ops1, final q ex_ops2 with Some x, Some y => conn_eqb x y | _, _ => false end) (upids ex_u) = true /\
  st_conns (run ex_ops1) <> st_conns (run ex_ops2) /\ st_handed (run ex_ops1) <> st_handed (run ex_ops2) /\
  map (fun o => snd (step (run []) o)) [Replace 2 0 (AConn ex_s0)] = [false].
Proof.
  split; [vm_compute; reflexivity|]. split; [vm_compute; discriminate|]. split; [vm_compute; discriminate|reflexivity].
Qed.

Lemma ex_final_eq q : In q (upids ex_u) -> final q ex_ops1 = final q ex_ops2.
Proof. intros H. vm_compute in H. repeat (destruct H as [<-|H]; [vm_compute; reflexivity|]). destruct H. Qed.
Print Assumptions ex_final_eq.

Example C04E_ex_no_trace :
  pkg_of_state ex_xi ex_u (run ex_ops1) = pkg_of_state ex_xi ex_u (run ex_ops2) /\
  exists p top, pkg_of_state ex_xi ex_u (run ex_ops2) = Ok p /\ wf_pkg prims_ext p = Ok tt /\
    nth_error (pk_mods p) 1 = Some top /\
    pm_sigs top = [("s0", 2); ("s1", 2); ("wide", 4); ("i2_b", 2)] /\
    map (fun i => (pi_name i, pi_conns i)) (pm_insts top) =
      [("i0", [("a", PSig "s0"); ("b", PSlice "wide" 1 0)]);
       ("i1", [("a", PSig "s0"); ("b", PSig "s1")]);
       ("i2", [("a", PSig "s0"); ("b", PSig "i2_b")])].
Proof.
  split; [exact (proj2 (C04E_no_trace ex_xi ex_u ex_ops1 ex_ops2 ex_final_eq))|].
  vm_compute. eexists. eexists. repeat split; reflexivity.
Qed.

(* the group of the seed i0.a found on the books of the messy history = the ports with the group identifier of i0.a in the
   design of the final mapping; i0.b - once referred to by i2.b, once connected to the reference i1.a - is in neither *)
Example C04E_ex_groups :
  let m := fun q => final q ex_ops2 in
  let keys := [("i0", "a"); ("i0", "b"); ("i1", "a"); ("i1", "b"); ("i2", "a"); ("i2", "b")] in
  follow (run ex_ops2) (fun _ => true) 7 (0, 0) [] = Some [GRef (0, 0); GConn ex_s0; GRef (1, 0); GRef (2, 0)] /\
  map (gid (top_of ex_u m) keys) keys =
    [Some ("i0", "a"); Some ("i0", "b"); Some ("i0", "a"); Some ("i1", "b"); Some ("i0", "a"); Some ("i2", "b")] /\
  map (fun q => key_of ex_u q 0) [(0, 0); (0, 1); (2, 0)] = [Some ("i0", "a"); Some ("i0", "b"); Some ("i2", "a")] /\
  back_of (CRef 0 1) (st_back (run ex_ops2)) = [] /\ back_of (CRef 1 0) (st_back (run ex_ops2)) = [(2, 0)].
Proof. vm_compute. repeat split. Qed.

(* in dict order the two histories give DIFFERENT designs and DIFFERENT packages (i0's connections are written b, a by the
   messy history), both inside the hypotheses of theorem 5, with the same terminals *)
Example C04E_ex_ordered :
  let d1 := state_design_ord ex_u (run ex_ops1) in let d2 := state_design_ord ex_u (run ex_ops2) in
  wf_design d1 = Ok tt /\ frag_ok2 d1 = true /\ xinfo_ok ex_xi d1 = true /\
  wf_design d2 = Ok tt /\ frag_ok2 d2 = true /\ xinfo_ok ex_xi d2 = true /\
  terminals d1 = terminals d2 /\
  (exists p1 p2 t1 t2, pkg_of_state_ord ex_xi ex_u (run ex_ops1) = Ok p1 /\ pkg_of_state_ord ex_xi ex_u (run ex_ops2) = Ok p2 /\
     nth_error (pk_mods p1) 1 = Some t1 /\ nth_error (pk_mods p2) 1 = Some t2 /\
     map (fun i => map fst (pi_conns i)) (pm_insts t1) = [["a"; "b"]; ["a"; "b"]; ["a"; "b"]] /\
     map (fun i => map fst (pi_conns i)) (pm_insts t2) = [["b"; "a"]; ["b"; "a"]; ["a"; "b"]]).
Proof.
  cbv zeta. repeat split; try (vm_compute; reflexivity).
  vm_compute. do 4 eexists. repeat split; reflexivity.
Qed.

(* a template instance (identity 9, not in ex_u) is connected to the reference i0.a before the messy history and STAYS connected:
   closed_ok fails, the back-reference set of i0.a lists the template's port; with the module filter `follow` finds the same
   group as before (= the group of the design, C04E_groups_agree_open); without the filter (the code before repair C04-2) the
   template's port would be a member *)
Example C04E_ex_template :
  let ops := [GetRef 0 0; SetAttr 9 0 (AConn (CRef 0 0)); SetAttr 9 1 (AConn ex_s1)] ++ ex_ops2 in
  closed_ok ex_u (run ops) = false /\ wf_design (design_of ex_u (fun q => final q ops)) = Ok tt /\
  back_of (CRef 0 0) (st_back (run ops)) = [(9, 0); (1, 0)] /\
  follow (run ops) (fun i => i <? 3) 7 (0, 0) [] = Some [GRef (0, 0); GConn ex_s0; GRef (1, 0); GRef (2, 0)] /\
  follow (run ops) (fun _ => true) 7 (0, 0) [] = Some [GRef (0, 0); GConn ex_s0; GRef (9, 0); GRef (1, 0); GRef (2, 0)] /\
  design_of ex_u (fun q => final q ops) = design_of ex_u (fun q => final q ex_ops1).
Proof. vm_compute. repeat split. Qed.
