(* Props/C09.v — Generator calls are memoised and their modules uniquely named.
   Statements only; proofs are in Proofs/ParamNameProofs.v, Proofs/GenCacheProofs.v, Proofs/NamingProofs.v.

   Model: Model/GenCache.v (generator.py: run and the cache), Model/ParamName.v (call.py: param_call
   normalisation; params.py: _unique_name), Model/GenUniverse.v (generators, keys, body tables).
   A history is any sequence ks of top-level calls in one interpreter, over any universe U of generators and
   any table T of generator bodies (nested calls, recursion, hand-on of a nested call's module);
   run_hist ... = Ok (st, ms) says that no call of the history raised. *)
Require Import Hdl21.Base.PyInt Hdl21.Model.ParamName Hdl21.Model.GenCache Hdl21.Model.GenUniverse
               Hdl21.Proofs.ParamNameProofs Hdl21.Proofs.GenCacheProofs Hdl21.Proofs.NamingProofs.
From Coq Require Import String Ascii.
Open Scope string_scope.

Section Statements.
Variable U : list gen.
Variable T : list entry.
Variable suffix : key -> string.      (* any rendering of _unique_name: the cache theorems do not depend on it *)
Notation hist := (run_hist key_eqb (prog_of U T) (gen_name_of U) (has_params_of U) suffix).
Notation Orig := (Origin (prog_of U T)).
Notation cname := (created_name (prog_of U T) (gen_name_of U) (has_params_of U) suffix).

(* 1. memoisation: in every history, two calls with equal (validated) parameters return the identical module *)
Theorem C09_memo_same fuel ks st ms i j k mi mj : hist fuel ks = Ok (st, ms) ->
  nth_error ks i = Some k -> nth_error ks j = Some k ->
  nth_error ms i = Some mi -> nth_error ms j = Some mj -> mi = mj.
Proof. exact (memo_same key key_eqb key_eqb_eq _ _ _ _ fuel ks st ms i j k mi mj). Qed.

(* 2. the body runs once: no call's body ran twice (nested calls included), the bodies that ran are exactly the
      calls that completed, and every top-level call of the history is among them *)
Theorem C09_memo_body_once fuel ks st ms : hist fuel ks = Ok (st, ms) ->
  NoDup (runs st) /\ (forall k, In k (runs st) <-> In k (map fst (done st))) /\ (forall k, In k ks -> In k (runs st)).
Proof. exact (memo_once key key_eqb key_eqb_eq _ _ _ _ fuel ks st ms). Qed.

(* 3. unequal parameters give distinct modules, for bodies that build their own module *)
Theorem C09_distinct_modules fuel ks st ms i j ki kj mi mj oi oj : hist fuel ks = Ok (st, ms) ->
  nth_error ks i = Some ki -> nth_error ks j = Some kj ->
  nth_error ms i = Some mi -> nth_error ms j = Some mj ->
  b_ret (prog_of U T ki) = RFresh oi -> b_ret (prog_of U T kj) = RFresh oj -> ki <> kj -> mi <> mj.
Proof. exact (fresh_distinct key key_eqb key_eqb_eq _ _ _ _ fuel ks st ms i j ki kj mi mj oi oj). Qed.

(* 4. in general (bodies handing on the module of a nested call): two calls return the same module exactly
      when their hand-on chains end at the same creating call *)
Theorem C09_same_module_iff fuel ks st ms i j ki kj mi mj ci cj : hist fuel ks = Ok (st, ms) ->
  nth_error ks i = Some ki -> nth_error ks j = Some kj ->
  nth_error ms i = Some mi -> nth_error ms j = Some mj ->
  Orig ki ci -> Orig kj cj -> (mi = mj <-> ci = cj).
Proof. exact (same_module_iff key key_eqb key_eqb_eq _ _ _ _ fuel ks st ms i j ki kj mi mj ci cj). Qed.

(* 5. the returned module carries the name given by its creating call: generator (or body-given) name plus
      the parameter suffix of THAT call — a function of generator and parameter values only *)
Theorem C09_name_of_returned fuel ks st ms i k m : hist fuel ks = Ok (st, ms) ->
  nth_error ks i = Some k -> nth_error ms i = Some m ->
  exists gm, nth_error (heap st) m = Some gm /\ Orig k (m_creator gm) /\ m_name gm = cname (m_creator gm).
Proof. exact (returned_module key key_eqb key_eqb_eq _ _ _ _ fuel ks st ms i k m). Qed.

(* 6. name_history_free: the module returned for a call has the same name in every history (any other calls,
      any order, any nesting, any fuel) *)
Theorem C09_name_history_free f1 f2 ks1 ks2 st1 st2 ms1 ms2 i j k m1 m2 g1 g2 :
  hist f1 ks1 = Ok (st1, ms1) -> hist f2 ks2 = Ok (st2, ms2) ->
  nth_error ks1 i = Some k -> nth_error ks2 j = Some k ->
  nth_error ms1 i = Some m1 -> nth_error ms2 j = Some m2 ->
  nth_error (heap st1) m1 = Some g1 -> nth_error (heap st2) m2 = Some g2 ->
  m_name g1 = m_name g2.
Proof. exact (name_history_free key key_eqb key_eqb_eq _ _ _ _ f1 f2 ks1 ks2 st1 st2 ms1 ms2 i j k m1 m2 g1 g2). Qed.

(* 7. fuel only bounds the recursion depth: an answer obtained with some fuel is the answer with more *)
Theorem C09_fuel_irrelevant fuel st k x :
  run key_eqb (prog_of U T) (gen_name_of U) (has_params_of U) suffix fuel st k = Ok x ->
  run key_eqb (prog_of U T) (gen_name_of U) (has_params_of U) suffix (S fuel) st k = Ok x.
Proof. exact (run_fuel_mono key key_eqb _ _ _ _ fuel st k x). Qed.

End Statements.
Print Assumptions C09_memo_same.
Print Assumptions C09_memo_body_once.
Print Assumptions C09_distinct_modules.
Print Assumptions C09_same_module_iff.
Print Assumptions C09_name_of_returned.
Print Assumptions C09_name_history_free.
Print Assumptions C09_fuel_irrelevant.

(* 8. name injectivity, readable form: for ALL validated parameter values of a class (arbitrary strings, ints,
      floats, None), two parameter sets with the same readable suffix are equal *)
Theorem C09_name_injective_readable fs vs ws s :
  unique_name fs vs = Ok (Readable s) -> unique_name fs ws = Ok (Readable s) -> vs = ws.
Proof. exact (readable_injective fs vs ws s). Qed.
Print Assumptions C09_name_injective_readable.

(* 9. the values a call is keyed by are validated values (so 8 applies to every call param_call builds) *)
Theorem C09_call_params_validated Un c k : mk_key Un c = Ok k ->
  typed_all (map f_dtype (g_fields (gen_of Un k))) (snd k) = true.
Proof. exact (mk_key_typed Un c k). Qed.
Print Assumptions C09_call_params_validated.

(* 10. generator(suffix) determines generator name and suffix when the names hold no '(' (identifiers) *)
Theorem C09_full_name_injective b1 b2 s1 s2 : has_char "("%char b1 = false -> has_char "("%char b2 = false ->
  b1 ++ "(" ++ s1 ++ ")" = b2 ++ "(" ++ s2 ++ ")" -> b1 = b2 /\ s1 = s2.
Proof. exact (full_name_inj b1 b2 s1 s2). Qed.
Print Assumptions C09_full_name_injective.

(* 11. PARTIAL (relative to explicit premises about md5 and json.dumps, which are not modelled):
       FULL STATEMENT WANTED:  forall fs vs ws, fs <> [] -> _unique_name fs vs = _unique_name fs ws -> vs = ws
       with the real md5 / json.dumps.  Proved: the same with md5 / json.dumps replaced by ANY functions that are
       collision-free on what they are given, produce no '=' (hex digest), and are injective on validated values. *)
Theorem C09_name_injective_partial
  (md5hex : string -> string) (json : list field -> list pval -> string)
  (md5_collision_free : forall a b, md5hex a = md5hex b -> a = b)
  (md5_hex : forall a, has_char "="%char (md5hex a) = false)
  (json_injective : forall fs vs ws, typed_all (map f_dtype fs) vs = true -> typed_all (map f_dtype fs) ws = true ->
                                     json fs vs = json fs ws -> vs = ws)
  fs vs ws s : fs <> [] ->
  suffix_str md5hex json fs vs = Ok s -> suffix_str md5hex json fs ws = Ok s -> vs = ws.
Proof. exact (suffix_injective md5hex json md5_collision_free md5_hex json_injective fs vs ws s). Qed.
Print Assumptions C09_name_injective_partial.

(* 12. PARTIAL (same premises): a design never contains two different generated modules under one name, provided
       the designer's names are sane: every module-creating call's base name (generator name or the name its body
       gives) holds no '(' and distinct generators use distinct base names.
       (One module under two names is excluded by 5: a module's name is fixed by its creating call.) *)
Theorem C09_design_names_unique_partial
  (md5hex : string -> string) (json : list field -> list pval -> string)
  (md5_collision_free : forall a b, md5hex a = md5hex b -> a = b)
  (md5_hex : forall a, has_char "="%char (md5hex a) = false)
  (json_injective : forall fs vs ws, typed_all (map f_dtype fs) vs = true -> typed_all (map f_dtype fs) ws = true ->
                                     json fs vs = json fs ws -> vs = ws)
  Un Tn fuel ks st ms m1 m2 g1 g2 :
  run_hist_h md5hex json Un Tn fuel ks = Ok (st, ms) ->
  creators_ok Un Tn (map m_creator (heap st)) ->
  nth_error (heap st) m1 = Some g1 -> nth_error (heap st) m2 = Some g2 -> m_name g1 = m_name g2 -> m1 = m2.
Proof.
  exact (design_names_unique md5hex json md5_collision_free md5_hex json_injective Un Tn fuel ks st ms m1 m2 g1 g2).
Qed.
Print Assumptions C09_design_names_unique_partial.

(* ---------- non-vacuity and witnesses ---------- *)
Definition ex_fs : list field :=
  [ {| f_name := "a"; f_dtype := DStr; f_default := None |}; {| f_name := "b"; f_dtype := DStr; f_default := None |} ].

(* the pinned-tree defect, as a statement about the readable form WITHOUT the plain-string test:
   two different parameter sets, one text (G(a='x b=y', b='z') against G(a='x', b='y b=z')) *)
Example C09_readable_without_plain_test_refuted :
  exists vs ws, vs <> ws /\ typed_all (map f_dtype ex_fs) vs = true /\ typed_all (map f_dtype ex_fs) ws = true /\
                readable (map f_name ex_fs) vs = readable (map f_name ex_fs) ws.
Proof. exists [VStr "x b=y"; VStr "z"], [VStr "x"; VStr "y b=z"]. repeat split; try reflexivity. discriminate. Qed.

(* the repaired function sends both to the hashed form, plain values to the readable form *)
Example C09_ex_unique_name :
  unique_name ex_fs [VStr "x b=y"; VStr "z"] = Ok Hashed /\ unique_name ex_fs [VStr "x"; VStr "y b=z"] = Ok Hashed /\
  unique_name ex_fs [VStr "x"; VStr "y"] = Ok (Readable "a=x b=y") /\
  unique_name [ {| f_name := "a"; f_dtype := DOpt DStr; f_default := None |} ] [VNone] = Ok (Readable "a=None") /\
  unique_name [ {| f_name := "a"; f_dtype := DOpt DStr; f_default := None |} ] [VStr "None"] = Ok Hashed /\
  unique_name [ {| f_name := "f"; f_dtype := DFloat; f_default := None |} ] [VFloat "1e-11"] = Ok (Readable "f=1e-11").
Proof. repeat split; vm_compute; reflexivity. Qed.

(* hypotheses of 8 are met by distinct non-trivial values with distinct names *)
Example C09_ex_injective_instance :
  unique_name ex_fs [VStr ""; VStr "x"] = Ok (Readable "a= b=x") /\ unique_name ex_fs [VStr "x"; VStr ""] = Ok (Readable "a=x b=").
Proof. split; vm_compute; reflexivity. Qed.

(* call normalisation: 1, True and 1.0 are one float parameter value; an omitted argument is its default *)
Example C09_ex_norm :
  let fs := [ {| f_name := "f"; f_dtype := DFloat; f_default := Some (VInt 1) |} ] in
  norm_args fs [Some (VInt 1)] = Ok [VFloat "1.0"] /\ norm_args fs [Some (VBool true)] = Ok [VFloat "1.0"] /\
  norm_args fs [Some (VFloat "1.0")] = Ok [VFloat "1.0"] /\ norm_args fs [None] = Ok [VFloat "1.0"].
Proof. repeat split; vm_compute; reflexivity. Qed.

(* a history with a hand-on body (MosStack -> Series shape): Outer(w) returns the module of Inner(w) *)
Definition ex_U : list gen :=
  [ {| g_name := "Outer"; g_fields := [ {| f_name := "w"; f_dtype := DInt; f_default := None |} ] |};
    {| g_name := "Inner"; g_fields := [ {| f_name := "w"; f_dtype := DInt; f_default := None |} ] |} ].
Definition ex_T : list entry :=
  [ {| e_gen := 0; e_args := [Some (VInt 1)]; e_calls := [(1%nat, [Some (VInt 1)])]; e_ret := RPass 0 |} ].
Definition ex_outer : key := (0%nat, [VInt 1]).
Definition ex_inner : key := (1%nat, [VInt 1]).

Example C09_ex_history :
  match run_hist key_eqb (prog_of ex_U ex_T) (gen_name_of ex_U) (has_params_of ex_U) (suffix_of ex_U) 10
                 [ex_outer; ex_inner; ex_outer; (1%nat, [VInt 2])] with
  | Ok (st, ms) => ms = [0; 0; 0; 1]%nat /\ map m_name (heap st) = ["Inner(w=1)"; "Inner(w=2)"] /\
                   rev (runs st) = [ex_outer; ex_inner; (1%nat, [VInt 2])]
  | Error _ => False
  end.
Proof. vm_compute. repeat split. Qed.

Example C09_ex_history_other_order :
  match run_hist key_eqb (prog_of ex_U ex_T) (gen_name_of ex_U) (has_params_of ex_U) (suffix_of ex_U) 10
                 [ex_inner; ex_outer] with
  | Ok (st, ms) => ms = [0; 0]%nat /\ map m_name (heap st) = ["Inner(w=1)"]
  | Error _ => False
  end.
Proof. vm_compute. repeat split. Qed.

Example C09_ex_origin : Origin (prog_of ex_U ex_T) ex_outer ex_inner.
Proof. eapply O_pass; [reflexivity|reflexivity|]. eapply O_fresh. reflexivity. Qed.

(* a circular generator call is rejected, and running out of fuel is a distinct error *)
Example C09_ex_cycle :
  let T := [ {| e_gen := 0; e_args := [Some (VInt 1)]; e_calls := [(0%nat, [Some (VInt 1)])]; e_ret := RFresh None |} ] in
  run_hist key_eqb (prog_of ex_U T) (gen_name_of ex_U) (has_params_of ex_U) (suffix_of ex_U) 10 [ex_outer] = Error ECycle /\
  run_hist key_eqb (prog_of ex_U ex_T) (gen_name_of ex_U) (has_params_of ex_U) (suffix_of ex_U) 1 [ex_outer] = Error EFuel.
Proof. split; vm_compute; reflexivity. Qed.

(* the designer-side hypothesis of 12 holds for this universe *)
Example C09_ex_creators_ok : creators_ok ex_U ex_T [ex_inner; (1%nat, [VInt 2])].
Proof.
  unfold creators_ok. repeat split.
  - intros c [<-|[<-|[]]]; eexists; reflexivity.
  - intros c [<-|[<-|[]]]; reflexivity.
  - intros c1 c2 [<-|[<-|[]]] [<-|[<-|[]]] _; reflexivity.
  - intros c [<-|[<-|[]]]; reflexivity.
Qed.
