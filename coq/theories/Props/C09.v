(* Props/C09.v — Generator calls are memoised and their modules uniquely named. *)
Require Import Hdl21.Base.PyInt Hdl21.Model.ParamName Hdl21.Model.GenCache Hdl21.Proofs.ParamNameProofs.
From Coq Require Import String.
Open Scope string_scope.

(* the readable form of the parameter suffix is injective *)
Theorem C09_readable_injective fs vs ws s :
  unique_name fs vs = Ok (Readable s) -> unique_name fs ws = Ok (Readable s) -> vs = ws.
Proof.
  unfold unique_name. intros Hv Hw.
  destruct (typed_all (map f_dtype fs) vs) eqn:Tv; [|discriminate].
  destruct (typed_all (map f_dtype fs) ws) eqn:Tw; [|discriminate]. cbn [negb] in Hv, Hw.
  destruct (forallb scalar_dtype (map f_dtype fs)) eqn:Sc; [|discriminate]. cbn [andb] in Hv, Hw.
  destruct (forallb plain vs) eqn:Pv; [|discriminate]. destruct (forallb plain ws) eqn:Pw; [|discriminate].
  destruct (strlen (readable (map f_name fs) vs) <? _)%Z; [|discriminate].
  destruct (strlen (readable (map f_name fs) ws) <? _)%Z; [|discriminate].
  inversion Hv as [Hv']. inversion Hw as [Hw']. rewrite <- Hw' in Hv'.
  eapply (readable_inj (map f_name fs) (map f_dtype fs)); try eassumption. rewrite !map_length. reflexivity.
Qed.
Print Assumptions C09_readable_injective.
