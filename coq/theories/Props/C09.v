(* Props/C09.v — Generator calls are memoised and their modules uniquely named.
   Statements only; proofs are in Proofs/ParamNameProofs.v, Proofs/GenCacheProofs.v, Proofs/NamingProofs.v.

   Model: Model/GenCache.v (generator.py: run and the cache), Model/ParamName.v (call.py: param_call
   normalisation; params.py: _unique_name), Model/GenUniverse.v (generators, keys, body tables).
   A history is any sequence ks of top-level calls in one interpreter, over any universe U of generators and
   any table T of generator bodies (nested calls, recursion, hand-on of a nested call's module);
   run_hist ... = Ok (st, ms) says that no call of the history raised. *)
Require Import Hdl21.Model.C09SetName Hdl21.Proofs.C09SetNameProofs.
Require Import Hdl21.Base.PyInt Hdl21.Model.ParamName Hdl21.Model.GenCache Hdl21.Model.C09GenFail Hdl21.Model.GenUniverse
               Hdl21.Proofs.ParamNameProofs Hdl21.Proofs.GenCacheProofs Hdl21.Proofs.NamingProofs
               Hdl21.Proofs.C09FailProofs Hdl21.Proofs.C09FailOnce Hdl21.Proofs.C09UnnameableProofs.
From Coq Require Import String Ascii.
Open Scope string_scope.

Section Statements.
Variable U : list gen.
Variable T : list entry.
Variable suffix : key -> string.      (* any rendering of _unique_name: the cache theorems do not depend on it *)
Notation hist := (run_hist key_eqb (prog_of U T) (gen_name_of U) (has_params_of U) suffix).
Notation Orig := (Origin (prog_of U T)).
Notation cname := (created_name (prog_of U T) (gen_name_of U) (has_params_of U) suffix).

(* 1. memoisation: in every history, two calls with equal (validated) parameters return the identical module *)
Theorem C09_memo_same fuel ks st ms i j k mi mj : hist fuel ks = Ok (st, ms) ->
  nth_error ks i = Some k -> nth_error ks j = Some k ->
  nth_error ms i = Some mi -> nth_error ms j = Some mj -> mi = mj.
Proof. exact (memo_same key key_eqb key_eqb_eq _ _ _ _ fuel ks st ms i j k mi mj). Qed.

(* 2. the body runs once: no call's body ran twice (nested calls included), the bodies that ran are exactly the
      calls that completed, and every top-level call of the history is among them *)
Theorem C09_memo_body_once fuel ks st ms : hist fuel ks = Ok (st, ms) ->
  NoDup (runs st) /\ (forall k, In k (runs st) <-> In k (map fst (done st))) /\ (forall k, In k ks -> In k (runs st)).
Proof. exact (memo_once key key_eqb key_eqb_eq _ _ _ _ fuel ks st ms). Qed.

(* 3. unequal parameters give distinct modules, for bodies that build their own module *)
Theorem C09_distinct_modules fuel ks st ms i j ki kj mi mj oi oj : hist fuel ks = Ok (st, ms) ->
  nth_error ks i = Some ki -> nth_error ks j = Some kj ->
  nth_error ms i = Some mi -> nth_error ms j = Some mj ->
  b_ret (prog_of U T ki) = RFresh oi -> b_ret (prog_of U T kj) = RFresh oj -> ki <> kj -> mi <> mj.
Proof. exact (fresh_distinct key key_eqb key_eqb_eq _ _ _ _ fuel ks st ms i j ki kj mi mj oi oj). Qed.

(* 4. in general (bodies handing on the module of a nested call): two calls return the same module exactly
      when their hand-on chains end at the same creating call *)
Theorem C09_same_module_iff fuel ks st ms i j ki kj mi mj ci cj : hist fuel ks = Ok (st, ms) ->
  nth_error ks i = Some ki -> nth_error ks j = Some kj ->
  nth_error ms i = Some mi -> nth_error ms j = Some mj ->
  Orig ki ci -> Orig kj cj -> (mi = mj <-> ci = cj).
Proof. exact (same_module_iff key key_eqb key_eqb_eq _ _ _ _ fuel ks st ms i j ki kj mi mj ci cj). Qed.

(* 5. the returned module carries the name given by its creating call: generator (or body-given) name plus
      the parameter suffix of THAT call — a function of generator and parameter values only *)
Theorem C09_name_of_returned fuel ks st ms i k m : hist fuel ks = Ok (st, ms) ->
  nth_error ks i = Some k -> nth_error ms i = Some m ->
  exists gm, nth_error (heap st) m = Some gm /\ Orig k (m_creator gm) /\ m_name gm = cname (m_creator gm).
Proof. exact (returned_module key key_eqb key_eqb_eq _ _ _ _ fuel ks st ms i k m). Qed.

(* 6. name_history_free: the module returned for a call has the same name in every history (any other calls,
      any order, any nesting, any fuel) *)
Theorem C09_name_history_free f1 f2 ks1 ks2 st1 st2 ms1 ms2 i j k m1 m2 g1 g2 :
  hist f1 ks1 = Ok (st1, ms1) -> hist f2 ks2 = Ok (st2, ms2) ->
  nth_error ks1 i = Some k -> nth_error ks2 j = Some k ->
  nth_error ms1 i = Some m1 -> nth_error ms2 j = Some m2 ->
  nth_error (heap st1) m1 = Some g1 -> nth_error (heap st2) m2 = Some g2 ->
  m_name g1 = m_name g2.
Proof. exact (name_history_free key key_eqb key_eqb_eq _ _ _ _ f1 f2 ks1 ks2 st1 st2 ms1 ms2 i j k m1 m2 g1 g2). Qed.

(* 7. fuel only bounds the recursion depth: an answer obtained with some fuel is the answer with more *)
Theorem C09_fuel_irrelevant fuel st k x :
  run key_eqb (prog_of U T) (gen_name_of U) (has_params_of U) suffix fuel st k = Ok x ->
  run key_eqb (prog_of U T) (gen_name_of U) (has_params_of U) suffix (S fuel) st k = Ok x.
Proof. exact (run_fuel_mono key key_eqb _ _ _ _ fuel st k x). Qed.

End Statements.
Print Assumptions C09_memo_same.
Print Assumptions C09_memo_body_once.
Print Assumptions C09_distinct_modules.
Print Assumptions C09_same_module_iff.
Print Assumptions C09_name_of_returned.
Print Assumptions C09_name_history_free.
Print Assumptions C09_fuel_irrelevant.

(* 8. name injectivity, readable form: for ALL validated parameter values of a class (arbitrary strings, ints,
      floats, None), two parameter sets with the same readable suffix are equal *)
Theorem C09_name_injective_readable fs vs ws s :
  unique_name fs vs = Ok (Readable s) -> unique_name fs ws = Ok (Readable s) -> vs = ws.
Proof. exact (readable_injective fs vs ws s). Qed.
Print Assumptions C09_name_injective_readable.

(* 9. the values a call is keyed by are validated values (so 8 applies to every call param_call builds) *)
Theorem C09_call_params_validated Un c k : mk_key Un c = Ok k ->
  typed_all (map f_dtype (g_fields (gen_of Un k))) (snd k) = true.
Proof. exact (mk_key_typed Un c k). Qed.
Print Assumptions C09_call_params_validated.

(* 10. generator(suffix) determines generator name and suffix when the names hold no '(' (identifiers) *)
Theorem C09_full_name_injective b1 b2 s1 s2 : has_char "("%char b1 = false -> has_char "("%char b2 = false ->
  b1 ++ "(" ++ s1 ++ ")" = b2 ++ "(" ++ s2 ++ ")" -> b1 = b2 /\ s1 = s2.
Proof. exact (full_name_inj b1 b2 s1 s2). Qed.
Print Assumptions C09_full_name_injective.

(* 11. PARTIAL (relative to explicit premises about md5 and json.dumps, which are not modelled):
       FULL STATEMENT WANTED:  forall fs vs ws, fs <> [] -> _unique_name fs vs = _unique_name fs ws -> vs = ws
       with the real md5 / json.dumps.  Proved: the same with md5 / json.dumps replaced by ANY functions that are
       collision-free on what they are given, produce no '=' (hex digest), and are injective on validated values. *)
Theorem C09_name_injective_partial
  (md5hex : string -> string) (json : list field -> list pval -> string)
  (md5_collision_free : forall a b, md5hex a = md5hex b -> a = b)
  (md5_hex : forall a, has_char "="%char (md5hex a) = false)
  (json_injective : forall fs vs ws, typed_all (map f_dtype fs) vs = true -> typed_all (map f_dtype fs) ws = true ->
                                     json fs vs = json fs ws -> vs = ws)
  fs vs ws s : fs <> [] ->
  suffix_str md5hex json fs vs = Ok s -> suffix_str md5hex json fs ws = Ok s -> vs = ws.
Proof. exact (suffix_injective md5hex json md5_collision_free md5_hex json_injective fs vs ws s). Qed.
Print Assumptions C09_name_injective_partial.

(* 12. PARTIAL (same premises): a design never contains two different generated modules under one name, provided
       the designer's names are sane: every module-creating call's base name (generator name or the name its body
       gives) holds no '(' and distinct generators use distinct base names.
       (One module under two names is excluded by 5: a module's name is fixed by its creating call.) *)
Theorem C09_design_names_unique_partial
  (md5hex : string -> string) (json : list field -> list pval -> string)
  (md5_collision_free : forall a b, md5hex a = md5hex b -> a = b)
  (md5_hex : forall a, has_char "="%char (md5hex a) = false)
  (json_injective : forall fs vs ws, typed_all (map f_dtype fs) vs = true -> typed_all (map f_dtype fs) ws = true ->
                                     json fs vs = json fs ws -> vs = ws)
  Un Tn fuel ks st ms m1 m2 g1 g2 :
  run_hist_h md5hex json Un Tn fuel ks = Ok (st, ms) ->
  creators_ok Un Tn (map m_creator (heap st)) ->
  nth_error (heap st) m1 = Some g1 -> nth_error (heap st) m2 = Some g2 -> m_name g1 = m_name g2 -> m1 = m2.
Proof.
  exact (design_names_unique md5hex json md5_collision_free md5_hex json_injective Un Tn fuel ks st ms m1 m2 g1 g2).
Qed.
Print Assumptions C09_design_names_unique_partial.

(* =====================================================================================================
   Number-like parameter values (h.Scalar / h.Prefixed / Decimal fields).  Model/ParamName.v distinguishes the value
   as WRITTEN (level 1), as HELD by the validated paramclass instance (level 2: a Prefixed keeps its digits and its
   prefix, `VPrefW`) and the CACHE KEY (level 3: the normal form (c, e) of the exact value, `VPref`).  The theorems
   1-12 above are about keys; 13-15 show that the key equality (Leibniz) IS the implementation's: the dict lookup of
   the generator cache (hash equal and ==) for all values, and == alone when no Prefixed number has more than
   EPSILON = 20 decimal places (== is then exact; beyond, == tolerates differences the hash does not, witness 20).
   ===================================================================================================== *)

(* 13. the cache key is the dict key: the lookup (hashes agree and the instances compare equal) succeeds for the
       validated instances of two calls exactly when the calls have the same key.  ALL hashable values (a list / dict / set
       valued field has no hash: the lookup raises, theorems 35-37). *)
Theorem C09_key_is_dict_lookup fs a1 a2 v1 v2 : validate_args fs a1 = Ok v1 -> validate_args fs a2 = Ok v2 ->
  existsb has_mut v1 = false -> existsb has_mut v2 = false ->
  (lookup_hit v1 v2 = true <-> norm_args fs a1 = norm_args fs a2).
Proof. exact (key_is_lookup fs a1 a2 v1 v2). Qed.
Print Assumptions C09_key_is_dict_lookup.

(* 14. name_value_only, keys: parameter instances that compare equal (params __eq__: Prefixed by value through
       Prefixed.__eq__, Decimal by value, nested classes field by field) have the same key, and conversely *)
Theorem C09_key_is_eq fs a1 a2 v1 v2 : validate_args fs a1 = Ok v1 -> validate_args fs a2 = Ok v2 ->
  existsb has_mut v1 = false -> existsb has_mut v2 = false ->
  fine_all v1 = true -> fine_all v2 = true ->
  (insts_eqb v1 v2 = true <-> norm_args fs a1 = norm_args fs a2).
Proof. exact (key_is_eq fs a1 a2 v1 v2). Qed.
Print Assumptions C09_key_is_eq.

(* 15. name_value_only, histories: two calls of one generator whose parameter instances compare equal - however the
       numbers were written: other prefix, trailing zeros, int / float / str / Decimal - return the identical module in
       every history (hence, by 5 and 6, under one name which no history can change) *)
Theorem C09_equal_params_same_module U T suffix fuel ks st ms g G a1 a2 v1 v2 k1 k2 i j mi mj :
  nth_error U g = Some G ->
  validate_args (g_fields G) a1 = Ok v1 -> validate_args (g_fields G) a2 = Ok v2 ->
  fine_all v1 = true -> fine_all v2 = true -> insts_eqb v1 v2 = true ->
  mk_key U (g, a1) = Ok k1 -> mk_key U (g, a2) = Ok k2 ->
  run_hist key_eqb (prog_of U T) (gen_name_of U) (has_params_of U) suffix fuel ks = Ok (st, ms) ->
  nth_error ks i = Some k1 -> nth_error ks j = Some k2 ->
  nth_error ms i = Some mi -> nth_error ms j = Some mj -> k1 = k2 /\ mi = mj.
Proof.
  intros HG V1 V2 F1 F2 E K1 K2 H I J Mi Mj.
  assert (forall a v k, validate_args (g_fields G) a = Ok v -> mk_key U (g, a) = Ok k -> existsb has_mut v = false) as NM.
  { intros a v k Va Ka. unfold mk_key in Ka. cbn [fst snd] in Ka. rewrite HG in Ka.
    destruct (norm_args (g_fields G) a) as [r|] eqn:N; simpl in Ka; [|discriminate].
    apply norm_args_split in N. destruct N as [v' [Vv Cv]]. rewrite Va in Vv. inversion Vv. subst v'.
    eapply canon_all_ok_no_mut; eassumption. }
  assert (k1 = k2) as ->.
  { pose proof (proj1 (key_is_eq _ _ _ _ _ V1 V2 (NM _ _ _ V1 K1) (NM _ _ _ V2 K2) F1 F2) E) as N.
    rewrite (mk_key_of_args U g G a1 a2 HG N) in K1. congruence. }
  split; [reflexivity|].
  exact (memo_same key key_eqb key_eqb_eq _ _ _ _ fuel ks st ms i j k2 mi mj H I J Mi Mj).
Qed.
Print Assumptions C09_equal_params_same_module.

(* 16. the canonical rendering of a number (params.py:_value_name) is injective on normal forms ... *)
Theorem C09_value_text_injective c e c' e' : canon_str c e = canon_str c' e' -> c = c' /\ e = e'.
Proof. exact (canon_str_inj c e c' e'). Qed.
Print Assumptions C09_value_text_injective.

(* 17. ... so that what the repaired encoder writes for a prefixed number / a decimal depends on its exact VALUE only
       and determines it: equal values (any digits, any prefix) - equal text; unequal values - different text *)
Theorem C09_prefixed_text_by_value x q y r :
  encode_inst (VPrefW x q) = encode_inst (VPrefW y r) <-> Dec.deqb (pvalue x q) (pvalue y r) = true.
Proof. exact (encode_inst_pref_iff x q y r). Qed.
Theorem C09_decimal_text_by_value x y : encode_inst (VDecW x) = encode_inst (VDecW y) <-> Dec.deqb x y = true.
Proof. exact (encode_inst_dec_iff x y). Qed.
Print Assumptions C09_prefixed_text_by_value.
Print Assumptions C09_decimal_text_by_value.

(* 18. the hashed form: the JSON VALUE that is serialised and hashed (hdl21_naming_encoder applied through the whole
       parameter set: nested classes, Literal, Prefixed, Decimal, enum members, object references) determines the
       parameter set - no premise *)
Theorem C09_json_value_injective fs vs ws :
  typed_all (map f_dtype fs) vs = true -> typed_all (map f_dtype fs) ws = true -> json_tree fs vs = json_tree fs ws -> vs = ws.
Proof. exact (json_tree_inj fs vs ws). Qed.
Print Assumptions C09_json_value_injective.

(* 19. PARTIAL, with weaker premises than 11 / 12: only the TEXT serialisation of the encoded value (json.dumps) and
       md5 remain premises; the encoder itself is modelled (18).
       FULL STATEMENT WANTED: as in 11 / 12 with the real json.dumps and md5. *)
Theorem C09_name_injective_tree_partial
  (md5hex : string -> string) (dumps : jv -> string)
  (md5_collision_free : forall a b, md5hex a = md5hex b -> a = b)
  (md5_hex : forall a, has_char "="%char (md5hex a) = false)
  (dumps_faithful : forall fs vs ws, typed_all (map f_dtype fs) vs = true -> typed_all (map f_dtype fs) ws = true ->
                                     dumps (json_tree fs vs) = dumps (json_tree fs ws) -> json_tree fs vs = json_tree fs ws)
  fs vs ws s : fs <> [] ->
  suffix_str md5hex (json_text dumps) fs vs = Ok s -> suffix_str md5hex (json_text dumps) fs ws = Ok s -> vs = ws.
Proof. exact (suffix_injective_tree md5hex dumps md5_collision_free md5_hex dumps_faithful fs vs ws s). Qed.
Print Assumptions C09_name_injective_tree_partial.

Theorem C09_design_names_unique_tree_partial
  (md5hex : string -> string) (dumps : jv -> string)
  (md5_collision_free : forall a b, md5hex a = md5hex b -> a = b)
  (md5_hex : forall a, has_char "="%char (md5hex a) = false)
  (dumps_faithful : forall fs vs ws, typed_all (map f_dtype fs) vs = true -> typed_all (map f_dtype fs) ws = true ->
                                     dumps (json_tree fs vs) = dumps (json_tree fs ws) -> json_tree fs vs = json_tree fs ws)
  Un Tn fuel ks st ms m1 m2 g1 g2 :
  run_hist_h md5hex (json_text dumps) Un Tn fuel ks = Ok (st, ms) ->
  creators_ok Un Tn (map m_creator (heap st)) ->
  nth_error (heap st) m1 = Some g1 -> nth_error (heap st) m2 = Some g2 -> m_name g1 = m_name g2 -> m1 = m2.
Proof.
  exact (design_names_unique_tree md5hex dumps md5_collision_free md5_hex dumps_faithful Un Tn fuel ks st ms m1 m2 g1 g2).
Qed.
Print Assumptions C09_design_names_unique_tree_partial.

(* 20. REFUTED for the pinned / pre-repair encoder: `2*K` and `2000*UNIT` are equal (==, same hash, same key - one
       generator call, one module) and are written differently, {"number": 2, "prefix": 3} against
       {"number": 2000, "prefix": 0}: the module's name was the digest of whichever spelling was called first
       (G(57caa459a4e1295de2eea10725b1e9f7) against G(96ededbb987fc6a745073904d908015c) on the implementation).
       The repaired encoder writes one text for both. *)
Definition ex_2K : Dec.dec * Z := (Dec.mkDec false 2 0, 3).
Definition ex_2000 : Dec.dec * Z := (Dec.mkDec false 2000 0, 0).
Theorem C09_pinned_encoder_name_by_spelling_refuted :
  exists a b ja jb,
    inst_eqb (VPrefW (fst a) (snd a)) (VPrefW (fst b) (snd b)) = true /\
    hash_eqb (VPrefW (fst a) (snd a)) (VPrefW (fst b) (snd b)) = true /\
    ParamName.norm DScalar (VPrefW (fst a) (snd a)) = ParamName.norm DScalar (VPrefW (fst b) (snd b)) /\
    encode_pref_pinned (fst a) (snd a) = Some ja /\ encode_pref_pinned (fst b) (snd b) = Some jb /\ ja <> jb /\
    encode_inst (VPrefW (fst a) (snd a)) = encode_inst (VPrefW (fst b) (snd b)).
Proof.
  exists ex_2K, ex_2000. eexists. eexists. repeat split; try (vm_compute; reflexivity). vm_compute. discriminate.
Qed.
Print Assumptions C09_pinned_encoder_name_by_spelling_refuted.

(* 20b. REFUTED for the pre-repair naming of floats: -0.0 and 0.0 are equal (==, same hash: one call, one module) and
        str() / json.dumps write them differently, so the readable name `f=-0.0` / `f=0.0` (and likewise the digest) was
        that of whichever was called first.  The repaired code names both as 0.0 (params.py:_named_value): one key. *)
Theorem C09_negative_zero_named_by_spelling_refuted :
  exists a b, valid DFloat a = true /\ valid DFloat b = true /\ inst_eqb a b = true /\ hash_eqb a b = true /\
              render a <> render b /\
              ParamName.norm DFloat a = ParamName.norm DFloat b /\ ParamName.norm DFloat a = Ok (VFloat "0.0").
Proof. exists (VFloat "-0.0"), (VFloat "0.0"). repeat split; try (vm_compute; reflexivity). vm_compute. discriminate. Qed.
Print Assumptions C09_negative_zero_named_by_spelling_refuted.

(* 21. why 14 / 15 need the 20-places condition: 1E-21 and 0 compare equal (Prefixed.__eq__ rounds to 20 places)
       without being equal; their hashes differ, so the dict lookup misses: two calls, two keys, two modules, two
       names (13 still holds) *)
Example C09_tolerance_witness :
  let a := VPrefW (Dec.mkDec false 1 (-21)) 0 in let b := VPrefW (Dec.mkDec false 0 0) 0 in
  inst_eqb a b = true /\ fine a = false /\ hash_eqb a b = false /\ lookup_hit [a] [b] = false /\ canon a <> canon b /\
  encode_inst a <> encode_inst b.
Proof. repeat split; try (vm_compute; reflexivity); vm_compute; discriminate. Qed.

(* ---------- non-vacuity and witnesses ---------- *)
Definition ex_fs : list field :=
  [ {| f_name := "a"; f_dtype := DStr; f_default := None |}; {| f_name := "b"; f_dtype := DStr; f_default := None |} ].

(* the pinned-tree defect, as a statement about the readable form WITHOUT the plain-string test:
   two different parameter sets, one text (G(a='x b=y', b='z') against G(a='x', b='y b=z')) *)
Example C09_readable_without_plain_test_refuted :
  exists vs ws, vs <> ws /\ typed_all (map f_dtype ex_fs) vs = true /\ typed_all (map f_dtype ex_fs) ws = true /\
                readable (map f_name ex_fs) vs = readable (map f_name ex_fs) ws.
Proof. exists [VStr "x b=y"; VStr "z"], [VStr "x"; VStr "y b=z"]. repeat split; try reflexivity. discriminate. Qed.

(* the repaired function sends both to the hashed form, plain values to the readable form *)
Example C09_ex_unique_name :
  unique_name ex_fs [VStr "x b=y"; VStr "z"] = Ok Hashed /\ unique_name ex_fs [VStr "x"; VStr "y b=z"] = Ok Hashed /\
  unique_name ex_fs [VStr "x"; VStr "y"] = Ok (Readable "a=x b=y") /\
  unique_name [ {| f_name := "a"; f_dtype := DOpt DStr; f_default := None |} ] [VNone] = Ok (Readable "a=None") /\
  unique_name [ {| f_name := "a"; f_dtype := DOpt DStr; f_default := None |} ] [VStr "None"] = Ok Hashed /\
  unique_name [ {| f_name := "f"; f_dtype := DFloat; f_default := None |} ] [VFloat "1e-11"] = Ok (Readable "f=1e-11").
Proof. repeat split; vm_compute; reflexivity. Qed.

(* hypotheses of 8 are met by distinct non-trivial values with distinct names *)
Example C09_ex_injective_instance :
  unique_name ex_fs [VStr ""; VStr "x"] = Ok (Readable "a= b=x") /\ unique_name ex_fs [VStr "x"; VStr ""] = Ok (Readable "a=x b=").
Proof. split; vm_compute; reflexivity. Qed.

(* call normalisation: 1, True and 1.0 are one float parameter value; an omitted argument is its default *)
Example C09_ex_norm :
  let fs := [ {| f_name := "f"; f_dtype := DFloat; f_default := Some (VInt 1) |} ] in
  norm_args fs [Some (VInt 1)] = Ok [VFloat "1.0"] /\ norm_args fs [Some (VBool true)] = Ok [VFloat "1.0"] /\
  norm_args fs [Some (VFloat "1.0")] = Ok [VFloat "1.0"] /\ norm_args fs [None] = Ok [VFloat "1.0"].
Proof. repeat split; vm_compute; reflexivity. Qed.

(* a history with a hand-on body (MosStack -> Series shape): Outer(w) returns the module of Inner(w) *)
Definition ex_U : list gen :=
  [ {| g_name := "Outer"; g_fields := [ {| f_name := "w"; f_dtype := DInt; f_default := None |} ] |};
    {| g_name := "Inner"; g_fields := [ {| f_name := "w"; f_dtype := DInt; f_default := None |} ] |} ].
Definition ex_T : list entry :=
  [ {| e_gen := 0; e_args := [Some (VInt 1)]; e_calls := [(1%nat, [Some (VInt 1)])]; e_ret := RPass 0 |} ].
Definition ex_outer : key := (0%nat, [VInt 1]).
Definition ex_inner : key := (1%nat, [VInt 1]).

Example C09_ex_history :
  match run_hist key_eqb (prog_of ex_U ex_T) (gen_name_of ex_U) (has_params_of ex_U) (suffix_of ex_U) 10
                 [ex_outer; ex_inner; ex_outer; (1%nat, [VInt 2])] with
  | Ok (st, ms) => ms = [0; 0; 0; 1]%nat /\ map m_name (heap st) = ["Inner(w=1)"; "Inner(w=2)"] /\
                   rev (runs st) = [ex_outer; ex_inner; (1%nat, [VInt 2])]
  | Error _ => False
  end.
Proof. vm_compute. repeat split. Qed.

Example C09_ex_history_other_order :
  match run_hist key_eqb (prog_of ex_U ex_T) (gen_name_of ex_U) (has_params_of ex_U) (suffix_of ex_U) 10
                 [ex_inner; ex_outer] with
  | Ok (st, ms) => ms = [0; 0]%nat /\ map m_name (heap st) = ["Inner(w=1)"]
  | Error _ => False
  end.
Proof. vm_compute. repeat split. Qed.

Example C09_ex_origin : Origin (prog_of ex_U ex_T) ex_outer ex_inner.
Proof. eapply O_pass; [reflexivity|reflexivity|]. eapply O_fresh. reflexivity. Qed.

(* a circular generator call is rejected, and running out of fuel is a distinct error *)
Example C09_ex_cycle :
  let T := [ {| e_gen := 0; e_args := [Some (VInt 1)]; e_calls := [(0%nat, [Some (VInt 1)])]; e_ret := RFresh None |} ] in
  run_hist key_eqb (prog_of ex_U T) (gen_name_of ex_U) (has_params_of ex_U) (suffix_of ex_U) 10 [ex_outer] = Error ECycle /\
  run_hist key_eqb (prog_of ex_U ex_T) (gen_name_of ex_U) (has_params_of ex_U) (suffix_of ex_U) 1 [ex_outer] = Error EFuel.
Proof. split; vm_compute; reflexivity. Qed.

(* the designer-side hypothesis of 12 holds for this universe *)
Example C09_ex_creators_ok : creators_ok ex_U ex_T [ex_inner; (1%nat, [VInt 2])].
Proof.
  unfold creators_ok. repeat split.
  - intros c [<-|[<-|[]]]; eexists; reflexivity.
  - intros c [<-|[<-|[]]]; reflexivity.
  - intros c1 c2 [<-|[<-|[]]] [<-|[<-|[]]] _; reflexivity.
  - intros c [<-|[<-|[]]]; reflexivity.
Qed.

(* ---------- non-vacuity of 13 - 19 ---------- *)
Definition ex_sfs : list field :=
  [ {| f_name := "r"; f_dtype := DScalar; f_default := Some (VPrefW (Dec.mkDec false 1 0) 3) |};
    {| f_name := "d"; f_dtype := DDec; f_default := Some (VInt 1) |};
    {| f_name := "n"; f_dtype := DRec [DOpt DScalar; DInt]; f_default := None |} ].

(* 2*K, 2000 (int), "2.000e3" (str), 2000.0 (float), Prefixed(2000000, MILLI): one key; 2001 another one *)
Example C09_ex_scalar_keys :
  let nested := Some (VRec [VStr " 5_0 "; VBool true]) in
  let k a := norm_args ex_sfs [Some a; Some (VStr "2.50"); nested] in
  k (VPrefW (Dec.mkDec false 2 0) 3) = Ok [VPref 2 3; VDec 25 (-1); VRec [VPref 5 1; VInt 1]] /\
  k (VInt 2000) = k (VPrefW (Dec.mkDec false 2 0) 3) /\ k (VStr "2.000e3") = k (VInt 2000) /\
  k (VFloat "2000.0") = k (VInt 2000) /\ k (VPrefW (Dec.mkDec false 2000000 0) (-3)) = k (VInt 2000) /\
  k (VInt 2001) <> k (VInt 2000) /\
  norm_args ex_sfs [None; None; Some (VRec [VStr "w/5"; VInt 0])] = Ok [VPref 1 3; VDec 1 0; VRec [VLit "w/5"; VInt 0]].
Proof. repeat split; try (vm_compute; reflexivity). vm_compute. discriminate. Qed.

(* hypotheses of 13 / 14 / 15 on a non-trivial pair: validated, fine, == *)
Example C09_ex_eq_hypotheses :
  let a1 := [Some (VPrefW (Dec.mkDec false 2 0) 3); Some (VStr "2.50"); Some (VRec [VNone; VInt 7])] in
  let a2 := [Some (VStr "2.000e3"); Some (VFloat "2.5"); Some (VRec [VNone; VInt 7])] in
  match validate_args ex_sfs a1, validate_args ex_sfs a2 with
  | Ok v1, Ok v2 => v1 <> v2 /\ fine_all v1 = true /\ fine_all v2 = true /\ insts_eqb v1 v2 = true /\ lookup_hit v1 v2 = true
  | _, _ => False
  end.
Proof. vm_compute. repeat split. discriminate. Qed.

Example C09_ex_json_tree :
  json_tree ex_sfs [VPref 2 3; VDec 25 (-1); VRec [VLit "w/5"; VInt 0]] =
  JObj [("r", JObj [("prefixed", JStr "2e3")]); ("d", JObj [("decimal", JStr "25e-1")]);
        ("n", JObj [("0", JObj [("text", JStr "w/5")]); ("1", JInt 0)])].
Proof. vm_compute. reflexivity. Qed.

Example C09_ex_value_text : canon_str 2 3 = "2e3" /\ canon_str (-15) (-1) = "-15e-1" /\ canon_str 0 0 = "0e0".
Proof. repeat split; vm_compute; reflexivity. Qed.

(* a history over a Scalar-valued generator: four spellings of 2000 and one of 2001 - two modules *)
Definition ex_SU : list gen := [ {| g_name := "Res"; g_fields := [ {| f_name := "r"; f_dtype := DScalar; f_default := None |} ] |} ].
Example C09_ex_scalar_history :
  match model_hist ex_SU [] init [(0%nat, [Some (VPrefW (Dec.mkDec false 2 0) 3)]); (0%nat, [Some (VInt 2000)]);
                                  (0%nat, [Some (VStr "2001")]); (0%nat, [Some (VPrefW (Dec.mkDec false 2000 (-3)) 3)])] with
  | (st, obs) => map (fun o => match o with Some (_, m) => Some m | None => None end) obs = [Some 0; Some 0; Some 1; Some 0]%nat /\
                 List.length (runs st) = 2%nat
  end.
Proof. vm_compute. split; reflexivity. Qed.

(* =====================================================================================================
   STRENGTHENING ROUND: histories in which calls are REFUSED and the history goes on (Model/C09GenFail.v).
   Theorems 1-7 above speak about histories in which no call raised (`run_hist ... = Ok ...`).  A caller that catches
   the exception and calls again - a notebook cell run twice, a try / except fallback - makes histories they are silent
   about.  `hist_f fuel ks = (st, os)` is TOTAL: os holds the outcome of every call, `Ret m` or `Raise e`, and st is
   the cache afterwards.  What can raise: a circular dependency, NAMING the result after the body ran (`suffix k = None`:
   `_unique_name` raises for parameters that have no JSON form - functions, lambdas, objects of user types, Instances),
   a refused nested call.  Policy StoreNamed is the code (the result enters the cache after it was named); StoreFirst
   is what the seeded changes C09r2-A / C08r2-A did, refuted in 31.
   ===================================================================================================== *)
Section Failing.
Variable U : list gen.
Variable T : list entry.
Variable suffix : key -> option string.      (* any rendering of _unique_name; None = it raises *)
Notation histF := (hist_f key_eqb (prog_of U T) (gen_name_of U) (has_params_of U) suffix StoreNamed).
Notation OrigF := (Origin (prog_of U T)).
Notation cnameF := (created_name (prog_of U T) (gen_name_of U) (has_params_of U) (sfx suffix)).
Notation BadF := (Bad (prog_of U T) (has_params_of U) suffix).
Notation nrunsF := (nruns key_eqb).

(* 22. every call, refused or not, leaves `pending` and `stack` as it found them *)
Theorem C09_fail_cache_clean fuel ks st os : histF fuel ks = (st, os) -> pending st = [] /\ stack st = [].
Proof. exact (clean_after key key_eqb key_eqb_eq _ _ _ _ fuel ks st os). Qed.

(* 23. memoisation across refusals: two calls with equal parameters that are answered, are answered with the identical
       module - whatever was refused in between *)
Theorem C09_fail_memo_same fuel ks st os i j k mi mj : histF fuel ks = (st, os) ->
  nth_error ks i = Some k -> nth_error ks j = Some k ->
  nth_error os i = Some (Ret mi) -> nth_error os j = Some (Ret mj) -> mi = mj.
Proof. exact (memo_sameF key key_eqb key_eqb_eq _ _ _ _ fuel ks st os i j k mi mj). Qed.

(* 24. ... and a call that was answered once is answered - not refused - at every later repetition, with that module *)
Theorem C09_fail_accepted_stays fuel ks st os i j k m : histF fuel ks = (st, os) -> (0 < fuel)%nat -> (i <= j)%nat ->
  nth_error ks i = Some k -> nth_error ks j = Some k -> nth_error os i = Some (Ret m) -> nth_error os j = Some (Ret m).
Proof. exact (accepted_stays key key_eqb key_eqb_eq _ _ _ _ fuel ks st os i j k m). Qed.

(* 25. every module a history hands out was created by the call at the end of the hand-on chain, carries the name that
       call gave it, and naming that call did NOT fail: no module of a parametric generator is handed out without its
       parameter suffix, however many calls failed before *)
Theorem C09_fail_name_of_returned fuel ks st os i k m : histF fuel ks = (st, os) ->
  nth_error ks i = Some k -> nth_error os i = Some (Ret m) ->
  exists gm, nth_error (heap st) m = Some gm /\ OrigF k (m_creator gm) /\ m_name gm = cnameF (m_creator gm) /\
             name_ok (has_params_of U) suffix (m_creator gm) = true.
Proof. exact (returned_moduleF key key_eqb key_eqb_eq _ _ _ _ fuel ks st os i k m). Qed.

(* 26. the name of the module returned for a call is the same in every history, refusals included *)
Theorem C09_fail_name_history_free f1 f2 ks1 ks2 st1 st2 os1 os2 i j k m1 m2 g1 g2 :
  histF f1 ks1 = (st1, os1) -> histF f2 ks2 = (st2, os2) ->
  nth_error ks1 i = Some k -> nth_error ks2 j = Some k ->
  nth_error os1 i = Some (Ret m1) -> nth_error os2 j = Some (Ret m2) ->
  nth_error (heap st1) m1 = Some g1 -> nth_error (heap st2) m2 = Some g2 -> m_name g1 = m_name g2.
Proof. exact (name_history_freeF key key_eqb key_eqb_eq _ _ _ _ f1 f2 ks1 ks2 st1 st2 os1 os2 i j k m1 m2 g1 g2). Qed.

(* 27. same module <-> same creating call, refusals included *)
Theorem C09_fail_same_module_iff fuel ks st os i j ki kj mi mj ci cj : histF fuel ks = (st, os) ->
  nth_error ks i = Some ki -> nth_error ks j = Some kj ->
  nth_error os i = Some (Ret mi) -> nth_error os j = Some (Ret mj) ->
  OrigF ki ci -> OrigF kj cj -> (mi = mj <-> ci = cj).
Proof. exact (same_module_iffF key key_eqb key_eqb_eq _ _ _ _ fuel ks st os i j ki kj mi mj ci cj). Qed.

(* 28. REFUSED, AND REFUSED AGAIN.  A call that is refused once (for any reason but the model's own recursion bound) is
       refused at every position of every history: in the same interpreter or another one, before or after any other
       calls.  Whether a call is refused is a property of the call (Bad: its call graph holds a call whose result cannot
       be named, a hand-on of nothing, or a cycle) - not of the history. *)
Theorem C09_fail_refused_is_bad fuel ks st os i k e : histF fuel ks = (st, os) -> nth_error ks i = Some k ->
  nth_error os i = Some (Raise e) -> e <> EFuel -> BadF k.
Proof. exact (refused_is_bad key key_eqb key_eqb_eq _ _ _ _ fuel ks st os i k e). Qed.

Theorem C09_fail_refusal_history_free f1 f2 ks1 ks2 st1 st2 os1 os2 i j k e :
  histF f1 ks1 = (st1, os1) -> histF f2 ks2 = (st2, os2) ->
  nth_error ks1 i = Some k -> nth_error os1 i = Some (Raise e) -> e <> EFuel ->
  nth_error ks2 j = Some k -> exists e', nth_error os2 j = Some (Raise e').
Proof. exact (refusal_history_free key key_eqb key_eqb_eq _ _ _ _ f1 f2 ks1 ks2 st1 st2 os1 os2 i j k e). Qed.

(* ... and nothing is ever stored for it *)
Theorem C09_fail_bad_never_cached fuel ks st os k : histF fuel ks = (st, os) -> BadF k -> ~ In k (map fst (done st)).
Proof.
  intros H B. destruct (histf_inv key key_eqb key_eqb_eq _ _ _ _ _ _ _ _ H) as [I _].
  exact (bad_not_done key key_eqb _ _ _ _ st k I B).
Qed.

(* 29. the body runs once: in a history that did not hit the model's recursion bound, every call in the cache - every
       answered call, every nested call that completed - executed its body exactly once, however often it was repeated
       and whatever was refused in between; a call that executed and is not in the cache is Bad.  And (no hypothesis) a
       cached call is never executed again by any continuation of the history. *)
Theorem C09_fail_body_once fuel ks st os : histF fuel ks = (st, os) -> ~ In (Raise EFuel) os ->
  (forall k, In k (map fst (done st)) -> nrunsF k st = 1%nat) /\
  (forall k, In k (runs st) -> In k (map fst (done st)) \/ BadF k).
Proof. exact (body_once key key_eqb key_eqb_eq _ _ _ _ fuel ks st os). Qed.

Theorem C09_fail_answered_ran_once fuel ks st os i k m : histF fuel ks = (st, os) -> ~ In (Raise EFuel) os ->
  nth_error ks i = Some k -> nth_error os i = Some (Ret m) -> nrunsF k st = 1%nat.
Proof. exact (accepted_ran_once key key_eqb key_eqb_eq _ _ _ _ fuel ks st os i k m). Qed.

Theorem C09_fail_cached_not_rerun fuel ks1 ks2 k : In k (map fst (done (fst (histF fuel ks1)))) ->
  nrunsF k (fst (histF fuel (ks1 ++ ks2))) = nrunsF k (fst (histF fuel ks1)).
Proof. exact (cached_not_rerun key key_eqb key_eqb_eq _ _ _ _ fuel ks1 ks2 k). Qed.

(* 30. the failing-call model extends the model of theorems 1-7: a call it answers is answered by Model/GenCache.v with
       the same module and the same state *)
Theorem C09_fail_model_extends fuel st k st' m :
  run_f key_eqb (prog_of U T) (gen_name_of U) (has_params_of U) suffix StoreNamed fuel st k = (st', Ret m) ->
  run key_eqb (prog_of U T) (gen_name_of U) (has_params_of U) (sfx suffix) fuel st k = Ok (st', m).
Proof. exact (run_f_refines key key_eqb _ _ _ _ fuel st k st' m). Qed.

End Failing.
Print Assumptions C09_fail_cache_clean.
Print Assumptions C09_fail_memo_same.
Print Assumptions C09_fail_accepted_stays.
Print Assumptions C09_fail_name_of_returned.
Print Assumptions C09_fail_name_history_free.
Print Assumptions C09_fail_same_module_iff.
Print Assumptions C09_fail_refused_is_bad.
Print Assumptions C09_fail_refusal_history_free.
Print Assumptions C09_fail_bad_never_cached.
Print Assumptions C09_fail_body_once.
Print Assumptions C09_fail_answered_ran_once.
Print Assumptions C09_fail_cached_not_rerun.
Print Assumptions C09_fail_model_extends.

(* ---------- parameter values that cannot be named (functions, lambdas, objects of user types, Instances: VObj) ---------- *)

(* 32. a name exists only for a parameter set without such an object, and is then the name of theorems 8, 11, 19; a set
       holding one anywhere (nested classes included) is refused by _unique_name - no fallback to repr(obj), which would
       put a memory address into the name *)
Theorem C09_name_needs_json_form fs vs u : unique_name_f fs vs = Ok u -> existsb has_obj vs = false /\ unique_name fs vs = Ok u.
Proof. exact (unique_name_f_ok fs vs u). Qed.
Theorem C09_unnameable_refused fs vs : existsb has_obj vs = true -> unique_name_f fs vs = Error EName.
Proof. exact (unique_name_f_refuses fs vs). Qed.
Print Assumptions C09_name_needs_json_form.
Print Assumptions C09_unnameable_refused.

(* 33. a call of a generator that builds its own module, with such an object in its parameters, is refused at every
       position of every history over every universe and table - and no module is ever stored for it.  (A generator
       that HANDS ON the module of a nested call is not: that module is named by the call that created it.) *)
Theorem C09_unnameable_call_always_refused U T c k o fuel ks st os i :
  mk_key U c = Ok k -> existsb has_obj (snd k) = true -> b_ret (prog_of U T k) = RFresh o ->
  hist_f key_eqb (prog_of U T) (gen_name_of U) (has_params_of U) (suffix_opt_of U) StoreNamed fuel ks = (st, os) ->
  nth_error ks i = Some k -> (exists e, nth_error os i = Some (Raise e)) /\ ~ In k (map fst (done st)).
Proof.
  intros M H R Hh Ki. pose proof (unnameable_doomed U T c k o M H R) as D. split.
  - exact (doomed_refused key key_eqb key_eqb_eq _ _ _ _ fuel ks st os i k Hh D Ki).
  - destruct (histf_inv key key_eqb key_eqb_eq _ _ _ _ _ _ _ _ Hh) as [I _].
    exact (doomed_not_done key key_eqb _ _ _ _ st k I D).
Qed.
Print Assumptions C09_unnameable_call_always_refused.

(* 34. PARTIAL (premises as in 11 / 12: md5 collision-free and hex, json.dumps injective on validated values): theorem 12
       for histories with refused calls - no two different generated modules of a design share a name *)
Theorem C09_design_names_unique_after_refusals_partial
  (md5hex : string -> string) (json : list field -> list pval -> string)
  (md5_collision_free : forall a b, md5hex a = md5hex b -> a = b)
  (md5_hex : forall a, has_char "="%char (md5hex a) = false)
  (json_injective : forall fs vs ws, typed_all (map f_dtype fs) vs = true -> typed_all (map f_dtype fs) ws = true ->
                                     json fs vs = json fs ws -> vs = ws)
  Un Tn fuel ks st os m1 m2 g1 g2 :
  hist_fh md5hex json Un Tn fuel ks = (st, os) ->
  creators_ok Un Tn (map m_creator (heap st)) ->
  nth_error (heap st) m1 = Some g1 -> nth_error (heap st) m2 = Some g2 -> m_name g1 = m_name g2 -> m1 = m2.
Proof.
  exact (design_names_unique_f md5hex json md5_collision_free md5_hex json_injective Un Tn fuel ks st os m1 m2 g1 g2).
Qed.
Print Assumptions C09_design_names_unique_after_refusals_partial.

(* ---------- witnesses ---------- *)
Definition ex_FU : list gen :=
  [ {| g_name := "G"; g_fields := [ {| f_name := "width"; f_dtype := DInt; f_default := None |};
                                     {| f_name := "fn"; f_dtype := DObj; f_default := None |} ] |};
    {| g_name := "H"; g_fields := [ {| f_name := "w"; f_dtype := DInt; f_default := None |} ] |} ].
Definition ex_g1 : key := (0%nat, [VInt 1; VObj 0]).
Definition ex_g2 : key := (0%nat, [VInt 2; VObj 1]).
Definition ex_h1 : key := (1%nat, [VInt 1]).
Definition names_of (st : state key) : list string := map m_name (heap st).
Definition ex_hist pol := hist_f key_eqb (prog_of ex_FU []) (gen_name_of ex_FU) (has_params_of ex_FU) (suffix_opt_of ex_FU) pol 10
                                 [ex_g1; ex_h1; ex_g1; ex_g2; ex_g2; ex_h1].

(* the code: G(width=1, fn=f) is refused, and refused again; H(w=1) in between is answered, and answered alike later;
   the two bodies of the refused calls ran at every attempt, H's once *)
Example C09_ex_refused_again :
  snd (ex_hist StoreNamed) = [Raise EName; Ret 0; Raise EName; Raise EName; Raise EName; Ret 0]%nat /\
  names_of (fst (ex_hist StoreNamed)) = ["H(w=1)"] /\
  nruns key_eqb ex_g1 (fst (ex_hist StoreNamed)) = 2%nat /\ nruns key_eqb ex_h1 (fst (ex_hist StoreNamed)) = 1%nat /\
  pending (fst (ex_hist StoreNamed)) = [] /\ stack (fst (ex_hist StoreNamed)) = [].
Proof. vm_compute. repeat split. Qed.

(* 31. REFUTED for the seeded changes C09r2-A / C08r2-A (the result is stored before it is named): the repeated call
       RETURNS a module - named `G`, without parameter suffix - where the first one raised; a second value gives a second
       module under the SAME name; the bodies are not run again.  One call is thus refused or answered depending on the
       history, and two different generated modules share one export name. *)
Theorem C09_store_before_name_refuted :
  exists Un ks k1 k2, k1 <> k2 /\
    let h := hist_f key_eqb (prog_of Un []) (gen_name_of Un) (has_params_of Un) (suffix_opt_of Un) StoreFirst 10 ks in
    nth_error ks 0 = Some k1 /\ nth_error ks 2 = Some k1 /\ nth_error ks 3 = Some k2 /\ nth_error ks 4 = Some k2 /\
    nth_error (snd h) 0 = Some (Raise EName) /\ nth_error (snd h) 2 = Some (Ret 0%nat) /\
    nth_error (snd h) 3 = Some (Raise EName) /\ nth_error (snd h) 4 = Some (Ret 2%nat) /\
    nth_error (names_of (fst h)) 0 = Some "G" /\ nth_error (names_of (fst h)) 2 = Some "G" /\
    nruns key_eqb k1 (fst h) = 1%nat.
Proof.
  exists ex_FU, [ex_g1; ex_h1; ex_g1; ex_g2; ex_g2; ex_h1], ex_g1, ex_g2. split; [discriminate|].
  vm_compute. repeat split.
Qed.
Print Assumptions C09_store_before_name_refuted.

(* hand-on through an un-nameable call, a refused nested call, and a cycle: Outer(fn) returns the module of H(w=1) and
   is answered (that module has its name); Wrap(w=1) calls G(1, fn) and is refused with it, every time; Cyc is Bad *)
Definition ex_FU2 : list gen := ex_FU ++
  [ {| g_name := "Outer"; g_fields := [ {| f_name := "fn"; f_dtype := DObj; f_default := None |} ] |};
    {| g_name := "Wrap"; g_fields := [ {| f_name := "w"; f_dtype := DInt; f_default := None |} ] |};
    {| g_name := "Cyc"; g_fields := [ {| f_name := "w"; f_dtype := DInt; f_default := None |} ] |} ].
Definition ex_FT2 : list entry :=
  [ {| e_gen := 2; e_args := [Some (VObj 0)]; e_calls := [(1%nat, [Some (VInt 1)])]; e_ret := RPass 0 |};
    {| e_gen := 3; e_args := [Some (VInt 1)]; e_calls := [(1%nat, [Some (VInt 1)]); (0%nat, [Some (VInt 1); Some (VObj 0)])]; e_ret := RFresh None |};
    {| e_gen := 4; e_args := [Some (VInt 1)]; e_calls := [(4%nat, [Some (VInt 2)])]; e_ret := RFresh None |};
    {| e_gen := 4; e_args := [Some (VInt 2)]; e_calls := [(4%nat, [Some (VInt 1)])]; e_ret := RFresh None |} ].
Example C09_ex_nesting :
  let h := hist_f key_eqb (prog_of ex_FU2 ex_FT2) (gen_name_of ex_FU2) (has_params_of ex_FU2) (suffix_opt_of ex_FU2) StoreNamed 10
             [(2%nat, [VObj 0]); (3%nat, [VInt 1]); (3%nat, [VInt 1]); (4%nat, [VInt 1]); (4%nat, [VInt 2]); ex_h1; (2%nat, [VObj 0])] in
  snd h = [Ret 0; Raise EName; Raise EName; Raise ECycle; Raise ECycle; Ret 0; Ret 0]%nat /\ names_of (fst h) = ["H(w=1)"].
Proof. vm_compute. split; reflexivity. Qed.

Example C09_ex_bad_cycle : Bad (prog_of ex_FU2 ex_FT2) (has_params_of ex_FU2) (suffix_opt_of ex_FU2) (4%nat, [VInt 1]).
Proof.
  apply B_cycle. apply CP_step with (b := (4%nat, [VInt 2])); [|apply CP_one]; unfold Calls; vm_compute; left; reflexivity.
Qed.

Example C09_ex_unnameable_doomed : Doomed (prog_of ex_FU []) (has_params_of ex_FU) (suffix_opt_of ex_FU) ex_g1.
Proof. eapply (unnameable_doomed ex_FU [] (0%nat, [Some (VInt 1); Some (VObj 0)])); reflexivity. Qed.

(* nested param-classes and optional fields: an object anywhere in the parameters *)
Example C09_ex_unnameable_nested :
  let fs := [ {| f_name := "n"; f_dtype := DRec [DOpt DObj; DInt]; f_default := None |}; {| f_name := "o"; f_dtype := DOpt DObj; f_default := Some VNone |} ] in
  unique_name_f fs [VRec [VNone; VInt 1]; VNone] = Ok Hashed /\
  unique_name_f fs [VRec [VObj 3; VInt 1]; VNone] = Error EName /\ unique_name_f fs [VRec [VNone; VInt 1]; VObj 0] = Error EName /\
  norm_args fs [Some (VRec [VObj 3; VInt 1]); None] = Ok [VRec [VObj 3; VInt 1]; VNone].
Proof. repeat split; vm_compute; reflexivity. Qed.

(* =====================================================================================================
   STRENGTHENING ROUND 3: parameter values WITHOUT A HASH (list / dict / set valued fields), and the text written for a
   SET-valued parameter in interpreters that iterate over it in different orders.

   What the unmodified tree must do with an unhashable parameter value.  The property demands "equal parameters -> the
   identical Module, the body runs once".  The cache is a dict keyed by the call; a call whose parameters hold a list,
   dict or set has no hash, so it can neither be found nor stored.  The tree raises TypeError at the lookup - the first
   thing `run` does: nothing was pushed, the body does not run, no module is handed out - and does so again whenever the
   call is repeated.  That keeps the property (no module, hence never two modules for equal parameters, never two
   modules under one name).  Answering such a call is only admissible if the equal call gets the identical module;
   running it un-cached (seeded change C09r3-C) gives a new module per call, all under the one name md5(JSON).
   In the model: `validate` accepts `VMut` in a `DMut` field, `canon` refuses it, so the call has no key (`mk_key` fails)
   and `model_hist` refuses it without touching the state.
   ===================================================================================================== *)

(* 35. a value has a cache key EXACTLY when it holds no unhashable container (any depth of nested param-classes) *)
Theorem C09_key_only_without_container x y : canon x = Ok y -> has_mut x = false.
Proof. exact (canon_ok_no_mut x y). Qed.
Theorem C09_key_whenever_without_container d x : valid d x = true -> has_mut x = false -> exists y, canon x = Ok y.
Proof. exact (canon_total d x). Qed.
Print Assumptions C09_key_only_without_container.
Print Assumptions C09_key_whenever_without_container.

(* 36. a call whose validated parameters hold a list / dict / set anywhere has no key, whatever the universe *)
Theorem C09_unhashable_call_has_no_key U g G a v :
  nth_error U g = Some G -> validate_args (g_fields G) a = Ok v -> existsb has_mut v = true -> is_ok (mk_key U (g, a)) = false.
Proof.
  intros HG V M. unfold mk_key. cbn [fst snd]. rewrite HG.
  destruct (norm_args (g_fields G) a) as [r|] eqn:N; [|reflexivity].
  apply norm_args_split in N. destruct N as [v' [Vv Cv]]. rewrite V in Vv. inversion Vv. subst v'.
  rewrite (canon_all_ok_no_mut _ _ Cv) in M. discriminate.
Qed.
Print Assumptions C09_unhashable_call_has_no_key.

(* 37. REFUSED, AT EVERY POSITION OF EVERY HISTORY, WITHOUT A TRACE: for every storing policy, universe, table, history
       `pre` made before and history `post` made after, a call without a key is refused, and the cache, the modules, the
       body executions and the outcomes of all other calls are those of the history in which it was never made *)
Lemma model_hist_skip pol U T c post : is_ok (mk_key U c) = false -> forall pre st,
  fst (model_hist_p pol U T st (pre ++ c :: post)) = fst (model_hist_p pol U T st (pre ++ post)) /\
  snd (model_hist_p pol U T st (pre ++ c :: post)) =
    (firstn (List.length pre) (snd (model_hist_p pol U T st (pre ++ post))) ++ None ::
     skipn (List.length pre) (snd (model_hist_p pol U T st (pre ++ post))))%list.
Proof.
  intros K. induction pre as [|p pre IH]; intros st.
  - cbn [app List.length firstn skipn]. cbn [model_hist_p]. destruct (mk_key U c); [discriminate|]. split; reflexivity.
  - cbn [app List.length]. cbn [model_hist_p]. destruct (mk_key U p) as [k|].
    + destruct (run_cf pol U T st k) as [st' [m|e]]; destruct (IH st') as [A B]; cbn [fst snd firstn skipn]; rewrite A, B; split; reflexivity.
    + destruct (IH st) as [A B]; cbn [fst snd firstn skipn]; rewrite A, B; split; reflexivity.
Qed.

Theorem C09_unhashable_call_always_refused pol U T g G a v pre post st :
  nth_error U g = Some G -> validate_args (g_fields G) a = Ok v -> existsb has_mut v = true ->
  let with_call := model_hist_p pol U T st (pre ++ (g, a) :: post) in
  let without := model_hist_p pol U T st (pre ++ post) in
  nth_error (snd with_call) (List.length pre) = Some None /\
  fst with_call = fst without /\
  snd with_call = (firstn (List.length pre) (snd without) ++ None :: skipn (List.length pre) (snd without))%list.
Proof.
  intros HG V M with_call without. subst with_call without.
  destruct (model_hist_skip pol U T (g, a) post (C09_unhashable_call_has_no_key U g G a v HG V M) pre st) as [A B].
  split; [|split; assumption].
  assert (forall (l : list (option (key * nat))) n, List.length l = n -> forall t x, nth_error (l ++ x :: t)%list n = Some x) as L.
  { induction l as [|y l IHl]; intros n Hn t x; subst n; [reflexivity|]. simpl. apply IHl. reflexivity. }
  assert (forall cs st0, List.length (snd (model_hist_p pol U T st0 cs)) = List.length cs) as Len.
  { induction cs as [|c0 cs IHc]; intros st0; [reflexivity|]. cbn [model_hist_p].
    destruct (mk_key U c0) as [k|]; [destruct (run_cf pol U T st0 k) as [st' [m|e]]|]; cbn [snd List.length]; rewrite IHc; reflexivity. }
  etransitivity; [apply (f_equal (fun l => nth_error l (List.length pre)) B)|]. cbv beta.
  apply L. rewrite firstn_length, Len, app_length. apply Nat.min_l. apply Nat.le_add_r.
Qed.
Print Assumptions C09_unhashable_call_always_refused.

Definition ex_MU : list gen :=
  [ {| g_name := "Dac"; g_fields := [ {| f_name := "weights"; f_dtype := DMut; f_default := None |};
                                      {| f_name := "k"; f_dtype := DInt; f_default := Some (VInt 1) |} ] |};
    {| g_name := "N"; g_fields := [ {| f_name := "n"; f_dtype := DRec [DOpt DMut; DInt]; f_default := None |} ] |};
    {| g_name := "H"; g_fields := [ {| f_name := "w"; f_dtype := DInt; f_default := Some (VInt 1) |} ] |} ].
(* Dac(weights=[1,2,4]) three times, between answered calls; nested: N(n=R(None, 1)) has a key, N(n=R([..], 1)) has none *)
Example C09_ex_unhashable_history :
  let h := model_hist ex_MU [] init [(2%nat, [None]); (0%nat, [Some (VMut 0); None]); (0%nat, [Some (VMut 0); Some (VInt 1)]);
                                     (1%nat, [Some (VRec [VNone; VInt 1])]); (1%nat, [Some (VRec [VMut 2; VInt 1])]);
                                     (0%nat, [Some (VMut 0); None]); (2%nat, [Some (VInt 1)])] in
  map (fun o => match o with Some (_, m) => Some m | None => None end) (snd h) = [Some 0; None; None; Some 1; None; None; Some 0]%nat /\
  List.length (runs (fst h)) = 2%nat /\
  validate_args (g_fields (gen_of ex_MU (0%nat, []))) [Some (VMut 0); None] = Ok [VMut 0; VInt 1].
Proof. vm_compute. repeat split; reflexivity. Qed.

(* ---------- set-valued parameters: the text hdl21_naming_encoder writes (Model/C09SetName.v) ---------- *)

(* 38. ONE TEXT IN EVERY PROCESS: whatever order each set of a (nested) set value is iterated in - pi is ANY function
       that returns a permutation of the list it is given - the JSON text written for the value is the same.  All values. *)
Theorem C09_set_text_order_free pi : (forall l, Permutation.Permutation l (pi l)) -> forall v, enc (shuffle pi v) = enc v.
Proof. exact (enc_shuffle pi). Qed.
Print Assumptions C09_set_text_order_free.

(* 39. one level, in terms of the member texts: two iterations that visit members with the same texts give one text *)
Theorem C09_set_text_by_member_texts ms ms' :
  Permutation.Permutation (map enc ms) (map enc ms') -> enc (SSet ms) = enc (SSet ms').
Proof. exact (enc_set_perm ms ms'). Qed.
Print Assumptions C09_set_text_by_member_texts.

(* 40. REFUTED for `sorted(obj, key=str)` (seeded change C09r3-A): members with equal str() keep their iteration order,
       and str() of a member that is a set is written in that set's iteration order *)
Theorem C09_set_sorted_by_str_refuted :
  exists pi, (forall l, Permutation.Permutation l (pi l)) /\
    enc_by_str (shuffle pi (SSet [SInt 1; SStr "1"])) <> enc_by_str (SSet [SInt 1; SStr "1"]) /\
    enc_by_str (shuffle pi (SSet [SSet [SStr "a"; SStr "z"]; SSet [SStr "m"]])) <> enc_by_str (SSet [SSet [SStr "a"; SStr "z"]; SSet [SStr "m"]]).
Proof.
  exists (@rev sval). split; [apply Permutation.Permutation_rev|]. split; vm_compute; discriminate.
Qed.
Print Assumptions C09_set_sorted_by_str_refuted.

(* the texts themselves (also compared with json.dumps on every run, stream setenc) *)
Example C09_ex_set_text :
  enc (SSet [SSet [SStr "b"; SStr "a"]; SSet [SStr "c"]]) = "[""[\""\\\""a\\\""\"", \""\\\""b\\\""\""]"", ""[\""\\\""c\\\""\""]""]" /\
  enc (SSet [SStr "1"; SInt 1]) = "[""\""1\"""", ""1""]" /\ enc (SSet []) = "[]" /\
  enc (shuffle (@rev sval) (SSet [SSet [SStr "b"; SStr "a"]; SSet [SStr "c"]])) = enc (SSet [SSet [SStr "b"; SStr "a"]; SSet [SStr "c"]]) /\
  enc_by_str (SSet [SInt 1; SStr "1"]) = "[1, ""1""]" /\ enc_by_str (SSet [SStr "1"; SInt 1]) = "[""1"", 1]".
Proof. vm_compute. repeat split; reflexivity. Qed.
