(* Props/C18Y.v — C18, second strengthening round.
   (a) `direction` of a Signal is part of the model's values (Spec/Namespace.v: KSignal vis dir) and of the live
       objects of the world, with `x.direction = d` (WDir) next to `x.vis = ..` (WVis).  Every round-1 / C18W theorem is
       now quantified over directions as well; the statements below say what that means for the ports view.
   (b) class-style definitions whose body binds public names to plain (non-HDL) data, FOLLOWED by edits that re-use
       those names: the class-built container is the procedural one, stays coherent under every further history, and a
       name the body gave to plain data denotes nothing (get and attribute access) until an edit binds it.
   Only statements, closed by lemmas of Proofs/C18YProofs.v, each followed by Print Assumptions. *)
Require Import Hdl21.Base.PyInt Hdl21.Spec.Namespace Hdl21.Model.Namespace Hdl21.Proofs.NamespaceProofs.
Require Import Hdl21.Spec.C18World Hdl21.Model.C18World Hdl21.Proofs.C18WorldProofs Hdl21.Proofs.C18YProofs.
Require Import Hdl21.Props.C18 Hdl21.Props.C18W.
From Coq Require Import String Ascii.
Open Scope list_scope.
Open Scope Z_scope.
Notation get := Hdl21.Model.Namespace.get.

(* 1. the view that lists a signal depends on its visibility alone *)
Theorem C18Y_view_ignores_direction c p d d' : view_of c (KSignal p d) = view_of c (KSignal p d').
Proof. exact (view_of_dir c p d d'). Qed.
Print Assumptions C18Y_view_ignores_direction.

(* 2. after ANY history of the world, an accepted setattr / add of a live Signal x (fresh, held, re-added after
      `x.vis = INTERNAL` or `x.direction = ..`) on a Module lists it under `ports` exactly when x is port-visible NOW,
      under `signals` exactly when it is not - for every direction d it carries *)
Theorem C18Y_add_sorts_by_visibility_only ops o w' i m x ob p d :
  wmstep (wrun ops) o = Some w' -> wbind (w_heap (wrun ops)) o = Some ((CModule, i), m) ->
  op_obj o = Some x -> w_heap (wrun ops) x = Some ob -> o_kind ob = KSignal p d ->
  let v := V x (KSignal p d) (Some m) in
  wget w' (CModule, i) m = Some v /\
  (lookup m (st_views (w_st w' (CModule, i)) VPorts) = Some v <-> p = true) /\
  (lookup m (st_views (w_st w' (CModule, i)) VSignals) = Some v <-> p = false).
Proof.
  intros H B Hx Hh Hk. destruct (C18W_add_resorts_renames_reparents ops o w' _ m H B) as [x' [ob' [H1 [H2 [H3 _]]]]].
  rewrite Hx in H1. inversion H1. subst x'. rewrite Hh in H2. inversion H2. subst ob'. rewrite Hk in H3.
  intros v. split; [exact H3|].
  assert (HC : CohW w') by (eapply cohw_step; [apply cohw_fold, cohw_init|exact H]).
  exact (coh_ports CModule (w_st w' (CModule, i)) m v p d eq_refl (HC (CModule, i)) H3 eq_refl).
Qed.
Print Assumptions C18Y_add_sorts_by_visibility_only.

(* 3. `x.direction = d` changes no container and no other object; x keeps visibility, name and parents.
      `x.vis = q` changes no container and keeps the direction (so an h.Input() turned internal still carries INPUT) *)
Theorem C18Y_direction_assignment_frames w x d w' : wmstep w (WDir x d) = Some w' ->
  (forall ci, w_st w' ci = w_st w ci) /\
  (forall y, y <> x -> w_heap w' y = w_heap w y) /\
  exists p d0 nm pm pb, w_heap w x = Some (Ob (KSignal p d0) nm pm pb) /\ w_heap w' x = Some (Ob (KSignal p d) nm pm pb).
Proof. exact (wdir_effect w x d w'). Qed.
Print Assumptions C18Y_direction_assignment_frames.

Theorem C18Y_visibility_assignment_keeps_direction w x q w' : wmstep w (WVis x q) = Some w' ->
  (forall ci, w_st w' ci = w_st w ci) /\
  exists p d nm pm pb, w_heap w x = Some (Ob (KSignal p d) nm pm pb) /\ w_heap w' x = Some (Ob (KSignal q d) nm pm pb).
Proof. exact (wvis_effect w x q w'). Qed.
Print Assumptions C18Y_visibility_assignment_keeps_direction.

(* 4. a class-style definition followed by ANY further edits is the procedural definition followed by the same edits,
      and is coherent *)
Theorem C18Y_class_then_edits c items s ops : of_class_body c init items = Ok s ->
  fold_left (apply c) ops s = run c (class_ops c items ++ ops) /\ Coh c (fold_left (apply c) ops s).
Proof.
  intros H. destruct (C18_class_equals_procedural c items) as [_ [_ HP]]. destruct (HP s H) as [E HC].
  split; [|apply coh_fold; exact HC]. unfold run. rewrite fold_left_app. fold (run c (class_ops c items)).
  rewrite <- E. reflexivity.
Qed.
Print Assumptions C18Y_class_then_edits.

(* 5. a name which the class body binds to plain (non-HDL) data only - `width = 8` - denotes NOTHING in the resulting
      container: get(name) is None and attribute access finds no attribute (unless it is a Python attribute of the class) *)
Theorem C18Y_class_plain_data_denotes_nothing c items s n : of_class_body c init items = Ok s ->
  (forall kv, In kv items -> fst kv = n -> is_attr c (v_kind (snd kv)) = false) ->
  get s n = None /\ (mem n (public_attrs c) = false -> is_private n = false -> getattr c s n = AMissing).
Proof.
  intros H Hn. destruct (C18_class_equals_procedural c items) as [_ [_ HP]]. destruct (HP s H) as [E _].
  assert (G : get s n = None).
  { rewrite E. destruct (C18_refines_spec c (class_ops c items)) as [A _]. rewrite A. unfold spec_run, class_ops.
    apply spec_fold_setattrs_unbound; [reflexivity|]. intros kv Hin Hk. apply filter_In in Hin. destruct Hin as [Hin Ha].
    rewrite (Hn kv Hin Hk) in Ha. discriminate. }
  split; [exact G|]. intros H1 H2. unfold getattr. rewrite H1, H2. unfold get in G. rewrite G. reflexivity.
Qed.
Print Assumptions C18Y_class_plain_data_denotes_nothing.

(* ---- non-vacuity *)
Open Scope string_scope.
(* seeded change C18r4-B: h.Signal(direction=PortDir.INPUT) is an internal signal; an h.Output() made internal by
   `vis = INTERNAL` alone and added under a name held by a port moves that name from `ports` to `signals` *)
Example C18Y_ex_directed_internal :
  let s := run CModule [SetAttr "a" (V 0 (KSignal false DInput) None); SetAttr "b" (V 1 (KSignal true DInput) None)] in
  keys (st_views s VSignals) = ["a"] /\ keys (st_views s VPorts) = ["b"] /\
  let ops := [WNew 0 (KSignal true DOutput) None; WNew 1 (KSignal true DOutput) None; WSet M0 "x" 0;
              WVis 1 false; WAdd M0 1 (Some "x")] in
  keys (st_views (w_st (wrun ops) M0) VSignals) = ["x"] /\ st_views (w_st (wrun ops) M0) VPorts = [] /\
  option_map o_kind (w_heap (wrun ops) 1) = Some (KSignal false DOutput) /\ all_in_syncb (wrun ops) M0 = true /\
  let ops2 := [WNew 0 (KSignal false DNone) (Some "a"); WAdd M0 0 None; WDir 0 DInout; WAdd M0 0 None] in
  keys (st_views (w_st (wrun ops2) M0) VSignals) = ["a"] /\ st_views (w_st (wrun ops2) M0) VPorts = [] /\
  is_some (wmstep (wrun ops2) (WDir 0 DNone)) = true.
Proof. vm_compute. repeat split. Qed.

(* seeded change C18r4-C: `width = 8` and `lanes = (..)` in a Bundle's class body, then the names are re-used *)
Example C18Y_ex_class_plain_data_then_edits :
  let items := [("width", V 0 KOther None); ("lanes", V 1 KOther None); ("data", V 2 (KSignal false DNone) None)] in
  exists s, of_class_body CBundle init items = Ok s /\ keys (st_ns s) = ["data"] /\
    getattr CBundle s "width" = AMissing /\
    let s' := fold_left (apply CBundle) [SetAttr "width" (V 3 (KSignal false DNone) None); Add (V 4 KBundleInst None) (Some "lanes")] s in
    keys (st_ns s') = ["data"; "width"; "lanes"] /\
    getattr CBundle s' "width" = AObj (V 3 (KSignal false DNone) (Some "width")) /\
    getattr CBundle s' "lanes" = AObj (V 4 KBundleInst (Some "lanes")).
Proof. eexists. vm_compute. repeat split. Qed.
