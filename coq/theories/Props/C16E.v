(* Props/C16E.v — flatten() at the level of EXPORTED PACKAGES and of the bit-level net semantics of Spec/Nets.v.
   Model: Model/C16EPkg.v:flatten_pkg (hdl21/flatten.py on Base/Package.v packages; slices / concatenations at instance
   connections of a non-flat hierarchy are REJECTED - NotImplementedError in the code, Error EBadKind in the model - so the
   accepted fragment is "whole signals of any width", plus the already-flat top module that is returned as it is).
   Proofs: Proofs/C16EProofsRefine.v, C16EProofsBridge.v, C16EProofsNets.v.

   The side conditions (all boolean / decidable, evaluated by the correspondence run on every case - Corr/C16E.v, code 4):
     wf_pkg prims_ext p = Ok tt     the hierarchical package is closed and self-consistent (Spec/PkgWf.v, C06),
     tree_wf p top = true           the hierarchy read from p has unique instance names per module and sub-module connections
                                    naming ports (Spec/C16Flat.v:wf_hier; implied by wf_pkg - not proved here),
     wf_pkg prims_ext q = Ok tt     the FLAT package is closed and self-consistent - in particular every connection of the flat
                                    module has its port's width.  This is the part that makes the theorems `_partial`:
                                    it is checked per case, not proved of flatten_pkg (see notes/C16E.md). *)
From Coq Require Import String.
Require Import Hdl21.Base.PyInt Hdl21.Spec.PySlice Hdl21.Model.Slice Hdl21.Model.Resolve Hdl21.Base.Design
               Hdl21.Spec.Nets Hdl21.Spec.WfDesign Hdl21.Base.Package Hdl21.Base.PrimTable Hdl21.Spec.PkgWf Hdl21.Spec.C01ENets
               Hdl21.Model.C01EElab Hdl21.Model.C01FElab Hdl21.Spec.C01FNets Hdl21.Proofs.C01FProofsEnd
               Hdl21.Spec.C16Flat Hdl21.Model.C16Flatten Hdl21.Corr.C16 Hdl21.Model.C16EPkg Hdl21.Proofs.FunGraph
               Hdl21.Proofs.C16Proofs Hdl21.Proofs.C16EProofsRefine Hdl21.Proofs.C16EProofsBridge Hdl21.Proofs.C16EProofsNets.
Require Hdl21.Props.C01F.
Open Scope string_scope.
Open Scope list_scope.
Open Scope Z_scope.

(* 1. REFINEMENT: on every package that reads as a tree (Corr/C16.v:hmod_of_pkg - every wf package does), flatten_pkg and the
      tree model of Props/C16.v agree: same error, `return m` in the same cases, and otherwise the one module of the result is the
      tree model's flat module (signals, instances, connections) - so every theorem of Props/C16.v speaks about flatten_pkg. *)
Theorem C16E_refines_tree p top hm t :
  find_pmodule (pk_mods p) top = Some hm -> hmod_of_pkg p (pkg_fuel p) hm = Ok t ->
  match flatten t with
  | Error e => flatten_pkg p top = Error e
  | Ok FSame => flatten_pkg p top = Ok (one_module p hm) /\ pm_is_flat hm = true
  | Ok (FNew f) =>
      exists nodes, flatten_pkg p top = Ok (one_module p (flat_pmodule top hm (h_ports t) nodes)) /\ pm_is_flat hm = false /\
        f = flat_fmod t nodes /\ Forall (pnode_ok p) nodes /\
        pm_sigs (flat_pmodule top hm (h_ports t) nodes) = f_sigs f ++ f_ports f /\
        map (fun i => (pi_name i, map (fun c => (fst c, match snd c with PSig s => s | _ => "" end)) (pi_conns i)))
            (pm_insts (flat_pmodule top hm (h_ports t) nodes)) = map (fun fi => (fi_name fi, fi_conns fi)) (f_insts f)
  end.
Proof. exact (flatten_pkg_refines p top hm t). Qed.
Print Assumptions C16E_refines_tree.

(* 2. The two specifications are ONE: on a wf package whose reachable connections are whole signals, the bit-level nets of
      Spec/Nets.v (package read as the netlisters read it) are the signal nets of Spec/C16Flat.v lifted to bits. *)
Theorem C16E_specs_agree p top pd hm t x y :
  wf_pkg prims_ext p = Ok tt -> design_of_pkg prims_ext p top = Ok pd -> find_pmodule (pk_mods p) top = Some hm ->
  hmod_of_pkg p (pkg_fuel p) hm = Ok t -> existsb has_other (h_body t) = false -> valid pd x -> valid pd y ->
  (same_net pd x y <-> conn (hnode * Z) (hstep_bit t) (cv x) (cv y)).
Proof. intros H1 H2 H3 H4 H5. exact (bridge_same_net p top pd hm t H1 H2 H3 H4 H5 x y). Qed.
Print Assumptions C16E_specs_agree.

(* 3. NETS, bit level, over the package semantics.  x, y: bits (valid in the hierarchical package) of terminals of the hierarchy -
      ports of the top module, connected ports of leaf devices at any depth (term_bit); trn: [i1; i2; leaf] -> "i1:i2:leaf".
      FULL statement: the same without `wf_pkg prims_ext q = Ok tt`, without `tree_wf`, with `exists qd` instead of a given qd,
      without `valid qd (trn x)`, and including the already-flat case (where q holds the top module itself). *)
Theorem C16E_nets_preserved_partial p top q pd qd :
  wf_pkg prims_ext p = Ok tt -> tree_wf p top = true -> pkg_is_flat p top = false ->
  flatten_pkg p top = Ok q -> wf_pkg prims_ext q = Ok tt ->
  design_of_pkg prims_ext p top = Ok pd -> design_of_pkg prims_ext q (flat_top p top) = Ok qd ->
  forall x y, valid pd x -> valid pd y -> term_bit p top x -> term_bit p top y -> valid qd (trn x) -> valid qd (trn y) ->
    (same_net pd x y <-> same_net qd (trn x) (trn y)).
Proof. exact (nets_preserved_pkg p top q pd qd). Qed.
Print Assumptions C16E_nets_preserved_partial.

(* 4. PORTS: the one module of the result has the top module's ports (names, directions, order) - in both cases. *)
Theorem C16E_ports_unchanged p top q hm : find_pmodule (pk_mods p) top = Some hm -> flatten_pkg p top = Ok q ->
  exists fm, pk_mods q = [fm] /\ pm_ports fm = pm_ports hm /\ pm_name fm = flat_top p top.
Proof.
  intros Hf H. unfold flatten_pkg in H. unfold flat_top. rewrite Hf in *. cbn [ofopt bind] in H. destruct (pm_is_flat hm).
  - inversion H; subst. exists hm. split; [reflexivity|]. split; [reflexivity|].
    clear H. induction (pk_mods p) as [|m ms IH]; cbn [find_pmodule] in Hf; [discriminate|].
    destruct (String.eqb (pm_name m) top) eqn:E; [inversion Hf; subst; apply String.eqb_eq; exact E|apply IH; exact Hf].
  - apply C01EProofsBase.bind_ok in H. destruct H as [mp [_ H]]. apply C01EProofsBase.bind_ok in H. destruct H as [r [_ H]].
    apply C01EProofsBase.bind_ok in H. destruct H as [u [_ H]]. inversion H; subst. eexists. split; [reflexivity|]. split; reflexivity.
Qed.
Print Assumptions C16E_ports_unchanged.

(* 5. LEAVES: the instances of the flat module are, in walk order, exactly the leaf devices of the hierarchy: named by the
      ':'-joined path, same reference (primitive / external module) and parameters as the instance they came from (pnode_ok /
      pnode_inst), same device identity and ports; names pairwise distinct; leaf paths pairwise distinct. *)
Theorem C16E_leaves_exact p top hm t f :
  find_pmodule (pk_mods p) top = Some hm -> hmod_of_pkg p (pkg_fuel p) hm = Ok t -> wf_hier t = true -> flatten t = Ok (FNew f) ->
  exists nodes, flatten_pkg p top = Ok (one_module p (flat_pmodule top hm (h_ports t) nodes)) /\
    pm_insts (flat_pmodule top hm (h_ports t) nodes) = map pnode_inst nodes /\ Forall (pnode_ok p) nodes /\
    map (fun n => (pi_name (pnode_inst n), an_dev (fst n), an_dports (fst n))) nodes
      = map (fun l => (flat_name (lf_path l), lf_dev l, lf_ports l)) (leaves t) /\
    NoDup (map (fun n => pi_name (pnode_inst n)) nodes) /\ NoDup (map lf_path (leaves t)).
Proof.
  intros Hf Ht Hwf Hfl. pose proof (flatten_pkg_refines p top hm t Hf Ht) as R. rewrite Hfl in R.
  destruct R as [nodes [Hq [_ [Ef [Hn _]]]]]. exists nodes. split; [exact Hq|]. split; [reflexivity|]. split; [exact Hn|].
  destruct (flatten_inv t f Hfl) as [tn [cl [Hw [Hc [Eb _]]]]].
  destruct (leaves_preserved t tn cl Hwf Hw Hc) as [L1 L2]. rewrite <- Eb, Ef in L1, L2. unfold flat_fmod in L1, L2. rewrite build_insts in L1, L2.
  rewrite !map_map in L1. rewrite !map_map in L2. split; [exact L1|]. split; [exact L2|]. apply leaves_nodup. exact Hwf.
Qed.
Print Assumptions C16E_leaves_exact.

(* 6. COMPOSITION with the pipeline theorem of Props/C01F.v: flatten o export o elaborate keeps what the designer wrote.
      d: a design of the extended core fragment; p: the package the pipeline model exports; q: flatten_pkg of it.
      For all valid nodes x, y of d whose images are terminal bits: on one net of the flat package iff on one net of d. *)
Theorem C16E_flatten_after_elaboration_partial xi d p tn q qd :
  wf_design d = Ok tt -> frag_ok2 d = true -> xinfo_ok xi d = true -> elab_export_model2 xi d = Ok p -> top_name d = Ok tn ->
  tree_wf p tn = true -> pkg_is_flat p tn = false -> flatten_pkg p tn = Ok q -> wf_pkg prims_ext q = Ok tt ->
  design_of_pkg prims_ext q (flat_top p tn) = Ok qd ->
  forall x y, valid d x -> valid d y -> term_bit p tn (term_map2 xi d x) -> term_bit p tn (term_map2 xi d y) ->
    valid qd (trn (term_map2 xi d x)) -> valid qd (trn (term_map2 xi d y)) ->
    (same_net qd (trn (term_map2 xi d x)) (trn (term_map2 xi d y)) <-> same_net d x y).
Proof.
  intros Hwf Hfr Hxi Hp Htn Htw Hnf Hfl Hwq Hqd x y Vx Vy Tx Ty Vx' Vy'.
  destruct (C01F.C01F_valid_nodes_partial xi d p Hwf Hfr Hxi Hp) as [tn' [pd [Htn' [Hpd [Hv [Hs _]]]]]].
  rewrite Htn in Htn'. inversion Htn'; subst tn'.
  pose proof (C01F.C06F_export_wf_partial xi d p Hwf Hfr Hxi Hp) as Hwp.
  rewrite <- (Hs x y Vx Vy).
  symmetry. exact (nets_preserved_pkg p tn q pd qd Hwp Htw Hnf Hfl Hwq Hpd Hqd _ _ (Hv x Vx) (Hv y Vy) Tx Ty Vx' Vy').
Qed.
Print Assumptions C16E_flatten_after_elaboration_partial.

(* ---------------- non-vacuity: a three-level hierarchy (Cell twice in Mid, Mid twice in Top) with a 2-bit bus handed down
                    whole through two levels to an external module with a 2-bit port, internal nets at every level ---------------- *)
Definition ex_E0 : pext := {| px_domain := ""; px_name := "E0"; px_ports := [("x0", 2, 3); ("x1", 1, 3)]; px_spicetype := "SUBCKT" |}.
Definition ex_leaf (nm bus one : name) : pinst :=
  {| pi_name := nm; pi_ref := PExt "" "E0"; pi_params := [("tag", "int:1")]; pi_conns := [("x0", PSig bus); ("x1", PSig one)] |}.
Definition ex_sub (nm of bus one : name) : pinst :=
  {| pi_name := nm; pi_ref := PLocal of; pi_params := []; pi_conns := [("d", PSig bus); ("g", PSig one)] |}.
Definition ex_pkg (cell_leaf : pinst) : package :=
  {| pk_domain := ""; pk_exts := [ex_E0];
     pk_mods := [ {| pm_name := "Cell"; pm_sigs := [("n", 1); ("d", 2); ("g", 1)]; pm_ports := [("d", 3); ("g", 1)];
                     pm_insts := [cell_leaf; ex_leaf "e1" "d" "g"]; pm_literals := [] |};
                  {| pm_name := "Mid"; pm_sigs := [("k", 1); ("b", 2); ("d", 2); ("g", 1)]; pm_ports := [("d", 3); ("g", 1)];
                     pm_insts := [ex_sub "a" "Cell" "d" "k"; ex_sub "b" "Cell" "b" "g"]; pm_literals := [] |};
                  {| pm_name := "Top"; pm_sigs := [("s", 1); ("w", 2); ("p", 2)]; pm_ports := [("p", 3)];
                     pm_insts := [ex_sub "l" "Mid" "p" "s"; ex_sub "r" "Mid" "w" "s"; ex_leaf "e" "p" "s"]; pm_literals := [] |} ] |}.
Definition ex_p := ex_pkg (ex_leaf "e0" "d" "n").

Example C16E_ex_hypotheses : wf_pkg prims_ext ex_p = Ok tt /\ tree_wf ex_p "Top" = true /\ pkg_is_flat ex_p "Top" = false /\
  exists q, flatten_pkg ex_p "Top" = Ok q /\ wf_pkg prims_ext q = Ok tt /\ flat_top ex_p "Top" = "Top_flat" /\
    (exists qd, design_of_pkg prims_ext q "Top_flat" = Ok qd) /\
    map (fun m => (pm_name m, pm_sigs m, map pi_name (pm_insts m))) (pk_mods q) =
      [("Top_flat", [("l:a:n", 1); ("l:k", 1); ("l:b", 2); ("l:b:n", 1); ("s", 1); ("w", 2); ("r:a:n", 1); ("r:k", 1); ("r:b", 2); ("r:b:n", 1); ("p", 2)],
        ["l:a:e0"; "l:a:e1"; "l:b:e0"; "l:b:e1"; "r:a:e0"; "r:a:e1"; "r:b:e0"; "r:b:e1"; "e"])].
Proof.
  split; [vm_compute; reflexivity|]. split; [vm_compute; reflexivity|]. split; [vm_compute; reflexivity|].
  eexists. split; [vm_compute; reflexivity|]. split; [vm_compute; reflexivity|]. split; [vm_compute; reflexivity|].
  split; [eexists; vm_compute; reflexivity|]. vm_compute. reflexivity.
Qed.

(* bit 1 of port x0 of the leaf e0 two levels down (l -> a -> e0) is a terminal bit, valid in the hierarchical package *)
Example C16E_ex_terminal : term_bit ex_p "Top" (NPort [("a", 0); ("l", 0)] "e0" 0 "x0" 1) /\
  trn (NPort [("a", 0); ("l", 0)] "e0" 0 "x0" 1) = NPort [] "l:a:e0" 0 "x0" 1.
Proof. split; [unfold term_bit; vm_compute; tauto|vm_compute; reflexivity]. Qed.

(* a bus slice one level down is rejected, by the model as by flatten.py (NotImplementedError) - also at a LEAF instance *)
Example C16E_ex_slice_rejected :
  flatten_pkg (ex_pkg {| pi_name := "e0"; pi_ref := PExt "" "E0"; pi_params := [];
                         pi_conns := [("x0", PSig "d"); ("x1", PSlice "d" 0 0)] |}) "Top" = Error EBadKind.
Proof. vm_compute. reflexivity. Qed.
