(* Props/C18W.v — C18 with object identity (strengthening round): containers that SHARE live objects.
   `wrun ops` is the world (any number of Modules and Bundles + the heap of live objects) after ANY finite list of
   object creations, setattr / add of ANY existing object (again, under another name, into another container),
   visibility flips `x.vis = ..`, renames `x.name = ..`, deletions and elaborations (Spec/C18World.v, Model/C18World.v).
   Only statements, each closed by a lemma of Proofs/C18WorldProofs.v, followed by Print Assumptions. *)
Require Import Hdl21.Base.PyInt Hdl21.Spec.Namespace Hdl21.Model.Namespace Hdl21.Proofs.NamespaceProofs.
Require Import Hdl21.Spec.C18World Hdl21.Model.C18World Hdl21.Proofs.C18WorldProofs Hdl21.Props.C18.
From Coq Require Import String Ascii.
Open Scope list_scope.
Open Scope Z_scope.
Notation get := Hdl21.Model.Namespace.get.

(* 1. whatever is shared, flipped or moved: every container of the world satisfies the round-1 coherence invariant
      (views = namespace filtered by the kind the object was SORTED by, distinct keys, one view per name) *)
Theorem C18W_coherent_everywhere ops ci : Coh (fst ci) (w_st (wrun ops) ci).
Proof. exact (cohw_fold ops cw_init cohw_init ci). Qed.
Print Assumptions C18W_coherent_everywhere.

Theorem C18W_one_object_per_name ops ci n :
  let s := w_st (wrun ops) ci in
  (forall v, get s n = Some v ->
     exists k, view_of (fst ci) (v_kind v) = Some k /\ lookup n (st_views s k) = Some v /\
               forall k', k' <> k -> lookup n (st_views s k') = None) /\
  (get s n = None -> forall k, lookup n (st_views s k) = None) /\
  (forall k v, lookup n (st_views s k) = Some v -> get s n = Some v).
Proof.
  intros s. pose proof (C18W_coherent_everywhere ops ci) as HC. fold s in HC. repeat split.
  - intros v. exact (coh_one_view (fst ci) s n v HC).
  - exact (coh_unbound (fst ci) s n HC).
  - intros k v. exact (coh_view_entry (fst ci) s n v k HC).
Qed.
Print Assumptions C18W_one_object_per_name.

(* 2. every entry denotes a LIVE object of the class it is listed as (only a Signal's visibility can go stale) *)
Theorem C18W_entries_are_live ops ci n v : wget (wrun ops) ci n = Some v ->
  exists ob, w_heap (wrun ops) (v_id v) = Some ob /\ same_class (o_kind ob) (v_kind v) = true.
Proof. exact (entries_live_fold ops cw_init entries_live_init ci n v). Qed.
Print Assumptions C18W_entries_are_live.

(* 3. an accepted setattr / add of ANY object x — fresh, already held under this very name, held under another
      name, held by another container — makes the key denote x, sorted by x's CURRENT kind and visibility, named by
      the key, reporting this container as its parent *)
Theorem C18W_add_resorts_renames_reparents ops o w' ci m :
  wmstep (wrun ops) o = Some w' -> wbind (w_heap (wrun ops)) o = Some (ci, m) ->
  exists x ob, op_obj o = Some x /\ w_heap (wrun ops) x = Some ob /\
    let v := V x (o_kind ob) (Some m) in
    wget w' ci m = Some v /\ in_sync w' ci m v /\
    (exists k, view_of (fst ci) (o_kind ob) = Some k /\ lookup m (st_views (w_st w' ci) k) = Some v /\
               forall k', k' <> k -> lookup m (st_views (w_st w' ci) k') = None).
Proof.
  intros H B. destruct (add_post (wrun ops) o w' ci m H B) as [x [ob [H1 [H2 [H3 [H4 _]]]]]].
  exists x, ob. split; [exact H1|]. split; [exact H2|]. split; [exact H3|]. split; [exact H4|].
  assert (HC : CohW w') by (eapply cohw_step; [apply cohw_fold, cohw_init|exact H]).
  exact (coh_one_view (fst ci) (w_st w' ci) m _ (HC ci) H3).
Qed.
Print Assumptions C18W_add_resorts_renames_reparents.

(* 4. for an entry in sync, the LIVE visibility decides: listed as a port exactly when the signal is port-visible now *)
Theorem C18W_live_port_iff ops i n v ob p d :
  let w := wrun ops in
  wget w (CModule, i) n = Some v -> in_sync w (CModule, i) n v -> w_heap w (v_id v) = Some ob -> o_kind ob = KSignal p d ->
  (lookup n (st_views (w_st w (CModule, i)) VPorts) = Some v <-> p = true) /\
  (lookup n (st_views (w_st w (CModule, i)) VSignals) = Some v <-> p = false).
Proof. intros w. apply live_port_iff. apply cohw_fold, cohw_init. Qed.
Print Assumptions C18W_live_port_iff.

Theorem C18W_in_sync_means ops ci n v : in_sync (wrun ops) ci n v ->
  exists ob, w_heap (wrun ops) (v_id v) = Some ob /\ o_kind ob = v_kind v /\ o_name ob = Some n /\
             parent_of (fst ci) ob = Some (snd ci).
Proof. apply in_sync_live. Qed.
Print Assumptions C18W_in_sync_means.

(* 5. ... and it stays so until somebody touches the object (flips, renames, hands it to a container) or re-binds
      the key: after  pre ++ [o] ++ post  the entry stored by o is listed and in sync *)
Theorem C18W_sync_until_touched pre o post w1 ci m :
  wmstep (wrun pre) o = Some w1 -> wbind (w_heap (wrun pre)) o = Some (ci, m) ->
  (forall x, op_obj o = Some x -> quiet w1 post ci m x = true) ->
  exists v, wget (wrun (pre ++ o :: post)) ci m = Some v /\ op_obj o = Some (v_id v) /\
            in_sync (wrun (pre ++ o :: post)) ci m v.
Proof.
  intros H B Q. destruct (add_post (wrun pre) o w1 ci m H B) as [x [ob [H1 [H2 [H3 [H4 _]]]]]].
  exists (V x (o_kind ob) (Some m)). unfold wrun, wmfold, wfold. rewrite fold_left_app. simpl.
  fold (wfold cstp cw_init pre). fold (wmfold cw_init pre). fold (wrun pre).
  assert (E : wapply cstp (wrun pre) o = w1) by (unfold wapply; unfold wmstep in H; rewrite H; reflexivity).
  rewrite E. specialize (Q x H1).
  destruct (sync_quiet post w1 ci m _ H3 H4 Q) as [A B']. split; [exact A|]. split; [exact H1|exact B'].
Qed.
Print Assumptions C18W_sync_until_touched.

(* 6. frames: an operation leaves alone every object it does not touch, every key it does not bind, every other container *)
Theorem C18W_frames w o w' :
  wmstep w o = Some w' ->
  (forall x, touches o x = false -> w_heap w' x = w_heap w x) /\
  (forall ci n, binds_here (w_heap w) o ci n = false -> wget w' ci n = wget w ci n) /\
  (forall ci, target o <> Some ci -> w_st w' ci = w_st w ci).
Proof.
  intros H. repeat split.
  - intros x. exact (heap_frame w o w' x H).
  - intros ci n. exact (get_frame w o w' ci n H).
  - intros ci. exact (ctr_frame w o w' ci H).
Qed.
Print Assumptions C18W_frames.

(* 7. a rejected operation leaves containers AND objects as they were *)
Theorem C18W_rejected_leaves_world w o : wmstep w o = None -> wmapply w o = w.
Proof. intros H. unfold wmapply, wapply. unfold wmstep in H. rewrite H. reflexivity. Qed.
Print Assumptions C18W_rejected_leaves_world.

(* 8. histories of the round-1 shape (every object handed to a container at most once and not mutated afterwards):
      EVERY entry of EVERY container is in sync - the literal property: listed as a port iff port-visible, named by
      its key, reporting the container as its parent *)
Theorem C18W_linear_all_in_sync ops ci n v : linear [] ops = true ->
  wget (wrun ops) ci n = Some v -> in_sync (wrun ops) ci n v.
Proof.
  intros L Hg. destruct (linear_in_sync ops cw_init [] lin_inv_init L) as [used HI]. apply (HI ci n v Hg).
Qed.
Print Assumptions C18W_linear_all_in_sync.

(* 9. the concrete world implements the specification world (containers = finite maps name -> snapshot, same heap),
      and the next operation is accepted exactly when the specification accepts it *)
Theorem C18W_refines_spec ops :
  RW (wrun ops) (wspec_run ops) /\ forall o, is_some (wmstep (wrun ops) o) = is_some (wspec_step (wspec_run ops) o).
Proof.
  assert (T : forall c, table_ok c = true) by (intros c; destruct c; apply C18_tables_adequate).
  pose proof (refine_wfold ops T cw_init aw_init RW_init) as H. split; [exact H|].
  intros o. apply refine_accept; assumption.
Qed.
Print Assumptions C18W_refines_spec.

(* 10. what is NOT true once objects are shared (hdl21 defers this to the Orphanage pass of elaboration; pinned test
       test_orphanage): a Module can list an object that reports another Module as its parent and another name *)
Open Scope string_scope.
Definition M0 : cid := (CModule, 0).
Definition M1 : cid := (CModule, 1).
Definition B0 : cid := (CBundle, 0).

Theorem C18W_parent_refuted_for_shared_objects :
  exists ops n v, wget (wrun ops) M0 n = Some v /\ in_syncb (w_heap (wrun ops)) M0 n v = false.
Proof.
  exists [WNew 0 (KSignal false DNone) None; WSet M0 "s" 0; WSet M1 "y" 0], "s", (V 0 (KSignal false DNone) (Some "s")).
  vm_compute. split; reflexivity.
Qed.
Print Assumptions C18W_parent_refuted_for_shared_objects.

(* ---- non-vacuity: the histories of the seeded change C18r2-A *)
(* h1: a signal is promoted to a port, then added again under the name it holds: it moves to `ports` *)
Example C18W_ex_promote_readd :
  let ops := [WNew 0 (KSignal false DNone) (Some "d"); WAdd M0 0 None; WVis 0 true] in
  keys (st_views (w_st (wrun ops) M0) VSignals) = ["d"] /\
  all_in_syncb (wrun ops) M0 = false /\
  let w' := wrun (ops ++ [WAdd M0 0 None]) in
  keys (st_views (w_st w' M0) VPorts) = ["d"] /\ st_views (w_st w' M0) VSignals = [] /\ all_in_syncb w' M0 = true /\
  wbind (w_heap (wrun ops)) (WAdd M0 0 None) = Some (M0, "d") /\
  quiet w' [WNew 1 KInstance None; WSet M1 "d" 1; WSet M0 "e" 1] M0 "d" 0 = true.
Proof. vm_compute. repeat split. Qed.

(* h2 / h3: an object is taken by another Module and taken back *)
Example C18W_ex_take_back :
  let ops := [WNew 0 (KSignal false DNone) (Some "a"); WAdd M0 0 None; WAdd M1 0 None] in
  all_in_syncb (wrun ops) M0 = false /\ all_in_syncb (wrun ops) M1 = true /\
  let w' := wrun (ops ++ [WAdd M0 0 None]) in
  all_in_syncb w' M0 = true /\ all_in_syncb w' M1 = false /\
  option_map o_pmod (w_heap w' 0) = Some (Some 0).
Proof. vm_compute. repeat split. Qed.

(* one object under two names; a Signal held by a Module and a Bundle at once (both parents are kept) *)
Example C18W_ex_two_names_and_bundle :
  let w := wrun [WNew 0 (KSignal false DNone) None; WSet M0 "a" 0; WSet M0 "b" 0] in
  keys (st_ns (w_st w M0)) = ["a"; "b"] /\ in_syncb (w_heap w) M0 "b" (V 0 (KSignal false DNone) (Some "b")) = true /\
  in_syncb (w_heap w) M0 "a" (V 0 (KSignal false DNone) (Some "a")) = false /\
  let w2 := wrun [WNew 0 (KSignal true DNone) None; WSet M0 "a" 0; WAdd B0 0 None] in
  all_in_syncb w2 M0 = true /\ all_in_syncb w2 B0 = true /\
  keys (st_views (w_st w2 M0) VPorts) = ["a"] /\ keys (st_views (w_st w2 B0) VSignals) = ["a"].
Proof. vm_compute. repeat split. Qed.

(* a rejected addition changes nothing, not even the object's name; re-adding after elaboration is rejected *)
Example C18W_ex_rejections :
  let w := wrun [WNew 0 (KSignal false DNone) None; WNew 1 (KSignal false DNone) None; WSet M0 "a" 0] in
  wmstep w (WAdd M0 1 (Some "ports")) = None /\
  is_some (wmstep (wmapply w (WAdd M0 1 (Some "ports"))) (WAdd M0 1 (Some "b"))) = true /\
  wmstep (wmapply w (WElab M0)) (WAdd M0 0 None) = None /\
  wmstep (wmapply w (WElab M0)) (WSet M0 "b" 0) = None /\
  linear [] [WNew 0 (KSignal false DNone) None; WVis 0 true; WSet M0 "a" 0; WNew 1 KInstance None; WAdd M1 1 (Some "a")] = true.
Proof. vm_compute. repeat split. Qed.
