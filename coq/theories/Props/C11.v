(* Props/C11.v — C11: exported packages survive a round trip through from_proto. *)
Require Import Hdl21.Base.PyInt Hdl21.Model.C11RoundTrip.

Theorem C11_importer_shape : importer_shape = true.
Proof. reflexivity. Qed.
