(* Props/C11.v — C11: exported packages survive a round trip through from_proto.

   rt_pkg P (Model/C11RoundTrip.v) is the model of  to_proto(from_proto(P).<top-level modules>):  import, elaboration
   of the imported modules (slice resolution, Model/Resolve.v), export.  The theorems say that rt_pkg is the identity on
   the image of the exporter, component by component, over the tables REGENERATED from the tree under test.

   PARTIAL (see notes/C11.md): C11_pkg_roundtrip_partial takes, per instance, the round trip of its reference and
   parameters as a hypothesis (`ref_roundtrips`); that hypothesis is proved here for instances of modules
   (C11_ref_local_roundtrip) and of external modules (C11_ref_ext_roundtrip) from boolean predicates, and for
   primitive instances only the reference part (C11_prim_refs_roundtrip), the renaming tables
   (C11_pulse_rename_inverse/_covers) and the value translation (C11_value_roundtrip) are proved: the full statement
       forall sc ps, prim_params_in_image sc ps = true -> rt_prim_params sc ps = Ok ps
   is not.  Not modelled at all: the depth-first emission order of modules / external modules. *)
Require Import Hdl21.Base.PyInt Hdl21.Base.Design Hdl21.Base.Package Hdl21.Base.Dec Hdl21.Model.C11RoundTrip Hdl21.Proofs.C11Proofs.
Require Import Hdl21.Model.C11Share Hdl21.Proofs.C11ShareProofs.
Require Import Hdl21.Model.C11History Hdl21.Proofs.C11HistProofs.
Require Import Hdl21Gen.PrefixTable Hdl21Gen.PrefixMaps Hdl21Gen.Primitives Hdl21Gen.C11Maps.
From Coq Require Import String.
Open Scope string_scope.
Open Scope Z_scope.

(* The importer of the tree under test has the shape the model describes: it reads the spice type, imports strings of
   Scalar-typed primitive parameters as Literals, un-set optional primitive parameters as None, tolerates un-set
   pulse parameters (regenerated from the source by tools/translators/11_proto_maps.py). *)
Theorem C11_importer_shape : importer_shape = true.
Proof. reflexivity. Qed.
Print Assumptions C11_importer_shape.

(* Connection targets: every target in the image of the exporter — a signal, a proper in-range slice of a signal, a
   non-empty concatenation of those — is imported (exclusive top, reversed parts), survives slice resolution, and is
   exported (inclusive top, reversed parts) as itself. *)
Theorem C11_target_roundtrip : forall sigs t, target_normal sigs t = true -> rt_target sigs t = Ok t.
Proof. exact target_roundtrip. Qed.
Print Assumptions C11_target_roundtrip.

Example C11_target_roundtrip_nonvacuous :
  let sigs := [("a", 4); ("b", 1); ("c", 3)] in
  let t := PConcat [PSlice "a" 3 2; PSig "b"; PSlice "c" 0 0; PSig "a"] in
  target_normal sigs t = true /\ rt_target sigs t = Ok t.
Proof. vm_compute. split; reflexivity. Qed.

(* ... and a full-width slice is NOT in the image: the elaborator replaces it by the signal *)
Example C11_full_width_slice_not_fixed :
  rt_target [("a", 4)] (PSlice "a" 3 0) = Ok (PSig "a") /\ target_normal [("a", 4)] (PSlice "a" 3 0) = false.
Proof. vm_compute. split; reflexivity. Qed.

(* Prefixes: export_prefix and import_prefix are total, mutually inverse injections between the 21 members of
   hdl21.Prefix and the 21 members of vlsir.SIPrefix. *)
Theorem C11_prefix_roundtrip : forall nm e, In (nm, e) prefix_table ->
  exists v, export_prefix e = Ok v /\ import_prefix v = Ok e.
Proof. exact prefix_roundtrip. Qed.
Print Assumptions C11_prefix_roundtrip.

Theorem C11_prefix_roundtrip_back : forall v, In v siprefix_names ->
  exists e, import_prefix v = Ok e /\ export_prefix e = Ok v.
Proof. exact prefix_roundtrip_back. Qed.
Print Assumptions C11_prefix_roundtrip_back.

Theorem C11_prefix_counts : List.length prefix_table = 21%nat /\ List.length siprefix_names = 21%nat /\
                            snodup (map fst prefix_table) = true /\ snodup siprefix_names = true.
Proof. exact prefix_counts. Qed.

Example C11_prefix_nonvacuous : In ("MICRO", -6) prefix_table /\ export_prefix (-6) = Ok "MICRO" /\ import_prefix "MICRO" = Ok (-6).
Proof. vm_compute. repeat split; try reflexivity. tauto. Qed.

(* Ideal primitives: prim_map of export_instance and of import_vlsir_primitive are inverse tables, every IDEAL primitive
   has a VLSIR name, and every getattr(hdl21.primitives, name) the importer performs finds the primitive of that name. *)
Theorem C11_prim_map_inverse :
  (forall h v, In (h, v) prim_map_export -> assoc v prim_map_import = Some h) /\
  (forall v h, In (v, h) prim_map_import -> assoc h prim_map_export = Some v).
Proof. exact prim_map_inverse. Qed.
Print Assumptions C11_prim_map_inverse.

Theorem C11_prim_refs_roundtrip :
  forallb ideal_ref_ok prim_map_import = true /\ forallb physical_ref_ok prim_fields = true /\
  forallb (fun p : string * string => String.eqb (fst p) (snd p)) prim_lookups = true.
Proof. split; [apply prim_refs_roundtrip | split; [apply prim_refs_roundtrip | exact prim_lookups_identity]]. Qed.
Print Assumptions C11_prim_refs_roundtrip.

Example C11_prim_map_nonvacuous : In ("PulseVoltageSource", "vpulse") prim_map_export /\ List.length prim_map_export = 11%nat.
Proof. vm_compute. split; [tauto | reflexivity]. Qed.

(* Pulse source: dict(v1=params.v1, td=params.delay, ...) and its mirror in import_primitive_params are inverse
   renamings, and they cover every field of PulseVoltageSourceParams exactly once. *)
Theorem C11_pulse_rename_inverse :
  (forall vn f, In (vn, f) pulse_export -> assoc f pulse_import = Some vn) /\
  (forall f vn, In (f, vn) pulse_import -> assoc vn pulse_export = Some f).
Proof. exact pulse_rename_inverse. Qed.
Print Assumptions C11_pulse_rename_inverse.

Theorem C11_pulse_rename_covers :
  pulse_fields <> [] /\
  forallb (fun f => smem f (map snd pulse_export) && smem f (map fst pulse_import)) pulse_fields = true /\
  List.length pulse_export = List.length pulse_fields /\ List.length pulse_import = List.length pulse_fields /\
  snodup (map fst pulse_export) = true /\ snodup (map snd pulse_export) = true /\
  snodup (map fst pulse_import) = true /\ snodup (map snd pulse_import) = true.
Proof. exact pulse_rename_covers. Qed.

Example C11_pulse_nonvacuous : In ("td", "delay") pulse_export /\ List.length pulse_fields = 7%nat.
Proof. vm_compute. split; [tauto | reflexivity]. Qed.

(* Primitive parameter classes: for EVERY primitive, the exported parameter names are distinct, the fields are distinct,
   and each field is exported exactly under the VLSIR name the importer reads it from (the table-level half of the
   primitive-parameter round trip; the list-level half is checked by the correspondence run only). *)
Theorem C11_prim_schemas_coherent :
  forallb (fun e : string * string * list (string * string * bool * bool) =>
     match schema_of (fst (fst e)) with Ok sc => schema_coherent sc | Error _ => false end) prim_fields = true.
Proof. exact prim_schemas_coherent. Qed.
Print Assumptions C11_prim_schemas_coherent.

Example C11_prim_schemas_nonvacuous : List.length prim_fields = 21%nat.
Proof. reflexivity. Qed.

(* Port directions and spice types survive export + import, in both directions, for every member. *)
Theorem C11_dir_roundtrip : forall d, In d portdir_names -> exists v, export_dir d = Ok v /\ import_dir v = Ok d.
Proof. exact dir_roundtrip. Qed.
Theorem C11_dir_roundtrip_back : forall v, In v direction_names -> exists d, import_dir v = Ok d /\ export_dir d = Ok v.
Proof. exact dir_roundtrip_back. Qed.
Theorem C11_spicetype_roundtrip : forall s, In s spicetype_names -> exists v, export_spicetype s = Ok v /\ import_spicetype v = Ok s.
Proof. exact spicetype_roundtrip. Qed.
Theorem C11_spicetype_roundtrip_back : forall v, In v schema_spicetype_names -> exists s, import_spicetype v = Ok s /\ export_spicetype s = Ok v.
Proof. exact spicetype_roundtrip_back. Qed.
Print Assumptions C11_dir_roundtrip.
Print Assumptions C11_spicetype_roundtrip_back.

Example C11_enums_nonvacuous : List.length portdir_names = 4%nat /\ List.length spicetype_names = 14%nat /\ In "MOS" schema_spicetype_names.
Proof. vm_compute. repeat split; try reflexivity. tauto. Qed.

(* Values of parameters: every value the exporter can write (int64, double, literal, prefixed with an int64 or a
   non-integral decimal number, any of the 21 prefixes) is imported and exported again as itself. *)
Theorem C11_value_roundtrip : forall v, value_normal v = true -> rt_value v = Ok v.
Proof. exact value_roundtrip. Qed.
Print Assumptions C11_value_roundtrip.

Example C11_value_nonvacuous :
  value_normal (VPre "KILO" (NDec (mkDec false 150 (-2)))) = true /\ value_normal (VPre "ATTO" (NInt (-7))) = true /\
  rt_value (VStr "s") = Ok (VLit "s").
Proof. vm_compute. repeat split; reflexivity. Qed.

Theorem C11_dict_params_roundtrip : forall ps, dict_params_normal ps = true -> rt_dict_params ps = Ok ps.
Proof. exact dict_params_roundtrip. Qed.

(* Qualified names: splitting at the dots (import path + name) and joining again is the identity on every string. *)
Theorem C11_name_roundtrip : forall s, rt_name s = s.
Proof. exact name_roundtrip. Qed.
Print Assumptions C11_name_roundtrip.

(* External modules: port order, widths, directions, domain, name and spice type. *)
Theorem C11_ext_roundtrip : forall x, ext_normal x = true -> rt_ext x = Ok x.
Proof. exact ext_roundtrip. Qed.
Print Assumptions C11_ext_roundtrip.

Example C11_ext_nonvacuous :
  ext_normal {| cx_domain := "lib"; cx_name := "E"; cx_sigs := [("d", 1); ("g", 3)]; cx_ports := [("d", "INOUT"); ("g", "INPUT")];
                cx_spicetype := "MOS" |} = true.
Proof. vm_compute. reflexivity. Qed.

(* Instances of modules and of external modules: reference and parameters come back. *)
Theorem C11_ref_local_roundtrip : forall exts earlier i nm m,
  ci_ref i = PLocal nm -> find_c11mod earlier nm = Some m -> ci_params i = [] ->
  ref_roundtrips exts earlier i (map fst (cm_ports m)).
Proof. exact ref_local_roundtrip. Qed.

Theorem C11_ref_ext_roundtrip : forall exts earlier i dom nm x,
  ci_ref i = PExt dom nm -> is_prim_domain dom = false -> find_c11ext exts dom nm = Some x ->
  dict_params_normal (ci_params i) = true -> ref_roundtrips exts earlier i (map fst (cx_sigs x)).
Proof. exact ref_ext_roundtrip. Qed.

(* Modules: name, signals (internal first, then ports), port order and directions, instances, connections, literals. *)
Theorem C11_mod_roundtrip : forall exts earlier m,
  mod_normal_head earlier m = true ->
  (forall i, In i (cm_insts m) -> exists ports, ref_roundtrips exts earlier i ports /\ conns_normal (cm_sigs m) ports (ci_conns i) = true) ->
  rt_mod exts earlier m = Ok m.
Proof. exact mod_roundtrip. Qed.
Print Assumptions C11_mod_roundtrip.

(* Packages (partial: see the header). *)
Theorem C11_pkg_roundtrip_partial : forall p,
  nodup_ext_names (ck_exts p) = true ->
  forallb ext_normal (ck_exts p) = true ->
  (forall pre m post, ck_mods p = (pre ++ m :: post)%list -> rt_mod (ck_exts p) pre m = Ok m) ->
  rt_pkg p = Ok p.
Proof. exact pkg_roundtrip. Qed.
Print Assumptions C11_pkg_roundtrip_partial.

(* non-vacuity: a two-module package with an external module, a primitive with prefixed / literal / enum parameters,
   a pulse source with un-set parameters, slices and a concatenation is a fixed point of the model *)
Definition c11_example_pkg : c11pkg :=
  {| ck_domain := "dom";
     ck_exts := [{| cx_domain := "lib"; cx_name := "E"; cx_sigs := [("a", 2); ("b", 1)]; cx_ports := [("a", "INPUT"); ("b", "NONE")];
                    cx_spicetype := "TLINE" |}];
     ck_mods := [{| cm_name := "pkg.Inner"; cm_sigs := [("s", 4); ("p", 2); ("q", 1)]; cm_ports := [("p", "INPUT"); ("q", "OUTPUT")];
                    cm_insts := [{| ci_name := "x"; ci_ref := PExt "lib" "E"; ci_params := [("k", VInt 5); ("m", VPre "MILLI" (NDec (mkDec false 15 (-1))))];
                                    ci_conns := [("a", PConcat [PSlice "s" 3 3; PSig "q"]); ("b", PSlice "p" 0 0)] |};
                                 {| ci_name := "m"; ci_ref := PExt "hdl21.primitives" "Mos";
                                    ci_params := [("w", VPre "MICRO" (NInt 1)); ("l", VLit "5"); ("tp", VLit "PMOS"); ("vth", VLit "STD"); ("family", VLit "NONE"); ("model", VLit "5")];
                                    ci_conns := [("d", PSig "q"); ("g", PSlice "s" 0 0); ("s", PSlice "s" 1 1); ("b", PSlice "s" 2 2)] |};
                                 {| ci_name := "v"; ci_ref := PExt "vlsir.primitives" "vpulse";
                                    ci_params := [("v2", VPre "UNIT" (NInt 1)); ("td", VPre "NANO" (NInt 2)); ("tper", VLit "T")];
                                    ci_conns := [("p", PSig "q"); ("n", PSlice "s" 2 2)] |}];
                    cm_literals := ["first"; "second"] |};
                 {| cm_name := "pkg.Top"; cm_sigs := [("n", 2); ("o", 1)]; cm_ports := [];
                    cm_insts := [{| ci_name := "u"; ci_ref := PLocal "pkg.Inner"; ci_params := []; ci_conns := [("p", PSig "n"); ("q", PSig "o")] |}];
                    cm_literals := [] |}] |}.

Example C11_pkg_nonvacuous : rt_pkg c11_example_pkg = Ok c11_example_pkg.
Proof. vm_compute. reflexivity. Qed.

(* the behaviour the repairs removed, on the model's terms: a numeric literal of a Scalar field stays a literal,
   an un-set optional parameter stays un-set *)
Example C11_repaired_behaviour :
  (sc <- schema_of "DcVoltageSource" ;; rt_prim_params sc []) = Ok [] /\
  (sc <- schema_of "IdealResistor" ;; rt_prim_params sc [("r", VLit "1e3")]) = Ok [("r", VLit "1e3")] /\
  (sc <- schema_of "PulseVoltageSource" ;; rt_prim_params sc [("td", VPre "NANO" (NInt 1))]) = Ok [("td", VPre "NANO" (NInt 1))].
Proof. vm_compute. repeat split; reflexivity. Qed.

(* ================================================================================================================
   Strengthening round: the importer is a stateful object; what an instance leaves behind must not reach a later one.

   Model/C11Share.v splits rt_ref into the two halves the code has — imp_ref (import_instance: a Call holding Python
   values) and exp_call (export_instance on that Call) — and defines rt_pkg_s keq, the importer that keeps its Calls for
   the whole package and gives a later instance the EARLIER Call whenever `keq earlier new` holds. *)

(* The state the importer of the tree under test keeps between instances is exactly what the model threads: the two
   tables `modules` (earlier) and `ext_modules` (exts), beside the package and the namespace it returns; importing.py has
   no memoising decorator and no module-level container (regenerated from the source by tools/translators/11_proto_maps.py). *)
Theorem C11_importer_state : importer_state = ["ext_modules"; "modules"; "ns"; "pkg"] /\ importer_memo = [].
Proof. split; reflexivity. Qed.
Print Assumptions C11_importer_state.

(* rt_ref is export after import (the two halves report a different FIRST error; accepted results are the same) *)
Theorem C11_ref_is_import_then_export : forall exts earlier r ps x,
  rt_ref exts earlier r ps = Ok x <-> (c <- imp_ref exts earlier r ps ;; exp_call c) = Ok x.
Proof. intros. apply same_ok_iff. apply rt_ref_split_ok. Qed.
Print Assumptions C11_ref_is_import_then_export.

(* Sharing Calls is harmless for EVERY package exactly under this condition on the key: Calls it identifies are exported
   identically.  Then the sharing importer accepts the same packages and returns the same packages as the model. *)
Theorem C11_sharing_sound : forall keq, (forall a b, keq a b = true -> exp_call a = exp_call b) ->
  forall p q, rt_pkg_s keq p = Ok q <-> rt_pkg p = Ok q.
Proof. exact sharing_sound. Qed.
Print Assumptions C11_sharing_sound.

(* the importer that never shares (the tree under test) is the model; so is one that shares structurally equal Calls *)
Theorem C11_no_sharing_is_model : forall p q, rt_pkg_s (fun _ _ => false) p = Ok q <-> rt_pkg p = Ok q.
Proof. exact no_sharing_is_rt_pkg. Qed.
Theorem C11_struct_sharing_harmless : forall p q, rt_pkg_s call_struct_eqb p = Ok q <-> rt_pkg p = Ok q.
Proof. exact struct_sharing_harmless. Qed.
Print Assumptions C11_struct_sharing_harmless.

(* ... and for ANY key: two instances whose Calls it identifies, the first of which survives on its own — the second comes
   back with the reference and the parameters of the first; if those are not its own, the module does not survive. *)
Theorem C11_sharing_takes_first : forall keq exts earlier sigs i1 i2 c1 c2 l cc',
  imp_ref exts earlier (ci_ref i1) (ci_params i1) = Ok c1 ->
  imp_ref exts earlier (ci_ref i2) (ci_params i2) = Ok c2 ->
  keq c1 c2 = true ->
  rt_inst exts earlier sigs i1 = Ok i1 ->
  rt_insts_s keq exts earlier sigs [] [i1; i2] = Ok (l, cc') ->
  exists i2', l = [i1; i2'] /\ (ci_ref i2', ci_params i2') = (ci_ref i1, ci_params i1).
Proof. exact sharing_takes_first. Qed.
Theorem C11_sharing_unsound : forall keq exts earlier sigs i1 i2 c1 c2 cc',
  imp_ref exts earlier (ci_ref i1) (ci_params i1) = Ok c1 ->
  imp_ref exts earlier (ci_ref i2) (ci_params i2) = Ok c2 ->
  keq c1 c2 = true ->
  rt_inst exts earlier sigs i1 = Ok i1 ->
  (ci_ref i2, ci_params i2) <> (ci_ref i1, ci_params i1) ->
  rt_insts_s keq exts earlier sigs [] [i1; i2] <> Ok ([i1; i2], cc').
Proof. exact sharing_unsound. Qed.
Print Assumptions C11_sharing_unsound.

(* Python's == on imported parameter values (Model/C11Share.v:py_eq; validated against the live == by the `pyeq` stream)
   is NOT such a key: 2 == 2.0, 2 == 2 UNIT == 0.002 KILO, 1500 MILLI == 1.5 UNIT == 1.50 UNIT, 0.0 == -0.0 are pairs of
   Python-equal Calls, each exported as itself and differently from the other; a cache of Calls keyed by
   ((domain, name), tuple(params.items())) turns the package of the seeded demonstration into another one. *)
Theorem C11_py_eq_not_export_sound : exists a b, call_py_eq a b = true /\ exp_call a <> exp_call b.
Proof. exact py_eq_not_export_sound. Qed.
Theorem C11_py_twins : forallb (fun w => py_twin (fst w) (snd w)) py_twin_witnesses = true /\ List.length py_twin_witnesses = 9%nat.
Proof. split; [exact py_twins_all | reflexivity]. Qed.
Theorem C11_py_sharing_refuted : exists p, rt_pkg p = Ok p /\ rt_pkg_s call_py_eq p <> Ok p.
Proof. exact py_sharing_refuted. Qed.
Print Assumptions C11_py_sharing_refuted.

(* non-vacuity: the hypotheses of C11_sharing_unsound hold for the two spellings of 2 on one external module *)
Example C11_sharing_unsound_nonvacuous :
  let i1 := twin_inst "x0" [("m", VInt 2)] in
  let i2 := twin_inst "x1" [("m", VDbl "0x1.0000000000000p+1")] in
  let sigs := [("a", 1); ("b", 1)] in
  match imp_ref [twin_ext] [] (ci_ref i1) (ci_params i1), imp_ref [twin_ext] [] (ci_ref i2) (ci_params i2) with
  | Ok c1, Ok c2 => call_py_eq c1 c2 = true /\ rt_inst [twin_ext] [] sigs i1 = Ok i1 /\ rt_inst [twin_ext] [] sigs i2 = Ok i2 /\
                    pvalue_eqb (VInt 2) (VDbl "0x1.0000000000000p+1") = false
  | _, _ => False
  end.
Proof. vm_compute. repeat split; reflexivity. Qed.

Example C11_struct_key_separates_twins :
  match call_of [("m", VInt 2)], call_of [("m", VDbl "0x1.0000000000000p+1")] with
  | Ok a, Ok b => call_struct_eqb a b = false /\ call_struct_eqb a a = true
  | _, _ => False
  end.
Proof. vm_compute. split; reflexivity. Qed.


(* ================================================================================================================== *)
(* Strengthening round 2: export HISTORIES over mutable ExternalModule objects (Model/C11History.v).
   An ExternalModule is a mutable object compared by identity; "every package produced by to_proto" includes the packages
   produced after an object was given another port, had a port renamed, its spice type or name assigned.  Such a package
   survives the round trip only if it declares the object as it IS (its instances are written from the live object). *)

(* The exporter of the tree under test remembers nothing from one export to the next: ProtoExporter keeps exactly these tables,
   to_proto makes a new one per call, exporting.py has no decorator / module- or class-level container / mutable default and
   stores nothing on the objects it exports (regenerated from the source on every run), and the live probe (export, append a
   port, export again; the free function likewise) sees the new port. *)
Theorem C11_exporter_state :
  exporter_state = ["ext_modules"; "ext_modules_by_name"; "modules_by_id"; "modules_by_name"; "pkg"; "tops"] /\
  exporter_memo = [] /\ to_proto_fresh_exporter = true /\ exporter_probe_current = true.
Proof. repeat split; reflexivity. Qed.
Print Assumptions C11_exporter_state.

(* One export of the exporter that remembers nothing: for EVERY heap of object states and every walk, the declarations of the
   package are those of the objects as they are - each is the current declaration of a used object, every used object's
   current declaration is there, each (domain, name) once. *)
Theorem C11_export_declares_current : forall hp uses ds m,
  export_one unit decl_fresh hp tt uses = Ok (ds, m) -> decls_current hp uses ds.
Proof. exact fresh_export_current. Qed.
Print Assumptions C11_export_declares_current.

(* Histories: whatever mutations and exports (returned, silent, direct declarations) came before, every observing step of that
   exporter returns a function of the heap it sees and of nothing else ... *)
Theorem C11_history_independent : forall ops hp,
  run_hist unit decl_fresh hp tt ops = map (fun ho => observe (fst ho) (snd ho)) (heaps_seen hp ops).
Proof. exact fresh_history_independent. Qed.
Print Assumptions C11_history_independent.

(* ... hence every package of every history declares the objects as they are at that moment. *)
Theorem C11_history_declares_current : forall ops hp n h u ds,
  nth_error (heaps_seen hp ops) n = Some (h, HExport u) ->
  nth_error (run_hist unit decl_fresh hp tt ops) n = Some (Some ds) -> decls_current h u ds.
Proof. exact fresh_history_current. Qed.
Print Assumptions C11_history_declares_current.

Theorem C11_history_decl_current : forall ops hp n h k d,
  nth_error (heaps_seen hp ops) n = Some (h, HDecl k) ->
  nth_error (run_hist unit decl_fresh hp tt ops) n = Some (Some [d]) ->
  exists o, nth_error h k = Some o /\ decl_of o = Ok d.
Proof. exact fresh_decl_current. Qed.

(* the boolean the correspondence run evaluates on the implementation's packages IS the specification *)
Theorem C11_decls_current_b_spec : forall hp uses ds, decls_current_b hp uses ds = true <-> decls_current hp uses ds.
Proof. exact decls_current_b_spec. Qed.
Print Assumptions C11_decls_current_b_spec.

(* A declaration cache keyed by the identity of the object (functools.lru_cache on export_external_module) cannot be told from
   that exporter by ANY history without a mutation - single exports, repeated exports of unchanged objects: everything the
   earlier streams and the test suite contain ... *)
Theorem C11_memo_unseen_without_mutation : forall ops hp m, memo_ok hp m -> no_mutation ops = true ->
  run_hist _ decl_memo_id hp m ops = run_hist unit decl_fresh hp tt ops.
Proof. exact memo_unseen_without_mutation. Qed.
Print Assumptions C11_memo_unseen_without_mutation.

(* ... and is refuted by the shortest history with one: export a three-terminal cell, append its well tap, export a design that
   connects it.  The second package declares [a; z; vss], its instance connects vnw: the importer refuses it (rt_pkg = Error),
   while the package of the exporter that remembers nothing is a fixed point of the round trip. *)
Definition cell3_decl (ports : list (name * string)) : c11ext :=
  {| cx_domain := "extlib"; cx_name := "cell3"; cx_sigs := map (fun p => (fst p, 1)) ports; cx_ports := ports; cx_spicetype := "SUBCKT" |}.
Definition d3 := cell3_decl [("a", "INPUT"); ("z", "OUTPUT"); ("vss", "NONE")].
Definition d4 := cell3_decl [("a", "INPUT"); ("z", "OUTPUT"); ("vss", "NONE"); ("vnw", "NONE")].
Definition heap4 : heap := match mutate [cell3] 0 (MAppend vnw) with Ok h => h | Error _ => [] end.

Theorem C11_memo_export_refuted :
    run_hist _ decl_memo_id [cell3] [] well_tap_history = [Some [d3]; Some [d3]] /\
    run_hist unit decl_fresh [cell3] tt well_tap_history = [Some [d3]; Some [d4]] /\
    d3 <> d4 /\ decls_current_b heap4 [0%nat] [d3] = false /\ decls_current_b heap4 [0%nat] [d4] = true /\
    (exists p, design_pkg heap4 "Second" [("i", 0%nat)] [d4] = Ok p /\ rt_pkg p = Ok p) /\
    (exists p, design_pkg heap4 "Second" [("i", 0%nat)] [d3] = Ok p /\ rt_pkg p = Error EExtra).
Proof.
  split; [vm_compute; reflexivity|]. split; [vm_compute; reflexivity|]. split; [vm_compute; discriminate|].
  split; [vm_compute; reflexivity|]. split; [vm_compute; reflexivity|]. split.
  - eexists. split; [vm_compute; reflexivity|]. vm_compute. reflexivity.
  - eexists. split; [vm_compute; reflexivity|]. vm_compute. reflexivity.
Qed.
Print Assumptions C11_memo_export_refuted.

(* Over a heap of normal objects (distinct port names, members of PortDir and SpiceType) the current declaration of an object is
   in the round trip's normal form, so the external-module part of every package of every history survives from_proto/to_proto. *)
Theorem C11_current_decl_normal : forall o x, obj_normal o = true -> decl_of o = Ok x -> ext_normal x = true.
Proof. exact current_decl_normal. Qed.
Theorem C11_current_decls_roundtrip : forall hp uses ds, forallb obj_normal hp = true -> decls_current hp uses ds ->
  forall d, In d ds -> rt_ext d = Ok d.
Proof. exact current_decls_roundtrip. Qed.
Print Assumptions C11_current_decls_roundtrip.
Example C11_current_decl_nonvacuous : obj_normal cell3 = true /\ forallb obj_normal heap4 = true /\ decl_of cell3 = Ok d3.
Proof. vm_compute. repeat split; reflexivity. Qed.

(* non-vacuity: a history with every kind of step on two objects; the fresh exporter's packages are current at each step *)
Example C11_history_nonvacuous :
  let o2 := {| eo_domain := ""; eo_name := "tap"; eo_ports := [{| ep_name := "p"; ep_width := 2; ep_dir := "INOUT" |}]; eo_spicetype := "DIODE" |} in
  let ops := [HExport [0; 1; 0]%nat; HMut 1 (MRename 0 "q"); HSilent [1%nat]; HMut 0 (MSpice "MOS"); HDecl 0; HMut 0 (MRemove 1);
              HMut 1 MSilent; HExport [1; 0]%nat] in
  List.length (heaps_seen [cell3; o2] ops) = 3%nat /\
  forallb (fun x => match x with Some _ => true | None => false end) (run_hist unit decl_fresh [cell3; o2] tt ops) = true /\
  run_hist _ decl_memo_id [cell3; o2] [] ops <> run_hist unit decl_fresh [cell3; o2] tt ops.
Proof. vm_compute. split; [reflexivity|]. split; [reflexivity|discriminate]. Qed.
