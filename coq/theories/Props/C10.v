(* Props/C10.v — Bundle ports flatten to the documented names, directions and visibility.
   Only statements, each closed by a lemma of Proofs/BundleProofs.v (or a short derivation), followed by Print Assumptions.

   Reading guide.  A bundle instance is a tree `t : btree` (Spec/BundleSpec.v): the root carries the instance name, its flips
   (constructor flag + number of h.flipped() applied) and its role; `wf_tree t` = member names are distinct in every definition.
   The SPECIFICATION is path based: `paths t` lists the member paths, `walk p t` navigates along p and returns the instances
   passed (root first) and the leaf, `flips_on insts` is the NUMBER of flips written on them, `spec_dir` decides the direction
   from its parity / from the role of the last instance.  The MODEL (Model/BundleFlat.v) is the recursive, flip-state-threading
   algorithm of flatten_bundles.py with its collision errors, `flatname`, the renaming loop and `replace_bundle_conn`. *)
From Coq Require Import String.
Require Import Hdl21.Base.PyInt Hdl21.Spec.BundleSpec Hdl21.Model.BundleFlat Hdl21.Proofs.BundleProofs.
Require Import Hdl21.Model.C10Build Hdl21.Proofs.C10BuildProofs.
Require Import Hdl21Gen.C10Tables.
Open Scope string_scope.
Open Scope list_scope.
Open Scope Z_scope.

(* 0. the member paths are exactly the navigable paths, each once *)
Theorem C10_paths_exact t : wf_tree t = true ->
  NoDup (paths t) /\ forall p, In p (paths t) <-> exists x, walk p t = Some x.
Proof.
  intros W. split; [apply paths_NoDup; exact W|]. intros p. split.
  - intros H. rewrite <- (rflat_paths true t false) in H. apply in_map_iff in H. destruct H as [[q f] [E H]].
    cbn [fst] in E. subst q. destruct (rflat_walk true t W _ _ _ H) as [rest [l [Hw _]]]. eauto.
  - intros [x H]. eapply walk_paths; eauto.
Qed.
Print Assumptions C10_paths_exact.

(* 1. one flattened signal per leaf, in definition order, with the leaf's width; the collision errors of the code
      ("Doubly defined Signal", "colliding flattened Signal names") are unreachable on well-formed definitions *)
Theorem C10_one_port_per_leaf port t : wf_tree t = true ->
  exists sc, flatten_bundle_inst port t = Ok sc /\ map fst sc = paths t /\
             forall p f, In (p, f) sc -> exists insts l, walk p t = Some (insts, l) /\ fwidth f = lwidth l.
Proof.
  intros W. exists (rflat port (inst_flipped t) t). split; [apply flat_helper_rflat; exact W|].
  split; [apply rflat_paths|]. intros p f H. destruct (rflat_walk port t W _ _ _ H) as [rest [l [Hw ->]]].
  exists (t :: rest), l. split; [exact Hw|reflexivity].
Qed.
Print Assumptions C10_one_port_per_leaf.

(* 2. names: instance name and member path joined by "_"; when that name is taken, followed only by "_" characters;
      never a name of the module namespace `ns`, never twice the same; and as short as possible: every shorter candidate
      is taken by the namespace or by another flattened signal.  ns' is the namespace afterwards. *)
Theorem C10_names maxlen port t ns sc ns' :
  wf_tree t = true -> replace_bundle_inst maxlen port t ns = Ok (sc, ns') ->
  NoDup (snames sc) /\ (forall n, In n (snames sc) -> ~ In n ns) /\ ns' = ns ++ snames sc /\
  forall p f, In (p, f) sc ->
    Z.of_nat (String.length (fname f)) <= maxlen /\
    exists k, fname f = (join_us (bname t :: p) ++ underscores k)%string /\
              forall j, (j < k)%nat -> In (join_us (bname t :: p) ++ underscores j)%string (ns ++ snames sc).
Proof.
  intros W H. destruct (replace_bundle_inst_spec _ _ _ _ _ _ W H) as [_ [N [F [E L]]]].
  split; [exact N|]. split; [exact F|]. split; [exact E|].
  intros p f Hin. split; [eapply replace_bundle_inst_len; eauto|].
  destruct (L p f Hin) as [rest [l [k [_ [_ [_ [_ [Hn Hm]]]]]]]]. exists k. split; [exact Hn|exact Hm].
Qed.
Print Assumptions C10_names.

(* 2b. "when free": a flattened signal has exactly the joined name unless that name is taken *)
Theorem C10_name_when_free maxlen port t ns sc ns' p f :
  wf_tree t = true -> replace_bundle_inst maxlen port t ns = Ok (sc, ns') -> In (p, f) sc ->
  fname f = join_us (bname t :: p) \/ In (join_us (bname t :: p)) (ns ++ snames sc).
Proof.
  intros W H Hin. destruct (replace_bundle_inst_spec _ _ _ _ _ _ W H) as [_ [_ [_ [_ L]]]].
  destruct (L p f Hin) as [rest [l [k [_ [_ [_ [_ [Hn Hm]]]]]]]]. destruct k as [|k].
  - left. rewrite Hn. cbn [underscores]. apply append_nil_r.
  - right. specialize (Hm O ltac:(lia)). cbn [underscores] in Hm. rewrite append_nil_r in Hm. exact Hm.
Qed.
Print Assumptions C10_name_when_free.

(* 2c. failure modes: on a well-formed definition the only possible failure is the name-length limit (never a collision
      error, never fuel exhaustion), and a free name that fits is returned unchanged *)
Theorem C10_only_length_fails port t ns e :
  wf_tree t = true -> replace_bundle_inst flatname_maxlen port t ns = Error e -> e = EName.
Proof. intros W H. eapply replace_bundle_inst_err; [|exact W|exact H]. vm_compute. discriminate. Qed.
Print Assumptions C10_only_length_fails.

Theorem C10_flatname_free segs avoid :
  smem (join_us segs) avoid = false -> Z.of_nat (String.length (join_us segs)) <= flatname_maxlen ->
  flatname segs avoid flatname_maxlen = Ok (join_us segs).
Proof. apply flatname_free. vm_compute. discriminate. Qed.
Print Assumptions C10_flatname_free.

(* 3. directions.  The statement for every flattened signal of a port instance: *)
Theorem C10_direction port t ns sc ns' maxlen p f :
  wf_tree t = true -> replace_bundle_inst maxlen port t ns = Ok (sc, ns') -> In (p, f) sc ->
  exists rest l, walk p t = Some (t :: rest, l) /\ fwidth f = lwidth l /\ fvis f = spec_vis port /\ fdir f = spec_dir port (t :: rest) l.
Proof.
  intros W H Hin. destruct (replace_bundle_inst_spec _ _ _ _ _ _ W H) as [_ [_ [_ [_ L]]]].
  destruct (L p f Hin) as [rest [l [k [Hw [Hwd [Hv [Hd _]]]]]]]. exists rest, l. auto.
Qed.
Print Assumptions C10_direction.

(* 3a. parity: a leaf declared as a port keeps its direction when the number of flips on its path is even,
       and has input and output swapped when it is odd *)
Theorem C10_direction_parity t ns sc ns' maxlen p f :
  wf_tree t = true -> replace_bundle_inst maxlen true t ns = Ok (sc, ns') -> In (p, f) sc ->
  exists insts l, walk p t = Some (insts, l) /\
    (lport l = true ->
       fdir f = if Nat.even (flips_on insts) then ldir l
                else match ldir l with DIn => DOut | DOut => DIn | d => d end).
Proof.
  intros W H Hin. destruct (C10_direction _ _ _ _ _ _ _ _ W H Hin) as [rest [l [Hw [_ [_ Hd]]]]].
  exists (t :: rest), l. split; [exact Hw|]. intros Hp. rewrite Hd. unfold spec_dir. cbn [negb]. rewrite Hp.
  destruct (Nat.even (flips_on (t :: rest))); [reflexivity|]. destruct (ldir l); reflexivity.
Qed.
Print Assumptions C10_direction_parity.

(* 3b. roles: a leaf that is not declared as a port becomes an output if the role of the instance that contains it is its
       source, an input if it is its destination, undirected otherwise (in particular when the instance has no role) *)
Theorem C10_direction_role t ns sc ns' maxlen p f :
  wf_tree t = true -> replace_bundle_inst maxlen true t ns = Ok (sc, ns') -> In (p, f) sc ->
  exists insts l, walk p t = Some (insts, l) /\
    (lport l = false ->
       fdir f = match brole (last insts (BT "" false O None [] [])) with
                | None => DNone
                | Some r => if opt_is (lsrc l) r then DOut else if opt_is (ldest l) r then DIn else DNone
                end).
Proof.
  intros W H Hin. destruct (C10_direction _ _ _ _ _ _ _ _ W H Hin) as [rest [l [Hw [_ [_ Hd]]]]].
  exists (t :: rest), l. split; [exact Hw|]. intros Hp. rewrite Hd. unfold spec_dir. cbn [negb]. rewrite Hp. reflexivity.
Qed.
Print Assumptions C10_direction_role.

(* 3c. inouts and undirected port leaves stay as they are, whatever the flips *)
Theorem C10_inout_none_fixed t ns sc ns' maxlen p f :
  wf_tree t = true -> replace_bundle_inst maxlen true t ns = Ok (sc, ns') -> In (p, f) sc ->
  exists insts l, walk p t = Some (insts, l) /\
    (lport l = true -> ldir l = DInout \/ ldir l = DNone -> fdir f = ldir l).
Proof.
  intros W H Hin. destruct (C10_direction_parity _ _ _ _ _ _ _ W H Hin) as [insts [l [Hw Hd]]].
  exists insts, l. split; [exact Hw|]. intros Hp Hio. rewrite (Hd Hp).
  destruct (Nat.even (flips_on insts)); [reflexivity|]. destruct Hio as [-> | ->]; reflexivity.
Qed.
Print Assumptions C10_inout_none_fixed.

(* 4. leaves of a non-port bundle instance become internal, undirected signals *)
Theorem C10_internal_instance t ns sc ns' maxlen p f :
  wf_tree t = true -> replace_bundle_inst maxlen false t ns = Ok (sc, ns') -> In (p, f) sc ->
  fvis f = VInternal /\ fdir f = DNone.
Proof.
  intros W H Hin. destruct (C10_direction _ _ _ _ _ _ _ _ W H Hin) as [rest [l [_ [_ [Hv Hd]]]]].
  split; [exact Hv|exact Hd].
Qed.
Print Assumptions C10_internal_instance.

(* 4b. leaves of a port instance are ports *)
Theorem C10_port_instance t ns sc ns' maxlen p f :
  wf_tree t = true -> replace_bundle_inst maxlen true t ns = Ok (sc, ns') -> In (p, f) sc -> fvis f = VPort.
Proof.
  intros W H Hin. destruct (C10_direction _ _ _ _ _ _ _ _ W H Hin) as [rest [l [_ [_ [Hv _]]]]]. exact Hv.
Qed.
Print Assumptions C10_port_instance.

(* 5. the model's result passes the EXECUTABLE specification that the correspondence run applies to the implementation's
      output (Corr/C10.v: chk), and that executable specification means what 1-4 say *)
Theorem C10_flatten_meets_spec maxlen port t ns sc ns' :
  wf_tree t = true -> replace_bundle_inst maxlen port t ns = Ok (sc, ns') -> scope_ok port t ns sc = true.
Proof. exact (replace_bundle_inst_scope_ok maxlen port t ns sc ns'). Qed.
Print Assumptions C10_flatten_meets_spec.

Theorem C10_spec_sound port t taken sc : scope_ok port t taken sc = true ->
  (forall p, In p (paths t) -> exists f, passoc p sc = Some f) /\ length sc = length (paths t) /\ NoDup (snames sc) /\
  forall p f, In (p, f) sc ->
    exists insts l k, walk p t = Some (insts, l) /\ fwidth f = lwidth l /\ fvis f = spec_vis port /\
                      fdir f = spec_dir port insts l /\ fname f = (base_name (bname t) p ++ underscores k)%string /\
                      ~ In (fname f) taken /\
                      forall j, (j < k)%nat -> In (base_name (bname t) p ++ underscores j)%string (taken ++ snames sc).
Proof. exact (scope_ok_sound port t taken sc). Qed.
Print Assumptions C10_spec_sound.

(* 6. connections: every flattened port of the child is connected to the parent-side member of the SAME PATH, each once *)
Theorem C10_matching_agrees {A} (child : scope) (parent : list (path * A)) cs :
  replace_bundle_conn child parent = Ok cs ->
  Forall2 (fun e c => fst c = fname (snd e) /\ passoc (fst e) parent = Some (snd c)) child cs.
Proof. exact (replace_bundle_conn_spec child parent cs). Qed.
Print Assumptions C10_matching_agrees.

(* 6a. a member missing on the parent side is an error; nothing else is *)
Theorem C10_missing_member_rejected {A} (child : scope) (parent : list (path * A)) p :
  In p (map fst child) -> ~ In p (map fst parent) -> replace_bundle_conn child parent = Error EMissing.
Proof. exact (replace_bundle_conn_missing child parent p). Qed.
Print Assumptions C10_missing_member_rejected.

Theorem C10_complete_source_accepted {A} (child : scope) (parent : list (path * A)) :
  (forall p, In p (map fst child) -> In p (map fst parent)) -> exists cs, replace_bundle_conn child parent = Ok cs.
Proof. exact (replace_bundle_conn_total child parent). Qed.
Print Assumptions C10_complete_source_accepted.

(* 6a'. the connection step as repaired (8fdfa58): a source that brings along a member the port's bundle does not have is
        refused; an accepted connection is the pairing above and the source has exactly the port's members; a source with
        exactly the port's members is accepted *)
Theorem C10_extra_member_rejected {A} (child : scope) (parent : list (path * A)) p :
  In p (map fst parent) -> ~ In p (map fst child) -> replace_bundle_conn_checked child parent = Error EExtra.
Proof. exact (replace_bundle_conn_checked_extra child parent p). Qed.
Print Assumptions C10_extra_member_rejected.

Theorem C10_checked_is_pairing {A} (child : scope) (parent : list (path * A)) cs :
  replace_bundle_conn_checked child parent = Ok cs ->
  Forall2 (fun e c => fst c = fname (snd e) /\ passoc (fst e) parent = Some (snd c)) child cs /\
  (forall p, In p (map fst parent) -> In p (map fst child)).
Proof.
  intros H. destruct (replace_bundle_conn_checked_ok child parent cs H) as [H1 H2].
  split; [exact (replace_bundle_conn_spec child parent cs H1)|exact H2].
Qed.
Print Assumptions C10_checked_is_pairing.

Theorem C10_exact_source_accepted {A} (child : scope) (parent : list (path * A)) :
  (forall p, In p (map fst child) <-> In p (map fst parent)) -> exists cs, replace_bundle_conn_checked child parent = Ok cs.
Proof. exact (replace_bundle_conn_checked_total child parent). Qed.
Print Assumptions C10_exact_source_accepted.

(* 6b. both sides agree: a port instance tc of a module and an instance tp of the same definition in the parent (other name,
       flips, role, port-ness, namespace): the connection is accepted, passes the executable connection specification, names
       every child port once, and connects the child's signal of member p to the parent's signal of member p *)
Theorem C10_connection_same_definition maxlen tc tp pport nsc nsp csc psc nsc' nsp' :
  wf_tree tc = true -> wf_tree tp = true -> paths tc = paths tp ->
  replace_bundle_inst maxlen true tc nsc = Ok (csc, nsc') -> replace_bundle_inst maxlen pport tp nsp = Ok (psc, nsp') ->
  exists cs, replace_bundle_conn csc (by_path psc) = Ok cs /\ conns_ok csc (by_path psc) cs = true /\
             NoDup (map fst cs) /\
             forall p, In p (paths tc) -> exists fc fp, passoc p csc = Some fc /\ passoc p psc = Some fp /\ In (fname fc, fname fp) cs.
Proof. exact (connection_same_def maxlen tc tp pport nsc nsp csc psc nsc' nsp'). Qed.
Print Assumptions C10_connection_same_definition.

(* 6c. a connection to a sub-bundle reference x.pre: member p of the sub-bundle is member pre ++ p of x *)
Theorem C10_subbundle_reference {A} pre (sc : list (path * A)) p :
  p <> [] -> passoc p (subscope pre sc) = passoc (pre ++ p) sc.
Proof. exact (subscope_passoc pre sc p). Qed.
Print Assumptions C10_subbundle_reference.

(* 7. h.flipped() toggles: the instance's flag after the constructor flag and k applications is the parity of its flips *)
Theorem C10_flipped_toggles t : inst_flipped t = Nat.odd (inst_flips t).
Proof. exact (inst_flipped_odd t). Qed.
Print Assumptions C10_flipped_toggles.

(* ---------- non-vacuity: concrete, non-trivial instances ---------- *)
Definition L_in (n : string) : leaf := Build_leaf n 1 true DIn None None.
Definition L_out (n : string) : leaf := Build_leaf n 1 true DOut None None.
Definition ex_base := [L_in "i"; L_out "o"].
(* test_nested_flipping: M.n = h.flipped(NestedSquared(port=True)); n = h.flipped(Nested()); b = h.flipped(Base()) *)
Definition ex_nested2 : btree :=
  BT "n" false 1 None [L_in "n2i"; L_out "n2o"]
     [BT "n" false 1 None [L_in "ni"; L_out "no"]
         [BT "b" false 1 None ex_base []]].

Example C10_ex_nested_flipping :
  wf_tree ex_nested2 = true /\
  replace_bundle_inst flatname_maxlen true ex_nested2 [] =
  Ok ([(["n2i"], {| fname := "n_n2i"; fwidth := 1; fvis := VPort; fdir := DOut |});
       (["n2o"], {| fname := "n_n2o"; fwidth := 1; fvis := VPort; fdir := DIn |});
       (["n"; "ni"], {| fname := "n_n_ni"; fwidth := 1; fvis := VPort; fdir := DIn |});
       (["n"; "no"], {| fname := "n_n_no"; fwidth := 1; fvis := VPort; fdir := DOut |});
       (["n"; "b"; "i"], {| fname := "n_n_b_i"; fwidth := 1; fvis := VPort; fdir := DOut |});
       (["n"; "b"; "o"], {| fname := "n_n_b_o"; fwidth := 1; fvis := VPort; fdir := DIn |})],
      ["n_n2i"; "n_n2o"; "n_n_ni"; "n_n_no"; "n_n_b_i"; "n_n_b_o"]).
Proof. split; vm_compute; reflexivity. Qed.

(* roles, a colliding joined name (leaf a_i vs member i of sub-bundle a) and a taken name (b_i) *)
Definition ex_roles : btree :=
  BT "b" true 0 (Some "DEVICE")
     [Build_leaf "tx" 2 false DNone (Some "HOST") (Some "DEVICE"); Build_leaf "rx" 3 false DNone (Some "DEVICE") (Some "HOST");
      Build_leaf "a_i" 1 true DIn None None; Build_leaf "i" 1 true DInout None None]
     [BT "a" false 0 None ex_base []].

Example C10_ex_roles_collisions :
  wf_tree ex_roles = true /\
  exists sc ns', replace_bundle_inst flatname_maxlen true ex_roles ["b_i"] = Ok (sc, ns') /\
    map (fun e => (fname (snd e), fdir (snd e))) sc =
    [("b_tx", DIn); ("b_rx", DOut); ("b_a_i", DOut); ("b_i_", DInout); ("b_a_i_", DOut); ("b_a_o", DIn)].
Proof. split; [reflexivity|]. eexists. eexists. split; vm_compute; reflexivity. Qed.

Example C10_ex_internal :
  exists sc ns', replace_bundle_inst flatname_maxlen false ex_nested2 [] = Ok (sc, ns') /\
    forallb (fun e => vis_eqb (fvis (snd e)) VInternal && dir_eqb (fdir (snd e)) DNone) sc = true /\ length sc = 6%nat.
Proof. eexists. eexists. split; [vm_compute; reflexivity|]. split; reflexivity. Qed.

Example C10_ex_connection :
  exists csc n1 psc n2 cs,
    replace_bundle_inst flatname_maxlen true ex_roles ["b_i"] = Ok (csc, n1) /\
    replace_bundle_inst flatname_maxlen false (BT "x" false 1 None (bsigs ex_roles) (bsubs ex_roles)) ["x_a_i"] = Ok (psc, n2) /\
    replace_bundle_conn csc (by_path psc) = Ok cs /\
    cs = [("b_tx", "x_tx"); ("b_rx", "x_rx"); ("b_a_i", "x_a_i_"); ("b_i_", "x_i"); ("b_a_i_", "x_a_i__"); ("b_a_o", "x_a_o")].
Proof. do 5 eexists. split; [vm_compute; reflexivity|]. split; [vm_compute; reflexivity|]. split; vm_compute; reflexivity. Qed.

Example C10_ex_missing_member :
  replace_bundle_conn [(["a"], {| fname := "b_a"; fwidth := 1; fvis := VPort; fdir := DIn |});
                       (["s"; "c"], {| fname := "b_s_c"; fwidth := 1; fvis := VPort; fdir := DIn |})]
                      [(["a"], "p0")] = Error EMissing.
Proof. reflexivity. Qed.

(* a definition that is NOT well-formed (two members called a) is rejected by the model: the hypothesis wf_tree is not idle *)
Example C10_ex_not_wf :
  wf_tree (BT "b" false 0 None [L_in "a"; L_out "a"] []) = false /\
  flatten_bundle_inst true (BT "b" false 0 None [L_in "a"; L_out "a"] []) = Error EName.
Proof. split; reflexivity. Qed.

(* ================= strengthening round: the members of a definition after a construction HISTORY =================
   The flattener reads `Bundle.signals` and `Bundle.bundles`.  Model/C10Build.v follows bundle.py in how those two
   containers come about: `build cls ops` for one definition built by the additions `ops` (cls = one class body handed to
   @h.bundle; otherwise Bundle.add / attribute assignment, both of which end in `_add`), `resolve h` for a whole tree of
   definitions each with its history.  The SPECIFICATION is by name: `last_write k ws` = the last write to the name k;
   `writes cls ops` = the writes that count (every assignment of a class body; in a procedural history those that were not
   refused as being no Bundle attribute).  All theorems hold for EVERY history. *)

(* 8. the members are exactly what each name was LAST given: a scalar member k exists iff the last write to k was a Signal
      (and then it is that Signal), a sub-bundle member iff it was a BundleInstance; a name last given a value that is no
      attribute (class body) is no member; an earlier value of either kind is never left behind *)
Theorem C10_members_last_write cls ops k :
  find_leaf k (fst (build cls ops)) = final_sig k (writes cls ops) /\
  find_sub k (snd (build cls ops)) = final_sub k (writes cls ops).
Proof. split; [apply build_sigs|apply build_subs]. Qed.
Print Assumptions C10_members_last_write.

Theorem C10_no_stale_member cls ops :
  (forall l, In l (fst (build cls ops)) <-> last_write (lname l) (writes cls ops) = Some (MSig l)) /\
  (forall t, In t (snd (build cls ops)) <-> last_write (bname t) (writes cls ops) = Some (MSub t)).
Proof.
  split.
  - intros l. rewrite build_sig_In. unfold final_sig.
    destruct (last_write (lname l) (writes cls ops)) as [[l'|t'|j]|]; split; intros H; inversion H; reflexivity.
  - intros t. rewrite build_sub_In. unfold final_sub.
    destruct (last_write (bname t) (writes cls ops)) as [[l'|t'|j]|]; split; intros H; inversion H; reflexivity.
Qed.
Print Assumptions C10_no_stale_member.

(* 9. whatever the history, the two containers hold every name at most once, and no name in both *)
Theorem C10_members_distinct cls ops :
  snodup (map lname (fst (build cls ops)) ++ map bname (snd (build cls ops))) = true.
Proof. apply inv_snodup. apply inv_build. Qed.
Print Assumptions C10_members_distinct.

(* 10. hence every tree of definitions that the public API can build is well-formed: the hypothesis `wf_tree` of theorems
       0-7 is met by construction, for every history at every level *)
Theorem C10_built_tree_wf h : wf_tree (resolve h) = true.
Proof. apply resolve_wf. Qed.
Print Assumptions C10_built_tree_wf.

(* 11. the flattened ports of an instance of a definition with a history are those of its FINAL members: one per leaf path of
       the resolved tree, in order, never failing on a collision - and at the top level the leaf paths are exactly the names
       last given a Signal, and the paths through the names last given a BundleInstance *)
Theorem C10_history_one_port_per_leaf port h :
  exists sc, flatten_bundle_inst port (resolve h) = Ok sc /\ map fst sc = paths (resolve h) /\
             forall p f, In (p, f) sc -> exists insts l, walk p (resolve h) = Some (insts, l) /\ fwidth f = lwidth l.
Proof. apply C10_one_port_per_leaf. apply resolve_wf. Qed.
Print Assumptions C10_history_one_port_per_leaf.

Theorem C10_history_paths n cf nf r cls ops k q :
  let ws := writes cls (map mop_of ops) in
  In (k :: q) (paths (resolve (HT n cf nf r cls ops))) <->
  match q with
  | [] => exists l, final_sig k ws = Some l
  | _ :: _ => exists t, final_sub k ws = Some t /\ In q (paths t)
  end.
Proof.
  cbv zeta. rewrite resolve_eq, paths_eq, in_app_iff. set (mops := map mop_of ops). split.
  - intros [H|H].
    + apply in_map_iff in H. destruct H as [l [E Hl]]. inversion E; subst. exists l.
      apply build_sig_In in Hl. exact Hl.
    + apply psubs_in in H. destruct H as [s [q' [Hs [E Hq]]]]. inversion E; subst.
      pose proof (paths_nonempty _ _ Hq) as Hne. destruct q' as [|x q']; [congruence|].
      exists s. split; [apply build_sub_In in Hs; exact Hs|exact Hq].
  - destruct q as [|x q].
    + intros [l H]. left. rewrite <- build_sigs in H. apply find_leaf_some in H. destruct H as [Hl <-].
      apply in_map_iff. exists l. split; [reflexivity|exact Hl].
    + intros [t [H Hq]]. right. rewrite <- build_subs in H. apply find_sub_some in H. destruct H as [Ht <-].
      apply psubs_intro; assumption.
Qed.
Print Assumptions C10_history_paths.

(* the seeded history: member d, first a 4 bit output, re-added as the differential pair Pn *)
Definition ex_pn (n : string) : btree := BT n false 0 None [L_out "p"; L_out "n"] [].
Definition ex_bus_ops : list mop := [MSig (L_in "clk"); MSig (Build_leaf "d" 4 true DOut None None); MSub (ex_pn "d")].

Example C10_ex_history_members :
  build false ex_bus_ops = ([L_in "clk"], [ex_pn "d"]) /\
  build true ex_bus_ops = ([L_in "clk"], [ex_pn "d"]) /\
  (* the reverse order: the pair first, then the bus *)
  build false [MSub (ex_pn "d"); MSig (L_in "clk"); MSig (Build_leaf "d" 4 true DOut None None)] =
    ([L_in "clk"; Build_leaf "d" 4 true DOut None None], []) /\
  (* a class body keeps the place of the first assignment, forgets values that are no attributes *)
  build true [MSig (L_in "a"); MSig (L_in "b"); MJunk "a"; MSig (L_out "a"); MJunk "b"] = ([L_out "a"], []) /\
  build false [MSig (L_in "a"); MSig (L_in "b"); MJunk "a"; MSig (L_out "a"); MJunk "b"] = ([L_out "a"; L_in "b"], []).
Proof. repeat split. Qed.

Example C10_ex_history_flattened :
  exists sc ns',
    replace_bundle_inst flatname_maxlen true
      (resolve (HT "bus" true 0 None false
                   [OSig (L_in "clk"); OSig (Build_leaf "d" 4 true DOut None None);
                    OSub (HT "d" false 0 None false [OSig (L_out "p"); OSig (L_out "n")])])) [] = Ok (sc, ns') /\
    map (fun e => (fname (snd e), fwidth (snd e), fdir (snd e))) sc = [("bus_clk", 1, DOut); ("bus_d_p", 1, DIn); ("bus_d_n", 1, DIn)].
Proof. do 2 eexists. split; vm_compute; reflexivity. Qed.
