(* Props/C10.v — placeholder, theorems follow *)
From Coq Require Import String.
Require Import Hdl21.Base.PyInt Hdl21.Spec.BundleSpec Hdl21.Model.BundleFlat.
Open Scope string_scope.
Open Scope list_scope.

Example C10_ex_flat :
  flatten_bundle_inst true (BT "b" true 1 None [Build_leaf "i" 1 true DIn None None] []) =
  Ok [(["i"], {| fname := "i"; fwidth := 1; fvis := VPort; fdir := DIn |})].
Proof. reflexivity. Qed.
