(* Props/C01.v — elaboration and export preserve the connectivity the designer wrote.
   The end-to-end statement ("nets of the exported package = nets of the written design, same leaf
   devices") is evaluated inside Coq on the implementation's package for every generated design
   (Corr/C01.v:chk_c01, with Spec/Nets.v as the meaning of both sides).  Proved here, for all inputs,
   are the facts that make that evaluation the property, and the per-pass preservation facts. *)
Require Import Hdl21.Base.PyInt Hdl21.Spec.PySlice Hdl21.Model.Slice Hdl21.Model.Resolve Hdl21.Base.Design
               Hdl21.Spec.Nets Hdl21.Base.Package Hdl21.Model.Export Hdl21.Model.Arrays
               Hdl21.Proofs.FunGraph Hdl21.Proofs.NetsProofs Hdl21.Proofs.ExportProofs Hdl21.Proofs.ArraysProofs
               Hdl21.Proofs.ResolveProofs.

(* 1. "on one net" = equivalence closure of the sentence "bit k of a port ~ bit k of what is connected to it"
      = "orbits meet", for any functional one-step map *)
Theorem C01_net_is_closure (A : Type) (f : A -> A) x y : conn A f x y <-> meet A f x y.
Proof. exact (conn_meet A f x y). Qed.
Print Assumptions C01_net_is_closure.

(* 2. the executable relation of Spec/Nets.v decides it on every finite closed node set (any size, any
      reference chains, fans and cycles) once the fuel reaches the number of nodes *)
Theorem C01_same_net_decided d f nodes fuel x y :
  (forall x, In x nodes -> step d x = Ok (f x)) -> (forall x, In x nodes -> In (f x) nodes) ->
  (Datatypes.length nodes <= fuel)%nat -> In x nodes -> In y nodes ->
  ((exists ox oy, orbit d fuel x = Ok ox /\ orbit d fuel y = Ok oy /\ Nets.meets ox oy = true) <-> conn node f x y).
Proof. intros H1 H2. exact (same_net_decided d f nodes H1 H2 fuel x y). Qed.
Print Assumptions C01_same_net_decided.

(* 3. the criterion every rewriting pass (port references -> signals, arrays -> instances, bundle flattening)
      is an instance of: new connections only join already-joined nodes, old ones stay joined => same nets *)
Theorem C01_rewire_same_nets (A : Type) (f f' : A -> A) :
  (forall x, conn A f x (f' x)) -> (forall x, conn A f' x (f x)) -> forall x y, conn A f x y <-> conn A f' x y.
Proof. exact (rewire_same_nets A f f'). Qed.
Print Assumptions C01_rewire_same_nets.

(* 4. slice resolution preserves the bit sequence of every connection (from C03) *)
Theorem C01_resolve_preserves x :
  match xbits x with
  | Ok bs => exists l, list_flat x = Ok l /\ flats_bits l = bs /\ Forall (fun f => flat_wf f = true) l
  | Error _ => exists e, list_flat x = Error e
  end.
Proof. exact (list_flat_spec x). Qed.
Print Assumptions C01_resolve_preserves.

(* 5. array flattening: element k receives the whole connection (broadcast) or bits k*w..(k+1)*w-1 *)
Theorem C01_array_element_bits n w c k bits : 1 <= w -> 0 <= k < n -> xbits c = Ok bits ->
  match array_elem_conn n w c k with
  | Ok c' => exists l', xbits c' = Ok l' /\ zlen l' = w /\
               forall j, 0 <= j < w -> pick l' j = (if zlen bits =? w then pick bits j else pick bits (k * w + j))
  | Error _ => zlen bits <> w /\ zlen bits <> n * w
  end.
Proof. exact (array_element_bits n w c k bits). Qed.
Print Assumptions C01_array_element_bits.

(* 6. export, read back as the VLSIR netlisters read it: bit i of the connection is bit i of the target
      (inclusive top, index 0 least significant, concatenation parts most significant first) *)
Theorem C01_export_read sigs nm r : Forall (flat_declared sigs nm) (resolved_flats r) ->
  read_target sigs (export_resolved nm r) = Ok (map (named nm) (flats_bits (resolved_flats r))).
Proof. exact (export_read sigs nm r). Qed.
Print Assumptions C01_export_read.

(* non-vacuity *)
Example C01_ex_export :
  read_target [("a", 1); ("b", 2)]
     (export_resolved (fun id => if N.eqb id 0 then "a" else "b") (RConcat [FSig 0 1; FSl 1 2 0 2]))
  = Ok [("a", 0); ("b", 0); ("b", 1)].
Proof. reflexivity. Qed.
