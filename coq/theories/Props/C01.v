(* Props/C01.v — placeholder, filled below as the proofs land *)
Require Import Hdl21.Base.PyInt.
