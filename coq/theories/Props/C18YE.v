(* Props/C18YE.v — C18, second strengthening round: directions never matter.
   `eo` erases the direction of every Signal an operation carries (h.Input() -> h.Port(), h.Signal(direction=..) ->
   h.Signal()).  For EVERY history: the history with all directions erased yields, in the namespace and in every
   kind-specific view, the same names denoting the same objects in the same order, the same elaborated flag, the same
   owned objects, and accepts exactly the same next operations.  (module.py:_add that consults `val.direction` when it
   sorts - seeded change C18r4-B - has no such model.) *)
Require Import Hdl21.Base.PyInt Hdl21.Spec.Namespace Hdl21.Model.Namespace Hdl21.Proofs.NamespaceProofs.
Require Import Hdl21.Proofs.C18YErase.
From Coq Require Import String Ascii.
Open Scope list_scope.
Open Scope Z_scope.

Definition ids (l : assoc) : list (name * Z) := map (fun e => (fst e, v_id (snd e))) l.

Theorem C18YE_directions_never_matter c ops :
  let s := run c ops in let t := run c (map eo ops) in
  ids (st_ns t) = ids (st_ns s) /\ (forall k, ids (st_views t k) = ids (st_views s k)) /\
  st_elab t = st_elab s /\ st_owned t = st_owned s /\
  forall o, is_ok (step c t (eo o)) = is_ok (step c s o).
Proof.
  intros s t. assert (H : SE s t) by (apply fold_erase; apply SE_init).
  pose proof H as [Hn [Hv [He Ho]]].
  assert (E : forall l, ids (ea l) = ids l) by (intros l; unfold ids, ea; rewrite map_map; reflexivity).
  split; [rewrite Hn; apply E|]. split; [intros k; rewrite Hv; apply E|]. split; [exact He|]. split; [exact Ho|].
  intros o. pose proof (step_erase c s t o H) as HS. destruct (step c s o), (step c t (eo o)); simpl; tauto.
Qed.
Print Assumptions C18YE_directions_never_matter.

(* the erased history really is another history, and a stored signal keeps its visibility *)
Open Scope string_scope.
Example C18YE_ex :
  let ops := [SetAttr "a" (V 0 (KSignal false DInput) None); Add (V 1 (KSignal true DOutput) (Some "b")) None] in
  map eo ops = [SetAttr "a" (V 0 (KSignal false DNone) None); Add (V 1 (KSignal true DNone) (Some "b")) None] /\
  ids (st_views (run CModule ops) VSignals) = [("a", 0)] /\ ids (st_views (run CModule ops) VPorts) = [("b", 1)].
Proof. vm_compute. repeat split. Qed.
