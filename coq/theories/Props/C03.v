(* Props/C03.v — Indexing and concatenation follow Python sequence semantics.
   Only statements, each closed by a lemma of Proofs/, followed by Print Assumptions. *)
Require Import Hdl21.Base.PyInt Hdl21.Spec.PySlice Hdl21.Model.Slice Hdl21.Model.Resolve
               Hdl21.Proofs.SliceProofs Hdl21.Proofs.ResolveProofs.

(* 1. integer indices: -w <= i < w selects exactly bit i mod w, width 1 *)
Theorem C03_index_in_range w i : 0 <= w -> - w <= i < w ->
  exists r, slice_inner w (Idx i) = Ok r /\ inner_bits r = [i mod w] /\ width r = 1.
Proof.
  intros Hw Hi. pose proof (slice_inner_sel w (Idx i) Hw) as S.
  destruct (slice_inner w (Idx i)) as [r|e].
  - destruct S as [S [Hwid _]]. exists r. cbn [sel] in S.
    assert ((- w <=? i) && (i <? w) = true) as E by lia. rewrite E in S. inversion S as [S'].
    repeat split. rewrite Hwid, <- S'. reflexivity.
  - destruct S as [e' S]. cbn [sel] in S.
    assert ((- w <=? i) && (i <? w) = true) as E by lia. rewrite E in S. discriminate.
Qed.
Print Assumptions C03_index_in_range.

(* 2. any other integer index is rejected *)
Theorem C03_index_out_of_range w i : 0 <= w -> ~ (- w <= i < w) -> exists e, slice_inner w (Idx i) = Error e.
Proof.
  intros Hw Hi. unfold slice_inner. assert ((w <=? i) || (i <? - w) = true) as -> by lia. eauto.
Qed.
Print Assumptions C03_index_out_of_range.

(* 3. an accepted slice selects exactly Python's selection, in order; width = number of bits >= 1.
      Bounds beyond [-w, w] are covered by the same statement (accepted => Python's selection). *)
Theorem C03_slice_python w a b os r : 0 <= w -> slice_inner w (Sl a b os) = Ok r ->
  inner_bits r = py_indices w a b (step_of os) /\ width r = zlen (py_indices w a b (step_of os)) /\ 1 <= width r.
Proof.
  intros Hw H. pose proof (slice_inner_sel w (Sl a b os) Hw) as S. rewrite H in S.
  destruct S as [S [Hwid H1]]. cbn [sel] in S.
  destruct (step_of os =? 0); [discriminate|].
  destruct (py_indices w a b (step_of os)) eqn:E; [discriminate|]. inversion S as [S'].
  rewrite S'. repeat split; assumption.
Qed.
Print Assumptions C03_slice_python.

(* 4. zero steps and slices selecting no bit are rejected *)
Theorem C03_slice_rejects w a b os : 0 <= w ->
  step_of os = 0 \/ py_indices w a b (step_of os) = [] -> exists e, slice_inner w (Sl a b os) = Error e.
Proof.
  intros Hw H. pose proof (slice_inner_sel w (Sl a b os) Hw) as S.
  destruct (slice_inner w (Sl a b os)) as [r|e]; [|eauto].
  destruct S as [S _]. cbn [sel] in S. destruct H as [H|H].
  - rewrite H in S. discriminate.
  - destruct (step_of os =? 0); [discriminate|]. rewrite H in S. discriminate.
Qed.
Print Assumptions C03_slice_rejects.

(* 5. no spurious rejection: every slice that selects at least one bit is accepted *)
Theorem C03_slice_accepts w a b os : 0 <= w ->
  step_of os <> 0 -> py_indices w a b (step_of os) <> [] -> exists r, slice_inner w (Sl a b os) = Ok r.
Proof.
  intros Hw Hs Hne. pose proof (slice_inner_sel w (Sl a b os) Hw) as S.
  destruct (slice_inner w (Sl a b os)) as [r|e]; [eauto|].
  destruct S as [e' S]. cbn [sel] in S. assert (step_of os =? 0 = false) as E by lia. rewrite E in S.
  destruct (py_indices w a b (step_of os)); [congruence|discriminate].
Qed.
Print Assumptions C03_slice_accepts.

(* 6. no accepted index or slice selects a position outside its parent *)
Theorem C03_selected_in_range w ix r y : 0 <= w -> slice_inner w ix = Ok r -> In y (inner_bits r) -> 0 <= y < w.
Proof. exact (inner_bits_in_range w ix r y). Qed.
Print Assumptions C03_selected_in_range.

(* 7. Concat is list concatenation, first part lowest *)
Theorem C03_concat_append p ps :
  xbits (XConcat (p :: ps)) = (a <- xbits p ;; b <- xbits (XConcat ps) ;; Ok (a ++ b)).
Proof. reflexivity. Qed.
Print Assumptions C03_concat_append.

(* 8. the reported width is the number of selected bits, for every nesting of signals, slices and concats;
      width() fails exactly when the expression is ill-formed *)
Theorem C03_width_length x :
  match xbits x with
  | Ok l => xwidth x = Ok (zlen l)
  | Error _ => exists e, xwidth x = Error e
  end.
Proof. exact (xwidth_xbits x). Qed.
Print Assumptions C03_width_length.

(* 9. resolving down to Signals and unit-step signal-level Slices does not change the bit sequence,
      succeeds on every well-formed expression, fails on every ill-formed one, and every produced
      slice lies inside its signal *)
Theorem C03_resolve_preserves x :
  match xbits x with
  | Ok bs => exists l, list_flat x = Ok l /\ flats_bits l = bs /\ Forall (fun f => flat_wf f = true) l
  | Error _ => exists e, list_flat x = Error e
  end.
Proof. exact (list_flat_spec x). Qed.
Print Assumptions C03_resolve_preserves.

(* 10. no bit outside its signal *)
Theorem C03_no_bit_outside x bs id k : xbits x = Ok bs -> In (id, k) bs ->
  exists w, In (id, w) (leaves x) /\ 0 <= k < w.
Proof. intros H. exact (xbits_inside x bs H id k). Qed.
Print Assumptions C03_no_bit_outside.

(* non-vacuity: concrete, non-trivial instances of the hypotheses *)
Example C03_ex_stride : slice_inner 4 (Sl (Some 1) None (Some 2)) = Ok {| top := 4; bot := 1; step := 2; width := 2 |}
  /\ py_indices 4 (Some 1) None 2 = [1; 3].
Proof. split; reflexivity. Qed.
Example C03_ex_reverse : exists r, slice_inner 4 (Sl (Some 3) (Some 1) (Some (-1))) = Ok r /\ inner_bits r = [3; 2].
Proof. eexists. split; reflexivity. Qed.
Example C03_ex_nested :
  let x := XSlice (XConcat [XSig 0 3; XSlice (XSig 1 4) (Sl None None (Some (-1)))]) (Sl (Some 1) (Some 6) (Some 2)) in
  xbits x = Ok [(0%N, 1); (1%N, 3); (1%N, 1)] /\
  list_flat x = Ok [FSl 0 3 1 2; FSl 1 4 3 4; FSl 1 4 1 2].
Proof. split; reflexivity. Qed.
