(* Props/C03.v — Indexing and concatenation follow Python sequence semantics.
   Only statements, each closed by a lemma of Proofs/, followed by Print Assumptions. *)
Require Import Hdl21.Base.PyInt Hdl21.Spec.PySlice Hdl21.Model.Slice Hdl21.Model.Resolve
               Hdl21.Proofs.SliceProofs Hdl21.Proofs.ResolveProofs Hdl21.Model.C03Loop Hdl21.Proofs.C03LoopProofs.

(* 1. integer indices: -w <= i < w selects exactly bit i mod w, width 1 *)
Theorem C03_index_in_range w i : 0 <= w -> - w <= i < w ->
  exists r, slice_inner w (Idx i) = Ok r /\ inner_bits r = [i mod w] /\ width r = 1.
Proof.
  intros Hw Hi. pose proof (slice_inner_sel w (Idx i) Hw) as S.
  destruct (slice_inner w (Idx i)) as [r|e].
  - destruct S as [S [Hwid _]]. exists r. cbn [sel] in S.
    assert ((- w <=? i) && (i <? w) = true) as E by lia. rewrite E in S. inversion S as [S'].
    repeat split. rewrite Hwid, <- S'. reflexivity.
  - destruct S as [e' S]. cbn [sel] in S.
    assert ((- w <=? i) && (i <? w) = true) as E by lia. rewrite E in S. discriminate.
Qed.
Print Assumptions C03_index_in_range.

(* 2. any other integer index is rejected *)
Theorem C03_index_out_of_range w i : 0 <= w -> ~ (- w <= i < w) -> exists e, slice_inner w (Idx i) = Error e.
Proof.
  intros Hw Hi. unfold slice_inner. assert ((w <=? i) || (i <? - w) = true) as -> by lia. eauto.
Qed.
Print Assumptions C03_index_out_of_range.

(* 3. an accepted slice selects exactly Python's selection, in order; width = number of bits >= 1.
      Bounds beyond [-w, w] are covered by the same statement (accepted => Python's selection). *)
Theorem C03_slice_python w a b os r : 0 <= w -> slice_inner w (Sl a b os) = Ok r ->
  inner_bits r = py_indices w a b (step_of os) /\ width r = zlen (py_indices w a b (step_of os)) /\ 1 <= width r.
Proof.
  intros Hw H. pose proof (slice_inner_sel w (Sl a b os) Hw) as S. rewrite H in S.
  destruct S as [S [Hwid H1]]. cbn [sel] in S.
  destruct (step_of os =? 0); [discriminate|].
  destruct (py_indices w a b (step_of os)) eqn:E; [discriminate|]. inversion S as [S'].
  rewrite S'. repeat split; assumption.
Qed.
Print Assumptions C03_slice_python.

(* 4. zero steps and slices selecting no bit are rejected *)
Theorem C03_slice_rejects w a b os : 0 <= w ->
  step_of os = 0 \/ py_indices w a b (step_of os) = [] -> exists e, slice_inner w (Sl a b os) = Error e.
Proof.
  intros Hw H. pose proof (slice_inner_sel w (Sl a b os) Hw) as S.
  destruct (slice_inner w (Sl a b os)) as [r|e]; [|eauto].
  destruct S as [S _]. cbn [sel] in S. destruct H as [H|H].
  - rewrite H in S. discriminate.
  - destruct (step_of os =? 0); [discriminate|]. rewrite H in S. discriminate.
Qed.
Print Assumptions C03_slice_rejects.

(* 5. no spurious rejection: every slice that selects at least one bit is accepted *)
Theorem C03_slice_accepts w a b os : 0 <= w ->
  step_of os <> 0 -> py_indices w a b (step_of os) <> [] -> exists r, slice_inner w (Sl a b os) = Ok r.
Proof.
  intros Hw Hs Hne. pose proof (slice_inner_sel w (Sl a b os) Hw) as S.
  destruct (slice_inner w (Sl a b os)) as [r|e]; [eauto|].
  destruct S as [e' S]. cbn [sel] in S. assert (step_of os =? 0 = false) as E by lia. rewrite E in S.
  destruct (py_indices w a b (step_of os)); [congruence|discriminate].
Qed.
Print Assumptions C03_slice_accepts.

(* 6. no accepted index or slice selects a position outside its parent *)
Theorem C03_selected_in_range w ix r y : 0 <= w -> slice_inner w ix = Ok r -> In y (inner_bits r) -> 0 <= y < w.
Proof. exact (inner_bits_in_range w ix r y). Qed.
Print Assumptions C03_selected_in_range.

(* 7. Concat is list concatenation, first part lowest *)
Theorem C03_concat_append p ps :
  xbits (XConcat (p :: ps)) = (a <- xbits p ;; b <- xbits (XConcat ps) ;; Ok (a ++ b)).
Proof. reflexivity. Qed.
Print Assumptions C03_concat_append.

(* 8. the reported width is the number of selected bits, for every nesting of signals, slices and concats;
      width() fails exactly when the expression is ill-formed *)
Theorem C03_width_length x :
  match xbits x with
  | Ok l => xwidth x = Ok (zlen l)
  | Error _ => exists e, xwidth x = Error e
  end.
Proof. exact (xwidth_xbits x). Qed.
Print Assumptions C03_width_length.

(* 9. resolving down to Signals and unit-step signal-level Slices does not change the bit sequence,
      succeeds on every well-formed expression, fails on every ill-formed one, and every produced
      slice lies inside its signal *)
Theorem C03_resolve_preserves x :
  match xbits x with
  | Ok bs => exists l, list_flat x = Ok l /\ flats_bits l = bs /\ Forall (fun f => flat_wf f = true) l
  | Error _ => exists e, list_flat x = Error e
  end.
Proof. exact (list_flat_spec x). Qed.
Print Assumptions C03_resolve_preserves.

(* 10. no bit outside its signal *)
Theorem C03_no_bit_outside x bs id k : xbits x = Ok bs -> In (id, k) bs ->
  exists w, In (id, w) (leaves x) /\ 0 <= k < w.
Proof. intros H. exact (xbits_inside x bs H id k). Qed.
Print Assumptions C03_no_bit_outside.

(* ---- strengthening round: sources of port references that mention one another (Model/C03Loop.v) ---- *)

(* 11. the bit walker of ResolvePortRefs.untie_source_loops - through slices by the slice's index list, through
       concatenations by subtracting part widths - arrives, for EVERY index, at the element Python's selection has
       at that index (and fails exactly where Python's list has no such element) *)
Theorem C03_walk_python x bs idx : xbits x = Ok bs -> walk x idx = pick bs idx.
Proof. intros H. exact (walk_pick x bs H idx). Qed.
Print Assumptions C03_walk_python.

(* 12. followed across references, for every system of sources each of which is a valid expression, every bound on the
       number of references crossed and every starting bit: the walker ends where Python's selection ends *)
Theorem C03_loop_resolution e fuel a : env_ok e = true -> chase_model e fuel a = chase_spec e fuel a.
Proof. intros H. exact (chase_model_spec e H fuel a). Qed.
Print Assumptions C03_loop_resolution.

Theorem C03_loop_sources e fuel src : env_ok e = true -> src_ok src = true ->
  source_dests walk e fuel src = source_dests walk_spec e fuel src.
Proof. exact (source_dests_model_spec e fuel src). Qed.
Print Assumptions C03_loop_sources.

(* 13. a bit that arrives does so whatever larger bound is used, it arrives at a Signal (not at a reference), and
       inside that Signal: no bit outside its signal across references either *)
Theorem C03_loop_stable e fuel a b n : chase_model e fuel a = Ok (DBit b) -> chase_model e (fuel + n) a = Ok (DBit b).
Proof. intros H. exact (chase_stable walk e fuel a b H n). Qed.
Print Assumptions C03_loop_stable.

Theorem C03_loop_arrives_at_signal e fuel a b : chase_model e fuel a = Ok (DBit b) -> lookup e (fst b) = None.
Proof. exact (chase_arrives_signal walk e fuel a b). Qed.
Print Assumptions C03_loop_arrives_at_signal.

Theorem C03_loop_no_bit_outside e fuel a b : env_ok e = true -> chase_model e fuel a = Ok (DBit b) ->
  b = a \/ exists w, In (fst b, w) (concat (map (fun p => leaves (snd p)) e)) /\ 0 <= snd b < w.
Proof. intros He. exact (chase_inside e He fuel a b). Qed.
Print Assumptions C03_loop_no_bit_outside.

(* non-vacuity: concrete, non-trivial instances of the hypotheses *)
Example C03_ex_stride : slice_inner 4 (Sl (Some 1) None (Some 2)) = Ok {| top := 4; bot := 1; step := 2; width := 2 |}
  /\ py_indices 4 (Some 1) None 2 = [1; 3].
Proof. split; reflexivity. Qed.
Example C03_ex_reverse : exists r, slice_inner 4 (Sl (Some 3) (Some 1) (Some (-1))) = Ok r /\ inner_bits r = [3; 2].
Proof. eexists. split; reflexivity. Qed.
Example C03_ex_nested :
  let x := XSlice (XConcat [XSig 0 3; XSlice (XSig 1 4) (Sl None None (Some (-1)))]) (Sl (Some 1) (Some 6) (Some 2)) in
  xbits x = Ok [(0%N, 1); (1%N, 3); (1%N, 1)] /\
  list_flat x = Ok [FSl 0 3 1 2; FSl 1 4 3 4; FSl 1 4 1 2].
Proof. split; reflexivity. Qed.

(* i1.a = Concat(s[0], i2.a[1::-1]); i2.a = Concat(t[0:2], i1.a[0])   (s = 0, t = 1, i1.a = 101, i2.a = 102) *)
Example C03_ex_loop :
  let e := [(101%N, XConcat [XSlice (XSig 0 4) (Idx 0); XSlice (XSig 102 3) (Sl (Some 1) None (Some (-1)))]);
            (102%N, XConcat [XSlice (XSig 1 4) (Sl (Some 0) (Some 2) None); XSlice (XSig 101 3) (Idx 0)])] in
  env_ok e = true /\
  source_dests walk e 7 (XSig 101 3) = Ok [DBit (0%N, 0); DBit (1%N, 1); DBit (1%N, 0)] /\
  source_dests walk e 7 (XSig 102 3) = Ok [DBit (1%N, 0); DBit (1%N, 1); DBit (0%N, 0)].
Proof. repeat split; reflexivity. Qed.
(* bits that go round: i1.a = Concat(i2.a[0], s); i2.a = Concat(i1.a[0], s) *)
Example C03_ex_round :
  let e := [(101%N, XConcat [XSlice (XSig 102 2) (Idx 0); XSig 0 1]); (102%N, XConcat [XSlice (XSig 101 2) (Idx 0); XSig 0 1])] in
  source_dests walk e 5 (XSig 101 2) = Ok [DRound; DBit (0%N, 0)].
Proof. reflexivity. Qed.
