(* Props/C07.v — Elaboration results do not depend on elaboration history.

   The machine of Model/C07PassMgr.v runs ANY history of elaborate / to_proto / netlist calls (any tops, orders,
   groupings, repetitions), creation of new parents and add() attempts over ANY design DAG.  The theorems hold for EVERY
   pass body `body k m views c` that reads from the children of m only their views (read discipline) and obeys the two
   frame conditions (bundle-level io unchanged before the flattening entry, flattened io unchanged after it), for every
   pass list — also one that names a class twice, whose repeated entries share the class-level cache of the first and
   never run a body (`eff caches k`: entry k is not such a repeat) — in which the flattening and the marking entry are
   not repeats.  `reachable d st`: st is the state after some history from the fresh state
   of design d in which no add() was accepted (an accepted add() edits the design itself). *)
Require Import Hdl21.Base.PyInt Hdl21.Model.C07PassMgr Hdl21.Proofs.C07Proofs.
Require Import Hdl21.Model.C07FlatNames Hdl21.Proofs.C07FlatProofs.
Require Import Hdl21Gen.DefaultPasses.
Local Open Scope nat_scope.
Local Open Scope list_scope.

Section C07.
  Variables C IO FIO : Type.
  Variable init : mid -> C.
  Variable bio : C -> IO.
  Variable fio : C -> FIO.
  Variable body : nat -> mid -> list (view IO FIO) -> C -> C.
  Variable addc : nat -> C -> C.
  Variable caches : list nat.
  Variables bf mk : nat.
  Hypothesis bf_eff : eff caches bf = true.
  Hypothesis mk_eff : eff caches mk = true.
  Hypothesis frame_bundle : forall k m vs c, k < bf -> bio (body k m vs c) = bio c.
  Hypothesis frame_flat : forall k m vs c, bf < k -> fio (body k m vs c) = fio c.

  Notation P := (length caches).
  Notation state := (state C IO FIO).
  Notation step := (step C IO FIO bio fio body addc caches bf mk).
  Notation run := (run C IO FIO bio fio body addc caches bf mk).
  Notation fresh := (init_state C IO FIO init).
  Notation reachable := (reachable C IO FIO init bio fio body addc caches bf mk).
  Notation no_edits := (no_edits C).
  Notation canon := (canon C IO FIO init bio fio body caches bf).
  Notation cview := (cview C IO FIO init bio fio body caches bf).
  Notation view_of := (view_of C IO FIO bio fio bf).
  Notation LogOK := (LogOK IO FIO caches).
  Notation log_keys := (log_keys IO FIO).
  Notation Inv := (Inv C IO FIO init bio fio body caches bf mk).

  Ltac solve_hyps1 :=
    first [exact frame_bundle | exact frame_flat
          | lazymatch goal with |- eff _ _ = true => fail | |- _ => eassumption end | exact addc | exact 0].
  Ltac solve_eff := first [exact bf_eff | exact mk_eff].

  Lemma r_inv d st : wf_design d = true -> reachable d st -> Inv st.
  Proof.
    intros W R. eapply reachable_inv; try solve_hyps1; try solve_eff. apply wf_design_WF; exact W.
  Qed.

  (* 0. the quantifier: every history from the fresh state in which no add() is accepted ends in a reachable state *)
  Theorem C07_histories_reachable d h :
    no_edits (snd (run (fresh d) h)) -> reachable d (fst (run (fresh d) h)).
  Proof. apply run_reachable. constructor. Qed.

  (* 1. in any history each (pass entry, module) body runs at most once, after the same entry's body on every child
        and after every earlier entry's body on the module itself; recursion fuel is never exhausted *)
  Theorem C07_visit_once d st : wf_design d = true -> reachable d st ->
    LogOK (s_design st) (s_log st) /\ NoDup (log_keys (s_log st)) /\ s_err st = false /\
    (forall k m, In (k, m) (log_keys (s_log st)) -> k < P /\ eff caches k = true /\ m < length (s_design st)).
  Proof.
    intros W R. pose proof (r_inv d st W R) as I. split; [apply (i_log _ _ _ _ _ _ _ _ _ _ st I)|].
    split; [eapply LogOK_nodup; apply (i_log _ _ _ _ _ _ _ _ _ _ st I)|].
    split; [apply (i_err _ _ _ _ _ _ _ _ _ _ st I)|].
    intros k m Hin. apply (i_login _ _ _ _ _ _ _ _ _ _ st I) in Hin. destruct Hin as [Ek Hin].
    pose proof (i_le _ _ _ _ _ _ _ _ _ _ st I m). split; [lia|]. split; [exact Ek|].
    destruct (Nat.lt_ge_cases m (length (s_design st))) as [L|G]; [exact L|].
    rewrite (i_new _ _ _ _ _ _ _ _ _ _ st I m G) in Hin. lia.
  Qed.

  (* 2. what a pass body read from the children of its module is the canonical view — a function of the design, the
        entry and the child — and reading again in any later state returns the same values: they were final *)
  Theorem C07_reads_stable d st k m vs : wf_design d = true -> reachable d st -> In (k, m, vs) (s_log st) ->
    vs = map (cview (s_design st) k) (kids (s_design st) m) /\
    vs = map (view_of k st) (kids (s_design st) m).
  Proof.
    intros W R Hin. pose proof (r_inv d st W R) as I.
    pose proof (i_reads _ _ _ _ _ _ _ _ _ _ st I k m vs Hin) as E. split; [exact E|]. rewrite E. symmetry.
    eapply views_canonical; try solve_hyps1; try solve_eff.
    intros c Hc. apply in_log_keys in Hin. apply (i_login _ _ _ _ _ _ _ _ _ _ st I) in Hin. destruct Hin as [_ Hin].
    pose proof (i_kids _ _ _ _ _ _ _ _ _ _ st I m c Hc). lia.
  Qed.

  (* 3a. THE PROPERTY, on the observable: after ANY history, the package exported (or netlisted) for any tops is the
         package the same call produces in the fresh state of the design; it lists, dependencies first, the canonical
         content of every module below the tops *)
  Theorem C07_history_independent d st tops : wf_design d = true -> reachable d st ->
    all_below (length (s_design st)) tops = true ->
    snd (step st (Export tops)) = snd (step (fresh (s_design st)) (Export tops)) /\
    snd (step st (Netlist tops)) = snd (step (fresh (s_design st)) (Netlist tops)) /\
    snd (step st (Export tops)) =
      RPkg C (map (fun m => (m, canon (s_design st) P m)) (export_order (s_design st) tops)).
  Proof.
    intros W R A. pose proof (r_inv d st W R) as I.
    assert (WF' : WF (s_design st)) by apply (i_wf _ _ _ _ _ _ _ _ _ _ st I).
    assert (I0 : Inv (fresh (s_design st))) by (eapply inv_init; try solve_hyps1; try solve_eff).
    assert (G : forall s, Inv s -> s_design s = s_design st ->
              package C IO FIO (elab_call C IO FIO bio fio body caches bf mk tops s) tops =
              map (fun m => (m, canon (s_design st) P m)) (export_order (s_design st) tops)).
    { intros s Is Ds.
      edestruct elab_call_ok with (tops := tops) (st := s) as (I1 & D1 & S1 & _); try solve_hyps1; try solve_eff.
      { rewrite Ds. apply all_below_spec. exact A. }
      erewrite package_canonical; try solve_hyps1; try solve_eff.
      - rewrite D1, Ds. reflexivity.
      - intros t Ht. pose proof (S1 t Ht). pose proof (i_le _ _ _ _ _ _ _ _ _ _ _ I1 t). lia. }
    cbn [C07PassMgr.step]. cbn [s_design C07PassMgr.init_state]. rewrite A. cbn [snd].
    rewrite (G st I eq_refl). rewrite (G (fresh (s_design st)) I0 eq_refl). auto.
  Qed.

  (* 3b. THE PROPERTY, on the content: whatever happened before (h1: reachable st1), once a call reaches module m
         (m is, or is below, one of its tops), then after whatever happens next (reachable from there: st3) the content
         of m is the content computed by the single call elaborate([m]) in the fresh state of the design *)
  Theorem C07_content_history_independent d st1 o tops t m st3 :
    wf_design d = true -> reachable d st1 ->
    (o = Elaborate tops \/ o = Export tops \/ o = Netlist tops) ->
    all_below (length (s_design st1)) tops = true -> In t tops -> desc (s_design st1) t m ->
    reachable d st3 -> (forall x, s_stage (fst (step st1 o)) x <= s_stage st3 x) ->
    (forall x, x <= t -> kids (s_design st3) x = kids (s_design st1) x) ->
    length (s_design st1) <= length (s_design st3) ->
    s_content st3 m = s_content (fst (step (fresh (s_design st3)) (Elaborate [m]))) m /\
    s_content st3 m = canon (s_design st3) P m.
  Proof.
    intros W R1 Ho A Ht D R3 Mono K Len. pose proof (r_inv d st1 W R1) as I1. pose proof (r_inv d st3 W R3) as I3.
    assert (WF1 : WF (s_design st1)) by apply (i_wf _ _ _ _ _ _ _ _ _ _ st1 I1).
    assert (WF3 : WF (s_design st3)) by apply (i_wf _ _ _ _ _ _ _ _ _ _ st3 I3).
    edestruct call_completes with (st := st1) (tops := tops) (t := t) (x := m) as (_ & _ & S2); try solve_hyps1; try solve_eff.
    assert (E2 : s_stage (fst (step st1 o)) m = P).
    { destruct Ho as [->|[->| ->]]; cbn [C07PassMgr.step]; rewrite A; exact S2. }
    assert (E3 : s_stage st3 m = P).
    { pose proof (Mono m). pose proof (i_le _ _ _ _ _ _ _ _ _ _ st3 I3 m). lia. }
    assert (C3 : s_content st3 m = canon (s_design st3) P m).
    { rewrite (i_content _ _ _ _ _ _ _ _ _ _ st3 I3 m), E3. reflexivity. }
    split; [|exact C3]. rewrite C3.
    (* the fresh single-call history *)
    assert (Hm : m < length (s_design st3)).
    { pose proof (desc_below (s_design st1) t m WF1 D). pose proof (all_below_spec _ _ A t Ht). lia. }
    assert (A' : all_below (length (s_design st3)) [m] = true).
    { unfold all_below. simpl. rewrite andb_true_r. apply Nat.ltb_lt. exact Hm. }
    assert (I0 : Inv (fresh (s_design st3))) by (eapply inv_init; try solve_hyps1; try solve_eff).
    edestruct call_completes with (st := fresh (s_design st3)) (tops := [m]) (t := m) (x := m) as (I4 & D4 & S4);
      try solve_hyps1; try solve_eff; try (left; reflexivity); try apply desc_refl.
    cbn [C07PassMgr.step]. cbn [s_design C07PassMgr.init_state] in *. rewrite A'. cbn [fst].
    rewrite (i_content _ _ _ _ _ _ _ _ _ _ _ I4 m), S4, D4. reflexivity.
  Qed.

  (* the side conditions of 3b hold along every continuation: stages never decrease, existing modules keep their children *)
  Theorem C07_continuation d st h : wf_design d = true -> reachable d st -> no_edits (snd (run st h)) ->
    reachable d (fst (run st h)) /\ (forall x, s_stage st x <= s_stage (fst (run st h)) x) /\
    (forall x, x < length (s_design st) -> kids (s_design (fst (run st h))) x = kids (s_design st) x) /\
    length (s_design st) <= length (s_design (fst (run st h))).
  Proof.
    intros W R NE. pose proof (r_inv d st W R) as I. split; [apply run_reachable; assumption|].
    edestruct run_ok with (h := h) (st := st) as (_ & M & K & L); try solve_hyps1; try solve_eff.
    split; [assumption|]. split; assumption.
  Qed.

  (* 4. elaborating or exporting again changes nothing: after a call, any call whose tops are below the first call's
        tops returns the very same state (no body runs, no cache, content, snapshot or log entry changes) *)
  Theorem C07_idempotent d st tops tops' : wf_design d = true -> reachable d st ->
    all_below (length (s_design st)) tops = true ->
    (forall t', In t' tops' -> exists t, In t tops /\ desc (s_design st) t t') ->
    let st1 := fst (step st (Elaborate tops)) in
    fst (step st1 (Elaborate tops')) = st1 /\ fst (step st1 (Export tops')) = st1 /\ fst (step st1 (Netlist tops')) = st1.
  Proof.
    intros W R A H st1. pose proof (r_inv d st W R) as I.
    assert (WF' : WF (s_design st)) by apply (i_wf _ _ _ _ _ _ _ _ _ _ st I).
    assert (E1 : st1 = elab_call C IO FIO bio fio body caches bf mk tops st).
    { unfold st1. cbn [C07PassMgr.step]. rewrite A. reflexivity. }
    edestruct elab_call_ok with (tops := tops) (st := st) as (I1 & D1 & _ & _); try solve_hyps1; try solve_eff; [apply all_below_spec; exact A|].
    rewrite <- E1 in I1, D1.
    assert (S : forall t', In t' tops' -> s_stage st1 t' = P).
    { intros t' Ht'. destruct (H t' Ht') as [t [Ht D]]. rewrite E1.
      eapply call_completes with (t := t); try solve_hyps1; try solve_eff. }
    assert (A' : all_below (length (s_design st1)) tops' = true).
    { rewrite D1. unfold all_below. apply forallb_forall. intros t' Ht'. apply Nat.ltb_lt.
      destruct (H t' Ht') as [t [Ht D]]. pose proof (desc_below (s_design st) t t' WF' D).
      pose proof (all_below_spec _ _ A t Ht). lia. }
    assert (N : elab_call C IO FIO bio fio body caches bf mk tops' st1 = st1) by (eapply elab_call_noop; try solve_hyps1; try solve_eff).
    cbn [C07PassMgr.step]. rewrite A'. cbn [fst]. rewrite N. auto.
  Qed.

  (* 5. an elaborated module refuses further additions, in every continuation *)
  Theorem C07_elaborated_refuses_add d st1 o tops t m st3 a :
    wf_design d = true -> mk < P -> reachable d st1 ->
    (o = Elaborate tops \/ o = Export tops \/ o = Netlist tops) ->
    all_below (length (s_design st1)) tops = true -> In t tops -> desc (s_design st1) t m ->
    reachable d st3 -> (forall x, s_stage (fst (step st1 o)) x <= s_stage st3 x) ->
    step st3 (Add m a) = (st3, RRefused C).
  Proof.
    intros W Hmk R1 Ho A Ht D R3 Mono. pose proof (r_inv d st1 W R1) as I1. pose proof (r_inv d st3 W R3) as I3.
    edestruct call_completes with (st := st1) (tops := tops) (t := t) (x := m) as (_ & _ & S2); try solve_hyps1; try solve_eff.
    assert (E2 : s_stage (fst (step st1 o)) m = P).
    { destruct Ho as [->|[->| ->]]; cbn [C07PassMgr.step]; rewrite A; exact S2. }
    cbn [C07PassMgr.step]. rewrite (i_marked _ _ _ _ _ _ _ _ _ _ st3 I3 m).
    pose proof (Mono m). replace (mk <? s_stage st3 m) with true; [reflexivity|]. symmetry. apply Nat.ltb_lt. lia.
  Qed.

  (* 5b. ... and the refused attempt changes NOTHING, whatever the attribute (a new name, or a name the module already
         holds for an attribute of another kind): every continuation - exporting again, new parents of the module and
         their export - answers exactly what it answers without the attempt *)
  Theorem C07_refused_add_changes_nothing d st1 o tops t m st3 a h :
    wf_design d = true -> mk < P -> reachable d st1 ->
    (o = Elaborate tops \/ o = Export tops \/ o = Netlist tops) ->
    all_below (length (s_design st1)) tops = true -> In t tops -> desc (s_design st1) t m ->
    reachable d st3 -> (forall x, s_stage (fst (step st1 o)) x <= s_stage st3 x) ->
    run st3 (Add m a :: h) = (fst (run st3 h), RRefused C :: snd (run st3 h)).
  Proof.
    intros W Hmk R1 Ho A Ht D R3 Mono. cbn [C07PassMgr.run].
    rewrite (C07_elaborated_refuses_add d st1 o tops t m st3 a W Hmk R1 Ho A Ht D R3 Mono).
    destruct (run st3 h) as [st2 rs]. reflexivity.
  Qed.

  (* ... and a module no call has reached accepts them (so the refusal is not vacuous) *)
  Theorem C07_unelaborated_accepts_add d st m a : wf_design d = true -> reachable d st ->
    m < length (s_design st) -> s_stage st m = 0 -> snd (step st (Add m a)) = RAccepted C.
  Proof.
    intros W R Hm H0. pose proof (r_inv d st W R) as I. cbn [C07PassMgr.step].
    rewrite (i_marked _ _ _ _ _ _ _ _ _ _ st I m), H0.
    replace (mk <? 0) with false by (symmetry; apply Nat.ltb_ge; lia).
    replace (m <? length (s_design st)) with true by (symmetry; apply Nat.ltb_lt; exact Hm). reflexivity.
  Qed.

  (* 6. an already elaborated module can be instantiated by a NEW parent created after any history: every pass body of the
        new parent reads, of each child, its ORIGINAL bundle-level io (and, from the flattening entry on, its final
        flattened io), and the new parent exports exactly as in the fresh state of the extended design *)
  Theorem C07_new_parent_sees_bundle_io d st ks : wf_design d = true -> reachable d st ->
    all_below (length (s_design st)) ks = true ->
    let n := length (s_design st) in
    let st1 := fst (step st (NewParent ks)) in
    let st2 := fst (step st1 (Export [n])) in
    snd (step st (NewParent ks)) = RNew C n /\
    snd (step st1 (Export [n])) = snd (step (fresh (s_design st1)) (Export [n])) /\
    forall k, k < P -> eff caches k = true ->
      exists vs, In (k, n, vs) (s_log st2) /\ map (@v_mid IO FIO) vs = ks /\
                 forall v, In v vs -> v_bundle v = bio (init (v_mid v)) /\
                                     (v_flat v = None <-> k < bf).
  Proof.
    intros W R A n st1 st2.
    assert (N1 : snd (step st (NewParent ks)) = RNew C n) by (cbn [C07PassMgr.step]; rewrite A; reflexivity).
    split; [exact N1|].
    assert (R1 : reachable d st1).
    { unfold st1. constructor; [exact R|]. rewrite N1. discriminate. }
    assert (D1 : s_design st1 = s_design st ++ [ks]).
    { unfold st1. cbn [C07PassMgr.step]. rewrite A. reflexivity. }
    assert (A1 : all_below (length (s_design st1)) [n] = true).
    { rewrite D1, app_length. unfold all_below. simpl. rewrite andb_true_r. apply Nat.ltb_lt. unfold n. lia. }
    split; [apply (C07_history_independent d st1 [n] W R1 A1)|].
    intros k Hk Ek.
    assert (R2 : reachable d st2).
    { unfold st2. constructor; [exact R1|]. cbn [C07PassMgr.step]. rewrite A1. discriminate. }
    pose proof (r_inv d st1 W R1) as I1. pose proof (r_inv d st2 W R2) as I2.
    edestruct call_completes with (st := st1) (tops := [n]) (t := n) (x := n) as (_ & D2 & S2);
      try solve_hyps1; try solve_eff; try (left; reflexivity); try apply desc_refl.
    assert (E2 : st2 = elab_call C IO FIO bio fio body caches bf mk [n] st1).
    { unfold st2. cbn [C07PassMgr.step]. rewrite A1. reflexivity. }
    rewrite <- E2 in D2, S2.
    assert (Hin : In (k, n) (log_keys (s_log st2))).
    { apply (i_login _ _ _ _ _ _ _ _ _ _ st2 I2). rewrite S2. split; [exact Ek|exact Hk]. }
    apply in_log_exists in Hin. destruct Hin as [vs Hvs]. exists vs. split; [exact Hvs|].
    pose proof (i_reads _ _ _ _ _ _ _ _ _ _ st2 I2 k n vs Hvs) as E.
    assert (Kn : kids (s_design st2) n = ks).
    { rewrite D2, D1. unfold n. apply kids_app_new. }
    rewrite Kn in E. subst vs. split.
    - rewrite map_map. simpl. apply map_id.
    - intros v Hv. apply in_map_iff in Hv. destruct Hv as [c [<- _]]. simpl. split; [reflexivity|].
      destruct (bf <=? k) eqn:Eb; split; intros H; try reflexivity; try discriminate.
      + apply Nat.leb_le in Eb. lia.
      + apply Nat.leb_gt in Eb. exact Eb.
  Qed.
End C07.

Print Assumptions C07_histories_reachable.
Print Assumptions C07_visit_once.
Print Assumptions C07_reads_stable.
Print Assumptions C07_history_independent.
Print Assumptions C07_content_history_independent.
Print Assumptions C07_continuation.
Print Assumptions C07_idempotent.
Print Assumptions C07_elaborated_refuses_add.
Print Assumptions C07_refused_add_changes_nothing.
Print Assumptions C07_unelaborated_accepts_add.
Print Assumptions C07_new_parent_sees_bundle_io.

(* 7. the regenerated pass table has a flattening entry and, after it, a marking entry *)
Theorem C07_default_table : exists b m, default_bf = Some b /\ default_mk = Some m /\ b < m /\ m < length default_caches /\
  eff default_caches b = true /\ eff default_caches m = true.
Proof. vm_compute. do 2 eexists. repeat split; repeat constructor. Qed.
Print Assumptions C07_default_table.

(* ------------------------------------------------------------------------------------------------ non-vacuity
   A body that distinguishes everything it may read and satisfies the frame conditions: the content of a module is its
   origin and the trace of (entry, code of all views read); bundle-level io = the origin; flattened io = the trace up to
   the flattening entry. *)
Definition xentry := (nat * list (nat * nat * nat))%type.      (* entry, per view: child, its bundle io, size of its flat io + 1 *)
Definition xC := (nat * list xentry)%type.
Definition xinit (m : mid) : xC := (m, []).
Definition xbio (c : xC) : nat := fst c.
Definition xfio (b : nat) (c : xC) : list xentry := filter (fun e => fst e <=? b) (snd c).
Definition xcode (vs : list (view nat (list xentry))) : list (nat * nat * nat) :=
  map (fun v => (v_mid v, v_bundle v, match v_flat v with Some l => S (length l) | None => 0 end)) vs.
Definition xbody (k m : nat) (vs : list (view nat (list xentry))) (c : xC) : xC := (fst c, (k, xcode vs) :: snd c).
Definition xadd (a : nat) (c : xC) : xC := (fst c + 100 + a, snd c).

Lemma xframe_bundle b k m vs c : k < b -> xbio (xbody k m vs c) = xbio c.
Proof. reflexivity. Qed.
Lemma xframe_flat b k m vs c : b < k -> xfio b (xbody k m vs c) = xfio b c.
Proof. intros H. unfold xfio, xbody. simpl. replace (k <=? b) with false; [reflexivity|]. symmetry. apply Nat.leb_gt. exact H. Qed.

Definition xstep := step xC nat (list xentry) xbio (xfio 4) xbody xadd (seq 0 10) 4 9.
Definition xrun := run xC nat (list xentry) xbio (xfio 4) xbody xadd (seq 0 10) 4 9.
Definition xfresh := init_state xC nat (list xentry) xinit.
Definition xd : design := [[]; [0; 0]; [0; 1]; [2; 1]].

(* the hypotheses of every theorem above are satisfied by this instance *)
Example C07_ex_hypotheses :
  wf_design xd = true /\ eff (seq 0 10) 4 = true /\ eff (seq 0 10) 9 = true /\
  (forall k m vs c, k < 4 -> xbio (xbody k m vs c) = xbio c) /\
  (forall k m vs c, 4 < k -> xfio 4 (xbody k m vs c) = xfio 4 c).
Proof. split; [reflexivity|]. split; [reflexivity|]. split; [reflexivity|]. split; [exact (xframe_bundle 4)|exact (xframe_flat 4)]. Qed.

(* three very different histories end with the same package for module 3, the one of the fresh state; the contents
   differ from module to module and from entry to entry (the body is not constant) *)
Example C07_ex_histories :
  let h1 := [Export [0]; Netlist [1]; Elaborate [2; 0]; Export [3]] in
  let h2 := [Elaborate [1; 3]; Elaborate [0]; Export [3]] in
  let h3 := [Export [3]] in
  last (snd (xrun (xfresh xd) h1)) (RBad xC) = last (snd (xrun (xfresh xd) h3)) (RBad xC) /\
  last (snd (xrun (xfresh xd) h2)) (RBad xC) = last (snd (xrun (xfresh xd) h3)) (RBad xC) /\
  (exists p, last (snd (xrun (xfresh xd) h3)) (RBad xC) = RPkg xC p /\ map fst p = [0; 1; 2; 3] /\ NoDup (map snd p)) /\
  length (s_log (fst (xrun (xfresh xd) h1))) = 40 /\ length (s_log (fst (xrun (xfresh xd) h2))) = 40 /\
  s_err (fst (xrun (xfresh xd) h1)) = false.
Proof.
  vm_compute. split; [reflexivity|]. split; [reflexivity|]. split; [|auto].
  eexists. split; [reflexivity|]. split; [reflexivity|].
  repeat (constructor; [simpl; intuition discriminate|]). constructor.
Qed.

(* a new parent (module 4) of the elaborated modules 3 and 0; add() refused on the elaborated, accepted on the new one *)
Example C07_ex_new_parent_and_add :
  let h := [Export [3]; NewParent [3; 0]; Add 0 1; Add 3 2; Export [4]] in
  let h' := [NewParent [3; 0]; Export [4]] in
  map (fun r => match r with RRefused _ => 1 | RAccepted _ => 2 | RNew _ n => 10 + n | _ => 0 end) (snd (xrun (xfresh xd) h))
    = [0; 14; 1; 1; 0] /\
  last (snd (xrun (xfresh xd) h)) (RBad xC) = last (snd (xrun (xfresh xd) h')) (RBad xC) /\
  snd (xstep (fst (xrun (xfresh xd) h)) (Add 4 7)) = RRefused xC /\
  snd (xstep (fst (xrun (xfresh xd) [NewParent [3; 0]])) (Add 4 7)) = RAccepted xC.
Proof. vm_compute. repeat split. Qed.

(* a pass list that names two classes twice (the pinned default list: entries 7 and 8 repeat the classes of entries 3
   and 0): the theorems apply as they are; the repeated entries never log a visit *)
Definition ycaches : list nat := [0; 1; 2; 3; 4; 5; 6; 3; 0; 7].
Definition yrun := run xC nat (list xentry) xbio (xfio 4) xbody xadd ycaches 4 9.
Example C07_ex_repeated_classes :
  eff ycaches 4 = true /\ eff ycaches 9 = true /\ eff ycaches 7 = false /\ eff ycaches 8 = false /\
  let h1 := [Export [0]; Netlist [1]; Elaborate [2; 0]; Export [3]] in
  let h3 := [Export [3]] in
  last (snd (yrun (xfresh xd) h1)) (RBad xC) = last (snd (yrun (xfresh xd) h3)) (RBad xC) /\
  length (s_log (fst (yrun (xfresh xd) h1))) = 32 /\
  forallb (fun e => negb ((fst (fst e) =? 7) || (fst (fst e) =? 8))) (s_log (fst (yrun (xfresh xd) h1))) = true.
Proof. vm_compute. repeat split. Qed.


(* ================================================================================================ strengthening round
   The NAMES created and wired by the bundle-flattening pass (Model/C07FlatNames.v) as a concrete body of the machine:
   `fbody bf pre post` runs ANY bodies `pre` before and `post` after the flattening entry (constrained by the frame
   conditions only) and the flattening-names body at the flattening entry.  A parent's flattening body wires the instances
   of a child to the flat ports it READS from the child's flattened io (THE_CACHE.flat_bundle_ports); the theorems say
   that, whatever the history, these are the child's real ports in every later state — including the names that had to
   dodge other names of the child — and that re-deriving them from the child's bundle-level io is wrong. *)
From Coq Require Import String.
Section C07Flat.
  Variable init : mid -> cmod.
  Variables pre post : nat -> mid -> list (view cio cfl) -> cmod -> cmod.
  Variable addc : nat -> cmod -> cmod.
  Variable caches : list nat.
  Variables bf mk : nat.
  Hypothesis bf_eff : eff caches bf = true.
  Hypothesis mk_eff : eff caches mk = true.
  Hypothesis pre_frame : forall k m vs c, k < bf -> cbio (pre k m vs c) = cbio c.
  Hypothesis post_frame : forall k m vs c, bf < k -> cfio (post k m vs c) = cfio c.

  Notation body := (fbody bf pre post).
  Notation P := (List.length caches).
  Notation step := (step cmod cio cfl cbio cfio body addc caches bf mk).
  Notation fresh := (init_state cmod cio cfl init).
  Notation reachable := (reachable cmod cio cfl init cbio cfio body addc caches bf mk).
  Notation Inv := (Inv cmod cio cfl init cbio cfio body caches bf mk).

  (* 8. the machine's hypotheses hold for the flattening-names body inside any such pass list: every theorem of the
        section above applies to it *)
  Theorem C07_flat_frames :
    (forall k m vs c, k < bf -> cbio (body k m vs c) = cbio c) /\
    (forall k m vs c, bf < k -> cfio (body k m vs c) = cfio c).
  Proof. split; [apply fbody_frame_bundle; exact pre_frame|apply fbody_frame_flat; [exact pre_frame|exact post_frame]]. Qed.

  Theorem C07_flat_history_independent d st tops : wf_design d = true -> reachable d st ->
    all_below (List.length (s_design st)) tops = true ->
    snd (step st (Export tops)) = snd (step (fresh (s_design st)) (Export tops)).
  Proof.
    intros W R A. destruct C07_flat_frames as [F1 F2].
    apply (C07_history_independent cmod cio cfl init cbio cfio body addc caches bf mk bf_eff mk_eff F1 F2 d st tops W R A).
  Qed.

  (* 9. flatname always finds a name, not among the names to avoid (the recursion fuel is never exhausted) *)
  Theorem C07_flatname_total name avoid : exists n, flatname name avoid = Some n /\ ~ In n avoid.
  Proof. exact (flatname_total name avoid). Qed.

  (* 10. the flattening body keeps the namespace free of duplicates (flattened names dodge every name held), and every
         flat port its cache entries name is a port of the module *)
  Theorem C07_flat_names_fresh vs c : NoDup (c_ns c) ->
    NoDup (c_ns (flatten_body vs c)) /\ flat_ok (cfio (flatten_body vs c)).
  Proof. intros N. split; [apply flatten_ns_nodup; exact N|apply flatten_flat_ok]. Qed.

  (* 11. THE MECHANISM of seeded change C07-B: in any state reached by any history, for every flattening visit of a
         module m: the flat io it read of each child IS the child's flattened io in that (later) state, whose flat port
         names are ports of the child; hence every connection name the visit gave an instance of the child is a
         connection it had before or a REAL port of the child — whenever, and by whichever call, the child was flattened *)
  Theorem C07_flat_wires_real_ports d st m vs : wf_design d = true -> reachable d st -> In (bf, m, vs) (s_log st) ->
    forall ch, In ch (kids (s_design st) m) ->
      In (View ch (cbio (init ch)) (Some (cfio (s_content st ch)))) vs /\
      flat_ok (cfio (s_content st ch)) /\
      forall conns p, In p (snd (rewire_inst vs (ch, conns))) -> In p conns \/ In p (c_ports (s_content st ch)).
  Proof.
    intros W R Hin ch Hch. destruct C07_flat_frames as [F1 F2].
    assert (I : Inv st).
    { eapply reachable_inv; try exact F1; try exact F2; try exact bf_eff; try exact mk_eff; try exact addc; [|exact R].
      apply wf_design_WF; exact W. }
    destruct (C07_reads_stable cmod cio cfl init cbio cfio body addc caches bf mk bf_eff mk_eff F1 F2 d st bf m vs W R Hin) as [E1 E2].
    assert (Sm : bf < s_stage st m).
    { apply in_log_keys in Hin. apply (i_login _ _ _ _ _ _ _ _ _ _ st I) in Hin. lia. }
    assert (Sc : bf < s_stage st ch).
    { pose proof (i_kids _ _ _ _ _ _ _ _ _ _ st I m ch Hch). lia. }
    assert (FO : flat_ok (cfio (s_content st ch))).
    { rewrite (i_content _ _ _ _ _ _ _ _ _ _ st I ch).
      apply (canon_flat_ok bf pre post pre_frame post_frame init caches bf_eff); [apply (i_wf _ _ _ _ _ _ _ _ _ _ st I)|exact Sc]. }
    assert (Vch : In (View ch (cbio (init ch)) (Some (cfio (s_content st ch)))) vs).
    { rewrite E1. apply in_map_iff. exists ch. split; [|exact Hch].
      unfold cview, cv. rewrite Nat.leb_refl. f_equal. f_equal.
      rewrite (i_content _ _ _ _ _ _ _ _ _ _ st I ch). symmetry.
      apply (canon_fio cmod cio cfl init cbio cfio body addc caches bf mk F1 F2); [apply (i_wf _ _ _ _ _ _ _ _ _ _ st I)|exact Sc]. }
    split; [exact Vch|]. split; [exact FO|].
    intros conns p Hp. unfold rewire_inst in Hp. cbn [fst snd] in Hp.
    destruct (find_view ch vs) as [v|] eqn:Ef; [|left; exact Hp].
    apply find_view_in in Ef. destruct Ef as [Hv Mv].
    rewrite E2 in Hv. apply in_map_iff in Hv. destruct Hv as [c' [Ev Hc']].
    subst v. unfold view_of in Mv. cbn [v_mid] in Mv. subst c'.
    unfold view_of in Hp. cbn [v_flat] in Hp. rewrite Nat.leb_refl in Hp. cbn [fst snd cfio] in Hp.
    apply rewire_names in Hp. destruct Hp as [[Hp _]|[q [fm [path [Hq [Hfm Hpath]]]]]]; [left; exact Hp|right].
    apply (FO q fm path p); [exact Hfm|exact Hpath].
  Qed.
End C07Flat.

Print Assumptions C07_flat_frames.
Print Assumptions C07_flat_history_independent.
Print Assumptions C07_flatname_total.
Print Assumptions C07_flat_names_fresh.
Print Assumptions C07_flat_wires_real_ports.

Local Open Scope string_scope.
(* 12. the variant of seeded change C07-B is WRONG: re-deriving the flat port names of a child from its bundle-level io
       (`flatname([portname, path])`, nothing to avoid) wires a name that is not a port of the child and leaves a real
       flat port unconnected, as soon as a flattened name had to dodge a name of the child that its io does not show
       (here the internal signal b_x next to the bundle port b with member x) *)
Definition zleaf : cmod := CM ["b"; "b_x"; "q"] ["q"] [CB "b" true ["x"; "y"]] [] [].
Theorem C07_flat_rederive_refuted : exists leaf conns,
  let real := flatten_body [] leaf in
  (forall p, In p (rewire (c_flat real) conns) -> In p (c_ports real)) /\
  (exists p, In p (rewire (rederive (cbio leaf)) conns) /\ ~ In p (c_ports real)) /\
  (exists q, In q (c_ports real) /\ ~ In q (rewire (rederive (cbio leaf)) conns)).
Proof.
  exists zleaf, ["b"; "q"]. vm_compute. split; [|split].
  - intros p H. intuition.
  - exists "b_x". split; [auto|]. intros H. repeat (destruct H as [H|H]; [discriminate|]). exact H.
  - exists "b_x_". split; [auto|]. intros H. repeat (destruct H as [H|H]; [discriminate|]). exact H.
Qed.
Print Assumptions C07_flat_rederive_refuted.

(* non-vacuity: the flattening-names body on a child whose bundle port b {x, y, sub.z} meets a scalar PORT b_x and internal
   signals b_y, b_y_; a parent that connects the port bundle, an internal bundle and the scalar port *)
Definition zchild : cmod :=
  CM ["vss"; "b"; "b_x"; "b_y"; "b_y_"; "i"] ["vss"; "b_x"] [CB "b" true ["x"; "y"; "sub_z"]; CB "i" false ["x"; "y"; "sub_z"]] [] [].
Definition zparent : cmod :=
  CM ["vss"; "b"; "i"; "b_x"; "u0"; "u1"] ["vss"; "b_x"] [CB "b" true ["x"; "y"; "sub_z"]; CB "i" false ["x"; "y"; "sub_z"]]
     [(0, ["vss"; "b"; "b_x"]); (0, ["b_x"; "b"; "vss"])] [].
Definition zinit (m : mid) : cmod := nth m [zchild; zparent] cm_empty.
Definition zbody := fbody 4 (fun _ _ _ c => c) (fun _ _ _ c => c).
Definition zrun := run cmod cio cfl cbio cfio zbody (fun _ c => c) (seq 0 10) 4 9.
Definition zfresh := init_state cmod cio cfl zinit.

Example C07_ex_flat_dodged_names :
  let h1 := [Elaborate [0]; Export [1]] in
  let h2 := [Export [1]] in
  let h3 := [Netlist [0; 0]; Add 0 3; NewParent [0]; Elaborate [1; 0]; Export [1]] in
  last (snd (zrun (zfresh [[]; [0; 0]]) h1)) (RBad cmod) = last (snd (zrun (zfresh [[]; [0; 0]]) h2)) (RBad cmod) /\
  last (snd (zrun (zfresh [[]; [0; 0]]) h3)) (RBad cmod) = last (snd (zrun (zfresh [[]; [0; 0]]) h2)) (RBad cmod) /\
  (exists c0 c1, last (snd (zrun (zfresh [[]; [0; 0]]) h1)) (RBad cmod) = RPkg cmod [(0, c0); (1, c1)] /\
     c_ports c0 = ["vss"; "b_x"; "b_x_"; "b_y__"; "b_sub_z"] /\
     c_flat c0 = [("b", [("x", "b_x_"); ("y", "b_y__"); ("sub_z", "b_sub_z")])] /\
     c_insts c1 = [(0, ["vss"; "b_x_"; "b_y__"; "b_sub_z"; "b_x"]); (0, ["b_x"; "b_x_"; "b_y__"; "b_sub_z"; "vss"])] /\
     c_ports c1 = ["vss"; "b_x"; "b_x_"; "b_y"; "b_sub_z"] /\ NoDup (c_ns c0) /\ NoDup (c_ns c1)).
Proof.
  vm_compute. split; [reflexivity|]. split; [reflexivity|]. do 2 eexists. split; [reflexivity|].
  repeat (split; [reflexivity|]).
  split; repeat (constructor; [simpl; intuition discriminate|]); constructor.
Qed.
