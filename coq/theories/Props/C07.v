(* Props/C07.v — placeholder, replaced below *)
Require Import Hdl21.Base.PyInt Hdl21.Model.C07PassMgr.
