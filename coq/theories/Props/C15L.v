(* Props/C15L.v — "sized with the given values" for LITERAL sizes (property C15).
   A Literal is expression text.  Sky130 / GF180 rewrite it for unit scaling (scale_param); the
   specification (Spec/PdkSpec.v:lit_size_ok) asks that the given text stays ONE operand.
   Only statements, each closed by a lemma of Proofs/C15LitProofs.v, with Print Assumptions. *)
From Coq Require Import String Ascii.
Require Import Hdl21.Base.PyInt Hdl21.Spec.PdkSpec Hdl21.Model.PdkSelect Hdl21.Proofs.C15LitProofs.
Open Scope string_scope.

(* the walkers' scaling (model of the repaired scale_param) meets the specification for EVERY text *)
Theorem C15L_scaled_literal_meets_spec t v : scale (PLit t) = SOk v -> exists a, v = PLit a /\ lit_size_ok t a = true.
Proof. intros H. inversion H; subst. exists (grouped_scaled t). split; [reflexivity | apply grouped_lit_size_ok]. Qed.
Print Assumptions C15L_scaled_literal_meets_spec.

(* why the parenthesised form is right: for every text with balanced parentheses, the parenthesis
   opened before the text is closed right after it - the given expression is multiplied as a whole *)
Theorem C15L_grouped_form_encloses t : balanced t = true ->
  exists tail, grouped_scaled t = "(" ++ ("(" ++ t ++ ")" ++ tail) /\ tail = " * 1e6)" /\
               close_of ("(" ++ t ++ ")" ++ tail) = Some (S (String.length t)).
Proof. exact (grouped_encloses t). Qed.
Print Assumptions C15L_grouped_form_encloses.

Theorem C15L_close_after_balanced t rest : balanced t = true ->
  close_of ("(" ++ t ++ ")" ++ rest) = Some (S (String.length t)).
Proof. exact (close_after_balanced t rest). Qed.
Print Assumptions C15L_close_after_balanced.

(* the pinned code's bare form `(t * 1e6)`: for "a + b" the parenthesis opened before the text is closed
   only at the very end, after the multiplication (`a + b * 1e6`), and the specification rejects it *)
Theorem C15L_bare_form_refuted :
  exists t, balanced t = true /\ atomic t = false /\
            close_of (bare_scaled t) = Some (String.length (bare_scaled t) - 1)%nat /\
            lit_size_ok t (bare_scaled t) = false.
Proof. exact bare_form_refuted. Qed.
Print Assumptions C15L_bare_form_refuted.

Example C15L_ex_nonvacuous :
  balanced "(w0 + dw) * nf" = true /\ atomic "(w0 + dw) * nf" = false /\ atomic "w0" = true /\
  lit_size_ok "w0" (bare_scaled "w0") = true /\ lit_size_ok "(w0 + dw) * nf" "(((w0 + dw) * nf) * 1e6)" = true /\
  lit_size_ok "w0 + dw" "(w0 + dw * 1e6)" = false /\ balanced "a) + (b" = false.
Proof. vm_compute. repeat split; reflexivity. Qed.
