(* Props/C12E.v — C12 on the WHOLE pipeline model: the package does not depend on the order in which any hash-ordered set is
   visited.  Only statements, each closed by a lemma of Proofs/C12EProofs*.v, followed by Print Assumptions.

   Model/C12EOrdered.v re-states the pipeline of Model/C01FElab.v (ResolvePortRefs with group discovery `follow`, the choice of
   a group's source and of the port that names its implicit signal; ArrayFlattener; SliceResolver; the exporter) with an ORACLE
   `o : site -> list key -> list key` asked at every iteration over a `_connected_ports` set for the visiting order; `ord_ok o`
   (what it returns is a permutation of what it was given) is all that is known about it.  The site carries the full local
   state of the call, so the order may differ at every site and every call.
   The reconnect loops (resolve_portref / update_ref_deps: `for cp in list(ref._connected_ports): cp.inst.replace(..)`;
   replace_bundle_inst / resolve_bundleref: `for portref in list(b._connected_ports): replace_bundle_conn(..)`) enter the
   pipeline model by their NET EFFECT (rewrite_inst_g; Model/C01GBundlePasses.v:flat_xinst); that this effect - the ORDERED
   connection dict - is the same for every visiting order is Props/C12.v (C12_replace_keeps_order, C12_order_irrelevant,
   C12_order_irrelevant_module), proved on the statement-by-statement loop model Model/C12Order.v, and - for the VALUES written
   by resolve_portref / update_ref_deps - theorems 7 below (Model/C12EWrites.v).  PARTIAL: those loop theorems are not
   re-derived inside pipeline_o (see notes/C12E.md).

   NOT modelled (as in Props/C12.v): CPython's hash randomisation, id()-based hashing and the allocator themselves - they are the
   SOURCE of the different orders; every order they could produce is covered by the quantifier over oracles.  Sets that are
   only tested for membership or whose visiting order cannot reach the package are listed in notes/C12E.md (inventory). *)
Require Import Hdl21.Base.PyInt Hdl21.Spec.PySlice Hdl21.Model.Slice Hdl21.Model.Resolve Hdl21.Base.Design
               Hdl21.Spec.Nets Hdl21.Spec.WfDesign Hdl21.Base.Package Hdl21.Base.PrimTable Hdl21.Model.C01EElab Hdl21.Model.C01FElab
               Hdl21.Spec.PkgWf Hdl21.Spec.C01ENets Hdl21.Spec.C01FNets Hdl21.Proofs.FunGraph Hdl21.Proofs.C01EProofsSim Hdl21.Proofs.C01EProofsWfs Hdl21.Proofs.C01EProofsEnd Hdl21.Proofs.C01FProofsEnd
               Hdl21.Model.C12EOrdered Hdl21.Proofs.C12EProofsDfs Hdl21.Proofs.C12EProofsGroups Hdl21.Proofs.C12EProofsPlan
               Hdl21.Proofs.C12EProofsEnd.
Require Hdl21.Props.C01F.
Require Import Hdl21.Model.C12EWrites.
From Coq Require Import String Ascii Permutation.
Open Scope string_scope.
Open Scope list_scope.
Open Scope Z_scope.

(* 1. ORDER-FREE: for every two oracles and every valid design of the fragment (wf_design: Spec/WfDesign.v; frag_ok2: port
      references whole or nested in slices / concatenations, acyclic dependency between groups; xinfo_ok: the exporter's
      device table spells the design's devices) the two runs of the whole pipeline give the SAME RESULT: equal packages
      (every name, every order of signals, instances and connections), or the same error. *)
Theorem C12E_pipeline_order_free o1 o2 xi d :
  ord_ok o1 -> ord_ok o2 -> wf_design d = Ok tt -> frag_ok2 d = true -> xinfo_ok xi d = true ->
  pipeline_o o1 xi d = pipeline_o o2 xi d.
Proof. exact (pipeline_o_order_free o1 o2 xi d). Qed.
Print Assumptions C12E_pipeline_order_free.

(* 2. IS THE REFERENCE: ... and that result is the one of the fixed-order pipeline model the C01E / C01F / C06 end-to-end
      theorems are about. *)
Theorem C12E_is_reference o xi d :
  ord_ok o -> wf_design d = Ok tt -> frag_ok2 d = true -> xinfo_ok xi d = true ->
  pipeline_o o xi d = elab_export_model2 xi d.
Proof. exact (pipeline_o_is_reference o xi d). Qed.
Print Assumptions C12E_is_reference.

(* 3. hence the end-to-end connectivity theorem C01F_valid_nodes_partial holds for EVERY iteration order
      (_partial exactly as there: frag_ok2). *)
Theorem C12E_end_to_end_any_order_partial o xi d p :
  ord_ok o -> wf_design d = Ok tt -> frag_ok2 d = true -> xinfo_ok xi d = true -> pipeline_o o xi d = Ok p ->
  exists tn pd, top_name d = Ok tn /\ design_of_pkg prims_ext p tn = Ok pd /\
    (forall x, valid d x -> valid pd (term_map2 xi d x)) /\
    (forall x y, valid d x -> valid d y -> (same_net pd (term_map2 xi d x) (term_map2 xi d y) <-> same_net d x y)) /\
    (forall x dev, valid d x -> dev_at d x = Ok dev -> dev_at pd (term_map2 xi d x) = Ok dev).
Proof.
  intros Ho Hwf Hfr Hxi Hp. rewrite (pipeline_o_is_reference o xi d Ho Hwf Hfr Hxi) in Hp. exact (end_to_end2 xi d p Hwf Hfr Hxi Hp).
Qed.
Print Assumptions C12E_end_to_end_any_order_partial.

(* 4. ResolvePortRefs alone, module by module *)
Theorem C12E_portrefs_order_free o xi d :
  ord_ok o -> wf_design d = Ok tt -> frag_ok2 d = true -> xinfo_ok xi d = true ->
  portrefs2_design_o o xi d = portrefs2_design xi d.
Proof. exact (portrefs2_design_o_agrees o xi d). Qed.
Print Assumptions C12E_portrefs_order_free.

(* 5. GROUP DISCOVERY: whatever the oracle and the fuel, a traversal `follow` from scratch that ends has collected exactly the
      weak component of its seed in the graph "port -> the port its connection refers to", each port ONCE (no hypothesis on
      the module) ... *)
Theorem C12E_follow_collects_component o m fuel q L :
  ord_ok o -> follow_o o m fuel q [] = Some L -> NoDup L /\ forall k, In k L <-> conn key (nxt m) q k.
Proof. intros Ho H. exact (follow_component o m Ho fuel q L H). Qed.
Print Assumptions C12E_follow_collects_component.

(* ... so two traversals differ by a permutation only ... *)
Theorem C12E_follow_order_is_a_permutation o1 o2 m f1 f2 q L1 L2 :
  ord_ok o1 -> ord_ok o2 -> follow_o o1 m f1 q [] = Some L1 -> follow_o o2 m f2 q [] = Some L2 -> Permutation L1 L2.
Proof. exact (follow_o_perm o1 o2 m f1 f2 q L1 L2). Qed.
Print Assumptions C12E_follow_order_is_a_permutation.

(* ... and in a valid module it always ends within the model's fuel. *)
Theorem C12E_follow_total o d km m keys q :
  ord_ok o -> wf_module d km m = Ok tt -> all_keys d m = Ok keys -> In q keys ->
  exists L, discover_group o m keys q = Ok L /\ NoDup L /\ forall k, In k L <-> conn key (nxt m) q k.
Proof. intros Ho Hwm Hk Hq. exact (discover_group_ok o d km m Ho Hwm keys Hk q Hq). Qed.
Print Assumptions C12E_follow_total.

(* 6. THE GROUP'S SOURCE AND THE NAME OF ITS IMPLICIT SIGNAL are functions of the group as a SET: computed from any two
      duplicate-free enumerations of one group (handle_group: the declared sources met, the unconnected ports,
      sorted(candidates, key=(inst.name, portname))[0]) they are equal - to Model/C01EElab.v:group_res. *)
Theorem C12E_group_result_order_free d km m keys g L1 L2 :
  wf_module d km m = Ok tt -> all_keys d m = Ok keys -> In g keys -> gid m keys g = Some g ->
  is_comp m L1 g -> is_comp m L2 g -> group_res_o m keys g L1 = group_res_o m keys g L2.
Proof. exact (group_res_o_order_free d km m keys g L1 L2). Qed.
Print Assumptions C12E_group_result_order_free.

Theorem C12E_group_result_is_reference d km m keys g L :
  wf_module d km m = Ok tt -> all_keys d m = Ok keys -> In g keys -> gid m keys g = Some g -> is_comp m L g ->
  group_res_o m keys g L = group_res m keys g.
Proof. intros Hwm Hk. exact (group_res_o_eq d km m keys Hwm Hk g L). Qed.
Print Assumptions C12E_group_result_is_reference.

(* sorted(..)[0] under the repaired key is a function of the set of candidates *)
Theorem C12E_first_min_of_set x1 t1 x2 t2 : (forall k, In k (x1 :: t1) <-> In k (x2 :: t2)) -> first_min x1 t1 = first_min x2 t2.
Proof. exact (first_min_same x1 t1 x2 t2). Qed.
Print Assumptions C12E_first_min_of_set.

(* ---- non-vacuity *)
(* two oracles that only permute, and differ: as given / reversed at every site *)
Definition ord_rev : orders := fun _ l => rev l.
Example C12E_ex_oracles : ord_ok ord_id /\ ord_ok ord_rev.
Proof. split; intros s l; [apply Permutation_refl|apply Permutation_sym, Permutation_rev]. Qed.

(* an oracle whose order depends on the site: reversed only while the group under construction has an even number of ports *)
Definition ord_mix : orders := fun s l => match s with SFollow _ _ g => if Nat.even (Datatypes.length g) then rev l else l | _ => l end.
Example C12E_ex_mix : ord_ok ord_mix.
Proof. intros s l. destruct s; try apply Permutation_refl. cbn. destruct (Nat.even _); [apply Permutation_sym, Permutation_rev|apply Permutation_refl]. Qed.

(* the C12 corpus witness: b.z = c.w, c.w = b.z (a ring), a.p = a.q = a.r = b.z *)
Definition res1 : target := TDev "vlsir.primitives/resistor{r=pre:UNIT:i1;}" [("p", 1); ("n", 1)].
Definition ex_ring : design :=
  {| d_mods := [{| m_name := "A3"; m_ports := [("p", 1); ("q", 1); ("r", 1)]; m_sigs := [];
                   m_insts := [{| i_name := "r0"; i_n := 0; i_of := res1; i_conns := [("p", XSig 0%N 1); ("n", XSig 1%N 1)] |};
                               {| i_name := "r1"; i_n := 0; i_of := res1; i_conns := [("p", XSig 1%N 1); ("n", XSig 2%N 1)] |}];
                   m_leaves := [(0%N, LSig "p"); (1%N, LSig "q"); (2%N, LSig "r")] |};
                {| m_name := "B1"; m_ports := [("z", 1)]; m_sigs := [];
                   m_insts := [{| i_name := "r0"; i_n := 0; i_of := res1; i_conns := [("p", XSig 0%N 1); ("n", XSig 0%N 1)] |}];
                   m_leaves := [(0%N, LSig "z")] |};
                {| m_name := "C1"; m_ports := [("w", 1)]; m_sigs := [];
                   m_insts := [{| i_name := "r0"; i_n := 0; i_of := res1; i_conns := [("p", XSig 0%N 1); ("n", XSig 0%N 1)] |}];
                   m_leaves := [(0%N, LSig "w")] |};
                {| m_name := "Top"; m_ports := []; m_sigs := [];
                   m_insts := [{| i_name := "b"; i_n := 0; i_of := TMod 1%nat; i_conns := [("z", XSig 1%N 1)] |};
                               {| i_name := "c"; i_n := 0; i_of := TMod 2%nat; i_conns := [("w", XSig 0%N 1)] |};
                               {| i_name := "a"; i_n := 0; i_of := TMod 0%nat;
                                  i_conns := [("r", XSig 0%N 1); ("q", XSig 0%N 1); ("p", XSig 0%N 1)] |}];
                   m_leaves := [(0%N, LRef "b" "z"); (1%N, LRef "c" "w")] |}];
     d_top := 3%nat |}.
Definition ex_ring_xinfo : xinfo :=
  {| x_devs := [("vlsir.primitives/resistor{r=pre:UNIT:i1;}", {| dv_dom := "vlsir.primitives"; dv_name := "resistor"; dv_params := [("r", "pre:UNIT:i1")]; dv_ext := None |})];
     x_ncnames := []; x_dirs := [] |}.
Definition ex_ring_top : module := nth 3 (d_mods ex_ring) {| m_name := ""; m_ports := []; m_sigs := []; m_insts := []; m_leaves := [] |}.

Example C12E_ex_hypotheses : wf_design ex_ring = Ok tt /\ frag_ok2 ex_ring = true /\ xinfo_ok ex_ring_xinfo ex_ring = true /\
  wf_design C01F.ex2_design = Ok tt /\ frag_ok2 C01F.ex2_design = true /\ xinfo_ok C01F.ex2_xinfo C01F.ex2_design = true.
Proof. vm_compute. repeat split. Qed.

(* the oracle REACHES the group: the three traversals collect the five ports in three different orders ... *)
Example C12E_ex_orders_differ :
  follow_o ord_id ex_ring_top 9 ("b", "z") [] = Some [("b", "z"); ("c", "w"); ("a", "r"); ("a", "q"); ("a", "p")] /\
  follow_o ord_rev ex_ring_top 9 ("b", "z") [] = Some [("b", "z"); ("c", "w"); ("a", "p"); ("a", "q"); ("a", "r")] /\
  follow_o ord_mix ex_ring_top 9 ("a", "q") [] = Some [("a", "q"); ("b", "z"); ("c", "w"); ("a", "r"); ("a", "p")].
Proof. vm_compute. repeat split. Qed.

(* ... the package is the same, with the implicit signal named after the least (instance, port): a_p *)
Example C12E_ex_ring_same_package : exists p top,
  pipeline_o ord_id ex_ring_xinfo ex_ring = Ok p /\ pipeline_o ord_rev ex_ring_xinfo ex_ring = Ok p /\
  pipeline_o ord_mix ex_ring_xinfo ex_ring = Ok p /\ elab_export_model2 ex_ring_xinfo ex_ring = Ok p /\
  nth_error (pk_mods p) 3 = Some top /\ pm_sigs top = [("a_p", 1)] /\
  map pi_conns (pm_insts top) = [[("z", PSig "a_p")]; [("w", PSig "a_p")]; [("r", PSig "a_p"); ("q", PSig "a_p"); ("p", PSig "a_p")]].
Proof. vm_compute. eexists. eexists. repeat split. Qed.

(* the example of Props/C01F.v (a chain of groups, a ring, nested references, an array) under the three oracles *)
Example C12E_ex_c01f_same_package : exists p,
  pipeline_o ord_id C01F.ex2_xinfo C01F.ex2_design = Ok p /\ pipeline_o ord_rev C01F.ex2_xinfo C01F.ex2_design = Ok p /\
  pipeline_o ord_mix C01F.ex2_xinfo C01F.ex2_design = Ok p /\ elab_export_model2 C01F.ex2_xinfo C01F.ex2_design = Ok p.
Proof. vm_compute. eexists. repeat split. Qed.

(* 7. THE RECONNECT LOOPS AS SEQUENCES OF WRITES (Model/C12EWrites.v): resolve_portref's `pref.inst.connect(portname, source)`
      and update_ref_deps's `for cp in list(ref._connected_ports): cp.inst.replace(cp.portname, resolved)` are writes
      `conns[port] = value` to an instance's ordered dict (in place when the port is connected, a new entry at the end when not).
      ANY sequence of writes in which every port always receives the same value (its group's source: `consistent`) has a closed
      form that mentions the sequence only through the SET of ports written and the order in which NEW ports are FIRST written ... *)
Theorem C12E_writes_closed_form (V : Type) (f : string -> V) ws c :
  consistent V f ws -> NoDup (map fst c) -> apply_writes V ws c = written_form V f (map fst ws) c.
Proof. exact (apply_writes_closed V f ws c). Qed.
Print Assumptions C12E_writes_closed_form.

(* ... so two runs of the loops in two visiting orders (same ports written, same values; new ports - at most the one unconnected
      owner per group and instance, groups in seed order - first written in the same order) leave the SAME ORDERED dict.
      PARTIAL with respect to pipeline_o: that rewrite_inst_g IS this closed form for the write sequence the code produces is
      argued in notes/C12E.md, not proved. *)
Theorem C12E_resolve_writes_order_free (V : Type) (f : string -> V) ws1 ws2 c :
  consistent V f ws1 -> consistent V f ws2 -> NoDup (map fst c) ->
  (forall k, In k (map fst ws1) <-> In k (map fst ws2)) ->
  new_keys (map fst ws1) (map fst c) = new_keys (map fst ws2) (map fst c) ->
  apply_writes V ws1 c = apply_writes V ws2 c.
Proof. exact (apply_writes_order_free V f ws1 ws2 c). Qed.
Print Assumptions C12E_resolve_writes_order_free.

(* instance `a` of ex_ring (r, q, p all rewritten to the source, here 7) in two visiting orders, one with a repeated write;
   and an instance whose unconnected port z is the owner of a group: the new entry goes to the end *)
Example C12E_ex_writes :
  apply_writes nat [("p", 7%nat); ("q", 7%nat); ("r", 7%nat)] [("r", 0%nat); ("q", 1%nat); ("p", 2%nat)] =
  apply_writes nat [("r", 7%nat); ("p", 7%nat); ("q", 7%nat); ("p", 7%nat)] [("r", 0%nat); ("q", 1%nat); ("p", 2%nat)] /\
  apply_writes nat [("z", 5%nat); ("w", 7%nat); ("z", 5%nat)] [("w", 0%nat); ("v", 1%nat)] = [("w", 7%nat); ("v", 1%nat); ("z", 5%nat)] /\
  apply_writes nat [("w", 7%nat); ("z", 5%nat)] [("w", 0%nat); ("v", 1%nat)] = [("w", 7%nat); ("v", 1%nat); ("z", 5%nat)].
Proof. vm_compute. repeat split. Qed.
