(* Props/C05M.v — C05 over the Module as the code holds it: the namespace AND the per-type containers (Model/C05Module.v).

   Props/C05.v is stated over Module.namespace, the only thing flatname reads.  `Module._add`, however, decides what to delete
   by looking at the per-type containers.  These theorems close that gap: for EVERY history of the repaired code's steps
   (whole pops `popitem(); namespace.pop(name)` and inventions) from ANY Module whose two views agree, the views keep
   agreeing, the history's effect on the namespace is exactly the history of Model/C05Naming.v (so every theorem of
   Props/C05.v speaks about the containers too), and no attribute held by a container is deleted or replaced by an insertion.
   For the Instance Bundle pass this is stated for every list of pending Instance Bundles in every order.  The same pass with
   the namespace pops hoisted in front of the loop (seeded change C05r3-A) is refuted with a witness that is replayed on the
   implementation (corpus stream). *)
From Coq Require Import String Ascii.
Require Import Hdl21.Base.PyInt Hdl21.Spec.BundleSpec Hdl21.Model.BundleFlat Hdl21.Proofs.BundleProofs
               Hdl21.Model.C05Naming Hdl21.Proofs.C05Proofs Hdl21.Model.C05Module Hdl21.Proofs.C05ModuleProofs.
Require Import Hdl21Gen.C10Tables.
Open Scope string_scope.
Open Scope list_scope.
Open Scope Z_scope.

(* 0. why the containers matter: `_add` takes the name in BOTH views whatever held it - an object of another kind is deleted
      from its container, one of the same kind is replaced; nothing in `_add` looks at whether the namespace knew the name *)
Theorem C05M_add_takes_the_name k n o m :
  lookup k (m_ctr (m_add n o m)) = (if String.eqb n k then Some o else lookup k (m_ctr m)) /\
  lookup k (m_ns (m_add n o m)) = (if String.eqb n k then Some o else lookup k (m_ns m)).
Proof. split; [exact (m_add_ctr k n o m)|exact (m_add_ns k n o m)]. Qed.
Print Assumptions C05M_add_takes_the_name.

(* 1. one invention in a Module whose views agree: the name is free in the namespace AND in every container, and the
      insertion appends to both views - nothing is deleted, nothing replaced *)
Theorem C05M_invent_appends m s o m' inv : magree m -> mstep m (MInvent s o) = Ok (m', inv) ->
  exists n, inv = [n] /\ lookup n (m_ns m) = None /\ lookup n (m_ctr m) = None /\
            m_ns m' = m_ns m ++ [(n, o)] /\ m_ctr m' = m_ctr m ++ [(n, o)].
Proof.
  intros Ag H. destruct (mstep_invent _ _ _ _ _ Ag H) as [n [_ [-> [F [C ->]]]]]. exists n. cbn [m_ns m_ctr]. auto.
Qed.
Print Assumptions C05M_invent_appends.

(* 2. every history of whole pops and inventions keeps the two views equal ... *)
Theorem C05M_views_agree ops m m' inv : forallb whole ops = true -> magree m -> mrun m ops = Ok (m', inv) -> magree m'.
Proof. intros W Ag H. exact (proj1 (mrun_refines ops W m m' inv Ag H)). Qed.
Print Assumptions C05M_views_agree.

(* 3. ... and is, on the namespace, exactly the namespace-only history: Model/C05Naming.v loses nothing by forgetting
      the containers, every theorem of Props/C05.v applies to `m_ns m'`, and by 2. to the containers *)
Theorem C05M_refines_namespace_model ops m m' inv : forallb whole ops = true -> magree m -> mrun m ops = Ok (m', inv) ->
  run (m_ns m) (erase ops) = Ok (m_ns m', inv).
Proof. intros W Ag H. exact (proj2 (mrun_refines ops W m m' inv Ag H)). Qed.
Print Assumptions C05M_refines_namespace_model.

(* 4. no attribute is deleted or replaced: whatever a container held at the start under a name that no pass popped on
      purpose, it still holds at the end - and the namespace says the same *)
Theorem C05M_held_kept ops m m' inv k v : forallb whole ops = true -> magree m -> mrun m ops = Ok (m', inv) ->
  lookup k (m_ctr m) = Some v -> ~ In k (popped (erase ops)) ->
  lookup k (m_ctr m') = Some v /\ lookup k (m_ns m') = Some v /\ forall n, In n inv -> n <> k.
Proof.
  intros W Ag H Hk Hp. destruct (mrun_refines ops W m m' inv Ag H) as [[_ A'] R]. destruct Ag as [_ A].
  rewrite <- A in Hk. pose proof (run_extends_only _ _ _ _ R k v Hk Hp) as K.
  split; [rewrite <- A'; exact K|]. split; [exact K|].
  intros n Hn ->. apply Hp. eapply run_invented_new; eassumption.
Qed.
Print Assumptions C05M_held_kept.

(* 5. the Instance Bundle pass, for EVERY list of pending Instance Bundles in EVERY order popitem may yield them:
      (a) every other attribute of the Module survives the whole pass in both views;
      (b) an Instance Bundle whose turn has not come yet is still held, in its container and in the namespace, when its
          turn comes - whatever names were invented for the bundles before it (e.g. `d_p` pending while `d` is replaced). *)
Theorem C05M_instbundle_pass bs id0 m m' inv : magree m -> mrun m (instbundle_pass bs id0) = Ok (m', inv) ->
  magree m' /\
  forall k v, lookup k (m_ctr m) = Some v -> ~ In k (map fst bs) ->
              lookup k (m_ctr m') = Some v /\ lookup k (m_ns m') = Some v /\ forall n, In n inv -> n <> k.
Proof.
  intros Ag H. split; [exact (C05M_views_agree _ _ _ _ (whole_instbundle_pass bs id0) Ag H)|].
  intros k v Hk Hn. apply (C05M_held_kept _ _ _ _ k v (whole_instbundle_pass bs id0) Ag H Hk).
  rewrite popped_instbundle_pass. exact Hn.
Qed.
Print Assumptions C05M_instbundle_pass.

Theorem C05M_pending_instbundle_survives pre ib ms post id0 m m' inv v :
  magree m -> mrun m (instbundle_pass (pre ++ (ib, ms) :: post) id0) = Ok (m', inv) ->
  lookup ib (m_ctr m) = Some v -> ~ In ib (map fst pre) ->
  exists m1 i1, mrun m (instbundle_pass pre id0) = Ok (m1, i1) /\ magree m1 /\
                lookup ib (m_ctr m1) = Some v /\ lookup ib (m_ns m1) = Some v /\ forall n, In n i1 -> n <> ib.
Proof.
  intros Ag H Hk Hn. destruct (instbundle_pass_app pre ((ib, ms) :: post) id0) as [id1 E]. rewrite E in H.
  apply mrun_app in H. destruct H as [m1 [i1 [i2 [Ha [_ _]]]]]. exists m1, i1. split; [exact Ha|].
  destruct (C05M_instbundle_pass pre id0 m m1 i1 Ag Ha) as [Ag1 K]. split; [exact Ag1|]. exact (K ib v Hk Hn).
Qed.
Print Assumptions C05M_pending_instbundle_survives.

(* 6. the same pass with `namespace.pop(name)` of ALL Instance Bundles hoisted in front of the loop (seeded change C05r3-A)
      does NOT have the property: with Instance Bundles `d_p` and `d` (members p, n), `d` replaced first, the member name
      `d_p` is free in the namespace although module.instbundles still holds the designer's `d_p`; `_add` then deletes that
      Instance Bundle.  Every single naming call still hands avoid=module.namespace to flatname. *)
Definition hoist_m : modst :=
  let l := [("x1", {| o_kind := KSig; o_id := 1 |}); ("d_p", {| o_kind := KPair; o_id := 2 |}); ("d", {| o_kind := KPair; o_id := 3 |})] in
  {| m_ns := l; m_ctr := l |}.
Definition hoist_bs : list (name * list name) := [("d", ["p"; "n"]); ("d_p", ["p"; "n"])].      (* popitem is LIFO *)

Theorem C05M_hoisted_pop_refuted : exists m' inv,
  magree hoist_m /\ mrun hoist_m (instbundle_pass_hoisted (map fst hoist_bs) [("d", ["p"; "n"])] 10) = Ok (m', inv) /\
  lookup "d_p" (m_ctr hoist_m) = Some {| o_kind := KPair; o_id := 2 |} /\
  In "d_p" inv /\ lookup "d_p" (m_ctr m') = Some {| o_kind := KInst; o_id := 10 |} /\
  (forall k, lookup k (m_ctr m') <> Some {| o_kind := KPair; o_id := 2 |}) /\
  (forall k, okind_eqb (o_kind (snd k)) KPair = true -> ~ In k (m_ctr m')).     (* module.instbundles is empty: the loop ends here *)
Proof.
  eexists. eexists. split.
  { split; [apply snodup_NoDup; vm_compute; reflexivity|intros k; reflexivity]. }
  split; [vm_compute; reflexivity|]. split; [reflexivity|]. split; [cbn; tauto|]. split; [reflexivity|]. split.
  - intros k. cbn [m_ctr lookup].
    repeat (match goal with |- context [String.eqb ?a k] => destruct (String.eqb a k) end; try discriminate).
  - intros k Hk Hin. cbn [m_ctr In] in Hin.
    repeat (destruct Hin as [<-|Hin]; [cbn in Hk; discriminate|]). exact Hin.
Qed.
Print Assumptions C05M_hoisted_pop_refuted.

(* ... and the repaired pass on the same Module: `d` dodges the pending `d_p`, which is replaced afterwards *)
Example C05M_repaired_same_module :
  match mrun hoist_m (instbundle_pass hoist_bs 10) with
  | Ok (m', inv) => inv = ["d_p_"; "d_n"; "d_p_p"; "d_p_n"] /\ keys (m_ctr m') = ["x1"; "d_p_"; "d_n"; "d_p_p"; "d_p_n"] /\ m_ns m' = m_ctr m'
  | Error _ => False
  end.
Proof. vm_compute. repeat split. Qed.

(* non-vacuity of the hypotheses: an adversarial Module (views equal) and a history over three kinds of dissolved objects *)
Definition adv_ns_m : ns :=
  [("arr_0", {| o_kind := KInst; o_id := 3 |}); ("arr", {| o_kind := KArr; o_id := 7 |}); ("b_x", {| o_kind := KSig; o_id := 5 |});
   ("b", {| o_kind := KBun; o_id := 8 |}); ("pr_p", {| o_kind := KInst; o_id := 6 |}); ("pr", {| o_kind := KPair; o_id := 9 |})].
Definition adv_mops : list mop :=
  map (m_of_op KPair) (pair_ops "pr" ["p"; "n"] 20) ++ map (m_of_op KBun) (bundle_ops "b" false [["x"]; ["y"]] 40) ++
  map (m_of_op KArr) (array_ops "arr" 2 50).

Example C05M_hypotheses_satisfiable :
  let m := {| m_ns := adv_ns_m; m_ctr := adv_ns_m |} in
  magree m /\ forallb whole adv_mops = true /\ is_ok (mrun m adv_mops) = true.
Proof.
  split; [split; [apply snodup_NoDup; vm_compute; reflexivity|intros k; reflexivity]|]. split; vm_compute; reflexivity.
Qed.
