(* Props/C14X.v — C14, extension C14X: what Props/C14.v left trusted or unproved.
   Only statements, each closed by `exact` / `apply` of a lemma of Proofs/C14X*Proofs.v, followed by Print Assumptions; then
   non-vacuity Examples and the `_refuted` witnesses.

   Vocabulary added (Model/C14XModel.v):
     round_dec : dec -> dbl             the concrete float(Decimal) (Model/C17Float.v): one Euclidean division, half-even, +-inf beyond the range;
     pfloat_c p = pfloat round_dec p    float(Prefixed), with the Section variable `rnd` of Props/C14.v replaced by round_dec;
     val_num m e / val_den m e          the value m*10^e as a fraction a / b, b > 0;
     dist_units m e neg M E             | m*10^e - (+-M)*2^E | * b * 2^1076          (an integer: distances are compared exactly);
     half_ulp_units m e E               2^(E-1) * b * 2^1076;   overflow_units m e = (2^1024 - 2^970) * b * 2^1076;
     canonical M E (Spec/SimSpec.v)     M*2^E is a binary64 value in its unique normal / subnormal form (zero is 0*2^-1074);
     strictly_closer c2 k q v           "|v - log10|x|| < |q - log10|x||" for x^2 = c2*10^(2k), decided on exact rationals;
     operand, to_pfx, pcmp_mixed, pcmp_reflected, ohash      Prefixed op int / float / Decimal. *)
Require Import Hdl21.Base.PyInt Hdl21.Base.Dec Hdl21.Model.Prefixed Hdl21Gen.PrefixTable.
Require Import Hdl21.Spec.SimSpec Hdl21.Model.C17Float.
Require Import Hdl21.Proofs.C14Proofs Hdl21.Corr.C14 Hdl21.Model.C14XModel Hdl21.Corr.C14X.
Require Import Hdl21.Proofs.C14XFloatProofs Hdl21.Proofs.C14XScaleProofs Hdl21.Proofs.C14XOrderProofs Hdl21.Proofs.C14XSpecFnProofs.
Open Scope Z_scope.

(* ================================================================== 1. float() *)

(* THE nearest double.  For every finite Decimal d, round_dec d is
   - a FINITE canonical double (+-M)*2^E of the sign of d, when |d| < 2^1024 - 2^970, such that for EVERY canonical double
     (+-M')*2^E' of either sign  |d - result| <= |d - other|  (no finite double is strictly closer), and a DIFFERENT double at
     exactly the same distance exists only if the result's mantissa M is even (ties to even); moreover |d - result| <= ulp/2;
   - the infinity of the sign of d exactly when |d| >= 2^1024 - 2^970 (what CPython's float(Decimal('1e400')) returns; the
     threshold is the midpoint of the largest double and 2^1024, the tie going to the even 2^53 * 2^971, i.e. to infinity);
   - never a NaN. *)
Theorem C14X_nearest_double_is_nearest d :
  let m := dint d in let e := dexp d in
  match round_dec d with
  | DFin neg M E =>
      neg = (m <? 0) /\ canonical M E = true /\
      Z.abs (val_num m e) * 2 ^ 1076 < overflow_units m e /\
      dist_units m e neg M E <= half_ulp_units m e E /\
      forall neg' M' E', canonical M' E' = true ->
        dist_units m e neg M E <= dist_units m e neg' M' E' /\
        (dist_units m e neg M E = dist_units m e neg' M' E' -> DFin neg' M' E' <> DFin neg M E -> Z.even M = true)
  | DInf neg => neg = (m <? 0) /\ overflow_units m e <= Z.abs (val_num m e) * 2 ^ 1076
  | DNan => False
  end.
Proof. exact (round_dbl_is_nearest (dint d) (dexp d)). Qed.
Print Assumptions C14X_nearest_double_is_nearest.

(* the function the C14 correspondence run evaluates as the specification of float() (Corr/C14.v nearest_double, written
   independently: floor(log2), one half-even rounding of the scaled quotient) IS round_dec, value for value *)
Theorem C14X_spec_function_agrees d : ofl_eqb (Some (C14.nearest_double d)) (fl_of_dbl (round_dec d)) = true.
Proof. exact (nearest_double_is_round_dec d). Qed.
Print Assumptions C14X_spec_function_agrees.

(* float(Prefixed) never raises and is round-to-nearest-even of the VALUE: of the value written as an integer multiple of
   10^e, for every exponent e of the value *)
Theorem C14X_float_value p e : e <= pexp p -> pfloat_c p = Ok (round_dbl (vat e p) e).
Proof. exact (pfloat_c_value p e). Qed.
Print Assumptions C14X_float_value.

(* ... hence two prefixed numbers denoting the same value (150e-2 * KILO, 1.5 * KILO, 1500 * UNIT) have the same float *)
Theorem C14X_float_representation_free a b e : e <= pexp a -> e <= pexp b -> vat e a = vat e b -> pfloat_c a = pfloat_c b.
Proof. exact (pfloat_c_representation_free a b e). Qed.
Print Assumptions C14X_float_representation_free.

(* ... and so have two Decimals of equal value (1.50 and 1.5) *)
Theorem C14X_float_decimal_representation_free d1 d2 : deqb d1 d2 = true -> round_dec d1 = round_dec d2.
Proof. exact (round_dec_value d1 d2). Qed.
Print Assumptions C14X_float_decimal_representation_free.

(* Props/C14.v C14_float_nearest_partial, instantiated: the Section variable rnd is the concrete function *)
Theorem C14X_float_one_rounding_concrete p :
  exists x, pfloat_c p = Ok (round_dec x) /\ dexp x <= pexp p /\ forall e, e <= dexp x -> at_ e x = vat e p.
Proof. exact (pfloat_one_rounding round_dec p). Qed.
Print Assumptions C14X_float_one_rounding_concrete.

(* a value that IS a double (every integer below 2^53, 0.5, 2^-1074 ...) is returned unchanged *)
Theorem C14X_float_exact_on_doubles m e neg M E : canonical M E = true -> neg = (m <? 0) -> dist_units m e neg M E = 0 ->
  exists neg0 M0 E0, round_dbl m e = DFin neg0 M0 E0 /\ dbl_units neg0 M0 E0 * val_den m e = dbl_units neg M E * val_den m e.
Proof. exact (round_dbl_exact m e neg M E). Qed.
Print Assumptions C14X_float_exact_on_doubles.

(* ================================================================== 2. scale(): the closest prefix *)

(* what "strictly closer" means, with no logarithm: value^2 against the decade 10^(q+v) (the square of the logarithmic midpoint) *)
Theorem C14X_strictly_closer_meaning c2 k q v e : e <= 2 * k -> e <= q + v ->
  (strictly_closer c2 k q v = true <->
   (q < v /\ 10 ^ (q + v - e) < c2 * 10 ^ (2 * k - e)) \/ (v < q /\ c2 * 10 ^ (2 * k - e) < 10 ^ (q + v - e))).
Proof. exact (strictly_closer_meaning c2 k q v e). Qed.
Print Assumptions C14X_strictly_closer_meaning.

(* a.scale() of a non-zero number: the result carries a member of Prefix, and NO member is strictly closer to log10|value| *)
Theorem C14X_scale_closest p r : dint (number p) <> 0 -> pscale_auto p = Ok r ->
  r = pscale p (prefix r) /\ is_prefix (prefix r) = true /\
  forall v, is_prefix v = true -> strictly_closer (pc2 p) (pexp p) (prefix r) v = false.
Proof.
  intros NZ H. destruct (pscale_auto_choice p r H) as [C E]. split; [exact E|]. exact (closest_log_closest p (prefix r) NZ C).
Qed.
Print Assumptions C14X_scale_closest.

(* zero: log10 is -Infinity, all distances are infinite, min() keeps the first member (YOCTO) *)
Theorem C14X_scale_zero p : dint (number p) = 0 -> closest_log p = Ok (-24).
Proof. exact (closest_log_zero p). Qed.
Print Assumptions C14X_scale_zero.

(* the chosen member is one of the two table neighbours of the value, for EVERY non-zero value *)
Theorem C14X_scale_neighbours p q : dint (number p) <> 0 -> closest_log p = Ok q ->
  (sq_cmp (pc2 p) (pexp p) (-48) <> Gt /\ q = -24) \/
  (sq_cmp (pc2 p) (pexp p) 48 <> Lt /\ q = 24) \/
  (exists lo hi, adjacentb lo hi = true /\ sq_cmp (pc2 p) (pexp p) (2 * lo) <> Lt /\ sq_cmp (pc2 p) (pexp p) (2 * hi) <> Gt /\
                 (q = lo \/ q = hi)).
Proof. exact (closest_log_neighbour p q). Qed.
Print Assumptions C14X_scale_neighbours.

(* the boundary cases.  The code takes log10 in the 28-digit ambient context; the correspondence run accepts an observed
   prefix q different from the model's q' only inside the band |value^2 - 10^(q+q')| <= 1e-24 * 10^(q+q') (Corr/C14.v in_band).
   Whatever is accepted that way is the OTHER table neighbour of the value: q and q' are neighbouring members and the value lies
   strictly between 10^min and 10^max, beside their logarithmic midpoint. *)
Theorem C14X_scale_band_neighbour raw q q' : dint (number raw) <> 0 -> closest_log raw = Ok q' -> is_prefix q = true -> q <> q' ->
  in_band raw q q' = true ->
  let lo := Z.min q q' in let hi := Z.max q q' in
  adjacentb lo hi = true /\ sq_cmp (pc2 raw) (pexp raw) (2 * lo) = Gt /\ sq_cmp (pc2 raw) (pexp raw) (2 * hi) = Lt.
Proof. exact (in_band_neighbour raw q q'). Qed.
Print Assumptions C14X_scale_band_neighbour.

(* ================================================================== 3. order, mixed operands, hashes, int() *)

(* `<` along a chain.  Full transitivity (forall a b c, a < b -> b < c -> a < c) is FALSE for a comparison with a tolerance that
   depends on the pair (C14X_lt_trans_refuted).  Proved: transitive whenever the middle operand's prefix is not below both outer
   prefixes; and in every case the chain is never inverted. *)
Theorem C14X_lt_trans_partial a b c : Z.min (prefix a) (prefix c) <= prefix b ->
  pcmp OLt a b = true -> pcmp OLt b c = true -> pcmp OLt a c = true.
Proof. exact (lt_trans_partial a b c). Qed.
Print Assumptions C14X_lt_trans_partial.

Theorem C14X_lt_chain_never_inverted a b c : pcmp OLt a b = true -> pcmp OLt b c = true ->
  pcmp OLe a c = true /\ pcmp OGt a c = false /\ forall e, e <= pexp a -> e <= pexp b -> e <= pexp c -> vat e a < vat e c.
Proof. exact (lt_chain_never_inverted a b c). Qed.
Print Assumptions C14X_lt_chain_never_inverted.

(* a < b means the exact values are strictly ordered *)
Theorem C14X_lt_values a b e : e <= pexp a -> e <= pexp b -> pcmp OLt a b = true -> vat e a < vat e b.
Proof. exact (lt_values a b e). Qed.
Print Assumptions C14X_lt_values.

Definition PX (c e q : Z) : pfx := mkP (of_int c e) q.

(* 0*UNIT < 1e-6*y < 2e-30*UNIT, yet 0*UNIT == 2e-30*UNIT (both at UNIT: tolerance 1e-20) *)
Theorem C14X_lt_trans_refuted : exists a b c, pwf a = true /\ pwf b = true /\ pwf c = true /\
  pcmp OLt a b = true /\ pcmp OLt b c = true /\ pcmp OLt a c = false /\ pcmp OEq a c = true.
Proof. exists (PX 0 0 0), (PX 1 (-6) (-24)), (PX 2 (-30) 0). vm_compute. repeat split. Qed.
Print Assumptions C14X_lt_trans_refuted.

(* 0*K == 4e-21*K == 4e-18*UNIT, yet 0*K != 4e-18*UNIT *)
Theorem C14X_eq_trans_refuted : exists a b c, pwf a = true /\ pwf b = true /\ pwf c = true /\
  pcmp OEq a b = true /\ pcmp OEq b c = true /\ pcmp OEq a c = false.
Proof. exists (PX 0 0 3), (PX 4 (-21) 3), (PX 4 (-18) 0). vm_compute. repeat split. Qed.
Print Assumptions C14X_eq_trans_refuted.

(* Prefixed op x, x an int / float / Decimal / Prefixed: never raises and is the Prefixed comparison with to_prefixed(x) *)
Theorem C14X_cmp_mixed_total o a x : exists b, to_pfx x = Ok b /\ pcmp_mixed o a x = Ok (pcmp o a b).
Proof. exact (pcmp_mixed_total o a x). Qed.
Print Assumptions C14X_cmp_mixed_total.

Theorem C14X_cmp_mixed_same_value a x e : e <= pexp a -> e <= oexp x -> vat e a = ovat e x ->
  pcmp_mixed OEq a x = Ok true /\ pcmp_mixed OLe a x = Ok true /\ pcmp_mixed OGe a x = Ok true /\
  pcmp_mixed OLt a x = Ok false /\ pcmp_mixed OGt a x = Ok false /\ pcmp_mixed ONe a x = Ok false.
Proof. exact (pcmp_mixed_same_value a x e). Qed.
Print Assumptions C14X_cmp_mixed_same_value.

Theorem C14X_cmp_mixed_sound a x e :
  let s := Z.min (prefix a) (oprefix x) in
  e <= pexp a -> e <= oexp x -> e <= s - EPSILON ->
  10 ^ (s - EPSILON - e) < Z.abs (vat e a - ovat e x) ->
  (pcmp_mixed OLt a x = Ok true <-> vat e a < ovat e x) /\ (pcmp_mixed OGt a x = Ok true <-> ovat e x < vat e a) /\
  pcmp_mixed OEq a x = Ok false /\ pcmp_mixed ONe a x = Ok true.
Proof. exact (pcmp_mixed_sound a x e). Qed.
Print Assumptions C14X_cmp_mixed_sound.

Theorem C14X_cmp_mixed_relations a x : exists lt le eq ne gt ge,
  pcmp_mixed OLt a x = Ok lt /\ pcmp_mixed OLe a x = Ok le /\ pcmp_mixed OEq a x = Ok eq /\
  pcmp_mixed ONe a x = Ok ne /\ pcmp_mixed OGt a x = Ok gt /\ pcmp_mixed OGe a x = Ok ge /\
  ((lt = true /\ eq = false /\ gt = false) \/ (lt = false /\ eq = true /\ gt = false) \/ (lt = false /\ eq = false /\ gt = true)) /\
  le = (lt || eq) /\ ge = (gt || eq) /\ ne = negb eq /\ le = negb gt /\ ge = negb lt.
Proof. exact (pcmp_mixed_relations a x). Qed.
Print Assumptions C14X_cmp_mixed_relations.

(* x op a reaches the reflected operator of Prefixed; for two Prefixed it agrees with the direct operator *)
Theorem C14X_cmp_reflected o b a : pcmp_reflected o (OpPre b) a = Ok (pcmp o b a).
Proof. exact (pcmp_reflected_prefixed o b a). Qed.
Print Assumptions C14X_cmp_reflected.

(* equal values => equal hashes across Prefixed / int / Decimal (and float, when the float IS the decimal of its repr) *)
Theorem C14X_hash_mixed a x e : e <= pexp a -> e <= oexp x -> vat e a = ovat e x -> phash a = ohash x.
Proof. exact (hash_mixed a x e). Qed.
Print Assumptions C14X_hash_mixed.

(* int(p) is the integer part and float(p) is within half an ulp of the same value (or the infinity beyond the threshold) *)
Theorem C14X_int_float_consistent p e : e <= pexp p -> e <= 0 ->
  exists t, pint p = Ok t /\ int_part_at t (vat e p) e /\
            pfloat_c p = Ok (round_dbl (vat e p) e) /\
            match round_dbl (vat e p) e with
            | DFin neg M E => canonical M E = true /\ dist_units (vat e p) e neg M E <= half_ulp_units (vat e p) e E
            | DInf _ => overflow_units (vat e p) e <= Z.abs (val_num (vat e p) e) * 2 ^ 1076
            | DNan => False
            end.
Proof. exact (int_float_consistent p e). Qed.
Print Assumptions C14X_int_float_consistent.

(* ================================================================== non-vacuity *)
(* ties to even at 2^53 + 1 and 2^53 + 3; the pinned witness 3*y; subnormal tie 2^-1075 -> 0; overflow threshold -> inf *)
Example C14X_ex_float :
  pfloat_c (PX 9007199254740993 0 0) = Ok (DFin false 4503599627370496 1) /\
  pfloat_c (PX 9007199254740995 0 0) = Ok (DFin false 4503599627370498 1) /\
  pfloat_c (PX 3 0 (-24)) = pfloat_c (PX 3000 (-3) (-24)) /\
  pfloat_c (PX 150 (-2) 3) = Ok (DFin false 6597069766656000 (-42)) /\ pfloat_c (PX 15 (-1) 3) = pfloat_c (PX 1500 0 0) /\
  pfloat_c (PX 150 (-2) 3) = pfloat_c (PX 1500 0 0) /\
  round_dbl (5 ^ 1075) (-1075) = DFin false 0 (-1074) /\
  round_dbl (5 ^ 1075 + 1) (-1075) = DFin false 1 (-1074) /\
  round_dbl (2 ^ 1024 - 2 ^ 970) 0 = DInf false /\ round_dbl (2 ^ 1024 - 2 ^ 970 - 1) 0 = DFin false 9007199254740991 971 /\
  round_dbl (-1) 400 = DInf true.
Proof. vm_compute. repeat split. Qed.

(* the hypotheses of C14X_float_exact_on_doubles hold for 3 = 6755399441055744 * 2^-51 *)
Example C14X_ex_exact : canonical 6755399441055744 (-51) = true /\ dist_units 3 0 false 6755399441055744 (-51) = 0 /\
  round_dbl 3 0 = DFin false 6755399441055744 (-51).
Proof. vm_compute. repeat split. Qed.

(* scale(): 31.6 -> DECA, 31.7 -> HECTO (the boundary is sqrt(10)*10 = 31.62...); 50000 -> MEGA? no: log10 = 4.7 -> closer to 6 than 3 *)
Example C14X_ex_scale :
  closest_log (PX 316 (-1) 0) = Ok 1 /\ closest_log (PX 317 (-1) 0) = Ok 2 /\
  closest_log (PX 31622 0 0) = Ok 3 /\ closest_log (PX 31623 0 0) = Ok 6 /\
  adjacentb 3 6 = true /\ adjacentb 1 2 = true /\ adjacentb 1 3 = false /\
  strictly_closer (316 * 316) (-1) 1 2 = false /\ strictly_closer (317 * 317) (-1) 1 2 = true /\
  closest_log (PX 1 (-30) 0) = Ok (-24) /\ closest_log (PX 7 45 0) = Ok 24.
Proof. vm_compute. repeat split. Qed.

(* the band: sqrt(10) cut after 40 digits + 1 unit lies above the midpoint (exact choice DECA); UNIT is accepted, KILO is not *)
Example C14X_ex_band :
  closest_log (PX 31622776601683793319988935444327185337196 (-40) 0) = Ok 1 /\
  in_band (PX 31622776601683793319988935444327185337196 (-40) 0) 0 1 = true /\
  in_band (PX 31622776601683793319988935444327185337196 (-40) 0) 3 1 = false /\
  in_band (PX 317 (-2) 0) 0 1 = false.
Proof. vm_compute. repeat split. Qed.

(* mixed: 1500*m == 1.5 (float), 2*K > 1999 (int), hash(1000*m) = hash(1) *)
Example C14X_ex_mixed :
  pcmp_mixed OEq (PX 1500 0 (-3)) (OpFloat (of_int 15 (-1))) = Ok true /\
  pcmp_mixed OGt (PX 2 0 3) (OpInt 1999) = Ok true /\ pcmp_reflected OLt (OpInt 1999) (PX 2 0 3) = Ok true /\
  phash (PX 1000 0 (-3)) = ohash (OpInt 1) /\ phash (PX 1000 0 (-3)) = ohash (OpDec (of_int 100 (-2))) /\
  (exists t, pint (PX 1500 0 (-3)) = Ok t /\ t = 1).
Proof. vm_compute. repeat split. eexists. split; reflexivity. Qed.

(* a transitive chain over three different prefixes satisfying the hypothesis of C14X_lt_trans_partial *)
Example C14X_ex_chain :
  Z.min (prefix (PX 1 0 (-24))) (prefix (PX 3 0 0)) <= prefix (PX 2 0 (-3)) /\
  pcmp OLt (PX 1 0 (-24)) (PX 2 0 (-3)) = true /\ pcmp OLt (PX 2 0 (-3)) (PX 3 0 0) = true /\ pcmp OLt (PX 1 0 (-24)) (PX 3 0 0) = true.
Proof. vm_compute. repeat split; discriminate. Qed.
