(* Props/C01F.v — the end-to-end theorems of C01 over the EXTENDED pipeline model Model/C01FElab.v:
   elab_export_model2 = ResolvePortRefs (with update_ref_deps: references nested in slices / concatenations) ; ArrayFlattener ;
   SliceResolver ; proto export.  The statements are those of Props/C01E.v with frag_ok replaced by frag_ok2.

   The hypotheses are boolean and are evaluated by the correspondence run on every design (Corr/C01F.v):
     wf_design d = Ok tt    the design is valid (Spec/WfDesign.v),
     frag_ok2 d = true      port references may sit INSIDE slices and concatenations, at any depth, as long as the dependency
                            between reference groups is ACYCLIC (Spec/C01FNets.v:acyc: group G depends on group H when the
                            declared connection of G mentions a port of H); the width written on a no-connect leaf is the
                            port's (as in frag_ok).  frag_ok d = true -> frag_ok2 d = true (C01F_frag_ok_included),
     xinfo_ok xi d = true   as in Props/C01E.v.

   The FULL statement asked for would drop frag_ok2.  What is left out are designs in which the sources of reference groups
   depend on one another in a LOOP, e.g.  i1 = W(a=Concat(i2.a[0], s)); i2 = W(a=Concat(i1.a[0], s))  (C01F_ex_loop below):
   valid by Spec/WfDesign.v, with a well-defined net partition under Spec/Nets.v (bit 0 of both ports is a floating net of
   its own, bit 1 of both is on s).  The implementation (after fixes/C01F-1) elaborates them by resolving the loop bit by bit;
   the model does not follow that part (reparent runs out of fuel: Error EFuel) - the run checks the implementation's package
   against the specification on such designs (stream `nested`), no theorem covers them.  Hence the suffix _partial. *)
From Coq Require Import String.
Require Import Hdl21.Base.PyInt Hdl21.Spec.PySlice Hdl21.Model.Slice Hdl21.Model.Resolve Hdl21.Base.Design
               Hdl21.Spec.Nets Hdl21.Spec.WfDesign Hdl21.Base.Package Hdl21.Base.PrimTable Hdl21.Spec.PkgWf
               Hdl21.Spec.C01ENets Hdl21.Model.C01EElab Hdl21.Model.C01FElab Hdl21.Spec.C01FNets
               Hdl21.Proofs.C01EProofsSim Hdl21.Proofs.C01EProofsWfs Hdl21.Proofs.C01EProofsEnd
               Hdl21.Proofs.C01FProofsWfs1 Hdl21.Proofs.C01FProofsPortRefsD Hdl21.Proofs.C01FProofsReparentD Hdl21.Proofs.C01FProofsEnd
               Hdl21.Base.C01BDesign Hdl21.Spec.C01BNets Hdl21.Spec.C01BWf Hdl21.Spec.C01BLower Hdl21.Proofs.C01FProofsBundles.
Require Hdl21.Corr.C01B Hdl21.Props.C01B.
Open Scope Z_scope.

(* 1. END TO END, on every valid node (bits of declared signals and of instance ports at every depth).
      term_map2 renames the path and the instance of a node as ArrayFlattener names the elements of an array; nothing else. *)
Theorem C01F_valid_nodes_partial xi d p :
  wf_design d = Ok tt -> frag_ok2 d = true -> xinfo_ok xi d = true -> elab_export_model2 xi d = Ok p ->
  exists tn pd, top_name d = Ok tn /\ design_of_pkg prims_ext p tn = Ok pd /\
    (forall x, valid d x -> valid pd (term_map2 xi d x)) /\
    (forall x y, valid d x -> valid d y -> (same_net pd (term_map2 xi d x) (term_map2 xi d y) <-> same_net d x y)) /\
    (forall x dev, valid d x -> dev_at d x = Ok dev -> dev_at pd (term_map2 xi d x) = Ok dev).
Proof. exact (end_to_end2 xi d p). Qed.
Print Assumptions C01F_valid_nodes_partial.

(* 2. END TO END, as the property states it: on the terminals of the design (bits of top-level ports, bits of the ports of
      every leaf device) the package - read as the VLSIR netlisters read it - has exactly the nets of the written design, and
      every leaf device is there with the same identity (kind and parameters).
      FULL statement (not proved, see the header): the same without `frag_ok2 d = true`. *)
Theorem C01F_end_to_end_partial xi d p ts :
  wf_design d = Ok tt -> frag_ok2 d = true -> xinfo_ok xi d = true -> elab_export_model2 xi d = Ok p -> terminals d = Ok ts ->
  exists tn, top_name d = Ok tn /\
    (forall t1 t2 dev1 dev2, In (t1, dev1) ts -> In (t2, dev2) ts ->
       (same_net_pkg p tn (term_map2 xi d t1) (term_map2 xi d t2) <-> same_net d t1 t2)) /\
    (forall t dev, In (t, dev) ts ->
       exists pd, design_of_pkg prims_ext p tn = Ok pd /\ valid pd (term_map2 xi d t) /\ dev_at pd (term_map2 xi d t) = Ok dev).
Proof.
  intros Hwf Hfr Hxi Hp Hts. destruct (end_to_end2 xi d p Hwf Hfr Hxi Hp) as [tn [pd [Htn [Hpd [Hv [Hs Hd]]]]]].
  exists tn. split; [exact Htn|]. split.
  - intros t1 t2 dev1 dev2 H1 H2. destruct (terminals_valid xi d ts Hwf Hxi Hts t1 dev1 H1) as [V1 _].
    destruct (terminals_valid xi d ts Hwf Hxi Hts t2 dev2 H2) as [V2 _]. rewrite <- (Hs t1 t2 V1 V2). unfold same_net_pkg. split.
    + intros [pd' [Hpd' H]]. rewrite Hpd in Hpd'. inversion Hpd'; subst pd'. exact H.
    + intros H. exists pd. auto.
  - intros t dev Ht. destruct (terminals_valid xi d ts Hwf Hxi Hts t dev Ht) as [V D]. exists pd. auto.
Qed.
Print Assumptions C01F_end_to_end_partial.

(* 3. The model rejects no valid design of the extended fragment - except through flatname's length limit (a RuntimeError of
      the implementation as well).  In particular re-parenting ends with the fuel the model gives it on every acyclic design. *)
Theorem C01F_total_partial xi d :
  wf_design d = Ok tt -> frag_ok2 d = true -> xinfo_ok xi d = true ->
  (exists p, elab_export_model2 xi d = Ok p) \/ elab_export_model2 xi d = Error EName.
Proof. exact (pipeline_total2 xi d). Qed.
Print Assumptions C01F_total_partial.

(* 4. C06: every package the extended model exports for a valid design is closed and self-consistent (Spec/PkgWf.v). *)
Theorem C06F_export_wf_partial xi d p :
  wf_design d = Ok tt -> frag_ok2 d = true -> xinfo_ok xi d = true -> elab_export_model2 xi d = Ok p ->
  wf_pkg prims_ext p = Ok tt.
Proof. exact (pipeline_pkg_wf2 xi d p). Qed.
Print Assumptions C06F_export_wf_partial.

(* 5. Nothing is lost: the fragment of C01E is inside the extended one, and on it the two models are THE SAME FUNCTION
      (so every theorem of Props/C01E.v is a special case of the ones above). *)
Theorem C01F_frag_ok_included d : frag_ok d = true -> frag_ok2 d = true.
Proof. exact (frag_ok_frag_ok2 d). Qed.
Print Assumptions C01F_frag_ok_included.

Theorem C01F_agrees_with_C01E xi d : wf_design d = Ok tt -> frag_ok d = true -> xinfo_ok xi d = true ->
  portrefs2_design xi d = portrefs_design xi d /\ elab_export_model2 xi d = elab_export_model xi d.
Proof. intros H1 H2 H3. split; [exact (portrefs2_design_agrees xi d H1 H2 H3)|exact (model2_agrees xi d H1 H2 H3)]. Qed.
Print Assumptions C01F_agrees_with_C01E.

(* 6. The extended ResolvePortRefs step alone, and its two halves:
      step 1 (groups, implicit and private signals; references inside expressions stay) needs no acyclicity at all;
      step 2 (re-parenting, update_ref_deps) keeps the nets whenever it ends, whatever the fuel. *)
Theorem C01F_portrefs_step xi d d1 x y :
  wf_design d = Ok tt -> frag_ok2 d = true -> xinfo_ok xi d = true -> portrefs2_design xi d = Ok d1 ->
  valid d x -> valid d y -> (same_net d x y <-> same_net d1 x y) /\ wfs d1.
Proof. intros H1 H2 H3 H4 Hx Hy. split; [exact (portrefs2_same_net xi d d1 H1 H2 H3 H4 x y Hx Hy)|exact (portrefs2_wfs xi d d1 H1 H2 H3 H4)]. Qed.
Print Assumptions C01F_portrefs_step.

Theorem C01F_reparent_step d1 d2 x y : wfs1 d1 -> RPD d1 d2 -> valid d1 x -> valid d1 y ->
  (same_net d1 x y <-> same_net d2 x y) /\ wfs d2.
Proof. intros W R Hx Hy. split; [exact (reparent_same_net d1 d2 W R x y Hx Hy)|exact (rpd_wfs d1 d2 W R)]. Qed.
Print Assumptions C01F_reparent_step.

(* ---- non-vacuity.  Top of ex2_design:
        i1.a = Concat(s, b)                       the declared connection of group {i1.a}
        i2.a = i1.a[::2]      i3.a = i2.a[::-1]   a chain of groups three deep, with a stride and a reversal
        i4.a = i5.a           i5.a = i4.a         a ring of whole-connection references (one implicit signal)
        i6.a = Concat(i3.a[0], i5.a[::-1])        references into the chain and into the ring, inside a concatenation
        i7                                        connected to nothing, referred to only inside a slice: names an implicit signal
        a0 = 2 x W1(a = Concat(i7.a[1], i6.a[2])) an array wired per element from nested references ---- *)
Definition ex2_design : design :=
  {| d_mods := [{| m_name := "W1"; m_ports := [("a", 1)]; m_sigs := [];
     m_insts := [{| i_name := "r0"; i_n := 0; i_of := (TDev "vlsir.primitives/resistor{r=pre:UNIT:i1;}" [("p", 1); ("n", 1)]); i_conns := [("p", (XSig 0%N 1)); ("n", (XSig 0%N 1))] |}];
     m_leaves := [(0%N, LSig "a")] |}; {| m_name := "W2"; m_ports := [("a", 2)]; m_sigs := [];
     m_insts := [{| i_name := "r0"; i_n := 0; i_of := (TDev "vlsir.primitives/resistor{r=pre:UNIT:i1;}" [("p", 1); ("n", 1)]); i_conns := [("p", (XSlice (XSig 0%N 2) (Idx 0))); ("n", (XSlice (XSig 0%N 2) (Idx 1)))] |}; {| i_name := "r1"; i_n := 0; i_of := (TDev "vlsir.primitives/resistor{r=pre:UNIT:i1;}" [("p", 1); ("n", 1)]); i_conns := [("p", (XSlice (XSig 0%N 2) (Idx 1))); ("n", (XSlice (XSig 0%N 2) (Idx 0)))] |}];
     m_leaves := [(0%N, LSig "a")] |}; {| m_name := "W3"; m_ports := [("a", 3)]; m_sigs := [];
     m_insts := [{| i_name := "r0"; i_n := 0; i_of := (TDev "vlsir.primitives/resistor{r=pre:UNIT:i1;}" [("p", 1); ("n", 1)]); i_conns := [("p", (XSlice (XSig 0%N 3) (Idx 0))); ("n", (XSlice (XSig 0%N 3) (Idx 1)))] |}; {| i_name := "r1"; i_n := 0; i_of := (TDev "vlsir.primitives/resistor{r=pre:UNIT:i1;}" [("p", 1); ("n", 1)]); i_conns := [("p", (XSlice (XSig 0%N 3) (Idx 1))); ("n", (XSlice (XSig 0%N 3) (Idx 2)))] |}; {| i_name := "r2"; i_n := 0; i_of := (TDev "vlsir.primitives/resistor{r=pre:UNIT:i1;}" [("p", 1); ("n", 1)]); i_conns := [("p", (XSlice (XSig 0%N 3) (Idx 2))); ("n", (XSlice (XSig 0%N 3) (Idx 0)))] |}];
     m_leaves := [(0%N, LSig "a")] |}; {| m_name := "Top"; m_ports := [("p", 1)]; m_sigs := [("s", 1); ("b", 2)];
     m_insts := [{| i_name := "i1"; i_n := 0; i_of := (TMod 2%nat); i_conns := [("a", (XConcat [(XSig 0%N 1); (XSig 1%N 2)]))] |}; {| i_name := "i2"; i_n := 0; i_of := (TMod 1%nat); i_conns := [("a", (XSlice (XSig 2%N 3) (Sl None None (Some 2))))] |}; {| i_name := "i3"; i_n := 0; i_of := (TMod 1%nat); i_conns := [("a", (XSlice (XSig 3%N 2) (Sl None None (Some (-1)))))] |}; {| i_name := "i4"; i_n := 0; i_of := (TMod 1%nat); i_conns := [("a", (XSig 4%N 2))] |}; {| i_name := "i5"; i_n := 0; i_of := (TMod 1%nat); i_conns := [("a", (XSig 5%N 2))] |}; {| i_name := "i6"; i_n := 0; i_of := (TMod 2%nat); i_conns := [("a", (XConcat [(XSlice (XSig 6%N 2) (Idx 0)); (XSlice (XSig 4%N 2) (Sl None None (Some (-1))))]))] |}; {| i_name := "i7"; i_n := 0; i_of := (TMod 1%nat); i_conns := [] |}; {| i_name := "a0"; i_n := 2; i_of := (TMod 0%nat); i_conns := [("a", (XConcat [(XSlice (XSig 7%N 2) (Idx 1)); (XSlice (XSig 8%N 3) (Idx 2))]))] |}];
     m_leaves := [(0%N, LSig "s"); (1%N, LSig "b"); (2%N, LRef "i1" "a"); (3%N, LRef "i2" "a"); (4%N, LRef "i5" "a"); (5%N, LRef "i4" "a"); (6%N, LRef "i3" "a"); (7%N, LRef "i7" "a"); (8%N, LRef "i6" "a")] |}]; d_top := 3%nat |}.

Definition ex2_xinfo : xinfo :=
  {| x_devs := [("vlsir.primitives/resistor{r=pre:UNIT:i1;}", {| dv_dom := "vlsir.primitives"; dv_name := "resistor"; dv_params := [("r", "pre:UNIT:i1")]; dv_ext := None |})];
     x_ncnames := [("W1", []); ("W2", []); ("W3", []); ("Top", [])];
     x_dirs := [("W1", [("a", 2)]); ("W2", [("a", 2)]); ("W3", [("a", 2)]); ("Top", [("p", 0)])] |}.

Definition ex_loop_design : design :=
  {| d_mods := [{| m_name := "W1"; m_ports := [("a", 1)]; m_sigs := [];
     m_insts := [{| i_name := "r0"; i_n := 0; i_of := (TDev "vlsir.primitives/resistor{r=pre:UNIT:i1;}" [("p", 1); ("n", 1)]); i_conns := [("p", (XSig 0%N 1)); ("n", (XSig 0%N 1))] |}];
     m_leaves := [(0%N, LSig "a")] |}; {| m_name := "W2"; m_ports := [("a", 2)]; m_sigs := [];
     m_insts := [{| i_name := "r0"; i_n := 0; i_of := (TDev "vlsir.primitives/resistor{r=pre:UNIT:i1;}" [("p", 1); ("n", 1)]); i_conns := [("p", (XSlice (XSig 0%N 2) (Idx 0))); ("n", (XSlice (XSig 0%N 2) (Idx 1)))] |}; {| i_name := "r1"; i_n := 0; i_of := (TDev "vlsir.primitives/resistor{r=pre:UNIT:i1;}" [("p", 1); ("n", 1)]); i_conns := [("p", (XSlice (XSig 0%N 2) (Idx 1))); ("n", (XSlice (XSig 0%N 2) (Idx 0)))] |}];
     m_leaves := [(0%N, LSig "a")] |}; {| m_name := "W3"; m_ports := [("a", 3)]; m_sigs := [];
     m_insts := [{| i_name := "r0"; i_n := 0; i_of := (TDev "vlsir.primitives/resistor{r=pre:UNIT:i1;}" [("p", 1); ("n", 1)]); i_conns := [("p", (XSlice (XSig 0%N 3) (Idx 0))); ("n", (XSlice (XSig 0%N 3) (Idx 1)))] |}; {| i_name := "r1"; i_n := 0; i_of := (TDev "vlsir.primitives/resistor{r=pre:UNIT:i1;}" [("p", 1); ("n", 1)]); i_conns := [("p", (XSlice (XSig 0%N 3) (Idx 1))); ("n", (XSlice (XSig 0%N 3) (Idx 2)))] |}; {| i_name := "r2"; i_n := 0; i_of := (TDev "vlsir.primitives/resistor{r=pre:UNIT:i1;}" [("p", 1); ("n", 1)]); i_conns := [("p", (XSlice (XSig 0%N 3) (Idx 2))); ("n", (XSlice (XSig 0%N 3) (Idx 0)))] |}];
     m_leaves := [(0%N, LSig "a")] |}; {| m_name := "Top"; m_ports := []; m_sigs := [("s", 1)];
     m_insts := [{| i_name := "i1"; i_n := 0; i_of := (TMod 1%nat); i_conns := [("a", (XConcat [(XSlice (XSig 0%N 2) (Idx 0)); (XSig 1%N 1)]))] |}; {| i_name := "i2"; i_n := 0; i_of := (TMod 1%nat); i_conns := [("a", (XConcat [(XSlice (XSig 2%N 2) (Idx 0)); (XSig 1%N 1)]))] |}];
     m_leaves := [(0%N, LRef "i2" "a"); (1%N, LSig "s"); (2%N, LRef "i1" "a")] |}]; d_top := 3%nat |}.

Definition ex_loop_xinfo : xinfo :=
  {| x_devs := [("vlsir.primitives/resistor{r=pre:UNIT:i1;}", {| dv_dom := "vlsir.primitives"; dv_name := "resistor"; dv_params := [("r", "pre:UNIT:i1")]; dv_ext := None |})];
     x_ncnames := [("W1", []); ("W2", []); ("W3", []); ("Top", [])];
     x_dirs := [("W1", [("a", 2)]); ("W2", [("a", 2)]); ("W3", [("a", 2)]); ("Top", [])] |}.


Example C01F_ex_hypotheses : wf_design ex2_design = Ok tt /\ frag_ok2 ex2_design = true /\ frag_ok ex2_design = false /\
  xinfo_ok ex2_xinfo ex2_design = true.
Proof. vm_compute. auto. Qed.

Example C01F_ex_model_accepts : exists p, elab_export_model2 ex2_xinfo ex2_design = Ok p /\ wf_pkg prims_ext p = Ok tt /\
  map pm_name (pk_mods p) = ["W3"; "W2"; "W1"; "Top"].
Proof. vm_compute. eexists. split; [reflexivity|]. split; reflexivity. Qed.

(* the ring got ONE implicit signal (i4_a), the port referred to only inside a slice another (i7_a); every reference is gone
   (least significant first: i1.a = (s, b[0], b[1]), i2.a = i1.a[::2] = (s, b[1]), i3.a = i2.a[::-1] = (b[1], s),
   i6.a = (i3.a[0], i5.a[1], i5.a[0]) = (b[1], i4_a[1], i4_a[0]); VLSIR lists concatenation parts most significant first) *)
Example C01F_ex_top : exists p top, elab_export_model2 ex2_xinfo ex2_design = Ok p /\ nth_error (pk_mods p) 3 = Some top /\
  pm_sigs top = [("s", 1); ("b", 2); ("i4_a", 2); ("i7_a", 2); ("p", 1)] /\
  map pi_name (pm_insts top) = ["i1"; "i2"; "i3"; "i4"; "i5"; "i6"; "i7"; "a0_0"; "a0_1"] /\
  map (fun i => assoc "a" (pi_conns i)) (pm_insts top) =
    [Some (PConcat [PSig "b"; PSig "s"]);
     Some (PConcat [PSlice "b" 1 1; PSig "s"]);
     Some (PConcat [PSig "s"; PSlice "b" 1 1]);
     Some (PSig "i4_a"); Some (PSig "i4_a");
     Some (PConcat [PSlice "i4_a" 0 0; PSlice "i4_a" 1 1; PSlice "b" 1 1]);
     Some (PSig "i7_a");
     Some (PSlice "i7_a" 1 1); Some (PSlice "i4_a" 0 0)].
Proof. vm_compute. eexists. eexists. split; [reflexivity|]. split; [reflexivity|]. split; [reflexivity|]. split; reflexivity. Qed.

(* the loop of the C01E notes: valid, outside frag_ok2, the model declines it *)
Example C01F_ex_loop : wf_design ex_loop_design = Ok tt /\ frag_ok2 ex_loop_design = false /\
  xinfo_ok ex_loop_xinfo ex_loop_design = true /\ elab_export_model2 ex_loop_xinfo ex_loop_design = Error EFuel.
Proof. vm_compute. auto. Qed.

(* 7. BUNDLES END TO END: the lowering lemma of the bundle fragment (Props/C01B.v) composed with the pipeline theorem.
      MODELLING ASSUMPTION (not a theorem; checked on every design of the bundle streams by Corr/C01FB.v, stream
      `bundles-end-to-end`): InstBundleElabPass + BundleFlattener followed by the rest of the pipeline produce the package that
      the pipeline model produces on the member-wise lowering `lower fl d` of the written bundle design, up to the names of
      invented signals and instances (fl = any naming that is injective per module; the implementation's is the C10 naming,
      whose injectivity per bundle instance is C10_names; the run uses b.m1.m2).
      Under the DECIDABLE hypotheses of C01B_lower_labels (names_ok, pairs_ok, the orbits of the terminals are computed and lie
      on nodes of the design), plus: the computed orbits are closed under bstep (orbit_closed - true whenever the fuel was
      enough), the lowered design is valid, inside frag_ok2 and spelled by xi, and the terminals are terminals of the lowered
      design: the package of the pipeline model on `lower fl d` has, on the terminals, exactly the nets of the bundle design
      (bsame_net: the orbits under the path-based one-step map Spec/C01BNets.v:bstep meet - what blabels decides).
      _partial: as 2. (frag_ok2), and the hypotheses are not derived from wf_bdesign (see notes/C01B.md). *)
Theorem C01F_bundles_end_to_end_partial fl xi d fuel ts os p tl :
  names_ok fl d = true -> pairs_ok d = true ->
  traverse (borbit d fuel) ts = Ok os -> forallb (forallb (bnode_ok d)) os = true -> forallb (orbit_closed d) os = true ->
  wf_design (lower fl d) = Ok tt -> frag_ok2 (lower fl d) = true -> xinfo_ok xi (lower fl d) = true ->
  terminals (lower fl d) = Ok tl -> forallb (fun t => existsb (node_eqb (C01BLower.phi fl t)) (map fst tl)) ts = true ->
  elab_export_model2 xi (lower fl d) = Ok p ->
  exists tn, top_name (lower fl d) = Ok tn /\
    forall t1 t2, In t1 ts -> In t2 ts ->
      (same_net_pkg p tn (term_map2 xi (lower fl d) (C01BLower.phi fl t1)) (term_map2 xi (lower fl d) (C01BLower.phi fl t2))
       <-> bsame_net d t1 t2).
Proof. exact (bundles_end_to_end fl xi d fuel ts os p tl). Qed.
Print Assumptions C01F_bundles_end_to_end_partial.

(* the lowering keeps "the orbits meet" on nodes whose iterates all exist and are nodes of the design *)
Theorem C01F_lower_same_net fl d x y : names_ok fl d = true -> pairs_ok d = true -> live d x -> live d y ->
  (bsame_net d x y <-> same_net (lower fl d) (C01BLower.phi fl x) (C01BLower.phi fl y)).
Proof. exact (lower_meet fl d x y). Qed.
Print Assumptions C01F_lower_same_net.

(* non-vacuity: the coinciding-names design of Props/C01B.v (scalar lo_q next to the nested member lo.q, held by Top and
   passed to Inner) satisfies every hypothesis, and the model exports its lowering *)
Definition exb_xinfo : xinfo :=
  {| x_devs := map (fun t : string => (sapp "/Pin{tag=int:" (sapp t ";}"),
                      {| dv_dom := ""; dv_name := "Pin"; dv_params := [("tag", sapp "int:" t)];
                         dv_ext := Some {| px_domain := ""; px_name := "Pin"; px_ports := [("a", 1, 3)]; px_spicetype := "SUBCKT" |} |}))
                   ["1"; "2"; "3"];
     x_ncnames := []; x_dirs := [] |}.

Example C01F_ex_bundles :
  let d := C01B.ex0 in let ts := C01B.ex0_terms in let ld := lower C01B.dot_name d in
  names_ok C01B.dot_name d = true /\ pairs_ok d = true /\
  (exists os, traverse (borbit d (bdesign_fuel d)) ts = Ok os /\ forallb (forallb (bnode_ok d)) os = true /\ forallb (orbit_closed d) os = true) /\
  wf_design ld = Ok tt /\ frag_ok2 ld = true /\ xinfo_ok exb_xinfo ld = true /\
  (exists tl, terminals ld = Ok tl /\ forallb (fun t => existsb (node_eqb (C01BLower.phi C01B.dot_name t)) (map fst tl)) ts = true) /\
  (exists p, elab_export_model2 exb_xinfo ld = Ok p /\ map pm_name (pk_mods p) = ["Inner"; "Top"]).
Proof.
  cbv zeta. repeat split; try (vm_compute; reflexivity).
  - eexists. split; [vm_compute; reflexivity|]. split; vm_compute; reflexivity.
  - eexists. split; vm_compute; reflexivity.
  - eexists. split; vm_compute; reflexivity.
Qed.
