(* Props/C15.v — placeholder while the pipeline is brought up; replaced by the theorem statements. *)
Require Import Hdl21.Base.PyInt Hdl21.Spec.PdkSpec Hdl21.Model.PdkSelect Hdl21.Model.Walker Hdl21.Model.PdkRegistry.
