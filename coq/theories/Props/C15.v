(* Props/C15.v — PDK compilation swaps device targets and nothing else.
   Only statements, each closed by lemmas of Proofs/C15Proofs.v, followed by Print Assumptions.

   Objects:  `compile k st m` (Model/Walker.v) = <pdk k>.compile(m) with walker/cache state st;  `mrel k P m m'`
   (Spec/C15Swap.v) = "m' is m with only instance targets of mapped generic primitives replaced, by calls allowed by P";
   `conv_g k g prm` (Model/PdkSelect.v) = the device call a walker builds for a request;  `sel_entry` = the table
   entry it selects;  `satisfies`, `candidates`, `default_size` (Spec/PdkSpec.v) = the specification of selection;
   `table k g` = the REGENERATED device tables (Hdl21Gen.PdkTables_<pdk>);  `rstep`/`rrun` (Model/PdkRegistry.v) = hdl21.pdk.

   General theorems (1-4) hold for every design / state / history (induction).  Table-driven theorems (5-10) hold
   for every request (all parameter values) and every entry of the tables as they are in the source today: the
   per-entry facts are checked by vm_compute over the regenerated tables and lifted with forallb_forall. *)
From Coq Require Import String Ascii.
Require Import Hdl21.Base.PyInt Hdl21.Spec.PdkSpec Hdl21.Model.PdkSelect Hdl21.Model.Walker Hdl21.Model.PdkRegistry
               Hdl21.Spec.C15Swap Hdl21.Proofs.C15Proofs Hdl21.Model.C15Store Hdl21.Proofs.C15StoreProofs.
Require Import Hdl21Gen.PrimitivePorts Hdl21Gen.PdkTables_sample Hdl21Gen.PdkTables_sky130
               Hdl21Gen.PdkTables_gf180 Hdl21Gen.PdkTables_asap7.
Open Scope string_scope.
Open Scope list_scope.
Open Scope Z_scope.

(* ================================================================ 1. only Instance.of is rewritten *)
(* module names, instance order, instance names, connections, sub-module structure, unmapped primitives and
   external-module calls are as they were; every mapped primitive became the device call cached for its
   (group, parameters) key — for EVERY design, at any depth, with any sharing, from any walker state *)
Theorem C15_walker_only_of k st m m' st' : compile k st m = SOk (m', st') -> mrel k (in_cache (cache st')) m m'.
Proof. intros H. apply (compile_rel k st m m' st' H). Qed.
Print Assumptions C15_walker_only_of.

(* read off the relation: instance names and connections of all instances at all depths, in traversal order *)
Theorem C15_names_conns_kept k st m m' st' : compile k st m = SOk (m', st') ->
  names_conns (insts_m m) = names_conns (insts_m m').
Proof. intros H. apply (proj1 (proj2 (rel_names_conns k _)) _ _ (C15_walker_only_of _ _ _ _ _ H)). Qed.
Print Assumptions C15_names_conns_kept.

(* the replacing call is the one the selection function builds for the request (cache entries included),
   provided the cache the compilation starts from was itself filled by compilations *)
Theorem C15_device_is_selected k st m m' st' : compile k st m = SOk (m', st') -> cache_ok k (cache (start_state k st)) ->
  mrel k (fun key c => conv_g k (fst key) (snd key) = SOk (c_spec c)) m m' /\ cache_ok k (cache st').
Proof.
  intros H C. destruct (compile_rel k st m m' st' H) as [R [_ OK]]. specialize (OK C). split; [|exact OK].
  assert (HPQ : forall key c, in_cache (cache st') key c -> conv_g k (fst key) (snd key) = SOk (c_spec c))
    by (intros [g prm] c L; apply (OK g prm c L)).
  exact (proj1 (proj2 (rel_mono k _ _ HPQ)) _ _ R).
Qed.
Print Assumptions C15_device_is_selected.

Theorem C15_fresh_cache_ok k : cache_ok k (cache (start_state k st0)).
Proof. unfold start_state. destruct (global_cache k); apply cache_ok_nil. Qed.
Print Assumptions C15_fresh_cache_ok.

(* ================================================================ 2. equal primitive parameters give the same device call *)
Theorem C15_cache_same_call k st m m' st' key c1 c2 : compile k st m = SOk (m', st') ->
  In (key, c1) (swaps_m k m m') -> In (key, c2) (swaps_m k m m') -> c1 = c2.
Proof.
  intros H I1 I2. pose proof (C15_walker_only_of _ _ _ _ _ H) as R.
  pose proof (proj1 (proj2 (swaps_rel k _)) _ _ R _ _ I1) as L1. pose proof (proj1 (proj2 (swaps_rel k _)) _ _ R _ _ I2) as L2.
  unfold in_cache in *. congruence.
Qed.
Print Assumptions C15_cache_same_call.

(* Sky130 / GF180 keep the cache at module scope: the same call also across compilations *)
Theorem C15_cache_same_call_across k st m1 m1' st1 m2 m2' st2 key c1 c2 : global_cache k = true ->
  compile k st m1 = SOk (m1', st1) -> compile k st1 m2 = SOk (m2', st2) ->
  In (key, c1) (swaps_m k m1 m1') -> In (key, c2) (swaps_m k m2 m2') -> c1 = c2.
Proof.
  intros G H1 H2 I1 I2.
  pose proof (proj1 (proj2 (swaps_rel k _)) _ _ (C15_walker_only_of _ _ _ _ _ H1) _ _ I1) as L1.
  pose proof (proj1 (proj2 (swaps_rel k _)) _ _ (C15_walker_only_of _ _ _ _ _ H2) _ _ I2) as L2.
  destruct (compile_rel _ _ _ _ _ H2) as [_ [E _]]. unfold start_state in E. rewrite G in E.
  unfold in_cache in *. apply E in L1. congruence.
Qed.
Print Assumptions C15_cache_same_call_across.

(* ================================================================ 3. compiling twice equals compiling once *)
Theorem C15_compile_idempotent k st m m' st' : compile k st m = SOk (m', st') ->
  ng_m k m' = true /\ forall st2, compile k st2 m' = SOk (m', start_state k st2).
Proof.
  intros H. pose proof (proj1 (proj2 (rel_ng k _)) _ _ (C15_walker_only_of _ _ _ _ _ H)) as N. split; [exact N|].
  intros st2. unfold compile. fold (start_state k st2). apply (proj1 (proj2 (visit_ng k))). exact N.
Qed.
Print Assumptions C15_compile_idempotent.

(* ================================================================ 4. the registry: by default / by name / by module *)
Definition rstate (info : minfo) (ops : list rop) : rst := snd (rrun info r0 ops).

Theorem C15_registry_invariant info ops : rinv2 info (rstate info ops).
Proof. apply rrun_inv. apply rinv2_r0. Qed.
Print Assumptions C15_registry_invariant.

(* after ANY history: compile(src, pdk=module) is accepted for every registered or valid module and runs that module *)
Theorem C15_registry_by_module info ops m : let st := rstate info ops in
  inb m (r_mods st) = true \/ snd (info m) = true ->
  exists st', rstep info st (OCompileMod m) = (ROk (Some m), st') /\ inb m (r_mods st') = true /\
              (inb m (r_mods st) = true -> st' = st).
Proof.
  intros st H. destruct (compile_by_module info st m (C15_registry_invariant info ops) H) as [st' [A [_ [B C]]]]. eauto.
Qed.
Print Assumptions C15_registry_by_module.

(* compile(src, pdk=name) runs a registered module of that name, for the name of every registered module *)
Theorem C15_registry_by_name info ops m : let st := rstate info ops in inb m (r_mods st) = true ->
  exists m', rstep info st (OCompileName (fst (info m))) = (ROk (Some m'), st) /\ fst (info m') = fst (info m) /\
             inb m' (r_mods st) = true.
Proof. intros st. apply compile_by_name. apply C15_registry_invariant. Qed.
Print Assumptions C15_registry_by_name.

(* compile(src) runs the default: the explicitly set one, else the only registered one; else it is rejected *)
Theorem C15_registry_by_default info ops : let st := rstate info ops in
  match default st with
  | Some m => rstep info st OCompileDefault = (ROk (Some m), st) /\ inb m (r_mods st) = true
  | None => rstep info st OCompileDefault = (RRej, st) /\ r_default st = None /\ List.length (r_mods st) <> 1%nat
  end.
Proof. intros st. apply compile_by_default. apply C15_registry_invariant. Qed.
Print Assumptions C15_registry_by_default.

(* one registered PDK: the three forms reach it and leave the registry as it is *)
Theorem C15_registry ops info m : let st := rstate info ops in r_mods st = [m] ->
  rstep info st OCompileDefault = (ROk (Some m), st) /\
  rstep info st (OCompileName (fst (info m))) = (ROk (Some m), st) /\
  rstep info st (OCompileMod m) = (ROk (Some m), st).
Proof. intros st. apply compile_same_pdk. apply C15_registry_invariant. Qed.
Print Assumptions C15_registry.

(* several registered PDKs and an explicit default *)
Theorem C15_registry_explicit_default ops info m : let st := rstate info ops in r_default st = Some m ->
  rstep info st OCompileDefault = (ROk (Some m), st) /\ rstep info st (OCompileMod m) = (ROk (Some m), st).
Proof. intros st. apply compile_explicit_default. apply C15_registry_invariant. Qed.
Print Assumptions C15_registry_explicit_default.

(* ================================================================ 5. selection is sound and complete w.r.t. the specification *)
(* the device of every built call is a table entry of the PDK that SATISFIES the request (Spec/PdkSpec.v) *)
Theorem C15_select_sound k g prm d f : conv_g k g prm = SOk (d, f) -> (k = Sample -> mem (pm_tp prm) mos_types = true) ->
  exists e, In e (table k g) /\ snd e = d /\ satisfies k g prm e = true.
Proof.
  intros H HS. destruct (conv_sel _ _ _ _ H) as [e [S E]]. destruct (sel_sound _ _ _ _ S HS) as [A B].
  exists e. cbn [fst] in E. auto.
Qed.
Print Assumptions C15_select_sound.

(* the statement of DESIGN 6.14: selection by (type, family, threshold) returns a device whose key holds all three *)
Theorem C15_select_sound_triple k prm d f : by_name_pdk k = true -> pm_model prm = None -> conv_g k GMos prm = SOk (d, f) ->
  exists e, In e (table k GMos) /\ snd e = d /\
            In (pm_tp prm) (fst e) /\ In (pm_fam prm) (fst e) /\ In (pm_vth prm) (fst e).
Proof.
  intros K M H. destruct (C15_select_sound k GMos prm d f H) as [e [A [B C]]]; [destruct k; discriminate|].
  exists e. split; [exact A|]. split; [exact B|]. destruct k; try discriminate K; cbn [satisfies] in C; rewrite M in C;
    apply andb_true_iff in C; destruct C as [C C3]; apply andb_true_iff in C; destruct C as [C1 C2];
    rewrite <- !mem_In; auto.
Qed.
Print Assumptions C15_select_sound_triple.

(* conversely: no satisfying entry => the descriptive "No ... module" error; exactly one => that entry;
   several => the first in table order (GF180 by triple: the descriptive "not well-defined" error) *)
Theorem C15_select_complete k g prm : k <> Sample -> (exists p, group_of k p = Some g) ->
  match candidates k g prm with
  | [] => sel_entry k g prm = SErr ENoDevice
  | [e] => sel_entry k g prm = SOk e
  | e :: _ :: _ =>
      match k, g, pm_model prm with
      | Gf180, GMos, None => sel_entry k g prm = SErr EAmbiguous
      | _, _, _ => sel_entry k g prm = SOk e
      end
  end.
Proof. apply sel_complete. Qed.
Print Assumptions C15_select_complete.

(* ================================================================ 6. a device call or a descriptive error — never an escaping lookup failure *)
(* for every mapped primitive and ALL parameter values allowed by the primitives' parameter classes: the outcome is
   a call on a table entry, or one of the raised errors (ENoDevice, EAmbiguous, EBadParam) — EEscape (KeyError of a
   default table, StopIteration, unbound modparams, TypeError of a parameter-class mismatch) is unreachable *)
Theorem C15_select_or_error k p g prm : group_of k p = Some g -> prm_wf k g prm = true ->
  match conv_g k g prm with
  | SOk (d, _) => exists e, sel_entry k g prm = SOk e /\ In e (table k g) /\ snd e = d
  | SErr x => x <> EEscape
  end.
Proof.
  intros G WF. destruct (sel_entry k g prm) as [e|x] eqn:S.
  - pose proof (sel_in _ _ _ _ S) as I.
    destruct (conv_total k g prm e S (entries_ok k g e I) WF) as [[f C]|C]; rewrite C; [eauto|discriminate].
  - rewrite (conv_sel_err k g prm x (ex_intro _ p G) S).
    destruct (sel_err_desc k g prm x S (group_of_mapped _ _ _ G)) as [E|E]; rewrite E; discriminate.
Qed.
Print Assumptions C15_select_or_error.

(* prm_wf demands NUMERIC diode sizes, and it must: DiodeParams allows Literal sizes, and for those both walkers
   multiply two Literals — an escaping TypeError (recorded findings C15:escape:<pdk>:Diode:<model>:literal).
   The statement with the weaker hypothesis "every size is absent, a number or a Literal" is refuted: *)
Definition lit_diode (m : string) : pparams :=
  {| pm_model := Some m; pm_tp := ""; pm_fam := ""; pm_vth := ""; pm_w := Some (PLit "a"); pm_l := Some (PLit "b");
     pm_nf := None; pm_mult := None |}.
Theorem C15_select_or_error_literal_diode_refuted :
  ~ (forall k p g prm, group_of k p = Some g -> scalar_ok (pm_w prm) = true -> scalar_ok (pm_l prm) = true ->
                       conv_g k g prm <> SErr EEscape).
Proof. intros H. apply (H Sky130 Diode GDiode (lit_diode "PWND_5p5V")); vm_compute; reflexivity. Qed.
Print Assumptions C15_select_or_error_literal_diode_refuted.

Theorem C15_literal_diode_witnesses :
  conv_g Sky130 GDiode (lit_diode "PWND_5p5V") = SErr EEscape /\ conv_g Gf180 GDiode (lit_diode "ND2PS_3p3V") = SErr EEscape.
Proof. vm_compute. split; reflexivity. Qed.
Print Assumptions C15_literal_diode_witnesses.

(* selection succeeds => the call is built, unless a parameter VALUE is rejected (ValueError: non-positive size in the
   sample PDK, non-integral multiplier of a Sky130 capacitor / bipolar) *)
Theorem C15_selected_is_built k g prm e : sel_entry k g prm = SOk e -> prm_wf k g prm = true ->
  (exists f, conv_g k g prm = SOk (snd e, f)) \/ conv_g k g prm = SErr EBadParam.
Proof. intros S WF. apply conv_total; [exact S| |exact WF]. apply entries_ok. apply (sel_in _ _ _ _ S). Qed.
Print Assumptions C15_selected_is_built.

(* ================================================================ 7. every model name of every key selects its entry *)
Theorem C15_model_name_total k g e m prm : by_name_pdk k = true -> In e (table k g) -> In m (key_names (fst e)) ->
  pm_model prm = Some m -> sel_entry k g prm = SOk e.
Proof. apply model_name_total. Qed.
Print Assumptions C15_model_name_total.

(* and every Sky130 / GF180 device has a model name: every entry of every table is reachable *)
Theorem C15_every_device_reachable k g e : by_name_pdk k = true -> In e (table k g) ->
  exists m, In m (key_names (fst e)) /\ forall prm, pm_model prm = Some m -> sel_entry k g prm = SOk e.
Proof.
  intros K I. destruct (model_name_exists k g e K I) as [m M]. exists m. split; [exact M|].
  intros prm H. apply (model_name_total k g e m prm K I M H).
Qed.
Print Assumptions C15_every_device_reachable.

(* ================================================================ 8. ports *)
(* The EXACT lists of (PDK, primitive, model) whose device does not have the primitive's port list.
   ports_unconnected: the device has a terminal the primitive lacks — the instance is left with an unconnected port
     and cannot be netlisted (recorded in tools/findings/C15.json):
     (a) devices with a terminal no generic primitive has (keys C15:ports:<pdk>:<primitive>:<model>);
     (b) the resistor / capacitor tables are shared by the two- and the three-terminal primitive: a three-terminal
         model requested through the two-terminal primitive leaves `b` unconnected (keys C15:arity:<pdk>:<primitive>).
   ports_dangling: a two-terminal model requested through the three-terminal primitive — every device port is still
     connected exactly once; the primitive's connection to `b` names no device port (the netlisters drop it). *)
Definition ports_unconnected : list (pdk * prim * list string) :=
  [ (Sky130, Mos, ["NMOS_ISO_20p0V"]);
    (Sky130, Bipolar, ["NPN_5p0V_1x2"; "NPN_11p0V_1x1"; "NPN_5p0V_1x1"]);
    (Gf180, Bipolar, ["NPN_10p0x10p0"; "NPN_5p0x5p0"; "NPN_0p54x16p0"; "NPN_0p54x8p0"; "NPN_0p54x4p0"; "NPN_0p54x2p0"]);
    (Sky130, PRes, ["GEN_ND"; "GEN_PD"; "GEN_ISO_PW"; "PP_PREC_0p35"; "PP_PREC_0p69"; "PP_PREC_1p41"; "PP_PREC_2p85"; "PP_PREC_5p73";
                    "PM_PREC_0p35"; "PM_PREC_0p69"; "PM_PREC_1p41"; "PM_PREC_2p85"; "PM_PREC_5p73"]);
    (Sky130, PCap, ["VAR_LVT"; "VAR_HVT"]);
    (Gf180, PRes, ["NPLUS_U"; "PPLUS_U"; "NPLUS_S"; "PPLUS_S"; "NWELL"; "NPOLYF_U"; "PPOLYF_U"; "NPOLYF_S"; "PPOLYF_S";
                   "PPOLYF_U_1K"; "PPOLYF_U_2K"; "PPOLYF_U_1K_6P0"; "PPOLYF_U_2K_6P0"; "PPOLYF_U_3K"]) ].

Definition ports_dangling : list (pdk * prim * list string) :=
  [ (Sky130, TRes, ["GEN_PO"; "GEN_L1"; "GEN_M1"; "GEN_M2"; "GEN_M3"; "GEN_M4"; "GEN_M5"]);
    (Sky130, TCap, ["MIM_M3"; "MIM_M4"]);
    (Gf180, TRes, ["RM1"; "RM2"; "RM3"; "TM6K"; "TM9K"; "TM11K"; "TM30K"]);
    (Gf180, TCap, ["MIM_1p5fF"; "MIM_1p0fF"; "MIM_2p0fF"; "PMOS_3p3V"; "NMOS_6p0V"; "PMOS_6p0V"; "NMOS_3p3V";
                   "NMOS_Nwell_3p3V"; "PMOS_Pwell_3p3V"; "NMOS_Nwell_6p0V"; "PMOS_Pwell_6p0V"]) ].

Definition ports_exceptions := ports_unconnected ++ ports_dangling.

(* for every device reachable from primitive p: its ordered port list equals p's EXACTLY WHEN it is not listed *)
Theorem C15_ports_match k p g e : group_of k p = Some g -> In e (table k g) ->
  ports_ok p e = negb (is_exc ports_exceptions k p (model_of e)).
Proof. apply ports_lift. vm_compute. reflexivity. Qed.
Print Assumptions C15_ports_match.

(* its ports are among p's (so p's connections connect every device port) EXACTLY WHEN it is not in ports_unconnected *)
Theorem C15_ports_covered k p g e : group_of k p = Some g -> In e (table k g) ->
  ports_sub p e = negb (is_exc ports_unconnected k p (model_of e)).
Proof. apply ports_lift. vm_compute. reflexivity. Qed.
Print Assumptions C15_ports_covered.

(* every listed exception is a model of the table it is listed for *)
Theorem C15_ports_exceptions_present : exc_present ports_exceptions = true.
Proof. vm_compute. reflexivity. Qed.
Print Assumptions C15_ports_exceptions_present.

(* the unrestricted statements are false: the recorded witnesses *)
Theorem C15_ports_match_refuted :
  ~ (forall k p g e, group_of k p = Some g -> In e (table k g) -> ports_sub p e = true) /\
  ~ (forall k p g e, group_of k p = Some g -> In e (table k g) -> ports_ok p e = true).
Proof.
  assert (X : existsb (fun e => negb (ports_sub Mos e) && negb (ports_ok Mos e)) (table Sky130 GMos) = true) by (vm_compute; reflexivity).
  apply existsb_exists in X. destruct X as [e [I N]]. apply andb_true_iff in N. destruct N as [N1 N2].
  split; intros H; rewrite (H Sky130 Mos GMos e eq_refl I) in *; discriminate.
Qed.
Print Assumptions C15_ports_match_refuted.

Theorem C15_ports_witnesses :
  (exists e, In e (table Sky130 GMos) /\ model_of e = "NMOS_ISO_20p0V" /\ dev_ports (snd e) = ["g"; "d"; "s"; "b"; "sub"]) /\
  (exists e, In e (table Sky130 GBjt) /\ model_of e = "NPN_5p0V_1x2" /\ dev_ports (snd e) = ["c"; "b"; "e"; "s"]) /\
  (exists e, In e (table Gf180 GBjt) /\ model_of e = "NPN_5p0x5p0" /\ dev_ports (snd e) = ["c"; "b"; "e"; "s"]) /\
  (exists e, In e (table Sky130 GRes) /\ model_of e = "GEN_ND" /\ dev_ports (snd e) = ["p"; "n"; "b"]).
Proof. repeat split; apply witness_lift; vm_compute; reflexivity. Qed.
Print Assumptions C15_ports_witnesses.

(* consequence: an instance whose connections connect the primitive's ports, compiled to a device not in
   ports_unconnected, connects every device port (connections are a map: exactly once); if the device is in neither
   list the connections name exactly the device's ports *)
Theorem C15_swapped_instance_valid k p g prm d f l conns : group_of k p = Some g -> prim_ports p = Some l ->
  conv_g k g prm = SOk (d, f) ->
  exists e, In e (table k g) /\ snd e = d /\
            (is_exc ports_unconnected k p (model_of e) = false -> ports_connected l conns = true ->
             ports_connected (dev_ports d) conns = true) /\
            (is_exc ports_exceptions k p (model_of e) = false -> conns_exact l conns = true ->
             conns_exact (dev_ports d) conns = true).
Proof.
  intros G P H. destruct (conv_sel _ _ _ _ H) as [e [S E]]. cbn [fst] in E. pose proof (sel_in _ _ _ _ S) as I.
  exists e. split; [exact I|]. split; [auto|]. rewrite E. split; intros X C.
  - apply (ports_sub_connected p e conns l P); [|exact C]. rewrite (C15_ports_covered k p g e G I), X. reflexivity.
  - apply (ports_ok_exact p e conns l P); [|exact C]. rewrite (C15_ports_match k p g e G I), X. reflexivity.
Qed.
Print Assumptions C15_swapped_instance_valid.

(* ================================================================ 9. default sizes, device names *)
Theorem C15_defaults_total k g e : In e (table k g) -> default_size k (snd e) <> None.
Proof. intros I. pose proof (defaults_checked k g e I) as C. unfold defaults_check in C. destruct (default_size k (snd e)); [discriminate|discriminate C]. Qed.
Print Assumptions C15_defaults_total.

(* the tables the walkers index (use_defaults, default_prec_res_L) have the device, and the device takes the parameter
   class the walker constructs *)
Theorem C15_walker_lookups_total k g e : In e (table k g) -> entry_ok k g e = true.
Proof. apply entries_ok. Qed.
Print Assumptions C15_walker_lookups_total.

(* every device name is a netlist identifier and no device repeats a port name *)
Theorem C15_device_names_ok k g e : In e (table k g) -> ident_ok (dev_name (snd e)) = true /\ nodupb (dev_ports (snd e)) = true.
Proof. intros I. pose proof (devices_checked k g e I) as C. unfold device_check in C. apply andb_true_iff in C. exact C. Qed.
Print Assumptions C15_device_names_ok.

(* ================================================================ non-vacuity *)
Definition prm0 : pparams :=
  {| pm_model := None; pm_tp := "MosType.NMOS"; pm_fam := "MosFamily.NONE"; pm_vth := "MosVth.STD";
     pm_w := None; pm_l := None; pm_nf := None; pm_mult := None |}.
Definition prm_model (m : string) : pparams :=
  {| pm_model := Some m; pm_tp := "MosType.NMOS"; pm_fam := "MosFamily.NONE"; pm_vth := "MosVth.STD";
     pm_w := Some (PNum 3 2000000); pm_l := None; pm_nf := None; pm_mult := Some (PNum 2 1) |}.
Definition prm_triple (tp fam vth : string) : pparams :=
  {| pm_model := None; pm_tp := tp; pm_fam := fam; pm_vth := vth; pm_w := None; pm_l := None; pm_nf := None; pm_mult := None |}.

(* a hierarchy with a shared sub-module, a repeated request, an unmapped primitive and an external call *)
Definition ex_inner : module :=
  Mod "Inner" (ICons "m0" [("d", "a"); ("g", "b"); ("s", "c"); ("b", "c")] (TPrim Mos (prm_model "NMOS_1p8V_STD"))
              (ICons "r0" [("p", "a"); ("n", "b")] (TPrim (POther "IdealResistor") prm0)
              (ICons "x0" [("a", "a")] (TExt "Ext") INil))).
Definition ex_top : module :=
  Mod "Top" (ICons "i0" [("a", "x"); ("b", "y"); ("c", "z")] (TMod ex_inner)
            (ICons "i1" [("a", "y"); ("b", "x"); ("c", "z")] (TMod ex_inner)
            (ICons "m1" [("d", "x"); ("g", "y"); ("s", "z"); ("b", "z")] (TPrim Mos (prm_triple "MosType.PMOS" "MosFamily.CORE" "MosVth.LOW"))
            INil))).

Example C15_ex_compile :
  match compile Sky130 st0 ex_top with
  | SOk (m', st') =>
    List.length (swaps_m Sky130 ex_top m') = 3%nat /\                      (* three swapped positions ... *)
    List.length (cache st') = 2%nat /\                                      (* ... two distinct requests: two calls *)
    ng_m Sky130 ex_top = false /\ ng_m Sky130 m' = true /\
    names_conns (insts_m m') = names_conns (insts_m ex_top) /\ List.length (insts_m m') = 9%nat /\
    compile Sky130 st' m' = SOk (m', st')
  | SErr _ => False
  end.
Proof. vm_compute. repeat split. Qed.

(* the selection outcomes the theorems distinguish *)
Example C15_ex_select :
  (exists f, conv_g Gf180 GMos (prm_triple "MosType.NMOS" "MosFamily.CORE" "MosVth.STD")
             = SOk (("nfet_03v3", ["d"; "g"; "s"; "b"], "MosParams"), f)) /\
  conv_g Gf180 GMos (prm_triple "MosType.NMOS" "MosFamily.NONE" "MosVth.STD") = SErr EAmbiguous /\
  conv_g Gf180 GMos (prm_triple "MosType.NMOS" "MosFamily.CORE" "MosVth.HIGH") = SErr ENoDevice /\
  conv_g Sky130 GMos (prm_triple "MosType.NMOS" "MosFamily.CORE" "MosVth.HIGH") = SErr ENoDevice /\
  conv_g Sky130 GRes (prm_model "NO_SUCH") = SErr ENoDevice /\
  conv_g Sky130 GCap {| pm_model := Some "MIM_M3"; pm_tp := ""; pm_fam := ""; pm_vth := ""; pm_w := None; pm_l := None;
                        pm_nf := None; pm_mult := Some (PStr "two") |} = SErr EBadParam /\
  prm_wf Sky130 GMos (prm_model "NMOS_1p8V_STD") = true /\ prm_wf Gf180 GDiode prm0 = true /\
  List.length (candidates Gf180 GMos (prm_triple "MosType.NMOS" "MosFamily.NONE" "MosVth.STD")) = 2%nat /\
  List.length (candidates Sky130 GMos (prm_triple "MosType.PMOS" "MosFamily.CORE" "MosVth.LOW")) = 1%nat.
Proof. split; [eexists; vm_compute; reflexivity|]. vm_compute. repeat split. Qed.

(* the registry: the pinned-tree witness history (compile by module first), then by name and by default *)
Example C15_ex_registry :
  let info : minfo := fun m => if (m =? 0)%N then ("pdk_a", true) else if (m =? 1)%N then ("pdk_b", true) else ("bad", false) in
  fst (rrun info r0 [OCompileMod 0; OCompileName "pdk_a"; OCompileDefault; OCompileMod 1; OCompileDefault; OCompileMod 2;
                     OSetDefaultMod 1; OCompileDefault; OCompileName "nope"])
  = [ROk (Some 0%N); ROk (Some 0%N); ROk (Some 0%N); ROk (Some 1%N); RRej; RRej; ROk None; ROk (Some 1%N); RRej] /\
  r_mods (rstate info [OCompileMod 0]) = [0%N].
Proof. vm_compute. split; reflexivity. Qed.

(* the exception list is exact in both directions on concrete entries *)
Example C15_ex_ports :
  is_exc ports_exceptions Sky130 Mos "NMOS_ISO_20p0V" = true /\ is_exc ports_exceptions Sky130 Mos "NMOS_20p0V_STD" = false /\
  is_exc ports_exceptions Sky130 TRes "GEN_ND" = false /\ is_exc ports_exceptions Sky130 PRes "GEN_ND" = true /\
  conns_exact ["d"; "g"; "s"; "b"] [("d", "x"); ("g", "y"); ("s", "z"); ("b", "z")] = true /\
  conns_exact ["g"; "d"; "s"; "b"; "sub"] [("d", "x"); ("g", "y"); ("s", "z"); ("b", "z")] = false.
Proof. vm_compute. repeat split. Qed.

(* ================================================================ 11. shared module objects, compilations that raise, several PDKs *)
(* Model/C15Store.v: the design is the module TABLE (a module that several instances refer to is one object, rewritten
   in place), `svisit fuel k s st i` = one walk of PDK k entering module i from store s, returning the store and walker
   state it REACHED and the exception that ended it (None: it returned); `hrun ops (h0 s)` = a history of compilations
   (pdk, entered module) in one process, each going on from whatever the earlier ones - returned or raised - left.
   `srel Q s s'`: s' is s with the same modules, instance names, connections and sub-module references, every target
   either identical or a generic primitive replaced by a call allowed by Q. *)

(* 11.1 only Instance.of of mapped primitives is rewritten - in every module of the store, also when the walk raises;
        the replacing call is the one the final cache holds for the request's key *)
Theorem C15_store_only_of k fuel s st i s' st' e : svisit fuel k s st i = (s', st', e) ->
  srel (Qin k (cache st')) s s' /\ cache_ext (cache st) (cache st') /\ (cache_ok k (cache st) -> cache_ok k (cache st')).
Proof. intros H. destruct (svisit_rel' _ _ _ _ _ _ _ _ H) as (A & B & C). auto. Qed.
Print Assumptions C15_store_only_of.

(* 11.2 EVERY instance: a walk that returns leaves no generic primitive mapped by k in any module reachable from the
        one it entered - from ANY store (whatever earlier walks of whatever PDK did to it, completely or partially)
        and ANY walker state.  A walker that remembers modules across walks violates exactly this. *)
Theorem C15_store_every_instance k fuel s st i s' st' : svisit fuel k s st i = (s', st', None) -> cleanR k s' i.
Proof. apply svisit_clean. Qed.
Print Assumptions C15_store_every_instance.

(* 11.3 well-formed store (bottom-up DAG, what elaboration yields): neither fuel nor references run out *)
Theorem C15_store_total k s st i : wf s -> (i < List.length s)%nat -> benign (snd (svisit (fuel_of s) k s st i)).
Proof. intros W L. apply svisit_total; auto. unfold fuel_of. lia. Qed.
Print Assumptions C15_store_total.

(* 11.4 a walk that raises the selection error e was given, below the module it entered, a mapped request for which
        the selection returns e; a walk that returns was given only requests the selection accepts, and each of them
        now holds the selected call *)
Theorem C15_store_error_justified k fuel s st i s' st' e : svisit fuel k s st i = (s', st', Some (SE e)) -> failing k s i e.
Proof. apply svisit_err. Qed.
Print Assumptions C15_store_error_justified.

(* 11.5 modules not reachable from the entered one are left exactly as they were *)
Theorem C15_store_unreached_untouched k fuel s st i x : ~ reach s i x ->
  nth_error (fst (fst (svisit fuel k s st i))) x = nth_error s x.
Proof. apply svisit_frame. Qed.
Print Assumptions C15_store_unreached_untouched.

(* 11.6 compiling twice equals compiling once, on shared objects: after a walk that returned, another walk of the same
        PDK from any walker state returns the same store and leaves the state as it was *)
Theorem C15_store_idempotent k fuel s st i s' st' : svisit fuel k s st i = (s', st', None) -> wf s -> (i < List.length s)%nat ->
  forall st2, svisit (fuel_of s') k s' st2 i = (s', st2, None).
Proof.
  intros H W L st2. destruct (svisit_rel' _ _ _ _ _ _ _ _ H) as (_ & B & _).
  apply svisit_noop; [eapply srel_wf; eauto|eapply svisit_clean; eauto| |]; unfold fuel_of; rewrite <- (srel_len _ _ _ B); lia.
Qed.
Print Assumptions C15_store_idempotent.

(* 11.7 the specification relation of Spec/C15Swap.v holds between the hierarchy below the entered module before and
        after a walk that returned (unfolded to any depth): the store walker meets the same specification as the tree
        walker of theorem C15_walker_only_of *)
Theorem C15_store_swap_rel k fuel s st i s' st' : svisit fuel k s st i = (s', st', None) ->
  forall n, mrel k (in_cache (cache st')) (unfold n s i) (unfold n s' i).
Proof.
  intros H n. destruct (svisit_rel' _ _ _ _ _ _ _ _ H) as (_ & B & _). apply unfold_rel; [exact B|]. eapply svisit_clean; eauto.
Qed.
Print Assumptions C15_store_swap_rel.

(* 11.8 equal primitive parameters give the same device call: any two positions of the store swapped by one walk
        (also one that raised later) with the same cache group and parameters hold the identical call *)
Theorem C15_store_same_call k fuel s st i s' st' e j1 q1 j2 q2 p1 p2 prm c1 c2 : svisit fuel k s st i = (s', st', e) ->
  get_target s j1 q1 = Some (SPrim p1 prm) -> get_target s' j1 q1 = Some (SCall c1) ->
  get_target s j2 q2 = Some (SPrim p2 prm) -> get_target s' j2 q2 = Some (SCall c2) ->
  group_of k p1 = group_of k p2 -> c1 = c2.
Proof.
  intros H A1 B1 A2 B2 G. destruct (svisit_rel' _ _ _ _ _ _ _ _ H) as (_ & R & _).
  destruct (srel_get_l _ _ _ _ _ _ R A1) as [t1 [E1 T1]]. destruct (srel_get_l _ _ _ _ _ _ R A2) as [t2 [E2 T2]].
  rewrite B1 in E1. rewrite B2 in E2. inversion E1; subst. inversion E2; subst.
  destruct T1 as [X|(p & pr & c & X1 & X2 & (g & Gp & L))]; [discriminate X|].
  destruct T2 as [Y|(p' & pr' & c' & Y1 & Y2 & (g' & Gp' & L'))]; [discriminate Y|].
  inversion X1; subst. inversion X2; subst. inversion Y1; subst. inversion Y2; subst.
  rewrite Gp, Gp' in G. inversion G; subst. congruence.
Qed.
Print Assumptions C15_store_same_call.

(* ... and across walks of the same PDK whose cache persists (Sky130 / GF180: module scope): a position swapped by an
   earlier walk and one swapped by a later walk that started from a cache extending the earlier one's *)
Theorem C15_store_same_call_across k f1 s st i1 s1 st1 e1 f2 sa st2 i2 s2 st3 e2 j1 q1 j2 q2 p1 p2 prm c1 c2 :
  svisit f1 k s st i1 = (s1, st1, e1) -> cache_ext (cache st1) (cache st2) -> svisit f2 k sa st2 i2 = (s2, st3, e2) ->
  get_target s j1 q1 = Some (SPrim p1 prm) -> get_target s1 j1 q1 = Some (SCall c1) ->
  get_target sa j2 q2 = Some (SPrim p2 prm) -> get_target s2 j2 q2 = Some (SCall c2) ->
  group_of k p1 = group_of k p2 -> c1 = c2.
Proof.
  intros H1 X H2 A1 B1 A2 B2 G.
  destruct (svisit_rel' _ _ _ _ _ _ _ _ H1) as (_ & R1 & _). destruct (svisit_rel' _ _ _ _ _ _ _ _ H2) as (X2 & R2 & _).
  destruct (srel_get_l _ _ _ _ _ _ R1 A1) as [t1 [E1 T1]]. destruct (srel_get_l _ _ _ _ _ _ R2 A2) as [t2 [E2 T2]].
  rewrite B1 in E1. rewrite B2 in E2. inversion E1; subst. inversion E2; subst.
  destruct T1 as [Y|(p & pr & c & Y1 & Y2 & (g & Gp & L))]; [discriminate Y|].
  destruct T2 as [Z|(p' & pr' & c' & Z1 & Z2 & (g' & Gp' & L'))]; [discriminate Z|].
  inversion Y1; subst. inversion Y2; subst. inversion Z1; subst. inversion Z2; subst.
  rewrite Gp, Gp' in G. inversion G; subst. apply X in L. apply X2 in L. congruence.
Qed.
Print Assumptions C15_store_same_call_across.

(* ---- histories: one or several PDKs, any number of compilations, entered at any module, returning or raising *)
(* 11.9 after ANY history the store is the initial one with only targets of generic primitives replaced, each by the
        call that the selection of one of the history's PDKs (one that maps the primitive) builds for the request *)
Theorem C15_history_only_of ops s h es : hrun ops (h0 s) = (h, es) -> srel (Qany (map fst ops)) s (h_store h).
Proof. intros H. apply (proj1 (hrun_rel _ _ _ _ H (hinv_h0 s))). Qed.
Print Assumptions C15_history_only_of.

(* 11.10 after ANY history - compilations to other PDKs that mapped only some primitive kinds, compilations that raised
         halfway through shared sub-modules - a compilation that returns has replaced EVERY instance of a mapped
         primitive below the module it entered, each by the selected call, and on a well-formed store its outcome is
         exactly: returned, or raised a selection error that some mapped request below that module produces *)
Theorem C15_history_every_instance ops s h es k top h' : hrun ops (h0 s) = (h, es) -> hstep k top h = (h', None) ->
  cleanR k (h_store h') top /\
  forall j n c p prm g, reach (h_store h) top j -> In (n, c, SPrim p prm) (mod_insts (h_store h) j) -> group_of k p = Some g ->
    exists cl, conv_g k g prm = SOk (c_spec cl) /\ In (n, c, SCall cl) (mod_insts (h_store h') j).
Proof.
  intros H S. split; [eapply hstep_clean; eauto|]. apply (hstep_ok_requests _ _ _ _ S).
  apply (proj2 (hrun_rel _ _ _ _ H (hinv_h0 s))).
Qed.
Print Assumptions C15_history_every_instance.

Theorem C15_history_outcome ops s h es k top h' e : wf s -> (top < List.length s)%nat ->
  hrun ops (h0 s) = (h, es) -> hstep k top h = (h', e) ->
  match e with
  | None => cleanR k (h_store h') top
  | Some (SE er) => failing k (h_store h) top er
  | Some _ => False
  end.
Proof.
  intros W L H S. pose proof (proj1 (hrun_rel _ _ _ _ H (hinv_h0 s))) as R. cbn [h0 h_store] in R.
  pose proof (hstep_total _ _ _ _ _ S (srel_wf _ _ _ R W) ltac:(rewrite <- (srel_len _ _ _ R); exact L)) as B.
  destruct e as [[er| |]|]; cbn in B; try contradiction.
  - eapply hstep_err; eauto.
  - eapply hstep_clean; eauto.
Qed.
Print Assumptions C15_history_outcome.

(* non-vacuity: the hierarchy of the seeded change - Leaf (a low-threshold core Nmos and a poly resistor) shared by Mid and Top *)
Definition ex_store : store :=
  [ ("Leaf", [ ("m", [("d", "d"); ("g", "g"); ("s", "s"); ("b", "b")], SPrim Mos (prm_triple "MosType.NMOS" "MosFamily.CORE" "MosVth.LOW"));
               ("r", [("p", "d"); ("n", "s")], SPrim PRes (prm_model "GEN_PO")) ]);
    ("Mid",  [ ("l0", [("d", "a"); ("g", "b")], SMod 0) ]);
    ("Top",  [ ("mid", [("a", "x"); ("b", "y")], SMod 1); ("l1", [("d", "y"); ("g", "x")], SMod 0) ]) ].

Definition is_call (o : option starget) : bool := match o with Some (SCall _) => true | _ => false end.

(* GF180 has no such Nmos: its compilation raises; Sky130 then replaces both primitives of the shared Leaf *)
Example C15_ex_history_after_failure :
  let '(h, es) := hrun [(Gf180, 2%nat); (Sky130, 2%nat)] (h0 ex_store) in
  es = [Some (SE ENoDevice); None] /\
  is_call (get_target (h_store h) 0 0) = true /\ is_call (get_target (h_store h) 0 1) = true.
Proof. vm_compute. repeat split. Qed.

(* the sample PDK maps the Mos alone and returns; Sky130 then maps the resistor; a third compilation changes nothing *)
Example C15_ex_history_partial_pdk :
  let '(h1, es1) := hrun [(Sample, 2%nat)] (h0 ex_store) in
  let '(h2, es2) := hrun [(Sky130, 2%nat)] h1 in
  es1 = [None] /\ es2 = [None] /\
  is_call (get_target (h_store h1) 0 0) = true /\ is_call (get_target (h_store h1) 0 1) = false /\
  get_target (h_store h2) 0 0 = get_target (h_store h1) 0 0 /\ is_call (get_target (h_store h2) 0 1) = true /\
  h_store (fst (hrun [(Sky130, 2%nat); (Sample, 1%nat)] h2)) = h_store h2 /\
  wf ex_store.
Proof.
  vm_compute. repeat split.
  intros i n c j H. destruct i as [|[|[|i]]]; cbn in H.
  - destruct H as [H|[H|[]]]; discriminate H.
  - destruct H as [H|[]]. inversion H. lia.
  - destruct H as [H|[H|[]]]; inversion H; lia.
  - destruct i; destruct H.
Qed.
