(* Props/C19.v — Built-in generators build the documented topologies.
   Statements only; proofs are in Proofs/C19Proofs.v.  The model (Model/C19Series.v) is the repaired
   generators.py (fixes/C19-1..4, fixes/C19W-1) followed by array flattening (Model/Arrays.v) and the bit semantics of
   slices/concatenations (Model/Resolve.v); `unit_bits m x k p` is the list of nets (signal, bit) of the
   generated module that bit 0, 1, .. of port p of unit k ends on.  All theorems hold for EVERY n >= 2 (no bound),
   every well-formed unit (signal- and bundle-valued ports, any widths) and every ordered pair (a, b) of
   distinct signal-valued ports of ONE width w - one bit or a bus (w >= 1 follows from wf_unit) - given by name
   (a Signal is used through its name only).  Pairs of different widths: Props/C19W.v (refused at elaboration). *)
Require Import Hdl21.Base.PyInt Hdl21.Spec.PySlice Hdl21.Model.Slice Hdl21.Model.Resolve Hdl21.Model.Arrays
               Hdl21.Base.Design Hdl21.Spec.C19Topology Hdl21.Model.C19Series Hdl21.Proofs.C19Proofs.
Open Scope string_scope.
Open Scope Z_scope.

(* the instance array Series builds (w = the width of the series ports) *)
Definition units_of (u : unit) (a b : name) (w n : Z) (uname : name) : inst :=
  {| i_name := uname; i_n := n; i_of := TDev unit_dev (unit_io u);
     i_conns := map (series_conn (N.of_nat (List.length (unit_io u))) ((n - 1) * w) a b) (number (unit_io u) 0%N) |}.

(* 0. no spurious rejection, and the shape of the result: ports = the unit's leaf-level IO (signal- and
      bundle-valued), one internal bus of width (n-1)*w whose name is no port of the unit, one array of n units;
      the name search never runs out of fuel *)
Theorem C19_series_accepts u a b w n : wf_unit u = true -> 2 <= n -> a <> b ->
  assoc a (u_sigs u) = Some w -> assoc b (u_sigs u) = Some w ->
  exists iname uname, series_gen u a b n = Ok (series_module u a b w n iname uname) /\
    m_ports (series_module u a b w n iname uname) = unit_io u /\
    m_sigs (series_module u a b w n iname uname) = [(iname, (n - 1) * w)] /\
    m_insts (series_module u a b w n iname uname) = [units_of u a b w n uname] /\
    mem iname (map fst (unit_io u)) = false.
Proof.
  intros Hwf Hn _ Ha Hb. destruct (series_gen_valid u a b n w w Hwf Hn Ha Hb) as [i [un [H [Hi _]]]].
  exists i, un. repeat split; assumption.
Qed.
Print Assumptions C19_series_accepts.

(* 1. the ends, bit by bit: unit 0's first series port is the module's port a, unit n-1's second series port is port b *)
Theorem C19_series_ends u a b w n iname uname : wf_unit u = true -> 2 <= n -> a <> b ->
  assoc a (u_sigs u) = Some w -> assoc b (u_sigs u) = Some w ->
  let m := series_module u a b w n iname uname in
  unit_bits m (units_of u a b w n uname) 0 a = Ok (map (pair a) (bits_of w)) /\
  unit_bits m (units_of u a b w n uname) (n - 1) b = Ok (map (pair b) (bits_of w)) /\
  In (a, w) (m_ports m) /\ In (b, w) (m_ports m) /\ 1 <= w.
Proof.
  intros Hwf Hn Hab Ha Hb m. repeat split.
  - exact (unit_bits_first u a b w n iname uname Hwf Hn Hab Ha 0 ltac:(lia)).
  - pose proof (unit_bits_second u a b w n iname uname Hwf Hn Ha Hb (n - 1) ltac:(lia)) as H.
    rewrite Z.eqb_refl in H. exact H.
  - exact (a_in_io u a w Ha).
  - exact (b_in_io u b w Hb).
  - exact (w_pos u a w Hwf Ha).
Qed.
Print Assumptions C19_series_ends.

(* 2. the chain, bit by bit: for k < n-1, bit j of unit k's second series port and bit j of unit k+1's first are both
      bit k*w + j of the internal bus, that bus is no port of the module, and no other port of any unit has a bit on
      that net (w private nets between each pair of neighbours, (n-1)*w in all) *)
Theorem C19_series_chain u a b w n iname uname k : wf_unit u = true -> 2 <= n -> a <> b ->
  assoc a (u_sigs u) = Some w -> assoc b (u_sigs u) = Some w ->
  mem iname (map fst (unit_io u)) = false -> 0 <= k < n - 1 ->
  let m := series_module u a b w n iname uname in
  let x := units_of u a b w n uname in
  unit_bits m x k b = Ok (map (fun j => (iname, k * w + j)) (bits_of w)) /\
  unit_bits m x (k + 1) a = Ok (map (fun j => (iname, k * w + j)) (bits_of w)) /\
  ~ In iname (map fst (m_ports m)) /\
  forall j k' p wp l, 0 <= j < w -> 0 <= k' < n -> In (p, wp) (unit_io u) -> unit_bits m x k' p = Ok l -> In (iname, k * w + j) l ->
     (p = b /\ k' = k) \/ (p = a /\ k' = k + 1).
Proof.
  intros Hwf Hn Hab Ha Hb Hi Hk m x. repeat split.
  - pose proof (unit_bits_second u a b w n iname uname Hwf Hn Ha Hb k ltac:(lia)) as H.
    assert (k =? n - 1 = false) as E by lia. rewrite E in H. exact H.
  - pose proof (unit_bits_first u a b w n iname uname Hwf Hn Hab Ha (k + 1) ltac:(lia)) as H.
    assert (k + 1 =? 0 = false) as E by lia. rewrite E in H. replace (k + 1 - 1) with k in H by lia. exact H.
  - apply mem_false_iff. exact Hi.
  - intros j k' p wp l Hj Hk' Hin Hl Hin'.
    destruct (internal_bit_private u a b w n iname uname Hwf Hn Hab Ha Hb Hi k j k' p wp l Hk' Hj Hin Hl Hin') as [[? [? _]]|[? ?]]; auto.
Qed.
Print Assumptions C19_series_chain.

(* 2'. the one-bit reading of 2. (w = 1: the chain net k is bit k of the bus) *)
Theorem C19_series_chain_one_bit u a b n iname uname k : wf_unit u = true -> 2 <= n -> a <> b ->
  assoc a (u_sigs u) = Some 1 -> assoc b (u_sigs u) = Some 1 ->
  mem iname (map fst (unit_io u)) = false -> 0 <= k < n - 1 ->
  let m := series_module u a b 1 n iname uname in
  let x := units_of u a b 1 n uname in
  unit_bits m x k b = Ok [(iname, k)] /\ unit_bits m x (k + 1) a = Ok [(iname, k)] /\
  ~ In iname (map fst (m_ports m)) /\
  forall k' p wp l, 0 <= k' < n -> In (p, wp) (unit_io u) -> unit_bits m x k' p = Ok l -> In (iname, k) l ->
     (p = b /\ k' = k) \/ (p = a /\ k' = k + 1).
Proof.
  intros Hwf Hn Hab Ha Hb Hi Hk m x.
  destruct (C19_series_chain u a b 1 n iname uname k Hwf Hn Hab Ha Hb Hi Hk) as [H1 [H2 [H3 H4]]].
  change (bits_of 1) with [0] in H1, H2. cbn [map] in H1, H2. replace (k * 1 + 0) with k in H1, H2 by lia.
  repeat split; [exact H1|exact H2|exact H3|].
  intros k' p wp l Hk' Hin Hl Hin'. apply (H4 0 k' p wp l ltac:(lia) Hk' Hin Hl). replace (k * 1 + 0) with k by lia. exact Hin'.
Qed.
Print Assumptions C19_series_chain_one_bit.

(* 3. every other port of every unit is the same-named port of the module, all bits in order (whatever the width of
      the internal bus: no hypothesis on the series ports) *)
Theorem C19_series_parallel u a b w n iname uname k p wp : wf_unit u = true -> 2 <= n ->
  In (p, wp) (unit_io u) -> p <> a -> p <> b ->
  let m := series_module u a b w n iname uname in
  unit_bits m (units_of u a b w n uname) k p = Ok (map (pair p) (bits_of wp)) /\ In (p, wp) (m_ports m).
Proof.
  intros Hwf Hn Hin Hpa Hpb m. split; [|exact Hin].
  exact (unit_bits_parallel u a b ((n - 1) * w) n iname uname Hwf Hn k p wp Hin Hpa Hpb).
Qed.
Print Assumptions C19_series_parallel.

(* 4. all of 1-3 at once: the net of every bit of every unit port is the one Spec/C19Topology.v names
      (series_key), under the injective reading "bit j of chain k = bit k*w + j of the internal bus" *)
Theorem C19_series_meets_spec u a b w n iname uname k p wp :
  wf_unit u = true -> 2 <= n -> a <> b -> assoc a (u_sigs u) = Some w -> assoc b (u_sigs u) = Some w ->
  mem iname (map fst (unit_io u)) = false -> 0 <= k < n -> In (p, wp) (unit_io u) ->
  unit_bits (series_module u a b w n iname uname) (units_of u a b w n uname) k p
  = Ok (map (fun j => net_of iname w (series_key n a b k p j)) (bits_of wp)).
Proof. exact (series_model_meets_spec u a b w n iname uname k p wp). Qed.
Print Assumptions C19_series_meets_spec.

(* 4'. that reading IS injective on the keys of the stack (port keys of unit ports, chain keys with bit index < w):
       different keys are different nets of the module, so 4. determines the partition *)
Theorem C19_net_of_injective iname w (io : list (name * Z)) k1 k2 :
  mem iname (map fst io) = false ->
  (forall p j, k1 = KPort p j -> In p (map fst io)) -> (forall p j, k2 = KPort p j -> In p (map fst io)) ->
  (forall k j, k1 = KChain k j -> 0 <= j < w) -> (forall k j, k2 = KChain k j -> 0 <= j < w) ->
  net_of iname w k1 = net_of iname w k2 -> k1 = k2.
Proof. exact (net_of_injective iname w io k1 k2). Qed.
Print Assumptions C19_net_of_injective.

(* 5. nser = 1 is a plain wrapper, whatever the series ports; nser < 1 is rejected *)
Theorem C19_series_one_is_wrapper u a b : series_gen u a b 1 = wrapper_gen u.
Proof. reflexivity. Qed.
Print Assumptions C19_series_one_is_wrapper.

Theorem C19_series_nonpositive_rejected u a b n : n < 1 -> exists e, series_gen u a b n = Error e.
Proof. intros H. unfold series_gen. assert (n <? 1 = true) as -> by lia. eauto. Qed.
Print Assumptions C19_series_nonpositive_rejected.

(* 6. a series port that is not a signal-valued port of the unit (unknown name, bundle-valued port, flattened
      bundle member) is rejected; an accepted call (n >= 2) has two signal-valued series ports *)
Theorem C19_series_bad_port_rejected u a b n : 2 <= n ->
  assoc a (u_sigs u) = None \/ assoc b (u_sigs u) = None -> exists e, series_gen u a b n = Error e.
Proof. exact (series_gen_rejects u a b n). Qed.
Print Assumptions C19_series_bad_port_rejected.

(* 7. MosStack is Series over drain and source *)
Theorem C19_mosstack_is_series_ds u n : mosstack_gen u n = series_gen u "d" "s" n.
Proof. reflexivity. Qed.
Print Assumptions C19_mosstack_is_series_ds.

(* 8. Wrapper: always accepted; its ports are exactly the unit's IO (signal- and bundle-valued, leaf level),
      one instance, every port of which is wired to the same-named port of the module, all bits *)
Theorem C19_wrapper_ports u : wf_unit u = true ->
  exists iname, wrapper_gen u = Ok (wrapper_module u iname) /\
    m_ports (wrapper_module u iname) = unit_io u /\ m_sigs (wrapper_module u iname) = [] /\
    exists x, m_insts (wrapper_module u iname) = [x] /\ i_n x = 0 /\
      forall p w, In (p, w) (unit_io u) -> unit_bits (wrapper_module u iname) x 0 p = Ok (map (pair p) (bits_of w)).
Proof.
  intros Hwf. unfold wrapper_gen.
  destruct (unused_name_ok (unit_names u) "inner") as [iname [Hi _]]. rewrite Hi. cbn [bind].
  exists iname. repeat split. eexists. repeat split.
  intros p w Hin. exact (wrapper_bits u iname Hwf p w Hin).
Qed.
Print Assumptions C19_wrapper_ports.

(* 9. the invented names never take the place of a port cloned from the unit, and are always found *)
Theorem C19_internal_names_fresh names c : exists r, unused_name (name_fuel names) names c = Ok r /\ ~ In r names.
Proof. destruct (unused_name_ok names c) as [r [H F]]. exists r. split; [exact H|]. apply mem_false_iff. exact F. Qed.
Print Assumptions C19_internal_names_fresh.

(* non-vacuity: concrete instances of the hypotheses *)
Definition ex_unit : unit := {| u_sigs := [("d", 1); ("g", 1); ("s", 1); ("i", 2)]; u_buns := [("b", [("p", 1); ("q", 2)])] |}.
Example C19_ex_wf : wf_unit ex_unit = true /\ assoc "d" (u_sigs ex_unit) = Some 1 /\ assoc "s" (u_sigs ex_unit) = Some 1.
Proof. repeat split. Qed.
Example C19_ex_series :
  exists m x, mosstack_gen ex_unit 3 = Ok m /\ m_sigs m = [("i_", 2)] /\ m_insts m = [x] /\
    all_unit_bits m = Ok [ [[("d", 0)]; [("g", 0)]; [("i_", 0)]; [("i", 0); ("i", 1)]; [("b_p", 0)]; [("b_q", 0); ("b_q", 1)]];
                           [[("i_", 0)]; [("g", 0)]; [("i_", 1)]; [("i", 0); ("i", 1)]; [("b_p", 0)]; [("b_q", 0); ("b_q", 1)]];
                           [[("i_", 1)]; [("g", 0)]; [("s", 0)]; [("i", 0); ("i", 1)]; [("b_p", 0)]; [("b_q", 0); ("b_q", 1)]] ].
Proof. eexists. eexists. repeat split. Qed.
(* series ports of different widths ("d" one bit, "i" two): the generator returns a module, elaboration refuses it *)
Example C19_ex_wide_rejected : (m <- series_gen ex_unit "d" "i" 3 ;; all_unit_bits m) = Error EWidth.
Proof. reflexivity. Qed.
Example C19_ex_spec : spec_series 2 [("p", 1); ("n", 1)] "p" "n"
  = [KPort "p" 0; KPort "n" 0; KPort "p" 0; KChain 0 0; KChain 0 0; KPort "n" 0].
Proof. reflexivity. Qed.
(* two-bit series ports: three units, a four-bit private bus, bit j of unit k's "y" on bit 2k + j *)
Definition ex_wide_unit : unit := {| u_sigs := [("x", 2); ("c", 1); ("y", 2)]; u_buns := [] |}.
Example C19_ex_wide_wf : wf_unit ex_wide_unit = true /\ assoc "x" (u_sigs ex_wide_unit) = Some 2 /\ assoc "y" (u_sigs ex_wide_unit) = Some 2 /\
  valid_series ex_wide_unit "x" "y" 3 = true.
Proof. repeat split. Qed.
Example C19_ex_wide_series :
  exists m, series_gen ex_wide_unit "x" "y" 3 = Ok m /\ m_sigs m = [("i", 4)] /\
    all_unit_bits m = Ok [ [[("x", 0); ("x", 1)]; [("c", 0)]; [("i", 0); ("i", 1)]];
                           [[("i", 0); ("i", 1)]; [("c", 0)]; [("i", 2); ("i", 3)]];
                           [[("i", 2); ("i", 3)]; [("c", 0)]; [("y", 0); ("y", 1)]] ].
Proof. eexists. repeat split. Qed.
Example C19_ex_wide_spec : spec_series 2 [("x", 2); ("y", 2)] "x" "y"
  = [KPort "x" 0; KPort "x" 1; KPort "y" 0; KPort "y" 1;
     KPort "x" 0; KPort "x" 1; KChain 0 0; KChain 0 1;  KChain 0 0; KChain 0 1; KPort "y" 0; KPort "y" 1].
Proof. reflexivity. Qed.
