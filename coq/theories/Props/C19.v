(* Props/C19.v — Built-in generators build the documented topologies.
   Statements only; proofs are in Proofs/C19Proofs.v.  The model (Model/C19Series.v) is the repaired
   generators.py (fixes/C19-1..4) followed by array flattening (Model/Arrays.v) and the bit semantics of
   slices/concatenations (Model/Resolve.v); `unit_bits m x k p` is the list of nets (signal, bit) of the
   generated module that bit 0, 1, .. of port p of unit k ends on.  All theorems hold for EVERY n >= 2 (no bound),
   every well-formed unit (signal- and bundle-valued ports, any widths) and every ordered pair (a, b) of
   distinct one-bit signal-valued ports, given by name (a Signal is used through its name only). *)
Require Import Hdl21.Base.PyInt Hdl21.Spec.PySlice Hdl21.Model.Slice Hdl21.Model.Resolve Hdl21.Model.Arrays
               Hdl21.Base.Design Hdl21.Spec.C19Topology Hdl21.Model.C19Series Hdl21.Proofs.C19Proofs.
Open Scope string_scope.
Open Scope Z_scope.

(* the instance array Series builds *)
Definition units_of (u : unit) (a b : name) (n : Z) (uname : name) : inst :=
  {| i_name := uname; i_n := n; i_of := TDev unit_dev (unit_io u);
     i_conns := map (series_conn (N.of_nat (List.length (unit_io u))) n a b) (number (unit_io u) 0%N) |}.

(* 0. no spurious rejection, and the shape of the result: ports = the unit's leaf-level IO (signal- and
      bundle-valued), one internal bus of width n-1 whose name is no port of the unit, one array of n units;
      the name search never runs out of fuel *)
Theorem C19_series_accepts u a b n : wf_unit u = true -> 2 <= n -> a <> b ->
  assoc a (u_sigs u) = Some 1 -> assoc b (u_sigs u) = Some 1 ->
  exists iname uname, series_gen u a b n = Ok (series_module u a b n iname uname) /\
    m_ports (series_module u a b n iname uname) = unit_io u /\
    m_sigs (series_module u a b n iname uname) = [(iname, n - 1)] /\
    m_insts (series_module u a b n iname uname) = [units_of u a b n uname] /\
    mem iname (map fst (unit_io u)) = false.
Proof.
  intros Hwf Hn _ Ha Hb. destruct (series_gen_valid u a b n 1 1 Hwf Hn Ha Hb) as [i [un [H [Hi _]]]].
  exists i, un. repeat split; assumption.
Qed.
Print Assumptions C19_series_accepts.

(* 1. the ends: unit 0's first series port is the module's port a, unit n-1's second series port is port b *)
Theorem C19_series_ends u a b n iname uname : wf_unit u = true -> 2 <= n -> a <> b ->
  assoc a (u_sigs u) = Some 1 -> assoc b (u_sigs u) = Some 1 ->
  let m := series_module u a b n iname uname in
  unit_bits m (units_of u a b n uname) 0 a = Ok [(a, 0)] /\
  unit_bits m (units_of u a b n uname) (n - 1) b = Ok [(b, 0)] /\
  In (a, 1) (m_ports m) /\ In (b, 1) (m_ports m).
Proof.
  intros Hwf Hn Hab Ha Hb m. repeat split.
  - exact (unit_bits_first u a b n iname uname Hwf Hn Hab Ha 0 ltac:(lia)).
  - pose proof (unit_bits_second u a b n iname uname Hwf Hn Hb (n - 1) ltac:(lia)) as H.
    rewrite Z.eqb_refl in H. exact H.
  - exact (a_in_io u a Ha).
  - exact (b_in_io u b Hb).
Qed.
Print Assumptions C19_series_ends.

(* 2. the chain: for k < n-1, unit k's second series port and unit k+1's first are both bit k of the internal
      bus, that bus is no port of the module, and no other port of any unit is on that bit *)
Theorem C19_series_chain u a b n iname uname k : wf_unit u = true -> 2 <= n -> a <> b ->
  assoc a (u_sigs u) = Some 1 -> assoc b (u_sigs u) = Some 1 ->
  mem iname (map fst (unit_io u)) = false -> 0 <= k < n - 1 ->
  let m := series_module u a b n iname uname in
  let x := units_of u a b n uname in
  unit_bits m x k b = Ok [(iname, k)] /\ unit_bits m x (k + 1) a = Ok [(iname, k)] /\
  ~ In iname (map fst (m_ports m)) /\
  forall k' p w l, 0 <= k' < n -> In (p, w) (unit_io u) -> unit_bits m x k' p = Ok l -> In (iname, k) l ->
     (p = b /\ k' = k) \/ (p = a /\ k' = k + 1).
Proof.
  intros Hwf Hn Hab Ha Hb Hi Hk m x. repeat split.
  - pose proof (unit_bits_second u a b n iname uname Hwf Hn Hb k ltac:(lia)) as H.
    assert (k =? n - 1 = false) as E by lia. rewrite E in H. exact H.
  - pose proof (unit_bits_first u a b n iname uname Hwf Hn Hab Ha (k + 1) ltac:(lia)) as H.
    assert (k + 1 =? 0 = false) as E by lia. rewrite E in H. replace (k + 1 - 1) with k in H by lia. exact H.
  - apply mem_false_iff. exact Hi.
  - intros k' p w l Hk' Hin Hl Hin'.
    destruct (internal_bit_private u a b n iname uname Hwf Hn Hab Ha Hb Hi k k' p w l Hk' Hin Hl Hin') as [[? [? _]]|[? ?]]; auto.
Qed.
Print Assumptions C19_series_chain.

(* 3. every other port of every unit is the same-named port of the module, all bits in order *)
Theorem C19_series_parallel u a b n iname uname k p w : wf_unit u = true -> 2 <= n ->
  In (p, w) (unit_io u) -> p <> a -> p <> b ->
  let m := series_module u a b n iname uname in
  unit_bits m (units_of u a b n uname) k p = Ok (map (pair p) (bits_of w)) /\ In (p, w) (m_ports m).
Proof.
  intros Hwf Hn Hin Hpa Hpb m. split; [|exact Hin].
  exact (unit_bits_parallel u a b n iname uname Hwf Hn k p w Hin Hpa Hpb).
Qed.
Print Assumptions C19_series_parallel.

(* 4. all of 1-3 at once: the net of every bit of every unit port is the one Spec/C19Topology.v names
      (series_key), under the injective reading "chain k = bit k of the internal bus" *)
Theorem C19_series_meets_spec u a b n iname uname k p w :
  wf_unit u = true -> 2 <= n -> a <> b -> assoc a (u_sigs u) = Some 1 -> assoc b (u_sigs u) = Some 1 ->
  mem iname (map fst (unit_io u)) = false -> 0 <= k < n -> In (p, w) (unit_io u) ->
  unit_bits (series_module u a b n iname uname) (units_of u a b n uname) k p
  = Ok (map (fun j => net_of iname (series_key n a b k p j)) (bits_of w)).
Proof. exact (series_model_meets_spec u a b n iname uname k p w). Qed.
Print Assumptions C19_series_meets_spec.

(* 5. nser = 1 is a plain wrapper, whatever the series ports; nser < 1 is rejected *)
Theorem C19_series_one_is_wrapper u a b : series_gen u a b 1 = wrapper_gen u.
Proof. reflexivity. Qed.
Print Assumptions C19_series_one_is_wrapper.

Theorem C19_series_nonpositive_rejected u a b n : n < 1 -> exists e, series_gen u a b n = Error e.
Proof. intros H. unfold series_gen. assert (n <? 1 = true) as -> by lia. eauto. Qed.
Print Assumptions C19_series_nonpositive_rejected.

(* 6. a series port that is not a signal-valued port of the unit (unknown name, bundle-valued port, flattened
      bundle member) is rejected; an accepted call (n >= 2) has two signal-valued series ports *)
Theorem C19_series_bad_port_rejected u a b n : 2 <= n ->
  assoc a (u_sigs u) = None \/ assoc b (u_sigs u) = None -> exists e, series_gen u a b n = Error e.
Proof. exact (series_gen_rejects u a b n). Qed.
Print Assumptions C19_series_bad_port_rejected.

(* 7. MosStack is Series over drain and source *)
Theorem C19_mosstack_is_series_ds u n : mosstack_gen u n = series_gen u "d" "s" n.
Proof. reflexivity. Qed.
Print Assumptions C19_mosstack_is_series_ds.

(* 8. Wrapper: always accepted; its ports are exactly the unit's IO (signal- and bundle-valued, leaf level),
      one instance, every port of which is wired to the same-named port of the module, all bits *)
Theorem C19_wrapper_ports u : wf_unit u = true ->
  exists iname, wrapper_gen u = Ok (wrapper_module u iname) /\
    m_ports (wrapper_module u iname) = unit_io u /\ m_sigs (wrapper_module u iname) = [] /\
    exists x, m_insts (wrapper_module u iname) = [x] /\ i_n x = 0 /\
      forall p w, In (p, w) (unit_io u) -> unit_bits (wrapper_module u iname) x 0 p = Ok (map (pair p) (bits_of w)).
Proof.
  intros Hwf. unfold wrapper_gen.
  destruct (unused_name_ok (unit_names u) "inner") as [iname [Hi _]]. rewrite Hi. cbn [bind].
  exists iname. repeat split. eexists. repeat split.
  intros p w Hin. exact (wrapper_bits u iname Hwf p w Hin).
Qed.
Print Assumptions C19_wrapper_ports.

(* 9. the invented names never take the place of a port cloned from the unit, and are always found *)
Theorem C19_internal_names_fresh names c : exists r, unused_name (name_fuel names) names c = Ok r /\ ~ In r names.
Proof. destruct (unused_name_ok names c) as [r [H F]]. exists r. split; [exact H|]. apply mem_false_iff. exact F. Qed.
Print Assumptions C19_internal_names_fresh.

(* non-vacuity: concrete instances of the hypotheses *)
Definition ex_unit : unit := {| u_sigs := [("d", 1); ("g", 1); ("s", 1); ("i", 2)]; u_buns := [("b", [("p", 1); ("q", 2)])] |}.
Example C19_ex_wf : wf_unit ex_unit = true /\ assoc "d" (u_sigs ex_unit) = Some 1 /\ assoc "s" (u_sigs ex_unit) = Some 1.
Proof. repeat split. Qed.
Example C19_ex_series :
  exists m x, mosstack_gen ex_unit 3 = Ok m /\ m_sigs m = [("i_", 2)] /\ m_insts m = [x] /\
    all_unit_bits m = Ok [ [[("d", 0)]; [("g", 0)]; [("i_", 0)]; [("i", 0); ("i", 1)]; [("b_p", 0)]; [("b_q", 0); ("b_q", 1)]];
                           [[("i_", 0)]; [("g", 0)]; [("i_", 1)]; [("i", 0); ("i", 1)]; [("b_p", 0)]; [("b_q", 0); ("b_q", 1)]];
                           [[("i_", 1)]; [("g", 0)]; [("s", 0)]; [("i", 0); ("i", 1)]; [("b_p", 0)]; [("b_q", 0); ("b_q", 1)]] ].
Proof. eexists. eexists. repeat split. Qed.
Example C19_ex_wide_rejected : (m <- series_gen ex_unit "d" "i" 3 ;; all_unit_bits m) = Error EWidth.
Proof. reflexivity. Qed.
Example C19_ex_spec : spec_series 2 [("p", 1); ("n", 1)] "p" "n"
  = [KPort "p" 0; KPort "n" 0; KPort "p" 0; KChain 0 0; KChain 0 0; KPort "n" 0].
Proof. reflexivity. Qed.
