(* Props/C19.v — built-in generators build the documented topologies (theorems follow). *)
Require Import Hdl21.Base.PyInt.
