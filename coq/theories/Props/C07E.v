(* Props/C07E.v — the abstract pass manager of C07 INSTANTIATED with the concrete per-module pass models of the core
   fragment (Model/C07EConcrete.v), its hypotheses DISCHARGED, and the bridge to the whole-design pipeline models.

   Props/C07.v proves history independence for EVERY pass body that reads of a child only its views and obeys two frame
   conditions; that the real passes do was "checked by reading, validated on every run".  Here the bodies are the
   per-module functions of Model/C01EElab.v (portrefs_module, arrays_module, slices_module) and of Model/C02EPipeline.v
   (orphanage_check, conntypes_check, mark_check), dispatched on the kind of each entry of the regenerated table
   Hdl21Gen.DefaultPasses; content of a module = the module of Base/Design.v as it stands + the error that stopped it;
   bundle-level io = flattened io = its port list (no bundles in the core fragment).

   `ck` = true: with the checking entries (the manager computes C02E's checked_elab); false: without (C01E's elab_model).
   Histories: lists of Elaborate / Export / Netlist calls (calls_only), any tops, orders, groupings, repetitions.
   `reached d h m`: some call of h with in-range tops has m at or below one of its tops.
   hier_design d = Ok tt: the modules are listed in completion order (every instance target precedes its parent) - the
   convention of Base/Design.v; it is implied by Spec/WfDesign.v:wf_design (C07E_valid_is_listed_in_order). *)
From Coq Require Import String.
Require Import Hdl21.Base.PyInt Hdl21.Spec.PySlice Hdl21.Model.Slice Hdl21.Model.Resolve Hdl21.Base.Design
               Hdl21.Spec.Nets Hdl21.Spec.WfDesign Hdl21.Base.Package Hdl21.Base.PrimTable Hdl21.Spec.PkgWf Hdl21.Spec.C01ENets
               Hdl21.Model.C01EElab Hdl21.Model.C02EPipeline Hdl21.Model.C07EConcrete
               Hdl21.Proofs.C01EProofsBase Hdl21.Proofs.C01EProofsEnd Hdl21.Proofs.C02EProofsBase
               Hdl21.Proofs.C07EProofsExt Hdl21.Proofs.C07EProofsInst Hdl21.Proofs.C07EProofsChain Hdl21.Proofs.C07EProofsHist.
Require Hdl21.Props.C01E.
Open Scope Z_scope.

(* ================================================================================================ 1. the hypotheses *)

(* 1a. READ DISCIPLINE of the bodies: a concrete body depends on the children of its module only through the port lists
       the manager hands it - two lists of views that show the same (child, port list) pairs give the same result *)
Theorem C07E_read_discipline ck xi k m vs1 vs2 c :
  map (fun v => (PM.v_mid v, vports v)) vs1 = map (fun v => (PM.v_mid v, vports v)) vs2 ->
  cbody ck xi k m vs1 c = cbody ck xi k m vs2 c.
Proof.
  intros H. unfold cbody. f_equal. f_equal. unfold vdesign.
  assert (map (@PM.v_mid ports ports) vs1 = map (@PM.v_mid ports ports) vs2) as Hm.
  { pose proof (f_equal (map fst) H) as E. rewrite !map_map in E. exact E. }
  rewrite Hm. f_equal. apply map_ext. intros j.
  assert (option_map vports (find_view j vs1) = option_map vports (find_view j vs2)) as E.
  { clear Hm. revert vs2 H. induction vs1 as [|a vs1 IH]; intros [|b vs2] H; try discriminate; [reflexivity|].
    cbn [map] in H. inversion H as [[H1 H2 H3]]. cbn [find_view]. rewrite H1. destruct (Nat.eqb (PM.v_mid b) j); [cbn; congruence|].
    apply IH. exact H3. }
  destruct (find_view j vs1), (find_view j vs2); cbn [option_map] in E; try discriminate; [inversion E; congruence|reflexivity].
Qed.
Print Assumptions C07E_read_discipline.

(* 1b. ... and the whole-design functions the bodies are taken from never read more of a design than the port lists of
       what the module instantiates: two designs that agree on `target_ports` of the targets of m's instances give the
       same result, for every entry kind (ResolvePortRefs, ConnTypes, ArrayFlattener, ...) *)
Theorem C07E_passes_read_port_lists_only ck xi kind self d1 d2 m :
  (forall x, In x (m_insts m) -> target_ports d1 (i_of x) = target_ports d2 (i_of x)) ->
  kind_fn ck xi kind self d1 m = kind_fn ck xi kind self d2 m.
Proof. exact (kind_fn_ext ck xi kind self d1 d2 m). Qed.
Print Assumptions C07E_passes_read_port_lists_only.

(* 1c. FRAME CONDITIONS (frame_bundle and frame_flat of Props/C07.v at once): no modelled pass changes the port list of
       its module; EFFECTIVENESS of the flattening and the marking entry in the regenerated list; a design listed in
       completion order is a well-formed DAG of the manager.  These are all the hypotheses of Section C07. *)
Theorem C07E_hypotheses ck xi :
  (forall k m vs c, cbio (cbody ck xi k m vs c) = cbio c) /\
  PM.eff ccaches cbf = true /\ PM.eff ccaches cmk = true /\ (cbf < cmk < cP)%nat /\
  (forall d, hier_design d = Ok tt -> PM.wf_design (ckids d) = true).
Proof.
  split; [exact (cframe ck xi)|]. split; [exact cbf_eff|]. split; [exact cmk_eff|]. split; [vm_compute; lia|exact ckids_wf].
Qed.
Print Assumptions C07E_hypotheses.

(* 1d. THE TABLE.  The bridge theorems below need one of two facts about the regenerated default list, boolean, proved for
       the tree under test in Props/C07ETable.v (kept apart: history independence itself - sections 1 and 2 - holds for
       EVERY pass list) and evaluated by the correspondence run on every run:
         checked_list_ok    the effective entries are the ten kinds of Elaborator.default, in order;
         unchecked_list_ok  among the effective entries the rewriting passes are ResolvePortRefs, ArrayFlattener,
                            SliceResolver, in this order, and all others are checking / bundle / marking entries.
       The first implies the second.  (The pinned tree lists ConnTypes and Orphanage twice: their repeats share the cache
       of the first occurrence and never run - Props/C07.v; there the second fact holds and the first does not, which is
       exactly C02's pinned-tree defect.) *)
Theorem C07E_table_facts : checked_list_ok = true -> unchecked_list_ok = true.
Proof. exact checked_list_unchecked. Qed.
Print Assumptions C07E_table_facts.

Theorem C07E_valid_is_listed_in_order d : wf_design d = Ok tt -> hier_design d = Ok tt.
Proof.
  intros H. destruct (wf_design_inv d H) as [_ [_ Hm]]. unfold hier_design, each_module. apply each_from_intro.
  intros j m Hj. cbn [Nat.add]. unfold hier_module. apply all_ok_intro. intros x Hx.
  destruct (wf_module_inv d j m (Hm j m Hj)) as [_ [_ [_ Hi]]]. destruct (wf_inst_inv d j m x (Hi x Hx)) as [Ho _].
  destruct (i_of x); [|reflexivity]. apply Nat.ltb_lt in Ho. rewrite Ho. reflexivity.
Qed.
Print Assumptions C07E_valid_is_listed_in_order.

(* ================================================================================================ 2. the C07 theorems, instantiated *)

(* 2a. HISTORY INDEPENDENCE on the content: for every history h of calls over the design, once a call has reached module
       m, the content of m in the final state is `elab_mod d m` - the per-module pipeline over the WRITTEN design, a
       function of the design alone - and it is the content after the single call elaborate([m]) in a fresh process *)
Theorem C07E_history_independent ck xi d h m : hier_design d = Ok tt -> calls_only h = true -> reached d h m ->
  PM.s_content (fst (crun ck xi (cfresh d) h)) m = elab_mod ck xi d m /\
  PM.s_content (fst (crun ck xi (cfresh d) h)) m = PM.s_content (fst (cstep ck xi (cfresh d) (PM.Elaborate [m]))) m.
Proof. intros Hh. exact (hist_content ck xi d Hh h m). Qed.
Print Assumptions C07E_history_independent.

(* 2b. ... on the observable: after any history, Export / Netlist of any tops answer the list, dependencies first, of
       (m, elab_mod d m) for the modules at or below the tops - the answer of the same call in a fresh process *)
Theorem C07E_export_history_independent ck xi d h tops : hier_design d = Ok tt -> calls_only h = true ->
  PM.all_below (Datatypes.length (d_mods d)) tops = true ->
  let st := fst (crun ck xi (cfresh d) h) in
  snd (cstep ck xi st (PM.Export tops)) = PM.RPkg ccont (map (fun m => (m, elab_mod ck xi d m)) (PM.export_order (ckids d) tops)) /\
  snd (cstep ck xi st (PM.Netlist tops)) = snd (cstep ck xi st (PM.Export tops)) /\
  snd (cstep ck xi st (PM.Export tops)) = snd (cstep ck xi (cfresh d) (PM.Export tops)).
Proof. intros Hh. exact (hist_export ck xi d Hh h tops). Qed.
Print Assumptions C07E_export_history_independent.

(* 2c. IDEMPOTENCE: after any history and a call Elaborate tops, every call whose tops lie at or below `tops` returns
       the very same state (no body runs, nothing changes) *)
Theorem C07E_idempotent ck xi d h tops tops' : hier_design d = Ok tt -> calls_only h = true ->
  PM.all_below (Datatypes.length (d_mods d)) tops = true ->
  (forall t', In t' tops' -> exists t, In t tops /\ PP.desc (ckids d) t t') ->
  let st1 := fst (cstep ck xi (fst (crun ck xi (cfresh d) h)) (PM.Elaborate tops)) in
  fst (cstep ck xi st1 (PM.Elaborate tops')) = st1 /\ fst (cstep ck xi st1 (PM.Export tops')) = st1 /\
  fst (cstep ck xi st1 (PM.Netlist tops')) = st1.
Proof. intros Hh. exact (hist_idempotent ck xi d Hh h tops tops'). Qed.
Print Assumptions C07E_idempotent.

(* ================================================================================================ 3. the bridge *)

(* 3a. pass by pass over the whole design = module by module through all passes: the whole-design pipelines accept and
       return d' iff d' holds, module by module, what the manager's per-module composition `elab_mod` returns.
       (No stage changes a port list, and a stage reads other modules through their port lists only, so each stage can
       be handed the written design; then stages and modules commute.) *)
Theorem C07E_pipeline_is_per_module xi d d' :
  (unchecked_list_ok = true -> (elab_model xi d = Ok d' <-> per_module false xi d d')) /\
  (checked_list_ok = true -> hier_design d = Ok tt -> (checked_elab xi d = Ok d' <-> per_module true xi d d')).
Proof. split; [exact (elab_model_per_module xi d d')|exact (checked_elab_per_module xi d d')]. Qed.
Print Assumptions C07E_pipeline_is_per_module.

(* 3b. THE BRIDGE: the whole-design pipeline of C01E IS what the pass manager computes, in any history.
       If  slices_design (arrays_design (portrefs_design xi d))  [= elab_model xi d]  returns d', then after ANY history
       of calls every module m that a call has reached holds exactly module m of d'; and when the calls have reached every
       module, reading the manager's state as a design returns d' - and conversely, whenever that reading succeeds the
       pipeline returns the same design. *)
Theorem C07E_manager_is_pipeline xi d h : unchecked_list_ok = true -> hier_design d = Ok tt -> calls_only h = true ->
  let st := fst (crun false xi (cfresh d) h) in
  (forall d' m, elab_model xi d = Ok d' -> reached d h m ->
     exists m', nth_error (d_mods d') m = Some m' /\ PM.s_content st m = cok m') /\
  ((forall m, (m < Datatypes.length (d_mods d))%nat -> reached d h m) ->
     forall d', state_design d st = Ok d' <-> elab_model xi d = Ok d').
Proof.
  intros Hk Hh Hc st. split.
  - intros d' m He Hr. apply (elab_model_per_module xi d d' Hk) in He. destruct He as [_ [_ Hn]].
    destruct Hr as [o [t [Hin [Ho [A [Ht D]]]]]].
    assert (m < Datatypes.length (d_mods d))%nat as Hm.
    { apply (desc_lt d Hh t m); [apply (PP.all_below_spec _ _ A t Ht)|exact D]. }
    destruct (nth_error (d_mods d) m) as [m0|] eqn:E; [|apply nth_error_None in E; lia].
    destruct (Hn m m0 E) as [m' [H1 H2]]. exists m'. split; [exact H1|]. rewrite <- H2.
    apply (hist_content false xi d Hh h m Hc). exists o, t. auto.
  - intros Hr d'. unfold st. rewrite (hist_state_design false xi d Hh h d' Hc Hr). symmetry. apply (elab_model_per_module xi d d' Hk).
Qed.
Print Assumptions C07E_manager_is_pipeline.

(* 3c. the same with the checking entries switched on: the manager computes C02E's checked pipeline *)
Theorem C07E_manager_is_checked_pipeline xi d h : checked_list_ok = true -> hier_design d = Ok tt -> calls_only h = true ->
  let st := fst (crun true xi (cfresh d) h) in
  (forall d' m, checked_elab xi d = Ok d' -> reached d h m ->
     exists m', nth_error (d_mods d') m = Some m' /\ PM.s_content st m = cok m') /\
  ((forall m, (m < Datatypes.length (d_mods d))%nat -> reached d h m) ->
     forall d', state_design d st = Ok d' <-> checked_elab xi d = Ok d').
Proof.
  intros Hk Hh Hc st. split.
  - intros d' m He Hr. apply (checked_elab_per_module xi d d' Hk Hh) in He. destruct He as [_ [_ Hn]].
    destruct Hr as [o [t [Hin [Ho [A [Ht D]]]]]].
    assert (m < Datatypes.length (d_mods d))%nat as Hm.
    { apply (desc_lt d Hh t m); [apply (PP.all_below_spec _ _ A t Ht)|exact D]. }
    destruct (nth_error (d_mods d) m) as [m0|] eqn:E; [|apply nth_error_None in E; lia].
    destruct (Hn m m0 E) as [m' [H1 H2]]. exists m'. split; [exact H1|]. rewrite <- H2.
    apply (hist_content true xi d Hh h m Hc). exists o, t. auto.
  - intros Hr d'. unfold st. rewrite (hist_state_design true xi d Hh h d' Hc Hr). symmetry. apply (checked_elab_per_module xi d d' Hk Hh).
Qed.
Print Assumptions C07E_manager_is_checked_pipeline.

(* 3d. a call on the top module reaches every module of a design in which every other module is instantiated *)
Theorem C07E_top_reaches_all d h o : hier_design d = Ok tt -> all_used d = true -> (d_top d < Datatypes.length (d_mods d))%nat ->
  In o h -> is_call o = true -> op_tops o = [d_top d] ->
  forall m, (m < Datatypes.length (d_mods d))%nat -> reached d h m.
Proof.
  intros Hh Hu Ht Hin Ho Et m Hm. exists o, (d_top d). split; [exact Hin|]. split; [exact Ho|]. rewrite Et. split.
  - unfold PM.all_below. cbn [forallb]. apply andb_true_intro. split; [apply Nat.ltb_lt; exact Ht|reflexivity].
  - split; [left; reflexivity|apply (top_reaches_all d Hh Hu Ht m Hm)].
Qed.
Print Assumptions C07E_top_reaches_all.

(* ================================================================================================ 4. end to end, after ANY history *)

(* C01E's end-to-end theorem (the exported package has exactly the nets and the leaf devices of the written design) holds
   for the package exported from the manager's state after ANY history of elaborate / to_proto / netlist calls - with or
   without the checking entries - as soon as the calls have reached every module (e.g. the last one exports the top
   module of a design without unused modules: C07E_top_reaches_all).  Hypotheses on the design: those of
   C01E_end_to_end_partial (valid; port references are whole connections; the side table spells the devices). *)
Theorem C07E_end_to_end_any_history ck xi d h d' p ts : list_ok ck = true ->
  wf_design d = Ok tt -> frag_ok d = true -> xinfo_ok xi d = true ->
  calls_only h = true -> (forall m, (m < Datatypes.length (d_mods d))%nat -> reached d h m) ->
  state_design d (fst (crun ck xi (cfresh d) h)) = Ok d' -> export_model xi d' = Ok p -> terminals d = Ok ts ->
  exists tn, top_name d = Ok tn /\
    (forall t1 t2 dev1 dev2, In (t1, dev1) ts -> In (t2, dev2) ts ->
       (same_net_pkg p tn (term_map xi d t1) (term_map xi d t2) <-> same_net d t1 t2)) /\
    (forall t dev, In (t, dev) ts ->
       exists pd, design_of_pkg prims_ext p tn = Ok pd /\ valid pd (term_map xi d t) /\ dev_at pd (term_map xi d t) = Ok dev).
Proof.
  intros Hk Hwf Hfr Hxi Hc Hr Hs Hp Hts. pose proof (C07E_valid_is_listed_in_order d Hwf) as Hh.
  apply (hist_state_design ck xi d Hh h d' Hc Hr) in Hs.
  assert (elab_model xi d = Ok d') as He.
  { destruct ck; cbn [list_ok] in Hk; [|apply (elab_model_per_module xi d d' Hk); exact Hs].
    apply checked_elab_unchecked. apply (checked_elab_per_module xi d d' Hk Hh). exact Hs. }
  apply (Hdl21.Props.C01E.C01E_end_to_end_partial xi d p ts Hwf Hfr Hxi); [|exact Hts].
  unfold elab_export_model. rewrite He. exact Hp.
Qed.
Print Assumptions C07E_end_to_end_any_history.

(* ... and the package is closed and self-consistent (C06E) *)
Theorem C07E_package_wf_any_history ck xi d h d' p : list_ok ck = true ->
  wf_design d = Ok tt -> frag_ok d = true -> xinfo_ok xi d = true ->
  calls_only h = true -> (forall m, (m < Datatypes.length (d_mods d))%nat -> reached d h m) ->
  state_design d (fst (crun ck xi (cfresh d) h)) = Ok d' -> export_model xi d' = Ok p -> wf_pkg prims_ext p = Ok tt.
Proof.
  intros Hk Hwf Hfr Hxi Hc Hr Hs Hp. pose proof (C07E_valid_is_listed_in_order d Hwf) as Hh.
  apply (hist_state_design ck xi d Hh h d' Hc Hr) in Hs.
  assert (elab_model xi d = Ok d') as He.
  { destruct ck; cbn [list_ok] in Hk; [|apply (elab_model_per_module xi d d' Hk); exact Hs].
    apply checked_elab_unchecked. apply (checked_elab_per_module xi d d' Hk Hh). exact Hs. }
  apply (Hdl21.Props.C01E.C06E_export_wf_partial xi d p Hwf Hfr Hxi). unfold elab_export_model. rewrite He. exact Hp.
Qed.
Print Assumptions C07E_package_wf_any_history.

(* ================================================================================================ 5. C08E: failing bodies *)
Require Hdl21.Proofs.C07EProofsFail Hdl21.Proofs.C08Proofs Hdl21.Props.C08.
Import Hdl21.Proofs.C07EProofsFail.

(* 5a. A FAILING BODY IS EXACTLY A MODEL `Error`.  `fail_at d m p = Some e`: the per-module function of entry p returns
       Error e on what the entries before p made of the written module m (and none of them failed).  After ANY history of
       calls, a module that a call has reached holds the error e iff some entry's body fails on it with e; there is at most
       one such entry per module (after a failure no body runs on the module again). *)
Theorem C08E_failing_body_is_model_error ck xi d h m e : hier_design d = Ok tt -> calls_only h = true -> reached d h m ->
  (cc_err (PM.s_content (fst (crun ck xi (cfresh d) h)) m) = Some e <-> exists p, (p < cP)%nat /\ fail_at ck xi d m p = Some e).
Proof.
  intros Hh Hc Hr. rewrite (proj1 (hist_content ck xi d Hh h m Hc Hr)).
  destruct Hr as [o [t [_ [_ [A [Ht D]]]]]].
  assert (m < Datatypes.length (d_mods d))%nat as Hm.
  { apply (desc_lt d Hh t m); [apply (PP.all_below_spec _ _ A t Ht)|exact D]. }
  destruct (nth_error (d_mods d) m) as [m0|] eqn:E; [|apply nth_error_None in E; lia].
  unfold elab_mod. apply (err_at_stage ck xi d m m0 E cP e).
Qed.
Print Assumptions C08E_failing_body_is_model_error.

Theorem C08E_one_failure_per_module ck xi d m m0 p p' e e' : nth_error (d_mods d) m = Some m0 ->
  fail_at ck xi d m p = Some e -> fail_at ck xi d m p' = Some e' -> p = p'.
Proof. intros Hm. exact (fail_at_unique ck xi d m m0 Hm p p' e e'). Qed.
Print Assumptions C08E_one_failure_per_module.

(* 5b. THE FAILURE POINTS of a design - the oracle `f : pass class -> module -> option error` that Model/C08PassFail.v leaves
       abstract - are the (pass class, module) at which the concrete body returns Error *)
Theorem C08E_failure_points ck xi d q m c : In (q, m, c) (failure_points ck xi d) <->
  exists p e, (m < Datatypes.length (d_mods d))%nat /\ (p < cP)%nat /\ fail_at ck xi d m p = Some e /\
              q = PM.cache_of ccaches p /\ c = err_code e.
Proof. exact (in_failure_points_with (fun _ _ e => err_code e) ck xi d q m c). Qed.
Print Assumptions C08E_failure_points.

(* 5c. the theorems of Props/C08.v, instantiated with this oracle: for a call of elaborate / to_proto on any tops of a written
       design, from ANY state s of the caches (whatever happened before, to whatever designs):
       repeating a failed call reports the original error again and changes nothing; and a call on a design none of whose
       modules differs from a fresh process's in s (R: closed under instantiation, contains the tops, s agrees with the
       initial state on R) behaves exactly as in a fresh process - failures elsewhere do not poison it *)
Theorem C08E_retry_reports_same_error ck xi d tops x s e :
  snd (fst (PF.do_call PF.repaired s (ccall ck xi d tops x))) = Some e ->
  PF.do_call PF.repaired (fst (fst (PF.do_call PF.repaired s (ccall ck xi d tops x)))) (ccall ck xi d tops x) =
  (fst (fst (PF.do_call PF.repaired s (ccall ck xi d tops x))), Some e, []).
Proof.
  apply Hdl21.Props.C08.C08_same_error_again. unfold Hdl21.Proofs.C08Proofs.more_faults. repeat split; auto.
Qed.
Print Assumptions C08E_retry_reports_same_error.

Theorem C08E_unrelated_design_as_fresh ck xi d tops x R s :
  Hdl21.Proofs.C08Proofs.closed (PF.assoc_kids (PF.c_kids (ccall ck xi d tops x))) R ->
  Hdl21.Proofs.C08Proofs.agree R s PF.init -> (forall t, In t tops -> R t = true) ->
  snd (PF.do_call PF.repaired s (ccall ck xi d tops x)) = snd (PF.do_call PF.repaired PF.init (ccall ck xi d tops x)) /\
  snd (fst (PF.do_call PF.repaired s (ccall ck xi d tops x))) = snd (fst (PF.do_call PF.repaired PF.init (ccall ck xi d tops x))).
Proof.
  intros HC HA HT. destruct (Hdl21.Props.C08.C08_frame_call R s PF.init (ccall ck xi d tops x) HC HA HT) as [H1 [H2 _]]. auto.
Qed.
Print Assumptions C08E_unrelated_design_as_fresh.

(* ================================================================================================ non-vacuity *)
Import Hdl21.Props.C01E.

(* the design of Props/C01E.v (Leaf twice in Mid, Mid five times and a Leaf array in Top; reference chains and a cycle,
   a shared no-connect, an array wired per element and by broadcast, nested slices, an external module) *)
Definition exh1 : list PM.op := [PM.Export [0%nat]; PM.Netlist [1%nat]; PM.Elaborate [2%nat; 0%nat]; PM.Export [2%nat]].
Definition exh2 : list PM.op := [PM.Elaborate [1%nat; 2%nat]; PM.Elaborate [0%nat]; PM.Export [2%nat]].
Definition exh3 : list PM.op := [PM.Export [2%nat]].

Example C07E_ex_hypotheses :
  wf_design ex_design = Ok tt /\ frag_ok ex_design = true /\ xinfo_ok ex_xinfo ex_design = true /\
  hier_design ex_design = Ok tt /\ all_used ex_design = true /\
  calls_only exh1 = true /\ calls_only exh2 = true /\ PM.wf_design (ckids ex_design) = true /\
  ckids ex_design = [[]; [0; 0]; [1; 1; 1; 1; 1; 0]]%nat.
Proof. vm_compute. repeat split. Qed.

Lemma ex_reached h o : In o h -> is_call o = true -> op_tops o = [2%nat] -> forall m, (m < 3)%nat -> reached ex_design h m.
Proof.
  intros Hin Ho Et m Hm. apply (C07E_top_reaches_all ex_design h o); try assumption; try (vm_compute; reflexivity).
Qed.

(* three very different histories end with the same design in the manager: the one the whole-design pipeline returns;
   the modules really are rewritten (implicit signals of reference groups and no-connects, array elements) *)
Example C07E_ex_histories : exists d',
  elab_model ex_xinfo ex_design = Ok d' /\ checked_elab ex_xinfo ex_design = Ok d' /\
  state_design ex_design (fst (crun true ex_xinfo (cfresh ex_design) exh1)) = Ok d' /\
  state_design ex_design (fst (crun true ex_xinfo (cfresh ex_design) exh2)) = Ok d' /\
  state_design ex_design (fst (crun false ex_xinfo (cfresh ex_design) exh3)) = Ok d' /\
  (exists top, nth_error (d_mods d') 2 = Some top /\
     map fst (m_sigs top) = ["bus"; "s"; "m1_y"; "m1_x"; "m2_y"; "m3_y"]%string /\
     map i_name (m_insts top) = ["m0"; "m1"; "m2"; "m3"; "m4"; "e0"; "arr_0"; "arr_1"]%string) /\
  Datatypes.length (PM.s_log (fst (crun true ex_xinfo (cfresh ex_design) exh1))) = (3 * Datatypes.length (eff_stages cP))%nat /\
  PM.s_err (fst (crun true ex_xinfo (cfresh ex_design) exh1)) = false.
Proof.
  vm_compute. eexists. split; [reflexivity|]. split; [reflexivity|]. split; [reflexivity|]. split; [reflexivity|]. split; [reflexivity|].
  split; [|split; reflexivity]. eexists. split; [reflexivity|]. split; reflexivity.
Qed.

(* the answer of the last Export, read as a package, is the package of C01E's model *)
Example C07E_ex_answer : exists ans,
  snd (cstep true ex_xinfo (fst (crun true ex_xinfo (cfresh ex_design) exh2)) (PM.Export [2%nat])) = PM.RPkg ccont ans /\
  map fst ans = [0; 1; 2]%nat /\
  answer_package ex_xinfo ex_design 2 ans = elab_export_model ex_xinfo ex_design /\
  is_ok (elab_export_model ex_xinfo ex_design) = true.
Proof. vm_compute. eexists. split; [reflexivity|]. split; [reflexivity|]. split; reflexivity. Qed.

(* a design the checking entries reject (Leaf instantiated with a port left out): with the checks, the failing module holds
   the error of ConnTypes and is left as it stood; the sub-module below it is elaborated all the same; history does not matter *)
Definition ex_bad : design :=
  {| d_mods := [{| m_name := "Leaf"; m_ports := [("a", 1); ("b", 1)]; m_sigs := []; m_insts := []; m_leaves := [] |};
                {| m_name := "Top"; m_ports := []; m_sigs := [("s", 1)];
                   m_insts := [{| i_name := "l0"; i_n := 0; i_of := TMod 0; i_conns := [("a", XSig 0%N 1)] |}];
                   m_leaves := [(0%N, LSig "s")] |}];
     d_top := 1 |}.
Definition ex_noxi : xinfo := {| x_devs := []; x_ncnames := []; x_dirs := [] |}.

Example C07E_ex_rejected :
  hier_design ex_bad = Ok tt /\
  checked_elab ex_noxi ex_bad = Error EMissing /\
  cc_err (PM.s_content (fst (crun true ex_noxi (cfresh ex_bad) [PM.Export [0%nat]; PM.Export [1%nat]])) 1%nat) = Some EMissing /\
  cc_err (PM.s_content (fst (crun true ex_noxi (cfresh ex_bad) [PM.Elaborate [1%nat]])) 1%nat) = Some EMissing /\
  cc_err (PM.s_content (fst (crun true ex_noxi (cfresh ex_bad) [PM.Elaborate [1%nat]])) 0%nat) = None /\
  state_design ex_bad (fst (crun true ex_noxi (cfresh ex_bad) [PM.Elaborate [1%nat]])) = Error EMissing /\
  is_ok (state_design ex_bad (fst (crun false ex_noxi (cfresh ex_bad) [PM.Elaborate [1%nat]]))) = true.
Proof. vm_compute. repeat split. Qed.

(* the read discipline is not vacuous: a body does depend on the port list it is shown (a child view with another port
   list changes the result of ResolvePortRefs' successor ConnTypes) *)
Example C07E_ex_bodies_read_views :
  let top := cinit ex_bad 1%nat in
  let v ps := @PM.View ports ports 0%nat ps None in
  cc_err (cbody true ex_noxi 3%nat 1%nat [v [("a", 1); ("b", 1)]] top) = Some EMissing /\
  cc_err (cbody true ex_noxi 3%nat 1%nat [v [("a", 1)]] top) = None.
Proof. vm_compute. split; reflexivity. Qed.

(* C08E: the failure point of ex_bad is (ConnTypes, Top) with the error of a missing connection; the C08 machine with this oracle
   refuses Top, reports the same error on the retry, and exports Leaf alone as a fresh process does *)
Example C08E_ex_failure_point :
  failure_points true ex_noxi ex_bad = [(3%nat, 1%nat, 9)] /\ failure_points false ex_noxi ex_bad = [] /\
  fail_at true ex_noxi ex_bad 1 3 = Some EMissing /\
  (let r1 := PF.do_call PF.repaired PF.init (ccall true ex_noxi ex_bad [1%nat] true) in
   snd (fst r1) = Some (PF.CE 9) /\ snd r1 = [] /\
   (let r2 := PF.do_call PF.repaired (fst (fst r1)) (ccall true ex_noxi ex_bad [1%nat] true) in
    snd (fst r2) = Some (PF.CE 9) /\ fst (fst r2) = fst (fst r1)) /\
   (let r3 := PF.do_call PF.repaired (fst (fst r1)) (ccall true ex_noxi ex_bad [0%nat] true) in
    snd (fst r3) = None /\ snd r3 = [0%nat])).
Proof. vm_compute. repeat split. Qed.
