(* Props/C12.v — Output is reproducible across processes (PARTIAL BY NATURE, see below).
   Only statements, each closed by a lemma of Proofs/C12Proofs.v, followed by Print Assumptions.

   What is proved: the LOGIC of the elaborator loops that visit hash-ordered back-reference sets.  The visiting
   order is an explicit parameter (`pi`, any enumeration of the set); the theorems say that the ORDERED result of the
   repaired code does not depend on it, and that the pinned code's does.  What is NOT modelled: CPython's hash
   randomisation, id()-based hashing and the allocator.  They are the source of the different enumerations and are
   exercised by the correspondence run (fresh interpreters, several PYTHONHASHSEED values, randomised earlier work),
   not reasoned about. *)
Require Import Hdl21.Base.PyInt Hdl21.Spec.C12Repro Hdl21.Model.C12Order Hdl21.Proofs.C12Proofs.
From Coq Require Import String Ascii Permutation.
Open Scope string_scope.
Open Scope list_scope.

(* 1. replace_bundle_inst / resolve_bundleref with the repaired replace_bundle_conn: for every dict `c` at loop entry,
      every flattening function `f` and every two enumerations pi1, pi2 of the same back-reference set, the resulting
      ORDERED connection dict is the same (also when the loop fails: it fails either way).
      wf_loop: the keys of c are distinct, the set is duplicate-free and connected, the flattened port names are
      distinct, new, and disjoint between ports (what `flatname(avoid=...)` guarantees). *)
Theorem C12_order_irrelevant f c pi1 pi2 :
  wf_loop f c pi1 = true -> Permutation pi1 pi2 -> run_repaired f pi1 c = run_repaired f pi2 c.
Proof. intros H. exact (repaired_order_irrelevant f c pi1 pi2 (wf_loop_spec f c pi1 H)). Qed.
Print Assumptions C12_order_irrelevant.


(* 1b. the same at module level: the back-reference set of a bundle holds PortRefs (instance, port) of SEVERAL instances;
       each step rewrites the dict of its own instance.  For every two enumerations of the set the whole module state
       (every instance's ordered dict) is the same.  mwf: distinct instance names, every PortRef names an instance of
       the module, and wf_loop per instance for its ports. *)
Theorem C12_order_irrelevant_module f m pi1 pi2 :
  mwf f m pi1 = true -> Permutation pi1 pi2 -> mrun step_repaired f pi1 m = mrun step_repaired f pi2 m.
Proof. intros H. exact (mrepaired_order_irrelevant f m pi1 pi2 (mwf_spec f m pi1 H)). Qed.
Print Assumptions C12_order_irrelevant_module.

(* 2. ... and it is the specified one: the connections as written, each bundle-valued connection replaced where it
      stands by its flattened connections (Spec/C12Repro.v: flatten_in_place) *)
Theorem C12_order_is_written_order f c pi :
  wf_loop f c pi = true -> (forall k, In k pi -> is_ok (f k) = true) ->
  run_repaired f pi c = Ok (flatten_in_place (fun k => mem k pi) (fo f) c).
Proof.
  intros H Hok. apply repaired_is_flatten; [exact (wf_loop_spec f c pi H)|].
  intros k Hk. specialize (Hok k Hk). destruct (f k); [eauto|discriminate].
Qed.
Print Assumptions C12_order_is_written_order.

(* 3. the pinned replace_bundle_conn (pop, then append): REFUTED — one bundle `bb` feeding the three ports a, b, c of
      one instance; visiting a,b,c and visiting b,a,c give different ordered dicts *)
Definition w_f : flat_fn := fun k => Ok [(String.append k "_x", "bb_x"); (String.append k "_y", "bb_y")].
Definition w_c : conns := [("q", "s"); ("a", "bb"); ("b", "bb"); ("c", "bb")].

Theorem C12_pinned_order_refuted :
  exists f c pi1 pi2, wf_loop f c pi1 = true /\ Permutation pi1 pi2 /\ run_pinned f pi1 c <> run_pinned f pi2 c.
Proof.
  exists w_f, w_c, ["a"; "b"; "c"], ["b"; "a"; "c"]. split; [vm_compute; reflexivity|]. split; [apply perm_swap|].
  vm_compute. discriminate.
Qed.
Print Assumptions C12_pinned_order_refuted.

(* 4. even the pinned loop yields the same SET of (port, connection) entries for every enumeration: the net partition
      was never at stake, only the order *)
Theorem C12_partition_invariant f c pi1 pi2 :
  wf_loop f c pi1 = true -> Permutation pi1 pi2 ->
  match run_pinned f pi1 c, run_pinned f pi2 c with
  | Ok r1, Ok r2 => Permutation r1 r2
  | Error e1, Error e2 => e1 = e2
  | _, _ => False
  end.
Proof. intros H. exact (pinned_partition f c pi1 pi2 (wf_loop_spec f c pi1 H)). Qed.
Print Assumptions C12_partition_invariant.


(* 4b. ... hence the same port -> connection map *)
Theorem C12_partition_same_map f c pi1 pi2 r1 r2 :
  wf_loop f c pi1 = true -> Permutation pi1 pi2 ->
  run_pinned f pi1 c = Ok r1 -> run_pinned f pi2 c = Ok r2 -> forall k, lookup k r1 = lookup k r2.
Proof. intros H. exact (pinned_same_map f c pi1 pi2 r1 r2 (wf_loop_spec f c pi1 H)). Qed.
Print Assumptions C12_partition_same_map.

(* 5. update_ref_deps (Instance.replace on every connected port): assignment to present keys never moves a key, so the
      order of the dict is untouched whatever the enumeration *)
Theorem C12_replace_keeps_order v pi : forall c c', run_loop (step_replace v) pi c = Ok c' -> keys c' = keys c.
Proof. exact (replace_keeps_keys v pi). Qed.
Print Assumptions C12_replace_keeps_order.

(* 6. which_portref_to_name (repaired): the port that names the implicit signal of a reference group is a function of
      the group as a SET — equal for every two enumerations of the group (distinct (instance, port) pairs) *)
Theorem C12_portref_group_naming_order_free g1 g2 :
  Permutation g1 g2 -> NoDup (map name_key g1) -> which_repaired g1 = which_repaired g2.
Proof. exact (which_repaired_perm g1 g2). Qed.
Print Assumptions C12_portref_group_naming_order_free.

(* 7. ... and it is the specified port: the unique unconnected member, else the least (instance name, port name) *)
Theorem C12_namer_meets_spec g m : which_repaired g = Ok m -> is_namer g m.
Proof. exact (which_repaired_namer g m). Qed.
Print Assumptions C12_namer_meets_spec.

(* 8. the pinned which_portref_to_name (stable sort by instance name only): REFUTED — group b.z = c.w, c.w = b.z,
      a.p = b.z, a.q = b.z; the name is a_p or a_q depending on the enumeration *)
Definition w_g1 := [PR "b" "z" true; PR "c" "w" true; PR "a" "p" true; PR "a" "q" true].
Definition w_g2 := [PR "b" "z" true; PR "c" "w" true; PR "a" "q" true; PR "a" "p" true].

Theorem C12_pinned_naming_refuted :
  exists g1 g2, Permutation g1 g2 /\ NoDup (map name_key g1) /\
                option_map sig_name (match which_pinned g1 with Ok p => Some p | Error _ => None end) <>
                option_map sig_name (match which_pinned g2 with Ok p => Some p | Error _ => None end).
Proof.
  exists w_g1, w_g2. split; [do 2 apply perm_skip; apply perm_swap|]. split.
  - apply nodup_pairs_spec. vm_compute. reflexivity.
  - vm_compute. discriminate.
Qed.
Print Assumptions C12_pinned_naming_refuted.

(* ---- non-vacuity: concrete, non-trivial instances *)
(* the witness of 3 under the repaired loop: all six enumerations give the written order *)
Example C12_ex_repaired_witness :
  wf_loop w_f w_c ["a"; "b"; "c"] = true /\
  forallb (fun pi => match run_repaired w_f pi w_c with
                     | Ok r => Corr_eq (keys r) ["q"; "a_x"; "a_y"; "b_x"; "b_y"; "c_x"; "c_y"]
                     | Error _ => false end)
          [["a"; "b"; "c"]; ["a"; "c"; "b"]; ["b"; "a"; "c"]; ["b"; "c"; "a"]; ["c"; "a"; "b"]; ["c"; "b"; "a"]] = true.
Proof. vm_compute. split; reflexivity. Qed.

(* the pinned loop on the same witness: two orders, one partition *)
Example C12_ex_pinned_witness :
  option_map keys (match run_pinned w_f ["a"; "b"; "c"] w_c with Ok r => Some r | Error _ => None end)
    = Some ["q"; "a_x"; "a_y"; "b_x"; "b_y"; "c_x"; "c_y"] /\
  option_map keys (match run_pinned w_f ["c"; "a"; "b"] w_c with Ok r => Some r | Error _ => None end)
    = Some ["q"; "c_x"; "c_y"; "a_x"; "a_y"; "b_x"; "b_y"].
Proof. vm_compute. split; reflexivity. Qed.

(* a failing flattening (a path of the port has no counterpart in the connected bundle) fails in every order *)
Example C12_ex_error_any_order :
  let f := flat_of [("a", [("x", "a_x")]); ("b", [("x", "b_x"); ("y", "b_y")])] (fun _ => [("x", "bb_x")]) in
  wf_loop f [("a", "bb"); ("b", "bb")] ["a"; "b"] = true /\
  run_repaired f ["a"; "b"] [("a", "bb"); ("b", "bb")] = Error EMissing /\
  run_repaired f ["b"; "a"] [("a", "bb"); ("b", "bb")] = Error EMissing.
Proof. vm_compute. repeat split. Qed.

(* naming: a group with one unconnected port; a cyclic group *)
Example C12_ex_namer :
  which_repaired [PR "i1" "p" true; PR "i0" "p" false; PR "i2" "p" true] = Ok (PR "i0" "p" false) /\
  which_repaired w_g1 = Ok (PR "a" "p" true) /\ which_repaired w_g2 = Ok (PR "a" "p" true) /\
  which_repaired [PR "i1" "p" false; PR "i0" "p" false] = Error EOther /\
  sig_name (PR "a" "p" true) = "a_p".
Proof. vm_compute. repeat split. Qed.

(* the observational specification separates equal from different runs *)
Example C12_ex_reproducible :
  reproducible [Obs "aa" "bb" "cc" "!RuntimeError"; Obs "aa" "bb" "cc" "!RuntimeError"] = true /\
  reproducible [Obs "aa" "bb" "cc" "dd"; Obs "aa" "bb" "cc" "dd"; Obs "ab" "bb" "cc" "dd"] = false /\
  reproducible [Obs "aa" "bb" "cc" "dd"; Obs "aa" "bb" "cc" "!RuntimeError"] = false.
Proof. vm_compute. repeat split. Qed.

(* module level: one bundle feeding two ports of i0 and two ports of i1; two interleavings *)
Example C12_ex_module :
  let m := [("i0", [("q", "s"); ("a", "bb"); ("b", "bb")]); ("i1", [("b", "bb"); ("q", "s"); ("a", "bb")])] in
  mwf (fun _ => w_f) m [("i0", "a"); ("i1", "a"); ("i0", "b"); ("i1", "b")] = true /\
  mrun step_repaired (fun _ => w_f) [("i0", "a"); ("i1", "a"); ("i0", "b"); ("i1", "b")] m =
  mrun step_repaired (fun _ => w_f) [("i1", "b"); ("i0", "b"); ("i0", "a"); ("i1", "a")] m /\
  match mrun step_repaired (fun _ => w_f) [("i1", "b"); ("i0", "b"); ("i0", "a"); ("i1", "a")] m with
  | Ok [(_, c0); (_, c1)] => Corr_eq (keys c0) ["q"; "a_x"; "a_y"; "b_x"; "b_y"] && Corr_eq (keys c1) ["b_x"; "b_y"; "q"; "a_x"; "a_y"]
  | _ => false end = true.
Proof. vm_compute. repeat split. Qed.
