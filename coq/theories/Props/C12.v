(* Props/C12.v — placeholder, theorems follow *)
Require Import Hdl21.Base.PyInt Hdl21.Spec.C12Repro Hdl21.Model.C12Order.
