(* Props/C18.v — placeholder, theorems follow *)
Require Import Hdl21.Base.PyInt Hdl21.Spec.Namespace Hdl21.Model.Namespace.
