(* Props/C18.v — Module and bundle namespaces stay coherent under any edit sequence.
   Only statements, each closed by a lemma of Proofs/NamespaceProofs.v, followed by Print Assumptions.
   `c` ranges over {Module, Bundle}; `run c ops` is the model state after ANY finite list of
   setattr / add / delete / elaborate operations with ANY names and values (Model/Namespace.v). *)
Require Import Hdl21.Base.PyInt Hdl21.Spec.Namespace Hdl21.Model.Namespace Hdl21.Proofs.NamespaceProofs.
From Coq Require Import String Ascii.
Require Import Hdl21Gen.Banned.
Open Scope list_scope.
Open Scope Z_scope.
Notation get := Hdl21.Model.Namespace.get.

(* 0. the regenerated name tables are adequate: every PUBLIC attribute of a fresh Module / Bundle (read from the
      live classes) is reserved, every `_banned` name is reserved, `name` (and `roles` for Bundle) is reserved but
      assignable, and no reserved name is Python-private *)
Theorem C18_tables_adequate : table_ok CModule = true /\ table_ok CBundle = true.
Proof. split; vm_compute; reflexivity. Qed.
Print Assumptions C18_tables_adequate.

(* 1. the coherence invariant holds initially, is preserved by every operation, hence holds after every history *)
Theorem C18_coh_init c : Coh c init.
Proof. exact (coh_init c). Qed.
Print Assumptions C18_coh_init.

Theorem C18_coh_step c s o : Coh c s -> Coh c (apply c s o).
Proof. exact (coh_apply c s o). Qed.
Print Assumptions C18_coh_step.

Theorem C18_coh_reachable c ops : Coh c (run c ops).
Proof. exact (coh_fold c ops init (coh_init c)). Qed.
Print Assumptions C18_coh_reachable.

(* 2. every kind-specific view is exactly the namespace restricted to that kind, in namespace order *)
Theorem C18_views_are_filters c ops k :
  st_views (run c ops) k = filter (in_view c k) (st_ns (run c ops)) /\ NoDup (keys (st_ns (run c ops))).
Proof. destruct (C18_coh_reachable c ops) as [A B _]. split; [apply B|exact A]. Qed.
Print Assumptions C18_views_are_filters.

(* 3. each name denotes exactly one object: get(name) is listed by exactly the view of its kind, by no other view,
      and every view entry is the namespace entry *)
Theorem C18_one_object_per_name c ops n :
  let s := run c ops in
  (forall v, get s n = Some v ->
     exists k, view_of c (v_kind v) = Some k /\ lookup n (st_views s k) = Some v /\
               forall k', k' <> k -> lookup n (st_views s k') = None) /\
  (get s n = None -> forall k, lookup n (st_views s k) = None) /\
  (forall k v, lookup n (st_views s k) = Some v -> get s n = Some v).
Proof.
  intros s. pose proof (C18_coh_reachable c ops) as HC. fold s in HC. repeat split.
  - intros v. exact (coh_one_view c s n v HC).
  - exact (coh_unbound c s n HC).
  - intros k v. exact (coh_view_entry c s n v k HC).
Qed.
Print Assumptions C18_one_object_per_name.

(* 4. attribute access agrees with get() on every name that is neither a public Python attribute of the class nor
      Python-private; public attribute names are never bound in the namespace *)
Theorem C18_getattr_agrees c ops n : mem n (public_attrs c) = false -> is_private n = false ->
  getattr c (run c ops) n = match get (run c ops) n with Some v => AObj v | None => AMissing end.
Proof. intros H1 H2. unfold getattr, get. rewrite H1, H2. reflexivity. Qed.
Print Assumptions C18_getattr_agrees.

Theorem C18_public_names_unbound c ops n : mem n (public_attrs c) = true -> get (run c ops) n = None.
Proof.
  apply public_unbound; [destruct c; apply C18_tables_adequate | apply C18_coh_reachable].
Qed.
Print Assumptions C18_public_names_unbound.

(* 5. a signal of a Module is listed as a port exactly when it has port visibility - WHATEVER its `direction` d is
      (h.Signal(direction=PortDir.INPUT), an h.Input() whose vis was set to INTERNAL: internal signals carrying a direction) *)
Theorem C18_ports_iff_port_visible ops n v p d :
  let s := run CModule ops in
  get s n = Some v -> v_kind v = KSignal p d ->
  (lookup n (st_views s VPorts) = Some v <-> p = true) /\ (lookup n (st_views s VSignals) = Some v <-> p = false).
Proof. intros s. exact (coh_ports CModule s n v p d eq_refl (C18_coh_reachable CModule ops)). Qed.
Print Assumptions C18_ports_iff_port_visible.

(* 6. the stored object reports this container as its parent, carries the key as its name, is of a storable
      kind, and its key is not reserved *)
Theorem C18_parent_and_name c ops n v : get (run c ops) n = Some v ->
  is_attr c (v_kind v) = true /\ v_name v = Some n /\ reserved c n = false /\ In (v_id v) (st_owned (run c ops)).
Proof. exact (coh_entry c (run c ops) n v (C18_coh_reachable c ops)). Qed.
Print Assumptions C18_parent_and_name.

(* 7. the model implements the specification (a finite map name -> object): after every history the namespace
      denotes the specified map, and the next operation is accepted exactly when the specification accepts it *)
Theorem C18_refines_spec c ops :
  (forall n, get (run c ops) n = a_map (spec_run c ops) n) /\ st_elab (run c ops) = a_elab (spec_run c ops) /\
  forall o, is_ok (step c (run c ops) o) = accepted (spec_step c (spec_run c ops) o).
Proof.
  assert (T : table_ok c = true) by (destruct c; apply C18_tables_adequate).
  pose proof (refine_fold c ops T init a_init R_init) as HR. fold (run c ops) in HR. fold (spec_run c ops) in HR.
  destruct HR as [A B]. repeat split; [exact A | exact B |].
  intros o. apply (refine_apply c _ _ o T). split; assumption.
Qed.
Print Assumptions C18_refines_spec.

(* 8. an accepted binding is the last one: the name denotes the new object, all other names are untouched *)
Theorem C18_last_binding_wins c s n v s' : do_add c s n v = Ok s' ->
  get s' n = Some (store_name v n) /\ forall m, m <> n -> get s' m = get s m.
Proof. exact (do_add_binds c s n v s'). Qed.
Print Assumptions C18_last_binding_wins.

(* 9. rejections; a rejected operation leaves the container as it was *)
Theorem C18_rejects_reserved_setattr c s n v : reserved c n = true ->
  (n = "name"%string -> v_kind v <> KStr) -> exists e, step c s (SetAttr n v) = Error e.
Proof. apply reject_reserved_setattr. destruct c; apply C18_tables_adequate. Qed.
Print Assumptions C18_rejects_reserved_setattr.

Theorem C18_rejects_reserved_add c s v on n : reserved c n = true ->
  (on = Some n /\ v_name v = None) \/ (on = None /\ v_name v = Some n) -> exists e, step c s (Add v on) = Error e.
Proof. exact (reject_reserved_add c s v on n). Qed.
Print Assumptions C18_rejects_reserved_add.

Theorem C18_rejects_non_hdl c s v : is_attr c (v_kind v) = false ->
  (forall n, is_private n = false -> n <> "name"%string -> exists e, step c s (SetAttr n v) = Error e) /\
  (forall on, exists e, step c s (Add v on) = Error e).
Proof.
  intros H. split; [intros n; apply reject_nonhdl_setattr; exact H | intros on; apply reject_nonhdl_add; exact H].
Qed.
Print Assumptions C18_rejects_non_hdl.

Theorem C18_rejects_delete c s n : exists e, step c s (Del n) = Error e.
Proof. simpl. eauto. Qed.
Print Assumptions C18_rejects_delete.

Theorem C18_rejects_after_elaboration c s o : st_elab s = true ->
  match o with
  | SetAttr n v => is_private n = false /\ n <> "name"%string
  | Add _ _ | Del _ => True
  | Elaborate => False
  end -> exists e, step c s o = Error e.
Proof. exact (reject_after_elab c s o). Qed.
Print Assumptions C18_rejects_after_elaboration.

Theorem C18_rejected_leaves_state c s o e : step c s o = Error e -> apply c s o = s.
Proof. intros H. unfold apply. rewrite H. reflexivity. Qed.
Print Assumptions C18_rejected_leaves_state.

(* 10. a class-style definition equals the procedural one: the body's HDL-valued items assigned in order
       (a reserved key in the class dictionary is an error), and the result is coherent *)
Theorem C18_class_equals_procedural c items :
  (class_keys_ok c items = true -> of_class_body c init items = run_strict c init (class_ops c items)) /\
  (class_keys_ok c items = false -> exists e, of_class_body c init items = Error e) /\
  (forall s, of_class_body c init items = Ok s -> s = run c (class_ops c items) /\ Coh c s).
Proof.
  split; [apply class_body_procedural|]. split; [apply class_body_bad_key|].
  intros s H. destruct (class_keys_ok c items) eqn:E.
  - rewrite (class_body_procedural c items init E) in H. split.
    + apply run_strict_fold in H. exact H.
    + eapply coh_run_strict; [apply coh_init|exact H].
  - destruct (class_body_bad_key c items init E) as [e He]. congruence.
Qed.
Print Assumptions C18_class_equals_procedural.

(* ---- non-vacuity: concrete, non-trivial instances *)
Open Scope string_scope.
Definition sigv (i : Z) := V i (KSignal false DNone) None.
Definition instv (i : Z) := V i KInstance None.

(* the pinned-tree witness: x was a signal, becomes an instance; it leaves `signals` *)
Example C18_ex_reuse :
  let s := run CModule [SetAttr "x" (sigv 0); SetAttr "y" (instv 1); SetAttr "x" (instv 2)] in
  keys (st_ns s) = ["y"; "x"] /\ st_views s VSignals = [] /\
  keys (st_views s VInstances) = ["y"; "x"] /\ get s "x" = Some (V 2 KInstance (Some "x")).
Proof. vm_compute. repeat split. Qed.

(* reserved names, non-HDL values, deletion, edits after elaboration: rejected, state unchanged *)
Example C18_ex_rejections :
  let s := run CModule [SetAttr "a" (sigv 0)] in
  is_ok (step CModule s (Add (V 1 (KSignal false DNone) (Some "ports")) None)) = false /\
  is_ok (step CModule s (SetAttr "bundle_ports" (sigv 1))) = false /\
  is_ok (step CModule s (SetAttr "name" (sigv 1))) = false /\
  is_ok (step CModule s (SetAttr "name" (V 1 KStr None))) = true /\
  is_ok (step CModule s (SetAttr "a" (V 1 KOther None))) = false /\
  is_ok (step CModule s (Del "a")) = false /\
  is_ok (step CBundle init (SetAttr "get" (sigv 1))) = false /\
  is_ok (step CBundle init (SetAttr "a" (instv 1))) = false /\
  is_ok (step CModule (apply CModule s Elaborate) (SetAttr "b" (sigv 1))) = false /\
  keys (st_ns (run CModule [SetAttr "a" (sigv 0); Elaborate; SetAttr "b" (sigv 1); Del "a"])) = ["a"].
Proof. vm_compute. repeat split. Qed.

Example C18_ex_class :
  exists s, of_class_body CModule init [("a", sigv 0); ("_t", sigv 1); ("k", V 2 KOther None); ("b", instv 3)] = Ok s /\
            keys (st_ns s) = ["a"; "b"] /\
            class_keys_ok CModule [("a", sigv 0); ("_t", sigv 1); ("k", V 2 KOther None); ("b", instv 3)] = true /\
            exists e, of_class_body CModule init [("a", sigv 0); ("ports", sigv 1)] = Error e.
Proof. eexists. vm_compute. repeat split. eexists. reflexivity. Qed.

Example C18_ex_ports :
  let s := run CModule [SetAttr "p" (V 0 (KSignal true DNone) None); SetAttr "p" (sigv 1); Add (V 2 (KSignal true DNone) (Some "q")) None] in
  keys (st_views s VPorts) = ["q"] /\ keys (st_views s VSignals) = ["p"] /\ st_owned s = [2; 1; 0].
Proof. vm_compute. repeat split. Qed.
