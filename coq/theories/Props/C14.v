(* Props/C14.v — Prefixed numbers are exact, totally ordered and hash-consistent.
   Only statements, each closed by a lemma of Proofs/C14Proofs.v / Proofs/C14SpecProofs.v / Base/Dec.v,
   followed by Print Assumptions, then non-vacuity Examples and the `_refuted` theorems about the PINNED behaviour.

   Vocabulary (Model/Prefixed.v, the model of the REPAIRED hdl21/prefix.py):
     a prefixed number p = (number p : finite Decimal, prefix p : exponent of a member of Prefix);
     its exact value is  number p * 10^(prefix p);  `pexp p` is the exponent of that value and
     `vat e p` the value as an INTEGER multiple of 10^e, meaningful for every e <= pexp p.
   "op is exact" therefore reads: at every exponent e common to operands and result,
     vat e (op a b) = vat e a  op  vat e b      (an identity in Z; it determines the value as a rational).
   Every result's exponent is below the operands' (`pexp r <= pexp a`), so `e <= pexp r` makes e common to all. *)
Require Import Hdl21.Base.PyInt Hdl21.Base.Dec Hdl21.Model.Prefixed Hdl21Gen.PrefixTable.
Require Import Hdl21.Proofs.C14Proofs Hdl21.Corr.C14 Hdl21.Proofs.C14SpecProofs.
Open Scope Z_scope.

(* 0. the decimal layer: the sum of two Decimals in the exact context *)
Theorem C14_dadd_exact e a b : e <= dexp a -> e <= dexp b -> at_ e (dadd a b) = at_ e a + at_ e b.
Proof. exact (dadd_exact e a b). Qed.
Print Assumptions C14_dadd_exact.

(* ================================================================== 1. arithmetic is exact, never raises, and
   returns a member of Prefix — for ALL finite numbers and ALL prefixes (membership is not even needed) *)
Theorem C14_add_exact a b :
  (exists r, padd a b = Ok r) /\
  forall r e, padd a b = Ok r -> e <= pexp r ->
    vat e r = vat e a + vat e b /\ pexp r <= pexp a /\ pexp r <= pexp b /\ pwf r = true.
Proof.
  split; [destruct (pscale_auto_spec (padd_raw a b)) as [q [_ E]]; eexists; exact E|].
  intros r e H He. destruct (padd_exact e a b r H He) as [V [La Lb]]. repeat split; try assumption.
  exact (pscale_auto_wf _ _ H).
Qed.
Print Assumptions C14_add_exact.

Theorem C14_sub_exact a b :
  (exists r, psub a b = Ok r) /\
  forall r e, psub a b = Ok r -> e <= pexp r ->
    vat e r = vat e a - vat e b /\ pexp r <= pexp a /\ pexp r <= pexp b /\ pwf r = true.
Proof.
  split; [destruct (pscale_auto_spec (psub_raw a b)) as [q [_ E]]; eexists; exact E|].
  intros r e H He. destruct (psub_exact e a b r H He) as [V [La Lb]]. repeat split; try assumption.
  exact (pscale_auto_wf _ _ H).
Qed.
Print Assumptions C14_sub_exact.

(* product: at the sum of any two exponents of the operands *)
Theorem C14_mul_exact a b :
  (exists r, pmul a b = Ok r) /\
  forall r ea eb, pmul a b = Ok r -> ea <= pexp a -> eb <= pexp b -> ea + eb <= pexp r ->
    vat (ea + eb) r = vat ea a * vat eb b /\ pexp r <= pexp a + pexp b /\ pwf r = true.
Proof.
  split; [destruct (pmul_total a b) as [r [E _]]; eauto|].
  intros r ea eb H Ha Hb He. split; [exact (pmul_exact ea eb a b r H Ha Hb He)|exact (pexp_pmul a b r H)].
Qed.
Print Assumptions C14_mul_exact.

(* Prefixed * scalar (a Decimal d) *)
Theorem C14_mul_scalar_exact a d r ea eb :
  pmul_scalar a d = Ok r -> ea <= pexp a -> eb <= dexp d -> ea + eb <= pexp r -> vat (ea + eb) r = vat ea a * at_ eb d.
Proof. exact (pmul_scalar_exact ea eb a d r). Qed.
Print Assumptions C14_mul_scalar_exact.

(* Prefixed + scalar, scalar - Prefixed (a Decimal d; the code converts it with to_prefixed and does not rescale) *)
Theorem C14_add_scalar_exact a d e :
  to_prefixed d = Ok (mkP d 0) /\
  (e <= pexp (padd_raw a (mkP d 0)) -> vat e (padd_raw a (mkP d 0)) = vat e a + at_ e d) /\
  (e <= pexp (psub_raw (mkP d 0) a) -> vat e (psub_raw (mkP d 0) a) = at_ e d - vat e a).
Proof.
  split; [exact (to_prefixed_spec d)|]. rewrite <- (vat_unit e d).
  split; [exact (padd_raw_vat e a (mkP d 0))|exact (psub_raw_vat e (mkP d 0) a)].
Qed.
Print Assumptions C14_add_scalar_exact.

(* Prefixed * Prefix (Prefix.__rmul__):  value * 10^q *)
Theorem C14_prefix_mul_exact p q :
  (exists r, prefix_rmul p q = Ok r) /\
  forall r e, prefix_rmul p q = Ok r -> e <= pexp r -> vat e r = vat (e - q) p /\ pexp r <= pexp p + q /\ pwf r = true.
Proof. split; [exact (prefix_rmul_total p q)|intros r e; exact (prefix_rmul_vat e p q r)]. Qed.
Print Assumptions C14_prefix_mul_exact.

Theorem C14_neg_exact e a : vat e (pneg a) = - vat e a /\ prefix (pneg a) = prefix a /\ pexp (pneg a) = pexp a.
Proof. split; [exact (pneg_exact e a)|split; reflexivity]. Qed.
Print Assumptions C14_neg_exact.

Theorem C14_abs_exact e a : e <= pexp a ->
  vat e (pabs a) = Z.abs (vat e a) /\ prefix (pabs a) = prefix a /\ pexp (pabs a) = pexp a.
Proof. intros H. split; [exact (pabs_exact e a H)|split; reflexivity]. Qed.
Print Assumptions C14_abs_exact.

(* scale(prefix): the value is preserved, the prefix is the target *)
Theorem C14_scale_exact p q e : e <= pexp (pscale p q) ->
  vat e (pscale p q) = vat e p /\ prefix (pscale p q) = q /\ pexp (pscale p q) <= pexp p.
Proof. intros H. split; [exact (pscale_vat e p q H)|split; [reflexivity|exact (pexp_pscale_le p q)]]. Qed.
Print Assumptions C14_scale_exact.

(* scale(): never raises, preserves the value, lands on a member of Prefix *)
Theorem C14_scale_auto_exact p :
  (exists r, pscale_auto p = Ok r) /\
  forall r e, pscale_auto p = Ok r -> e <= pexp r -> vat e r = vat e p /\ pwf r = true /\ pexp r <= pexp p.
Proof.
  split; [destruct (pscale_auto_spec p) as [q [_ E]]; eauto|].
  intros r e H He. split; [exact (pscale_auto_vat e p r H He)|split; [exact (pscale_auto_wf p r H)|exact (pscale_auto_pexp p r H)]].
Qed.
Print Assumptions C14_scale_auto_exact.

(* conversion: to_prefixed(d) is d with the UNIT prefix, digit for digit *)
Theorem C14_to_prefixed_exact d :
  exists r, to_prefixed d = Ok r /\ number r = d /\ prefix r = 0 /\ pwf r = true /\ forall e, vat e r = at_ e d.
Proof.
  exists (mkP d 0). split; [exact (to_prefixed_spec d)|]. split; [reflexivity|]. split; [reflexivity|].
  split; [exact unit_is_prefix|intros e; exact (vat_unit e d)].
Qed.
Print Assumptions C14_to_prefixed_exact.

(* the same statements in the words of the correspondence run: the model's results pass the predicate `exact`
   that Corr/C14.v evaluates on the implementation's results *)
Theorem C14_model_meets_checked_spec a b :
  (forall r, padd a b = Ok r -> exact (IVal (number r) (prefix r)) (dadd (pval a) (pval b)) = true) /\
  (forall r, psub a b = Ok r -> exact (IVal (number r) (prefix r)) (dsub (pval a) (pval b)) = true) /\
  (forall r, pmul a b = Ok r -> exact (IVal (number r) (prefix r)) (dmul (pval a) (pval b)) = true) /\
  cmp_spec (pval a) (pval b) (Z.min (prefix a) (prefix b))
    (CVal (pcmp OLt a b) (pcmp OLe a b) (pcmp OEq a b) (pcmp ONe a b) (pcmp OGt a b) (pcmp OGe a b)) = true /\
  (forall t, pint a = Ok t -> is_int_partb t (pval a) = true).
Proof.
  split; [exact (model_add_exact a b)|]. split; [exact (model_sub_exact a b)|]. split; [exact (model_mul_exact a b)|].
  split; [exact (model_cmp_spec a b)|exact (model_int_spec a)].
Qed.
Print Assumptions C14_model_meets_checked_spec.

(* ================================================================== 2. comparing never raises *)
(* `pcmp_ctx prec` is the code path with its error: round(number, EPSILON) raises InvalidOperation when the context
   precision `prec` is exceeded.  In the exact context of the repaired code (prec = None) it never raises, for ANY two
   finite numbers, and returns what the total function `pcmp` returns. *)
Theorem C14_cmp_total o a b : pcmp_ctx None o a b = inl (pcmp o a b).
Proof. exact (pcmp_ctx_exact o a b). Qed.
Print Assumptions C14_cmp_total.

(* ================================================================== 3. comparison is sound beyond the tolerance *)
(* what is compared: the exact values rounded half-even to the grid 10^(s - EPSILON), s = the smaller prefix *)
Theorem C14_cmp_key a b e :
  let s := Z.min (prefix a) (prefix b) in
  e <= pexp a -> e <= pexp b -> e <= s - EPSILON ->
  rkey a b = (rhe (vat e a) (10 ^ (s - EPSILON - e)), rhe (vat e b) (10 ^ (s - EPSILON - e))) /\
  forall o, pcmp o a b = int_op o (fst (rkey a b)) (snd (rkey a b)).
Proof.
  intros s. unfold s. rewrite <- smaller_prefix_min. intros Ha Hb Hs.
  split; [exact (rkey_spec a b e Ha Hb Hs)|intros o; exact (pcmp_key o a b)].
Qed.
Print Assumptions C14_cmp_key.

(* |value a - value b| > 10^-EPSILON * 10^(min prefix)  ==>  every operator agrees with the exact values *)
Theorem C14_cmp_sound a b e :
  let s := Z.min (prefix a) (prefix b) in
  e <= pexp a -> e <= pexp b -> e <= s - EPSILON ->
  10 ^ (s - EPSILON - e) < Z.abs (vat e a - vat e b) ->
  (pcmp OLt a b = true <-> vat e a < vat e b) /\ (pcmp OGt a b = true <-> vat e b < vat e a) /\
  pcmp OEq a b = false /\ pcmp ONe a b = true /\
  (pcmp OLe a b = true <-> vat e a < vat e b) /\ (pcmp OGe a b = true <-> vat e b < vat e a).
Proof. intros s. unfold s. rewrite <- smaller_prefix_min. exact (pcmp_sound a b e). Qed.
Print Assumptions C14_cmp_sound.

(* the same value  ==>  equal (and <=, >=; not <, >, !=), whatever the prefixes and representations *)
Theorem C14_cmp_same_value a b e : e <= pexp a -> e <= pexp b -> vat e a = vat e b ->
  pcmp OEq a b = true /\ pcmp OLe a b = true /\ pcmp OGe a b = true /\
  pcmp OLt a b = false /\ pcmp OGt a b = false /\ pcmp ONe a b = false.
Proof. exact (pcmp_same_value a b e). Qed.
Print Assumptions C14_cmp_same_value.

(* inside the tolerance the operators may call two values equal, but never invert their order *)
Theorem C14_cmp_never_inverts a b e : e <= pexp a -> e <= pexp b -> vat e a <= vat e b ->
  pcmp OGt a b = false /\ pcmp OLe a b = true.
Proof. exact (pcmp_never_inverts a b e). Qed.
Print Assumptions C14_cmp_never_inverts.

(* ================================================================== 4. trichotomy and the usual relations *)
Theorem C14_trichotomy a b :
  (pcmp OLt a b = true /\ pcmp OEq a b = false /\ pcmp OGt a b = false) \/
  (pcmp OLt a b = false /\ pcmp OEq a b = true /\ pcmp OGt a b = false) \/
  (pcmp OLt a b = false /\ pcmp OEq a b = false /\ pcmp OGt a b = true).
Proof. exact (pcmp_trichotomy a b). Qed.
Print Assumptions C14_trichotomy.

Theorem C14_le_ge_ne a b :
  pcmp OLe a b = pcmp OLt a b || pcmp OEq a b /\
  pcmp OGe a b = pcmp OGt a b || pcmp OEq a b /\
  pcmp ONe a b = negb (pcmp OEq a b) /\
  pcmp OLe a b = negb (pcmp OGt a b) /\
  pcmp OGe a b = negb (pcmp OLt a b).
Proof. exact (pcmp_rel a b). Qed.
Print Assumptions C14_le_ge_ne.

(* a < b  iff  b > a, a <= b iff b >= a, a == b iff b == a, a != b iff b != a *)
Theorem C14_lt_gt_swap o a b : pcmp (swap_op o) b a = pcmp o a b.
Proof. exact (pcmp_swap o a b). Qed.
Print Assumptions C14_lt_gt_swap.

Theorem C14_eq_refl a : pcmp OEq a a = true.
Proof. exact (pcmp_refl a). Qed.
Print Assumptions C14_eq_refl.

(* ================================================================== 5. hash *)
(* hash never raises; numbers that denote the same value hash equally (and compare equal: C14_cmp_same_value) *)
Theorem C14_hash_consistent a b e : e <= pexp a -> e <= pexp b -> vat e a = vat e b ->
  phash a = phash b /\ exists c k, phash a = Ok (Some (c, k)).
Proof. intros Ha Hb H. split; [exact (phash_consistent a b e Ha Hb H)|exact (phash_total a)]. Qed.
Print Assumptions C14_hash_consistent.

(* in the model the hash is a faithful key of the value (CPython's hash may collide; only -> is observable) *)
Theorem C14_hash_iff_same_value a b e : e <= pexp a -> e <= pexp b -> (vat e a = vat e b <-> phash a = phash b).
Proof. intros Ha Hb. split; [exact (phash_consistent a b e Ha Hb)|exact (phash_injective a b e Ha Hb)]. Qed.
Print Assumptions C14_hash_iff_same_value.

(* ================================================================== 6. int() and float() *)
(* int(p) never raises and is THE integer part of the value (toward zero), on the value at any exponent e <= 0:
   |t| * 10^-e <= |V| < (|t| + 1) * 10^-e  and  t, V have the same sign *)
Theorem C14_int_trunc p e : e <= pexp p -> e <= 0 ->
  exists t, pint p = Ok t /\ int_part_at t (vat e p) e /\ forall t', int_part_at t' (vat e p) e -> t' = t.
Proof.
  intros Hp He. destruct (pint_trunc p e Hp He) as [t [E I]]. exists t. split; [exact E|split; [exact I|]].
  intros t' I'. exact (int_part_at_unique t' t _ e He I' I).
Qed.
Print Assumptions C14_int_trunc.

(* float(p): `rnd` stands for CPython's float(Decimal) (correctly rounded; TRUSTED, validated per run against
   fractions.Fraction).  The theorem: float never raises and applies rnd exactly ONCE, to a Decimal x that denotes the
   exact value of p — no intermediate rounding (the pinned code rounded number, 10**prefix and their product). *)
Section Float.
  Variable F : Type.
  Variable rnd : dec -> F.
  Theorem C14_float_nearest_partial p :
    exists x, pfloat rnd p = Ok (rnd x) /\ dexp x <= pexp p /\ forall e, e <= dexp x -> at_ e x = vat e p.
  Proof. exact (pfloat_one_rounding rnd p). Qed.
End Float.
Print Assumptions C14_float_nearest_partial.

(* ================================================================== non-vacuity: concrete instances (pinned witnesses) *)
Definition PX (c e q : Z) : pfx := mkP (of_int c e) q.     (* c * 10^e with prefix exponent q *)

(* 1*Y + 1*y = 1000000000000000000000000000000000000000000000001 * 10^-24, all 49 digits *)
Example C14_ex_add : exists r, padd (PX 1 0 24) (PX 1 0 (-24)) = Ok r /\ pexp r = -24 /\ vat (-24) r = 10 ^ 48 + 1 /\ pwf r = true.
Proof. eexists. split; [vm_compute; reflexivity|]. vm_compute. repeat split. Qed.

(* 31 digits times 3 *)
Example C14_ex_mul : exists r, pmul (PX 1234567890123456789012345678901 0 0) (PX 3 0 0) = Ok r /\ pexp r <= 0 /\
  vat (pexp r) r = 3703703670370370367037037036703 * 10 ^ (- pexp r).
Proof. eexists. split; [vm_compute; reflexivity|]. vm_compute. split; [discriminate|reflexivity]. Qed.

(* 1*UNIT > 1*n: nine decades apart; the hypotheses of C14_cmp_sound hold at e = -29 *)
Example C14_ex_cmp_far :
  let a := PX 1 0 0 in let b := PX 1 0 (-9) in
  (-29 <= pexp a /\ -29 <= pexp b /\ -29 <= Z.min (prefix a) (prefix b) - EPSILON /\
   10 ^ (Z.min (prefix a) (prefix b) - EPSILON - -29) < Z.abs (vat (-29) a - vat (-29) b)) /\
  pcmp OGt a b = true /\ pcmp OLt a b = false /\ pcmp OEq a b = false /\ pcmp_ctx None OGt a b = inl true.
Proof. vm_compute. repeat split; discriminate. Qed.

(* 1*K vs 1000.000000000000000004*UNIT: 4e-18 apart, tolerance 1e-20: ordered.  1 vs 1 + 4e-21: inside: equal *)
Example C14_ex_cmp_tolerance :
  pcmp OLt (PX 1 0 3) (PX 1000000000000000000004 (-18) 0) = true /\
  pcmp OEq (PX 1 0 0) (PX 1000000000000000000004 (-21) 0) = true /\
  vat (-21) (PX 1 0 0) <> vat (-21) (PX 1000000000000000000004 (-21) 0).
Proof. vm_compute. repeat split; discriminate. Qed.

(* 1000*m == 1*UNIT, same hash; 1.50*K and 1500*UNIT too *)
Example C14_ex_hash :
  vat (-3) (PX 1000 0 (-3)) = vat (-3) (PX 1 0 0) /\ pcmp OEq (PX 1000 0 (-3)) (PX 1 0 0) = true /\
  phash (PX 1000 0 (-3)) = phash (PX 1 0 0) /\ phash (PX 1 0 0) = Ok (Some (1, 0)) /\
  phash (PX 150 (-2) 3) = phash (PX 1500 0 0) /\ phash (PX 1 0 0) <> phash (PX 1 0 (-3)).
Proof. vm_compute. repeat split; discriminate. Qed.

(* int(1500*m) = 1, int(1.5*K) = 1500, int(-7*c) = 0, int(-1999*m) = -1 *)
Example C14_ex_int :
  pint (PX 1500 0 (-3)) = Ok 1 /\ pint (PX 15 (-1) 3) = Ok 1500 /\ pint (PX (-7) 0 (-2)) = Ok 0 /\ pint (PX (-1999) 0 (-3)) = Ok (-1) /\
  int_part_at 1 (vat (-3) (PX 1500 0 (-3))) (-3).
Proof. vm_compute. repeat split; discriminate. Qed.

(* float(3*y) is ONE rounding of 3E-24 (nearest_double: the specification validated against CPython) *)
Example C14_ex_float : pfloat nearest_double (PX 3 0 (-24)) = Ok (nearest_double (of_int 3 (-24))) /\
  nearest_double (of_int 3 (-24)) = FFin 8166776806102523 (-131).
Proof. vm_compute. split; reflexivity. Qed.

(* scale: 5*n to PICO is 5000*p *)
Example C14_ex_scale : vat (-12) (pscale (PX 5 0 (-9)) (-12)) = 5000 /\ prefix (pscale (PX 5 0 (-9)) (-12)) = -12 /\
  pscale_auto (PX 5000 0 (-12)) = Ok (pscale (PX 5000 0 (-12)) (-9)).
Proof. vm_compute. repeat split. Qed.

(* ================================================================== the PINNED behaviour is refuted *)
(* comparison in the default 28-digit context (pcmp_ctx (Some 28)): 1*UNIT > 1*n raises decimal.InvalidOperation *)
Theorem C14_pinned_cmp_refuted :
  exists a b, pwf a = true /\ pwf b = true /\ pcmp_ctx (Some 28) OGt a b = inr InvalidOperation.
Proof. exists (PX 1 0 0), (PX 1 0 (-9)). vm_compute. repeat split. Qed.
Print Assumptions C14_pinned_cmp_refuted.

(* ... and so does EVERY comparison in which the first operand is at least 10^(28 - EPSILON) = 10^8 units of the smaller
   prefix ("more than eight decades apart"), for every operator *)
Theorem C14_pinned_cmp_raises_beyond_8_decades o a b e :
  let s := Z.min (prefix a) (prefix b) in
  e <= pexp a -> e <= pexp b -> e <= s - EPSILON ->
  10 ^ 28 * 10 ^ (s - EPSILON - e) <= Z.abs (vat e a) ->
  pcmp_ctx (Some 28) o a b = inr InvalidOperation.
Proof. intros s. unfold s. rewrite <- smaller_prefix_min. apply pcmp_ctx_raises. lia. Qed.
Print Assumptions C14_pinned_cmp_raises_beyond_8_decades.

(* hash on the (number, prefix) fields: 1000*m == 1*UNIT denote one value, compare equal, and get different keys *)
Theorem C14_pinned_hash_refuted :
  exists a b, pwf a = true /\ pwf b = true /\ vat (-3) a = vat (-3) b /\ pcmp OEq a b = true /\
              phash_pinned a <> phash_pinned b.
Proof. exists (PX 1000 0 (-3)), (PX 1 0 0). vm_compute. repeat split; discriminate. Qed.
Print Assumptions C14_pinned_hash_refuted.

(* int(self.number) * 10**prefix: raises for every negative prefix (int(1500*m)), and truncates the NUMBER instead of
   the value (int(1.5*K) = 1000) *)
Theorem C14_pinned_int_refuted :
  (exists p, pwf p = true /\ pint_pinned p = Error EOther /\ pint p = Ok 1) /\
  (exists p, pwf p = true /\ pint_pinned p = Ok 1000 /\ pint p = Ok 1500).
Proof. split; [exists (PX 1500 0 (-3))|exists (PX 15 (-1) 3)]; vm_compute; repeat split. Qed.
Print Assumptions C14_pinned_int_refuted.

(* sums rounded to the 28 digits of the default context: 1*Y + 1*y loses the 1*y *)
Theorem C14_pinned_add_refuted :
  exists a b, pwf a = true /\ pwf b = true /\
    vat (-24) (padd_raw_pinned a b) <> vat (-24) a + vat (-24) b /\ vat (-24) (padd_raw a b) = vat (-24) a + vat (-24) b.
Proof. exists (PX 1 0 24), (PX 1 0 (-24)). vm_compute. repeat split; discriminate. Qed.
Print Assumptions C14_pinned_add_refuted.
