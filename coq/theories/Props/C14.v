(* Props/C14.v — Prefixed numbers are exact, totally ordered and hash-consistent. (being filled in) *)
Require Import Hdl21.Base.PyInt Hdl21.Base.Dec Hdl21.Model.Prefixed.

Theorem C14_dadd_exact e a b : e <= dexp a -> e <= dexp b -> at_ e (dadd a b) = at_ e a + at_ e b.
Proof. exact (dadd_exact e a b). Qed.
Print Assumptions C14_dadd_exact.
