(* Props/C01G.v — C01 on the bundle fragment WITHOUT a modelling assumption about the bundle passes.

   Model/C01GBundlePasses.v:  bundle_passes : bdesign -> result design  =  ib_design ; flat_design
     ib_design    InstBundleElabPass: every Pair becomes one instance per member (p, n) with a fresh name, its connections split
                  member-wise (bundle instance -> the member of that name, anonymous bundle -> its member BY NAME, anything
                  else -> the same object to both);
     flat_design  BundleFlattener per module: bundle instances popped last-added first and named by flatname with avoid = the
                  module namespace at that moment (Model/BundleFlat.v, re-used), every connection to a bundle-valued port
                  replaced IN PLACE by one connection per flattened port of the CHILD, paired with the parent side BY PATH
                  (replace_bundle_conn_checked: extras refused); sub-bundle references (resolve_bundleref), anonymous bundles
                  (flatten_anon), bundle-port references and no-connects member-wise.

   1. C01G_bundle_passes_is_lower: the result IS the path-based member-wise lowering `lower_m` (Spec/C01GLower.v: Spec/C01BLower.v's
      `lower` with a naming per MODULE, needed because the implementation's names depend on the module namespace) of the
      design InstBundleElabPass leaves, under the naming the passes themselves compute (fl_impl).
   2. C01G_names_injective: that naming is injective on every module (the hypothesis names_ok of the lowering lemma is a THEOREM
      for it): flattened names never collide with each other or with anything else the module holds.
   3. C01G_lower_m_step / C01G_lower_m_same_net: the lowering lemma of Props/C01B.v carries over to lower_m.
   4. C01G_inst_bundles_same_net: InstBundleElabPass keeps the nets of the written design (Pairs as Spec/C01BNets.v means them).
   5. C01G_bundles_end_to_end: composition with the pipeline theorem C01F_end_to_end_partial: the package of
      `elab_export_model2 xi (bundle_passes d)` has exactly the nets of the written bundle design on its terminals.
      What ties the model to hdl21 is the correspondence run (Corr/C01G.v, stream `bundle-passes`), nothing else.

   All hypotheses are boolean and evaluated per design by the run:
     pairs_wf d            attribute names of a module distinct; a Pair's port takes a scalar, a bundle INSTANCE or an anonymous
                           bundle; port references never point at a Pair                (all implied by Spec/C01BWf.v:wf_bdesign)
     bp_wf d1              (d1 = the design after InstBundleElabPass) attribute names distinct, definition trees well formed,
                           device port names distinct (implied by wf_bdesign), member names of every anonymous bundle distinct
                           (Python keyword arguments / dict keys always are)
     orbits                traverse (borbit d fuel) ts = Ok os, every node on them a node of the design (bnode_ok), every orbit
                           closed under bstep (orbit_closed: true whenever the fuel sufficed) - as in C01F_bundles_end_to_end_partial;
     node_path_ok d t      the path of a terminal names instances of the design, Pair elements are 0 / 1
     wf_design d', frag_ok2 d', xinfo_ok xi d', terminals d'   the hypotheses of C01F_end_to_end_partial on the passes' result.
   _partial only through frag_ok2 (inherited from C01F: no loop between the sources of reference groups) and because the orbit
   hypotheses are not derived from wf_bdesign (notes/C01B.md).  No hypothesis about names: injectivity is proved. *)
From Coq Require Import String.
Require Import Hdl21.Base.PyInt Hdl21.Spec.PySlice Hdl21.Model.Slice Hdl21.Model.Resolve Hdl21.Base.Design
               Hdl21.Spec.Nets Hdl21.Spec.WfDesign Hdl21.Base.Package Hdl21.Base.PrimTable Hdl21.Spec.PkgWf
               Hdl21.Spec.C01ENets Hdl21.Model.C01EElab Hdl21.Model.C01FElab Hdl21.Spec.C01FNets
               Hdl21.Base.C01BDesign Hdl21.Spec.C01BNets Hdl21.Spec.C01BWf Hdl21.Spec.C01BLower
               Hdl21.Proofs.C01FProofsBundles
               Hdl21.Spec.C01GLower Hdl21.Model.C01GBundlePasses
               Hdl21.Proofs.C01GProofsLower Hdl21.Proofs.C01GProofsPasses Hdl21.Proofs.C01GProofsNames Hdl21.Proofs.C01GProofsPairs
               Hdl21.Proofs.C01GProofsEnd.
Require Hdl21.Corr.C01B Hdl21.Corr.C01G Hdl21.Props.C01B Hdl21.Props.C01F.
Require Hdl21.Spec.BundleSpec.
Open Scope Z_scope.

(* 1. THE MODEL OF THE BUNDLE PASSES IS THE PATH-BASED LOWERING.
      d1 is what InstBundleElabPass leaves (d1 = d when the design has no Pair: C01G_no_pairs_identity). *)
Theorem C01G_bundle_passes_is_lower d d' :
  bundle_passes d = Ok d' ->
  exists d1, ib_design d = Ok d1 /\ no_pairs d1 = true /\ (bp_wf d1 = true -> d' = lower_m fl_impl d1).
Proof.
  unfold bundle_passes. intros H. destruct (ib_design d) as [d1|] eqn:E; cbn [bind] in H; [|discriminate].
  exists d1. split; [reflexivity|]. split; [exact (ib_design_no_pairs d d1 E)|]. intros W. exact (flat_design_is_lower d1 d' W H).
Qed.
Print Assumptions C01G_bundle_passes_is_lower.

Theorem C01G_no_pairs_identity d : no_pairs d = true -> ib_design d = Ok d.
Proof. exact (ib_design_id d). Qed.
Print Assumptions C01G_no_pairs_identity.

(* for a design without Pairs, in one line *)
Theorem C01G_flatten_is_lower d d' : no_pairs d = true -> bp_wf d = true -> bundle_passes d = Ok d' -> d' = lower_m fl_impl d.
Proof.
  intros Hn W H. unfold bundle_passes in H. rewrite (ib_design_id d Hn) in H. cbn [bind] in H. exact (flat_design_is_lower d d' W H).
Qed.
Print Assumptions C01G_flatten_is_lower.

(* 2. The names the passes compute are injective on every module (scalars, flattened port and signal names pairwise distinct). *)
Theorem C01G_names_injective d d' : bp_wf d = true -> flat_design d = Ok d' -> names_ok_m fl_impl d = true.
Proof. intros W H. exact (fl_impl_names_ok d W (flat_design_scopes d d' H)). Qed.
Print Assumptions C01G_names_injective.

(* 3. The lowering lemma for a naming that depends on the module. *)
Theorem C01G_lower_m_step nm d n n' : names_ok_m nm d = true -> no_pairs d = true -> bnode_ok d n = true -> bstep d n = Ok n' ->
  step (lower_m nm d) (phi_m nm d n) = Ok (phi_m nm d n').
Proof. intros H1 H2. exact (lower_m_step nm d H1 H2 n n'). Qed.
Print Assumptions C01G_lower_m_step.

Theorem C01G_phi_m_injective nm d a b : names_ok_m nm d = true -> bnode_ok d a = true -> bnode_ok d b = true ->
  phi_m nm d a = phi_m nm d b -> a = b.
Proof. intros H1. exact (phi_m_inj nm d H1 a b). Qed.
Print Assumptions C01G_phi_m_injective.

Theorem C01G_lower_m_same_net nm d x y : names_ok_m nm d = true -> no_pairs d = true -> live d x -> live d y ->
  (bsame_net d x y <-> same_net (lower_m nm d) (phi_m nm d x) (phi_m nm d y)).
Proof. exact (lower_m_meet nm d x y). Qed.
Print Assumptions C01G_lower_m_same_net.

(* 4. InstBundleElabPass keeps the nets: element e of Pair i is the instance created for member e. *)
Theorem C01G_inst_bundles_same_net d d1 x y : ib_design d = Ok d1 -> pairs_wf d = true ->
  live d x -> node_path_ok d x = true -> live d y -> node_path_ok d y = true ->
  (bsame_net d x y <-> bsame_net d1 (up_node d x) (up_node d y)).
Proof.
  intros Hib Hpw Lx Px Ly Py. apply (ib_meet d d1 Hib Hpw); (split; [assumption|apply node_path_ok_pokp; assumption]).
Qed.
Print Assumptions C01G_inst_bundles_same_net.

(* 5. BUNDLES END TO END.  FULL statement (not proved): the same without frag_ok2 and with the orbit hypotheses replaced by
      wf_bdesign d = Ok tt.  The terminal map: term_map_g xi d d1 d' t = term_map2 xi d' (phi_m fl_impl d1 (up_node d t)). *)
Theorem C01G_bundles_end_to_end_partial xi d d1 d' fuel ts os p tl :
  pairs_wf d = true -> ib_design d = Ok d1 -> bp_wf d1 = true -> flat_design d1 = Ok d' ->
  traverse (borbit d fuel) ts = Ok os -> forallb (forallb (bnode_ok d)) os = true -> forallb (orbit_closed d) os = true ->
  forallb (node_path_ok d) ts = true ->
  wf_design d' = Ok tt -> frag_ok2 d' = true -> xinfo_ok xi d' = true ->
  terminals d' = Ok tl -> forallb (fun t => existsb (node_eqb (phi_m fl_impl d1 (up_node d t))) (map fst tl)) ts = true ->
  elab_export_model2 xi d' = Ok p ->
  exists tn, top_name d' = Ok tn /\
    forall t1 t2, In t1 ts -> In t2 ts ->
      (same_net_pkg p tn (term_map_g xi d d1 d' t1) (term_map_g xi d d1 d' t2) <-> bsame_net d t1 t2).
Proof. exact (passes_end_to_end xi d d1 d' fuel ts os p tl). Qed.
Print Assumptions C01G_bundles_end_to_end_partial.

(* ... stated on bundle_passes itself *)
Theorem C01G_bundle_passes_end_to_end_partial xi d d' fuel ts os p tl :
  bundle_passes d = Ok d' ->
  pairs_wf d = true -> (forall d1, ib_design d = Ok d1 -> bp_wf d1 = true) ->
  traverse (borbit d fuel) ts = Ok os -> forallb (forallb (bnode_ok d)) os = true -> forallb (orbit_closed d) os = true ->
  forallb (node_path_ok d) ts = true ->
  wf_design d' = Ok tt -> frag_ok2 d' = true -> xinfo_ok xi d' = true ->
  terminals d' = Ok tl ->
  (forall d1, ib_design d = Ok d1 -> forallb (fun t => existsb (node_eqb (phi_m fl_impl d1 (up_node d t))) (map fst tl)) ts = true) ->
  elab_export_model2 xi d' = Ok p ->
  exists d1 tn, ib_design d = Ok d1 /\ top_name d' = Ok tn /\
    forall t1 t2, In t1 ts -> In t2 ts ->
      (same_net_pkg p tn (term_map_g xi d d1 d' t1) (term_map_g xi d d1 d' t2) <-> bsame_net d t1 t2).
Proof.
  intros Hbp Hpw Hbw Hos Hok Hcl Hpo Hwf Hfr Hxi Htl Hin Hm. unfold bundle_passes in Hbp.
  destruct (ib_design d) as [d1|] eqn:E; cbn [bind] in Hbp; [|discriminate].
  destruct (passes_end_to_end xi d d1 d' fuel ts os p tl Hpw E (Hbw d1 eq_refl) Hbp Hos Hok Hcl Hpo Hwf Hfr Hxi Htl (Hin d1 eq_refl) Hm) as [tn [Htn H]].
  exists d1, tn. auto.
Qed.
Print Assumptions C01G_bundle_passes_end_to_end_partial.

(* ------------------------------------------------------------------------------------------------ non-vacuity *)
(* all decidable hypotheses of C01G_bundles_end_to_end_partial, for the fuel bdesign_fuel d and the xinfo extended by the
   directions of the flattened ports (Corr/C01G.v:xinfo_flat) *)
Definition c01g_hyps (xi0 : xinfo) (d : bdesign) (ts : list bnode) : bool :=
  match ib_design d with
  | Ok d1 =>
      match flat_design d1 with
      | Ok d' =>
          let xi := C01G.xinfo_flat xi0 d1 in
          pairs_wf d && bp_wf d1 && forallb (node_path_ok d) ts &&
          match traverse (borbit d (bdesign_fuel d)) ts with
          | Ok os => forallb (forallb (bnode_ok d)) os && forallb (orbit_closed d) os
          | Error _ => false
          end &&
          match wf_design d', terminals d' with
          | Ok _, Ok tl => forallb (fun t => existsb (node_eqb (phi_m fl_impl d1 (up_node d t))) (map fst tl)) ts
          | _, _ => false
          end && frag_ok2 d' && xinfo_ok xi d' && is_ok (elab_export_model2 xi d')
      | Error _ => false
      end
  | Error _ => false
  end.

(* what the passes make of a design: per module its ports, its signals, its instances with the names of their connections *)
Definition passes_view (d : bdesign) :=
  match bundle_passes d with
  | Ok d' => map (fun m => (m_name m, map fst (m_ports m), map fst (m_sigs m), map (fun x => (i_name x, map fst (i_conns x))) (m_insts m))) (d_mods d')
  | Error _ => []
  end.

Definition exg1 : bdesign :=
  {| bd_mods := [{| bm_name := "Leaf"; bm_ports := []; bm_sigs := [];
     bm_bundles := [(true, (BundleSpec.BT "bp" false 0%nat None [(BundleSpec.Build_leaf "x" 1 false BundleSpec.DNone None None); (BundleSpec.Build_leaf "y" 2 false BundleSpec.DNone None None)] []))];
     bm_insts := [{| bi_name := "e"; bi_n := 0; bi_pair := false; bi_of := (TDev "/Pin{tag=int:1;}" [("a", 1)]); bi_conns := [("a", (BXSx (XSig 0%N 1)))] |}; {| bi_name := "f"; bi_n := 0; bi_pair := false; bi_of := (TDev "/Pin2{tag=int:1;}" [("a", 2)]); bi_conns := [("a", (BXSx (XSig 1%N 2)))] |}];
     bm_leaves := [(0%N, BLMem "bp" ["x"]); (1%N, BLMem "bp" ["y"])] |}; {| bm_name := "Mid"; bm_ports := []; bm_sigs := [("bb_lo_x", 1)];
     bm_bundles := [(true, (BundleSpec.BT "bb" true 0%nat None [(BundleSpec.Build_leaf "z" 1 false BundleSpec.DNone None None)] [(BundleSpec.BT "lo" false 0%nat None [(BundleSpec.Build_leaf "x" 1 false BundleSpec.DNone None None); (BundleSpec.Build_leaf "y" 2 false BundleSpec.DNone None None)] []); (BundleSpec.BT "hi" true 1%nat None [(BundleSpec.Build_leaf "x" 1 false BundleSpec.DNone None None); (BundleSpec.Build_leaf "y" 2 false BundleSpec.DNone None None)] [])]))];
     bm_insts := [{| bi_name := "l1"; bi_n := 0; bi_pair := false; bi_of := (TMod 0%nat); bi_conns := [("bp", (BXInst "bb" ["lo"]))] |}; {| bi_name := "l2"; bi_n := 0; bi_pair := false; bi_of := (TMod 0%nat); bi_conns := [("bp", (BXInst "bb" ["hi"]))] |}; {| bi_name := "e"; bi_n := 0; bi_pair := false; bi_of := (TDev "/Pin{tag=int:2;}" [("a", 1)]); bi_conns := [("a", (BXSx (XSig 0%N 1)))] |}; {| bi_name := "g"; bi_n := 0; bi_pair := false; bi_of := (TDev "/Pin{tag=int:3;}" [("a", 1)]); bi_conns := [("a", (BXSx (XSig 1%N 1)))] |}];
     bm_leaves := [(0%N, BLMem "bb" ["z"]); (1%N, BLSig "bb_lo_x")] |}; {| bm_name := "Top"; bm_ports := []; bm_sigs := [("s", 1); ("w", 4)];
     bm_bundles := [(false, (BundleSpec.BT "q" false 0%nat None [(BundleSpec.Build_leaf "z" 1 false BundleSpec.DNone None None)] [(BundleSpec.BT "lo" false 0%nat None [(BundleSpec.Build_leaf "x" 1 false BundleSpec.DNone None None); (BundleSpec.Build_leaf "y" 2 false BundleSpec.DNone None None)] []); (BundleSpec.BT "hi" true 1%nat None [(BundleSpec.Build_leaf "x" 1 false BundleSpec.DNone None None); (BundleSpec.Build_leaf "y" 2 false BundleSpec.DNone None None)] [])])); (false, (BundleSpec.BT "q_lo" false 0%nat None [(BundleSpec.Build_leaf "x" 1 false BundleSpec.DNone None None); (BundleSpec.Build_leaf "y" 2 false BundleSpec.DNone None None)] []))];
     bm_insts := [{| bi_name := "m"; bi_n := 0; bi_pair := false; bi_of := (TMod 1%nat); bi_conns := [("bb", (BXAnon [("lo", (BXInst "q" ["hi"])); ("hi", (BXAnon [("x", (BXSx (XSlice (XSig 0%N 4) (Idx 0)))); ("y", (BXSx (XConcat [(XSlice (XSig 0%N 4) (Idx 3)); (XSig 1%N 1)])))])); ("z", (BXSx (XSig 2%N 1)))]))] |}; {| bi_name := "m2"; bi_n := 0; bi_pair := false; bi_of := (TMod 1%nat); bi_conns := [("bb", (BXInst "q" []))] |}];
     bm_leaves := [(0%N, BLSig "w"); (1%N, BLSig "s"); (2%N, BLMem "q_lo" ["x"])] |}]; bd_top := 2%nat |}.
Definition exg1_terms : list bnode :=
  [(NBPort [("l1", 0); ("m", 0)] "e" 0 "a" [] 0); (NBPort [("l1", 0); ("m", 0)] "f" 0 "a" [] 0); (NBPort [("l1", 0); ("m", 0)] "f" 0 "a" [] 1); (NBPort [("l2", 0); ("m", 0)] "e" 0 "a" [] 0); (NBPort [("l2", 0); ("m", 0)] "f" 0 "a" [] 0); (NBPort [("l2", 0); ("m", 0)] "f" 0 "a" [] 1); (NBPort [("m", 0)] "e" 0 "a" [] 0); (NBPort [("m", 0)] "g" 0 "a" [] 0); (NBPort [("l1", 0); ("m2", 0)] "e" 0 "a" [] 0); (NBPort [("l1", 0); ("m2", 0)] "f" 0 "a" [] 0); (NBPort [("l1", 0); ("m2", 0)] "f" 0 "a" [] 1); (NBPort [("l2", 0); ("m2", 0)] "e" 0 "a" [] 0); (NBPort [("l2", 0); ("m2", 0)] "f" 0 "a" [] 0); (NBPort [("l2", 0); ("m2", 0)] "f" 0 "a" [] 1); (NBPort [("m2", 0)] "e" 0 "a" [] 0); (NBPort [("m2", 0)] "g" 0 "a" [] 0)].
Definition exg1_xinfo : xinfo :=
  {| x_devs := [("/Pin2{tag=int:1;}", {| dv_dom := ""; dv_name := "Pin2"; dv_params := [("tag", "int:1")]; dv_ext := (Some {| px_domain := ""; px_name := "Pin2"; px_ports := [("a", 2, 3)]; px_spicetype := "SUBCKT" |}) |}); ("/Pin{tag=int:1;}", {| dv_dom := ""; dv_name := "Pin"; dv_params := [("tag", "int:1")]; dv_ext := (Some {| px_domain := ""; px_name := "Pin"; px_ports := [("a", 1, 3)]; px_spicetype := "SUBCKT" |}) |}); ("/Pin{tag=int:2;}", {| dv_dom := ""; dv_name := "Pin"; dv_params := [("tag", "int:2")]; dv_ext := (Some {| px_domain := ""; px_name := "Pin"; px_ports := [("a", 1, 3)]; px_spicetype := "SUBCKT" |}) |}); ("/Pin{tag=int:3;}", {| dv_dom := ""; dv_name := "Pin"; dv_params := [("tag", "int:3")]; dv_ext := (Some {| px_domain := ""; px_name := "Pin"; px_ports := [("a", 1, 3)]; px_spicetype := "SUBCKT" |}) |})];
     x_ncnames := [("Leaf", []); ("Mid", []); ("Top", [])];
     x_dirs := [("Leaf", []); ("Mid", []); ("Top", [])] |}.

Definition exg2 : bdesign :=
  {| bd_mods := [{| bm_name := "R2"; bm_ports := [("a", 1); ("b", 2)]; bm_sigs := [];
     bm_bundles := [];
     bm_insts := [{| bi_name := "e"; bi_n := 0; bi_pair := false; bi_of := (TDev "/Pin{tag=int:1;}" [("a", 1)]); bi_conns := [("a", (BXSx (XSig 0%N 1)))] |}; {| bi_name := "f"; bi_n := 0; bi_pair := false; bi_of := (TDev "/Pin2{tag=int:1;}" [("a", 2)]); bi_conns := [("a", (BXSx (XSig 1%N 2)))] |}];
     bm_leaves := [(0%N, BLSig "a"); (1%N, BLSig "b")] |}; {| bm_name := "T1"; bm_ports := []; bm_sigs := [("s", 1); ("w", 2); ("v", 2); ("pr_p", 1)];
     bm_bundles := [(false, (BundleSpec.BT "d" false 0%nat None [(BundleSpec.Build_leaf "p" 1 false BundleSpec.DNone (Some "SOURCE") (Some "SINK")); (BundleSpec.Build_leaf "n" 1 false BundleSpec.DNone (Some "SOURCE") (Some "SINK"))] []))];
     bm_insts := [{| bi_name := "pr"; bi_n := 0; bi_pair := true; bi_of := (TMod 0%nat); bi_conns := [("a", (BXInst "d" [])); ("b", (BXAnon [("n", (BXSx (XSig 0%N 2))); ("p", (BXSx (XSig 1%N 2)))]))] |}; {| bi_name := "pq"; bi_n := 0; bi_pair := true; bi_of := (TMod 0%nat); bi_conns := [("a", (BXSx (XSig 2%N 1))); ("b", (BXSx (XSig 1%N 2)))] |}];
     bm_leaves := [(0%N, BLSig "v"); (1%N, BLSig "w"); (2%N, BLSig "pr_p")] |}]; bd_top := 1%nat |}.
Definition exg2_terms : list bnode :=
  [(NBPort [("pr", 0)] "e" 0 "a" [] 0); (NBPort [("pr", 0)] "f" 0 "a" [] 0); (NBPort [("pr", 0)] "f" 0 "a" [] 1); (NBPort [("pr", 1)] "e" 0 "a" [] 0); (NBPort [("pr", 1)] "f" 0 "a" [] 0); (NBPort [("pr", 1)] "f" 0 "a" [] 1); (NBPort [("pq", 0)] "e" 0 "a" [] 0); (NBPort [("pq", 0)] "f" 0 "a" [] 0); (NBPort [("pq", 0)] "f" 0 "a" [] 1); (NBPort [("pq", 1)] "e" 0 "a" [] 0); (NBPort [("pq", 1)] "f" 0 "a" [] 0); (NBPort [("pq", 1)] "f" 0 "a" [] 1)].
Definition exg2_xinfo : xinfo :=
  {| x_devs := [("/Pin2{tag=int:1;}", {| dv_dom := ""; dv_name := "Pin2"; dv_params := [("tag", "int:1")]; dv_ext := (Some {| px_domain := ""; px_name := "Pin2"; px_ports := [("a", 2, 3)]; px_spicetype := "SUBCKT" |}) |}); ("/Pin{tag=int:1;}", {| dv_dom := ""; dv_name := "Pin"; dv_params := [("tag", "int:1")]; dv_ext := (Some {| px_domain := ""; px_name := "Pin"; px_ports := [("a", 1, 3)]; px_spicetype := "SUBCKT" |}) |})];
     x_ncnames := [("R2", []); ("T1", [])];
     x_dirs := [("R2", [("a", 2); ("b", 2)]); ("T1", [])] |}.

Definition exg3 : bdesign :=
  {| bd_mods := [{| bm_name := "Leaf"; bm_ports := []; bm_sigs := [];
     bm_bundles := [(true, (BundleSpec.BT "bp" false 0%nat None [(BundleSpec.Build_leaf "x" 1 false BundleSpec.DNone None None); (BundleSpec.Build_leaf "y" 2 false BundleSpec.DNone None None)] []))];
     bm_insts := [{| bi_name := "e"; bi_n := 0; bi_pair := false; bi_of := (TDev "/Pin{tag=int:1;}" [("a", 1)]); bi_conns := [("a", (BXSx (XSig 0%N 1)))] |}; {| bi_name := "f"; bi_n := 0; bi_pair := false; bi_of := (TDev "/Pin2{tag=int:1;}" [("a", 2)]); bi_conns := [("a", (BXSx (XSig 1%N 2)))] |}];
     bm_leaves := [(0%N, BLMem "bp" ["x"]); (1%N, BLMem "bp" ["y"])] |}; {| bm_name := "T2"; bm_ports := []; bm_sigs := [("s", 2); ("w", 4)];
     bm_bundles := [(true, (BundleSpec.BT "bb" false 0%nat None [(BundleSpec.Build_leaf "z" 1 false BundleSpec.DNone None None)] [(BundleSpec.BT "lo" false 0%nat None [(BundleSpec.Build_leaf "x" 1 false BundleSpec.DNone None None); (BundleSpec.Build_leaf "y" 2 false BundleSpec.DNone None None)] []); (BundleSpec.BT "hi" true 1%nat None [(BundleSpec.Build_leaf "x" 1 false BundleSpec.DNone None None); (BundleSpec.Build_leaf "y" 2 false BundleSpec.DNone None None)] [])])); (false, (BundleSpec.BT "bb_lo" false 0%nat None [(BundleSpec.Build_leaf "x" 1 false BundleSpec.DNone None None); (BundleSpec.Build_leaf "y" 2 false BundleSpec.DNone None None)] []))];
     bm_insts := [{| bi_name := "arr"; bi_n := 2; bi_pair := false; bi_of := (TMod 0%nat); bi_conns := [("bp", (BXAnon [("x", (BXSx (XSig 0%N 2))); ("y", (BXSx (XSig 1%N 4)))]))] |}; {| bi_name := "ar2"; bi_n := 2; bi_pair := false; bi_of := (TMod 0%nat); bi_conns := [("bp", (BXInst "bb" ["lo"]))] |}; {| bi_name := "ar3"; bi_n := 3; bi_pair := false; bi_of := (TMod 0%nat); bi_conns := [("bp", (BXInst "bb_lo" []))] |}; {| bi_name := "ar4"; bi_n := 2; bi_pair := false; bi_of := (TMod 0%nat); bi_conns := [("bp", (BXNc 1%N))] |}];
     bm_leaves := [(0%N, BLSig "s"); (1%N, BLSig "w")] |}]; bd_top := 1%nat |}.
Definition exg3_terms : list bnode :=
  [(NBSig [] "bb" ["z"] 0); (NBSig [] "bb" ["lo"; "x"] 0); (NBSig [] "bb" ["lo"; "y"] 0); (NBSig [] "bb" ["lo"; "y"] 1); (NBSig [] "bb" ["hi"; "x"] 0); (NBSig [] "bb" ["hi"; "y"] 0); (NBSig [] "bb" ["hi"; "y"] 1); (NBPort [("arr", 0)] "e" 0 "a" [] 0); (NBPort [("arr", 0)] "f" 0 "a" [] 0); (NBPort [("arr", 0)] "f" 0 "a" [] 1); (NBPort [("arr", 1)] "e" 0 "a" [] 0); (NBPort [("arr", 1)] "f" 0 "a" [] 0); (NBPort [("arr", 1)] "f" 0 "a" [] 1); (NBPort [("ar2", 0)] "e" 0 "a" [] 0); (NBPort [("ar2", 0)] "f" 0 "a" [] 0); (NBPort [("ar2", 0)] "f" 0 "a" [] 1); (NBPort [("ar2", 1)] "e" 0 "a" [] 0); (NBPort [("ar2", 1)] "f" 0 "a" [] 0); (NBPort [("ar2", 1)] "f" 0 "a" [] 1); (NBPort [("ar3", 0)] "e" 0 "a" [] 0); (NBPort [("ar3", 0)] "f" 0 "a" [] 0); (NBPort [("ar3", 0)] "f" 0 "a" [] 1); (NBPort [("ar3", 1)] "e" 0 "a" [] 0); (NBPort [("ar3", 1)] "f" 0 "a" [] 0); (NBPort [("ar3", 1)] "f" 0 "a" [] 1); (NBPort [("ar3", 2)] "e" 0 "a" [] 0); (NBPort [("ar3", 2)] "f" 0 "a" [] 0); (NBPort [("ar3", 2)] "f" 0 "a" [] 1); (NBPort [("ar4", 0)] "e" 0 "a" [] 0); (NBPort [("ar4", 0)] "f" 0 "a" [] 0); (NBPort [("ar4", 0)] "f" 0 "a" [] 1); (NBPort [("ar4", 1)] "e" 0 "a" [] 0); (NBPort [("ar4", 1)] "f" 0 "a" [] 0); (NBPort [("ar4", 1)] "f" 0 "a" [] 1)].
Definition exg3_xinfo : xinfo :=
  {| x_devs := [("/Pin2{tag=int:1;}", {| dv_dom := ""; dv_name := "Pin2"; dv_params := [("tag", "int:1")]; dv_ext := (Some {| px_domain := ""; px_name := "Pin2"; px_ports := [("a", 2, 3)]; px_spicetype := "SUBCKT" |}) |}); ("/Pin{tag=int:1;}", {| dv_dom := ""; dv_name := "Pin"; dv_params := [("tag", "int:1")]; dv_ext := (Some {| px_domain := ""; px_name := "Pin"; px_ports := [("a", 1, 3)]; px_spicetype := "SUBCKT" |}) |})];
     x_ncnames := [("Leaf", []); ("T2", [])];
     x_dirs := [("Leaf", []); ("T2", [])] |}.

(* exg1: Mid has the bundle port `bb` (constructor-flipped; sub-bundles lo and hi, hi flipped twice over) next to a scalar
   called bb_lo_x; Top connects it to an anonymous bundle { lo = q.hi (a SUB-BUNDLE REFERENCE), hi = { x = w[0], y = (w[3], s) }
   (nested anonymous bundle), z = q_lo.x } and, on a second instance, to the bundle instance q.  Top also holds a bundle
   called q_lo, like the flattened sub-bundle of q.
   The flattened port of member lo.x of Mid is bb_lo_x_ (bb_lo_x is taken by the scalar); Top's bundle q_lo is popped first and
   gets q_lo_x, q_lo_y, so members lo.x, lo.y of q become q_lo_x_, q_lo_y_; every connection goes to the port of the SAME PATH. *)
Example C01G_ex_nested_flipped_anonymous :
  c01g_hyps exg1_xinfo exg1 exg1_terms = true /\
  passes_view exg1 =
    [("Leaf", ["bp_x"; "bp_y"], [], [("e", ["a"]); ("f", ["a"])]);
     ("Mid", ["bb_z"; "bb_lo_x_"; "bb_lo_y"; "bb_hi_x"; "bb_hi_y"], ["bb_lo_x"],
      [("l1", ["bp_x"; "bp_y"]); ("l2", ["bp_x"; "bp_y"]); ("e", ["a"]); ("g", ["a"])]);
     ("Top", [], ["s"; "w"; "q_lo_x"; "q_lo_y"; "q_z"; "q_lo_x_"; "q_lo_y_"; "q_hi_x"; "q_hi_y"],
      [("m", ["bb_z"; "bb_lo_x_"; "bb_lo_y"; "bb_hi_x"; "bb_hi_y"]); ("m2", ["bb_z"; "bb_lo_x_"; "bb_lo_y"; "bb_hi_x"; "bb_hi_y"])])] /\
  (exists d' top m, bundle_passes exg1 = Ok d' /\ nth_error (d_mods d') 2 = Some top /\ find_inst (m_insts top) "m" = Some m /\
     map (fun c => match snd c with XSig id _ => assocN id (m_leaves top) | _ => None end) (i_conns m) =
       [Some (LSig "q_lo_x"); Some (LSig "q_hi_x"); Some (LSig "q_hi_y"); None; None]).
Proof. split; [vm_compute; reflexivity|]. split; [vm_compute; reflexivity|]. eexists. eexists. eexists. repeat split; vm_compute; reflexivity. Qed.

(* exg2: Pairs.  pr = Pair(R2)(a = d (a Diff instance), b = {n = v, p = w} (anonymous bundle, n written first));
   pq = Pair(R2)(a = pr_p (a SIGNAL called like the member instance of pr), b = w).
   The Pairs are popped last-added first: pq_p, pq_n, then pr: pr_p is taken by the signal, the member instance is pr_p_. *)
Example C01G_ex_pairs :
  c01g_hyps exg2_xinfo exg2 exg2_terms = true /\
  passes_view exg2 =
    [("R2", ["a"; "b"], [], [("e", ["a"]); ("f", ["a"])]);
     ("T1", [], ["s"; "w"; "v"; "pr_p"; "d_p"; "d_n"],
      [("pq_p", ["a"; "b"]); ("pq_n", ["a"; "b"]); ("pr_p_", ["a"; "b"]); ("pr_n", ["a"; "b"])])] /\
  (exists d' top p n, bundle_passes exg2 = Ok d' /\ nth_error (d_mods d') 1 = Some top /\
     find_inst (m_insts top) "pr_p_" = Some p /\ find_inst (m_insts top) "pr_n" = Some n /\
     map (fun c => match snd c with XSig id _ => assocN id (m_leaves top) | _ => None end) (i_conns p) = [Some (LSig "d_p"); Some (LSig "w")] /\
     map (fun c => match snd c with XSig id _ => assocN id (m_leaves top) | _ => None end) (i_conns n) = [Some (LSig "d_n"); Some (LSig "v")]) /\
  map (up_node exg2) [NBPort [("pr", 0)] "e" 0 "a" [] 0; NBPort [("pr", 1)] "e" 0 "a" [] 0; NBPort [] "pq" 1 "b" [] 1] =
    [NBPort [("pr_p_", 0)] "e" 0 "a" [] 0; NBPort [("pr_n", 0)] "e" 0 "a" [] 0; NBPort [] "pq_n" 0 "b" [] 1].
Proof.
  split; [vm_compute; reflexivity|]. split; [vm_compute; reflexivity|]. split; [|vm_compute; reflexivity].
  eexists. eexists. eexists. eexists. repeat split; vm_compute; reflexivity.
Qed.

(* exg3: arrays of Leaf (bundle port bp): per-element wiring through an anonymous bundle (x = s: 2 bits for 2 elements),
   broadcast of the sub-bundle bb.lo, broadcast of the bundle instance bb_lo (whose name coincides with the flattened
   sub-bundle of bb: bb_lo is popped first and keeps bb_lo_x / bb_lo_y, bb's members become bb_lo_x_ / bb_lo_y_), a no-connect. *)
Example C01G_ex_arrays :
  c01g_hyps exg3_xinfo exg3 exg3_terms = true /\
  passes_view exg3 =
    [("Leaf", ["bp_x"; "bp_y"], [], [("e", ["a"]); ("f", ["a"])]);
     ("T2", ["bb_z"; "bb_lo_x_"; "bb_lo_y_"; "bb_hi_x"; "bb_hi_y"], ["s"; "w"; "bb_lo_x"; "bb_lo_y"],
      [("arr", ["bp_x"; "bp_y"]); ("ar2", ["bp_x"; "bp_y"]); ("ar3", ["bp_x"; "bp_y"]); ("ar4", ["bp_x"; "bp_y"])])] /\
  (exists d' top a2 a3 a4, bundle_passes exg3 = Ok d' /\ nth_error (d_mods d') 1 = Some top /\
     find_inst (m_insts top) "ar2" = Some a2 /\ find_inst (m_insts top) "ar3" = Some a3 /\ find_inst (m_insts top) "ar4" = Some a4 /\
     map (fun c => match snd c with XSig id _ => assocN id (m_leaves top) | _ => None end) (i_conns a2) = [Some (LSig "bb_lo_x_"); Some (LSig "bb_lo_y_")] /\
     map (fun c => match snd c with XSig id _ => assocN id (m_leaves top) | _ => None end) (i_conns a3) = [Some (LSig "bb_lo_x"); Some (LSig "bb_lo_y")] /\
     map (fun c => match snd c with XSig id _ => assocN id (m_leaves top) | _ => None end) (i_conns a4) = [Some (LNc 0); Some (LNc 0)]).
Proof.
  split; [vm_compute; reflexivity|]. split; [vm_compute; reflexivity|].
  eexists. eexists. eexists. eexists. eexists. repeat split; vm_compute; reflexivity.
Qed.

(* the coinciding-names design of Props/C01B.v: scalar member lo_q next to the nested member lo.q: b_lo_q and b_lo_q_ *)
Example C01G_ex_coinciding_names :
  c01g_hyps C01F.exb_xinfo C01B.ex0 C01B.ex0_terms = true /\
  passes_view C01B.ex0 =
    [("Inner", ["b_lo_q"; "b_lo_q_"; "b_lo_qb"; "b_hi_q"; "b_hi_qb"], [], [("l_scalar", ["a"]); ("l_nested", ["a"]); ("l_other", ["a"])]);
     ("Top", [], ["b_lo_q"; "b_lo_q_"; "b_lo_qb"; "b_hi_q"; "b_hi_qb"],
      [("inner", ["b_lo_q"; "b_lo_q_"; "b_lo_qb"; "b_hi_q"; "b_hi_qb"]); ("l_scalar", ["a"]); ("l_nested", ["a"]); ("l_other", ["a"])])] /\
  map (fun q => fl_impl (match nth_error (bd_mods C01B.ex0) 1 with Some m => m | None => {| bm_name := ""; bm_ports := []; bm_sigs := []; bm_bundles := []; bm_insts := []; bm_leaves := [] |} end) "b" q)
      [["lo_q"]; ["lo"; "q"]; ["hi"; "q"]] = ["b_lo_q"; "b_lo_q_"; "b_hi_q"].
Proof. split; [vm_compute; reflexivity|]. split; vm_compute; reflexivity. Qed.

(* refusals of the model, as the code refuses: an anonymous bundle with a member the port does not have; a Pair's anonymous
   bundle with a member other than p / n *)
Example C01G_ex_refusals :
  (forall d, d = {| bd_mods := [nth 0 (bd_mods exg3) {| bm_name := ""; bm_ports := []; bm_sigs := []; bm_bundles := []; bm_insts := []; bm_leaves := [] |};
                               {| bm_name := "T"; bm_ports := []; bm_sigs := [("s", 1); ("w", 2)]; bm_bundles := [];
                                  bm_insts := [{| bi_name := "l"; bi_n := 0; bi_pair := false; bi_of := TMod 0;
                                                  bi_conns := [("bp", BXAnon [("x", BXSx (XSig 0%N 1)); ("y", BXSx (XSig 1%N 2)); ("extra", BXSx (XSig 0%N 1))])] |}];
                                  bm_leaves := [(0%N, BLSig "s"); (1%N, BLSig "w")] |}]; bd_top := 1%nat |} ->
             bundle_passes d = Error EExtra) /\
  pair_conn 0 ("a", BXAnon [("p", BXSx (XSig 0%N 1)); ("q", BXSx (XSig 0%N 1))]) = Error EExtra.
Proof. split; [intros d ->; vm_compute; reflexivity|vm_compute; reflexivity]. Qed.
