(* Props/C19E.v — C19 at NET level: the module Series / MosStack / Wrapper builds, as a written design of Base/Design.v
   (Model/C19EDesign.v), has under Spec/Nets.v EXACTLY the documented series topology, it is a valid design inside the
   fragment of the end-to-end theorem of C01 (Props/C01F.v), and therefore the package the pipeline model exports for it
   has exactly that partition.  Statements only; proofs in Proofs/C19EProofs{Step,Topo,Wf,Wrap,End}.v.

   Everything holds for EVERY n >= 2 (no bound; induction-free: a unit port bit reaches its net's representative in one
   step of Spec/Nets.v:step, computed symbolically in n, e, k), every unit given as a leaf device with ANY number of ports
   of ANY widths >= 1 and distinct names (io), every ordered pair (a, b) of distinct ports of one width w >= 1.
   The hypothesis is the boolean series_ok nm io a b w n (Model/C19EDesign.v): io as above, a <> b, width a = width b = w,
   the names of the private bus and of the instance array are no port names and differ, the module name is not empty, 2 <= n.
   Notation of the comments: d = series_design nm io a b w n, U e p k = bit k of port p of unit e = NPort [] units e p k,
   P p k = bit k of port p of the stack = NSig [] p k; a terminal bit (stack_term) is a P p k with p in io, k < width p,
   or a U e p k with additionally 0 <= e < n.  same_net = the orbits under Spec/Nets.v:step meet (Spec/C01ENets.v).

   Series ports of width w > 1 are ordinary inputs: generators.py (fixes/C19W-1) gives the private bus the width (n-1)*w, so
   series_design IS the module the code builds for every w (C19E_design_is_model) and C19E_exported_topology is about the
   code's behaviour for wide pairs as well.  The PINNED generators.py gave the bus the width n - 1; that module
   (series_design_code) is not a valid design for w > 1 (C19E_pinned_code_wide_refuted): why the pinned tree failed. *)
From Coq Require Import String.
Require Import Hdl21.Base.PyInt Hdl21.Spec.PySlice Hdl21.Model.Slice Hdl21.Model.Resolve Hdl21.Base.Design
               Hdl21.Spec.Nets Hdl21.Spec.WfDesign Hdl21.Spec.C01ENets Hdl21.Base.Package Hdl21.Base.PrimTable Hdl21.Spec.PkgWf
               Hdl21.Model.C01EElab Hdl21.Model.C01FElab Hdl21.Spec.C01FNets Hdl21.Proofs.C01FProofsEnd
               Hdl21.Spec.C19Topology Hdl21.Model.C19Series Hdl21.Proofs.C19Proofs
               Hdl21.Model.C19EDesign Hdl21.Proofs.C19EProofsStep Hdl21.Proofs.C19EProofsTopo Hdl21.Proofs.C19EProofsWf
               Hdl21.Proofs.C19EProofsWrap Hdl21.Proofs.C19EProofsEnd Hdl21.Proofs.C19EProofsTerms Hdl21.Proofs.C19EProofsNames Hdl21.Proofs.C19EProofsDistinct.
Open Scope string_scope.
Open Scope Z_scope.

(* 1. THE DESIGN IS THE MODEL: for the inputs of Props/C19.v (wf_unit, n >= 2, distinct signal-valued ports a, b of ONE
      width w - one bit or a bus) Model/C19Series.v:series_gen accepts, and series_design is the one-module design whose
      module is the model's module - same ports, same private bus of width (n-1)*w, same instance array, same connection
      expressions, same leaf table - under the name mn and with the unit known as device dev (`named`).  So the theorems of
      Props/C19.v speak about this design.  The hypotheses of the theorems below (series_ok) follow when the array's name is
      no flattened bundle member (always so for units without bundle-valued ports). *)
Theorem C19E_design_is_model u a b w n mn dev : wf_unit u = true -> 2 <= n -> a <> b ->
  assoc a (u_sigs u) = Some w -> assoc b (u_sigs u) = Some w -> mn <> "" ->
  exists iname uname,
    let nm := {| sn_mod := mn; sn_dev := dev; sn_i := iname; sn_units := uname |} in
    series_gen u a b n = Ok (series_module u a b w n iname uname) /\
    series_design nm (unit_io u) a b w n = {| d_mods := [named mn dev (series_module u a b w n iname uname)]; d_top := 0%nat |} /\
    (mem uname (map fst (unit_io u)) = false -> series_ok nm (unit_io u) a b w n = true) /\
    (u_buns u = [] -> series_ok nm (unit_io u) a b w n = true).
Proof. exact (series_design_is_model u a b w n mn dev). Qed.
Print Assumptions C19E_design_is_model.

(* ... and series_design_code is the module of the PINNED generator (Model/C19Series.v:series_module_pinned) *)
Theorem C19E_pinned_design_is_pinned_model u a b n iname uname mn dev :
  series_design_code {| sn_mod := mn; sn_dev := dev; sn_i := iname; sn_units := uname |} (unit_io u) a b n
  = {| d_mods := [named mn dev (series_module_pinned u a b n iname uname)]; d_top := 0%nat |}.
Proof. exact (series_design_code_named u a b n iname uname mn dev). Qed.
Print Assumptions C19E_pinned_design_is_pinned_model.

Theorem C19E_wrapper_is_model u iname mn dev :
  wrapper_design {| sn_mod := mn; sn_dev := dev; sn_i := ""; sn_units := iname |} (unit_io u)
  = {| d_mods := [named mn dev (wrapper_module u iname)]; d_top := 0%nat |}.
Proof. exact (wrapper_design_named u iname mn dev). Qed.
Print Assumptions C19E_wrapper_is_model.

(* 2. VALID AND INSIDE THE FRAGMENT of the end-to-end theorem, for all n, all units; terminal bits are valid nodes *)
Theorem C19E_series_wf nm io a b w n : series_ok nm io a b w n = true ->
  wf_design (series_design nm io a b w n) = Ok tt /\ frag_ok2 (series_design nm io a b w n) = true /\
  forall t, stack_term nm io n t -> valid (series_design nm io a b w n) t.
Proof.
  intros H. exact (conj (series_wf_design nm io a b w n H) (conj (series_frag_ok2 nm io a b w n H) (series_valid nm io a b w n H))).
Qed.
Print Assumptions C19E_series_wf.

(* 3. THE CHAIN: for 0 <= c < n-1 and 0 <= j < w, U c b j and U (c+1) a j are on one net; a terminal bit is on that net
      iff it is one of these two (private: exactly two terminals); no bit of a port of the stack is on it *)
Theorem C19E_chain_nets nm io a b w n c j :
  series_ok nm io a b w n = true -> 0 <= c < n - 1 -> 0 <= j < w ->
  let d := series_design nm io a b w n in
  let ub := NPort [] (sn_units nm) c b j in
  let ua := NPort [] (sn_units nm) (c + 1) a j in
  stack_term nm io n ub /\ stack_term nm io n ua /\ same_net d ub ua /\
  (forall t, stack_term nm io n t -> (same_net d t ub <-> t = ub \/ t = ua)) /\
  (forall t, stack_port io t -> ~ same_net d t ub).
Proof. exact (series_chain_nets nm io a b w n c j). Qed.
Print Assumptions C19E_chain_nets.

(* 4. THE ENDS: a terminal bit is on the net of P a j iff it is P a j or U 0 a j; on the net of P b j iff it is
      P b j or U (n-1) b j (no other unit terminal, n >= 2) *)
Theorem C19E_end_nets nm io a b w n j :
  series_ok nm io a b w n = true -> 0 <= j < w ->
  let d := series_design nm io a b w n in
  (forall t, stack_term nm io n t -> (same_net d t (NSig [] a j) <-> t = NSig [] a j \/ t = NPort [] (sn_units nm) 0 a j)) /\
  (forall t, stack_term nm io n t -> (same_net d t (NSig [] b j) <-> t = NSig [] b j \/ t = NPort [] (sn_units nm) (n - 1) b j)).
Proof. exact (series_end_nets nm io a b w n j). Qed.
Print Assumptions C19E_end_nets.

(* 5. PARALLEL: for every other port p and bit j, a terminal bit is on the net of P p j iff it is P p j or U e p j
      for some unit e - every unit's, and nothing else *)
Theorem C19E_parallel_nets nm io a b w n p wp j :
  series_ok nm io a b w n = true -> In (p, wp) io -> p <> a -> p <> b -> 0 <= j < wp ->
  let d := series_design nm io a b w n in
  forall t, stack_term nm io n t ->
    (same_net d t (NSig [] p j) <-> t = NSig [] p j \/ exists e, 0 <= e < n /\ t = NPort [] (sn_units nm) e p j).
Proof. exact (series_parallel_nets nm io a b w n p wp j). Qed.
Print Assumptions C19E_parallel_nets.

(* 6. NOTHING ELSE IS MERGED - the partition IS the documented topology: two terminal bits are on one net iff
      Spec/C19Topology.v gives them the same net key (series_key; a bit of a stack port is its own key) *)
Theorem C19E_no_other_merges nm io a b w n x y :
  series_ok nm io a b w n = true -> stack_term nm io n x -> stack_term nm io n y ->
  (same_net (series_design nm io a b w n) x y <-> series_node_key n a b x = series_node_key n a b y).
Proof. exact (series_partition nm io a b w n x y). Qed.
Print Assumptions C19E_no_other_merges.

(* 7. COMPOSED WITH THE PIPELINE (Props/C01F.v:C01F_valid_nodes_partial): whatever package p the pipeline model exports
      for the design (ArrayFlattener: units_0 .. units_{n-1}; SliceResolver: slices of the private bus), read as the
      netlisters read it, it has on the terminal bits - carried over by term_map2, the renaming of array elements the
      pass does and nothing else - exactly the documented partition; every unit terminal belongs to the unit device;
      and the model exports such a package unless flatname's length limit is hit (a RuntimeError of the code as well).
      xinfo_ok xi d (how the exporter spells the unit) is the remaining hypothesis of C01F; the acyclicity hypothesis
      frag_ok2 of C01F_end_to_end_partial is DISCHARGED here (2.), so nothing of its `_partial` is left for these designs.
      _partial because: term_map2 is not spelled out (that element e becomes the instance `units_e`, or its fresh variant,
      is computed per case by the tie and compared with the implementation, not proved for all n). *)
Theorem C19E_exported_topology_partial nm io a b w n xi p :
  series_ok nm io a b w n = true ->
  let d := series_design nm io a b w n in
  xinfo_ok xi d = true -> elab_export_model2 xi d = Ok p ->
  exists pd, design_of_pkg prims_ext p (sn_mod nm) = Ok pd /\
    (forall t, stack_term nm io n t -> valid pd (term_map2 xi d t)) /\
    (forall t1 t2, stack_term nm io n t1 -> stack_term nm io n t2 ->
       (same_net pd (term_map2 xi d t1) (term_map2 xi d t2) <-> series_node_key n a b t1 = series_node_key n a b t2)) /\
    (forall t, unit_port nm io n t -> dev_at pd (term_map2 xi d t) = Ok (sn_dev nm)).
Proof. intros H. exact (series_exported nm io a b w n H xi p). Qed.
Print Assumptions C19E_exported_topology_partial.

Theorem C19E_export_total nm io a b w n xi :
  series_ok nm io a b w n = true -> xinfo_ok xi (series_design nm io a b w n) = true ->
  (exists p, elab_export_model2 xi (series_design nm io a b w n) = Ok p) \/
  elab_export_model2 xi (series_design nm io a b w n) = Error EName.
Proof. intros H. exact (series_export_total nm io a b w n H xi). Qed.
Print Assumptions C19E_export_total.

(* the chain statement in the exported package *)
Theorem C19E_exported_chain_partial nm io a b w n xi p c j :
  series_ok nm io a b w n = true ->
  let d := series_design nm io a b w n in
  xinfo_ok xi d = true -> elab_export_model2 xi d = Ok p -> 0 <= c < n - 1 -> 0 <= j < w ->
  let tm := term_map2 xi d in
  let ub := NPort [] (sn_units nm) c b j in
  let ua := NPort [] (sn_units nm) (c + 1) a j in
  exists pd, design_of_pkg prims_ext p (sn_mod nm) = Ok pd /\
    same_net pd (tm ub) (tm ua) /\
    (forall t, stack_term nm io n t -> (same_net pd (tm t) (tm ub) <-> t = ub \/ t = ua)) /\
    (forall t, stack_port io t -> ~ same_net pd (tm t) (tm ub)).
Proof. exact (series_exported_chain nm io a b w n xi p c j). Qed.
Print Assumptions C19E_exported_chain_partial.

(* 8. MosStack = Series over ("d", "s") with one-bit series ports: gate, bulk and every other port in parallel *)
Theorem C19E_mosstack_exported_partial nm io n xi p :
  series_ok nm io "d" "s" 1 n = true ->
  let d := mosstack_design nm io n in
  xinfo_ok xi d = true -> elab_export_model2 xi d = Ok p ->
  exists pd, design_of_pkg prims_ext p (sn_mod nm) = Ok pd /\
    (forall t, stack_term nm io n t -> valid pd (term_map2 xi d t)) /\
    (forall t1 t2, stack_term nm io n t1 -> stack_term nm io n t2 ->
       (same_net pd (term_map2 xi d t1) (term_map2 xi d t2) <-> series_node_key n "d" "s" t1 = series_node_key n "d" "s" t2)) /\
    (forall t, unit_port nm io n t -> dev_at pd (term_map2 xi d t) = Ok (sn_dev nm)).
Proof. intros H. exact (series_exported nm io "d" "s" 1 n H xi p). Qed.
Print Assumptions C19E_mosstack_exported_partial.

Theorem C19E_mosstack_parallel nm io n p wp j :
  series_ok nm io "d" "s" 1 n = true -> In (p, wp) io -> p <> "d" -> p <> "s" -> 0 <= j < wp ->
  forall t, stack_term nm io n t ->
    (same_net (mosstack_design nm io n) t (NSig [] p j) <->
     t = NSig [] p j \/ exists e, 0 <= e < n /\ t = NPort [] (sn_units nm) e p j).
Proof. exact (series_parallel_nets nm io "d" "s" 1 n p wp j). Qed.
Print Assumptions C19E_mosstack_parallel.

(* 9. Wrapper (and Series / MosStack with nser = 1): valid, inside the fragment; every port bit of the inner instance is on
      the same-named port bit of the wrapper and nothing else is merged; the same in the exported package *)
Theorem C19E_wrapper_wf nm io : wrapper_ok nm io = true ->
  wf_design (wrapper_design nm io) = Ok tt /\ frag_ok2 (wrapper_design nm io) = true /\
  forall t, wrapper_term nm io t -> valid (wrapper_design nm io) t.
Proof. intros H. exact (conj (wrapper_wf_design nm io H) (conj (wrapper_frag_ok2 nm io H) (wrapper_valid nm io H))). Qed.
Print Assumptions C19E_wrapper_wf.

Theorem C19E_wrapper_nets nm io x y :
  wrapper_ok nm io = true -> wrapper_term nm io x -> wrapper_term nm io y ->
  (same_net (wrapper_design nm io) x y <-> wrapper_node_key x = wrapper_node_key y).
Proof. exact (wrapper_partition nm io x y). Qed.
Print Assumptions C19E_wrapper_nets.

Theorem C19E_wrapper_exported_partial nm io xi p :
  wrapper_ok nm io = true ->
  let d := wrapper_design nm io in
  xinfo_ok xi d = true -> elab_export_model2 xi d = Ok p ->
  exists pd, design_of_pkg prims_ext p (sn_mod nm) = Ok pd /\
    (forall t, wrapper_term nm io t -> valid pd (term_map2 xi d t)) /\
    (forall t1 t2, wrapper_term nm io t1 -> wrapper_term nm io t2 ->
       (same_net pd (term_map2 xi d t1) (term_map2 xi d t2) <-> wrapper_node_key t1 = wrapper_node_key t2)).
Proof. intros H. exact (wrapper_exported nm io H xi p). Qed.
Print Assumptions C19E_wrapper_exported_partial.

(* 10. why the pinned tree failed: for series ports wider than one bit the module the PINNED generators.py built (private
       bus of width n - 1) is not a valid design - for EVERY such call (all n >= 2, all w >= 2) *)
Theorem C19E_pinned_code_wide_refuted nm io a b w n : series_ok nm io a b w n = true -> 2 <= w ->
  wf_design (series_design_code nm io a b n) <> Ok tt.
Proof. exact (series_code_wide_rejected nm io a b w n). Qed.
Print Assumptions C19E_pinned_code_wide_refuted.

(* 11. THE TERMINALS of the design as Spec/Nets.v:terminals computes them, for every n: exactly the bits of the stack's ports
       (device "") and the port bits of the n units (device = the unit) - so `stack_term` is the terminal list of the property;
       and the end-to-end statement in the form of Props/C01F.v:C01F_end_to_end_partial (same_net_pkg on `terminals d`) *)
Theorem C19E_terminals nm io a b w n : series_ok nm io a b w n = true ->
  exists ts, terminals (series_design nm io a b w n) = Ok ts /\
    forall t dev, In (t, dev) ts <-> (stack_port io t /\ dev = "") \/ (unit_port nm io n t /\ dev = sn_dev nm).
Proof. exact (series_terminals nm io a b w n). Qed.
Print Assumptions C19E_terminals.

Theorem C19E_exported_on_terminals_partial nm io a b w n xi p ts :
  series_ok nm io a b w n = true ->
  let d := series_design nm io a b w n in
  xinfo_ok xi d = true -> elab_export_model2 xi d = Ok p -> terminals d = Ok ts ->
  (forall t dev, In (t, dev) ts <-> (stack_port io t /\ dev = "") \/ (unit_port nm io n t /\ dev = sn_dev nm)) /\
  (forall t1 t2 dev1 dev2, In (t1, dev1) ts -> In (t2, dev2) ts ->
     (same_net_pkg p (sn_mod nm) (term_map2 xi d t1) (term_map2 xi d t2) <-> series_node_key n a b t1 = series_node_key n a b t2)).
Proof. exact (series_exported_terminals nm io a b w n xi p ts). Qed.
Print Assumptions C19E_exported_on_terminals_partial.

(* 12. what term_map2 does on these terminal bits, for EVERY design: a bit of a port of the top module is left alone; a port
       bit of an instance of the top module keeps its port and its bit (only instance / element are renamed).  Hence in the
       exported package the stack's own port bits are the nodes P q k themselves, and a terminal bit t is on the net of P q k
       iff its key is KPort q k (with C19E_end_nets / C19E_parallel_nets: U 0 a k for q = a, U (n-1) b k for q = b, every
       U e q k otherwise).  What is left of `_partial`: the NAME of the instance element e becomes. *)
Theorem C19E_term_map_ports xi d s k : term_map2 xi d (NSig [] s k) = NSig [] s k.
Proof. exact (term_map2_top_sig xi d s k). Qed.
Print Assumptions C19E_term_map_ports.

Theorem C19E_term_map_units xi d i e p k : exists i' e', term_map2 xi d (NPort [] i e p k) = NPort [] i' e' p k.
Proof. exact (term_map2_top_port xi d i e p k). Qed.
Print Assumptions C19E_term_map_units.

Theorem C19E_exported_port_nets_partial nm io a b w n xi p :
  series_ok nm io a b w n = true ->
  let d := series_design nm io a b w n in
  xinfo_ok xi d = true -> elab_export_model2 xi d = Ok p ->
  exists pd, design_of_pkg prims_ext p (sn_mod nm) = Ok pd /\
    forall q wq k t, In (q, wq) io -> 0 <= k < wq -> stack_term nm io n t ->
      (same_net pd (term_map2 xi d t) (NSig [] q k) <-> series_node_key n a b t = KPort q k).
Proof. exact (series_exported_port_nets nm io a b w n xi p). Qed.
Print Assumptions C19E_exported_port_nets_partial.

(* 13. NOTHING LEFT ABSTRACT.  ResolvePortRefs (both steps of the extended model) leaves the design as it is; element e of
       the array becomes the single instance named nth e nms, where nms are the names ArrayFlattener's naming function
       (Model/C01EElab.v:name_elems - flatname [units; str(e)] avoiding the growing namespace, the function C05 is about) yields;
       these names exist whenever the model exports the design.  So the exported package, read as the netlisters read it,
       has EXACTLY the documented partition on the nodes "bit k of port q of instance nth e nms" and "bit k of port q of the
       stack", and every such instance is the unit device.  This is the full statement; the `_partial` ones above are kept
       because they are stated through term_map2 as Props/C01F.v states them. *)
Theorem C19E_portrefs_identity nm io a b w n xi : series_ok nm io a b w n = true ->
  portrefs2_design xi (series_design nm io a b w n) = Ok (series_design nm io a b w n).
Proof. intros H. exact (series_portrefs2_design nm io a b w n H xi). Qed.
Print Assumptions C19E_portrefs_identity.

Theorem C19E_term_map_spelled nm io a b w n xi nms e p k : series_ok nm io a b w n = true ->
  name_elems (sn_units nm) (Z.to_nat n) 0%N (remove_name (sn_units nm) (map fst io ++ [sn_i nm] ++ [sn_units nm])) = Ok nms ->
  term_map2 xi (series_design nm io a b w n) (NPort [] (sn_units nm) e p k) = NPort [] (nth (Z.to_nat e) nms (sn_units nm)) 0 p k.
Proof. intros H. exact (series_term_map_units nm io a b w n H xi nms e p k). Qed.
Print Assumptions C19E_term_map_spelled.

Theorem C19E_exported_topology nm io a b w n xi p :
  series_ok nm io a b w n = true ->
  xinfo_ok xi (series_design nm io a b w n) = true -> elab_export_model2 xi (series_design nm io a b w n) = Ok p ->
  exists pd nms, design_of_pkg prims_ext p (sn_mod nm) = Ok pd /\
    name_elems (sn_units nm) (Z.to_nat n) 0%N (remove_name (sn_units nm) (map fst io ++ [sn_i nm] ++ [sn_units nm])) = Ok nms /\
    let U e q k := NPort [] (nth (Z.to_nat e) nms (sn_units nm)) 0 q k in
    (forall e1 q1 w1 k1 e2 q2 w2 k2, In (q1, w1) io -> 0 <= k1 < w1 -> 0 <= e1 < n -> In (q2, w2) io -> 0 <= k2 < w2 -> 0 <= e2 < n ->
       (same_net pd (U e1 q1 k1) (U e2 q2 k2) <-> series_key n a b e1 q1 k1 = series_key n a b e2 q2 k2)) /\
    (forall e1 q1 w1 k1 q2 w2 k2, In (q1, w1) io -> 0 <= k1 < w1 -> 0 <= e1 < n -> In (q2, w2) io -> 0 <= k2 < w2 ->
       (same_net pd (U e1 q1 k1) (NSig [] q2 k2) <-> series_key n a b e1 q1 k1 = KPort q2 k2)) /\
    (forall q1 w1 k1 q2 w2 k2, In (q1, w1) io -> 0 <= k1 < w1 -> In (q2, w2) io -> 0 <= k2 < w2 ->
       (same_net pd (NSig [] q1 k1) (NSig [] q2 k2) <-> (q1 = q2 /\ k1 = k2))) /\
    (forall e q wq k, In (q, wq) io -> 0 <= k < wq -> 0 <= e < n -> dev_at pd (U e q k) = Ok (sn_dev nm)).
Proof. exact (series_exported_explicit nm io a b w n xi p). Qed.
Print Assumptions C19E_exported_topology.

(* MosStack: the same at ("d", "s"), one-bit series ports *)
Theorem C19E_mosstack_exported nm io n xi p :
  series_ok nm io "d" "s" 1 n = true ->
  xinfo_ok xi (mosstack_design nm io n) = true -> elab_export_model2 xi (mosstack_design nm io n) = Ok p ->
  exists pd nms, design_of_pkg prims_ext p (sn_mod nm) = Ok pd /\
    name_elems (sn_units nm) (Z.to_nat n) 0%N (remove_name (sn_units nm) (map fst io ++ [sn_i nm] ++ [sn_units nm])) = Ok nms /\
    let U e q k := NPort [] (nth (Z.to_nat e) nms (sn_units nm)) 0 q k in
    (forall e1 q1 w1 k1 e2 q2 w2 k2, In (q1, w1) io -> 0 <= k1 < w1 -> 0 <= e1 < n -> In (q2, w2) io -> 0 <= k2 < w2 -> 0 <= e2 < n ->
       (same_net pd (U e1 q1 k1) (U e2 q2 k2) <-> series_key n "d" "s" e1 q1 k1 = series_key n "d" "s" e2 q2 k2)) /\
    (forall e1 q1 w1 k1 q2 w2 k2, In (q1, w1) io -> 0 <= k1 < w1 -> 0 <= e1 < n -> In (q2, w2) io -> 0 <= k2 < w2 ->
       (same_net pd (U e1 q1 k1) (NSig [] q2 k2) <-> series_key n "d" "s" e1 q1 k1 = KPort q2 k2)) /\
    (forall q1 w1 k1 q2 w2 k2, In (q1, w1) io -> 0 <= k1 < w1 -> In (q2, w2) io -> 0 <= k2 < w2 ->
       (same_net pd (NSig [] q1 k1) (NSig [] q2 k2) <-> (q1 = q2 /\ k1 = k2))) /\
    (forall e q wq k, In (q, wq) io -> 0 <= k < wq -> 0 <= e < n -> dev_at pd (U e q k) = Ok (sn_dev nm)).
Proof. exact (series_exported_explicit nm io "d" "s" 1 n xi p). Qed.
Print Assumptions C19E_mosstack_exported.

(* Wrapper / nser = 1, nothing abstract: the inner instance keeps its name; bit k of its port q is on the net of bit k of
   port q of the wrapper, and no two different port bits are merged *)
Theorem C19E_wrapper_exported nm io xi p : wrapper_ok nm io = true ->
  xinfo_ok xi (wrapper_design nm io) = true -> elab_export_model2 xi (wrapper_design nm io) = Ok p ->
  exists pd, design_of_pkg prims_ext p (sn_mod nm) = Ok pd /\
    (forall q1 w1 k1 q2 w2 k2, In (q1, w1) io -> 0 <= k1 < w1 -> In (q2, w2) io -> 0 <= k2 < w2 ->
       (same_net pd (NPort [] (sn_units nm) 0 q1 k1) (NSig [] q2 k2) <-> (q1 = q2 /\ k1 = k2)) /\
       (same_net pd (NPort [] (sn_units nm) 0 q1 k1) (NPort [] (sn_units nm) 0 q2 k2) <-> (q1 = q2 /\ k1 = k2)) /\
       (same_net pd (NSig [] q1 k1) (NSig [] q2 k2) <-> (q1 = q2 /\ k1 = k2))).
Proof. intros H. exact (wrapper_exported_explicit nm io H xi p). Qed.
Print Assumptions C19E_wrapper_exported.

(* a consequence: the n flattened instances of an exported stack have n different names *)
Theorem C19E_instance_names_distinct nm io a b w n xi p nms e1 e2 :
  series_ok nm io a b w n = true ->
  xinfo_ok xi (series_design nm io a b w n) = true -> elab_export_model2 xi (series_design nm io a b w n) = Ok p ->
  name_elems (sn_units nm) (Z.to_nat n) 0%N (remove_name (sn_units nm) (map fst io ++ [sn_i nm] ++ [sn_units nm])) = Ok nms ->
  0 <= e1 < n -> 0 <= e2 < n ->
  nth (Z.to_nat e1) nms (sn_units nm) = nth (Z.to_nat e2) nms (sn_units nm) -> e1 = e2.
Proof. exact (series_instance_names_distinct nm io a b w n xi p nms e1 e2). Qed.
Print Assumptions C19E_instance_names_distinct.

(* ---- non-vacuity: a 4-port unit with a two-bit gate, stacked 4 times over (d, s); a unit with two-bit series ports ---- *)
Definition ex_dev : devinfo :=
  {| dv_dom := ""; dv_name := "Emos5"; dv_params := [("tag", "int:1")];
     dv_ext := Some {| px_domain := ""; px_name := "Emos5"; px_ports := [("d", 1, 3); ("g", 2, 3); ("s", 1, 3); ("b", 1, 3)]; px_spicetype := "SUBCKT" |} |}.
Definition ex_nm : snames := {| sn_mod := "Stack"; sn_dev := dev_string ex_dev; sn_i := "i"; sn_units := "units" |}.
Definition ex_io : list (name * Z) := [("d", 1); ("g", 2); ("s", 1); ("b", 1)].
Definition ex_xi : xinfo :=
  {| x_devs := [(dev_string ex_dev, ex_dev)]; x_ncnames := [("Stack", [])]; x_dirs := [("Stack", [("d", 3); ("g", 3); ("s", 3); ("b", 3)])] |}.

Example C19E_ex_hypotheses :
  series_ok ex_nm ex_io "d" "s" 1 4 = true /\ xinfo_ok ex_xi (mosstack_design ex_nm ex_io 4) = true /\
  stack_term ex_nm ex_io 4 (NPort [] "units" 2 "g" 1) /\ stack_term ex_nm ex_io 4 (NSig [] "g" 1).
Proof.
  split; [vm_compute; reflexivity|]. split; [vm_compute; reflexivity|]. split.
  - right. exists 2, "g", 2, 1. repeat split; try lia. right. left. reflexivity.
  - left. exists "g", 2, 1. repeat split; try lia. right. left. reflexivity.
Qed.

(* the package of the model: units_0..units_3, the chain on i[0], i[1], i[2], the gate bus and the bulk in parallel *)
Example C19E_ex_package : exists p top, elab_export_model2 ex_xi (mosstack_design ex_nm ex_io 4) = Ok p /\
  wf_pkg prims_ext p = Ok tt /\ pk_mods p = [top] /\ pm_sigs top = [("i", 3); ("d", 1); ("g", 2); ("s", 1); ("b", 1)] /\
  map pi_name (pm_insts top) = ["units_0"; "units_1"; "units_2"; "units_3"] /\
  map (fun i => (assoc "d" (pi_conns i), assoc "s" (pi_conns i), assoc "g" (pi_conns i))) (pm_insts top) =
    [(Some (PSig "d"), Some (PSlice "i" 0 0), Some (PSig "g"));
     (Some (PSlice "i" 0 0), Some (PSlice "i" 1 1), Some (PSig "g"));
     (Some (PSlice "i" 1 1), Some (PSlice "i" 2 2), Some (PSig "g"));
     (Some (PSlice "i" 2 2), Some (PSig "s"), Some (PSig "g"))].
Proof. vm_compute. eexists. eexists. repeat split; reflexivity. Qed.

Example C19E_ex_names :
  name_elems "units" 4 0%N (remove_name "units" (map fst ex_io ++ ["i"] ++ ["units"])) = Ok ["units_0"; "units_1"; "units_2"; "units_3"] /\
  name_elems "units" 2 0%N (remove_name "units" (map fst [("a", 1); ("units_0", 1); ("units_1", 1)] ++ ["i"] ++ ["units"]))
    = Ok ["units_0_"; "units_1_"].
Proof. split; vm_compute; reflexivity. Qed.

Definition exw_dev : devinfo :=
  {| dv_dom := ""; dv_name := "E2w"; dv_params := [("tag", "int:1")];
     dv_ext := Some {| px_domain := ""; px_name := "E2w"; px_ports := [("a", 2, 3); ("b", 2, 3); ("c", 1, 3)]; px_spicetype := "SUBCKT" |} |}.
Definition exw_nm : snames := {| sn_mod := "Wide"; sn_dev := dev_string exw_dev; sn_i := "i"; sn_units := "units" |}.
Definition exw_io : list (name * Z) := [("a", 2); ("b", 2); ("c", 1)].
Definition exw_xi : xinfo :=
  {| x_devs := [(dev_string exw_dev, exw_dev)]; x_ncnames := [("Wide", [])]; x_dirs := [("Wide", [("a", 3); ("b", 3); ("c", 3)])] |}.

(* two-bit series ports, three units: hypotheses hold; the design (= what generators.py builds) is exported with a 4-bit private bus
   (SliceResolver lists a slice of a concatenation bit by bit, most significant first);
   the module the pinned generators.py built (2-bit bus) is rejected with a width error *)
Example C19E_ex_wide : series_ok exw_nm exw_io "a" "b" 2 3 = true /\ xinfo_ok exw_xi (series_design exw_nm exw_io "a" "b" 2 3) = true /\
  wf_design (series_design_code exw_nm exw_io "a" "b" 3) = Error EWidth /\
  exists p top, elab_export_model2 exw_xi (series_design exw_nm exw_io "a" "b" 2 3) = Ok p /\ pk_mods p = [top] /\
    pm_sigs top = [("i", 4); ("a", 2); ("b", 2); ("c", 1)] /\
    map (fun i => (assoc "a" (pi_conns i), assoc "b" (pi_conns i))) (pm_insts top) =
      [(Some (PConcat [PSlice "a" 1 1; PSlice "a" 0 0]), Some (PConcat [PSlice "i" 1 1; PSlice "i" 0 0]));
       (Some (PConcat [PSlice "i" 1 1; PSlice "i" 0 0]), Some (PConcat [PSlice "i" 3 3; PSlice "i" 2 2]));
       (Some (PConcat [PSlice "i" 3 3; PSlice "i" 2 2]), Some (PConcat [PSlice "b" 1 1; PSlice "b" 0 0]))].
Proof.
  split; [vm_compute; reflexivity|]. split; [vm_compute; reflexivity|]. split; [vm_compute; reflexivity|].
  vm_compute. eexists. eexists. repeat split; reflexivity.
Qed.

Example C19E_ex_wrapper : wrapper_ok {| sn_mod := "W"; sn_dev := dev_string exw_dev; sn_i := ""; sn_units := "inner" |} exw_io = true /\
  wrapper_term {| sn_mod := "W"; sn_dev := dev_string exw_dev; sn_i := ""; sn_units := "inner" |} exw_io (NPort [] "inner" 0 "b" 1).
Proof.
  split; [vm_compute; reflexivity|]. right. exists "b", 2, 1. repeat split; try lia. right. left. reflexivity.
Qed.
