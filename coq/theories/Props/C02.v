(* Props/C02.v — ill-formed designs never yield a package or a netlist.
   Only statements, each closed by a lemma of Proofs/ChecksProofs.v or Proofs/C02Proofs.v (or by computation over
   the REGENERATED pass list Hdl21Gen.DefaultPasses), followed by Print Assumptions; then non-vacuity Examples.

   Specification: Spec/WfDesign.v `wf_design` (one named error per fault class of the statement) and, for designs with
   Bundles, Spec/C02BundleWf.v `bwf_design` — both are evaluated in Coq on every generated mutant (Corr/C02.v).
   Model: Model/Checks.v (ConnTypes.check_instance; which pass-list entries visit a module given the class-level cache of
   base.py) and Model/C02Checks.v (Orphanage, handle_noconn, the array width rule, MarkModules, and their composition in pass order). *)
Require Import Hdl21.Base.PyInt Hdl21.Spec.PySlice Hdl21.Model.Slice Hdl21.Model.Resolve Hdl21.Base.Design
               Hdl21.Spec.WfDesign Hdl21.Model.Checks Hdl21.Model.C02Checks Hdl21.Model.Arrays
               Hdl21.Proofs.ChecksProofs Hdl21.Proofs.C02Proofs Hdl21.Proofs.ResolveProofs Hdl21.Proofs.SliceProofs.
Require Import Hdl21Gen.DefaultPasses.
Require Hdl21.Props.C03.
Open Scope list_scope.
Open Scope Z_scope.

(* 1. ConnTypes.check_instance, exactly: an instance is accepted iff every port of its target is connected with the
      port's own width and no connection names a port the target does not have (missing / extra / unknown port / width) *)
Theorem C02_check_instance_spec ports conns :
  nodup_names (map fst ports) = true -> nodup_names (map fst conns) = true ->
  (check_instance ports conns = true <->
   (forall p w, assoc p ports = Some w -> assoc p conns = Some w) /\
   (forall p, In p (map fst conns) -> In p (map fst ports))).
Proof. exact (check_instance_spec ports conns). Qed.
Print Assumptions C02_check_instance_spec.

(* 2. base.py's class-level `done` cache, for ANY pass list: the k-th entry visits a module (is "effective")
      iff no earlier entry of the list shares its cache *)
Theorem C02_effective_iff_no_earlier_cache l k e b :
  nth_error (effective l) k = Some (e, b) ->
  nth_error l k = Some e /\
  (b = true <-> forall j e', (j < k)%nat -> nth_error l j = Some e' -> cache_of e' <> cache_of e).
Proof. exact (effective_spec l k e b). Qed.
Print Assumptions C02_effective_iff_no_earlier_cache.

(* 3. what the boolean `checks_after_rewrites` decides, for ANY pass list: after every entry of a rewriting kind
      there is a later entry of the checking kind whose cache no earlier entry has used *)
Theorem C02_checks_after_rewrites_sound l k : checks_after_rewrites l k = true ->
  forall rk, In rk rewriting_kinds -> forall i e, nth_error l i = Some e -> kind_of e = rk ->
  exists j e', (i < j)%nat /\ nth_error l j = Some e' /\ kind_of e' = k /\
    (forall j' e'', (j' < j)%nat -> nth_error l j' = Some e'' -> cache_of e'' <> cache_of e').
Proof. exact (checks_after_rewrites_sound l k). Qed.
Print Assumptions C02_checks_after_rewrites_sound.

(* 4. the list literally returned by Elaborator.default in the tree under test (regenerated on every run):
      a ConnTypes check and an Orphanage check really run after InstBundleElabPass, ResolvePortRefs,
      BundleFlattener, ArrayFlattener and SliceResolver *)
Theorem C02_checks_effective :
  checks_after_rewrites default_passes "ConnTypes" = true /\ checks_after_rewrites default_passes "Orphanage" = true.
Proof. split; vm_compute; reflexivity. Qed.
Print Assumptions C02_checks_effective.

Theorem C02_default_list_checks_last k : k = "ConnTypes" \/ k = "Orphanage" ->
  forall rk, In rk rewriting_kinds -> forall i e, nth_error default_passes i = Some e -> kind_of e = rk ->
  exists j e', (i < j)%nat /\ nth_error default_passes j = Some e' /\ kind_of e' = k /\
    (forall j' e'', (j' < j)%nat -> nth_error default_passes j' = Some e'' -> cache_of e'' <> cache_of e').
Proof.
  intros Hk. apply checks_after_rewrites_sound. destruct C02_checks_effective as [A B]. destruct Hk as [->| ->]; assumption.
Qed.
Print Assumptions C02_default_list_checks_last.

(* 5. the pinned tree's list (ConnTypes and Orphanage listed a second time, i.e. sharing the cache of their first run)
      fails the same test: the repeats visit nothing — DESIGN.md section 7 item 8 *)
Definition pinned_passes : list entry :=
  [("Orphanage", "Orphanage", 0); ("InstBundleElabPass", "InstBundleElabPass", 1); ("ResolvePortRefs", "ResolvePortRefs", 2);
   ("ConnTypes", "ConnTypes", 3); ("BundleFlattener", "BundleFlattener", 4); ("ArrayFlattener", "ArrayFlattener", 5);
   ("SliceResolver", "SliceResolver", 6); ("ConnTypes", "ConnTypes", 3); ("Orphanage", "Orphanage", 0);
   ("MarkModules", "MarkModules", 7)].

Theorem C02_effective_refuted_on_pinned_list :
  checks_after_rewrites pinned_passes "ConnTypes" = false /\ checks_after_rewrites pinned_passes "Orphanage" = false /\
  map snd (effective pinned_passes) = [true; true; true; true; true; true; true; false; false; true].
Proof. repeat split; vm_compute; reflexivity. Qed.
Print Assumptions C02_effective_refuted_on_pinned_list.

(* 6. Orphanage.check_connectable, exactly: a connection is accepted iff every Signal / Bundle instance it is built from
      (through slices, concatenations, anonymous bundles) and the Instance / root Bundle of every reference in it is owned
      by the module under check — owned by another module or by none is rejected *)
Theorem C02_orphanage_spec m c : orphan_ok m c = true <-> (forall o, In o (owners c) -> o = Some m).
Proof. exact (orphan_ok_spec m c). Qed.
Print Assumptions C02_orphanage_spec.

Theorem C02_orphanage_module_spec m attrs insts :
  orphanage_module m attrs insts = true <->
  (forall o, In o attrs -> o = Some m) /\
  (forall conns c o, In conns insts -> In c conns -> In o (owners c) -> o = Some m).
Proof. exact (orphanage_module_spec m attrs insts). Qed.
Print Assumptions C02_orphanage_module_spec.

(* 7. portrefs.py handle_noconn: the group grown from a no-connected port is accepted iff nothing else is connected to
      that port (`followed` = what following each port that refers to it contributes: at least its own reference) *)
Theorem C02_noconn_also_referenced_rejected i p followed :
  (forall f, In f followed -> f <> []) ->
  (handle_group_ok (noconn_group i p followed) = true <-> followed = []).
Proof. exact (noconn_group_spec i p followed). Qed.
Print Assumptions C02_noconn_also_referenced_rejected.

(* 8. arrays.py: element k of an n-array gets a connection iff the connection's width is defined (no out-of-range
      or empty index inside) and equals the port's width or n times it *)
Theorem C02_array_width_rule n w c k :
  (exists r, array_elem_conn n w c k = Ok r) <-> (exists cw, xwidth c = Ok cw /\ (cw = w \/ cw = n * w)).
Proof.
  unfold array_elem_conn. destruct (xwidth c) as [cw|e]; cbn [bind].
  - destruct (cw =? w) eqn:E1.
    + split; [intros _; exists cw; split; [reflexivity|lia]|eauto].
    + destruct (cw =? n * w) eqn:E2.
      * split; [intros _; exists cw; split; [reflexivity|lia]|eauto].
      * split; [intros [r H]; discriminate|intros [cw' [H [A|A]]]; inversion H; lia].
  - split; [intros [r H]; discriminate|intros [cw [H _]]; discriminate].
Qed.
Print Assumptions C02_array_width_rule.

(* 9. index bounds reach the checks: an out-of-range index into a Signal makes `width(conn)` fail, hence
      conn_widths and with it inst_accepts *)
Theorem C02_index_out_of_range_rejected id w i : 1 <= w -> ~ (- w <= i < w) ->
  exists e, xwidth (XSlice (XSig id w) (Idx i)) = Error e.
Proof.
  intros Hw Hi. cbn [xwidth]. destruct (w <? 1) eqn:E; [lia|]. cbn [bind].
  destruct (C03.C03_index_out_of_range w i ltac:(lia) Hi) as [e He]. rewrite He. cbn [bind]. eauto.
Qed.
Print Assumptions C02_index_out_of_range_rejected.

(* 10. reject-completeness on the signal-expression fragment (instances and instance arrays whose connections are
      Signals, slices and concatenations at any nesting; hierarchy at any depth; primitives and external modules):
      whatever the modelled checks accept, in the order of the default pass list, is valid by the specification.
      Contrapositive: every fault class that can occur in the fragment — width (direct or through array broadcasting),
      missing, extra, unknown port, out-of-range or empty index, orphan or foreign Signal, circular instantiation,
      unnamed or name-clashing module — makes the model reject.
      `given` = what Python guarantees by construction (dict keys unique, positive widths) and the printer's invariant
      (leaf width annotations); `frag` = the model is claimed faithful only there.

      FULL statement (not proved; see notes/C02.md):
        forall d p, elab_export d = Ok p -> wf_design d = Ok tt      for ALL designs of Base/Design.v, and its analogue
        for Spec/C02BundleWf.v — i.e. including port references, no-connects, Bundles, anonymous Bundles and instance
        Bundles, whose rewriting passes (ResolvePortRefs, BundleFlattener, InstBundleElabPass) are not modelled here;
        for those the per-pass characterisations 1, 6, 7, 8 and the pass-order theorem 4 apply individually, and the
        correspondence run checks the end-to-end statement on every generated mutant. *)
Theorem C02_wf_reject_complete_partial d :
  frag d = true -> given d = true -> model_accepts d = true -> wf_design d = Ok tt.
Proof. intros _. exact (wf_reject_complete d). Qed.
Print Assumptions C02_wf_reject_complete_partial.

(* 11. no exported bit lies outside its signal (from C03): whatever connection passes the checks denotes only bits
      0 .. w-1 of the signals it names *)
Theorem C02_no_bit_outside x bs id k : xbits x = Ok bs -> In (id, k) bs ->
  exists w, In (id, w) (leaves x) /\ 0 <= k < w.
Proof. exact (C03.C03_no_bit_outside x bs id k). Qed.
Print Assumptions C02_no_bit_outside.

(* ---------------- non-vacuity ---------------- *)
Definition ex_leaf : module :=
  {| m_name := "Two"; m_ports := [("a", 1); ("b", 2)]; m_sigs := [];
     m_insts := [{| i_name := "r0"; i_n := 0; i_of := TDev "R" [("p", 1); ("n", 1)];
                    i_conns := [("p", XSig 0%N 1); ("n", XSlice (XSig 1%N 2) (Idx (-1)))] |}];
     m_leaves := [(0%N, LSig "a"); (1%N, LSig "b")] |}.
Definition ex_top (conn_b : sx) : module :=
  {| m_name := "Top"; m_ports := []; m_sigs := [("s", 4); ("t", 1)];
     m_insts := [{| i_name := "arr"; i_n := 2; i_of := TMod 0;      (* array: a broadcast, b one section per element *)
                    i_conns := [("a", XSig 1%N 1); ("b", conn_b)] |};
                 {| i_name := "one"; i_n := 0; i_of := TMod 0;
                    i_conns := [("a", XSlice (XSig 0%N 4) (Idx 3)); ("b", XConcat [XSig 1%N 1; XSlice (XSig 0%N 4) (Idx 0)])] |}];
     m_leaves := [(0%N, LSig "s"); (1%N, LSig "t"); (2%N, LSig "?orphan")] |}.
Definition ex_design (conn_b : sx) : design := {| d_mods := [ex_leaf; ex_top conn_b]; d_top := 1 |}.

(* a valid two-level design with an array, a slice and a concatenation satisfies every hypothesis of theorem 10 *)
Example C02_ex_valid :
  let d := ex_design (XSig 0%N 4) in
  frag d = true /\ given d = true /\ model_accepts d = true /\ wf_design d = Ok tt.
Proof. vm_compute. repeat split; reflexivity. Qed.

(* single faults in it: width through array broadcasting (3 is neither 2 nor 2*2), an out-of-range index,
   an orphan Signal — the model rejects each and the specification names the class *)
Example C02_ex_faults :
  (model_accepts (ex_design (XSlice (XSig 0%N 4) (Sl None (Some 3) None))) = false /\
   wf_design (ex_design (XSlice (XSig 0%N 4) (Sl None (Some 3) None))) = Error EWidth) /\
  (model_accepts (ex_design (XConcat [XSig 1%N 1; XSlice (XSig 0%N 4) (Idx 4)])) = false /\
   wf_design (ex_design (XConcat [XSig 1%N 1; XSlice (XSig 0%N 4) (Idx 4)])) = Error EOutOfBounds) /\
  (model_accepts (ex_design (XSig 2%N 2)) = false /\ wf_design (ex_design (XSig 2%N 2)) = Error EOrphan).
Proof. vm_compute. repeat split; reflexivity. Qed.

(* theorem 1 on a non-trivial instance: a missing port, an extra port, a wrong width are each rejected *)
Example C02_ex_check_instance :
  check_instance [("a", 1); ("b", 2)] [("b", 2); ("a", 1)] = true /\
  check_instance [("a", 1); ("b", 2)] [("a", 1)] = false /\
  check_instance [("a", 1); ("b", 2)] [("a", 1); ("b", 2); ("c", 1)] = false /\
  check_instance [("a", 1); ("b", 2)] [("a", 1); ("b", 3)] = false.
Proof. vm_compute. repeat split; reflexivity. Qed.

(* theorems 6 and 7 on non-trivial instances: a foreign Signal deep inside an anonymous bundle of concatenated slices;
   a no-connected port that one other port refers to *)
Example C02_ex_orphanage :
  orphan_ok 1 (OAnon [OConcat [OSlice (OOwned (Some 1%nat)); ORef (Some 1%nat)]; ONoConn]) = true /\
  orphan_ok 1 (OAnon [OConcat [OSlice (OOwned (Some 0%nat)); ORef (Some 1%nat)]; ONoConn]) = false /\
  orphan_ok 1 (OConcat [OOwned (Some 1%nat); ORef None]) = false.
Proof. vm_compute. repeat split; reflexivity. Qed.

Example C02_ex_noconn :
  handle_group_ok (noconn_group "i0" "p" []) = true /\
  handle_group_ok (noconn_group "i0" "p" [[GRef "i1" "q"]]) = false.
Proof. vm_compute. split; reflexivity. Qed.

(* theorem 4 is about a list with distinct final checking entries *)
Example C02_ex_default_list_has_final_checks :
  (last_of_kind "SliceResolver" default_passes <? last_effective_of_kind "ConnTypes" default_passes) = true /\
  (last_of_kind "SliceResolver" default_passes <? last_effective_of_kind "Orphanage" default_passes) = true /\
  (0 <=? last_of_kind "SliceResolver" default_passes) = true.
Proof. vm_compute. repeat split; reflexivity. Qed.
