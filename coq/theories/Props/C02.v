Require Import Hdl21.Base.PyInt.
