(* Props/C08b.v — C08, strengthening round 2: WHICH pass list a call runs with (hdl21/elab/elab.py: Elaborator.default,
   set_elaborator, reset_elaborator).  The property quantifies over failures "injected through a custom pass list"; a custom
   list is made from nothing, or by editing the list of `Elaborator.default()`, or by editing the installed elaborator's list.
   Model/C08Elaborator.v makes the aliasing of those mutable lists explicit; `fresh = true` is the code (every `default()`
   call builds a new object), `fresh = false` a memoised `default()`.
   Quantification: ANY state (any heap of Elaborator objects, whatever was installed and edited before), ANY default list,
   ANY installation (any edits). *)
Require Import Hdl21.Base.PyInt Hdl21.Model.C08PassFail Hdl21.Model.C08Elaborator Hdl21.Proofs.C08Elab.
Require Import Hdl21Gen.C08Shape.
Open Scope list_scope.

(* 0. the tree has the shape `fresh = true` stands for, and the error path (ElabPass.stack) is no state that survives a call:
      a new list per pass instance, no field for it in the class-level cache (Model/C08PassFail.v has none in `pst`) *)
Theorem C08_shape_adequate : c08_default_fresh && c08_stack_per_instance = true.
Proof. vm_compute. reflexivity. Qed.
Print Assumptions C08_shape_adequate.

(* 1. an installation gives the list the designer wrote - the edits applied to the pristine default list - from ANY state;
      it raises exactly when those edits raise on the pristine list; no Elaborator object that existed before is changed *)
Theorem C08_install_gives_intended dflt s i :
  match einstall_step true dflt s i, intended dflt i with
  | Some s', Some l => current s' = Some l /\ firstn (length (heap s)) (heap s') = heap s /\ memo s' = memo s
  | None, None => True
  | _, _ => False
  end.
Proof. exact (install_intended dflt s i). Qed.
Print Assumptions C08_install_gives_intended.

(* 2. after reset_elaborator() the default list is back, whatever history of installations and edits came before *)
Theorem C08_reset_restores_default dflt is s s' :
  einstall_all true dflt s (is ++ [EReset]) = Some s' -> current s' = Some dflt.
Proof. exact (history_then_reset dflt is s s'). Qed.
Print Assumptions C08_reset_restores_default.

(* 3. and an installation made after any history gives the intended list (the second injection does not pile up on the first) *)
Theorem C08_install_after_history dflt is i s s' l :
  einstall_all true dflt s (is ++ [i]) = Some s' -> intended dflt i = Some l -> current s' = Some l.
Proof. exact (history_then_install dflt is i s s' l). Qed.
Print Assumptions C08_install_after_history.

(* the memoised default() (seeded change C08r3-B): refuted.  Default [P0; P1]; a raising pass X inserted at position 0 of
   `Elaborator.default().passes`, installed, then reset_elaborator(): X is still in the list every later call runs with,
   and the next injection piles up on it *)
Definition xP (k : nat) : pass := {| pid := k; prw := true; pmk := false |}.
Theorem C08_reset_refuted_on_memoised_default :
  let dflt := [xP 0; xP 1] in
  (exists s', einstall_all false dflt (einit false dflt) [EMutate [EIns 0 (xP 100)]; EReset] = Some s' /\
              current s' = Some [xP 100; xP 0; xP 1]) /\
  (exists s', einstall_all false dflt (einit false dflt) [EMutate [EIns 0 (xP 100)]; EReset; EMutate [EIns 0 (xP 100)]] = Some s' /\
              current s' = Some [xP 100; xP 100; xP 0; xP 1]) /\
  (exists s', einstall_all true dflt (einit true dflt) [EMutate [EIns 0 (xP 100)]; EReset; EMutate [EIns 0 (xP 100)]] = Some s' /\
              current s' = Some [xP 100; xP 0; xP 1]).
Proof. vm_compute. repeat split; eexists; split; reflexivity. Qed.
Print Assumptions C08_reset_refuted_on_memoised_default.

(* non-vacuity: a replacement and an insertion on a three-pass default; a replacement of a class that is not in the list raises *)
Example C08_ex_install :
  let dflt := [xP 0; xP 1; xP 2] in
  intended dflt (EMutate [ERepl 1 (xP 101); EIns 3 (xP 100)]) = Some [xP 0; xP 101; xP 2; xP 100] /\
  intended dflt (EInplace [ERepl 7 (xP 101)]) = None /\
  (exists s', einstall_all true dflt (einit true dflt) [EInplace [EIns 1 (xP 100)]; EReset; EScratch [xP 5]; EReset] = Some s' /\
              current s' = Some dflt /\ List.length (heap s') = 5%nat).
Proof. vm_compute. repeat split. eexists. repeat split. Qed.
