(* Props/C12Z.v — C12 strengthening round: three name-producing places OUTSIDE the set-iterating elaborator loops of
   Props/C12.v / Props/C12E.v.  In each the process-dependent ingredient (the iteration order of a set of parameter members, the
   iteration order of the set of registered PDK modules, the per-process str hash) is an explicit parameter of the model
   (Model/C12ZCanon.v); the theorems say the repaired code's result does not depend on it, for ALL values / histories, and
   that the seeded variants' does.  Only statements, closed by lemmas of Proofs/C12ZProofs.v.

   NOT modelled (as in Props/C12.v): CPython's hash randomisation and allocator themselves, md5, json.dumps beyond the
   fragment of Model/C12ZCanon.v (atoms' texts are given; indent=4 rendering of the same structure).  The cross-process run
   (harness/vp/c12z.py) exercises them and ties the model's texts / names / registry outcomes to the implementation's. *)
Require Import Hdl21.Base.PyInt Hdl21.Spec.BundleSpec Hdl21.Model.BundleFlat Hdl21.Model.C12ZCanon Hdl21.Proofs.C12ZProofs.
From Coq Require Import String Ascii Permutation.
Open Scope string_scope.
Open Scope list_scope.
Open Scope Z_scope.

(* 1. hdl21_naming_encoder on sets (repaired: sorted JSON texts of the members): the naming text of a parameter value is
      the same for every two enumerations of every set inside it, at every depth (peq: tuples member-wise, sets up to
      any permutation of their members).  No hypothesis: the statement holds for every value. *)
Theorem C12Z_param_text_order_free v w : peq v w -> jtext v = jtext w.
Proof. exact (jtext_peq v w). Qed.
Print Assumptions C12Z_param_text_order_free.

Example C12Z_param_text_ex :
  let a := PSet [PStr "a"; PStr "b"] in let c := PSet [PStr "c"; PStr "d"] in let e := PSet [PStr "e"] in
  pv_ok (PSet [a; c; e]) = true /\
  peq (PSet [a; c; e]) (PSet [PSet [PStr "d"; PStr "c"]; a; e]) /\
  jtext (PSet [a; c; e]) = jtext (PSet [PSet [PStr "d"; PStr "c"]; a; e]).
Proof.
  cbv zeta. split; [reflexivity|]. split; [|vm_compute; reflexivity].
  apply (pe_set _ [PSet [PStr "a"; PStr "b"]; PSet [PStr "d"; PStr "c"]; PSet [PStr "e"]]).
  - constructor; [apply peq_refl_all|]. constructor; [|constructor; [apply peq_refl_all | constructor]].
    apply (pe_set _ [PStr "c"; PStr "d"]); [constructor; [constructor|constructor; [constructor|constructor]] | apply perm_swap].
  - apply perm_swap.
Qed.

(* 1b. the set rule alone, in its most general form: only the MULTISET of the members' texts matters *)
Theorem C12Z_set_text_by_member_texts l1 l2 :
  Permutation (map jtext l1) (map jtext l2) -> jtext (PSet l1) = jtext (PSet l2).
Proof. exact (jtext_set_perm l1 l2). Qed.
Print Assumptions C12Z_set_text_by_member_texts.

(* 1c. sorted() on the member texts is THE sorted permutation: any two enumerations sort to one list *)
Theorem C12Z_sorted_texts_canonical l1 l2 : Permutation l1 l2 -> ssort l1 = ssort l2.
Proof. exact (ssort_perm_eq l1 l2). Qed.
Print Assumptions C12Z_sorted_texts_canonical.

(* 1d. the seeded variant `sorted(obj)` on the members themselves (frozensets compare by proper subset, a partial order):
       REFUTED — two pairwise incomparable groups, enumerated in the two possible orders, get different texts *)
Theorem C12Z_partial_order_sort_refuted :
  exists l1 l2, Permutation l1 l2 /\ pv_ok (PSet l1) = true /\ jtext_partial (PSet l1) <> jtext_partial (PSet l2).
Proof.
  exists [PSet [PStr "a"; PStr "b"]; PSet [PStr "c"; PStr "d"]], [PSet [PStr "c"; PStr "d"]; PSet [PStr "a"; PStr "b"]].
  split; [apply perm_swap|]. split; [reflexivity|]. vm_compute. discriminate.
Qed.
Print Assumptions C12Z_partial_order_sort_refuted.

(* ... while a chain (comparable members) is sorted the same from both enumerations: the variant is wrong only on
   incomparable members, which is why totally ordered member types never showed it *)
Example C12Z_partial_sort_chain_ex :
  jtext_partial (PSet [PSet [PStr "a"]; PSet [PStr "a"; PStr "b"]]) = jtext_partial (PSet [PSet [PStr "a"; PStr "b"]; PSet [PStr "a"]]).
Proof. vm_compute. reflexivity. Qed.

(* 2. hdl21.pdk: register / set_default / default / compile.  Two processes run the SAME program of registry operations;
      their registries hold the same modules, enumerated differently (reg_sim).  Every operation has the same outcome
      (compiled to which PDK / refused) in both, for every program.  No hypothesis. *)
Theorem C12Z_pdk_program_order_free ops a b :
  reg_sim a b -> reg_run default_of a ops = reg_run default_of b ops.
Proof. exact (reg_run_sim ops a b). Qed.
Print Assumptions C12Z_pdk_program_order_free.

Theorem C12Z_pdk_default_order_free a b : reg_sim a b -> default_of a = default_of b.
Proof. exact (default_of_sim a b). Qed.
Print Assumptions C12Z_pdk_default_order_free.

Example C12Z_pdk_program_ex :
  reg_sim (Reg None ["sky"; "gf"]) (Reg None ["gf"; "sky"]) /\
  reg_run default_of reg0 [ORegister "sky"; OCompile None; ORegister "gf"; OCompile None; OSetDefault "gf"; OCompile None; OCompileMod "asap"]
  = [PNone; PTarget "sky"; PNone; PRefused; PNone; PTarget "gf"; PTarget "asap"].
Proof. split; [split; [reflexivity | apply perm_swap] | vm_compute; reflexivity]. Qed.

(* 2b. the seeded variant (default = next(iter(modules)) whenever some module is registered): REFUTED on two PDKs *)
Theorem C12Z_pdk_first_registered_refuted :
  exists a b ops, reg_sim a b /\ reg_run default_first a ops <> reg_run default_first b ops.
Proof.
  exists (Reg None ["sky"; "gf"]), (Reg None ["gf"; "sky"]), [OCompile None].
  split; [split; [reflexivity | apply perm_swap]|]. vm_compute. discriminate.
Qed.
Print Assumptions C12Z_pdk_first_registered_refuted.

(* 3. ElabPass.flatname (Model/BundleFlat.v:flatname): the name is a function of the segments, the limit and the SET of
      names to avoid — two namespaces with the same members give the same name or the same refusal *)
Theorem C12Z_flatname_avoid_as_set segs a1 a2 maxlen :
  (forall x, In x a1 <-> In x a2) -> flatname segs a1 maxlen = flatname segs a2 maxlen.
Proof. intros H. unfold flatname. apply flatname_loop_ext. exact H. Qed.
Print Assumptions C12Z_flatname_avoid_as_set.

(* 3b. a joined name longer than the limit is REFUSED, whatever is avoided (so every process refuses alike) *)
Theorem C12Z_flatname_overlong_refused segs avoid maxlen :
  0 <= maxlen -> maxlen < Z.of_nat (String.length (join_us segs)) -> flatname segs avoid maxlen = Error EName.
Proof.
  intros H0 H. unfold flatname. destruct (Z.to_nat (maxlen + 2)) eqn:E; [lia|]. cbn [flatname_loop].
  destruct (maxlen <? Z.of_nat (String.length (join_us segs))) eqn:L; [reflexivity|]. apply Z.ltb_ge in L. lia.
Qed.
Print Assumptions C12Z_flatname_overlong_refused.

(* 3c. the seeded variant (over-long names shortened with a digest taken by the process's own str hash): REFUTED — two
       processes (two hash functions) name the same segments differently *)
Theorem C12Z_flatname_digest_refuted :
  exists h1 h2 segs avoid maxlen, 0 <= maxlen /\ flatname_digest h1 segs avoid maxlen <> flatname_digest h2 segs avoid maxlen.
Proof.
  exists (fun _ => "a1"), (fun _ => "b2"), ["inst"; "port"], [], 5. split; [lia|]. vm_compute. discriminate.
Qed.
Print Assumptions C12Z_flatname_digest_refuted.

Example C12Z_flatname_ex :
  flatname ["i"; "p"] ["i_p"; "x"] 5 = Ok "i_p_" /\ flatname ["i"; "p"] ["x"; "i_p"; "x"] 5 = Ok "i_p_" /\
  flatname ["inst"; "port"] [] 5 = Error EName.
Proof. vm_compute. repeat split. Qed.
