(* Props/C02F.v — C02 over the checked pipeline with NESTED port references, and with Bundles.

   Part A (theorems 1-8).  Model/C02FPipeline.v:checked_pipeline2 = the constructors' check (a NoConn cannot sit inside a Concat / Slice),
   then the default pass list with its checking passes as in Model/C02EPipeline.v, with ResolvePortRefs replaced by the C01F model
   (Model/C01FElab.v:portrefs2_design: module_portrefs holds EVERY reference handed out, update_ref_deps re-parents what is left).
   The hypotheses (boolean, evaluated on every case of the tie):
     given_e d   as in Props/C02E.v: what Python guarantees by construction and the printer by its invariant;
     frag_f d    what is left of frag_e: a reference (at ANY depth now) names a port of a single instance, or of no instance at all.
                 References and no-connects inside slices / concatenations are no longer excluded.
     all_used d  only for the ONE conjunct of wf_design that speaks about modules the exporter never sees (theorem 2 vs 3).
   Part B (theorems 9-...) Bundles: Model/C02FBundles.v. *)
From Coq Require Import String.
Require Import Hdl21.Base.PyInt Hdl21.Spec.PySlice Hdl21.Model.Slice Hdl21.Model.Resolve Hdl21.Base.Design
               Hdl21.Spec.WfDesign Hdl21.Spec.C01ENets Hdl21.Spec.C01FNets Hdl21.Base.Package Hdl21.Base.PrimTable Hdl21.Spec.PkgWf
               Hdl21.Model.Checks Hdl21.Model.C02Checks Hdl21.Model.C01EElab Hdl21.Model.C01FElab Hdl21.Model.C02EPipeline Hdl21.Model.C02FPipeline
               Hdl21.Proofs.C02EProofsNames Hdl21.Proofs.C02FProofsPortRefs Hdl21.Proofs.C02FProofsEnd Hdl21.Proofs.C02FProofsAgree.
Require Import Hdl21.Base.C01BDesign Hdl21.Spec.C01BWf Hdl21.Spec.C01GLower Hdl21.Model.C01GBundlePasses Hdl21.Model.C02FBundles
               Hdl21.Proofs.C02FProofsBundles.
Require Import Hdl21Gen.DefaultPasses.
Require Import Hdl21.Props.C02E.
Require Hdl21.Props.C01F Hdl21.Props.C01G.
Require Hdl21.Spec.BundleSpec.
Open Scope string_scope.
Open Scope list_scope.
Open Scope Z_scope.

(* 1. The elaboration stages of checked_pipeline2 ARE the list Elaborator.default returns in the tree under test (regenerated on
      every run), in that order, minus the two bundle passes; every entry has a class-level cache of its own.  (The stage list and
      the table are those of Props/C02E.v theorem 1; what changed is the function behind the ResolvePortRefs entry.) *)
Definition stage2_pass (s : stage2) : string := match s with SBuild => "" | SOf s' => stage_pass s' end.
Definition elab_stages2 : list stage2 := map SOf elab_stages.

Theorem C02F_stages_follow_default_list :
  map stage2_pass elab_stages2 = map (fun e : entry => fst (fst e)) (filter (fun e => negb (bundle_pass e)) default_passes) /\
  forallb (fun eb : entry * bool => snd eb) (effective default_passes) = true.
Proof. split; vm_compute; reflexivity. Qed.
Print Assumptions C02F_stages_follow_default_list.

(* 2. REJECT-COMPLETENESS with nested references, judged on the modules the implementation sees.
      wf_design_reach d (Model/C02FPipeline.v) = the top index exists, EVERY listed module is valid (wf_mods: widths direct / through
      a reference at any depth / through array broadcasting, missing, extra, unknown port, reference to a non-existent port, index
      out of range or empty, orphan / foreign Signal or Instance, no-connect also referenced or inside an expression, circular
      instantiation, unnamed), and the names of the modules BELOW THE TOP MODULE are pairwise distinct.
      No `all_used` hypothesis.  (The model still visits listed modules that are not below the top module, the implementation does
      not: on those the model is the stricter of the two, which is the safe side of this theorem.)

      FULL statement (not proved): without frag_f.  What is missing is a reference to a port of an instance ARRAY: Spec/WfDesign.v
      calls it faulty (EBadKind) although it is none of the fault classes of the statement and the implementation accepts it
      (broadcast); Model/C01FElab.v keeps reference groups to ports of single instances. *)
Theorem C02F_reject_complete_reach_partial xi d p :
  given_e d = true -> frag_f d = true -> checked_pipeline2 xi d = Ok p -> wf_design_reach d.
Proof. exact (reject_complete2_reach xi d p). Qed.
Print Assumptions C02F_reject_complete_reach_partial.

(* 3. the same against Spec/WfDesign.v:wf_design as it stands (which also judges the names of modules nobody instantiates) *)
Theorem C02F_reject_complete_partial xi d p :
  given_e d = true -> frag_f d = true -> all_used d = true -> checked_pipeline2 xi d = Ok p -> wf_design d = Ok tt.
Proof. exact (reject_complete2 xi d p). Qed.
Print Assumptions C02F_reject_complete_partial.

Theorem C02F_every_fault_rejected_partial xi d e :
  given_e d = true -> frag_f d = true -> all_used d = true -> wf_design d = Error e -> exists e', checked_pipeline2 xi d = Error e'.
Proof.
  intros G F U H. destruct (checked_pipeline2 xi d) as [p|e'] eqn:E; [|eauto].
  rewrite (reject_complete2 xi d p G F U E) in H. discriminate.
Qed.
Print Assumptions C02F_every_fault_rejected_partial.

(* 4. the checked pipeline is the unchecked one of C01F with more ways to fail (so Props/C01F.v speaks about the package it
      returns); the staged run computes the same thing *)
Theorem C02F_checked_refines_unchecked xi d p : checked_pipeline2 xi d = Ok p -> elab_export_model2 xi d = Ok p.
Proof. exact (checked_pipeline2_elab xi d p). Qed.
Print Assumptions C02F_checked_refines_unchecked.

Theorem C02F_run_is_pipeline xi d :
  snd (checked_run2 xi d) = checked_pipeline2 xi d /\ (fst (checked_run2 xi d) = SOf SDone <-> exists p, checked_pipeline2 xi d = Ok p).
Proof. split; [apply checked_run2_pipeline|apply checked_run2_done]. Qed.
Print Assumptions C02F_run_is_pipeline.

(* 5. the checks reject nothing they should not: a valid design of C01F's fragment (frag_ok2: the dependency between reference groups
      is acyclic; Props/C01F.v) is accepted, except through flatname's length limit.
      _partial: loops between the sources of reference groups are valid (the implementation elaborates them since fixes/C01F-1) but
      the model runs out of fuel on them (Error EFuel at SPortRefs): C02F_ex_loop. *)
Theorem C02F_accepts_valid_partial xi d : wf_design d = Ok tt -> frag_ok2 d = true -> xinfo_ok xi d = true ->
  (exists p, checked_pipeline2 xi d = Ok p) \/ checked_pipeline2 xi d = Error EName.
Proof. exact (accepts_valid2 xi d). Qed.
Print Assumptions C02F_accepts_valid_partial.

(* 6. COROLLARY: inside the hypotheses of 3 and 5, away from the name-length limit, the model accepts EXACTLY the valid designs, and
      what it returns is a well-formed package (C06F) *)
Theorem C02F_accepts_exactly_valid_partial xi d :
  given_e d = true -> frag_f d = true -> all_used d = true -> frag_ok2 d = true -> xinfo_ok xi d = true ->
  checked_pipeline2 xi d <> Error EName ->
  ((exists p, checked_pipeline2 xi d = Ok p) <-> wf_design d = Ok tt).
Proof.
  intros G F U Fo X Hn. split.
  - intros [p H]. exact (reject_complete2 xi d p G F U H).
  - intros Hwf. destruct (accepts_valid2 xi d Hwf Fo X) as [H|H]; [exact H|contradiction].
Qed.
Print Assumptions C02F_accepts_exactly_valid_partial.

Theorem C02F_accepted_package_wf_partial xi d p :
  given_e d = true -> frag_f d = true -> all_used d = true -> frag_ok2 d = true -> xinfo_ok xi d = true -> checked_pipeline2 xi d = Ok p ->
  wf_design d = Ok tt /\ wf_pkg prims_ext p = Ok tt.
Proof.
  intros G F U Fo X H. pose proof (reject_complete2 xi d p G F U H) as Hwf. split; [exact Hwf|].
  apply (C01F.C06F_export_wf_partial xi d p Hwf Fo X). apply checked_pipeline2_elab. exact H.
Qed.
Print Assumptions C02F_accepted_package_wf_partial.

(* 7. C02F EXTENDS C02E: on every design - valid or not - whose references and no-connects are whole connections (frag_conns, the
      first half of frag_e) the two checked pipelines are the same function, errors included; frag_e designs are frag_f designs.
      So every theorem of Props/C02E.v is the special case of the ones above. *)
Theorem C02F_extends_C02E xi d : frag_conns d = true -> checked_pipeline2 xi d = checked_pipeline xi d.
Proof. exact (pipeline2_agrees xi d). Qed.
Print Assumptions C02F_extends_C02E.

Theorem C02F_frag_e_included d : frag_e d = true -> frag_f d = true /\ all_used d = true /\ frag_conns d = true.
Proof.
  unfold frag_e, frag_conns, frag_f. intros H. apply andb_prop in H. destruct H as [Hc Hu]. split; [|split; [exact Hu|exact Hc]].
  rewrite forallb_forall in *. intros m Hm. specialize (Hc m Hm). rewrite forallb_forall in *. intros x Hx. specialize (Hc x Hx).
  rewrite forallb_forall in *. intros c Hcc. specialize (Hc c Hcc). apply andb_prop in Hc. tauto.
Qed.
Print Assumptions C02F_frag_e_included.

(* 8. per pass, for an ARBITRARY module: a reference at ANY depth names an existing port of a single instance once Orphanage,
      ResolvePortRefs (step 1 + re-parenting) and ConnTypes succeeded; and the width ConnTypes computed on the re-parented
      connection is the width of the expression as it was written (Proofs/C02FProofsPortRefs.v:ref_target2, reparent_width).
      Stated here in the short form the composition uses: the exporter saw every module below the top one. *)
Theorem C02F_export_names_reach xi d p : hier_design d = Ok tt -> export_model xi d = Ok p ->
  (d_top d < Datatypes.length (d_mods d))%nat /\
  forall i j mi mj, reach d i -> reach d j -> i <> j -> nth_error (d_mods d) i = Some mi -> nth_error (d_mods d) j = Some mj ->
    m_name mi <> m_name mj.
Proof. intros H. apply export_names_reach. apply hier_design_ok. exact H. Qed.
Print Assumptions C02F_export_names_reach.

(* ---------------------------------------------------------------- non-vacuity, part A ---------------------------------------------------------------- *)
(* the example of Props/C01F.v (a chain of groups three deep with a stride and a reversal, a ring, a concatenation of references
   into both, a port referred to only inside a slice, an array wired per element from nested references): inside every hypothesis,
   outside frag_e, accepted by the C02F pipeline - the C02E pipeline, which does not follow nested references, stops in ConnTypes *)
Example C02F_ex_accepted :
  given_e C01F.ex2_design = true /\ frag_f C01F.ex2_design = true /\ all_used C01F.ex2_design = true /\ frag_e C01F.ex2_design = false /\
  frag_ok2 C01F.ex2_design = true /\ xinfo_ok C01F.ex2_xinfo C01F.ex2_design = true /\ wf_design C01F.ex2_design = Ok tt /\
  fst (checked_run2 C01F.ex2_xinfo C01F.ex2_design) = SOf SDone /\ fst (checked_run C01F.ex2_xinfo C01F.ex2_design) = SConnTypes.
Proof. vm_compute. repeat split. Qed.

(* single faults HIDDEN inside slices and concatenations, planted in the two-module design of Props/C02E.v
     L:  ports a(1) b(2);   T:  signals s(4) t(1) u(2);  i0 = L(a=t, b=u);  i1 = L(a=.., b=NoConn);  arr = 2 x L(a=t, b=s)
   third component: inside given_e, frag_f, all_used; fourth: inside frag_e (never); fifth: frag_ok2 *)
Definition verdict2 (d : design) : stage2 * result unit * bool * bool * bool :=
  (fst (checked_run2 ex_xi d), wf_design d, given_e d && frag_f d && all_used d, frag_e d, frag_ok2 d).
Definition R_i0b := XSig 8%N 2.          (* the reference i0.b *)
Definition nc2 := XSig 4%N 2.            (* NoConn() on a two-bit port *)

Example C02F_ex_nested_valid : verdict2 (ex_std ok_i0 (ex_i1 (XSlice R_i0b (Idx 0)) nc2) ok_arr) = (SOf SDone, Ok tt, true, false, true).
Proof. vm_compute. reflexivity. Qed.
Example C02F_ex_nested_valid_deep :
  verdict2 (ex_std ok_i0 (ex_i1 (XSlice (XSlice R_i0b (Sl None None (Some (-1)))) (Idx 1)) nc2) (ex_arr [("b", XConcat [R_i0b; R_i0b])]))
  = (SOf SDone, Ok tt, true, false, true).
Proof. vm_compute. reflexivity. Qed.
(* a port connected to nothing and referred to only inside a concatenation: an implicit signal, valid *)
Example C02F_ex_nested_only_reference :
  verdict2 (ex_std (ex_i0 [("a", S_t)] []) (ex_i1 S_t (XConcat [XSlice R_i0b (Idx 0); S_t])) ok_arr) = (SOf SDone, Ok tt, true, false, true).
Proof. vm_compute. reflexivity. Qed.
(* ... the same port without the reference: missing connection *)
Example C02F_ex_missing : verdict2 (ex_std (ex_i0 [("a", S_t)] []) (ex_i1 S_t S_u) ok_arr) = (SOf SConnTypes, Error EMissing, true, true, true).
Proof. vm_compute. reflexivity. Qed.
Example C02F_ex_width_through_nested_reference :
  verdict2 (ex_std ok_i0 (ex_i1 (XSlice R_i0b (Sl (Some 0) (Some 2) None)) nc2) ok_arr) = (SOf SConnTypes, Error EWidth, true, false, true).
Proof. vm_compute. reflexivity. Qed.
(* the counterexample of Props/C02E.v (C02E_ex_why_partial): Concat(t, i0.nosuch)[0] - now rejected, by create_source *)
Example C02F_ex_nested_reference_to_missing_port :
  verdict2 (ex_std ok_i0 (ex_i1 (XSlice (XConcat [S_t; XSig 7%N 1]) (Idx 0)) nc2) ok_arr) = (SOf SPortRefs, Error EMissing, true, false, true).
Proof. vm_compute. reflexivity. Qed.
Example C02F_ex_index_out_of_range_into_reference :
  verdict2 (ex_std ok_i0 (ex_i1 (XSlice R_i0b (Idx 2)) nc2) ok_arr) = (SOf SConnTypes, Error EOutOfBounds, true, false, true).
Proof. vm_compute. reflexivity. Qed.
(* i1.b = NoConn() and the array takes Concat(i1.b, u): a no-connect that is also referenced, inside a concatenation *)
Example C02F_ex_noconn_referenced_inside_concat :
  verdict2 (ex_std ok_i0 ok_i1 (ex_arr [("b", XConcat [XSig 9%N 2; S_u])])) = (SOf SPortRefs, Error ENoConn, true, false, true).
Proof. vm_compute. reflexivity. Qed.
Example C02F_ex_foreign_instance_inside_concat :
  verdict2 (ex_std ok_i0 (ex_i1 (XSlice (XConcat [XSig 6%N 1]) (Idx 0)) nc2) ok_arr) = (SOf SOrphanage, Error EMissing, true, false, true).
Proof. vm_compute. reflexivity. Qed.
(* Concat(t, NoConn()): the constructors refuse *)
Example C02F_ex_noconn_inside_concat :
  verdict2 (ex_std (ex_i0 [("a", S_t)] [("b", XConcat [S_t; XSig 4%N 1])]) (ex_i1 S_t S_u) ok_arr) = (SBuild, Error ENoConn, true, false, true).
Proof. vm_compute. reflexivity. Qed.

(* theorem 2 without all_used: a module that nobody instantiates carries the name of another one.  wf_design calls that a clash,
   the exporter never sees it; wf_design_reach holds (by theorem 2), all_used is false *)
Example C02F_ex_unused_module :
  let d := {| d_mods := [ex_L "L" ex_res; ex_T "T" [ok_i0; ok_i1; ok_arr]; ex_L "L" ex_res]; d_top := 1 |} in
  given_e d = true /\ frag_f d = true /\ all_used d = false /\ wf_design d = Error EName /\ fst (checked_run2 ex_xi d) = SOf SDone /\ wf_design_reach d.
Proof.
  cbv zeta. split; [vm_compute; reflexivity|]. split; [vm_compute; reflexivity|]. split; [vm_compute; reflexivity|].
  split; [vm_compute; reflexivity|]. split; [vm_compute; reflexivity|].
  destruct (checked_pipeline2 ex_xi {| d_mods := [ex_L "L" ex_res; ex_T "T" [ok_i0; ok_i1; ok_arr]; ex_L "L" ex_res]; d_top := 1 |}) as [p|e] eqn:E;
    [apply (reject_complete2_reach ex_xi _ p); [vm_compute; reflexivity|vm_compute; reflexivity|exact E]|vm_compute in E; discriminate].
Qed.

(* why 5 and 6 are _partial: the loop of Props/C01F.v is valid, inside given_e and frag_f, outside frag_ok2; the model declines it *)
Example C02F_ex_loop :
  given_e C01F.ex_loop_design = true /\ frag_f C01F.ex_loop_design = true /\ wf_design C01F.ex_loop_design = Ok tt /\
  frag_ok2 C01F.ex_loop_design = false /\ checked_run2 C01F.ex_loop_xinfo C01F.ex_loop_design = (SOf SPortRefs, Error EFuel).
Proof. vm_compute. repeat split. Qed.

(* ======================================================== Part B: Bundles ======================================================== *)
(* Model/C02FBundles.v:checked_bundle_pipeline = InstBundleElabPass (C01G:ib_design) ; ConnTypes on bundle-valued ports
   (bundle_conntypes: check_bundles_compatible) ; BundleFlattener (C01G:flat_design, with the refusals of fixes/C02-1, C02-2) ;
   checked_pipeline2 on the flattened design.  Design language: Base/C01BDesign.v (bundle definitions as trees, bundle instances and
   ports, sub-bundle references, anonymous bundles at any depth, Pairs, arrays). *)

(* 9. the stages in front of the scalar pipeline are the two bundle entries of the regenerated default list, in the list's order
      (the ConnTypes entry sits between them in the list; ResolvePortRefs too - the model resolves references member-wise after
      the flattening, the deviation of notes/C01G.md) *)
Theorem C02F_bundle_stages_follow_default_list :
  map (fun e : entry => fst (fst e)) (filter (fun e => bundle_pass e || String.eqb (fst (fst e)) "ConnTypes") default_passes)
  = ["InstBundleElabPass"; "ConnTypes"; "BundleFlattener"].
Proof. vm_compute. reflexivity. Qed.
Print Assumptions C02F_bundle_stages_follow_default_list.

(* 10. REJECT-COMPLETENESS WITH BUNDLES, as far as it is proved: whatever the pipeline with bundles accepts
        - passed InstBundleElabPass (no Pair is left) and the ConnTypes check of every bundle-valued port of every single instance,
        - was flattened to a design d' that IS the specification's path-based, member-wise lowering of the written design
          (Spec/C01GLower.v:lower_m with the names Hdl21 computes) whenever bp_wf holds (C01G's fragment: distinct attribute and member
          names, well-formed definition trees),
        - and d' is a VALID scalar design (wf_design_reach resp. wf_design, by Part A): every flat member connection has the member's
          width, every flat port of every instance is connected, no connection goes to a port that does not exist, ...
        - and p is the package of the unchecked pipeline on d', so C01G_bundle_passes_end_to_end_partial applies to it.
      _partial: the conclusion is about the lowering, not about Spec/C01BWf.v:wf_bdesign / Spec/C02BundleWf.v:bwf_design directly;
      members an anonymous bundle has IN EXCESS of the port's Bundle are invisible to the lowering - they are covered by theorem 11. *)
Theorem C02F_bundle_reject_complete_partial xi d p : checked_bundle_pipeline xi d = Ok p ->
  exists d1 d', ib_design d = Ok d1 /\ no_pairs d1 = true /\ bundle_conntypes d1 = Ok tt /\ bundle_passes d = Ok d' /\
    (bp_wf d1 = true -> d' = lower_m fl_impl d1) /\
    elab_export_model2 xi d' = Ok p /\
    (given_e d' = true -> frag_f d' = true -> wf_design_reach d') /\
    (given_e d' = true -> frag_f d' = true -> all_used d' = true -> wf_design d' = Ok tt).
Proof. exact (bundle_reject_complete xi d p). Qed.
Print Assumptions C02F_bundle_reject_complete_partial.

(* 11. EVERY FAULT CLASS OF THE STATEMENT THAT CAN SIT ON A BUNDLE CONNECTION IS REJECTED, wherever it is planted: in any module of
       the design (top or deep), on any instance (single, array, Pair), and - for the first two - at any depth of an anonymous bundle:
         (a) a bundle owned by another module or by none      mentions_orphan: a name that is no bundle of the module
         (b) a reference to a non-existent bundle member       mentions_bad_member: b.pre where pre is neither a Signal nor a sub-bundle
                                                               of b's definition (bp_wf of the design after InstBundleElabPass is used:
                                                               the flattened scope of b lists exactly the members of its definition)
         (c) a Pair's anonymous bundle with a member other than p / n (extra member, fixes/C02-2), or without p or n (missing member)
       and (theorem 12)
         (d) a bundle instance / sub-bundle reference whose definition differs from the port's in a member name or a member WIDTH
             at any level (width mismatch through a bundle; missing / extra member between two Bundle definitions).
       FULL statement (not proved): the same for a member width mismatch / a missing / an extra member INSIDE AN ANONYMOUS BUNDLE on a
       bundle-valued port (fixes/C02-1): the model refuses them (replace_bundle_conn_checked: EExtra / EMissing; the member's width is
       judged by the scalar ConnTypes of the pipeline after flattening, covered by theorem 10) - shown on the examples below and by
       the tie on every mutant of the bundle stream, no general lemma. *)
Theorem C02F_bundle_faults_rejected_partial xi d m x c : In m (bd_mods d) -> In x (bm_insts m) -> In c (bi_conns x) ->
  (bi_pair x = false /\ mentions_orphan m (snd c) = true) \/
  (bi_pair x = false /\ mentions_bad_member m (snd c) = true /\ (forall d1, ib_design d = Ok d1 -> bp_wf d1 = true)) \/
  (bi_pair x = true /\ (pair_anon_extra (snd c) = true \/ pair_anon_missing (snd c) = true)) ->
  exists e, checked_bundle_pipeline xi d = Error e.
Proof. exact (bundle_faults_rejected xi d m x c). Qed.
Print Assumptions C02F_bundle_faults_rejected_partial.

Theorem C02F_bundle_type_mismatch_rejected xi d d1 m x c : ib_design d = Ok d1 -> In m (bd_mods d1) -> In x (bm_insts m) -> In c (bi_conns x) ->
  bi_n x <= 0 -> bundle_type_mismatch d1 m x c = true -> exists e, checked_bundle_pipeline xi d = Error e.
Proof. exact (bundle_type_mismatch_rejected xi d d1 m x c). Qed.
Print Assumptions C02F_bundle_type_mismatch_rejected.

Theorem C02F_bundle_run_is_pipeline xi d : snd (checked_bundle_run xi d) = checked_bundle_pipeline xi d.
Proof. exact (checked_bundle_run_pipeline xi d). Qed.
Print Assumptions C02F_bundle_run_is_pipeline.

(* ---------------------------------------------------------------- non-vacuity, part B ---------------------------------------------------------------- *)
(* the three designs of Props/C01G.v (nested flipped bundles with anonymous bundles and sub-bundle references, three modules deep;
   Pairs; arrays with bundle ports) are accepted; bp_wf holds, Spec/C01BWf.v calls them valid; then C01G's end-to-end theorem applies
   (its hypotheses are the Examples of Props/C01G.v) *)
Definition bverdict (xi : xinfo) (d : bdesign) : bstage * option err * result unit * bool :=
  (fst (checked_bundle_run xi d), match snd (checked_bundle_run xi d) with Ok _ => None | Error e => Some e end, wf_bdesign d, bp_wf d).

Example C02F_ex_bundles_accepted :
  bverdict C01G.exg1_xinfo C01G.exg1 = (SBOf (SOf SDone), None, Ok tt, true) /\
  bverdict C01G.exg2_xinfo C01G.exg2 = (SBOf (SOf SDone), None, Ok tt, true) /\
  bverdict C01G.exg3_xinfo C01G.exg3 = (SBOf (SOf SDone), None, Ok tt, true).
Proof. repeat split; vm_compute; reflexivity. Qed.

(* single faults planted in them.  set_conns d k i cs: instance i of module k gets the connections cs *)
Definition set_conns (d : bdesign) (k : nat) (i : name) (cs : list (name * bexpr)) : bdesign :=
  {| bd_mods := map (fun km : nat * bmodule => if Nat.eqb (fst km) k then
        {| bm_name := bm_name (snd km); bm_ports := bm_ports (snd km); bm_sigs := bm_sigs (snd km); bm_bundles := bm_bundles (snd km);
           bm_insts := map (fun x => if String.eqb (bi_name x) i then {| bi_name := bi_name x; bi_n := bi_n x; bi_pair := bi_pair x; bi_of := bi_of x; bi_conns := cs |} else x) (bm_insts (snd km));
           bm_leaves := bm_leaves (snd km) |} else snd km) (combine (seq 0 (Datatypes.length (bd_mods d))) (bd_mods d)); bd_top := bd_top d |}.
(* Top of exg1: m = Mid(bb = { lo = .., hi = { x = w[0], y = .. }, .. }) *)
Definition w0 := BXSx (XSlice (XSig 0%N 4) (Idx 0)).
Definition w3s := BXSx (XConcat [XSlice (XSig 0%N 4) (Idx 3); XSig 1%N 1]).
Definition top_anon lo hiy rest := [("bb", BXAnon ([("lo", lo); ("hi", BXAnon [("x", w0); ("y", hiy)])] ++ rest))].
Definition zq := [("z", BXSx (XSig 2%N 1))].
Definition g1 := bverdict C01G.exg1_xinfo.
Definition g2 := bverdict C01G.exg2_xinfo.
Definition g3 := bverdict C01G.exg3_xinfo.

(* DEEP (module Mid, below the top): the whole bundle bb on the port bp {x, y}: different member names *)
Example C02F_ex_deep_bundle_type_mismatch : g1 (set_conns C01G.exg1 1 "l1" [("bp", BXInst "bb" [])]) = (SBConnTypes, Some EWidth, Error EBadKind, true).
Proof. vm_compute. reflexivity. Qed.
Example C02F_ex_deep_reference_to_missing_member : g1 (set_conns C01G.exg1 1 "l1" [("bp", BXInst "bb" ["nosuch"])]) = (SBConnTypes, Some EMissing, Error EMissing, true).
Proof. vm_compute. reflexivity. Qed.
(* q is a bundle of Top, not of Mid *)
Example C02F_ex_deep_bundle_of_another_module : g1 (set_conns C01G.exg1 1 "l1" [("bp", BXInst "q" [])]) = (SBConnTypes, Some EOrphan, Error EOrphan, true).
Proof. vm_compute. reflexivity. Qed.
(* the pinned-tree witness class: a member of a NESTED anonymous bundle one bit too narrow - judged after the flattening *)
Example C02F_ex_anonymous_member_width :
  g1 (set_conns C01G.exg1 2 "m" (top_anon (BXInst "q" ["hi"]) (BXSx (XSlice (XSig 0%N 4) (Idx 3))) zq)) = (SBOf (SOf SConnTypes), Some EWidth, Error EWidth, true).
Proof. vm_compute. reflexivity. Qed.
(* fixes/C02-1: a member the port's Bundle does not have; Spec/C01BWf.v (C01's hypothesis) does not even look at it *)
Example C02F_ex_anonymous_extra_member :
  g1 (set_conns C01G.exg1 2 "m" (top_anon (BXInst "q" ["hi"]) w3s (zq ++ [("extra", BXSx (XSig 1%N 1))]))) = (SBFlatten, Some EExtra, Ok tt, true).
Proof. vm_compute. reflexivity. Qed.
Example C02F_ex_anonymous_missing_member :
  g1 (set_conns C01G.exg1 2 "m" (top_anon (BXInst "q" ["hi"]) w3s [])) = (SBFlatten, Some EMissing, Error EMissing, true).
Proof. vm_compute. reflexivity. Qed.
Example C02F_ex_anonymous_reference_to_missing_member :
  g1 (set_conns C01G.exg1 2 "m" (top_anon (BXInst "q" ["nosuch"]) w3s zq)) = (SBFlatten, Some EMissing, Error EMissing, true).
Proof. vm_compute. reflexivity. Qed.
Example C02F_ex_anonymous_foreign_bundle :
  g1 (set_conns C01G.exg1 2 "m" (top_anon (BXInst "foreign" []) w3s zq)) = (SBFlatten, Some EOrphan, Error EOrphan, true).
Proof. vm_compute. reflexivity. Qed.
(* ARRAYS (exg3): a member too wide for w and for n*w; the whole bundle bb on the port bp of an array *)
Example C02F_ex_array_anonymous_member_width :
  g3 (set_conns C01G.exg3 1 "arr" [("bp", BXAnon [("x", BXSx (XSig 1%N 4)); ("y", BXSx (XSig 1%N 4))])]) = (SBOf (SOf SArrays), Some EWidth, Error EWidth, true).
Proof. vm_compute. reflexivity. Qed.
Example C02F_ex_array_bundle_type_mismatch : g3 (set_conns C01G.exg3 1 "ar2" [("bp", BXInst "bb" [])]) = (SBFlatten, Some EExtra, Error EBadKind, true).
Proof. vm_compute. reflexivity. Qed.
(* PAIRS (exg2): fixes/C02-2 (a member q), a missing member, a bundle nobody owns, a member of the wrong width *)
Example C02F_ex_pair_extra_member :
  g2 (set_conns C01G.exg2 1 "pr" [("a", BXInst "d" []); ("b", BXAnon [("n", BXSx (XSig 0%N 2)); ("p", BXSx (XSig 1%N 2)); ("q", BXSx (XSig 1%N 2))])])
  = (SBInstBundles, Some EExtra, Ok tt, true).
Proof. vm_compute. reflexivity. Qed.
Example C02F_ex_pair_missing_member :
  g2 (set_conns C01G.exg2 1 "pr" [("a", BXInst "d" []); ("b", BXAnon [("n", BXSx (XSig 0%N 2))])]) = (SBInstBundles, Some EMissing, Error EMissing, true).
Proof. vm_compute. reflexivity. Qed.
Example C02F_ex_pair_orphan_bundle :
  g2 (set_conns C01G.exg2 1 "pr" [("a", BXInst "nosuch" []); ("b", BXSx (XSig 1%N 2))]) = (SBFlatten, Some EOrphan, Error EOrphan, true).
Proof. vm_compute. reflexivity. Qed.
Example C02F_ex_pair_member_width :
  g2 (set_conns C01G.exg2 1 "pr" [("a", BXInst "d" []); ("b", BXAnon [("n", BXSx (XSig 0%N 2)); ("p", BXSx (XSig 2%N 1))])]) = (SBOf (SOf SConnTypes), Some EWidth, Error EWidth, true).
Proof. vm_compute. reflexivity. Qed.

(* the hypotheses of theorems 11 and 12 on these designs (so the theorems, not only the computation, reject them) *)
Example C02F_ex_fault_predicates :
  (exists m x c, nth_error (bd_mods (set_conns C01G.exg1 2 "m" (top_anon (BXInst "foreign" []) w3s zq))) 2 = Some m /\ nth_error (bm_insts m) 0 = Some x /\
     nth_error (bi_conns x) 0 = Some c /\ bi_pair x = false /\ mentions_orphan m (snd c) = true) /\
  (exists m x c, nth_error (bd_mods (set_conns C01G.exg1 2 "m" (top_anon (BXInst "q" ["nosuch"]) w3s zq))) 2 = Some m /\ nth_error (bm_insts m) 0 = Some x /\
     nth_error (bi_conns x) 0 = Some c /\ bi_pair x = false /\ mentions_bad_member m (snd c) = true) /\
  (exists m x c, nth_error (bd_mods (set_conns C01G.exg1 1 "l1" [("bp", BXInst "bb" [])])) 1 = Some m /\ nth_error (bm_insts m) 0 = Some x /\
     nth_error (bi_conns x) 0 = Some c /\ bi_n x <= 0 /\ bundle_type_mismatch (set_conns C01G.exg1 1 "l1" [("bp", BXInst "bb" [])]) m x c = true) /\
  pair_anon_extra (BXAnon [("n", BXSx (XSig 0%N 2)); ("p", BXSx (XSig 1%N 2)); ("q", BXSx (XSig 1%N 2))]) = true /\
  pair_anon_missing (BXAnon [("n", BXSx (XSig 0%N 2))]) = true.
Proof.
  split; [eexists; eexists; eexists; repeat split; vm_compute; try reflexivity|].
  split; [eexists; eexists; eexists; repeat split; vm_compute; try reflexivity|].
  split; [eexists; eexists; eexists; repeat split; vm_compute; try reflexivity; discriminate|].
  split; vm_compute; reflexivity.
Qed.
