(* Props/C04.v — the last connection made to a port is the one that gets built.
   Statements only; proofs are in Proofs/C04Proofs.v (operation histories) and Proofs/C04GroupProofs.v
   (what the port-reference pass of the elaborator can reach from such a state).
   `run ops` is the state of the model of hdl21/instance.py after ANY finite list of
   call / assignment / connect / replace / disconnect / reference-fetching operations, with any
   instances, port names and arguments (connectables of every kind, dicts, non-connectables). *)
Require Import Hdl21.Base.PyInt Hdl21.Model.C04ConnOps Hdl21.Spec.C04LastWrite Hdl21.Proofs.C04Proofs
               Hdl21.Model.C04Groups Hdl21.Proofs.C04GroupProofs Hdl21.Proofs.C04GroupComplete.

(* 1. the books stay in step, after every history: a port is in a connectable's back-reference set
      exactly when that connectable is the port's current connection; `conns` is a dict (no duplicate
      keys); the back-reference sets are sets *)
Theorem C04_sync_reachable ops c q :
  In q (back_of c (st_back (run ops))) <-> lookup q (st_conns (run ops)) = Some c.
Proof. exact (inv_sync _ (inv_run ops) c q). Qed.
Print Assumptions C04_sync_reachable.

Theorem C04_invariant_reachable ops : Inv (run ops).
Proof. exact (inv_run ops). Qed.
Print Assumptions C04_invariant_reachable.

Theorem C04_invariant_step s o : Inv s -> Inv (apply s o).
Proof. exact (inv_apply s o). Qed.
Print Assumptions C04_invariant_step.

(* 2. the design handed to elaboration is the specified one: after every history the connection of
      every port is what the last successful operation ADDRESSED TO THAT PORT left there
      (Spec/C04LastWrite.v:final reads only the operations on q), and every operation is accepted
      exactly when the specification accepts it *)
Theorem C04_final_mapping_only ops q : lookup q (st_conns (run ops)) = final q ops.
Proof. unfold run, final. rewrite (run_from_final q ops init inv_init). reflexivity. Qed.
Print Assumptions C04_final_mapping_only.

Theorem C04_acceptance ops o :
  snd (step (run ops) o) = accepted (fun q => final q ops) o.
Proof.
  destruct (step_spec (run ops) o (inv_run ops)) as [_ [A _]]. rewrite A.
  destruct o; simpl; try reflexivity; rewrite C04_final_mapping_only; reflexivity.
Qed.
Print Assumptions C04_acceptance.

(* 3. last writer wins: after a successful connect / assignment of c to q, and any further operations
      that do not address q, q is connected to c — whatever q was tied to before, whatever else happened *)
Theorem C04_last_connect_wins pre i p a c post :
  norm a = Some c -> forallb (fun o => negb (touches (i, p) o)) post = true ->
  lookup (i, p) (st_conns (run (pre ++ [Connect i p a] ++ post))) = Some c /\
  lookup (i, p) (st_conns (run (pre ++ [SetAttr i p a] ++ post))) = Some c /\
  lookup (i, p) (st_conns (run (pre ++ [Call i [(p, a)]] ++ post))) = Some c /\
  lookup (i, p) (st_conns (run (pre ++ [Disconnect i p] ++ post))) = None.
Proof.
  intros N U.
  assert (H : forall o, lookup (i, p) (st_conns (run (pre ++ [o] ++ post))) = port_step (i, p) (final (i, p) pre) o).
  { intros o. rewrite C04_final_mapping_only. unfold final. rewrite !fold_left_app. simpl.
    apply (fold_untouched (i, p) post _ U). }
  rewrite !H. cbn [port_step call_port]. rewrite N, !pid_eqb_refl. auto.
Qed.
Print Assumptions C04_last_connect_wins.

(* ... and operations on other ports never change a port *)
Theorem C04_frame ops more q :
  forallb (fun o => negb (touches q o)) more = true ->
  lookup q (st_conns (run (ops ++ more))) = lookup q (st_conns (run ops)).
Proof.
  intros U. rewrite !C04_final_mapping_only. unfold final. rewrite fold_left_app. apply fold_untouched, U.
Qed.
Print Assumptions C04_frame.

(* 4. no trace: a connectable that is not the FINAL connection of q does not list q — so anything
      that was connected to q and later replaced or disconnected is attached to nothing because of q *)
Theorem C04_no_trace ops q c : final q ops <> Some c -> ~ In q (back_of c (st_back (run ops))).
Proof. intros H A. apply H. rewrite <- C04_final_mapping_only. apply C04_sync_reachable. exact A. Qed.
Print Assumptions C04_no_trace.

(* 5. the only failures are the documented ones (TypeError for a non-connectable, KeyError for a port
      that is not connected): `set.remove` on a back-reference set never fails, in any reachable state *)
Theorem C04_no_internal_error ops o : step_err (run ops) o <> Some EInternal.
Proof. exact (step_no_internal _ o (inv_run ops)). Qed.
Print Assumptions C04_no_internal_error.

(* ------------------------------------------------------------------------------------------------
   What the elaborator's port-reference pass can reach from such a state (Model/C04Groups.v is
   portrefs.py:follow, depth first, on the books `conns` / `_connected_ports` / handed-out references). *)

(* 6. a group holds only what the FINAL mapping joins to its seed: every reference in it is reached from
      the seed through final connections ("q is connected to the reference of r" in either direction),
      every other member is the final connection of such a port.  Nothing that was connected earlier and
      replaced or disconnected since can be a member: it is not shorted to, and it merges no nets. *)
Theorem C04_groups_follow_final_mapping ops inmod fuel q g x :
  follow (run ops) inmod fuel q [] = Some g -> In x g ->
  (exists r, x = GRef r /\ reach (run ops) q r) \/
  (exists r c, x = GConn c /\ reach (run ops) q r /\ final r ops = Some c).
Proof.
  intros H Hx. destruct (follow_sound (run ops) inmod (inv_run ops) fuel q [] g H x Hx) as [[]|[A|[r [c [E [R L]]]]]].
  - left; exact A.
  - right. exists r, c. rewrite <- C04_final_mapping_only. auto.
Qed.
Print Assumptions C04_groups_follow_final_mapping.

Theorem C04_no_stale_member ops inmod fuel q g r :
  follow (run ops) inmod fuel q [] = Some g -> ~ reach (run ops) q r -> ~ In (GRef r) g.
Proof.
  intros H N Hx. destruct (C04_groups_follow_final_mapping ops inmod fuel q g _ H Hx) as [[r' [E R]]|[r' [c [E _]]]].
  - inversion E; subst. exact (N R).
  - discriminate.
Qed.
Print Assumptions C04_no_stale_member.

(* `reach` itself is a function of the final mapping only *)
Theorem C04_adj_final ops a b :
  adj (run ops) a b <-> final a ops = Some (CRef (fst b) (snd b)) \/ final b ops = Some (CRef (fst a) (snd a)).
Proof. unfold adj. rewrite !C04_final_mapping_only. reflexivity. Qed.
Print Assumptions C04_adj_final.

(* 7. a reference handed out earlier that nobody uses any more, on a port that ends up connected to an
      object: its group is exactly {the port, that object}, for any fuel >= 1 and whatever else happened;
      resolving it re-connects the port to the object it is connected to, which changes neither `conns`
      nor any back-reference set.  (For a no-connect the port is a seed anyway: C04_noconn_seed.) *)
Theorem C04_stale_ref_harmless ops inmod fuel q c :
  final q ops = Some c -> (forall i p, c <> CRef i p) ->
  (forall q', final q' ops <> Some (CRef (fst q) (snd q))) ->
  follow (run ops) inmod (S fuel) q [] = Some [GRef q; GConn c] /\
  exists s', connect (run ops) q (AConn c) = COk s' /\ Inv s' /\
             st_conns s' = st_conns (run ops) /\ st_handed s' = st_handed (run ops) /\
             forall c0 x, In x (back_of c0 (st_back s')) <-> In x (back_of c0 (st_back (run ops))).
Proof.
  intros F NR NU. rewrite <- C04_final_mapping_only in F. split.
  - apply stale_group; [apply inv_run | exact F | exact NR |].
    intros q'. rewrite C04_final_mapping_only. apply NU.
  - apply stale_resolve; [apply inv_run | exact F].
Qed.
Print Assumptions C04_stale_ref_harmless.

Theorem C04_noconn_seed ops q id : final q ops = Some (CObj KNoConn id) -> In q (seeds (run ops)).
Proof.
  intros F. rewrite <- C04_final_mapping_only in F. apply seeds_spec. right. exists (CObj KNoConn id).
  split; [|reflexivity]. clear -F. induction (st_conns (run ops)) as [|[k v] t IH]; simpl in *; [discriminate|].
  destruct (pid_eqb q k) eqn:E; [apply pid_eqb_eq in E; inversion F; subst; left; reflexivity | right; auto].
Qed.
Print Assumptions C04_noconn_seed.


(* 8. ... and a group holds EVERYTHING the final mapping joins to it (no net is split): for each member
      port, the reference or object it is finally connected to is a member, and so is every port (of an
      instance of the module) that is finally connected to the member's reference *)
Theorem C04_groups_closed ops inmod fuel q g r :
  follow (run ops) inmod fuel q [] = Some g -> In (GRef r) g ->
  In (GRef q) g /\
  (forall i p, final r ops = Some (CRef i p) -> In (GRef (i, p)) g) /\
  (forall k id, final r ops = Some (CObj k id) -> In (GConn (CObj k id)) g) /\
  (forall r', final r' ops = Some (CRef (fst r) (snd r)) -> inmod (fst r') = true -> In (GRef r') g).
Proof.
  intros H Hr. destruct (follow_closed (run ops) inmod fuel q [] g H) as [[_ G] Q].
  destruct (G r Hr) as [[]|[A B]]. split; [exact Q|]. repeat split.
  - intros i p F. rewrite <- C04_final_mapping_only in F. exact (A _ F).
  - intros k id F. rewrite <- C04_final_mapping_only in F. exact (A _ F).
  - intros r' F M. apply B; [|exact M]. apply C04_sync_reachable. rewrite C04_final_mapping_only. exact F.
Qed.
Print Assumptions C04_groups_closed.

(* so, when every instance belongs to the module, the references of a group are exactly the connected
   component of its seed in the final mapping: nothing merged, nothing split *)
Theorem C04_group_is_component ops fuel q g r :
  follow (run ops) (fun _ => true) fuel q [] = Some g -> (In (GRef r) g <-> reach (run ops) q r).
Proof.
  intros H. split.
  - intros Hr. destruct (C04_groups_follow_final_mapping ops _ fuel q g _ H Hr) as [[r' [E R]]|[r' [c [E _]]]];
      [inversion E; subst; exact R | discriminate].
  - intros R. induction R as [|b c R IH [A|A]].
    + destruct (follow_closed (run ops) (fun _ => true) fuel q [] g H) as [_ Q]. exact Q.
    + destruct (C04_groups_closed ops _ fuel q g b H IH) as [_ [F _]]. rewrite C04_final_mapping_only in A.
      specialize (F _ _ A). destruct c; exact F.
    + destruct (C04_groups_closed ops _ fuel q g b H IH) as [_ [_ [_ F]]]. rewrite C04_final_mapping_only in A.
      exact (F c A eq_refl).
Qed.
Print Assumptions C04_group_is_component.

(* 8b. the group does not depend on which of its ports the walk starts from: a reference handed out
       earlier for a port that is (still or again) tied into a live group only re-discovers that group *)
Lemma C04_reach_sym ops a b : reach (run ops) a b -> reach (run ops) b a.
Proof.
  induction 1 as [|b c R IH A]; [constructor|].
  apply (reach_trans _ c b a); [|exact IH].
  eapply reach_step; [constructor|]. destruct A as [A|A]; [right|left]; exact A.
Qed.

Theorem C04_group_seed_independent ops f1 f2 q r g1 g2 :
  follow (run ops) (fun _ => true) f1 q [] = Some g1 -> follow (run ops) (fun _ => true) f2 r [] = Some g2 ->
  reach (run ops) q r -> forall x, In (GRef x) g1 <-> In (GRef x) g2.
Proof.
  intros H1 H2 R x. rewrite (C04_group_is_component ops f1 q g1 x H1), (C04_group_is_component ops f2 r g2 x H2).
  split; intros H.
  - eapply reach_trans; [apply C04_reach_sym; exact R | exact H].
  - eapply reach_trans; [exact R | exact H].
Qed.
Print Assumptions C04_group_seed_independent.

(* 9. the walk always terminates within `number of ports + 1` nested calls: fuel exhaustion is unreachable *)
Theorem C04_groups_total ops inmod q g0 : In q (ports_of (run ops)) ->
  exists g, follow (run ops) inmod (S (List.length (ports_of (run ops)))) q g0 = Some g.
Proof.
  intros Hq. apply (follow_total (run ops) inmod (ports_of (run ops)) (ports_closed _ (inv_run ops))); [exact Hq|].
  pose proof (missing_le (ports_of (run ops)) g0). lia.
Qed.
Print Assumptions C04_groups_total.

Theorem C04_seeds_are_ports ops q : In q (seeds (run ops)) -> In q (ports_of (run ops)).
Proof. apply seeds_in_ports. Qed.
Print Assumptions C04_seeds_are_ports.

(* ---- non-vacuity *)
Definition s0 := CObj KSig 0.
Definition nc := CObj KNoConn 30.
Definition bi := CObj KBundle 40.

Example C04_ex_history :
  let ops := [SetAttr 1 0 (AConn (CRef 0 0)); GetRef 0 0; Call 0 [(0, AConn nc); (2, ADict 7)];
              Replace 0 0 (AConn s0); Replace 0 1 (AConn s0); Connect 1 0 (AConn bi); Disconnect 1 0;
              SetAttr 0 2 ABad; Connect 1 0 (AConn s0)] in
  st_conns (run ops) = [((0, 0), s0); ((0, 2), CObj KAnon 7); ((1, 0), s0)] /\
  back_of s0 (st_back (run ops)) = [(0, 0); (1, 0)] /\
  back_of (CRef 0 0) (st_back (run ops)) = [] /\ back_of nc (st_back (run ops)) = [] /\
  back_of bi (st_back (run ops)) = [] /\ st_handed (run ops) = [(0, 0)] /\
  map (fun o => snd (step (run [SetAttr 0 0 (AConn s0)]) o))
      [Replace 0 1 (AConn s0); Disconnect 0 1; Replace 0 0 ABad; Replace 0 0 (ADict 1); Call 0 [(1, AConn s0); (0, ABad); (2, AConn s0)]]
  = [false; false; false; true; false].
Proof. vm_compute. repeat split. Qed.

Example C04_ex_last_connect :
  forallb (fun o => negb (touches (0, 0) o)) [Connect 0 1 (AConn s0); Disconnect 1 0; GetRef 0 0] = true /\
  norm (ADict 3) = Some (CObj KAnon 3).
Proof. split; reflexivity. Qed.

(* non-vacuity: i1.a was tied to i0.a, then to s0; i0.a ends on s0 as well; i2.a refers to i1.a.
   The group of the (stale) reference i0.a is {i0.a, s0}: i1.a and i2.a are not pulled in. *)
Example C04_ex_groups :
  let ops := [GetRef 0 0; SetAttr 1 0 (AConn (CRef 0 0)); SetAttr 1 0 (AConn s0); SetAttr 0 0 (AConn s0);
              GetRef 1 0; SetAttr 2 0 (AConn (CRef 1 0))] in
  follow (run ops) (fun _ => true) 5 (0, 0) [] = Some [GRef (0, 0); GConn s0] /\
  follow (run ops) (fun _ => true) 5 (1, 0) [] = Some [GRef (1, 0); GConn s0; GRef (2, 0)] /\
  seeds (run ops) = [(0, 0); (1, 0)] /\
  final (0, 0) ops = Some s0 /\ forallb (fun q' => negb (conn_opt_eqb (final q' ops) (CRef 0 0))) [(0,0); (1,0); (2,0)] = true.
Proof. vm_compute. repeat split. Qed.
