(* Props/C04.v — the last connection made to a port is the one that gets built.
   Statements only; proofs are in Proofs/C04Proofs.v (operation histories) and Proofs/C04GroupProofs.v
   (what the port-reference pass of the elaborator can reach from such a state).
   `run ops` is the state of the model of hdl21/instance.py after ANY finite list of
   call / assignment / connect / replace / disconnect / reference-fetching operations, with any
   instances, port names and arguments (connectables of every kind, dicts, non-connectables). *)
Require Import Hdl21.Base.PyInt Hdl21.Model.C04ConnOps Hdl21.Spec.C04LastWrite Hdl21.Proofs.C04Proofs.

(* 1. the books stay in step, after every history: a port is in a connectable's back-reference set
      exactly when that connectable is the port's current connection; `conns` is a dict (no duplicate
      keys); the back-reference sets are sets *)
Theorem C04_sync_reachable ops c q :
  In q (back_of c (st_back (run ops))) <-> lookup q (st_conns (run ops)) = Some c.
Proof. exact (inv_sync _ (inv_run ops) c q). Qed.
Print Assumptions C04_sync_reachable.

Theorem C04_invariant_reachable ops : Inv (run ops).
Proof. exact (inv_run ops). Qed.
Print Assumptions C04_invariant_reachable.

Theorem C04_invariant_step s o : Inv s -> Inv (apply s o).
Proof. exact (inv_apply s o). Qed.
Print Assumptions C04_invariant_step.

(* 2. the design handed to elaboration is the specified one: after every history the connection of
      every port is what the last successful operation ADDRESSED TO THAT PORT left there
      (Spec/C04LastWrite.v:final reads only the operations on q), and every operation is accepted
      exactly when the specification accepts it *)
Theorem C04_final_mapping_only ops q : lookup q (st_conns (run ops)) = final q ops.
Proof. unfold run, final. rewrite (run_from_final q ops init inv_init). reflexivity. Qed.
Print Assumptions C04_final_mapping_only.

Theorem C04_acceptance ops o :
  snd (step (run ops) o) = accepted (fun q => final q ops) o.
Proof.
  destruct (step_spec (run ops) o (inv_run ops)) as [_ [A _]]. rewrite A.
  destruct o; simpl; try reflexivity; rewrite C04_final_mapping_only; reflexivity.
Qed.
Print Assumptions C04_acceptance.

(* 3. last writer wins: after a successful connect / assignment of c to q, and any further operations
      that do not address q, q is connected to c — whatever q was tied to before, whatever else happened *)
Theorem C04_last_connect_wins pre i p a c post :
  norm a = Some c -> forallb (fun o => negb (touches (i, p) o)) post = true ->
  lookup (i, p) (st_conns (run (pre ++ [Connect i p a] ++ post))) = Some c /\
  lookup (i, p) (st_conns (run (pre ++ [SetAttr i p a] ++ post))) = Some c /\
  lookup (i, p) (st_conns (run (pre ++ [Call i [(p, a)]] ++ post))) = Some c /\
  lookup (i, p) (st_conns (run (pre ++ [Disconnect i p] ++ post))) = None.
Proof.
  intros N U.
  assert (H : forall o, lookup (i, p) (st_conns (run (pre ++ [o] ++ post))) = port_step (i, p) (final (i, p) pre) o).
  { intros o. rewrite C04_final_mapping_only. unfold final. rewrite !fold_left_app. simpl.
    apply (fold_untouched (i, p) post _ U). }
  rewrite !H. cbn [port_step call_port]. rewrite N, !pid_eqb_refl. auto.
Qed.
Print Assumptions C04_last_connect_wins.

(* ... and operations on other ports never change a port *)
Theorem C04_frame ops more q :
  forallb (fun o => negb (touches q o)) more = true ->
  lookup q (st_conns (run (ops ++ more))) = lookup q (st_conns (run ops)).
Proof.
  intros U. rewrite !C04_final_mapping_only. unfold final. rewrite fold_left_app. apply fold_untouched, U.
Qed.
Print Assumptions C04_frame.

(* 4. no trace: a connectable that is not the FINAL connection of q does not list q — so anything
      that was connected to q and later replaced or disconnected is attached to nothing because of q *)
Theorem C04_no_trace ops q c : final q ops <> Some c -> ~ In q (back_of c (st_back (run ops))).
Proof. intros H A. apply H. rewrite <- C04_final_mapping_only. apply C04_sync_reachable. exact A. Qed.
Print Assumptions C04_no_trace.

(* 5. the only failures are the documented ones (TypeError for a non-connectable, KeyError for a port
      that is not connected): `set.remove` on a back-reference set never fails, in any reachable state *)
Theorem C04_no_internal_error ops o : step_err (run ops) o <> Some EInternal.
Proof. exact (step_no_internal _ o (inv_run ops)). Qed.
Print Assumptions C04_no_internal_error.

(* ---- non-vacuity *)
Definition s0 := CObj KSig 0.
Definition nc := CObj KNoConn 30.
Definition bi := CObj KBundle 40.

Example C04_ex_history :
  let ops := [SetAttr 1 0 (AConn (CRef 0 0)); GetRef 0 0; Call 0 [(0, AConn nc); (2, ADict 7)];
              Replace 0 0 (AConn s0); Replace 0 1 (AConn s0); Connect 1 0 (AConn bi); Disconnect 1 0;
              SetAttr 0 2 ABad; Connect 1 0 (AConn s0)] in
  st_conns (run ops) = [((0, 0), s0); ((0, 2), CObj KAnon 7); ((1, 0), s0)] /\
  back_of s0 (st_back (run ops)) = [(0, 0); (1, 0)] /\
  back_of (CRef 0 0) (st_back (run ops)) = [] /\ back_of nc (st_back (run ops)) = [] /\
  back_of bi (st_back (run ops)) = [] /\ st_handed (run ops) = [(0, 0)] /\
  map (fun o => snd (step (run [SetAttr 0 0 (AConn s0)]) o))
      [Replace 0 1 (AConn s0); Disconnect 0 1; Replace 0 0 ABad; Replace 0 0 (ADict 1); Call 0 [(1, AConn s0); (0, ABad); (2, AConn s0)]]
  = [false; false; false; true; false].
Proof. vm_compute. repeat split. Qed.

Example C04_ex_last_connect :
  forallb (fun o => negb (touches (0, 0) o)) [Connect 0 1 (AConn s0); Disconnect 1 0; GetRef 0 0] = true /\
  norm (ADict 3) = Some (CObj KAnon 3).
Proof. split; reflexivity. Qed.
