(* Props/C05.v — placeholder, replaced below *)
Require Import Hdl21.Base.PyInt Hdl21.Model.C05Naming.
