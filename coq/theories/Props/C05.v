(* Props/C05.v — names invented during elaboration never capture the designer's names.
   Only statements, each closed by a lemma of Proofs/C05Proofs.v (or a short proof from them), with Print Assumptions
   and non-vacuity Examples.  `l` ranges over ALL Module namespaces (any designer names, in particular names equal to
   everything the elaborator builds), `s` over all naming sites, `ops` over ALL finite histories of pass steps
   (pop a dissolved object | invent a name and insert an object), Model/C05Naming.v. *)
From Coq Require Import String Ascii.
Require Import Hdl21.Base.PyInt Hdl21.Spec.BundleSpec Hdl21.Model.BundleFlat Hdl21.Proofs.BundleProofs
               Hdl21.Model.C05Naming Hdl21.Proofs.C05Proofs.
Require Import Hdl21Gen.C10Tables.
Open Scope string_scope.
Open Scope list_scope.
Open Scope Z_scope.

(* 0. why freshness is the whole point: Module insertion has no duplicate check - whatever object held the name,
      afterwards the name denotes the inserted one *)
Theorem C05_add_overwrites n o l k : lookup k (ns_add n o l) = if String.eqb n k then Some o else lookup k l.
Proof. exact (lookup_add k n o l). Qed.
Print Assumptions C05_add_overwrites.

(* 1. every name a naming site of the repaired code returns is unbound in the Module at that moment *)
Theorem C05_fresh s l n : invent s l = Ok n -> lookup n l = None.
Proof. exact (invent_fresh s l n). Qed.
Print Assumptions C05_fresh.

(* 2. a site either returns a fresh name - the plain joined name followed by the LEAST number of underscores that makes it
      free, within the length limit - or raises (EName = flatname's RuntimeError at the length limit). Never a bound name,
      never any other failure (the model's fuel is never exhausted). *)
Theorem C05_total_or_raises s l :
  (exists n k, invent s l = Ok n /\ lookup n l = None /\ Z.of_nat (String.length n) <= flatname_maxlen /\
               n = (join_us (site_segs s) ++ underscores k)%string /\
               forall j, (j < k)%nat -> lookup (join_us (site_segs s) ++ underscores j)%string l <> None) \/
  invent s l = Error EName.
Proof.
  destruct (invent s l) as [n|e] eqn:E.
  - left. destruct (invent_spec _ _ _ E) as [F [L [k [En M]]]]. exists n, k. auto.
  - right. rewrite (invent_err _ _ _ E). reflexivity.
Qed.
Print Assumptions C05_total_or_raises.

(* 2a. it raises only for lack of room: with |plain name| + |namespace| <= limit a name is always found (pigeonhole over
       the candidates name, name_, name__, ...) *)
Theorem C05_total_when_room s l :
  Z.of_nat (String.length (join_us (site_segs s))) + Z.of_nat (List.length l) <= flatname_maxlen -> exists n, invent s l = Ok n.
Proof.
  intros H. unfold invent, invent_v. cbn [site_avoids]. apply flatname_total; [exact maxlen_nonneg|].
  unfold keys. rewrite map_length. exact H.
Qed.
Print Assumptions C05_total_when_room.

(* 2b. no spurious renaming: a plain name that is free (and fits) is used as it is *)
Theorem C05_plain_when_free s l : lookup (join_us (site_segs s)) l = None ->
  Z.of_nat (String.length (join_us (site_segs s))) <= flatname_maxlen -> invent s l = Ok (join_us (site_segs s)).
Proof. exact (invent_plain s l). Qed.
Print Assumptions C05_plain_when_free.

(* 2c. the model's claim "every site hands avoid=module.namespace to flatname" is the regenerated table of the flatname
       calls in hdl21/elab/passes/*.py (tools/translators/05_c05_sites.py), and the table lists no call outside the five sites *)
Theorem C05_sites_pass_namespace s : site_avoids Repaired s = table_avoids (site_func s) /\ table_avoids (site_func s) = true.
Proof. split; [exact (sites_table s)|rewrite <- sites_table; destruct s; reflexivity]. Qed.
Print Assumptions C05_sites_pass_namespace.

Theorem C05_sites_table_complete :
  forallb (fun c => existsb (fun f => String.eqb (fst (fst c)) (fst f))
                            [site_func (SPortRef "" ""); site_func (SNoConn None "" ""); site_func (SNoConnMember None "" "" []); site_func (SFlatMember "" "");
                             site_func (SArrayElem "" 0); site_func (SPairMember "" "")]) Hdl21Gen.C05Sites.c05_flatname_calls = true.
Proof. exact sites_table_complete. Qed.
Print Assumptions C05_sites_table_complete.

(* 3. one pass step: the inserted object is APPENDED under a new key; every existing binding is kept *)
Theorem C05_no_overwrite l s o l' inv : step l (OpInvent s o) = Ok (l', inv) ->
  exists n, inv = [n] /\ lookup n l = None /\ l' = l ++ [(n, o)] /\
            forall k v, lookup k l = Some v -> lookup k l' = Some v.
Proof.
  intros H. destruct (step_invent _ _ _ _ _ H) as [n [_ [Hi [F ->]]]]. exists n. repeat split; try assumption.
  intros k v Hk. rewrite lookup_app, Hk. reflexivity.
Qed.
Print Assumptions C05_no_overwrite.

(* 4. every history of pass steps: no existing object is replaced or shadowed. The only names that stop denoting their
      object are those the passes pop on purpose (the flattened bundle instance, the instance array, the instance bundle) *)
Theorem C05_pass_extends_only ops l l' inv : run l ops = Ok (l', inv) ->
  forall k v, lookup k l = Some v -> ~ In k (popped ops) -> lookup k l' = Some v.
Proof. exact (run_extends_only ops l l' inv). Qed.
Print Assumptions C05_pass_extends_only.

(* 5. an invented name never equals a name bound at the start (unless that object was dissolved before), the invented
      names are pairwise distinct, the namespace keeps unique keys, and it holds nothing but initial and invented bindings *)
Theorem C05_invented_never_designer ops l l' inv n v : run l ops = Ok (l', inv) ->
  In n inv -> lookup n l = Some v -> In n (popped ops).
Proof. intros H. exact (run_invented_new ops l l' inv H n v). Qed.
Print Assumptions C05_invented_never_designer.

Theorem C05_invented_distinct ops l l' inv : run l ops = Ok (l', inv) ->
  (forall n, In n inv -> ~ In n (popped ops)) -> NoDup inv.
Proof. exact (run_invented_NoDup ops l l' inv). Qed.
Print Assumptions C05_invented_distinct.

Theorem C05_namespace_stays_dict ops l l' inv : run l ops = Ok (l', inv) -> NoDup (keys l) -> NoDup (keys l').
Proof. exact (run_NoDup ops l l' inv). Qed.
Print Assumptions C05_namespace_stays_dict.

Theorem C05_final_bindings ops l l' inv k v : run l ops = Ok (l', inv) ->
  lookup k l' = Some v -> lookup k l = Some v \/ In k inv.
Proof. intros H. exact (run_bindings ops l l' inv H k v). Qed.
Print Assumptions C05_final_bindings.

(* 6. connections keep their referent. A connection is exported as the NAME of the object it was made to and read back by
      resolving that name in the Module: after any history the name k of a (not dissolved) designer object v still
      resolves to v, and no invented object is reachable under k. *)
Theorem C05_conns_keep_referent ops l l' inv k v : run l ops = Ok (l', inv) ->
  lookup k l = Some v -> ~ In k (popped ops) ->
  lookup k l' = Some v /\ forall n, In n inv -> n <> k.
Proof.
  intros H Hk Hp. split; [eapply run_extends_only; eassumption|].
  intros n Hn ->. apply Hp. eapply run_invented_new; eassumption.
Qed.
Print Assumptions C05_conns_keep_referent.

(* 7. per site.  Dissolving passes (array elements, instance-bundle members, flattened bundle signals): one name per part,
      pairwise distinct, none bound in the Module before (not even to the dissolved object itself), of the form
      <object>_<part> plus underscores; every other binding kept; the dissolved object's name left unbound. *)
Definition dissolved_ok (b : name) (sites : list site) (l l' : ns) (inv : list name) : Prop :=
  List.length inv = List.length sites /\ NoDup inv /\
  (forall n, In n inv -> lookup n l = None /\ n <> b) /\
  Forall2 (fun s n => exists j, n = (join_us (site_segs s) ++ underscores j)%string) sites inv /\
  (forall k v, k <> b -> lookup k l = Some v -> lookup k l' = Some v) /\
  lookup b l' = None.

Lemma dissolved {A} b (f : A -> site) (g : A -> obj) xs l l' inv :
  (forall x, headed b (f x)) -> run l (OpPop b :: map (fun x => OpInvent (f x) (g x)) xs) = Ok (l', inv) ->
  dissolved_ok b (map f xs) l l' inv.
Proof.
  intros Hh H.
  destruct (dissolve_block b (map (fun x => OpInvent (f x) (g x)) xs) (popped_map_invent f g xs)) with (l := l) (l' := l') (inv := inv)
    as [A1 [A2 [A3 [A4 A5]]]]; [|exact H|].
  - rewrite invents_map_invent. apply Forall_forall. intros s Hs. apply in_map_iff in Hs. destruct Hs as [x [<- _]]. apply Hh.
  - rewrite invents_map_invent in A1. unfold dissolved_ok. repeat split; try assumption; try (apply A3; assumption).
    rewrite <- (invents_map_invent f g xs). eapply run_no_pop_names; [apply popped_map_invent|].
    eapply run_pop_first. exact H.
Qed.

Theorem C05_array_elements arr n id0 l l' inv : run l (array_ops arr n id0) = Ok (l', inv) ->
  dissolved_ok arr (map (fun k => SArrayElem arr (N.of_nat k)) (seq 0 n)) l l' inv.
Proof. unfold array_ops. apply dissolved. intros x. reflexivity. Qed.
Print Assumptions C05_array_elements.

Theorem C05_instbundle_members ib members id0 l l' inv : run l (pair_ops ib members id0) = Ok (l', inv) ->
  dissolved_ok ib (map (fun mk => SPairMember ib (fst mk)) (number members id0)) l l' inv.
Proof. unfold pair_ops. apply dissolved. intros x. reflexivity. Qed.
Print Assumptions C05_instbundle_members.

Theorem C05_flat_bundle_signals b port paths id0 l l' inv : run l (bundle_ops b port paths id0) = Ok (l', inv) ->
  dissolved_ok b (map (fun pk => SFlatMember b (to_name (fst pk))) (number paths id0)) l l' inv.
Proof. unfold bundle_ops. apply dissolved. intros x. reflexivity. Qed.
Print Assumptions C05_flat_bundle_signals.

(* 7a. the bundle step sequence IS the renaming loop of Model/BundleFlat.v (the C10 model of replace_bundle_inst):
       same names, same resulting namespace - so C10_names and this property speak about one algorithm.
       (`l` is the namespace after the bundle instance's own name was popped; List.tl drops that OpPop.) *)
Theorem C05_flat_bundle_is_C10_model b port sc l acc out ks id0 :
  name_scope b flatname_maxlen sc (keys l) acc = Ok (out, ks) ->
  exists l' inv, run l (List.tl (bundle_ops b port (map fst sc) id0)) = Ok (l', inv) /\ keys l' = ks /\ ks = keys l ++ inv.
Proof.
  intros H. destruct (name_scope_is_run b port sc l acc out ks id0 H) as [l' [inv [Hr [Hk Hks]]]].
  exists l', inv. split; [exact Hr|]. split; assumption.
Qed.
Print Assumptions C05_flat_bundle_is_C10_model.

(* 7b. implicit signals behind port references and no-connects (named or not): base name plus the least number of underscores *)
Definition implicit_ok (base : string) (o : obj) (l l' : ns) (inv : list name) : Prop :=
  exists n j, inv = [n] /\ n = (base ++ underscores j)%string /\ lookup n l = None /\ l' = l ++ [(n, o)] /\
              (forall j', (j' < j)%nat -> lookup (base ++ underscores j')%string l <> None) /\
              forall k v, lookup k l = Some v -> lookup k l' = Some v.

Lemma implicit s o l l' inv : run l [OpInvent s o] = Ok (l', inv) -> implicit_ok (join_us (site_segs s)) o l l' inv.
Proof.
  intros H. apply run_cons in H. destruct H as [l1 [i1 [i2 [Hs [Hr ->]]]]]. unfold run in Hr. cbn [run_v] in Hr.
  inversion Hr; subst. rewrite app_nil_r. destruct (step_invent _ _ _ _ _ Hs) as [n [E [-> [F ->]]]].
  destruct (invent_spec _ _ _ E) as [_ [_ [j [En M]]]]. exists n, j. repeat split; try assumption.
  intros k v Hk. rewrite lookup_app, Hk. reflexivity.
Qed.

Theorem C05_portref_source i p o l l' inv : run l (portref_ops i p o) = Ok (l', inv) -> implicit_ok (inst_port i p) o l l' inv.
Proof. exact (implicit (SPortRef i p) o l l' inv). Qed.
Print Assumptions C05_portref_source.

Theorem C05_noconn nm i p o l l' inv : run l (noconn_ops nm i p o) = Ok (l', inv) ->
  implicit_ok (match nm with Some x => x | None => inst_port i p end) o l l' inv.
Proof. intros H. apply implicit in H. destruct nm; exact H. Qed.
Print Assumptions C05_noconn.

(* 7c. the sixth naming site: a no-connect (named or not) on a bundle-valued port of an Instance Array - one new Signal per member
       path.  One name per member, pairwise distinct, none bound in the Module before, of the form <no-connect or inst_port>_<path>
       plus underscores; every existing binding kept.  (A fresh prefix alone would not give this: the designer may hold <prefix>_<member>.) *)
Theorem C05_noconn_array_bundle nm i p paths id0 l l' inv : run l (noconn_member_ops nm i p paths id0) = Ok (l', inv) ->
  List.length inv = List.length paths /\ NoDup inv /\ (forall n, In n inv -> lookup n l = None) /\
  Forall2 (fun s n => exists j, n = (join_us (site_segs s) ++ underscores j)%string)
          (map (fun pk => SNoConnMember nm i p (fst pk)) (number paths id0)) inv /\
  forall k v, lookup k l = Some v -> lookup k l' = Some v.
Proof.
  unfold noconn_member_ops. intros H.
  pose proof (popped_map_invent (fun pk : list name * N => SNoConnMember nm i p (fst pk))
                                (fun pk : list name * N => {| o_kind := KSig; o_id := snd pk |}) (number paths id0)) as Hp.
  pose proof (run_no_pop_names _ Hp _ _ _ H) as F2. rewrite invents_map_invent in F2.
  split; [rewrite <- (number_length paths id0), <- (map_length (fun pk : list name * N => SNoConnMember nm i p (fst pk)));
          symmetry; eapply Forall2_length'; exact F2|].
  split; [eapply run_invented_NoDup; [exact H|rewrite Hp; intros n _ []]|].
  split.
  { intros n Hn. destruct (lookup n l) as [v|] eqn:L; [|reflexivity]. exfalso.
    pose proof (run_invented_new _ _ _ _ H n v Hn L) as Q. rewrite Hp in Q. destruct Q. }
  split; [exact F2|].
  intros k v L. eapply run_extends_only; [exact H|exact L|rewrite Hp; intros []].
Qed.
Print Assumptions C05_noconn_array_bundle.

Example C05_noconn_array_bundle_witness :
  run [("arr_b_x", {| o_kind := KSig; o_id := 1 |}); ("nc", {| o_kind := KSig; o_id := 2 |})]
      (noconn_member_ops None "arr" "b" [["x"]; ["c"; "y"]] 5 ++ noconn_member_ops (Some "nc") "arr" "d" [["x"]] 7)
  = Ok ([("arr_b_x", {| o_kind := KSig; o_id := 1 |}); ("nc", {| o_kind := KSig; o_id := 2 |}); ("arr_b_x_", {| o_kind := KSig; o_id := 5 |});
         ("arr_b_c_y", {| o_kind := KSig; o_id := 6 |}); ("nc_x", {| o_kind := KSig; o_id := 7 |})], ["arr_b_x_"; "arr_b_c_y"; "nc_x"]).
Proof. vm_compute. reflexivity. Qed.

(* 8. the pinned tree (a5cab93): replace_noconn used a no-connect's own name as it was.  The same statements are FALSE for
      that code: NoConn(name="x") beside a signal x re-binds x - the designer's signal is gone from the namespace and every
      connection written to "x" now reads the no-connect's signal (witness replayed on the implementation: corpus stream). *)
Theorem C05_noconn_pinned_refuted : exists l i p o old l' inv,
  lookup "x" l = Some old /\ run_v Pinned l (noconn_ops (Some "x") i p o) = Ok (l', inv) /\
  lookup "x" l' = Some o /\ o <> old /\ inv = ["x"].
Proof.
  exists [("x", {| o_kind := KSig; o_id := 1 |}); ("i0", {| o_kind := KInst; o_id := 2 |})], "i0", "a",
         {| o_kind := KSig; o_id := 3 |}, {| o_kind := KSig; o_id := 1 |}.
  eexists. eexists. split; [reflexivity|]. split; [vm_compute; reflexivity|]. split; [reflexivity|]. split; [discriminate|reflexivity].
Qed.
Print Assumptions C05_noconn_pinned_refuted.

(* ... and the repaired code on the same input *)
Example C05_noconn_repaired_witness :
  run [("x", {| o_kind := KSig; o_id := 1 |}); ("i0", {| o_kind := KInst; o_id := 2 |})]
      (noconn_ops (Some "x") "i0" "a" {| o_kind := KSig; o_id := 3 |})
  = Ok ([("x", {| o_kind := KSig; o_id := 1 |}); ("i0", {| o_kind := KInst; o_id := 2 |}); ("x_", {| o_kind := KSig; o_id := 3 |})], ["x_"]).
Proof. vm_compute. reflexivity. Qed.

(* ---- non-vacuity: an adversarial Module in which the designer already uses every name the passes would build ---- *)
Definition adv_ns : ns :=
  [("i0_a", {| o_kind := KSig; o_id := 1 |}); ("i0_a_", {| o_kind := KPort; o_id := 2 |}); ("arr_0", {| o_kind := KInst; o_id := 3 |});
   ("arr_1_", {| o_kind := KSig; o_id := 4 |}); ("b_x", {| o_kind := KSig; o_id := 5 |}); ("pr_p", {| o_kind := KInst; o_id := 6 |});
   ("arr", {| o_kind := KArr; o_id := 7 |}); ("b", {| o_kind := KBun; o_id := 8 |}); ("pr", {| o_kind := KPair; o_id := 9 |});
   ("nc", {| o_kind := KSig; o_id := 10 |})].

Definition adv_ops : list op :=
  pair_ops "pr" ["p"; "n"] 20 ++ portref_ops "i0" "a" {| o_kind := KSig; o_id := 30 |} ++
  noconn_ops (Some "nc") "i1" "b" {| o_kind := KSig; o_id := 31 |} ++ noconn_ops None "i0" "a" {| o_kind := KSig; o_id := 32 |} ++
  bundle_ops "b" false [["x"]; ["y"]] 40 ++ array_ops "arr" 2 50.

Example C05_adversarial_history :
  match run adv_ns adv_ops with
  | Ok (l', inv) => inv = ["pr_p_"; "pr_n"; "i0_a__"; "nc_"; "i0_a___"; "b_x_"; "b_y"; "arr_0_"; "arr_1"] /\
                    lookup "i0_a" l' = Some {| o_kind := KSig; o_id := 1 |} /\ lookup "arr_0" l' = Some {| o_kind := KInst; o_id := 3 |}
  | Error _ => False
  end.
Proof. vm_compute. repeat split. Qed.

Example C05_hypotheses_satisfiable : exists l' inv, run adv_ns adv_ops = Ok (l', inv) /\ NoDup (keys adv_ns).
Proof.
  destruct (run adv_ns adv_ops) as [[l' inv]|e] eqn:E; [|vm_compute in E; discriminate].
  exists l', inv. split; [reflexivity|]. apply snodup_NoDup. vm_compute. reflexivity.
Qed.

Example C05_raises_at_the_limit :
  flatname ["n"] ["n"; "n_"] 2 = Error EName /\ flatname ["n"] ["n"; "n_"] 3 = Ok "n__".
Proof. split; vm_compute; reflexivity. Qed.
