(* Props/C13.v — parameter values reach the package unchanged (statements; proofs in Proofs/C13Proofs.v). *)
From Coq Require Import String Ascii.
Require Import Hdl21.Base.PyInt Hdl21.Base.Dec Hdl21.Model.Prefixed Hdl21.Model.C13Params Hdl21.Spec.C13Spec.
Open Scope Z_scope.
