(* Props/C13.v — Parameter values reach the package unchanged.
   Statements only; proofs in Proofs/C13Proofs.v.  Model: Model/C13Params.v (to_scalar, Decimal(str), str(Decimal),
   export_param_value, export_prefixed, export_params, export_instance of the REPAIRED tree); specification:
   Spec/C13Spec.v (`expected kind v` = what must be observable for a value v given to a parameter of kind `kind`,
   `shows x pv` = the exported ParamValue pv shows it; SI prefixes and the documented VLSIR names are hand-written there).
   Tables (Prefix members, prefix map, primitive registry, ideal-primitive map, pulse renaming, documented VLSIR parameter
   names) are the GENERATED ones. *)
From Coq Require Import String Ascii.
Require Import Hdl21.Base.PyInt Hdl21.Base.Dec Hdl21.Model.Prefixed Hdl21.Model.C13Params Hdl21.Spec.C13Spec.
Require Import Hdl21.Proofs.C13Proofs.
Require Import Hdl21Gen.PrefixTable Hdl21Gen.PrefixMaps Hdl21Gen.C13Tables.
Open Scope list_scope.
Open Scope Z_scope.

(* 0. the regenerated tables are adequate: every Prefix member is exported to the SIPrefix of the same power of ten; every
      IDEAL primitive of the registry is mapped to its documented VLSIR element, its exported parameter names are documented
      parameters of that element, pairwise different, and (pulse source) every field is exported under its documented name;
      PHYSICAL primitives are not renamed *)
Theorem C13_tables_adequate : forallb prefix_ok prefix_table = true /\ forallb prim_row_ok c13_prims = true.
Proof. split; [exact prefix_table_ok|exact prim_table_ok]. Qed.
Print Assumptions C13_tables_adequate.

Theorem C13_prefix_exact q : is_prefix q = true -> exists n, export_prefix q = Ok n /\ si_exponent n = Some q.
Proof. exact (export_prefix_exact q). Qed.
Print Assumptions C13_prefix_exact.

Theorem C13_prim_param_renaming row : In row c13_prims -> prim_row_ok row = true.
Proof. intros H. pose proof prim_table_ok as T. rewrite forallb_forall in T. exact (T row H). Qed.
Print Assumptions C13_prim_param_renaming.

(* 1. str(Decimal) followed by Decimal(str) is the identity on EVERY finite decimal: sign, every digit of a coefficient
      of any length, any exponent.  (This is what makes the string variant and the Decimal-as-literal export exact.) *)
Theorem C13_decimal_text_roundtrip d : exists s, dec_to_string d = Some s /\ numeric s = Some d.
Proof. exact (dec_roundtrip d). Qed.
Print Assumptions C13_decimal_text_roundtrip.

(* 2. a prefixed number with any coefficient, any exponent and each member of Prefix is always exported; the exported
      prefix denotes the same power of ten and the exported number denotes exactly the same value *)
Theorem C13_prefixed_digits_exact p : pwf p = true ->
  exists pv, export_prefixed p = Ok pv /\ shows (XPrefixed (number p) (prefix p)) pv = true.
Proof. exact (export_prefixed_shows p). Qed.
Print Assumptions C13_prefixed_digits_exact.

(*    ... and an integral value beyond 64 bits takes the string variant, which reads back as the identical Decimal *)
Theorem C13_prefixed_beyond_int64 p : pwf p = true -> is_integral (number p) = true -> int64_ok (dtrunc (number p)) = false ->
  exists s pre, export_prefixed p = Ok (PVPrefixed (NString s) pre) /\ numeric s = Some (number p) /\ si_exponent pre = Some (prefix p).
Proof. exact (export_prefixed_big p). Qed.
Print Assumptions C13_prefixed_beyond_int64.

(*    the pinned tree's export_prefixed does not have this property (DESIGN 7 #16): witness 1E+30 * UNIT *)
Theorem C13_pinned_refuted : exists p, pwf p = true /\ export_prefixed_pinned p = Error EOther.
Proof. exists (mkP (mkDec false 1 30) 0). split; vm_compute; reflexivity. Qed.
Print Assumptions C13_pinned_refuted.

(* 3. every value inside the quantifier, given to a parameter of kind Scalar (0), Optional[Scalar] (1) or stored as given (>= 4:
      dict entries and other field types), is accepted by construction and export, and the exported ParamValue shows it:
      None is omitted, strings / literals / string enums are literals with the same text, ints and floats are the same
      int64 / double, a Decimal is a literal that reads back as the identical Decimal, a prefixed number keeps prefix and
      value, and a Scalar-typed parameter shows the prefixed number with the decimal value of the int / float repr /
      Decimal / numeric string, or the literal with the text of any other string *)
Theorem C13_param_preserved kind v :
  value_wf v = true -> is_free (expected kind v) = false -> unrepresentable (expected kind v) = false -> kind <> 2 -> kind <> 3 ->
  exists x o, store kind v = Ok x /\ export_param_value x = Ok o /\
              match o with None => expected kind v = XOmit | Some pv => shows (expected kind v) pv = true end.
Proof. exact (param_preserved kind v). Qed.
Print Assumptions C13_param_preserved.

(*    the same for the fields modelled on well-typed arguments only: Optional[str] (2) and string enums (3) *)
Theorem C13_param_preserved_str_enum v : (v = VNone \/ (exists s, v = VStr s) \/ exists s, v = VEnum (Some s)) ->
  exists o, store 2 v = (match v with VEnum _ => Error EBadKind | _ => Ok v end) /\
            store 3 v = (match v with VEnum _ => Ok v | _ => Error EBadKind end) /\
            export_param_value v = Ok o /\
            match o with None => expected 2 v = XOmit /\ expected 3 v = XOmit
                       | Some pv => shows (expected 2 v) pv = true /\ shows (expected 3 v) pv = true end.
Proof.
  intros [->|[[s ->]|[s ->]]].
  - exists None. repeat split.
  - exists (Some (PVLiteral s)). repeat split; cbn; apply str_eqb_refl.
  - exists (Some (PVLiteral s)). repeat split; cbn; apply str_eqb_refl.
Qed.
Print Assumptions C13_param_preserved_str_enum.

(*    an int beyond 64 bits, which no ParamValue can hold, is refused — never altered *)
Theorem C13_unrepresentable_refused v : unrepresentable (expected 4 v) = true -> exists e, export_param_value v = Error e.
Proof. exact (export_value_refuses v). Qed.
Print Assumptions C13_unrepresentable_refused.

(* 4. the parameter loop: None-valued parameters are omitted; every other parameter appears under its own name, once,
      in the order given, carrying the export of its value *)
Theorem C13_params_names_order ps r : export_params ps = Ok r ->
  Forall2 (fun kv kp => fst kv = fst kp /\ export_param_value (snd kv) = Ok (Some (snd kp)))
          (filter (fun kv => negb (is_none (snd kv))) ps) r.
Proof. exact (export_params_spec ps r). Qed.
Print Assumptions C13_params_names_order.

(* 5. Scalar conversion *)
Theorem C13_to_scalar_value :
  (forall s d, numeric s = Some d -> to_scalar (VStr s) = Ok (VPrefixed (mkP d 0))) /\
  (forall z, to_scalar (VInt z) = Ok (VPrefixed (mkP (of_int z 0) 0))) /\
  (forall d, to_scalar (VDecimal d) = Ok (VPrefixed (mkP d 0))) /\
  (forall b r d, float_finite b = true -> numeric r = Some d -> to_scalar (VFloat b r) = Ok (VPrefixed (mkP d 0))) /\
  (forall d, deqb (pval (mkP d 0)) d = true /\ is_prefix 0 = true).
Proof.
  split; [|split; [|split; [|split]]].
  - intros s d H. unfold to_scalar, numeric, unit_pfx in *. rewrite H, unit_prefix_0. reflexivity.
  - intros z. unfold to_scalar, unit_pfx. rewrite unit_prefix_0. reflexivity.
  - intros d. unfold to_scalar, unit_pfx. rewrite unit_prefix_0. reflexivity.
  - intros b r d F H. unfold to_scalar, numeric, unit_pfx in *. rewrite F, H, unit_prefix_0. reflexivity.
  - intros d. split; [|exact is_prefix_0]. unfold pval. cbn [number prefix]. rewrite deqb_scale0. apply deqb_refl.
Qed.
Print Assumptions C13_to_scalar_value.

Theorem C13_to_scalar_literal s : numeric s = None -> to_scalar (VStr s) = Ok (VLit s).
Proof. intros H. unfold to_scalar, numeric in *. rewrite H. reflexivity. Qed.
Print Assumptions C13_to_scalar_literal.

(* ---- non-vacuity *)
Example C13_ex_big : export_prefixed (mkP (mkDec false 1 30) 0) = Ok (PVPrefixed (NString (of_string "1E+30")) "UNIT").
Proof. vm_compute. reflexivity. Qed.
Example C13_ex_big_hyps : let p := mkP (mkDec false 123456789012345678901234567890 0) (-9) in
  pwf p = true /\ is_integral (number p) = true /\ int64_ok (dtrunc (number p)) = false.
Proof. vm_compute. repeat split. Qed.
Example C13_ex_sixty : export_prefixed (mkP (mkDec true 123456789012345678901234567890123456789012345678901234567890 (-40)) 24)
  = Ok (PVPrefixed (NString (of_string "-12345678901234567890.1234567890123456789012345678901234567890")) "YOTTA").
Proof. vm_compute. reflexivity. Qed.
Example C13_ex_numeric : numeric (of_string " 1_000 ") = Some (mkDec false 1000 0) /\ numeric (of_string "1e3") = Some (mkDec false 1 3)
  /\ numeric (of_string "nan") = None /\ numeric (of_string "") = None /\ numeric (of_string "1 000") = None.
Proof. vm_compute. repeat split. Qed.
Example C13_ex_param_hyps : let v := VStr (of_string "-2.50e-7") in
  value_wf v = true /\ is_free (expected 0 v) = false /\ unrepresentable (expected 0 v) = false.
Proof. vm_compute. repeat split. Qed.
Example C13_ex_omit : export_params [(of_string "w", VInt 3); (of_string "l", VNone); (of_string "m", VStr (of_string "nch"))]
  = Ok [(of_string "w", PVInt64 3); (of_string "m", PVLiteral (of_string "nch"))].
Proof. vm_compute. reflexivity. Qed.
Example C13_ex_pulse : export_instance (mkCall (TPrim "PulseVoltageSource")
    (map (fun n => (of_string n, 1, if String.eqb n "delay" then VInt 5 else VNone)) ["delay"; "v1"; "v2"; "period"; "rise"; "fall"; "width"]%string))
  = Ok (of_string "vlsir.primitives", of_string "vpulse", [(of_string "td", PVPrefixed (NInt64 5) "UNIT")]).
Proof. vm_compute. reflexivity. Qed.

(* ================================================================== strengthening round: values that pass SEVERAL of the
   isinstance tests of export_param_value / to_scalar (members of `class Corner(str, Enum)`, IntEnum members, bools,
   subclass instances, ...).  Model/C13Dispatch.v: `pyobj` = which base classes the object is an instance of and the content
   each gives it; the if-chains are `first_match` over an explicit list of tests.  Spec/C13Overlap.v: `expected_obj kind o` =
   (refusal admissible, what must be observable): the common reading of all facets, no requirement if they differ. *)
Require Import Hdl21.Model.C13Dispatch Hdl21.Spec.C13Overlap Hdl21.Proofs.C13OverlapProofs.

(* 6. the dispatch of export_param_value, first matching test wins: None, str, Enum, Literal, Prefixed, Decimal, int, float, TypeError *)
Theorem C13_dispatch_first_match o :
  export_param_value_obj o =
  export_param_value
    (if o_none o then VNone else
     match o_str o with Some s => VStr s | None =>
     match o_enum o with Some e => VEnum e | None =>
     match o_lit o with Some s => VLit s | None =>
     match o_pre o with Some p => VPrefixed p | None =>
     match o_dec o with Some d => VDecimal d | None =>
     match o_int o with Some (z, _) => VInt z | None =>
     match o_flt o with Some (b, r) => VFloat b r | None => VOther end end end end end end end).
Proof.
  unfold export_param_value_obj, export_view, export_order. cbn [first_match].
  unfold br_none, br_str, br_enum, br_lit, br_pre, br_dec, br_int, br_flt.
  destruct (o_none o); [reflexivity|]. destruct (o_str o); [reflexivity|]. destruct (o_enum o); [reflexivity|].
  destruct (o_lit o); [reflexivity|]. destruct (o_pre o); [reflexivity|]. destruct (o_dec o); [reflexivity|].
  destruct (o_int o) as [[z b]|]; [reflexivity|]. destruct (o_flt o) as [[b r]|]; reflexivity.
Qed.
Print Assumptions C13_dispatch_first_match.

(* 7. EVERY object, whatever combination of facets it has, given to a parameter of kind Scalar (0), Optional[Scalar] (1) or stored
      as given (>= 4): if its facets have a common reading that the format can hold, construction + export show exactly that
      reading — or, only where the specification admits it (an Enum member whose value is not a string; a bool handed to a
      Scalar), the object is refused.  Never altered. *)
Theorem C13_overlap_preserved kind o : obj_wf o = true -> kind <> 2 -> kind <> 3 ->
  is_free (snd (expected_obj kind o)) = false -> unrepresentable (snd (expected_obj kind o)) = false ->
  (exists st ov, store_obj kind o = Ok st /\ export_param_value_obj st = Ok ov /\
                 match ov with None => snd (expected_obj kind o) = XOmit | Some pv => shows (snd (expected_obj kind o)) pv = true end)
  \/ (fst (expected_obj kind o) = true /\
      ((exists e, store_obj kind o = Error e) \/ exists st e, store_obj kind o = Ok st /\ export_param_value_obj st = Error e)).
Proof. exact (obj_preserved kind o). Qed.
Print Assumptions C13_overlap_preserved.

(*    the same for a field typed by the object's own Enum class (kind 3): a member whose value is a string is never refused *)
Theorem C13_overlap_enum_field o s : obj_wf o = true -> o_enum o = Some (Some s) ->
  is_free (snd (expected_obj 3 o)) = false -> unrepresentable (snd (expected_obj 3 o)) = false ->
  exists ov, store_obj 3 o = Ok o /\ export_param_value_obj o = Ok ov /\
             match ov with None => snd (expected_obj 3 o) = XOmit | Some pv => shows (snd (expected_obj 3 o)) pv = true end.
Proof. exact (enum_field_preserved o s). Qed.
Print Assumptions C13_overlap_enum_field.

(*    the property does not depend on the order of the eight tests: for ANY re-ordering of the chain the value handed to the
      branch bodies is exported so that it shows the common reading, or is the non-string Enum member (refused) *)
Theorem C13_overlap_any_order bs o x : reordering bs -> obj_wf o = true ->
  agree (readings 4 (facets o)) = x -> is_free x = false -> unrepresentable x = false ->
  (exists ov, export_param_value (first_match bs o) = Ok ov /\ match ov with None => x = XOmit | Some pv => shows x pv = true end)
  \/ (refusable_given o = true /\ first_match bs o = VEnum None).
Proof. exact (given_preserved_any_order bs o x). Qed.
Print Assumptions C13_overlap_any_order.

(*    a common reading that no ParamValue can hold (an int beyond 64 bits, whatever else the object is): refused *)
Theorem C13_overlap_unrepresentable_refused o : unrepresentable (snd (expected_obj 4 o)) = true ->
  exists e, export_param_value_obj o = Error e.
Proof. intros U. exact (given_refuses o _ eq_refl U). Qed.
Print Assumptions C13_overlap_unrepresentable_refused.

(*    on one-facet objects all of this is the specification and the model of the plain values *)
Theorem C13_overlap_conservative kind v :
  snd (expected_obj kind (as_obj v)) = expected kind v /\ export_param_value_obj (as_obj v) = export_param_value v.
Proof. split; [exact (expected_obj_plain kind v)|exact (export_obj_plain v)]. Qed.
Print Assumptions C13_overlap_conservative.

(* 8. per overlapping class *)
(*    a member of `class Corner(str, Enum)` (the str it is and its value are the same text s): the literal s, as a dict entry /
      Any-typed field, in a field typed by its own class, and in an Optional[str] field; given to a Scalar it is read as the string *)
Definition str_enum (s : str) : pyobj := mkObj false (Some s) (Some (Some s)) None None None None None.
Theorem C13_str_enum_preserved s :
  expected_obj 4 (str_enum s) = (false, XLiteral s) /\
  export_param_value_obj (str_enum s) = Ok (Some (PVLiteral s)) /\
  store_obj 4 (str_enum s) = Ok (str_enum s) /\ store_obj 3 (str_enum s) = Ok (str_enum s) /\
  store_obj 2 (str_enum s) = Ok (as_obj (VStr s)) /\
  to_scalar_obj (str_enum s) = fresh (VStr s).
Proof.
  repeat split. unfold expected_obj, given, facets, readings, str_enum. cbn. rewrite str_eqb_refl. reflexivity.
Qed.
Print Assumptions C13_str_enum_preserved.

(*    an IntEnum member: the Enum test comes before the int test and its value is no string — refused as given (never exported
      as something else); handed to a Scalar it is the prefixed number of its integer value *)
Definition int_enum (z : Z) : pyobj := mkObj false None (Some None) None None None (Some (z, false)) None.
Theorem C13_int_enum z :
  expected_obj 4 (int_enum z) = (true, XInt z) /\ export_param_value_obj (int_enum z) = Error EBadKind /\
  to_scalar_obj (int_enum z) = Ok (as_obj (VPrefixed (mkP (of_int z 0) 0))).
Proof. repeat split. Qed.
Print Assumptions C13_int_enum.

(*    ... so the ORDER of the tests is observable: with int asked before Enum the same object would be exported *)
Theorem C13_dispatch_order_matters : exists o bs, reordering bs /\
  export_param_value_obj o = Error EBadKind /\ export_param_value (first_match bs o) = Ok (Some (PVInt64 7)).
Proof.
  exists (int_enum 7), [br_none; br_str; br_int; br_enum; br_lit; br_pre; br_dec; br_flt]. split; [|split; reflexivity].
  split; intros b H; cbn in H |- *; tauto.
Qed.
Print Assumptions C13_dispatch_order_matters.

(*    True / False are ints: exported as the int64 1 / 0; a Scalar refuses them *)
Definition py_bool (b : bool) : pyobj := mkObj false None None None None None (Some (if b then 1 else 0, true)) None.
Theorem C13_bool b :
  export_param_value_obj (py_bool b) = Ok (Some (PVInt64 (if b then 1 else 0))) /\
  expected_obj 4 (py_bool b) = (false, XInt (if b then 1 else 0)) /\
  (exists e, to_scalar_obj (py_bool b) = Error e) /\ fst (expected_obj 0 (py_bool b)) = true.
Proof. destruct b; repeat split; eexists; reflexivity. Qed.
Print Assumptions C13_bool.

(* ---- non-vacuity *)
Example C13_ex_corner : let o := str_enum (of_string "ff_n40C_1v95") in
  obj_wf o = true /\ expected_obj 3 o = (false, XLiteral (of_string "ff_n40C_1v95")) /\
  export_param_value_obj o = Ok (Some (PVLiteral (of_string "ff_n40C_1v95"))).
Proof. vm_compute. repeat split. Qed.
Example C13_ex_overlap_hyps : let o := mkObj false (Some (of_string "1e3")) (Some (Some (of_string "1e3"))) None None None None None in
  obj_wf o = true /\ is_free (snd (expected_obj 0 o)) = false /\ unrepresentable (snd (expected_obj 0 o)) = false /\
  snd (expected_obj 0 o) = XValue (mkDec false 1 3).
Proof. vm_compute. repeat split. Qed.
(* the readings differ (the str part and the Enum value are different texts): no requirement; the code takes the str part *)
Example C13_ex_conflict : let o := mkObj false (Some (of_string "a")) (Some (Some (of_string "b"))) None None None None None in
  snd (expected_obj 4 o) = XFree /\ export_param_value_obj o = Ok (Some (PVLiteral (of_string "a"))).
Proof. vm_compute. repeat split. Qed.
(* a str subclass that is also a Literal, both texts equal, given to a Scalar: passed as it is, exported through the str test *)
Example C13_ex_str_literal : let o := mkObj false (Some (of_string "w/5")) None (Some (of_string "w/5")) None None None None in
  to_scalar_obj o = Ok o /\ expected_obj 0 o = (false, XLiteral (of_string "w/5")) /\
  export_param_value_obj o = Ok (Some (PVLiteral (of_string "w/5"))).
Proof. vm_compute. repeat split. Qed.
Example C13_ex_reordering : reordering [br_flt; br_int; br_dec; br_pre; br_lit; br_enum; br_str; br_none].
Proof. split; intros b H; cbn in H |- *; tauto. Qed.
Example C13_ex_overlap_big : let o := mkObj false None (Some None) None None None (Some (9223372036854775808, false)) None in
  unrepresentable (snd (expected_obj 4 o)) = true /\ export_param_value_obj o = Error EBadKind.
Proof. vm_compute. repeat split. Qed.
