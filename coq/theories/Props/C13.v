(* Props/C13.v — Parameter values reach the package unchanged.
   Statements only; proofs in Proofs/C13Proofs.v.  Model: Model/C13Params.v (to_scalar, Decimal(str), str(Decimal),
   export_param_value, export_prefixed, export_params, export_instance of the REPAIRED tree); specification:
   Spec/C13Spec.v (`expected kind v` = what must be observable for a value v given to a parameter of kind `kind`,
   `shows x pv` = the exported ParamValue pv shows it; SI prefixes and the documented VLSIR names are hand-written there).
   Tables (Prefix members, prefix map, primitive registry, ideal-primitive map, pulse renaming, documented VLSIR parameter
   names) are the GENERATED ones. *)
From Coq Require Import String Ascii.
Require Import Hdl21.Base.PyInt Hdl21.Base.Dec Hdl21.Model.Prefixed Hdl21.Model.C13Params Hdl21.Spec.C13Spec.
Require Import Hdl21.Proofs.C13Proofs.
Require Import Hdl21Gen.PrefixTable Hdl21Gen.PrefixMaps Hdl21Gen.C13Tables.
Open Scope list_scope.
Open Scope Z_scope.

(* 0. the regenerated tables are adequate: every Prefix member is exported to the SIPrefix of the same power of ten; every
      IDEAL primitive of the registry is mapped to its documented VLSIR element, its exported parameter names are documented
      parameters of that element, pairwise different, and (pulse source) every field is exported under its documented name;
      PHYSICAL primitives are not renamed *)
Theorem C13_tables_adequate : forallb prefix_ok prefix_table = true /\ forallb prim_row_ok c13_prims = true.
Proof. split; [exact prefix_table_ok|exact prim_table_ok]. Qed.
Print Assumptions C13_tables_adequate.

Theorem C13_prefix_exact q : is_prefix q = true -> exists n, export_prefix q = Ok n /\ si_exponent n = Some q.
Proof. exact (export_prefix_exact q). Qed.
Print Assumptions C13_prefix_exact.

Theorem C13_prim_param_renaming row : In row c13_prims -> prim_row_ok row = true.
Proof. intros H. pose proof prim_table_ok as T. rewrite forallb_forall in T. exact (T row H). Qed.
Print Assumptions C13_prim_param_renaming.

(* 1. str(Decimal) followed by Decimal(str) is the identity on EVERY finite decimal: sign, every digit of a coefficient
      of any length, any exponent.  (This is what makes the string variant and the Decimal-as-literal export exact.) *)
Theorem C13_decimal_text_roundtrip d : exists s, dec_to_string d = Some s /\ numeric s = Some d.
Proof. exact (dec_roundtrip d). Qed.
Print Assumptions C13_decimal_text_roundtrip.

(* 2. a prefixed number with any coefficient, any exponent and each member of Prefix is always exported; the exported
      prefix denotes the same power of ten and the exported number denotes exactly the same value *)
Theorem C13_prefixed_digits_exact p : pwf p = true ->
  exists pv, export_prefixed p = Ok pv /\ shows (XPrefixed (number p) (prefix p)) pv = true.
Proof. exact (export_prefixed_shows p). Qed.
Print Assumptions C13_prefixed_digits_exact.

(*    ... and an integral value beyond 64 bits takes the string variant, which reads back as the identical Decimal *)
Theorem C13_prefixed_beyond_int64 p : pwf p = true -> is_integral (number p) = true -> int64_ok (dtrunc (number p)) = false ->
  exists s pre, export_prefixed p = Ok (PVPrefixed (NString s) pre) /\ numeric s = Some (number p) /\ si_exponent pre = Some (prefix p).
Proof. exact (export_prefixed_big p). Qed.
Print Assumptions C13_prefixed_beyond_int64.

(*    the pinned tree's export_prefixed does not have this property (DESIGN 7 #16): witness 1E+30 * UNIT *)
Theorem C13_pinned_refuted : exists p, pwf p = true /\ export_prefixed_pinned p = Error EOther.
Proof. exists (mkP (mkDec false 1 30) 0). split; vm_compute; reflexivity. Qed.
Print Assumptions C13_pinned_refuted.

(* 3. every value inside the quantifier, given to a parameter of kind Scalar (0), Optional[Scalar] (1) or stored as given (>= 4:
      dict entries and other field types), is accepted by construction and export, and the exported ParamValue shows it:
      None is omitted, strings / literals / string enums are literals with the same text, ints and floats are the same
      int64 / double, a Decimal is a literal that reads back as the identical Decimal, a prefixed number keeps prefix and
      value, and a Scalar-typed parameter shows the prefixed number with the decimal value of the int / float repr /
      Decimal / numeric string, or the literal with the text of any other string *)
Theorem C13_param_preserved kind v :
  value_wf v = true -> is_free (expected kind v) = false -> unrepresentable (expected kind v) = false -> kind <> 2 -> kind <> 3 ->
  exists x o, store kind v = Ok x /\ export_param_value x = Ok o /\
              match o with None => expected kind v = XOmit | Some pv => shows (expected kind v) pv = true end.
Proof. exact (param_preserved kind v). Qed.
Print Assumptions C13_param_preserved.

(*    the same for the fields modelled on well-typed arguments only: Optional[str] (2) and string enums (3) *)
Theorem C13_param_preserved_str_enum v : (v = VNone \/ (exists s, v = VStr s) \/ exists s, v = VEnum (Some s)) ->
  exists o, store 2 v = (match v with VEnum _ => Error EBadKind | _ => Ok v end) /\
            store 3 v = (match v with VEnum _ => Ok v | _ => Error EBadKind end) /\
            export_param_value v = Ok o /\
            match o with None => expected 2 v = XOmit /\ expected 3 v = XOmit
                       | Some pv => shows (expected 2 v) pv = true /\ shows (expected 3 v) pv = true end.
Proof.
  intros [->|[[s ->]|[s ->]]].
  - exists None. repeat split.
  - exists (Some (PVLiteral s)). repeat split; cbn; apply str_eqb_refl.
  - exists (Some (PVLiteral s)). repeat split; cbn; apply str_eqb_refl.
Qed.
Print Assumptions C13_param_preserved_str_enum.

(*    an int beyond 64 bits, which no ParamValue can hold, is refused — never altered *)
Theorem C13_unrepresentable_refused v : unrepresentable (expected 4 v) = true -> exists e, export_param_value v = Error e.
Proof. exact (export_value_refuses v). Qed.
Print Assumptions C13_unrepresentable_refused.

(* 4. the parameter loop: None-valued parameters are omitted; every other parameter appears under its own name, once,
      in the order given, carrying the export of its value *)
Theorem C13_params_names_order ps r : export_params ps = Ok r ->
  Forall2 (fun kv kp => fst kv = fst kp /\ export_param_value (snd kv) = Ok (Some (snd kp)))
          (filter (fun kv => negb (is_none (snd kv))) ps) r.
Proof. exact (export_params_spec ps r). Qed.
Print Assumptions C13_params_names_order.

(* 5. Scalar conversion *)
Theorem C13_to_scalar_value :
  (forall s d, numeric s = Some d -> to_scalar (VStr s) = Ok (VPrefixed (mkP d 0))) /\
  (forall z, to_scalar (VInt z) = Ok (VPrefixed (mkP (of_int z 0) 0))) /\
  (forall d, to_scalar (VDecimal d) = Ok (VPrefixed (mkP d 0))) /\
  (forall b r d, float_finite b = true -> numeric r = Some d -> to_scalar (VFloat b r) = Ok (VPrefixed (mkP d 0))) /\
  (forall d, deqb (pval (mkP d 0)) d = true /\ is_prefix 0 = true).
Proof.
  split; [|split; [|split; [|split]]].
  - intros s d H. unfold to_scalar, numeric, unit_pfx in *. rewrite H, unit_prefix_0. reflexivity.
  - intros z. unfold to_scalar, unit_pfx. rewrite unit_prefix_0. reflexivity.
  - intros d. unfold to_scalar, unit_pfx. rewrite unit_prefix_0. reflexivity.
  - intros b r d F H. unfold to_scalar, numeric, unit_pfx in *. rewrite F, H, unit_prefix_0. reflexivity.
  - intros d. split; [|exact is_prefix_0]. unfold pval. cbn [number prefix]. rewrite deqb_scale0. apply deqb_refl.
Qed.
Print Assumptions C13_to_scalar_value.

Theorem C13_to_scalar_literal s : numeric s = None -> to_scalar (VStr s) = Ok (VLit s).
Proof. intros H. unfold to_scalar, numeric in *. rewrite H. reflexivity. Qed.
Print Assumptions C13_to_scalar_literal.

(* ---- non-vacuity *)
Example C13_ex_big : export_prefixed (mkP (mkDec false 1 30) 0) = Ok (PVPrefixed (NString (of_string "1E+30")) "UNIT").
Proof. vm_compute. reflexivity. Qed.
Example C13_ex_big_hyps : let p := mkP (mkDec false 123456789012345678901234567890 0) (-9) in
  pwf p = true /\ is_integral (number p) = true /\ int64_ok (dtrunc (number p)) = false.
Proof. vm_compute. repeat split. Qed.
Example C13_ex_sixty : export_prefixed (mkP (mkDec true 123456789012345678901234567890123456789012345678901234567890 (-40)) 24)
  = Ok (PVPrefixed (NString (of_string "-12345678901234567890.1234567890123456789012345678901234567890")) "YOTTA").
Proof. vm_compute. reflexivity. Qed.
Example C13_ex_numeric : numeric (of_string " 1_000 ") = Some (mkDec false 1000 0) /\ numeric (of_string "1e3") = Some (mkDec false 1 3)
  /\ numeric (of_string "nan") = None /\ numeric (of_string "") = None /\ numeric (of_string "1 000") = None.
Proof. vm_compute. repeat split. Qed.
Example C13_ex_param_hyps : let v := VStr (of_string "-2.50e-7") in
  value_wf v = true /\ is_free (expected 0 v) = false /\ unrepresentable (expected 0 v) = false.
Proof. vm_compute. repeat split. Qed.
Example C13_ex_omit : export_params [(of_string "w", VInt 3); (of_string "l", VNone); (of_string "m", VStr (of_string "nch"))]
  = Ok [(of_string "w", PVInt64 3); (of_string "m", PVLiteral (of_string "nch"))].
Proof. vm_compute. reflexivity. Qed.
Example C13_ex_pulse : export_instance (mkCall (TPrim "PulseVoltageSource")
    (map (fun n => (of_string n, 1, if String.eqb n "delay" then VInt 5 else VNone)) ["delay"; "v1"; "v2"; "period"; "rise"; "fall"; "width"]%string))
  = Ok (of_string "vlsir.primitives", of_string "vpulse", [(of_string "td", PVPrefixed (NInt64 5) "UNIT")]).
Proof. vm_compute. reflexivity. Qed.
