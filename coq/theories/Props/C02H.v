(* Props/C02H.v — C02, strengthening round: port-less targets and construction histories (notes/C02.md "Strengthening round").
   Theorem statements only; proofs in Model/Checks.v, Proofs/ChecksProofs.v and Model/C02Hist.v. *)
From Coq Require Import String.
Require Import Hdl21.Base.PyInt Hdl21.Spec.PySlice Hdl21.Model.Slice Hdl21.Model.Resolve Hdl21.Base.Design Hdl21.Model.Checks Hdl21.Model.C02Hist.
Open Scope string_scope.
Open Scope list_scope.
Open Scope Z_scope.

(* H1. A target WITHOUT ANY PORT (a test bench): the model of ConnTypes.check_instance accepts its instance iff the instance has no
   connection at all.  There is no shortcut for an empty port list: every connection of such an instance names a port that does
   not exist.  (Instance of theorem 1 of Props/C02.v at ports = [], stated apart because the generators never went there.) *)
Theorem C02H_portless_target_accepts_iff_unconnected (conns : list (name * Z)) :
  check_instance [] conns = true <-> conns = [].
Proof.
  unfold check_instance. cbn [check_ports]. destruct conns as [|c conns]; split; intro H;
    try reflexivity; try discriminate.
Qed.
Print Assumptions C02H_portless_target_accepts_iff_unconnected.

Example C02H_ex_portless :
  check_instance [] [] = true /\ check_instance [] [("nonesuch", 1)] = false /\ check_instance [] [("vdd", 2); ("p", 1)] = false.
Proof. vm_compute. repeat split; reflexivity. Qed.

(* H2. Histories, the code after fixes/C02-3: whatever was read and edited before the call, in whatever order, the width check of a
   connection sees the width of the connectable in the FINAL design - the verdict is a function of the design handed over. *)
Theorem C02H_history_irrelevant x pw ops s :
  check_fresh x pw (run step_fresh x ops s) =
  match width_now (final_env ops (h_env s)) x with Ok w => w =? pw | Error _ => false end.
Proof. exact (fresh_history_irrelevant x pw ops s). Qed.
Print Assumptions C02H_history_irrelevant.

(* H3. ... so a connection that is accepted has the port's width in the final design, and an out-of-range or empty index in the final
   design (width_now = Error) is never accepted. *)
Theorem C02H_accepted_width_is_final_width x pw ops s :
  check_fresh x pw (run step_fresh x ops s) = true -> width_now (final_env ops (h_env s)) x = Ok pw.
Proof. exact (fresh_accept_sound x pw ops s). Qed.
Print Assumptions C02H_accepted_width_is_final_width.

(* H4. The memoising reading (Slice._inner before fixes/C02-3; a Concat that keeps `_width`) violates this: a read followed by an
   edit leaves a stale width.  Witnesses: `sl = s[3]; sl.width; s.width = 2` on a one-bit port (the out-of-range index is accepted);
   `c = Concat(a, b); c.width; a.width = 2` on a two-bit port (three bits are accepted). *)
Theorem C02H_memo_refuted :
  exists x pw ops env,
    check_memo x pw (run step_memo x ops {| h_env := env; h_memo := None |}) = true /\
    width_now (final_env ops env) x <> Ok pw.
Proof.
  exists (XSlice (XSig 0%N 4) (Idx 3)), 1, [HRead; HSet 0%N 2], []. split; [vm_compute; reflexivity|].
  vm_compute. discriminate.
Qed.
Print Assumptions C02H_memo_refuted.

Example C02H_ex_memo_concat :
  let x := XConcat [XSig 0%N 1; XSig 1%N 1] in
  check_memo x 2 (run step_memo x [HRead; HSet 0%N 2] {| h_env := []; h_memo := None |}) = true /\
  width_now (final_env [HRead; HSet 0%N 2] []) x = Ok 3 /\
  check_fresh x 2 (run step_fresh x [HRead; HSet 0%N 2] {| h_env := []; h_memo := None |}) = false /\
  check_memo x 2 (run step_memo x [HSet 0%N 2; HRead] {| h_env := []; h_memo := None |}) = false.
Proof. vm_compute. repeat split; reflexivity. Qed.

(* H5. The memoising reading is harmless exactly where no history was generated before this round: when every edit comes before
   every read, memo and fresh give the same verdict.  (Why the blind spot needed a read BEFORE an edit to show.) *)
Theorem C02H_memo_agrees_when_edits_come_first x pw edits reads env :
  forallb (fun o => negb (is_read o)) edits = true -> forallb is_read reads = true ->
  check_memo x pw (run step_memo x (edits ++ reads) {| h_env := env; h_memo := None |}) =
  check_fresh x pw (run step_fresh x (edits ++ reads) {| h_env := env; h_memo := None |}).
Proof. exact (memo_agrees_when_edits_come_first x pw edits reads env). Qed.
Print Assumptions C02H_memo_agrees_when_edits_come_first.

Example C02H_ex_history_nontrivial :
  let x := XConcat [XSlice (XSig 0%N 4) (Sl (Some 1) (Some 3) None); XSig 1%N 1] in
  check_fresh x 3 (run step_fresh x [HRead; HSet 1%N 2; HRead; HSet 1%N 1] {| h_env := []; h_memo := None |}) = true /\
  check_fresh x 3 (run step_fresh x [HRead; HSet 0%N 2] {| h_env := []; h_memo := None |}) = false.
Proof. vm_compute. split; reflexivity. Qed.

(* H6 (example, over the checked pipeline WITH bundles of Props/C02F.v, which pairs the members of an anonymous bundle with the port's
   Bundle BY PATH): an extra member NAMED LIKE THE '_'-JOINED PATH of a nested member (`hi_x` beside sub-bundle `hi` with Signal `x`:
   the name the flattened port gets) is an extra member like any other - refused by BundleFlattener with EExtra - at the outer level
   and inside the nested anonymous bundle.  The general lemma (any name that is not a member path) is NOT proved; the class is tied on
   every run (stream pipeline-model-bundles, tag flattened-path-name, coverage target C02F:coverage:anon-extra-flattened-path-name). *)
Require Hdl21.Props.C01G.
Require Import Hdl21.Base.C01BDesign Hdl21.Model.C02FPipeline Hdl21.Model.C02FBundles Hdl21.Props.C02F.
Example C02H_ex_anonymous_extra_member_named_like_a_flattened_path :
  g1 (set_conns C01G.exg1 2 "m" (top_anon (BXInst "q" ["hi"]) w3s (zq ++ [("hi_x", BXSx (XSig 1%N 1))]))) = (SBFlatten, Some EExtra, Ok tt, true) /\
  g1 (set_conns C01G.exg1 2 "m" (top_anon (BXInst "q" ["hi"]) w3s (zq ++ [("hi_y", BXSx (XSig 1%N 1))]))) = (SBFlatten, Some EExtra, Ok tt, true).
Proof. vm_compute. split; reflexivity. Qed.
