(* Props/C02E.v — C02 over the WHOLE pipeline model: reject-completeness of the default pass list with its checking passes.

   Model   Model/C02EPipeline.v:checked_pipeline = the pipeline model of C01E (ResolvePortRefs ; ArrayFlattener ; SliceResolver ;
           proto export, Model/C01EElab.v) with the checking passes of hdl21/elab/elab.py:Elaborator.default interleaved where
           the code runs them: the hierarchy traversal of base.py and Orphanage first, ConnTypes after ResolvePortRefs,
           PostFlattenConnTypes / PostFlattenOrphanage / MarkModules after SliceResolver, export_module_name in the exporter.
           The checks themselves are the existing models Model/Checks.v:check_instance and Model/C02Checks.v:orphanage_module.
   Spec    Spec/WfDesign.v:wf_design (one named error per fault class of the statement).
   Tie     Corr/C02E.v, on every base design and single-fault mutant of the C02 stream: verdict AND rejecting pass.

   The hypotheses (boolean, evaluated on every case by the correspondence run):
     given_e d   what Python guarantees by construction and the printer by its invariant (Model/C02Checks.v:given: dict keys
                 unique, declared widths positive, Signal leaves annotated with the Signal's width) + ports of leaf devices at
                 least one bit wide + a reference leaf annotated with the width of the port it names;
     frag_e d    the restriction that makes the main theorem _partial:
                 (1) a port reference or no-connect is a whole connection, never inside a slice / concatenation
                     (the pipeline model does not follow update_ref_deps into nested references: Spec/C01ENets.v:frag_ok);
                 (2) a reference names a port of a single instance (Spec/WfDesign.v calls a reference to a port of an
                     instance ARRAY faulty - EBadKind - which is none of the fault classes of the statement, and which the
                     implementation accepts as a broadcast);
                 (3) every module other than the top one is instantiated by a module of the design (wf_design judges all
                     listed modules, elaborate / to_proto only ever see the hierarchy below the top module). *)
From Coq Require Import String.
Require Import Hdl21.Base.PyInt Hdl21.Spec.PySlice Hdl21.Model.Slice Hdl21.Model.Resolve Hdl21.Base.Design
               Hdl21.Spec.WfDesign Hdl21.Spec.C01ENets Hdl21.Base.Package Hdl21.Base.PrimTable Hdl21.Spec.PkgWf
               Hdl21.Model.Checks Hdl21.Model.C02Checks Hdl21.Model.C01EElab Hdl21.Model.C02EPipeline
               Hdl21.Proofs.C02EProofsPlan Hdl21.Proofs.C02EProofsPortRefs Hdl21.Proofs.C02EProofsNames
               Hdl21.Proofs.C02EProofsEnd Hdl21.Proofs.C02EProofsAccept.
Require Import Hdl21Gen.DefaultPasses.
Require Hdl21.Props.C01E.
Open Scope string_scope.
Open Scope list_scope.
Open Scope Z_scope.

(* 1. The stages of checked_pipeline ARE the list Elaborator.default returns in the tree under test (regenerated on every
      run), in that order, once the two bundle passes - which have nothing to do in the core fragment - are left out; and
      every entry of that list has a class-level cache of its own, i.e. really visits the modules (Props/C02.v theorem 2). *)
Definition bundle_pass (e : entry) : bool :=
  String.eqb (kind_of e) "InstBundleElabPass" || String.eqb (kind_of e) "BundleFlattener".

Theorem C02E_stages_follow_default_list :
  map stage_pass elab_stages = map (fun e : entry => fst (fst e)) (filter (fun e => negb (bundle_pass e)) default_passes) /\
  forallb (fun eb : entry * bool => snd eb) (effective default_passes) = true.
Proof. split; vm_compute; reflexivity. Qed.
Print Assumptions C02E_stages_follow_default_list.

(* 2. REJECT-COMPLETENESS over the whole pipeline: whatever the checked pipeline accepts is valid by the specification.
      Contrapositive (theorem 3): a width mismatch (direct, through a reference, through array broadcasting), a missing or an
      extra connection, a connection to / reference to a port that does not exist, an out-of-range or empty index, a Signal
      or Instance owned by another module or by none, a no-connect that is also referenced, a circular instantiation, an
      unnamed or name-clashing module - each makes the modelled pipeline raise.

      FULL statement (not proved):  forall xi d p, given_e d = true -> checked_pipeline xi d = Ok p -> wf_design d = Ok tt.
      It is false for this model and this specification without frag_e, for reasons that are not fault classes of the
      property: (1) `Concat(a, i.nosuch)[0]` - SliceResolver drops the part that holds the reference, the model never sees it
      (the implementation does: the PortRef is registered on the instance); missing: update_ref_deps on nested references in
      Model/C01EElab.v; (2) the specification's EBadKind for references to array ports; (3) faults in modules that are listed
      but not part of the top module's hierarchy. *)
Theorem C02E_reject_complete_partial xi d p :
  given_e d = true -> frag_e d = true -> checked_pipeline xi d = Ok p -> wf_design d = Ok tt.
Proof. exact (reject_complete xi d p). Qed.
Print Assumptions C02E_reject_complete_partial.

(* 3. the same, read per fault class: whatever error the specification names, no package comes out *)
Theorem C02E_every_fault_rejected_partial xi d e :
  given_e d = true -> frag_e d = true -> wf_design d = Error e -> exists e', checked_pipeline xi d = Error e'.
Proof.
  intros G F H. destruct (checked_pipeline xi d) as [p|e'] eqn:E; [|eauto].
  rewrite (reject_complete xi d p G F E) in H. discriminate.
Qed.
Print Assumptions C02E_every_fault_rejected_partial.

(* 4. the checked pipeline is the unchecked one with more ways to fail: every theorem of Props/C01E.v about the package
      (nets, leaf devices, wf_pkg) applies to what it returns; and the staged run computes the same thing *)
Theorem C02E_checked_refines_unchecked xi d p : checked_pipeline xi d = Ok p -> elab_export_model xi d = Ok p.
Proof. exact (checked_pipeline_elab xi d p). Qed.
Print Assumptions C02E_checked_refines_unchecked.

Theorem C02E_run_is_pipeline xi d :
  snd (checked_run xi d) = checked_pipeline xi d /\ (fst (checked_run xi d) = SDone <-> exists p, checked_pipeline xi d = Ok p).
Proof. split; [apply checked_run_pipeline|apply checked_run_done]. Qed.
Print Assumptions C02E_run_is_pipeline.

(* 5. the checking passes reject nothing they should not: a valid design of the fragment of C01E is accepted, except
      through flatname's length limit (a RuntimeError of the implementation as well) - C01E_total_partial with the checks *)
Theorem C02E_accepts_valid_partial xi d : wf_design d = Ok tt -> frag_ok d = true -> xinfo_ok xi d = true ->
  (exists p, checked_pipeline xi d = Ok p) \/ checked_pipeline xi d = Error EName.
Proof. exact (accepts_valid xi d). Qed.
Print Assumptions C02E_accepts_valid_partial.

(* 6. COROLLARY: inside the hypotheses of 2 and 5, and away from the name-length limit, the model accepts EXACTLY the
      valid designs; and what it returns then is a well-formed package (C06E) *)
Theorem C02E_accepts_exactly_valid_partial xi d :
  given_e d = true -> frag_e d = true -> frag_ok d = true -> xinfo_ok xi d = true -> checked_pipeline xi d <> Error EName ->
  ((exists p, checked_pipeline xi d = Ok p) <-> wf_design d = Ok tt).
Proof.
  intros G F Fo X Hn. split.
  - intros [p H]. exact (reject_complete xi d p G F H).
  - intros Hwf. destruct (accepts_valid xi d Hwf Fo X) as [H|H]; [exact H|contradiction].
Qed.
Print Assumptions C02E_accepts_exactly_valid_partial.

Theorem C02E_accepted_package_wf_partial xi d p :
  given_e d = true -> frag_e d = true -> frag_ok d = true -> xinfo_ok xi d = true -> checked_pipeline xi d = Ok p ->
  wf_design d = Ok tt /\ wf_pkg prims_ext p = Ok tt.
Proof.
  intros G F Fo X H. pose proof (reject_complete xi d p G F H) as Hwf. split; [exact Hwf|].
  apply (C01E.C06E_export_wf_partial xi d p Hwf Fo X). apply checked_pipeline_elab. exact H.
Qed.
Print Assumptions C02E_accepted_package_wf_partial.

(* 7. per pass, the fact the composition rests on (each for an ARBITRARY module, nothing assumed valid):
      Orphanage - after it, every leaf of every connection denotes something the module owns (or is a NoConn);
      ResolvePortRefs - a successful allocation plan resolved the group of every reference that was taken
      (create_source found the port it copies: a reference to a non-existent port fails here; handle_noconn: ENoConn);
      the exporter - with every module instantiated below the top one, export_module_name saw every module name. *)
Theorem C02E_orphanage_owned self m x c lw : orphanage_check self m = Ok tt ->
  In x (m_insts m) -> In c (i_conns x) -> In lw (sx_leaves (snd c)) ->
  match assocN (fst lw) (m_leaves m) with
  | Some (LSig s) => exists w, sig_width m s = Some w                 (* a Signal the module declares *)
  | Some (LRef i _) => exists y, find_inst (m_insts m) i = Some y     (* a port of an Instance of the module *)
  | Some (LNc _) => True
  | None => False
  end.
Proof. intros H. exact (orph_leaf self m H x c lw). Qed.
Print Assumptions C02E_orphanage_owned.

Theorem C02E_portrefs_groups_resolved d ncn m keys allocs q :
  plan d ncn m keys (seeds m) [] = Ok allocs -> In (SRef q) (seeds m) ->
  exists g gr, gid m keys q = Some g /\ group_res m keys g = Ok gr /\
    match gr with GSrc _ => True | GFresh _ namer => exists w, key_width d m namer = Ok w end.
Proof.
  intros H Hq. destruct (plan_any d ncn m keys _ _ _ H) as [P _]. destruct (P q Hq) as [g [Hg [[]|[gr [Hgr Hok]]]]]. eauto.
Qed.
Print Assumptions C02E_portrefs_groups_resolved.

Theorem C02E_export_names xi d p : hier_design d = Ok tt -> all_used d = true -> export_model xi d = Ok p ->
  (d_top d < Datatypes.length (d_mods d))%nat /\ NoDup (map m_name (d_mods d)).
Proof. intros H. apply export_names. apply hier_design_ok. exact H. Qed.
Print Assumptions C02E_export_names.

(* ---------------------------------------------------------------- non-vacuity ---------------------------------------------------------------- *)
(* an accepted design with references (a chain, a fan, a cycle), a shared no-connect and arrays: the example of Props/C01E.v *)
Example C02E_ex_accepted :
  given_e C01E.ex_design = true /\ frag_e C01E.ex_design = true /\ frag_ok C01E.ex_design = true /\
  xinfo_ok C01E.ex_xinfo C01E.ex_design = true /\ wf_design C01E.ex_design = Ok tt /\
  fst (checked_run C01E.ex_xinfo C01E.ex_design) = SDone /\
  exists p, checked_pipeline C01E.ex_xinfo C01E.ex_design = Ok p /\ map pm_name (pk_mods p) = ["Leaf"; "Mid"; "Top"].
Proof. vm_compute. repeat split. eexists. split; reflexivity. Qed.

(* one rejected design per fault class, with the pass that rejects it: single faults planted in
     L:  ports a(1) b(2), one resistor between a and b[0]
     T:  signals s(4) t(1) u(2);  i0 = L(a=t, b=u);  i1 = L(a=i0.a, b=NoConn);  arr = 2 x L(a=t, b=s)           *)
Definition ex_res : target := TDev "vlsir.primitives/resistor{r=pre:UNIT:i1;}" [("p", 1); ("n", 1)].
Definition ex_L (nm : name) (tgt : target) : module :=
  {| m_name := nm; m_ports := [("a", 1); ("b", 2)]; m_sigs := [];
     m_insts := [{| i_name := "r0"; i_n := 0; i_of := tgt; i_conns := [("p", XSig 0%N 1); ("n", XSlice (XSig 1%N 2) (Idx 0))] |}];
     m_leaves := [(0%N, LSig "a"); (1%N, LSig "b")] |}.
Definition S_s := XSig 0%N 4.
Definition S_t := XSig 1%N 1.
Definition S_u := XSig 2%N 2.
Definition ex_leaves : list (N * leaf) :=
  [(0%N, LSig "s"); (1%N, LSig "t"); (2%N, LSig "u"); (3%N, LRef "i0" "a"); (4%N, LNc 1%N); (5%N, LSig "?orphan");
   (6%N, LRef "?foreign" "a"); (7%N, LRef "i0" "nosuch"); (8%N, LRef "i0" "b"); (9%N, LRef "i1" "b")].
Definition ex_inst (nm : name) (n : Z) (tgt : nat) (conns : list (name * sx)) : inst :=
  {| i_name := nm; i_n := n; i_of := TMod tgt; i_conns := conns |}.
Definition ex_T (nm : name) (insts : list inst) : module :=
  {| m_name := nm; m_ports := []; m_sigs := [("s", 4); ("t", 1); ("u", 2)]; m_insts := insts; m_leaves := ex_leaves |}.
Definition ex_D (lname tname : name) (ltgt : target) (insts : list inst) : design :=
  {| d_mods := [ex_L lname ltgt; ex_T tname insts]; d_top := 1 |}.
Definition ex_i0 a b := ex_inst "i0" 0 0 (a ++ b).
Definition ex_i1 a b := ex_inst "i1" 0 0 [("a", a); ("b", b)].
Definition ex_arr b := ex_inst "arr" 2 0 ([("a", S_t)] ++ b).
Definition ex_std (i0 i1 arr : inst) : design := ex_D "L" "T" ex_res [i0; i1; arr].
Definition ok_i0 := ex_i0 [("a", S_t)] [("b", S_u)].
Definition ok_i1 := ex_i1 (XSig 3%N 1) (XSig 4%N 2).
Definition ok_arr := ex_arr [("b", S_s)].
Definition ex_xi : xinfo :=
  {| x_devs := [("vlsir.primitives/resistor{r=pre:UNIT:i1;}",
                 {| dv_dom := "vlsir.primitives"; dv_name := "resistor"; dv_params := [("r", "pre:UNIT:i1")]; dv_ext := None |})];
     x_ncnames := []; x_dirs := [] |}.
Definition verdict (d : design) : stage * result unit * bool := (fst (checked_run ex_xi d), wf_design d, given_e d && frag_e d).

Example C02E_ex_base_valid : verdict (ex_std ok_i0 ok_i1 ok_arr) = (SDone, Ok tt, true).
Proof. vm_compute. reflexivity. Qed.

Example C02E_ex_width_direct : verdict (ex_std (ex_i0 [("a", S_t)] [("b", S_t)]) ok_i1 ok_arr) = (SConnTypes, Error EWidth, true).
Proof. vm_compute. reflexivity. Qed.
Example C02E_ex_width_through_reference : verdict (ex_std ok_i0 (ex_i1 (XSig 8%N 2) (XSig 4%N 2)) ok_arr) = (SConnTypes, Error EWidth, true).
Proof. vm_compute. reflexivity. Qed.
Example C02E_ex_width_through_array : verdict (ex_std ok_i0 ok_i1 (ex_arr [("b", XSlice S_s (Sl None (Some 3) None))])) = (SArrays, Error EWidth, true).
Proof. vm_compute. reflexivity. Qed.
Example C02E_ex_missing : verdict (ex_std (ex_i0 [("a", S_t)] []) ok_i1 ok_arr) = (SConnTypes, Error EMissing, true).
Proof. vm_compute. reflexivity. Qed.
Example C02E_ex_missing_on_array : verdict (ex_std ok_i0 ok_i1 (ex_arr [])) = (SPostConnTypes, Error EMissing, true).
Proof. vm_compute. reflexivity. Qed.
Example C02E_ex_extra : verdict (ex_std (ex_i0 [("a", S_t)] [("b", S_u); ("zz", S_t)]) ok_i1 ok_arr) = (SConnTypes, Error EExtra, true).
Proof. vm_compute. reflexivity. Qed.
Example C02E_ex_extra_on_array : verdict (ex_std ok_i0 ok_i1 (ex_arr [("b", S_s); ("zz", S_t)])) = (SArrays, Error EExtra, true).
Proof. vm_compute. reflexivity. Qed.
Example C02E_ex_reference_to_missing_port : verdict (ex_std ok_i0 (ex_i1 (XSig 7%N 1) (XSig 4%N 2)) ok_arr) = (SPortRefs, Error EMissing, true).
Proof. vm_compute. reflexivity. Qed.
Example C02E_ex_index_out_of_range : verdict (ex_std (ex_i0 [("a", XSlice S_s (Idx 4))] [("b", S_u)]) ok_i1 ok_arr) = (SConnTypes, Error EOutOfBounds, true).
Proof. vm_compute. reflexivity. Qed.
Example C02E_ex_empty_index :
  verdict (ex_std (ex_i0 [("a", XConcat [S_t; XSlice S_s (Sl (Some 1) (Some 1) None)])] [("b", S_u)]) ok_i1 ok_arr) = (SConnTypes, Error EEmptySlice, true).
Proof. vm_compute. reflexivity. Qed.
Example C02E_ex_orphan_signal : verdict (ex_std (ex_i0 [("a", XSig 5%N 1)] [("b", S_u)]) ok_i1 ok_arr) = (SOrphanage, Error EOrphan, true).
Proof. vm_compute. reflexivity. Qed.
Example C02E_ex_foreign_instance : verdict (ex_std ok_i0 (ex_i1 (XSig 6%N 1) (XSig 4%N 2)) ok_arr) = (SOrphanage, Error EMissing, true).
Proof. vm_compute. reflexivity. Qed.
Example C02E_ex_noconn_also_referenced : verdict (ex_std (ex_i0 [("a", S_t)] [("b", XSig 9%N 2)]) ok_i1 ok_arr) = (SPortRefs, Error ENoConn, true).
Proof. vm_compute. reflexivity. Qed.
Example C02E_ex_circular : verdict (ex_D "L" "T" (TMod 1) [ok_i0; ok_i1; ok_arr]) = (SOrphanage, Error ECycle, true).
Proof. vm_compute. reflexivity. Qed.
Example C02E_ex_unnamed : verdict (ex_D "L" "" ex_res [ok_i0; ok_i1; ok_arr]) = (SMark, Error EName, true).
Proof. vm_compute. reflexivity. Qed.
Example C02E_ex_name_clash : verdict (ex_D "L" "L" ex_res [ok_i0; ok_i1; ok_arr]) = (SExport, Error EName, true).
Proof. vm_compute. reflexivity. Qed.

(* outside frag_e the full statement fails for this model: a reference to a missing port inside a concatenation that a
   slice then drops - the specification names the fault, the model exports (the implementation rejects: not in any stream) *)
Example C02E_ex_why_partial :
  let d := ex_std (ex_i0 [("a", XSlice (XConcat [S_t; XSig 7%N 1]) (Idx 0))] [("b", S_u)]) ok_i1 ok_arr in
  fst (checked_run ex_xi d) = SDone /\ wf_design d = Error EMissing /\ given_e d = true /\ frag_e d = false.
Proof. vm_compute. repeat split; reflexivity. Qed.
