(* Props/C01E.v — the end-to-end theorems of C01 (and the C06 corollary) over the pipeline model Model/C01EElab.v:
   elab_export_model = ResolvePortRefs ; ArrayFlattener ; SliceResolver ; proto export, for the core fragment.

   The hypotheses are boolean and are evaluated by the correspondence run on every design (Corr/C01E.v):
     wf_design d = Ok tt   the design is valid (Spec/WfDesign.v),
     frag_ok d = true      the modelled fragment: a port reference is a whole connection (not inside a slice or a
                           concatenation), and the width written on a no-connect leaf is the port's (Spec/C01ENets.v),
     xinfo_ok xi d = true  the side table that says how leaf devices are written in VLSIR spells exactly the device
                           identities of the design, with their ports (Model/C01EElab.v).

   The FULL statement asked for would drop frag_ok.  It is not provable for this model, and not true of the code:
   with references inside slices the source of a group can contain references again, and
       i1 = W(a=Concat(i2.a[0], s)); i2 = W(a=Concat(i1.a[0], s))
   (valid by Spec/WfDesign.v, a two-bit floating net) makes SliceResolver recurse without end (RecursionError).
   Missing for the full statement: a model of update_ref_deps on nested references and a termination argument for
   acyclic nestings.  Hence the suffix _partial. *)
From Coq Require Import String.
Require Import Hdl21.Base.PyInt Hdl21.Spec.PySlice Hdl21.Model.Slice Hdl21.Model.Resolve Hdl21.Base.Design
               Hdl21.Spec.Nets Hdl21.Spec.WfDesign Hdl21.Base.Package Hdl21.Base.PrimTable Hdl21.Spec.PkgWf
               Hdl21.Spec.C01ENets Hdl21.Model.C01EElab
               Hdl21.Proofs.C01EProofsSim Hdl21.Proofs.C01EProofsWfs Hdl21.Proofs.C01EProofsSlices Hdl21.Proofs.C01EProofsArrays
               Hdl21.Proofs.C01EProofsExport Hdl21.Proofs.C01EProofsPortRefsD Hdl21.Proofs.C01EProofsEnd.
Open Scope Z_scope.

(* 1. END TO END, on every valid node (bits of declared signals and of instance ports at every depth).
      term_map is the terminal correspondence: the path and the instance of a node are renamed as ArrayFlattener names
      the elements of an array (inst_k, or its fresh variant when that name is taken); nothing else changes. *)
Theorem C01E_valid_nodes_partial xi d p :
  wf_design d = Ok tt -> frag_ok d = true -> xinfo_ok xi d = true -> elab_export_model xi d = Ok p ->
  exists tn pd, top_name d = Ok tn /\ design_of_pkg prims_ext p tn = Ok pd /\
    (forall x, valid d x -> valid pd (term_map xi d x)) /\
    (forall x y, valid d x -> valid d y -> (same_net pd (term_map xi d x) (term_map xi d y) <-> same_net d x y)) /\
    (forall x dev, valid d x -> dev_at d x = Ok dev -> dev_at pd (term_map xi d x) = Ok dev).
Proof. exact (end_to_end xi d p). Qed.
Print Assumptions C01E_valid_nodes_partial.

(* 2. END TO END, as the property states it: on the terminals of the design (bits of top-level ports, bits of the ports
      of every leaf device) the package - read as the VLSIR netlisters read it - has exactly the nets of the written
      design, and every leaf device is there with the same identity (kind and parameters).
      FULL statement (not proved, see the header): the same without `frag_ok d = true`. *)
Theorem C01E_end_to_end_partial xi d p ts :
  wf_design d = Ok tt -> frag_ok d = true -> xinfo_ok xi d = true -> elab_export_model xi d = Ok p -> terminals d = Ok ts ->
  exists tn, top_name d = Ok tn /\
    (forall t1 t2 dev1 dev2, In (t1, dev1) ts -> In (t2, dev2) ts ->
       (same_net_pkg p tn (term_map xi d t1) (term_map xi d t2) <-> same_net d t1 t2)) /\
    (forall t dev, In (t, dev) ts ->
       exists pd, design_of_pkg prims_ext p tn = Ok pd /\ valid pd (term_map xi d t) /\ dev_at pd (term_map xi d t) = Ok dev).
Proof.
  intros Hwf Hfr Hxi Hp Hts. destruct (end_to_end xi d p Hwf Hfr Hxi Hp) as [tn [pd [Htn [Hpd [Hv [Hs Hd]]]]]].
  exists tn. split; [exact Htn|]. split.
  - intros t1 t2 dev1 dev2 H1 H2. destruct (terminals_valid xi d ts Hwf Hxi Hts t1 dev1 H1) as [V1 _].
    destruct (terminals_valid xi d ts Hwf Hxi Hts t2 dev2 H2) as [V2 _]. rewrite <- (Hs t1 t2 V1 V2). unfold same_net_pkg. split.
    + intros [pd' [Hpd' H]]. rewrite Hpd in Hpd'. inversion Hpd'; subst pd'. exact H.
    + intros H. exists pd. auto.
  - intros t dev Ht. destruct (terminals_valid xi d ts Hwf Hxi Hts t dev Ht) as [V D]. exists pd. auto.
Qed.
Print Assumptions C01E_end_to_end_partial.

(* 3. The model rejects no valid design of the fragment - except through flatname's length limit
      (a RuntimeError of the implementation as well): the only error is EName, raised by ResolvePortRefs or ArrayFlattener. *)
Theorem C01E_total_partial xi d :
  wf_design d = Ok tt -> frag_ok d = true -> xinfo_ok xi d = true ->
  (exists p, elab_export_model xi d = Ok p) \/ elab_export_model xi d = Error EName.
Proof. exact (pipeline_total xi d). Qed.
Print Assumptions C01E_total_partial.

(* 4. C06: every package the model exports for a valid design is closed and self-consistent (Spec/PkgWf.v):
      unique module names, definition before use, unique signal / port / instance names per module, ports name
      declared signals, every instance refers to an earlier module, a declared external module or a known primitive and
      connects each port exactly once, every target reads - strictly - inside declared signals with the port's width. *)
Theorem C06E_export_wf_partial xi d p :
  wf_design d = Ok tt -> frag_ok d = true -> xinfo_ok xi d = true -> elab_export_model xi d = Ok p ->
  wf_pkg prims_ext p = Ok tt.
Proof. exact (pipeline_pkg_wf xi d p). Qed.
Print Assumptions C06E_export_wf_partial.

(* 5. The four steps, one by one (each keeps the nets on the valid nodes of its input). *)
Theorem C01E_portrefs_step xi d d1 x y :
  wf_design d = Ok tt -> frag_ok d = true -> xinfo_ok xi d = true -> portrefs_design xi d = Ok d1 ->
  valid d x -> valid d y -> (same_net d x y <-> same_net d1 x y).
Proof. intros H1 H2 H3 H4. exact (portrefs_same_net xi d d1 H1 H2 H3 H4 x y). Qed.
Print Assumptions C01E_portrefs_step.

Theorem C01E_arrays_step d d' x y : wfs d -> arrays_design d = Ok d' -> valid d x -> valid d y ->
  (same_net d x y <-> same_net d' (phi d elem_rename x) (phi d elem_rename y)).
Proof. intros H1 H2. exact (arrays_same_net d d' H1 H2 x y). Qed.
Print Assumptions C01E_arrays_step.

Theorem C01E_slices_step d d' x y : wfs d -> slices_design d = Ok d' -> valid d x -> valid d y -> (same_net d x y <-> same_net d' x y).
Proof. intros H1 H2. exact (slices_same_net d d' H1 H2 x y). Qed.
Print Assumptions C01E_slices_step.

Theorem C01E_export_step xi d : wfs d -> no_arrays d -> resolved_design d -> xinfo_ok xi d = true ->
  exists p tn pd, export_model xi d = Ok p /\ top_name d = Ok tn /\ design_of_pkg prims_ext p tn = Ok pd /\
    (forall x, valid d x -> valid pd x) /\
    (forall x y, valid d x -> valid d y -> (same_net d x y <-> same_net pd x y)) /\
    (forall x dev, valid d x -> dev_at d x = Ok dev -> dev_at pd x = Ok dev).
Proof. exact (export_sound xi d). Qed.
Print Assumptions C01E_export_step.

(* ---- non-vacuity: a three-level hierarchy with a shared sub-module (Leaf twice in Mid, Mid five times in Top),
        a reference chain m0.y -> m1.y with a fan (m4.y -> m1.y) onto a port connected to nothing,
        a reference cycle m2.x <-> m3.x with tails m1.x and m4.x, a shared no-connect, an array wired per element
        (bus, 4 = 2 x 2) and by broadcast (p), a nested slice with a negative step, an external module ---- *)
Definition ex_design : design :=
  {| d_mods := [{| m_name := "Leaf"; m_ports := [("a", 2); ("b", 1)]; m_sigs := [("z", 1)];
     m_insts := [{| i_name := "r0"; i_n := 0; i_of := (TDev "vlsir.primitives/resistor{r=pre:UNIT:i1;}" [("p", 1); ("n", 1)]); i_conns := [("p", (XSlice (XSig 0%N 2) (Idx 0))); ("n", (XSig 1%N 1))] |}; {| i_name := "r1"; i_n := 0; i_of := (TDev "vlsir.primitives/resistor{r=pre:UNIT:i2;}" [("p", 1); ("n", 1)]); i_conns := [("p", (XSlice (XSig 0%N 2) (Idx (-1)))); ("n", (XSig 2%N 1))] |}];
     m_leaves := [(0%N, LSig "a"); (1%N, LSig "z"); (2%N, LSig "b")] |}; {| m_name := "Mid"; m_ports := [("x", 2); ("y", 1)]; m_sigs := [];
     m_insts := [{| i_name := "l0"; i_n := 0; i_of := (TMod 0%nat); i_conns := [("a", (XSig 0%N 2)); ("b", (XSig 1%N 1))] |}; {| i_name := "l1"; i_n := 0; i_of := (TMod 0%nat); i_conns := [("a", (XConcat [(XSig 1%N 1); (XSlice (XSig 0%N 2) (Idx 1))])); ("b", (XSlice (XSig 0%N 2) (Idx 0)))] |}];
     m_leaves := [(0%N, LSig "x"); (1%N, LSig "y")] |}; {| m_name := "Top"; m_ports := [("p", 1)]; m_sigs := [("bus", 4); ("s", 1)];
     m_insts := [{| i_name := "m0"; i_n := 0; i_of := (TMod 1%nat); i_conns := [("x", (XSlice (XSlice (XSig 0%N 4) (Sl None None (Some (-1)))) (Sl (Some 0) (Some 2) None))); ("y", (XSig 1%N 1))] |}; {| i_name := "m1"; i_n := 0; i_of := (TMod 1%nat); i_conns := [("x", (XSig 2%N 2))] |}; {| i_name := "m2"; i_n := 0; i_of := (TMod 1%nat); i_conns := [("x", (XSig 3%N 2)); ("y", (XSig 4%N 1))] |}; {| i_name := "m3"; i_n := 0; i_of := (TMod 1%nat); i_conns := [("x", (XSig 2%N 2)); ("y", (XSig 4%N 1))] |}; {| i_name := "m4"; i_n := 0; i_of := (TMod 1%nat); i_conns := [("x", (XSig 2%N 2)); ("y", (XSig 1%N 1))] |}; {| i_name := "arr"; i_n := 2; i_of := (TMod 0%nat); i_conns := [("a", (XSig 0%N 4)); ("b", (XSig 5%N 1))] |}; {| i_name := "e0"; i_n := 0; i_of := (TDev "/E0{tag=int:1;}" [("x0", 1)]); i_conns := [("x0", (XSig 6%N 1))] |}];
     m_leaves := [(0%N, LSig "bus"); (1%N, LRef "m1" "y"); (2%N, LRef "m2" "x"); (3%N, LRef "m3" "x"); (4%N, LNc 1%N); (5%N, LSig "p"); (6%N, LSig "s")] |}]; d_top := 2%nat |}.

Definition ex_xinfo : xinfo :=
  {| x_devs := [("/E0{tag=int:1;}", {| dv_dom := ""; dv_name := "E0"; dv_params := [("tag", "int:1")]; dv_ext := (Some {| px_domain := ""; px_name := "E0"; px_ports := [("x0", 1, 3)]; px_spicetype := "SUBCKT" |}) |}); ("vlsir.primitives/resistor{r=pre:UNIT:i1;}", {| dv_dom := "vlsir.primitives"; dv_name := "resistor"; dv_params := [("r", "pre:UNIT:i1")]; dv_ext := None |}); ("vlsir.primitives/resistor{r=pre:UNIT:i2;}", {| dv_dom := "vlsir.primitives"; dv_name := "resistor"; dv_params := [("r", "pre:UNIT:i2")]; dv_ext := None |})];
     x_ncnames := [("Leaf", []); ("Mid", []); ("Top", [])];
     x_dirs := [("Leaf", [("a", 2); ("b", 0)]); ("Mid", [("x", 2); ("y", 1)]); ("Top", [("p", 0)])] |}.


Example C01E_ex_hypotheses : wf_design ex_design = Ok tt /\ frag_ok ex_design = true /\ xinfo_ok ex_xinfo ex_design = true.
Proof. vm_compute. auto. Qed.

Example C01E_ex_model_accepts : exists p, elab_export_model ex_xinfo ex_design = Ok p /\ wf_pkg prims_ext p = Ok tt /\
  map pm_name (pk_mods p) = ["Leaf"; "Mid"; "Top"].
Proof. vm_compute. eexists. split; [reflexivity|]. split; reflexivity. Qed.

(* the cycle m2.x <-> m3.x (with its tails) got ONE implicit signal, named after the least (instance, port) of the group;
   the unconnected port m1.y named its group's signal; the shared no-connect gave each port a private signal;
   the array became arr_0, arr_1 with bus[1:0] and bus[3:2] *)
Example C01E_ex_top_signals : exists p top, elab_export_model ex_xinfo ex_design = Ok p /\ nth_error (pk_mods p) 2 = Some top /\
  pm_sigs top = [("bus", 4); ("s", 1); ("m1_y", 1); ("m1_x", 2); ("m2_y", 1); ("m3_y", 1); ("p", 1)] /\
  map pi_name (pm_insts top) = ["m0"; "m1"; "m2"; "m3"; "m4"; "e0"; "arr_0"; "arr_1"].
Proof. vm_compute. eexists. eexists. split; [reflexivity|]. split; [reflexivity|]. split; reflexivity. Qed.

(* the terminal correspondence renames the array element: bit 0 of port p of r0 inside element 1 of arr *)
Example C01E_ex_term_map :
  term_map ex_xinfo ex_design (NPort [("arr", 1)] "r0" 0 "p" 0) = NPort [("arr_1", 0)] "r0" 0 "p" 0.
Proof. vm_compute. reflexivity. Qed.
