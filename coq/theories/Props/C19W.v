(* Props/C19W.v — C19 for series ports of ANY width (fixes/C19W-1: one private net per bit of the series ports).
   Statements only; proofs in Proofs/C19Proofs.v and Proofs/C19WProofs.v.  The model is Model/C19Series.v (the repaired
   generators.py: private bus of width (n-1)*w) followed by the models of array flattening and concatenation bits;
   `all_unit_bits m` is "elaboration accepts m, and these are the nets of every bit of every port of every unit".
   For EVERY n >= 2, every well-formed unit (signal- and bundle-valued ports of any widths) and every ordered pair (a, b) of
   distinct signal-valued ports of the unit:
     equal widths (valid_series)  -> accepted all the way through elaboration, and the nets ARE the keys of the specification
     different widths             -> the generator returns a module (sized by the first port), elaboration refuses it
   and the pinned generators.py (private bus of width n-1) refused every valid call with series ports wider than one bit. *)
Require Import Hdl21.Base.PyInt Hdl21.Spec.PySlice Hdl21.Model.Slice Hdl21.Model.Resolve Hdl21.Model.Arrays
               Hdl21.Base.Design Hdl21.Spec.C19Topology Hdl21.Model.C19Series Hdl21.Proofs.C19Proofs Hdl21.Proofs.C19WProofs.
Open Scope string_scope.
Open Scope Z_scope.

(* 1. NO SPURIOUS REJECTION, END TO END, AND THE WHOLE PARTITION AT ONCE: a valid call (n >= 2, distinct signal-valued
      series ports of one width w) is accepted by the generator AND by elaboration, and the nets of all bits of all ports
      of all units (series_nets), flattened in the order of the specification's terminal list, are the specification's
      keys of the unit terminals read through net_of (bit j of chain k = bit k*w + j of the private bus) *)
Theorem C19W_valid_series_elaborates u a b w n : wf_unit u = true -> 2 <= n -> a <> b ->
  assoc a (u_sigs u) = Some w -> assoc b (u_sigs u) = Some w ->
  valid_series u a b n = true /\
  exists iname uname, series_gen u a b n = Ok (series_module u a b w n iname uname) /\
    mem iname (map fst (unit_io u)) = false /\
    all_unit_bits (series_module u a b w n iname uname) = Ok (series_nets iname (unit_io u) a b w n) /\
    concat (map (@concat _) (series_nets iname (unit_io u) a b w n))
      = map (net_of iname w) (unit_keys (series_key n a b) n (unit_io u)).
Proof. exact (w_valid_series_elaborates u a b w n). Qed.
Print Assumptions C19W_valid_series_elaborates.

(* 2. ... and that reading is faithful on the keys of the specification: two terminals of spec_series (bits of the stack's
      ports, bits of the unit ports) have the same net of the module iff they have the same key - so 1. says that the
      partition of the elaborated module IS the documented one, nothing else merged, for every n and w *)
Theorem C19W_keys_faithful u a b w n iname k1 k2 : wf_unit u = true ->
  assoc a (u_sigs u) = Some w -> assoc b (u_sigs u) = Some w -> mem iname (map fst (unit_io u)) = false ->
  In k1 (spec_series n (unit_io u) a b) -> In k2 (spec_series n (unit_io u) a b) ->
  (net_of iname w k1 = net_of iname w k2 <-> k1 = k2).
Proof. exact (w_keys_faithful u a b w n iname k1 k2). Qed.
Print Assumptions C19W_keys_faithful.

(* the stack's own port bits are read as themselves *)
Theorem C19W_port_keys iname io w :
  map (net_of iname w) (port_keys io) = concat (map (fun pw : name * Z => map (pair (fst pw)) (bits_of (snd pw))) io).
Proof. exact (port_keys_flat iname io w). Qed.
Print Assumptions C19W_port_keys.

(* 3. SERIES PORTS OF DIFFERENT WIDTHS (n >= 2): the specification lists the call among those on which nothing can be built;
      generators.py sizes the private bus by the FIRST port and returns the module; Concat(i, b) then has the width
      (n-1)*wa + wb, neither wb nor n*wb, and elaboration (ArrayFlattener) refuses port b of every unit *)
Theorem C19W_unequal_widths_refused u a b wa wb n : wf_unit u = true -> 2 <= n -> a <> b ->
  assoc a (u_sigs u) = Some wa -> assoc b (u_sigs u) = Some wb -> wa <> wb ->
  must_reject_series u a b n = true /\ valid_series u a b n = false /\
  exists iname uname, series_gen u a b n = Ok (series_module u a b wa n iname uname) /\
    exists e, all_unit_bits (series_module u a b wa n iname uname) = Error e.
Proof. exact (w_unequal_widths_refused u a b wa wb n). Qed.
Print Assumptions C19W_unequal_widths_refused.

(* 4. THE PINNED TREE VIOLATES THE PROPERTY: for EVERY valid call with series ports wider than one bit the pinned generator
      (private bus of width n-1) returns a module that elaboration refuses, where the repaired one elaborates (1.);
      for one-bit series ports the two generators build the same module *)
Theorem C19W_pinned_wide_refuted_all u a b w n : wf_unit u = true -> 2 <= n -> a <> b ->
  assoc a (u_sigs u) = Some w -> assoc b (u_sigs u) = Some w -> 2 <= w ->
  valid_series u a b n = true /\
  exists iname uname, series_gen_pinned u a b n = Ok (series_module_pinned u a b n iname uname) /\
    exists e, all_unit_bits (series_module_pinned u a b n iname uname) = Error e.
Proof. exact (w_pinned_wide_refuted_all u a b w n). Qed.
Print Assumptions C19W_pinned_wide_refuted_all.

Theorem C19W_pinned_refuted : exists u a b n, wf_unit u = true /\ valid_series u a b n = true /\
  (m <- series_gen_pinned u a b n ;; all_unit_bits m) = Error EWidth /\
  exists l, (m <- series_gen u a b n ;; all_unit_bits m) = Ok l.
Proof. exact w_pinned_refuted. Qed.
Print Assumptions C19W_pinned_refuted.

Theorem C19W_pinned_one_bit_same u a b n iname uname :
  series_module_pinned u a b n iname uname = series_module u a b 1 n iname uname.
Proof. exact (series_module_pinned_w1 u a b n iname uname). Qed.
Print Assumptions C19W_pinned_one_bit_same.

(* 5. MosStack over a unit whose d and s are buses of one width: Series over (d, s), so 1. applies *)
Theorem C19W_mosstack_wide u w n : wf_unit u = true -> 2 <= n ->
  assoc "d" (u_sigs u) = Some w -> assoc "s" (u_sigs u) = Some w ->
  exists iname uname, mosstack_gen u n = Ok (series_module u "d" "s" w n iname uname) /\
    all_unit_bits (series_module u "d" "s" w n iname uname) = Ok (series_nets iname (unit_io u) "d" "s" w n).
Proof. exact (w_mosstack_wide u w n). Qed.
Print Assumptions C19W_mosstack_wide.

(* ---- non-vacuity ---- *)
Definition exw_unit : unit := {| u_sigs := [("x", 3); ("k", 1); ("y", 3); ("z", 2)]; u_buns := [("bb", [("p", 2)])] |}.
Example C19W_ex_hyps : wf_unit exw_unit = true /\ assoc "x" (u_sigs exw_unit) = Some 3 /\ assoc "y" (u_sigs exw_unit) = Some 3 /\
  assoc "z" (u_sigs exw_unit) = Some 2 /\ valid_series exw_unit "y" "x" 4 = true /\ must_reject_series exw_unit "x" "z" 4 = true.
Proof. repeat split. Qed.
Example C19W_ex_nets : exists m, series_gen exw_unit "y" "x" 3 = Ok m /\ m_sigs m = [("i", 6)] /\
  all_unit_bits m = Ok [ [[("i", 0); ("i", 1); ("i", 2)]; [("k", 0)]; [("y", 0); ("y", 1); ("y", 2)]; [("z", 0); ("z", 1)]; [("bb_p", 0); ("bb_p", 1)]];
                         [[("i", 3); ("i", 4); ("i", 5)]; [("k", 0)]; [("i", 0); ("i", 1); ("i", 2)]; [("z", 0); ("z", 1)]; [("bb_p", 0); ("bb_p", 1)]];
                         [[("x", 0); ("x", 1); ("x", 2)]; [("k", 0)]; [("i", 3); ("i", 4); ("i", 5)]; [("z", 0); ("z", 1)]; [("bb_p", 0); ("bb_p", 1)]] ].
Proof. eexists. repeat split. Qed.
Example C19W_ex_unequal : (m <- series_gen exw_unit "x" "z" 3 ;; all_unit_bits m) = Error EWidth /\
                          (m <- series_gen exw_unit "z" "x" 3 ;; all_unit_bits m) = Error EWidth.
Proof. split; reflexivity. Qed.
