(* Props/C07ETable.v — the two table facts the bridge theorems of Props/C07E.v take as (boolean) hypotheses, PROVED for the
   regenerated default list of the tree under test (Hdl21Gen.DefaultPasses).

   Kept in a file of its own on purpose: history independence (Props/C07.v, Props/C07E.v sections 1-2) holds for EVERY
   pass list, also one that names a class twice; only "the manager computes the pipeline models of C01E / C02E" depends on
   what the list is.  On a tree whose list differs (pinned tree: ConnTypes / Orphanage listed twice - C02's defect) this file
   stops building - reported by C02's check, whose table-driven theorems stop building as well - while C07's own
   obligations stay discharged.  The correspondence run of C07 evaluates both booleans on every run and records them. *)
From Coq Require Import String.
Require Import Hdl21.Base.PyInt Hdl21.Model.C07EConcrete Hdl21.Proofs.C07EProofsChain.

Theorem C07E_default_list_ok :
  checked_list_ok = true /\ unchecked_list_ok = true /\
  tree_kinds = ["Orphanage"; "InstBundleElabPass"; "ResolvePortRefs"; "ConnTypes"; "BundleFlattener"; "ArrayFlattener";
                "SliceResolver"; "ConnTypes"; "Orphanage"; "MarkModules"]%string.
Proof. vm_compute. repeat split. Qed.
Print Assumptions C07E_default_list_ok.
