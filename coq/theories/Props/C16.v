(* Props/C16.v — placeholder, theorems follow *)
Require Import Hdl21.Base.PyInt Hdl21.Spec.C16Flat Hdl21.Model.C16Flatten.
