(* Props/C16.v — flatten() preserves leaf-level connectivity.
   Spec: Spec/C16Flat.v (hierarchies, `hstep`, terminals, `flat_name`); model of hdl21/flatten.py (repaired by
   fixes/C16-1, C16-2): Model/C16Flatten.v; lemmas: Proofs/C16Proofs.v.
   `flatten t = Ok FSame` models `return m` (already flat); `Ok (FNew f)` the newly built module; `Error _` a raise.
   `wf_hier` is what the Module namespace and elaboration guarantee: instance names unique per module, instance
   connections of a sub-module name ports of that sub-module.  There is NO hypothesis on names: the repaired code
   rejects exactly the designs whose ':'-joined names collide (C16_rejects_collision / C16_accepts_without_collision). *)
Require Import Hdl21.Base.PyInt Hdl21.Base.Design Hdl21.Spec.C16Flat Hdl21.Model.C16Flatten Hdl21.Proofs.FunGraph
               Hdl21.Proofs.C16Proofs.
From Coq Require Import String.
Open Scope string_scope.
Open Scope list_scope.
Open Scope Z_scope.

(* 0. `return m` happens exactly for modules that are already flat *)
Theorem C16_same_iff_flat t : flatten t = Ok FSame <-> is_flat t = true.
Proof. exact (flatten_same t). Qed.
Print Assumptions C16_same_iff_flat.

(* 1. the new module contains only leaf (primitive / external-module) instances ... *)
Theorem C16_result_is_flat t f : flatten t = Ok (FNew f) -> is_flat (fmod_hmod f) = true.
Proof.
  intros _. unfold is_flat, fmod_hmod. cbn [h_body]. rewrite forallb_forall. intros x Hx.
  apply in_map_iff in Hx. destruct Hx as [fi [<- _]]. reflexivity.
Qed.
Print Assumptions C16_result_is_flat.

(* ... one per leaf device of the hierarchy, in walk order, named by its ':'-joined path, same device (kind and
   parameters) and ports; the names are pairwise distinct and so are the leaf paths *)
Theorem C16_leaves t f : wf_hier t = true -> flatten t = Ok (FNew f) ->
  map (fun fi => (fi_name fi, fi_dev fi, fi_dports fi)) (f_insts f)
  = map (fun l => (flat_name (lf_path l), lf_dev l, lf_ports l)) (leaves t)
  /\ NoDup (map fi_name (f_insts f)) /\ NoDup (map lf_path (leaves t)).
Proof.
  intros Hwf H. destruct (flatten_inv t f H) as [nodes [cl [Hw [Hc [-> _]]]]].
  destruct (leaves_preserved t nodes cl Hwf Hw Hc) as [L1 L2]. split; [exact L1|]. split; [exact L2|apply leaves_nodup; exact Hwf].
Qed.
Print Assumptions C16_leaves.

(* 2. m's ports unchanged (names, widths, order) *)
Theorem C16_ports_unchanged t f : flatten t = Ok (FNew f) -> f_ports f = h_ports t.
Proof. intros H. destruct (flatten_inv t f H) as [nodes [cl [_ [_ [-> _]]]]]. reflexivity. Qed.
Print Assumptions C16_ports_unchanged.

(* 3. two terminals (top ports, connected ports of leaf devices at any depth) are on one net of the hierarchy iff
      the corresponding terminals are on one net of the flattened module *)
Theorem C16_nets_preserved t f a b : wf_hier t = true -> flatten t = Ok (FNew f) ->
  In a (terminals t) -> In b (terminals t) ->
  (conn hnode (hstep t) a b <-> conn hnode (hstep (fmod_hmod f)) (tr a) (tr b)).
Proof.
  intros Hwf H. destruct (flatten_inv t f H) as [nodes [cl [Hw [Hc [-> _]]]]].
  exact (nets_preserved t nodes cl Hwf Hw Hc a b).
Qed.
Print Assumptions C16_nets_preserved.

(* ... and bit by bit: bit k of a and bit k' of b are on one net iff they are in the flattened module *)
Theorem C16_nets_preserved_bits t f a b k k' : wf_hier t = true -> flatten t = Ok (FNew f) ->
  In a (terminals t) -> In b (terminals t) ->
  (conn (hnode * Z) (hstep_bit t) (a, k) (b, k') <-> conn (hnode * Z) (hstep_bit (fmod_hmod f)) (tr a, k) (tr b, k')).
Proof.
  intros Hwf H Ha Hb. unfold hstep_bit. rewrite !conn_bits. rewrite (C16_nets_preserved t f a b Hwf H Ha Hb). reflexivity.
Qed.
Print Assumptions C16_nets_preserved_bits.

(* 4. a design flatten cannot flatten is rejected: a slice / concatenation connection anywhere in a non-flat hierarchy *)
Theorem C16_rejects_unsupported t : is_flat t = false -> existsb has_other (h_body t) = true -> exists e, flatten t = Error e.
Proof. exact (flatten_rejects_other t). Qed.
Print Assumptions C16_rejects_unsupported.

(* ... and two different hierarchical objects (signals, leaf instances) whose ':'-joined names coincide *)
Theorem C16_rejects_collision t nodes cl : is_flat t = false -> walk_top t = Ok (nodes, cl) ->
  (exists q q', In q (top_claims t ++ cl) /\ In q' (top_claims t ++ cl) /\ flat_name q = flat_name q' /\ q <> q') ->
  exists e, flatten t = Error e.
Proof. exact (flatten_rejects_collision t nodes cl). Qed.
Print Assumptions C16_rejects_collision.

(* ... and nothing else is rejected on account of names *)
Theorem C16_accepts_without_collision t nodes cl : is_flat t = false -> walk_top t = Ok (nodes, cl) ->
  (forall q q', In q (top_claims t ++ cl) -> In q' (top_claims t ++ cl) -> flat_name q = flat_name q' -> q = q') ->
  flatten t = Ok (FNew (build t nodes)).
Proof. exact (flatten_accepts t nodes cl). Qed.
Print Assumptions C16_accepts_without_collision.

(* ... so: a well-supported hierarchy (every connection a whole signal declared in its module) without a name
   collision is always flattened *)
Theorem C16_accepts_supported t : is_flat t = false -> supported t = true ->
  exists nodes cl, walk_top t = Ok (nodes, cl) /\
    ((forall q q', In q (top_claims t ++ cl) -> In q' (top_claims t ++ cl) -> flat_name q = flat_name q' -> q = q') ->
     flatten t = Ok (FNew (build t nodes))).
Proof.
  intros Ef Hs. destruct (walk_top_total t Hs) as [[nodes cl] Hw]. exists nodes, cl. split; [exact Hw|].
  intros Hinj. exact (flatten_accepts t nodes cl Ef Hw Hinj).
Qed.
Print Assumptions C16_accepts_supported.

(* 5. why the repair C16-2 is needed: the same algorithm WITHOUT the claim registry (the pinned code) joins two
      terminals that are on different nets of a well-formed hierarchy (top-level signal `l:x`, net x of instance l) *)
Theorem C16_unchecked_refuted :
  exists t f a b, wf_hier t = true /\ flatten_unchecked t = Ok f /\ In a (terminals t) /\ In b (terminals t) /\
                  ~ conn hnode (hstep t) a b /\ conn hnode (hstep (fmod_hmod f)) (tr a) (tr b).
Proof. exact unchecked_refuted. Qed.
Print Assumptions C16_unchecked_refuted.

(* ---------------- non-vacuity ---------------- *)
Definition ex_inner (leaf : name) (sig : name) : list hinst :=
  [ILeaf leaf "vlsir.primitives/resistor{r=1;}" [("p", 1); ("n", 1)] [("p", CSig "a"); ("n", CSig sig)]].
Definition ex_t (top_sig : name) : hmod :=
  {| h_ports := [("p", 1)]; h_sigs := [(top_sig, 1)];
     h_body := [ISub "l" [("a", 1)] [("x", 1)] (ex_inner "r" "x") [("a", CSig "p")];
                ISub "k" [("a", 1)] [("x", 1)] (ex_inner "r" "x") [("a", CSig top_sig)];
                ILeaf "r2" "vlsir.primitives/resistor{r=2;}" [("p", 1); ("n", 1)] [("p", CSig top_sig); ("n", CSig "p")]] |}.

Example C16_ex_wf : wf_hier (ex_t "s") = true /\ is_flat (ex_t "s") = false /\ supported (ex_t "s") = true.
Proof. repeat split; reflexivity. Qed.

Example C16_ex_flatten :
  flatten (ex_t "s") = Ok (FNew
    {| f_ports := [("p", 1)]; f_sigs := [("l:x", 1); ("s", 1); ("k:x", 1)];
       f_insts := [ {| fi_name := "l:r"; fi_dev := "vlsir.primitives/resistor{r=1;}"; fi_dports := [("p", 1); ("n", 1)];
                       fi_conns := [("p", "p"); ("n", "l:x")] |};
                    {| fi_name := "k:r"; fi_dev := "vlsir.primitives/resistor{r=1;}"; fi_dports := [("p", 1); ("n", 1)];
                       fi_conns := [("p", "s"); ("n", "k:x")] |};
                    {| fi_name := "r2"; fi_dev := "vlsir.primitives/resistor{r=2;}"; fi_dports := [("p", 1); ("n", 1)];
                       fi_conns := [("p", "s"); ("n", "p")] |} ] |}).
Proof. vm_compute. reflexivity. Qed.

Example C16_ex_terminals :
  terminals (ex_t "s") = [HSig [] "p"; HPort ["l"] "r" "p"; HPort ["l"] "r" "n"; HPort ["k"] "r" "p"; HPort ["k"] "r" "n";
                          HPort [] "r2" "p"; HPort [] "r2" "n"].
Proof. reflexivity. Qed.

(* the shared module `Inner` occurs twice; port a of instance k reaches the top-level signal s, that of l the port p *)
Example C16_ex_connected : conn hnode (hstep (ex_t "s")) (HPort ["k"] "r" "p") (HPort [] "r2" "p").
Proof.
  apply conn_meet. exists 3%nat, 1%nat. reflexivity.
Qed.

(* the designer name `l:x` for the top-level signal collides with net x of instance l: rejected, not shorted *)
Example C16_ex_collision : wf_hier (ex_t "l:x") = true /\ flatten (ex_t "l:x") = Error EName.
Proof. split; vm_compute; reflexivity. Qed.

Example C16_ex_collision_hyp :
  exists nodes cl, walk_top (ex_t "l:x") = Ok (nodes, cl) /\
    In ["l:x"] (top_claims (ex_t "l:x") ++ cl) /\ In ["x"; "l"] (top_claims (ex_t "l:x") ++ cl) /\
    flat_name ["l:x"] = flat_name ["x"; "l"].
Proof. eexists. eexists. split; [vm_compute; reflexivity|]. cbn. repeat split; tauto. Qed.

Example C16_ex_unsupported :
  let t := {| h_ports := [("p", 2)]; h_sigs := [];
              h_body := [ISub "l" [("a", 1)] [("x", 1)] (ex_inner "r" "x") [("a", COther)]] |} in
  is_flat t = false /\ existsb has_other (h_body t) = true /\ flatten t = Error EBadKind.
Proof. repeat split; reflexivity. Qed.
