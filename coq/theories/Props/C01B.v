(* Props/C01B.v — C01 on the BUNDLE fragment: nested / flipped / role-carrying bundles as ports and internal instances, bundle
   references, anonymous bundles, bundle-valued ports of arrays, Pair instance bundles.

   The end-to-end statement ("nets of the exported package = nets of the written design, same leaf devices") is evaluated inside
   Coq on the implementation's package for every generated design (Corr/C01B.v:chk_c01b): the design side by the path-based meaning
   Spec/C01BNets.v (no flattening, no invented names), the package side by Base/Package.v + Spec/Nets.v exactly as for the core
   fragment; terminals are matched through the naming model that C10 proves.  Proved here, for all inputs: *)
Require Import Hdl21.Base.PyInt Hdl21.Spec.PySlice Hdl21.Model.Slice Hdl21.Model.Resolve Hdl21.Base.Design
               Hdl21.Spec.Nets Hdl21.Base.Package Hdl21.Base.C01BDesign Hdl21.Spec.C01BNets Hdl21.Spec.C01BWf
               Hdl21.Spec.C01BLower Hdl21.Proofs.FunGraph Hdl21.Proofs.C01BProofs Hdl21.Proofs.C01BLowerProofs Hdl21.Corr.C01B.
Require Hdl21.Spec.BundleSpec.

(* 1. "on one net" in the bundle fragment = equivalence closure of the sentence "member m, bit k of a port ~ member m, bit k of
      what is connected to it" = "orbits meet" (FunGraph.conn_meet at the node type with member paths) *)
Theorem C01B_net_is_closure (f : bnode -> bnode) x y : conn bnode f x y <-> meet bnode f x y.
Proof. exact (conn_meet bnode f x y). Qed.
Print Assumptions C01B_net_is_closure.

(* 2. the executable relation of Spec/C01BNets.v decides it on every finite closed node set once the fuel reaches its size *)
Theorem C01B_same_net_decided d f nodes fuel x y :
  (forall x, In x nodes -> bstep d x = Ok (f x)) -> (forall x, In x nodes -> In (f x) nodes) ->
  (Datatypes.length nodes <= fuel)%nat -> In x nodes -> In y nodes ->
  ((exists ox oy, borbit d fuel x = Ok ox /\ borbit d fuel y = Ok oy /\ bmeets ox oy = true) <-> conn bnode f x y).
Proof. intros H1 H2. exact (bsame_net_decided d f nodes H1 H2 fuel x y). Qed.
Print Assumptions C01B_same_net_decided.

(* 3. conservative extension: on a design without bundles the one-step map IS Spec/Nets.step (errors included), hence the
      orbits and the net labels of any terminal list are those of the core fragment *)
Theorem C01B_conservative_step d n : bstep (embed d) (embed_node n) = rmap embed_node (step d n).
Proof. exact (bstep_embed d n). Qed.
Print Assumptions C01B_conservative_step.

Theorem C01B_conservative_labels d fuel ts : blabels (embed d) fuel (map embed_node ts) = labels d fuel ts.
Proof. exact (blabels_embed d fuel ts). Qed.
Print Assumptions C01B_conservative_labels.

(* 4. the one-step relation on a bundle-valued port, member-wise.  m is the module at path p, x its instance i, w the width of
      member mp of the port, 0 <= k < w. *)
(* 4a. connected to the bundle instance b (pre = []) or the sub-bundle reference b.pre: member pre ++ mp of b, same bit —
       for a single instance and for every element of an array (broadcast) *)
Theorem C01B_step_bundle_instance d p i e port mp k m x w b pre :
  bmod_at d p = Ok m -> find_binst (bm_insts m) i = Some x -> btarget_port_width d (bi_of x) port mp = Ok w -> 0 <= k < w ->
  bi_pair x = false -> bassoc port (bi_conns x) = Some (BXInst b pre) ->
  bstep d (NBPort p i e port mp k) = Ok (NBSig p b (pre ++ mp) k).
Proof. intros. eapply bstep_inst; eauto. Qed.
Print Assumptions C01B_step_bundle_instance.

(* 4b. connected to the bundle port p' of the sibling instance i': the same member of that port *)
Theorem C01B_step_bundle_portref d p i e port mp k m x w i' p' :
  bmod_at d p = Ok m -> find_binst (bm_insts m) i = Some x -> btarget_port_width d (bi_of x) port mp = Ok w -> 0 <= k < w ->
  bi_pair x = false -> bassoc port (bi_conns x) = Some (BXRef i' p') ->
  bstep d (NBPort p i e port mp k) = Ok (NBPort p i' 0 p' mp k).
Proof. intros. eapply bstep_ref; eauto. Qed.
Print Assumptions C01B_step_bundle_portref.

(* 4c. connected to a no-connect: every member bit of every array element is a fixed point — a net that contains nothing else *)
Theorem C01B_step_bundle_noconn d p i e port mp k m x w site :
  bmod_at d p = Ok m -> find_binst (bm_insts m) i = Some x -> btarget_port_width d (bi_of x) port mp = Ok w -> 0 <= k < w ->
  bi_pair x = false -> bassoc port (bi_conns x) = Some (BXNc site) ->
  bstep d (NBPort p i e port mp k) = Ok (NBPort p i e port mp k).
Proof. intros. eapply bstep_nc; eauto. Qed.
Print Assumptions C01B_step_bundle_noconn.

(* 4d. connected to an anonymous bundle: member n :: rest is member `rest` of what the anonymous bundle holds under n
       (a scalar expression is then read like a scalar connection: broadcast or per-element on arrays) *)
Theorem C01B_step_anonymous d p i e port n rest k m x ms sub :
  bmod_at d p = Ok m -> find_binst (bm_insts m) i = Some x -> bi_pair x = false ->
  bassoc port (bi_conns x) = Some (BXAnon ms) -> anon_find n ms = Some sub ->
  bstep d (NBPort p i e port (n :: rest) k) =
  (let wr := btarget_port_width d (bi_of x) port (n :: rest) in
   t <- member sub rest ;;
   match t with
   | MTSx cx => ij <- sx_bit (bi_n x) cx wr e k ;; leaf_node m p (NBPort p i e port (n :: rest) k) (fst ij) (snd ij)
   | MTSig b q => _ <- in_width wr k ;; Ok (NBSig p b q k)
   | MTRef i' p' q => _ <- in_width wr k ;; Ok (NBPort p i' 0 p' q k)
   | MTNc => _ <- in_width wr k ;; Ok (NBPort p i e port (n :: rest) k)
   end).
Proof. exact (bstep_anon d p i e port n rest k m x ms sub). Qed.
Print Assumptions C01B_step_anonymous.

(* 4e. a Pair: element p / n takes member p / n of a bundle-like connection *)
Theorem C01B_step_pair d p i e port k m x bx :
  bmod_at d p = Ok m -> find_binst (bm_insts m) i = Some x -> bi_pair x = true -> is_sx bx = false ->
  bassoc port (bi_conns x) = Some bx ->
  bstep d (NBPort p i e port [] k) =
  (let wr := btarget_port_width d (bi_of x) port [] in
   t <- member bx [pair_elem e] ;;
   match t with
   | MTSx cx => ij <- sx_bit 0 cx wr e k ;; leaf_node m p (NBPort p i e port [] k) (fst ij) (snd ij)
   | MTSig b q => _ <- in_width wr k ;; Ok (NBSig p b q k)
   | MTRef i' p' q => _ <- in_width wr k ;; Ok (NBPort p i' 0 p' q k)
   | MTNc => _ <- in_width wr k ;; Ok (NBPort p i e port [] k)
   end).
Proof. exact (bstep_pair_bundle d p i e port k m x bx). Qed.
Print Assumptions C01B_step_pair.

(* 4f. a member of a port bundle of a non-top module goes up to the same member of the port it was reached through *)
Theorem C01B_step_up d i e p' s mp k m : bmod_at d ((i, e) :: p') = Ok m -> is_bport m s mp = true ->
  bstep d (NBSig ((i, e) :: p') s mp k) = Ok (NBPort p' i e s mp k).
Proof. exact (bstep_up d i e p' s mp k m). Qed.
Print Assumptions C01B_step_up.

(* 5. THE LOWERING LEMMA.  `lower fl d` (Spec/C01BLower.v) flattens a bundle design member-wise into a design of the core
      fragment: bundle instances become one signal per member path, a bundle connection becomes one connection per member path
      (to the flat signal / member expression / flat port of the referred instance / a no-connect), a Pair becomes an array of
      two.  `fl` is ANY naming of members that is injective on every module (names_ok — what C10_names establishes for the
      implementation's naming).  The node map phi commutes with the one-step maps: flattening a connection member-wise joins
      exactly what the path-based meaning joins. *)
Theorem C01B_lower_step fl d n n' :
  names_ok fl d = true -> pairs_ok d = true -> bnode_ok d n = true ->
  bstep d n = Ok n' -> step (lower fl d) (phi fl n) = Ok (phi fl n').
Proof. intros Hn Hp. exact (lower_step fl d Hn Hp n n'). Qed.
Print Assumptions C01B_lower_step.

(* 5a. on the nodes of the design the flat names tell all members apart *)
Theorem C01B_phi_injective fl d a b :
  names_ok fl d = true -> bnode_ok d a = true -> bnode_ok d b = true -> phi fl a = phi fl b -> a = b.
Proof. intros Hn. exact (phi_inj fl d Hn a b). Qed.
Print Assumptions C01B_phi_injective.

(* 6. hence member-wise flattening preserves nets: on every closed set of nodes of the design, two nodes are joined by the
      bundle design's connections iff their images are joined by the flattened design's connections (Spec/Nets.v, total step) *)
Theorem C01B_lower_same_nets fl d (f : bnode -> bnode) (nodes : list bnode) :
  names_ok fl d = true -> pairs_ok d = true ->
  (forall x, In x nodes -> bstep d x = Ok (f x)) -> (forall x, In x nodes -> In (f x) nodes) ->
  (forall x, In x nodes -> bnode_ok d x = true) ->
  forall x y, In x nodes -> In y nodes ->
    (conn bnode f x y <-> conn node (stepf (lower fl d)) (phi fl x) (phi fl y)).
Proof. intros Hn Hp. exact (lower_same_nets fl d Hn Hp f nodes). Qed.
Print Assumptions C01B_lower_same_nets.

(* 6b. the executable labels agree, with hypotheses that are all DECIDABLE on the design (evaluated by Corr/C01B.v:chk_lower on
       every generated design): the naming is injective, Pair connections have members of the port's width, and every node on
       the orbits computed from the terminals is a node of the design.  No closed node set, no totality assumption. *)
Theorem C01B_lower_labels fl d fuel ts os :
  names_ok fl d = true -> pairs_ok d = true ->
  traverse (borbit d fuel) ts = Ok os -> forallb (forallb (bnode_ok d)) os = true ->
  labels (lower fl d) fuel (map (phi fl) ts) = blabels d fuel ts.
Proof. intros Hn Hp. exact (labels_lower_checked fl d Hn Hp fuel ts os). Qed.
Print Assumptions C01B_lower_labels.

(* 6a. ... and the executable labels agree: nets (lower d) ~ nets_b d on any list of terminals inside such a node set.
       PARTIAL in one respect (see notes/C01B.md): that the nodes reachable from the terminals of a VALID design (wf_bdesign)
       form such a closed, typed set on which bstep never fails is a hypothesis here, not derived from wf_bdesign; the
       correspondence run evaluates both sides on every generated design (Corr/C01B.v:chk_lower) and fails closed. *)
Theorem C01B_lower_labels_partial fl d (f : bnode -> bnode) (nodes : list bnode) fuel ts :
  names_ok fl d = true -> pairs_ok d = true ->
  (forall x, In x nodes -> bstep d x = Ok (f x)) -> (forall x, In x nodes -> In (f x) nodes) ->
  (forall x, In x nodes -> bnode_ok d x = true) -> (forall t, In t ts -> In t nodes) ->
  labels (lower fl d) fuel (map (phi fl) ts) = blabels d fuel ts.
Proof. intros Hn Hp H1 H2 H3. exact (labels_lower fl d Hn Hp f nodes H1 H2 H3 fuel ts). Qed.
Print Assumptions C01B_lower_labels_partial.

(* ---------- non-vacuity ---------- *)
(* the corpus design of the seeded change C01-C: scalar lo_q next to the nested member lo.q, held by Top and passed to Inner *)
Definition ex0 : bdesign :=
  {| bd_mods := [{| bm_name := "Inner"; bm_ports := []; bm_sigs := [];
     bm_bundles := [(true, (BundleSpec.BT "b" false 0%nat None [(BundleSpec.Build_leaf "lo_q" 1 false BundleSpec.DNone None None)] [(BundleSpec.BT "lo" false 0%nat None [(BundleSpec.Build_leaf "q" 1 false BundleSpec.DNone None None); (BundleSpec.Build_leaf "qb" 1 false BundleSpec.DNone None None)] []); (BundleSpec.BT "hi" false 0%nat None [(BundleSpec.Build_leaf "q" 1 false BundleSpec.DNone None None); (BundleSpec.Build_leaf "qb" 1 false BundleSpec.DNone None None)] [])]))];
     bm_insts := [{| bi_name := "l_scalar"; bi_n := 0; bi_pair := false; bi_of := (TDev "/Pin{tag=int:1;}" [("a", 1)]); bi_conns := [("a", (BXSx (XSig 0%N 1)))] |}; {| bi_name := "l_nested"; bi_n := 0; bi_pair := false; bi_of := (TDev "/Pin{tag=int:2;}" [("a", 1)]); bi_conns := [("a", (BXSx (XSig 1%N 1)))] |}; {| bi_name := "l_other"; bi_n := 0; bi_pair := false; bi_of := (TDev "/Pin{tag=int:3;}" [("a", 1)]); bi_conns := [("a", (BXSx (XSig 2%N 1)))] |}];
     bm_leaves := [(0%N, BLMem "b" ["lo_q"]); (1%N, BLMem "b" ["lo"; "q"]); (2%N, BLMem "b" ["hi"; "q"])] |}; {| bm_name := "Top"; bm_ports := []; bm_sigs := [];
     bm_bundles := [(false, (BundleSpec.BT "b" false 0%nat None [(BundleSpec.Build_leaf "lo_q" 1 false BundleSpec.DNone None None)] [(BundleSpec.BT "lo" false 0%nat None [(BundleSpec.Build_leaf "q" 1 false BundleSpec.DNone None None); (BundleSpec.Build_leaf "qb" 1 false BundleSpec.DNone None None)] []); (BundleSpec.BT "hi" false 0%nat None [(BundleSpec.Build_leaf "q" 1 false BundleSpec.DNone None None); (BundleSpec.Build_leaf "qb" 1 false BundleSpec.DNone None None)] [])]))];
     bm_insts := [{| bi_name := "inner"; bi_n := 0; bi_pair := false; bi_of := (TMod 0%nat); bi_conns := [("b", (BXInst "b" []))] |}; {| bi_name := "l_scalar"; bi_n := 0; bi_pair := false; bi_of := (TDev "/Pin{tag=int:1;}" [("a", 1)]); bi_conns := [("a", (BXSx (XSig 0%N 1)))] |}; {| bi_name := "l_nested"; bi_n := 0; bi_pair := false; bi_of := (TDev "/Pin{tag=int:2;}" [("a", 1)]); bi_conns := [("a", (BXSx (XSig 1%N 1)))] |}; {| bi_name := "l_other"; bi_n := 0; bi_pair := false; bi_of := (TDev "/Pin{tag=int:3;}" [("a", 1)]); bi_conns := [("a", (BXSx (XSig 2%N 1)))] |}];
     bm_leaves := [(0%N, BLMem "b" ["lo_q"]); (1%N, BLMem "b" ["lo"; "q"]); (2%N, BLMem "b" ["hi"; "q"])] |}]; bd_top := 1%nat |}.
Definition ex0_terms : list bnode :=
  [(NBPort [("inner", 0)] "l_scalar" 0 "a" [] 0); (NBPort [("inner", 0)] "l_nested" 0 "a" [] 0); (NBPort [("inner", 0)] "l_other" 0 "a" [] 0); (NBPort [] "l_scalar" 0 "a" [] 0); (NBPort [] "l_nested" 0 "a" [] 0); (NBPort [] "l_other" 0 "a" [] 0)].
Definition ex2 : bdesign :=
  {| bd_mods := [{| bm_name := "Leaf"; bm_ports := []; bm_sigs := [];
     bm_bundles := [(true, (BundleSpec.BT "bp" false 0%nat None [(BundleSpec.Build_leaf "x" 1 false BundleSpec.DNone None None); (BundleSpec.Build_leaf "y" 2 false BundleSpec.DNone None None)] []))];
     bm_insts := [{| bi_name := "e"; bi_n := 0; bi_pair := false; bi_of := (TDev "/Pin{tag=int:1;}" [("a", 1)]); bi_conns := [("a", (BXSx (XSig 0%N 1)))] |}; {| bi_name := "f"; bi_n := 0; bi_pair := false; bi_of := (TDev "/Pin2{tag=int:1;}" [("a", 2)]); bi_conns := [("a", (BXSx (XSig 1%N 2)))] |}];
     bm_leaves := [(0%N, BLMem "bp" ["x"]); (1%N, BLMem "bp" ["y"])] |}; {| bm_name := "Top"; bm_ports := []; bm_sigs := [];
     bm_bundles := [];
     bm_insts := [{| bi_name := "arr"; bi_n := 2; bi_pair := false; bi_of := (TMod 0%nat); bi_conns := [("bp", (BXNc 1%N))] |}];
     bm_leaves := [] |}]; bd_top := 1%nat |}.
Definition ex2_terms : list bnode :=
  [(NBPort [("arr", 0)] "e" 0 "a" [] 0); (NBPort [("arr", 0)] "f" 0 "a" [] 0); (NBPort [("arr", 0)] "f" 0 "a" [] 1); (NBPort [("arr", 1)] "e" 0 "a" [] 0); (NBPort [("arr", 1)] "f" 0 "a" [] 0); (NBPort [("arr", 1)] "f" 0 "a" [] 1)].


Example C01B_ex_coinciding_names :
  wf_bdesign ex0 = Ok tt /\ (exists ts, bterminals ex0 = Ok ts /\ map fst ts = ex0_terms) /\
  blabels ex0 (bdesign_fuel ex0) ex0_terms = Ok [0; 1; 2; 0; 1; 2].
Proof. split; [reflexivity|]. split; [eexists; split; vm_compute; reflexivity|vm_compute; reflexivity]. Qed.

(* a no-connect on a bundle port of an array: six terminal bits, six nets; the package of the repaired tree passes the
   evaluator, the package of the pinned tree (one broadcast bundle instance) is a violation *)
Example C01B_ex_array_noconn :
  wf_bdesign ex2 = Ok tt /\ blabels ex2 (bdesign_fuel ex2) ex2_terms = Ok [0; 1; 2; 3; 4; 5].
Proof. split; vm_compute; reflexivity. Qed.

Definition ex2_pkg_repaired : package :=
{| pk_domain := ""; pk_exts := [{| px_domain := ""; px_name := "Pin"; px_ports := [("a", 1, 3)]; px_spicetype := "SUBCKT" |}; {| px_domain := ""; px_name := "Pin2"; px_ports := [("a", 2, 3)]; px_spicetype := "SUBCKT" |}]; pk_mods := [{| pm_name := "__main__.Leaf"; pm_sigs := [("bp_x", 1); ("bp_y", 2)]; pm_ports := [("bp_x", 3); ("bp_y", 3)];
   pm_insts := [{| pi_name := "e"; pi_ref := (PExt "" "Pin"); pi_params := [("tag", "int:1")]; pi_conns := [("a", (PSig "bp_x"))] |}; {| pi_name := "f"; pi_ref := (PExt "" "Pin2"); pi_params := [("tag", "int:1")]; pi_conns := [("a", (PSig "bp_y"))] |}]; pm_literals := [] |}; {| pm_name := "__main__.Top"; pm_sigs := [("arr_bp_x", 2); ("arr_bp_y", 4)]; pm_ports := [];
   pm_insts := [{| pi_name := "arr_0"; pi_ref := (PLocal "__main__.Leaf"); pi_params := []; pi_conns := [("bp_x", (PSlice "arr_bp_x" 0 0)); ("bp_y", (PSlice "arr_bp_y" 1 0))] |}; {| pi_name := "arr_1"; pi_ref := (PLocal "__main__.Leaf"); pi_params := []; pi_conns := [("bp_x", (PSlice "arr_bp_x" 1 1)); ("bp_y", (PSlice "arr_bp_y" 3 2))] |}]; pm_literals := [] |}] |}.
Definition ex2_pkg_pinned : package :=
{| pk_domain := ""; pk_exts := [{| px_domain := ""; px_name := "Pin"; px_ports := [("a", 1, 3)]; px_spicetype := "SUBCKT" |}; {| px_domain := ""; px_name := "Pin2"; px_ports := [("a", 2, 3)]; px_spicetype := "SUBCKT" |}]; pk_mods := [{| pm_name := "__main__.Leaf"; pm_sigs := [("bp_x", 1); ("bp_y", 2)]; pm_ports := [("bp_x", 3); ("bp_y", 3)];
   pm_insts := [{| pi_name := "e"; pi_ref := (PExt "" "Pin"); pi_params := [("tag", "int:1")]; pi_conns := [("a", (PSig "bp_x"))] |}; {| pi_name := "f"; pi_ref := (PExt "" "Pin2"); pi_params := [("tag", "int:1")]; pi_conns := [("a", (PSig "bp_y"))] |}]; pm_literals := [] |}; {| pm_name := "__main__.Top"; pm_sigs := [("arr_bp_x", 1); ("arr_bp_y", 2)]; pm_ports := [];
   pm_insts := [{| pi_name := "arr_0"; pi_ref := (PLocal "__main__.Leaf"); pi_params := []; pi_conns := [("bp_x", (PSig "arr_bp_x")); ("bp_y", (PSig "arr_bp_y"))] |}; {| pi_name := "arr_1"; pi_ref := (PLocal "__main__.Leaf"); pi_params := []; pi_conns := [("bp_x", (PSig "arr_bp_x")); ("bp_y", (PSig "arr_bp_y"))] |}]; pm_literals := [] |}] |}.

Example C01B_ex_evaluator :
  chk_c01b {| cb_design := ex2; cb_terms := ex2_terms; cb_pkg := Some ex2_pkg_repaired; cb_top := "__main__.Top" |} = 0 /\
  chk_c01b {| cb_design := ex2; cb_terms := ex2_terms; cb_pkg := Some ex2_pkg_pinned; cb_top := "__main__.Top" |} = 1.
Proof. split; vm_compute; reflexivity. Qed.

(* conservative extension is not idle: the core corpus design `i0 = Inner(a=bus[0]); i1 = Inner(a=i0.a)` *)
Definition ex_core : design :=
  {| d_mods := [{| m_name := "Inner"; m_ports := [("a", 1)]; m_sigs := [("z", 1)];
                   m_insts := [{| i_name := "r"; i_n := 0; i_of := TDev "R" [("p", 1); ("n", 1)];
                                  i_conns := [("p", XSig 0%N 1); ("n", XSig 1%N 1)] |}];
                   m_leaves := [(0%N, LSig "a"); (1%N, LSig "z")] |};
                {| m_name := "Top"; m_ports := []; m_sigs := [("bus", 2)];
                   m_insts := [{| i_name := "i0"; i_n := 0; i_of := TMod 0%nat; i_conns := [("a", XSlice (XSig 0%N 2) (Idx 0))] |};
                               {| i_name := "i1"; i_n := 0; i_of := TMod 0%nat; i_conns := [("a", XSig 1%N 1)] |}];
                   m_leaves := [(0%N, LSig "bus"); (1%N, LRef "i0" "a")] |}]; d_top := 1%nat |}.
Example C01B_ex_conservative :
  exists ts, terminals ex_core = Ok ts /\
    blabels (embed ex_core) (design_fuel ex_core) (map embed_node (map fst ts)) = Ok [0; 1; 0; 3].
Proof. eexists. split; vm_compute; reflexivity. Qed.

(* the lowering lemma is not idle: the coinciding-names design under the injective naming b.m1.m2 satisfies its hypotheses,
   and the flattened design has the same nets; the joined naming b_m1_m2 is NOT injective there (lo_q / lo.q) *)
Fixpoint us_join (l : list name) : name := match l with [] => "" | x :: r => sapp "_" (sapp x (us_join r)) end.
Definition us_name (b : name) (q : mpath) : name := sapp b (us_join q).
Example C01B_ex_lowering :
  names_ok dot_name ex0 = true /\ pairs_ok ex0 = true /\ forallb (bnode_ok ex0) ex0_terms = true /\
  (exists os, traverse (borbit ex0 (bdesign_fuel ex0)) ex0_terms = Ok os /\ forallb (forallb (bnode_ok ex0)) os = true) /\
  labels (lower dot_name ex0) (bdesign_fuel ex0) (map (phi dot_name) ex0_terms) = Ok [0; 1; 2; 0; 1; 2] /\
  names_ok us_name ex0 = false.
Proof. repeat split; try (vm_compute; reflexivity). eexists. split; vm_compute; reflexivity. Qed.

(* Pairs: a Diff bundle, anonymous bundles {p, n}, a scalar, a no-connect *)
Definition ex_pair : bdesign :=
  {| bd_mods := [{| bm_name := "R2"; bm_ports := [("a", 1); ("b", 2)]; bm_sigs := [];
     bm_bundles := [];
     bm_insts := [{| bi_name := "e"; bi_n := 0; bi_pair := false; bi_of := (TDev "/Pin{tag=int:1;}" [("a", 1)]); bi_conns := [("a", (BXSx (XSig 0%N 1)))] |}; {| bi_name := "f"; bi_n := 0; bi_pair := false; bi_of := (TDev "/Pin2{tag=int:1;}" [("a", 2)]); bi_conns := [("a", (BXSx (XSig 1%N 2)))] |}];
     bm_leaves := [(0%N, BLSig "a"); (1%N, BLSig "b")] |}; {| bm_name := "T1"; bm_ports := []; bm_sigs := [("s", 1); ("w", 2); ("v", 2)];
     bm_bundles := [(false, (BundleSpec.BT "d" false 0%nat None [(BundleSpec.Build_leaf "p" 1 false BundleSpec.DNone (Some "SOURCE") (Some "SINK")); (BundleSpec.Build_leaf "n" 1 false BundleSpec.DNone (Some "SOURCE") (Some "SINK"))] []))];
     bm_insts := [{| bi_name := "pr"; bi_n := 0; bi_pair := true; bi_of := (TMod 0%nat); bi_conns := [("a", (BXInst "d" [])); ("b", (BXAnon [("p", (BXSx (XSig 0%N 2))); ("n", (BXSx (XSig 1%N 2)))]))] |}; {| bi_name := "pq"; bi_n := 0; bi_pair := true; bi_of := (TMod 0%nat); bi_conns := [("a", (BXSx (XSig 2%N 1))); ("b", (BXSx (XSig 3%N 2)))] |}; {| bi_name := "pz"; bi_n := 0; bi_pair := true; bi_of := (TMod 0%nat); bi_conns := [("a", (BXAnon [("p", (BXSx (XSig 4%N 1))); ("n", (BXSx (XSig 5%N 1)))])); ("b", (BXSx (XSig 0%N 2)))] |}];
     bm_leaves := [(0%N, BLSig "w"); (1%N, BLSig "v"); (2%N, BLSig "s"); (3%N, BLNc 1%N); (4%N, BLMem "d" ["n"]); (5%N, BLMem "d" ["p"])] |}]; bd_top := 1%nat |}.
Definition ex_pair_terms : list bnode :=
  [(NBPort [("pr", 0)] "e" 0 "a" [] 0); (NBPort [("pr", 0)] "f" 0 "a" [] 0); (NBPort [("pr", 0)] "f" 0 "a" [] 1); (NBPort [("pr", 1)] "e" 0 "a" [] 0); (NBPort [("pr", 1)] "f" 0 "a" [] 0); (NBPort [("pr", 1)] "f" 0 "a" [] 1); (NBPort [("pq", 0)] "e" 0 "a" [] 0); (NBPort [("pq", 0)] "f" 0 "a" [] 0); (NBPort [("pq", 0)] "f" 0 "a" [] 1); (NBPort [("pq", 1)] "e" 0 "a" [] 0); (NBPort [("pq", 1)] "f" 0 "a" [] 0); (NBPort [("pq", 1)] "f" 0 "a" [] 1); (NBPort [("pz", 0)] "e" 0 "a" [] 0); (NBPort [("pz", 0)] "f" 0 "a" [] 0); (NBPort [("pz", 0)] "f" 0 "a" [] 1); (NBPort [("pz", 1)] "e" 0 "a" [] 0); (NBPort [("pz", 1)] "f" 0 "a" [] 0); (NBPort [("pz", 1)] "f" 0 "a" [] 1)].

Example C01B_ex_pairs :
  wf_bdesign ex_pair = Ok tt /\ names_ok dot_name ex_pair = true /\ pairs_ok ex_pair = true /\
  blabels ex_pair (bdesign_fuel ex_pair) ex_pair_terms = Ok [0; 1; 2; 3; 4; 5; 6; 7; 8; 6; 10; 11; 3; 1; 2; 0; 1; 2] /\
  labels (lower dot_name ex_pair) (bdesign_fuel ex_pair) (map (phi dot_name) ex_pair_terms)
  = Ok [0; 1; 2; 3; 4; 5; 6; 7; 8; 6; 10; 11; 3; 1; 2; 0; 1; 2].
Proof. repeat split; vm_compute; reflexivity. Qed.
